/-
C20: the slice of Python's value semantics that the hand-written text readers of sourmash lean on
(`manifest.py`, `picklist.py`, `sbt.py`, `lca/lca_db.py`, `save_load.py`).

* `Cls`   : the exception classes that can come out of the modelled readers (Python class names);
* `R α`   : outcome of a reader step: a value, `exc c` (the Python exception of class `c` is raised
            at this point) or `unmodelled why` (the model declines to predict: the input leaves the
            modelled fragment of a *trusted primitive*, e.g. non-ASCII digits in `int(str)`);
* `J`     : a decoded JSON document as `json.load` hands it to the reader (ints are unbounded,
            floats are exact binary rationals or nan/±inf, object keys are unique, in file order);
* `int(x)`, `float(x)` (decision procedures for the comparisons the readers make with the result),
  `x[k]`, `k in x`, `x.items()`, iteration, truthiness: branch for branch what CPython 3 does on the
  JSON-representable values.

Strings are `List Char` (code points).  Everything here is structurally recursive: no fuel, no
`partial`.
-/
namespace Sm.Py

inductive Cls where
  | ValueError | TypeError | KeyError | AttributeError | IndexError | OverflowError | AssertionError
  | SyntaxError | MemoryError | RecursionError | CsvError | UnicodeDecodeError
  | IndexNotSupported | IndexNotLoaded | FileNotFoundError | IsADirectoryError | NotADirectoryError
  | OSError | ModuleNotFoundError | Exception
  | DatabaseError | OperationalError | Panic | SourmashError | JSONDecodeError
  | EOFError | ZlibError | BadGzipFile
  | Io | Internal | Msg | Unknown | Utf8Error | SerdeError | StorageError | Other
deriving Repr, DecidableEq, Inhabited

def Cls.name : Cls → String
  | .ValueError => "ValueError" | .TypeError => "TypeError" | .KeyError => "KeyError"
  | .AttributeError => "AttributeError" | .IndexError => "IndexError" | .OverflowError => "OverflowError"
  | .AssertionError => "AssertionError" | .SyntaxError => "SyntaxError" | .MemoryError => "MemoryError"
  | .RecursionError => "RecursionError" | .CsvError => "Error" | .UnicodeDecodeError => "UnicodeDecodeError"
  | .IndexNotSupported => "IndexNotSupported" | .IndexNotLoaded => "IndexNotLoaded"
  | .FileNotFoundError => "FileNotFoundError" | .IsADirectoryError => "IsADirectoryError"
  | .NotADirectoryError => "NotADirectoryError" | .OSError => "OSError"
  | .ModuleNotFoundError => "ModuleNotFoundError" | .Exception => "Exception"
  | .DatabaseError => "DatabaseError" | .OperationalError => "OperationalError" | .Panic => "Panic"
  | .SourmashError => "SourmashError" | .JSONDecodeError => "JSONDecodeError"
  | .EOFError => "EOFError" | .ZlibError => "error" | .BadGzipFile => "BadGzipFile"
  | .Io => "Io" | .Internal => "Internal" | .Msg => "Msg" | .Unknown => "Unknown" | .Utf8Error => "Utf8Error"
  | .SerdeError => "SerdeError" | .StorageError => "StorageError" | .Other => "Other"

def Cls.all : List Cls :=
  [.ValueError, .TypeError, .KeyError, .AttributeError, .IndexError, .OverflowError, .AssertionError,
   .SyntaxError, .MemoryError, .RecursionError, .CsvError, .UnicodeDecodeError, .IndexNotSupported,
   .IndexNotLoaded, .FileNotFoundError, .IsADirectoryError, .NotADirectoryError, .OSError,
   .ModuleNotFoundError, .Exception, .DatabaseError, .OperationalError, .Panic, .SourmashError,
   .JSONDecodeError, .EOFError, .ZlibError, .BadGzipFile, .Io, .Internal, .Msg, .Unknown, .Utf8Error,
   .SerdeError, .StorageError, .Other]

def Cls.ofName (s : String) : Option Cls := Cls.all.find? (fun c => c.name == s)

/-- `issubclass(c, ValueError)` for the classes above (UnicodeDecodeError < UnicodeError < ValueError;
    json.JSONDecodeError < ValueError) -/
def Cls.isValueError : Cls → Bool
  | .ValueError | .UnicodeDecodeError | .JSONDecodeError => true
  | _ => false

inductive Stop where
  | exc (c : Cls)
  | unmodelled (why : String)
deriving Repr, DecidableEq

abbrev R (α : Type) := Except Stop α

def raise {α : Type} (c : Cls) : R α := .error (.exc c)
def decline {α : Type} (why : String) : R α := .error (.unmodelled why)

/-! ### strings -/

/-- ASCII whitespace for `str.strip()` / `str.rstrip()` (`Py_UNICODE_ISSPACE`: includes the separators 0x1c–0x1f) -/
def isWs (c : Char) : Bool :=
  c == ' ' || c == '\t' || c == '\n' || c == '\r' || c.toNat == 11 || c.toNat == 12 ||
  (28 ≤ c.toNat && c.toNat ≤ 31)

/-- ASCII whitespace `int(str)` / `float(str)` skip at both ends (`Py_ISSPACE`: 0x1c–0x1f are NOT skipped) -/
def isWsNum (c : Char) : Bool :=
  c == ' ' || c == '\t' || c == '\n' || c == '\r' || c.toNat == 11 || c.toNat == 12

def lstripNum : List Char → List Char
  | [] => []
  | c :: cs => if isWsNum c then lstripNum cs else c :: cs

def stripNum (s : List Char) : List Char := (lstripNum (lstripNum s).reverse).reverse

def isAscii (c : Char) : Bool := c.toNat < 128

def allAscii (s : List Char) : Bool := s.all isAscii

def lstrip : List Char → List Char
  | [] => []
  | c :: cs => if isWs c then lstrip cs else c :: cs

def rstrip (s : List Char) : List Char := (lstrip s.reverse).reverse

def strip (s : List Char) : List Char := rstrip (lstrip s)

def startsWith : List Char → List Char → Bool
  | _, [] => true
  | [], _ :: _ => false
  | c :: cs, p :: ps => c == p && startsWith cs ps

/-- `needle in hay` for two strings -/
def isInfix (needle : List Char) : List Char → Bool
  | [] => needle.isEmpty
  | c :: cs => startsWith (c :: cs) needle || isInfix needle cs

/-- `s.split(sep)[0]` for a one-character separator -/
def beforeFirst (sep : Char) : List Char → List Char
  | [] => []
  | c :: cs => if c == sep then [] else c :: beforeFirst sep cs

/-- `s.split(sep)` for a one-character separator -/
def splitOn1 (sep : Char) : List Char → List (List Char)
  | [] => [[]]
  | c :: cs =>
    match splitOn1 sep cs with
    | [] => [[c]]          -- unreachable: the result is never empty
    | p :: ps => if c == sep then [] :: p :: ps else (c :: p) :: ps

def lower (c : Char) : Char := if 'A' ≤ c ∧ c ≤ 'Z' then Char.ofNat (c.toNat + 32) else c

def digitVal (c : Char) : Option Nat := if '0' ≤ c ∧ c ≤ '9' then some (c.toNat - 48) else none

def isDigit (c : Char) : Bool := (digitVal c).isSome

/-- `digit ('_'? digit)*` consumed greedily from the front: (value, number of digit characters, rest).
    `none` when the text does not start with a digit or an underscore is not followed by a digit. -/
def digitsU : List Char → Option (Nat × Nat × List Char)
  | [] => none
  | c :: cs =>
    match digitVal c with
    | none => none
    | some d => go d 1 cs
where
  go (acc n : Nat) : List Char → Option (Nat × Nat × List Char)
    | [] => some (acc, n, [])
    | c :: cs =>
      match digitVal c with
      | some d => go (acc * 10 + d) (n + 1) cs
      | none =>
        if c == '_' then
          match cs with
          | c2 :: cs2 =>
            match digitVal c2 with
            | some d => go (acc * 10 + d) (n + 1) cs2
            | none => none
          | [] => none
        else some (acc, n, c :: cs)

/-- CPython's limit on decimal digits in `int(str)` (sys.int_info.default_max_str_digits) -/
def maxStrDigits : Nat := 4300

/-- an optional sign: (negative?, rest) -/
def signSplit : List Char → Bool × List Char
  | '-' :: r => (true, r)
  | '+' :: r => (false, r)
  | r => (false, r)

/-- `int(s)` for a `str` (base 10) -/
def pyIntStr (s : List Char) : R Int :=
  if !allAscii s then decline "int(str): non-ASCII text" else
  let p := signSplit (stripNum s)
  match digitsU p.2 with
  | some (v, n, []) =>
    if n > maxStrDigits then raise .ValueError
    else pure (if p.1 then -(Int.ofNat v) else Int.ofNat v)
  | _ => raise .ValueError

/-! ### `float(str)`: just enough to decide the comparisons the readers make -/

/-- a parsed float literal: sign, and either a decimal `mant * 10^exp10` or a special -/
inductive PF where
  | fin (neg : Bool) (mant : Nat) (exp10 : Int)
  | inf (neg : Bool)
  | nan
deriving Repr, DecidableEq

def lowerAll (s : List Char) : List Char := s.map lower

/-- leading digits (possibly none): (value, count, rest) -/
def optDigits (s : List Char) : Nat × Nat × List Char :=
  match digitsU s with
  | some r => r
  | none => (0, 0, s)

/-- an optional `.digits` part: (value, count, rest) -/
def fracPart : List Char → Nat × Nat × List Char
  | '.' :: r => optDigits r
  | r => (0, 0, r)

/-- an optional exponent part `e[+-]digits` that must reach the end of the text -/
def expPart : List Char → Option Int
  | [] => some 0
  | e :: r =>
    if e == 'e' || e == 'E' then
      let q := signSplit r
      match digitsU q.2 with
      | some (ev, _, []) => some (if q.1 then -(Int.ofNat ev) else Int.ofNat ev)
      | _ => none
    else none

/-- `float(s)` for a `str`: grammar of CPython's `float()` (ASCII, no underscores: those are declined) -/
def pyFloatStr (s : List Char) : R PF :=
  if !allAscii s then decline "float(str): non-ASCII text" else
  if s.contains '_' then decline "float(str): underscores" else
  let p := signSplit (stripNum s)
  let lb := lowerAll p.2
  if lb == "inf".toList || lb == "infinity".toList then pure (.inf p.1) else
  if lb == "nan".toList then pure .nan else
  let ip := optDigits p.2
  let fp := fracPart ip.2.2
  if ip.2.1 + fp.2.1 == 0 then raise .ValueError else
  match expPart fp.2.2 with
  | some ex => pure (.fin p.1 (ip.1 * 10 ^ fp.2.1 + fp.1) (ex - Int.ofNat fp.2.1))
  | none => raise .ValueError

/-- exponents beyond this are declined (the cross-multiplication below would build 10^k) -/
def maxExp10 : Nat := 5000

/-- `float(s) == 1.0` under IEEE round-to-nearest-even: the decimal value lies in
    `[1 - 2^-54, 1 + 2^-53]` (both ends are ties that round to the even neighbour 1.0) -/
def pfEqOne : PF → R Bool
  | .nan => pure false
  | .inf _ => pure false
  | .fin neg m e =>
    if m == 0 then pure false else
    if neg then pure false else
    if e ≥ 0 then
      if e.toNat > maxExp10 then decline "float(str): huge exponent" else
      pure (m * 10 ^ e.toNat == 1)
    else
      let k := (-e).toNat
      if k > maxExp10 then decline "float(str): huge exponent" else
      pure ((2 ^ 54 - 1) * 10 ^ k ≤ 2 ^ 54 * m && 2 ^ 53 * m ≤ (2 ^ 53 + 1) * 10 ^ k)

/-- `float(s) < 2.0`: the decimal value lies strictly below the tie `2 - 2^-53` (which rounds to 2.0) -/
def pfLtTwo : PF → R Bool
  | .nan => pure false
  | .inf neg => pure neg
  | .fin neg m e =>
    if m == 0 then pure true else
    if neg then pure true else
    if e ≥ 0 then
      if e.toNat > maxExp10 then decline "float(str): huge exponent" else
      pure (m * 10 ^ e.toNat < 2)
    else
      let k := (-e).toNat
      if k > maxExp10 then decline "float(str): huge exponent" else
      pure (2 ^ 53 * m < (2 ^ 54 - 1) * 10 ^ k)

/-! ### JSON values -/

inductive J where
  | null
  | bool (b : Bool)
  | int (i : Int)
  | flt (num : Int) (den : Nat)        -- a finite double, exactly: num / den, den > 0
  | nan
  | inf (neg : Bool)
  | str (s : List Char)
  | arr (xs : List J)
  | obj (kvs : List (List Char × J))
deriving Repr, Inhabited

mutual
/-- size of a document: one per node plus the characters of strings and keys -/
def J.size : J → Nat
  | .arr xs => 1 + sizeL xs
  | .obj kvs => 1 + sizeO kvs
  | .str s => 1 + s.length
  | _ => 1
def sizeL : List J → Nat
  | [] => 0
  | x :: xs => x.size + sizeL xs
def sizeO : List (List Char × J) → Nat
  | [] => 0
  | (k, v) :: r => (1 + k.length) + v.size + sizeO r
end

def lookup (k : List Char) : List (List Char × J) → Option J
  | [] => none
  | (k', v) :: r => if k' == k then some v else lookup k r

def J.isObj : J → Bool
  | .obj _ => true
  | _ => false

/-- `bool(x)` -/
def J.truthy : J → Bool
  | .null => false
  | .bool b => b
  | .int i => i != 0
  | .flt n _ => n != 0
  | .nan => true
  | .inf _ => true
  | .str s => !s.isEmpty
  | .arr xs => !xs.isEmpty
  | .obj kvs => !kvs.isEmpty

/-- `x[k]` for a literal string key `k` -/
def getKey (x : J) (k : List Char) : R J :=
  match x with
  | .obj kvs =>
    match lookup k kvs with
    | some v => pure v
    | none => raise .KeyError
  | _ => raise .TypeError        -- list/str: indices must be integers; None/number: not subscriptable

/-- `x[0]` -/
def getIdx0 (x : J) : R J :=
  match x with
  | .obj _ => raise .KeyError    -- JSON object keys are strings: `0` is never a key
  | .arr [] => raise .IndexError
  | .arr (v :: _) => pure v
  | .str [] => raise .IndexError
  | .str (c :: _) => pure (.str [c])
  | _ => raise .TypeError

/-- `x.get(k, default)` for a dict; anything else has no `.get` -/
def getOr (x : J) (k : List Char) (dflt : J) : R J :=
  match x with
  | .obj kvs => pure ((lookup k kvs).getD dflt)
  | _ => raise .AttributeError

/-- `k in x` for a literal string `k` -/
def strIn (k : List Char) (x : J) : R Bool :=
  match x with
  | .obj kvs => pure ((lookup k kvs).isSome)
  | .str s => pure (isInfix k s)
  | .arr xs => pure (xs.any (fun v => match v with | .str s => s == k | _ => false))
  | _ => raise .TypeError        -- argument of type 'int' / 'NoneType' ... is not iterable

/-- `x.items()` -/
def items (x : J) : R (List (List Char × J)) :=
  match x with
  | .obj kvs => pure kvs
  | _ => raise .AttributeError

/-- `iter(x)` as a list -/
def iter (x : J) : R (List J) :=
  match x with
  | .arr xs => pure xs
  | .str s => pure (s.map (fun c => .str [c]))
  | .obj kvs => pure (kvs.map (fun kv => .str kv.1))
  | _ => raise .TypeError

def J.hashable : J → Bool
  | .arr _ => false
  | .obj _ => false
  | _ => true

/-- `float(n)` for an int raises OverflowError from here on: the value rounds to 2^1024 -/
def floatOverflowAt : Nat := 2 ^ 1024 - 2 ^ 970

/-- `int(x)` -/
def pyInt (x : J) : R Int :=
  match x with
  | .int i => pure i
  | .bool b => pure (if b then 1 else 0)
  | .flt n d => pure (Int.tdiv n (Int.ofNat d))
  | .nan => raise .ValueError
  | .inf _ => raise .OverflowError
  | .str s => pyIntStr s
  | _ => raise .TypeError

/-- the comparison `float(x) < 2.0` (with the exceptions `float(x)` raises) -/
def pyFloatLtTwo (x : J) : R Bool :=
  match x with
  | .int i => if i.natAbs ≥ floatOverflowAt then raise .OverflowError else pure (i < 2)
  | .bool _ => pure true
  | .flt n d => pure (n < 2 * Int.ofNat d)
  | .nan => pure false
  | .inf neg => pure neg
  | .str s => do
    let pf ← pyFloatStr s
    pfLtTwo pf
  | _ => raise .TypeError

/-- round a natural number to 53 significant bits, ties to even (what `float(n)` keeps of `n`) -/
def round53 (n : Nat) : Nat :=
  let bits := Nat.log2 n + 1
  if n == 0 || bits ≤ 53 then n else
  let sh := bits - 53
  let q := n >>> sh
  let r := n - (q <<< sh)
  let half := 1 <<< (sh - 1)
  let q' := if r > half || (r == half && q % 2 == 1) then q + 1 else q
  q' <<< sh

end Sm.Py
