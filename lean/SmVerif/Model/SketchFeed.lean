/-
C14 composed with C02: what `command_compute.add_seq` does to ONE sketch of the set the factory
built, with the sequence -> hashes path of `Model/SeqToHashes.lean` (C02) as the hash source.

  add_seq(sigs, seq, input_is_protein, check_sequence):  sig.add_protein(seq)  or
                                                         sig.add_sequence(seq, not check_sequence)
  Signature::add_sequence / add_protein -> Sketch::LargeMinHash(mh) -> SigsTrait default methods:
      for hash_value in SeqToHashes::new(seq, self.ksize(), force, is_protein, self.hash_function(), self.seed())
          Ok(0) => continue, Ok(x) => self.add_hash(x), Err(e) => return Err(e)

The same default methods serve `KmerMinHash` (the sketch `MinHash(...)` creates directly), so
both sides are `feed` below, instantiated with the respective `add_many`.  The FFI receives the
record as a C string (`Seq.Py.cstr`: it ends at the first NUL).  The first error ends the
command (`sys.exit(-1)`); the hashes offered before it HAVE been added.
-/
import SmVerif.Model.SketchParams
import SmVerif.Model.SeqToHashes
import SmVerif.Model.Murmur3

namespace Sm.Sketch

def Mol.toHashFn : Mol → Seq.HashFn
  | .dna => .dna | .protein => .protein | .dayhoff => .dayhoff | .hp => .hp

/-- what the input records are: nucleotides (`sketch dna`, `sketch translate`) or amino acids
    (`sketch protein`) -/
inductive Input where
  | dna | protein
deriving DecidableEq, Repr

/-- the hashes one record offers to a sketch with k-mer size `k` (Rust-level: ×3 for the protein
    alphabets) and molecule type `hf`, and how the loop over them ended -/
def runOf (hash : List Nat → Nat) (k : Nat) (hf : Seq.HashFn) (input : Input) (force : Bool)
    (record : List Nat) : List Nat × Seq.Stop :=
  match input with
  | .dna => Seq.addSequence hash (Seq.Py.cstr record) k force hf
  | .protein => Seq.addProtein hash (Seq.Py.cstr record) k hf

/-- record after record into one sketch; stops after the first record whose loop did not end normally -/
def feed {σ : Type} (addMany : σ → List Nat → σ) : σ → List (List Nat × Seq.Stop) → σ × Seq.Stop
  | s, [] => (s, .done)
  | s, (hs, stop) :: rest =>
    if stop = .done then feed addMany (addMany s hs) rest else (addMany s hs, stop)

/-- the records of a file into the tree-backed sketch the factory built (current source) -/
def feedBT (hashS : Nat → List Nat → Nat) (b : BT) (hf : Seq.HashFn) (input : Input) (force : Bool)
    (records : List (List Nat)) : BT × Seq.Stop :=
  feed BT.addManyFix b (records.map (runOf (hashS b.seed) b.ksize hf input force))

/-- the same records into the array-backed sketch `MinHash(...)` creates -/
def feedMH (hashS : Nat → List Nat → Nat) (v : MH) (hf : Seq.HashFn) (input : Input) (force : Bool)
    (records : List (List Nat)) : MH × Seq.Stop :=
  feed MH.addMany v (records.map (runOf (hashS v.seed) v.ksize hf input force))

end Sm.Sketch
