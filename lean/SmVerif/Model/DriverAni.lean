/-
Driver for the `ani` correspondence stream (C17).  Floats travel as the decimal value of their
IEEE-754 bit pattern; `N` = None.

  c2d   <c> <k> <scaled> <n> <pthr|N>                         containment_to_distance(c, k, scaled, n_unique_kmers=n, prob_threshold=pthr)
  c2dci <c> <k> <scaled> <n> <pthr|N> <conf> <lo|N> <hi|N>     the same with estimate_ci=True; lo/hi = (dist_low, dist_high) brentq produced (INPUT)
  j2d   <j> <k> <scaled> <n> <pthr|N> <ethr|N>                jaccard_to_distance(...)
  res ani <dist> <p> <pthr|N> <size>                          ANIResult(...)            (size = size_is_inaccurate)
  res jac <dist> <p> <pthr|N> <size> <je|N> <jethr|N>         jaccardANIResult(...)
  res ci  <dist> <p> <pthr|N> <size> <lo|N> <hi|N>            ciANIResult(...)
  mh <kind> <lenA> <lenB> <common> <scaled> <k> <accA> <accB> <v1> <v2>
        kind ∈ cont max avg jac; v1 = A.f(B), v2 = B.f(A) (f = contained_by / max_containment / jaccard), acc = size_is_accurate()
  cls <lenA> <lenB> <common> <extraA> <extraB> <scaledA> <scaledB> <k> <cmp_scaled|-> <ci> <conf> <17 tokens>
        FracMinHashComparison / PrefetchResult / GatherResult / SearchResult on two sketches; the 17 tokens are the MinHash-level
        answers on the sketches downsampled to the comparison scaled (acc1 acc2, containment_ani A->B, B->A, max_containment_ani:
        ani lo hi px each, jaccard_ani: ani px jx) -- INPUTS; the model derives every class-level field from them
  cmpani <lenA> <lenB> <common> <scaled> <k> <par> <acc1> <acc2> <c12> <c21> <mc> <j|E..>
        the compare-level ANI entry points on [A, B]: compare_all_pairs(return_ani=True) serial and (par=1) n_jobs=2, compare_serial,
        compare_serial_containment / _max_containment / _avg_containment(return_ani=True); the MinHash-level `.ani` values are INPUTS
  clsnum <lenA> <lenB> <common> <num> <k>                     NumMinHashComparison / SearchResult on num sketches
  sia <len> <scaled> <rel> <conf> <cdfHi> <cdfLo> <pmfLo|N>    MinHash(len hashes, scaled).size_is_accurate(rel, conf); the three scipy
        results are INPUTS; the model reproduces which scipy calls are made, with which arguments, the probability and the answer
  pyvar <L> <k> <r1>                                          distance_utils.var_n_mutated(L, k, r1)
  nat ani|inc-ani <c> <k>            nat q <k> <r1>           nat exp|var|exp2 <L> <k> <r1>       nat pnc <ani> <k> <scaled> <n>
        the native twin src/core/src/ani_utils.rs, executed by rust-harness (`smharness ani`), modelled operation by operation
  nat ci|inc-ci <c> <k> <scaled> <n> <conf|N> <alo> <ahi>     nat probit <p> <z>
        statrs / roots are not modelled: the model answers the two exact branches of `ani_ci_from_containment` itself and
        otherwise echoes the pasted result (these ops are judged by the oracle: D17, agreement with the Python twin)
-/
import SmVerif.Model.AniResult
import SmVerif.Model.Proto

namespace Sm.DriverAni

open Sm.Proto Sm.Ani

def fl? (s : String) : Option Float := (s.toNat?).map fun n => Float.ofBits n.toUInt64

def optFl? (s : String) : Option (Option Float) :=
  if s = "N" then some none else (fl? s).map some

def fb (x : Float) : String := toString x.toBits.toNat

def ofb (x : Option Float) : String :=
  match x with
  | none => "N"
  | some v => fb v

def showCi (r : Except String (CiANIResult Float)) : String :=
  match r with
  | .error e => "err " ++ e
  | .ok r => s!"ok d={fb r.dist} ani={ofb r.ani} p={fb r.pNothing} px={b2s r.pExceeds} lo={ofb r.distLow} hi={ofb r.distHigh} alo={ofb r.aniLow} ahi={ofb r.aniHigh}"

def showJac (r : Except String (JaccardANIResult Float)) : String :=
  match r with
  | .error e => "err " ++ e
  | .ok r => s!"ok d={fb r.dist} ani={ofb r.ani} p={fb r.pNothing} px={b2s r.pExceeds} je={fb r.jaccardError} jx={b2s r.jeExceeds}"

def showAni (r : Except String (ANIResult Float)) : String :=
  match r with
  | .error e => "err " ++ e
  | .ok r => s!"ok d={fb r.dist} ani={ofb r.ani} p={fb r.pNothing} px={b2s r.pExceeds}"

/-! #### `cls`: FracMinHashComparison / PrefetchResult / GatherResult / SearchResult from the MinHash-level answers -/

def c4 (r : CiAns Float) : String := s!"{ofb r.ani},{ofb r.lo},{ofb r.hi},{b2s r.px}"

def ciAns? (ws : List String) : Option (CiAns Float) :=
  match ws with
  | [a, l, h, p] => do pure { ani := ← optFl? a, lo := ← optFl? l, hi := ← optFl? h, px := ← bool? p }
  | _ => none

def jacAns? (ws : List String) : Option (Except String (JacAns Float)) :=
  match ws with
  | [a, p, x] =>
    if a.startsWith "E" && a.length > 1 then some (.error (a.drop 1).toString)
    else do pure (.ok { ani := ← optFl? a, px := ← bool? p, jx := ← bool? x })
  | _ => none

def avgF (x y : Float) : Float := (x + y) / 2

/-- Python `max([a1, a2])`: the first of two equal values -/
def maxF (x y : Float) : Float := if y > x then y else x

def presence (l : List (Option Float)) : String := String.join (l.map fun v => b2s (csvPresent v))

def pfFields (ci : Bool) (r12 r21 : CiAns Float) : String :=
  let p := prefetchAni ci avgF maxF r12 r21
  let cols := [p.query, p.«match», p.average, p.max, p.qlo, p.qhi, p.mlo, p.mhi]
  let pres := presence cols
  s!"{ofb p.query},{ofb p.«match»},{ofb p.average},{ofb p.max},{b2s p.pfn},{ofb p.qlo},{ofb p.qhi},{ofb p.mlo},{ofb p.mhi},{pres},{pres}"

def searchField (kind : SearchKind) (ci : Bool) (r12 mc : CiAns Float) (j : Except String (JacAns Float)) : String :=
  match searchAni kind ci r12 mc j with
  | .error e => "E" ++ e
  | .ok r => s!"{c4 r},{presence [r.ani, r.lo, r.hi]}"

def clsLine (common sa sb : Nat) (cs : Option Nat) (ci : Bool) (acc1 acc2 : Bool) (r12 r21 mc : CiAns Float)
    (j : Except String (JacAns Float)) : String :=
  if (match cs with | some c => decide (c < Nat.max sa sb) | none => false) then
    -- `downsample(scaled=cmp_scaled)` below the sketch's own scaled: every class raises ValueError
    let e := "EValueError"
    s!"ok ref={e} c.c12={e} c.c21={e} c.avgp={e} c.all={e} c.mx={e} c.j={e} c.sinacc={e} p={e} g={e} s.c={e} s.m={e} s.j={e}"
  else
    let jref := match j with
      | .ok r => s!"{ofb r.ani},{b2s r.px},{b2s r.jx}"
      | .error e => "E" ++ e
    let refs := s!"ref.acc={b2s acc1}{b2s acc2} ref.c12={c4 r12} ref.c21={c4 r21} ref.mc={c4 mc} ref.j={jref} ref.avg={ofb (avgAni avgF r12.ani r21.ani)}"
    let ap := cmpAvgProperty avgF r12 r21
    let all := cmpEstimateAll maxF r12 r21
    let cj := match j with
      | .ok r => s!"{ofb r.ani},{b2s r.px},{b2s r.jx}"
      | .error e => "E" ++ e
    let cmp := s!"c.c12={c4 (cmpDirectional ci r12)} c.c21={c4 (cmpDirectional ci r21)} c.avgp={ofb ap.1},{b2s ap.2} " ++
      s!"c.all={ofb all.1},{ofb all.2.1},{ofb all.2.2.1},{b2s all.2.2.2} c.mx={c4 (cmpDirectional ci mc)} c.j={cj} " ++
      s!"c.sinacc={b2s (cmpSizeMayBeInaccurate acc1 acc2)}"
    -- GatherResult: `cmp_scaled` is mandatory (ValueError), and its two `assert … == 1.0` fail on an empty intersection
    let g := match cs with
      | none => "EValueError"
      | some _ => if common = 0 then "EAssertionError" else pfFields ci r12 r21
    s!"ok {refs} {cmp} p={pfFields ci r12 r21} g={g} s.c={searchField .containment ci r12 mc j} " ++
      s!"s.m={searchField .maxContainment ci r12 mc j} s.j={searchField .jaccard ci r12 mc j}"

def step (st : Unit) (line : String) : Unit × String :=
  let bad := (st, "bad-op")
  match words line with
  | "#" :: _ => ((), "#")
  | ["c2d", c, k, scaled, n, pthr] =>
    match fl? c, nats? [k, scaled, n], optFl? pthr with
    | some c, some [k, scaled, n], some pthr =>
      if k = 0 ∨ scaled = 0 then bad else
      (st, showCi (containmentToDistance c k scaled.toFloat n.toFloat pthr none))
    | _, _, _ => bad
  | ["c2dci", c, k, scaled, n, pthr, conf, lo, hi] =>
    match fl? c, nats? [k, scaled, n], optFl? pthr, fl? conf, optFl? lo, optFl? hi with
    | some c, some [k, scaled, n], some pthr, some _, some lo, some hi =>
      if k = 0 ∨ scaled = 0 then bad else
      let ci := match lo, hi with
        | some l, some h => some (l, h)
        | _, _ => none
      (st, showCi (containmentToDistance c k scaled.toFloat n.toFloat pthr ci))
    | _, _, _, _, _, _ => bad
  | ["j2d", j, k, scaled, n, pthr, ethr] =>
    match fl? j, nats? [k, scaled, n], optFl? pthr, optFl? ethr with
    | some j, some [k, scaled, n], some pthr, some ethr =>
      if k = 0 ∨ scaled = 0 then bad else
      (st, showJac (jaccardToDistance j k scaled.toFloat n.toFloat pthr ethr))
    | _, _, _, _ => bad
  | ["res", "ani", dist, p, pthr, size] =>
    match fl? dist, fl? p, optFl? pthr, bool? size with
    | some d, some p, some pthr, some size => (st, "exact " ++ showAni (ANIResult.new d p pthr size))
    | _, _, _, _ => bad
  | ["res", "jac", dist, p, pthr, size, je, jethr] =>
    match fl? dist, fl? p, optFl? pthr, bool? size, optFl? je, optFl? jethr with
    | some d, some p, some pthr, some size, some je, some jethr =>
      (st, "exact " ++ showJac (JaccardANIResult.new d p pthr size je jethr))
    | _, _, _, _, _, _ => bad
  | ["res", "ci", dist, p, pthr, size, lo, hi] =>
    match fl? dist, fl? p, optFl? pthr, bool? size, optFl? lo, optFl? hi with
    | some d, some p, some pthr, some size, some lo, some hi =>
      (st, "exact " ++ showCi (CiANIResult.new d p pthr size lo hi))
    | _, _, _, _, _, _ => bad
  | ["mh", kind, lenA, lenB, common, scaled, k, accA, accB, v1, v2] =>
    match nats? [lenA, lenB, common, scaled, k], bool? accA, bool? accB, fl? v1, fl? v2 with
    | some [lenA, lenB, common, scaled, k], some accA, some accB, some v1, some v2 =>
      if k = 0 ∨ scaled = 0 ∨ common > lenA ∨ common > lenB then bad else
      let head := s!"acc={b2s accA}{b2s accB} v={fb v1},{fb v2} "
      -- `routes=ok`: the adapter evaluates every spelling of the estimate (sketch / signature level, defaults spelled out, …);
      -- the model has ONE operation
      match kind with
      | "cont" => (st, head ++ showCi (mhContainmentAni v1 k scaled lenA accA accB) ++ " routes=ok")
      | "max" => (st, head ++ showCi (mhMaxContainmentAni v1 k scaled lenA lenB accA accB) ++ " routes=ok")
      | "jac" => (st, head ++ showJac (mhJaccardAni v1 k scaled lenA lenB accA accB) ++ " routes=ok")
      | "avg" =>
        match mhAvgContainmentAni v1 v2 k scaled lenA lenB accA accB with
        | .ok a => (st, head ++ "ok ani=" ++ ofb a ++ " routes=ok")
        | .error e => (st, head ++ "err " ++ e ++ " routes=ok")
      | _ => bad
    | _, _, _, _, _ => bad
  | ["sia", len, scaled, rel, conf, cdfHi, cdfLo, pmfLo] =>
    match nats? [len, scaled], fl? rel, fl? conf, fl? cdfHi, fl? cdfLo, optFl? pmfLo with
    | some [len, scaled], some rel, some conf, some cdfHi, some cdfLo, some pmfLo =>
      match sizeIsAccurate scaled rel conf (0.5 : Float) with
      | .typeError => (st, "err TypeError")
      | .valueError => (st, "err ValueError")
      | .answer _ =>
        let setSize := len * scaled
        let (hi, lo, isInt) := setSizeArgs setSize scaled rel
        match isInt, pmfLo with
        | true, none => bad
        | false, some _ => bad
        | _, _ =>
          let prob := setSizeExactProb isInt cdfHi cdfLo (pmfLo.getD 0.0)
          let acc := match sizeIsAccurate scaled rel conf prob with
            | .answer a => a
            | _ => false
          let calls := s!"cdf:{fb hi},cdf:{fb lo}" ++ (if isInt then s!",pmf:{fb lo}" else "")
          (st, s!"ok calls={calls} vals={fb cdfHi},{fb cdfLo},{ofb pmfLo} n={setSize} p={fb (1 / scaled.toFloat)} prob={fb prob} acc={b2s acc}")
    | _, _, _, _, _, _ => bad
  | ["pyvar", l, k, r1] =>
    match nats? [l, k], fl? r1 with
    | some [l, k], some r1 =>
      match varNMutated l.toFloat k r1 with
      | .ok v => (st, s!"ok v={fb v}")
      | .error e => (st, "err " ++ e)
    | _, _ => bad
  | ["nat", which, c, k] =>
    if which = "ani" ∨ which = "inc-ani" then
      match fl? c, nat? k with
      | some c, some k => if k = 0 then bad else (st, s!"ok ani={fb (rustAniFromContainment c k.toFloat)}")
      | _, _ => bad
    else if which = "q" then
      match nat? c, fl? k with
      | some k, some r1 => (st, s!"ok q={fb (rustR1ToQ k r1)}")
      | _, _ => bad
    else if which = "probit" then
      match fl? c, fl? k with
      | some _, some z => (st, s!"ok z={fb z}")
      | _, _ => bad
    else bad
  | ["nat", which, l, k, r1] =>
    match nats? [l, k], fl? r1 with
    | some [l, k], some r1 =>
      if which = "exp" then (st, s!"ok e={fb (rustExpNMutated l.toFloat k r1)}")
      else if which = "var" then
        match rustVarNMutated l.toFloat k r1 with
        | .ok v => (st, s!"ok v={fb v}")
        | .error e => (st, "err " ++ e)
      else if which = "exp2" then
        match rustExpNMutatedSquared l.toFloat k r1 with
        | .ok v => (st, s!"ok v={fb v}")
        | .error e => (st, "err " ++ e)
      else bad
    | _, _ => bad
  | ["nat", "pnc", ani, k, scaled, n] =>
    match fl? ani, nats? [k, scaled, n] with
    | some ani, some [k, scaled, n] =>
      if scaled = 0 then bad else
      (st, s!"ok p={fb (rustPNothingInCommon ani k (1.0 / scaled.toFloat) n.toFloat)}")
    | _, _ => bad
  | "nat" :: "gstats" :: lq :: lm :: cm :: scaled :: k :: rem :: ci :: conf :: rest =>
    match nats? [lq, lm, cm, scaled, k, rem], bool? ci, optFl? conf, rest.mapM optFl? with
    | some [lq, lm, cm, scaled, k, rem], some _, some _, some vals =>
      if scaled = 0 ∨ k = 0 ∨ cm > lq ∨ cm > lm ∨ rem > cm ∨ lq = 0 ∨ lm = 0 ∨ vals.length ≠ 12 then bad else
      -- statrs / roots (the four interval bounds) and the Python twin (8 values) are echoed; the point fields are computed
      let (q, m, avg, mx, fq, fm) := rustGatherAni cm lq lm k
      let ci4 := (vals.take 4).map ofb
      let py := ",".intercalate ((vals.drop 4).map ofb)
      (st, s!"ok q={fb q} m={fb m} avg={fb avg} max={fb mx} qlo={ci4.getD 0 ""} qhi={ci4.getD 1 ""} mlo={ci4.getD 2 ""} mhi={ci4.getD 3 ""} foq={fb fq} fmo={fb fm} py={py}")
    | _, _, _, _ => bad
  | ["nat", which, c, k, scaled, n, conf, alo, ahi] =>
    if which ≠ "ci" ∧ which ≠ "inc-ci" then bad else
    match fl? c, nats? [k, scaled, n], optFl? conf, optFl? alo, optFl? ahi with
    | some c, some [k, scaled, _], some _, some alo, some ahi =>
      if k = 0 ∨ scaled = 0 then bad else
      match rustAniCiExact c, alo, ahi with
      | some (lo, hi), _, _ => (st, s!"ok alo={fb lo} ahi={fb hi}")
      | none, some lo, some hi => (st, s!"ok alo={fb lo} ahi={fb hi}")
      | none, _, _ => (st, "err ANIEstimationError")
    | _, _, _, _, _ => bad
  | "cls" :: la :: lb :: cm :: xa :: xb :: sa :: sb :: k :: cs :: ci :: conf :: rest =>
    match nats? [la, lb, cm, xa, xb, sa, sb, k], (if cs = "-" then some none else (nat? cs).map some), bool? ci, fl? conf with
    | some [la, lb, cm, _, _, sa, sb, k], some cs, some ci, some _ =>
      if k = 0 ∨ sa = 0 ∨ sb = 0 ∨ cm > la ∨ cm > lb ∨ cs = some 0 ∨ rest.length ≠ 17 then bad else
      match bool? (rest.getD 0 ""), bool? (rest.getD 1 ""), ciAns? ((rest.drop 2).take 4), ciAns? ((rest.drop 6).take 4),
            ciAns? ((rest.drop 10).take 4), jacAns? ((rest.drop 14).take 3) with
      | some a1, some a2, some r12, some r21, some mc, some j => (st, clsLine cm sa sb cs ci a1 a2 r12 r21 mc j)
      | _, _, _, _, _, _ => bad
    | _, _, _, _ => bad
  | ["cmpani", la, lb, cm, scaled, k, par, acc1, acc2, c12, c21, mc, j] =>
    match nats? [la, lb, cm, scaled, k], bool? par, bool? acc1, bool? acc2, optFl? c12, optFl? c21, optFl? mc with
    | some [la, lb, cm, scaled, k], some par, some a1, some a2, some c12, some c21, some mc =>
      if k = 0 ∨ scaled = 0 ∨ cm > la ∨ cm > lb then bad else
      let jv : Option (Except String (Option Float)) :=
        if j.startsWith "E" && j.length > 1 then some (.error (j.drop 1).toString) else (optFl? j).map .ok
      match jv with
      | none => bad
      | some jv =>
        let z : Float := 0.0
        let two (x y : Float) : String := s!"{fb x},{fb y}"
        let jent := match jv with
          | .ok a => let v := compareAniEntry z a; two v v
          | .error e => "E" ++ e
        let jref := match jv with
          | .ok a => ofb a
          | .error e => "E" ++ e
        let av := compareAvgAniEntry avgF z c21 c12
        (st, s!"ok ref.acc={b2s a1}{b2s a2} ref.c12={ofb c12} ref.c21={ofb c21} ref.mc={ofb mc} ref.j={jref} ser={jent} ser1={jent} " ++
          s!"par={if par then jent else "-"} cont={two (compareAniEntry z c21) (compareAniEntry z c12)} " ++
          s!"max={two (compareAniEntry z mc) (compareAniEntry z mc)} avg={two av av}")
    | _, _, _, _, _, _, _ => bad
  | ["clsnum", la, lb, cm, num, k] =>
    match nats? [la, lb, cm, num, k] with
    | some [la, lb, cm, num, k] =>
      if num = 0 ∨ k = 0 ∨ cm > la ∨ cm > lb then bad else
      -- num sketches: `jaccard_ani` raises TypeError, sizes are not estimated, a SearchResult carries no `ani`
      (st, "ok c.j=ETypeError c.sinacc=0 s.j=N,0")
    | _ => bad
  | _ => bad

end Sm.DriverAni
