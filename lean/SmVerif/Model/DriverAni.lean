/-
Driver for the `ani` correspondence stream (C17).  Floats travel as the decimal value of their
IEEE-754 bit pattern; `N` = None.

  c2d   <c> <k> <scaled> <n> <pthr|N>                         containment_to_distance(c, k, scaled, n_unique_kmers=n, prob_threshold=pthr)
  c2dci <c> <k> <scaled> <n> <pthr|N> <conf> <lo|N> <hi|N>     the same with estimate_ci=True; lo/hi = (dist_low, dist_high) brentq produced (INPUT)
  j2d   <j> <k> <scaled> <n> <pthr|N> <ethr|N>                jaccard_to_distance(...)
  res ani <dist> <p> <pthr|N> <size>                          ANIResult(...)            (size = size_is_inaccurate)
  res jac <dist> <p> <pthr|N> <size> <je|N> <jethr|N>         jaccardANIResult(...)
  res ci  <dist> <p> <pthr|N> <size> <lo|N> <hi|N>            ciANIResult(...)
  mh <kind> <lenA> <lenB> <common> <scaled> <k> <accA> <accB> <v1> <v2>
        kind ∈ cont max avg jac; v1 = A.f(B), v2 = B.f(A) (f = contained_by / max_containment / jaccard), acc = size_is_accurate()
  sia <len> <scaled> <rel> <conf> <cdfHi> <cdfLo> <pmfLo|N>    MinHash(len hashes, scaled).size_is_accurate(rel, conf); the three scipy
        results are INPUTS; the model reproduces which scipy calls are made, with which arguments, the probability and the answer
  pyvar <L> <k> <r1>                                          distance_utils.var_n_mutated(L, k, r1)
  nat ani|inc-ani <c> <k>            nat q <k> <r1>           nat exp|var|exp2 <L> <k> <r1>       nat pnc <ani> <k> <scaled> <n>
        the native twin src/core/src/ani_utils.rs, executed by rust-harness (`smharness ani`), modelled operation by operation
  nat ci|inc-ci <c> <k> <scaled> <n> <conf|N> <alo> <ahi>     nat probit <p> <z>
        statrs / roots are not modelled: the model answers the two exact branches of `ani_ci_from_containment` itself and
        otherwise echoes the pasted result (these ops are judged by the oracle: D17, agreement with the Python twin)
-/
import SmVerif.Model.AniResult
import SmVerif.Model.Proto

namespace Sm.DriverAni

open Sm.Proto Sm.Ani

def fl? (s : String) : Option Float := (s.toNat?).map fun n => Float.ofBits n.toUInt64

def optFl? (s : String) : Option (Option Float) :=
  if s = "N" then some none else (fl? s).map some

def fb (x : Float) : String := toString x.toBits.toNat

def ofb (x : Option Float) : String :=
  match x with
  | none => "N"
  | some v => fb v

def showCi (r : Except String (CiANIResult Float)) : String :=
  match r with
  | .error e => "err " ++ e
  | .ok r => s!"ok d={fb r.dist} ani={ofb r.ani} p={fb r.pNothing} px={b2s r.pExceeds} lo={ofb r.distLow} hi={ofb r.distHigh} alo={ofb r.aniLow} ahi={ofb r.aniHigh}"

def showJac (r : Except String (JaccardANIResult Float)) : String :=
  match r with
  | .error e => "err " ++ e
  | .ok r => s!"ok d={fb r.dist} ani={ofb r.ani} p={fb r.pNothing} px={b2s r.pExceeds} je={fb r.jaccardError} jx={b2s r.jeExceeds}"

def showAni (r : Except String (ANIResult Float)) : String :=
  match r with
  | .error e => "err " ++ e
  | .ok r => s!"ok d={fb r.dist} ani={ofb r.ani} p={fb r.pNothing} px={b2s r.pExceeds}"

def step (st : Unit) (line : String) : Unit × String :=
  let bad := (st, "bad-op")
  match words line with
  | "#" :: _ => ((), "#")
  | ["c2d", c, k, scaled, n, pthr] =>
    match fl? c, nats? [k, scaled, n], optFl? pthr with
    | some c, some [k, scaled, n], some pthr =>
      if k = 0 ∨ scaled = 0 then bad else
      (st, showCi (containmentToDistance c k scaled.toFloat n.toFloat pthr none))
    | _, _, _ => bad
  | ["c2dci", c, k, scaled, n, pthr, conf, lo, hi] =>
    match fl? c, nats? [k, scaled, n], optFl? pthr, fl? conf, optFl? lo, optFl? hi with
    | some c, some [k, scaled, n], some pthr, some _, some lo, some hi =>
      if k = 0 ∨ scaled = 0 then bad else
      let ci := match lo, hi with
        | some l, some h => some (l, h)
        | _, _ => none
      (st, showCi (containmentToDistance c k scaled.toFloat n.toFloat pthr ci))
    | _, _, _, _, _, _ => bad
  | ["j2d", j, k, scaled, n, pthr, ethr] =>
    match fl? j, nats? [k, scaled, n], optFl? pthr, optFl? ethr with
    | some j, some [k, scaled, n], some pthr, some ethr =>
      if k = 0 ∨ scaled = 0 then bad else
      (st, showJac (jaccardToDistance j k scaled.toFloat n.toFloat pthr ethr))
    | _, _, _, _ => bad
  | ["res", "ani", dist, p, pthr, size] =>
    match fl? dist, fl? p, optFl? pthr, bool? size with
    | some d, some p, some pthr, some size => (st, "exact " ++ showAni (ANIResult.new d p pthr size))
    | _, _, _, _ => bad
  | ["res", "jac", dist, p, pthr, size, je, jethr] =>
    match fl? dist, fl? p, optFl? pthr, bool? size, optFl? je, optFl? jethr with
    | some d, some p, some pthr, some size, some je, some jethr =>
      (st, "exact " ++ showJac (JaccardANIResult.new d p pthr size je jethr))
    | _, _, _, _, _, _ => bad
  | ["res", "ci", dist, p, pthr, size, lo, hi] =>
    match fl? dist, fl? p, optFl? pthr, bool? size, optFl? lo, optFl? hi with
    | some d, some p, some pthr, some size, some lo, some hi =>
      (st, "exact " ++ showCi (CiANIResult.new d p pthr size lo hi))
    | _, _, _, _, _, _ => bad
  | ["mh", kind, lenA, lenB, common, scaled, k, accA, accB, v1, v2] =>
    match nats? [lenA, lenB, common, scaled, k], bool? accA, bool? accB, fl? v1, fl? v2 with
    | some [lenA, lenB, common, scaled, k], some accA, some accB, some v1, some v2 =>
      if k = 0 ∨ scaled = 0 ∨ common > lenA ∨ common > lenB then bad else
      let head := s!"acc={b2s accA}{b2s accB} v={fb v1},{fb v2} "
      match kind with
      | "cont" => (st, head ++ showCi (mhContainmentAni v1 k scaled lenA accA accB))
      | "max" => (st, head ++ showCi (mhMaxContainmentAni v1 k scaled lenA lenB accA accB))
      | "jac" => (st, head ++ showJac (mhJaccardAni v1 k scaled lenA lenB accA accB))
      | "avg" =>
        match mhAvgContainmentAni v1 v2 k scaled lenA lenB accA accB with
        | .ok a => (st, head ++ "ok ani=" ++ ofb a)
        | .error e => (st, head ++ "err " ++ e)
      | _ => bad
    | _, _, _, _, _ => bad
  | ["sia", len, scaled, rel, conf, cdfHi, cdfLo, pmfLo] =>
    match nats? [len, scaled], fl? rel, fl? conf, fl? cdfHi, fl? cdfLo, optFl? pmfLo with
    | some [len, scaled], some rel, some conf, some cdfHi, some cdfLo, some pmfLo =>
      match sizeIsAccurate scaled rel conf (0.5 : Float) with
      | .typeError => (st, "err TypeError")
      | .valueError => (st, "err ValueError")
      | .answer _ =>
        let setSize := len * scaled
        let (hi, lo, isInt) := setSizeArgs setSize scaled rel
        match isInt, pmfLo with
        | true, none => bad
        | false, some _ => bad
        | _, _ =>
          let prob := setSizeExactProb isInt cdfHi cdfLo (pmfLo.getD 0.0)
          let acc := match sizeIsAccurate scaled rel conf prob with
            | .answer a => a
            | _ => false
          let calls := s!"cdf:{fb hi},cdf:{fb lo}" ++ (if isInt then s!",pmf:{fb lo}" else "")
          (st, s!"ok calls={calls} vals={fb cdfHi},{fb cdfLo},{ofb pmfLo} n={setSize} p={fb (1 / scaled.toFloat)} prob={fb prob} acc={b2s acc}")
    | _, _, _, _, _, _ => bad
  | ["pyvar", l, k, r1] =>
    match nats? [l, k], fl? r1 with
    | some [l, k], some r1 =>
      match varNMutated l.toFloat k r1 with
      | .ok v => (st, s!"ok v={fb v}")
      | .error e => (st, "err " ++ e)
    | _, _ => bad
  | ["nat", which, c, k] =>
    if which = "ani" ∨ which = "inc-ani" then
      match fl? c, nat? k with
      | some c, some k => if k = 0 then bad else (st, s!"ok ani={fb (rustAniFromContainment c k.toFloat)}")
      | _, _ => bad
    else if which = "q" then
      match nat? c, fl? k with
      | some k, some r1 => (st, s!"ok q={fb (rustR1ToQ k r1)}")
      | _, _ => bad
    else if which = "probit" then
      match fl? c, fl? k with
      | some _, some z => (st, s!"ok z={fb z}")
      | _, _ => bad
    else bad
  | ["nat", which, l, k, r1] =>
    match nats? [l, k], fl? r1 with
    | some [l, k], some r1 =>
      if which = "exp" then (st, s!"ok e={fb (rustExpNMutated l.toFloat k r1)}")
      else if which = "var" then
        match rustVarNMutated l.toFloat k r1 with
        | .ok v => (st, s!"ok v={fb v}")
        | .error e => (st, "err " ++ e)
      else if which = "exp2" then
        match rustExpNMutatedSquared l.toFloat k r1 with
        | .ok v => (st, s!"ok v={fb v}")
        | .error e => (st, "err " ++ e)
      else bad
    | _, _ => bad
  | ["nat", "pnc", ani, k, scaled, n] =>
    match fl? ani, nats? [k, scaled, n] with
    | some ani, some [k, scaled, n] =>
      if scaled = 0 then bad else
      (st, s!"ok p={fb (rustPNothingInCommon ani k (1.0 / scaled.toFloat) n.toFloat)}")
    | _, _ => bad
  | ["nat", which, c, k, scaled, n, conf, alo, ahi] =>
    if which ≠ "ci" ∧ which ≠ "inc-ci" then bad else
    match fl? c, nats? [k, scaled, n], optFl? conf, optFl? alo, optFl? ahi with
    | some c, some [k, scaled, _], some _, some alo, some ahi =>
      if k = 0 ∨ scaled = 0 then bad else
      match rustAniCiExact c, alo, ahi with
      | some (lo, hi), _, _ => (st, s!"ok alo={fb lo} ahi={fb hi}")
      | none, some lo, some hi => (st, s!"ok alo={fb lo} ahi={fb hi}")
      | none, _, _ => (st, "err ANIEstimationError")
    | _, _, _, _, _ => bad
  | _ => bad

end Sm.DriverAni
