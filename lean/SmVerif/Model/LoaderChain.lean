/-
C20: decision model of the generic loader chain `_load_database` (src/sourmash/save_load.py).

The chain tries the registered loader functions in priority order.  A loader returns an index,
returns `None`, or raises.  Some loader functions convert certain exceptions of the function they
wrap into `IndexNotLoaded` (`Loader.converts`).  The chain swallows exactly the classes in
`caught` (by `isinstance`, i.e. anywhere in the raised class's MRO) and moves on; anything else
propagates to the caller unchanged; when every loader declined, the chain raises
`ValueError("Error while reading signatures from …")`.

Exception classes are names here (the chain sees arbitrary classes: native `Panic`, `sqlite3.…`);
an outcome carries the MRO of the raised class, most derived first.
All tables (`loaders`, `caught`) come from `Gen` (translator).
-/
import SmVerif.Model.Generated

namespace Sm.Chain

inductive Out where
  | none_                          -- returned None
  | idx                            -- returned an index object
  | raises (mro : List String)     -- raised; class names of type(e).__mro__, most derived first
deriving Repr, DecidableEq

structure Loader where
  priority : Nat
  desc : String
  fn : String
  converts : List String           -- classes this loader function turns into IndexNotLoaded
deriving Repr, DecidableEq

def loadersRaw : List Loader := Gen.c20Loaders.map (fun t => ⟨t.1, t.2.1, t.2.2.1, t.2.2.2⟩)

/-- `sorted(...)` on (priority, desc, fn) tuples: by priority, ties by description -/
def leLoader (a b : Loader) : Bool := a.priority < b.priority || (a.priority == b.priority && a.desc ≤ b.desc)

def insertSorted (x : Loader) : List Loader → List Loader
  | [] => [x]
  | y :: ys => if leLoader x y then x :: y :: ys else y :: insertSorted x ys

def sortLoaders : List Loader → List Loader
  | [] => []
  | x :: xs => insertSorted x (sortLoaders xs)

def loaders : List Loader := sortLoaders loadersRaw

def caught : List String := Gen.c20ChainCaught

def indexNotLoadedMro : List String := ["IndexNotLoaded", "SourmashError", "Exception", "BaseException", "object"]
def valueErrorMro : List String := ["ValueError", "Exception", "BaseException", "object"]

/-- `isinstance(e, tuple_of_classes)` on names -/
def isInstance (mro : List String) (classes : List String) : Bool := mro.any (fun c => classes.contains c)

/-- what the loader function makes of the outcome of the function it wraps -/
def outer (l : Loader) (inner : Out) : Out :=
  match inner with
  | .raises mro => if isInstance mro l.converts then .raises indexNotLoadedMro else .raises mro
  | o => o

inductive Final where
  | index (fn : String)
  | raised (mro : List String) (fn : Option String)      -- `none`: the chain's own final ValueError
deriving Repr, DecidableEq

/-- the `for … in load_from_functions` loop; `calls` = number of loaders tried -/
def run : List (Loader × Out) → Nat → Final × Nat
  | [], n => (.raised valueErrorMro none, n)
  | (l, o) :: rest, n =>
    match outer l o with
    | .idx => (.index l.fn, n + 1)
    | .none_ => run rest (n + 1)
    | .raises mro => if isInstance mro caught then run rest (n + 1) else (.raised mro (some l.fn), n + 1)

end Sm.Chain
