/-
Executable model of `src/sourmash/sbt.py` + `sbtmh.py` (Sequence Bloom Tree): position
arithmetic, `new_node_pos`, `add_node`, the ancestor walk, `SigLeaf.update` / `Node.update`
(`min_n_below` with the 0 -> 1 clamp), `_rebuild_node`, `_fill_up` with its two callers,
`_find_nodes` + the Jaccard/containment `find`, `_NodesCache`, `Node.unload`, and
`save(sparseness)` / `load` (index versions 3-6).

Conventions
* `_nodes` / `_leaves` are position-keyed maps (`PMap`); Python dict order is not modelled
  (nothing observable depends on it once `save`'s `random()` draws are made a function of
  the position, which the adapter arranges).
* An internal node carries `mem` (`_data` when it holds changes not yet in storage),
  `stored` (content behind `_path`) and `hasStorage`; `.data` = `mem`, else `stored`, else a
  fresh filter from the factory.  Loading `.data` without changing it is not recorded.
* `parent` is `int(math.floor((pos - 1) / d))` in floats: exact for positions < 2^50.
* every loop that the code runs until a queue is empty gets a fuel argument; the driver
  passes a bound that the run never reaches (it prints `err fuel` otherwise).
-/
import SmVerif.Model.Nodegraph

namespace Sm.SBT

/-! ### position arithmetic -/

def parent (d p : Nat) : Nat := (p - 1) / d
def child (d p i : Nat) : Nat := d * p + i + 1

/-- proper ancestors of `p`, nearest first (`_parents`); fuel `p` always suffices -/
def ancestorsF : Nat → Nat → Nat → List Nat
  | 0, _, _ => []
  | f + 1, d, p => if p = 0 then [] else parent d p :: ancestorsF f d (parent d p)

def ancestors (d p : Nat) : List Nat := ancestorsF p d p

/-! ### position-keyed maps -/

abbrev PMap (α : Type) := List (Nat × α)

namespace PMap
variable {α : Type}

def get? : PMap α → Nat → Option α
  | [], _ => none
  | (k, v) :: r, p => if k = p then some v else get? r p

def erase (m : PMap α) (p : Nat) : PMap α := m.filter (fun kv => kv.1 ≠ p)
def set (m : PMap α) (p : Nat) (v : α) : PMap α := (p, v) :: erase m p
def has (m : PMap α) (p : Nat) : Bool := (get? m p).isSome
def keys (m : PMap α) : List Nat := m.map (·.1)

end PMap

def listMin : List Nat → Nat
  | [] => 0
  | x :: xs => xs.foldl min x

def listMax : List Nat → Nat
  | [] => 0
  | x :: xs => xs.foldl max x

/-! ### nodes and leaves -/

/-- `sys.maxsize` -/
def maxsize : Nat := 2 ^ 63 - 1

structure Leaf where
  id : Nat
  hashes : List Nat        -- the sketch's mins: ascending, distinct
deriving Repr, DecidableEq, Inhabited

structure INode where
  mem : Option NG
  stored : Option NG
  hasStorage : Bool
  minN : Option Nat        -- `metadata.get("min_n_below")`
deriving Repr, DecidableEq, Inhabited

def INode.fresh : INode := ⟨none, none, false, none⟩

/-- the `.data` property (factory = `Nodegraph(1, size, n_tables)`) -/
def INode.data (sizes : List Nat) (n : INode) : NG :=
  match n.mem with
  | some g => g
  | none => match n.stored with
    | some g => g
    | none => NG.new sizes 1

/-- `unload`: drop `_data` when a storage is attached -/
def INode.unload (n : INode) : INode := if n.hasStorage then { n with mem := none } else n

/-- `unload` in the two variants of the source.  `keep = true`: a node whose filter was updated
since it was loaded is flagged `_dirty` by the three `update` methods and keeps it; in this
model `mem` is `some _` exactly for such nodes (loading `.data` without changing it is not
recorded), so nothing observable is dropped and the patched `unload` is the identity.
`keep = false`: the older code, which dropped the filter of every node that has a storage. -/
def INode.unloadV (keep : Bool) (n : INode) : INode := if keep then n else n.unload

def clamp (m : Nat) : Nat := if m = 0 then 1 else m

/-- `SigLeaf.update(parent)` -/
def leafUpdate (sizes : List Nat) (l : Leaf) (n : INode) : INode :=
  { n with mem := some ((n.data sizes).addMany l.hashes),
           minN := some (clamp (min l.hashes.length (n.minN.getD maxsize))) }

/-- `Node.update(parent)` for child `c` -/
def nodeUpdate (sizes : List Nat) (c : INode) (n : INode) : INode :=
  { n with mem := some ((n.data sizes).update (c.data sizes)),
           minN := match c.minN with
             | some cm => some (clamp (min (n.minN.getD maxsize) cm))
             | none => n.minN }

structure Tree where
  d : Nat
  sizes : List Nat
  nodes : PMap INode
  leaves : PMap Leaf
  missing : List Nat
  nextNode : Nat
  cacheMax : Option Nat          -- none = sys.maxsize
  cache : List (Nat × Nat)       -- `_NodesCache.__counter`: key, number of touches, in insertion order
deriving Repr, Inhabited

def Tree.new (d : Nat) (sizes : List Nat) : Tree := ⟨d, sizes, [], [], [], 0, none, []⟩

inductive Kind where
  | leaf (l : Leaf)
  | node (n : INode)
  | none
deriving Repr

/-- what `NodePos.node` holds for position `p` (`_leaves` first, then `_nodes`) -/
def Tree.at (t : Tree) (p : Nat) : Kind :=
  match t.leaves.get? p with
  | some l => .leaf l
  | none => match t.nodes.get? p with
    | some n => .node n
    | none => .none

/-! ### new_node_pos / add_node -/

def newNodePos (t : Tree) : Tree × Nat :=
  if t.nodes.isEmpty then ({ t with nextNode := 1 }, 0)
  else if t.leaves.isEmpty then ({ t with nextNode := 2 }, 1)
  else
    let minLeaf := listMin t.leaves.keys
    let hole :=
      if t.nextNode ≤ minLeaf then
        (List.range minLeaf).find? (fun i => !t.nodes.has i && !t.leaves.has i && !t.missing.contains i)
      else none
    let nn := match hole with
      | some i => i
      | none => listMax t.leaves.keys + 1
    ({ t with nextNode := nn }, nn)

/-- apply `f` to the internal node at `p` (which exists whenever the code dereferences it) -/
def Tree.modNode (t : Tree) (p : Nat) (f : INode → INode) : Tree :=
  match t.nodes.get? p with
  | some n => { t with nodes := t.nodes.set p (f n) }
  | none => t

/-- one child of the `_rebuild_node` loop, given what `children(pos)` captured for it -/
inductive Err where
  | attribute | key | value | assertion | fuel
deriving Repr, DecidableEq

def Err.name : Err → String
  | .attribute => "AttributeError"
  | .key => "KeyError"
  | .value => "ValueError"
  | .assertion => "AssertionError"
  | .fuel => "fuel"

/-- `_rebuild_node(pos)`; `fixed = true` is the proposed repair (merge every non-None child,
rebuilding it first when it is a missing node) -/
def rebuild (fixed : Bool) : Nat → Tree → Nat → Except Err Tree
  | 0, _, _ => .error .fuel
  | fuel + 1, t, pos =>
    match t.nodes.get? pos with
    | some _ => .ok t
    | none =>
      let t := { t with nodes := t.nodes.set pos INode.fresh }
      (List.range t.d).foldlM (fun (t : Tree) i =>
        let c := child t.d pos i
        match t.leaves.get? c with
        | some l => .ok (t.modNode pos (leafUpdate t.sizes l))
        | none =>
          if fixed then
            match t.nodes.get? c with
            | some cn => .ok (t.modNode pos (nodeUpdate t.sizes cn))
            | none =>
              if t.missing.contains c then do
                let t ← rebuild fixed fuel t c
                match t.nodes.get? c with
                | some cn => pure (t.modNode pos (nodeUpdate t.sizes cn))
                | none => throw .key
              else .ok t
          else if t.missing.contains c then
            match t.nodes.get? c with
            | some cn => .ok (t.modNode pos (nodeUpdate t.sizes cn))
            | none => do
              let t ← rebuild fixed fuel t c
              match t.nodes.get? c with
              | some cn => pure (t.modNode pos (nodeUpdate t.sizes cn))
              | none => throw .key
          else .ok t) t

/-- recursion depth bound for `rebuild`: every recursive call is on a position in `missing` -/
def Tree.rebuildFuel (t : Tree) : Nat := listMax t.missing + 2

/-- the `# update all parents!` loop of `add_node` over the ancestors of the parent -/
def walkUp (fixed : Bool) (l : Leaf) : List Nat → Tree → Except Err Tree
  | [], t => .ok t
  | a :: as, t => do
    let t ← rebuild fixed t.rebuildFuel t a
    match t.nodes.get? a with
    | some _ => walkUp fixed l as (t.modNode a (leafUpdate t.sizes l))
    | none => throw .key

/-- ascending insertion sort (`sorted(self._missing_nodes)`) -/
def sortAsc (l : List Nat) : List Nat :=
  l.foldl (fun acc x => ins x acc) []
where
  ins (x : Nat) : List Nat → List Nat
    | [] => [x]
    | y :: ys => if x ≤ y then x :: y :: ys else y :: ins x ys

/-- `for missing_pos in sorted(self._missing_nodes): self._rebuild_node(missing_pos)` -/
def rebuildMissing (fixed : Bool) : List Nat → Tree → Except Err Tree
  | [], t => .ok t
  | p :: ps, t => do
    let t ← rebuild fixed t.rebuildFuel t p
    rebuildMissing fixed ps t

/-- the body of `add_node` after the optional repair step -/
def addNodeCore (fixed : Bool) (t : Tree) (l : Leaf) : Except Err Tree := do
  let (t, pos) := newNodePos t
  let (t, pos) :=
    if pos = 0 then newNodePos { t with nodes := t.nodes.set 0 INode.fresh } else (t, pos)
  if pos = 0 then throw .attribute        -- `self.parent(0)` is None
  let p := parent t.d pos
  let t ← match t.at p with
    | .leaf l0 =>
      if t.d < 2 then throw .value        -- `c1, c2 = self.children(p.pos)[:2]`
      else
        let n := leafUpdate t.sizes l (leafUpdate t.sizes l0 INode.fresh)
        let c1 := child t.d p 0
        let c2 := child t.d p 1
        let lv := ((t.leaves.set c1 l0).set c2 l).erase p
        pure { t with nodes := t.nodes.set p n, leaves := lv }
    | .node n =>
      pure { t with leaves := t.leaves.set pos l, nodes := t.nodes.set p (leafUpdate t.sizes l n) }
    | .none =>
      if t.d < 1 then throw .key          -- `self.children(p.pos)[0]`
      else
        let n := leafUpdate t.sizes l INode.fresh
        pure { t with nodes := t.nodes.set p n, leaves := t.leaves.set (child t.d p 0) l }
  walkUp fixed l (ancestors t.d p) t

/-- `add_node` (`insert` = `add_node(SigLeaf(md5, sig))`); `pre = true`: the current source,
which first rebuilds every node recorded in `_missing_nodes`; `pre = false`: the older code -/
def addNode (fixed pre : Bool) (t : Tree) (l : Leaf) : Except Err Tree := do
  let t ← if pre then rebuildMissing fixed (sortAsc t.missing) t else pure t
  addNodeCore fixed t l

/-! ### `_fill_up` and its two callers -/

/-- `fill_min_n_below(node, children=siblings)`: returns the new node and `original != new` -/
def fillMinFn (t : Tree) (pp : Nat) (n : INode) : INode × Bool :=
  let orig := n.minN.getD maxsize
  let m := (List.range t.d).foldl (fun m i =>
    match t.at (child t.d pp i) with
    | .leaf l => min l.hashes.length m
    | .node c => min (c.minN.getD maxsize) m
    | .none => m) orig
  let m := clamp m
  ({ n with minN := some m }, orig != m)

/-- `fill_nodegraphs(node, children=siblings)` -/
def fillGraphFn (t : Tree) (pp : Nat) (n : INode) : INode × Bool :=
  ((List.range t.d).foldl (fun n i =>
    match t.at (child t.d pp i) with
    | .leaf l => leafUpdate t.sizes l n
    | .node c => nodeUpdate t.sizes c n
    | .none => n) n, true)

def removeFirst (x : Nat) : List Nat → List Nat
  | [] => []
  | y :: ys => if y = x then ys else y :: removeFirst x ys

/-- `_fill_up(search_fn)` -/
def fillUpLoop (fixed : Bool) (fn : Tree → Nat → INode → INode × Bool) :
    Nat → Tree → List Nat → List Nat → Except Err Tree
  | 0, _, _, _ => .error .fuel
  | _ + 1, t, _, [] => .ok t
  | fuel + 1, t, visited, nodeP :: queue =>
    if nodeP = 0 then
      (if queue.isEmpty then .ok t else .error .assertion)
    else
      let pp := parent t.d nodeP
      -- parent.node is None?
      let step : Except Err (Option (Tree × Bool)) :=
        match t.at pp with
        | .none =>
          if t.missing.contains pp then do
            let t ← rebuild fixed t.rebuildFuel t pp
            pure (some (t, true))
          else pure none
        | _ => pure (some (t, false))
      match step with
      | .error e => .error e
      | .ok none => fillUpLoop fixed fn fuel t visited queue
      | .ok (some (t, wasMissing)) =>
        if visited.contains nodeP then fillUpLoop fixed fn fuel t visited queue
        else
          let sibs := (List.range t.d).map (child t.d pp)
          let visited := sibs.reverse ++ nodeP :: visited
          let queue := sibs.foldl (fun q s => removeFirst s q) queue
          match t.at pp with
          | .node n =>
            let (n', again) := fn t pp n
            let t := { t with nodes := t.nodes.set pp n' }
            fillUpLoop fixed fn fuel t visited (if again || wasMissing then queue ++ [pp] else queue)
          | .leaf _ => .error .attribute     -- a leaf has no `.metadata` dict / is updated as a node
          | .none => .error .key

def sortDesc (l : List Nat) : List Nat :=
  l.foldl (fun acc x => ins x acc) []
where
  ins (x : Nat) : List Nat → List Nat
    | [] => [x]
    | y :: ys => if x ≥ y then x :: y :: ys else y :: ins x ys

def Tree.fillFuel (t : Tree) : Nat := 4 * (listMax (t.leaves.keys ++ t.missing ++ t.nodes.keys) + 2) * (t.d + 2) + 16

def fillUp (fixed : Bool) (fn : Tree → Nat → INode → INode × Bool) (t : Tree) : Except Err Tree :=
  fillUpLoop fixed fn t.fillFuel t [] (sortDesc t.leaves.keys)

def fillMinNBelow (fixed : Bool) (t : Tree) : Except Err Tree := fillUp fixed fillMinFn t
def fillInternal (fixed : Bool) (t : Tree) : Except Err Tree := fillUp fixed fillGraphFn t

/-! ### `_NodesCache` -/

/-- stable insertion sort by number of touches, ascending (= `Counter.most_common()`: counts
are the negated touches, sorted descending, ties in insertion order) -/
def sortByTouches (l : List (Nat × Nat)) : List (Nat × Nat) :=
  l.foldl (fun acc x => ins x acc) []
where
  ins (x : Nat × Nat) : List (Nat × Nat) → List (Nat × Nat)
    | [] => [x]
    | y :: ys => if x.2 < y.2 then x :: y :: ys else y :: ins x ys

/-- `popitem`: evict (and unload) the largest key among the least-touched entries of the first 50 -/
def cachePop (keep : Bool) (t : Tree) : Tree :=
  let common := (sortByTouches t.cache).take 50
  match common with
  | [] => t
  | c0 :: _ =>
    let cands := (common.filter (fun c => c.2 = c0.2)).map (·.1)
    let key := listMax cands
    let t := { t with cache := t.cache.filter (fun c => c.1 ≠ key) }
    t.modNode key (INode.unloadV keep)

def cacheTouch (c : List (Nat × Nat)) (key : Nat) : List (Nat × Nat) :=
  if c.any (fun x => x.1 = key) then c.map (fun x => if x.1 = key then (x.1, x.2 + 1) else x)
  else c ++ [(key, 1)]

/-- `self._nodescache[key] = node` for a key not in the cache (`maxsize ≥ 1`) -/
def cacheSet (keep : Bool) : Nat → Tree → Nat → Tree
  | 0, t, key => { t with cache := cacheTouch t.cache key }
  | fuel + 1, t, key =>
    match t.cacheMax with
    | some mx =>
      if t.cache.length + 1 > mx ∧ t.cache ≠ [] then cacheSet keep fuel (cachePop keep t) key
      else { t with cache := cacheTouch t.cache key }
    | none => { t with cache := cacheTouch t.cache key }

/-! ### search -/

def interCount (a b : List Nat) : Nat := (a.filter (fun x => b.contains x)).length

/-- the query as `find` sees it: `mins` are the query's hashes after `find` has downsampled the
query to the tree's scaled (when the query is finer); `cut = some max_hash` when the query is
COARSER than the tree: every leaf is then downsampled to the query's scaled before it is scored
(`downsample_node`), and an internal node's `min_n_below` (counted at the tree's scaled) is
replaced by 1 in its score -/
structure Query where
  containment : Bool       -- do_containment
  thr : Nat                -- threshold in thousandths
  mins : List Nat
  maxc : Bool              -- do_max_containment (exclusive with `containment`; wins in this model)
  cut : Option Nat

/-- `passes(score)` for `score = shared / denom` (exact: the two floats are correctly rounded
quotients of small integers and cannot straddle) -/
def passes (q : Query) (shared denom : Nat) : Bool :=
  denom ≠ 0 && shared ≠ 0 && shared * 1000 ≥ q.thr * denom

/-- the leaf's hashes as scored: downsampled to the query's scaled when that is coarser -/
def leafView (q : Query) (l : Leaf) : List Nat :=
  match q.cut with
  | some mh => l.hashes.filter (fun h => h ≤ mh)
  | none => l.hashes

/-- the size an internal node contributes to its score: `min_n_below`, or 1 for a coarser query -/
def subjSize (q : Query) (m : Nat) : Nat := if q.cut.isSome then 1 else m

/-- score denominators of the three search types (`score_jaccard` with `total_size`,
`score_containment`, `score_max_containment`) -/
def denomOf (q : Query) (subj total : Nat) : Nat :=
  if q.maxc then min q.mins.length subj
  else if q.containment then q.mins.length else total

/-- `node_search` on a leaf -/
def leafPasses (q : Query) (l : Leaf) : Bool :=
  let view := leafView q l
  let shared := interCount q.mins view
  let total := q.mins.length + view.length - shared
  passes q shared (denomOf q view.length total)

/-- `_find_nodes` (dfs, `unload_data=True`) with `find`'s `node_search` inlined -/
def findLoop (fixed keep : Bool) (q : Query) : Nat → Tree → List Nat → List Nat → List Leaf → Tree × Except Err (List Leaf)
  | 0, t, _, _, _ => (t, .error .fuel)
  | _ + 1, t, _, [], acc => (t, .ok acc)
  | fuel + 1, t, visited, p :: queue, acc =>
    match t.leaves.get? p with
    | some l =>
      if visited.contains p then findLoop fixed keep q fuel t visited queue acc
      else
        let acc := if leafPasses q l then acc ++ [l] else acc
        findLoop fixed keep q fuel t (p :: visited) queue acc
    | none =>
      -- internal position: cache hit, present node, or repair
      let r : Except Err (Option Tree) :=
        if t.cache.any (fun c => c.1 = p) then .ok (some { t with cache := cacheTouch t.cache p })
        else match t.nodes.get? p with
          | some _ => .ok (some (cacheSet keep (t.cache.length + 1) t p))
          | none =>
            if t.missing.contains p then
              match rebuild fixed t.rebuildFuel t p with
              | .ok t => .ok (some (cacheSet keep (t.cache.length + 1) t p))
              | .error e => .error e
            else .ok none
      match r with
      | .error e => (t, .error e)
      | .ok none => findLoop fixed keep q fuel t visited queue acc
      | .ok (some t) =>
        if visited.contains p then findLoop fixed keep q fuel t visited queue acc
        else
          match t.nodes.get? p with
          | none => (t, .error .key)
          | some n =>
            match n.minN with
            | none => (t, .error .value)          -- "no min_n_below on this tree"
            | some m =>
              let shared := (n.data t.sizes).matchCount q.mins
              let ok := passes q shared (denomOf q (subjSize q m) (subjSize q m))
              let queue := if ok then ((List.range t.d).map (child t.d p)).reverse ++ queue else queue
              let t := t.modNode p (INode.unloadV keep)
              findLoop fixed keep q fuel t (p :: visited) queue acc

def Tree.findFuel (t : Tree) : Nat := (listMax (t.leaves.keys ++ t.missing ++ t.nodes.keys) + 2) * (t.d + 2) + 16

/-- `tree.search(query, threshold=thr/1000, do_containment=c)`; an empty tree raises
(`next(iter(self.leaves()))` -> StopIteration -> RuntimeError inside a generator) -/
def search (fixed keep : Bool) (t : Tree) (q : Query) : Tree × Except Err (List Leaf) :=
  findLoop fixed keep q t.findFuel t [] [0] []

/-! ### save / load -/

/-- what `save` puts in the index for an internal node -/
structure SavedNode where
  data : NG
  minN : Option Nat
deriving Repr

structure Image where
  d : Nat
  sizes : List Nat
  nodes : PMap SavedNode
  leaves : PMap Leaf
deriving Repr

/-- the adapter's stand-in for `random()`: a value in thousandths (1..999; the real `random()` is 0.0 with
probability 2^-53, in which case `save(sparseness=0)` would omit a node too) determined by the position -/
def drawAt (seed pos : Nat) : Nat := 1 + (pos * 7919 + seed * 104729 + 17) % 999

/-- `save(path, sparseness=sp/1000)`: an internal node is skipped when `random() - sparseness <= 0` -/
def save (t : Tree) (omitted : Nat → Bool) : Image :=
  { d := t.d, sizes := t.sizes,
    nodes := (t.nodes.filter (fun kv => !omitted kv.1)).map (fun kv => (kv.1, ⟨kv.2.data t.sizes, kv.2.minN⟩)),
    leaves := t.leaves }

/-- `tree.save(path_elsewhere, sparseness=...)` while the tree stays in use: the image written, and
the in-memory tree, which `save` leaves exactly as it was (every node is written through the target
storage and handed back to the storage it was loaded from; contents and dirty flags are untouched) -/
def saveElsewhere (t : Tree) (omitted : Nat → Bool) : Tree × Image := (t, save t omitted)

/-- `_load_v3` .. `_load_v6` (version 3: metadata without `min_n_below`, then `_fill_min_n_below`) -/
def load (fixed : Bool) (im : Image) (version : Nat) (cacheMax : Option Nat) : Except Err Tree :=
  if im.leaves.isEmpty then .error .value     -- "Empty tree!"
  else
    let nodes : PMap INode := im.nodes.map (fun kv =>
      (kv.1, ⟨none, some kv.2.data, true, if version = 3 then none else kv.2.minN⟩))
    let maxNode := listMax (0 :: (im.nodes.keys ++ im.leaves.keys))
    let missing := (List.range maxNode).filter (fun i => !(PMap.has nodes i) && !(PMap.has im.leaves i))
    let t : Tree := { d := im.d, sizes := im.sizes, nodes := nodes, leaves := im.leaves, missing := missing,
                      nextNode := if version = 4 then maxNode else 0, cacheMax := cacheMax, cache := [] }
    if version = 3 then fillMinNBelow fixed t else .ok t

/-- Python `round(x, -2)` on an int (ties to the even hundred) -/
def round100 (x : Nat) : Nat :=
  let q := x / 100
  let r := x % 100
  if r < 50 then q * 100 else if r > 50 then (q + 1) * 100 else if q % 2 = 0 then q * 100 else (q + 1) * 100

/-- `_load_v1` / `_load_v2` (index versions 1 and 2): no factory or storage record -- the factory is
re-derived from the header of the root's filter file (`extract_nodegraph_info`: first table size
rounded to the hundred, number of tables), nothing is recorded as missing, internal nodes carry no
metadata (legacy writers stored none).  `fills = true`: the loader ends with `_fill_min_n_below()`
as `_load_v3` does; `fills = false`: it does not (the tree then has no `min_n_below` at all) -/
def loadLegacy (fixed fills : Bool) (im : Image) (cacheMax : Option Nat) : Except Err Tree :=
  match im.nodes.get? 0 with
  | none => .error .key                          -- `nodes[0]`
  | some root =>
    match root.data.bs with
    | [] => .error .value                        -- "Node graph ... is corrupt" (no table to read a size from)
    | b :: _ =>
      let nodes : PMap INode := im.nodes.map (fun kv => (kv.1, ⟨none, some kv.2.data, true, none⟩))
      let t : Tree := { d := im.d, sizes := NG.tableSizes (round100 b.length) root.data.bs.length,
                        nodes := nodes, leaves := im.leaves, missing := [], nextNode := 0,
                        cacheMax := cacheMax, cache := [] }
      if fills then fillMinNBelow fixed t else .ok t

/-! ### `combine` -/

/-- `int(math.ceil(math.log(n, d)))` for `n ≥ 1`, `d ≥ 2`: the least `k` with `d^k ≥ n` (a float
`log` a hair above an exact integer only adds a level in which nothing is found to copy) -/
def ceilLog (d n : Nat) : Nat := go n 0 1
where
  go : Nat → Nat → Nat → Nat
    | 0, k, _ => k
    | f + 1, k, pw => if pw ≥ n then k else go f (k + 1) (pw * d)

/-- one source tree's share of one level: `cnt` positions from `lo` copied to `cur ..` (an
internal node wins over a leaf at the same position, nothing is copied from an empty position) -/
def combineCopy (src : Tree) : Nat → Nat → Nat → PMap INode × PMap Leaf → PMap INode × PMap Leaf
  | 0, _, _, acc => acc
  | cnt + 1, lo, cur, (ns, ls) =>
    let acc := match src.nodes.get? lo with
      | some n => (ns.set cur n, ls)
      | none => match src.leaves.get? lo with
        | some l => (ns, ls.set cur l)
        | none => (ns, ls)
    combineCopy src cnt (lo + 1) (cur + 1) acc

/-- the `for level in range(1, levels + 1)` loop: `nPrev .. nNext-1` are the positions of one level
of the source trees, `cur` the first position of the next level of the result -/
def combineLevels (d : Nat) (larger smaller : Tree) :
    Nat → Nat → Nat → Nat → Nat → PMap INode × PMap Leaf → PMap INode × PMap Leaf
  | 0, _, _, _, _, acc => acc
  | rem + 1, level, nPrev, nNext, cur, acc =>
    let cnt := nNext - nPrev
    let acc := combineCopy larger cnt nPrev cur acc
    let acc := combineCopy smaller cnt nPrev (cur + cnt) acc
    let nNext' := nNext + d ^ level
    combineLevels d larger smaller rem (level + 1) nNext nNext' nNext' acc

/-- `self.combine(other)`: a fresh root merging the two roots; level by level the larger tree (ties:
`self`) fills the first subtree and the smaller one the second.  Everything else of `self`
(`_missing_nodes`, `next_node`, cache, manifest) is left as it is -/
def combine (self other : Tree) : Except Err Tree :=
  let (larger, smaller) := if other.leaves.length > self.leaves.length then (other, self) else (self, other)
  match larger.nodes.get? 0, smaller.nodes.get? 0 with
  | some rl, some rs =>
    let root := nodeUpdate self.sizes rs (nodeUpdate self.sizes rl INode.fresh)
    let levels := ceilLog self.d (max larger.leaves.length 2) + 1
    let (ns, ls) := combineLevels self.d larger smaller levels 1 0 1 1 (PMap.set [] 0 root, [])
    .ok { self with nodes := ns, leaves := ls }
  | _, _ => .error .key

/-! ### observation helpers (used by the driver and by the executable invariant) -/

def Tree.positions (t : Tree) : List Nat :=
  (sortDesc (t.nodes.keys ++ t.leaves.keys ++ t.missing)).reverse.eraseDups

/-- leaves strictly below position `a` -/
def Tree.leavesBelow (t : Tree) (a : Nat) : List (Nat × Leaf) :=
  t.leaves.filter (fun kv => (ancestors t.d kv.1).contains a)

def leafCovered (sizes : List Nat) (n : INode) (l : Leaf) : Bool :=
  l.hashes.all (fun h => (n.data sizes).has h)

/-- executable form of the property (used for kernel-checked counterexamples) -/
def coverB (t : Tree) : Bool :=
  t.leaves.keys.all (fun p =>
    match t.leaves.get? p with
    | none => true
    | some l =>
      (ancestors t.d p).all (fun a =>
        !t.leaves.has a &&
        (match t.nodes.get? a with
         | some n => leafCovered t.sizes n l &&
                     (match n.minN with | some m => decide (m ≤ max 1 l.hashes.length) | none => false)
         | none => t.missing.contains a)))

end Sm.SBT
