/-
Driver for the `cmp` correspondence stream (C05): pairs of sketches and the
comparison operations on them.  Sketch-building ops are those of the `mh`
stream (delegated to `DriverMh.step`) plus `newm`, which also takes the
molecule type.

Values: a ratio that the exact binary64 model produces is printed as
`<odd mantissa>p<exponent>` (`F64.toStr`); a value whose computation went
through `**`, `sqrt` or `acos` (tier 2) is computed HERE with the run-time
`Float` (same libm as the implementation), printed in the same form with a
leading `~`, and compared by the harness with relative tolerance 1e-12.
Nothing in a theorem depends on the `Float` code of this file.
-/
import SmVerif.Model.Compare
import SmVerif.Model.DriverMh

namespace Sm.DriverCmp

open Sm.Proto Sm.DriverMh Sm.Cmp Sm.PyCmp

abbrev St := DriverMh.St

def init : St := DriverMh.init

def err (e : MH.Err) : String := "err " ++ errName e

/-- tier-2 value in canonical text -/
def fl (x : Float) : String :=
  match F64.ofBits x.toBits.toNat with
  | some f => "~" ++ F64.toStr f
  | none => if x.isNaN then "~nan" else "~neg"

/-- exact double -> run-time Float (exact: mantissa < 2^53) -/
def toFloat (x : F64.F) : Float := Float.scaleB x.m.toFloat x.e

/-- run-time Float -> exact double (`none`: negative / inf / NaN) -/
def ofFloat (x : Float) : Option F64.F := F64.ofBits x.toBits.toNat

/-- libm `acos` on an exact double in [0, 1] -/
def acosF (c : F64.F) : F64.F :=
  match ofFloat (Float.acos (toFloat c)) with
  | some f => f
  | none => ⟨0, 0⟩

/-- the tail of `angular_similarity`: everything but `acos` through the exact model.
    Exact text (no `~`) at the two ends where `acos` is exact in every libm (`acos(1) = 0`,
    `acos(0) = fl(π/2)`); otherwise tier 2 -/
def angStr (p a b : Nat) : String :=
  if a = 0 ∨ b = 0 then "0p0"
  else
    let c := cosArg p a b
    let v := angTail acosF c
    let txt := F64.SF.toStr v
    if F64.isOne c || c.m = 0 then txt else "~" ++ txt

def simStr : SimVal → String
  | .jac c u => F64.toStr (ratioF (c, u))
  | .ang p a b => angStr p a b

/-- `1.0 - (1.0 - 1.0 / scaled) ** float(denom * scaled)` through libm `pow` -/
def biasFloat (sc denom : Nat) : Float :=
  1.0 - Float.pow (1.0 - 1.0 / sc.toFloat) (denom * sc).toFloat

def biasF (sc denom : Nat) : F64.F :=
  match ofFloat (biasFloat sc denom) with
  | some f => f
  | none => ⟨0, 0⟩

/-- value of a containment result: the exact model `Cont.value` around the libm bias factor;
    `inl` = no libm value involved (early return, or the bias factor is exactly 1.0) -/
def contVal (c : Cont) : Except String (Sum F64.F F64.F) :=
  match c with
  | .zero => .ok (.inl F64.zero)
  | .ratio _ d sc =>
    let b := biasF sc d
    if b.m = 0 then .error "ZeroDivisionError"
    else
      let v := c.value (fun _ _ => b)
      if F64.isOne b then .ok (.inl v) else .ok (.inr v)

def valStr : Sum F64.F F64.F → String
  | .inl f => F64.toStr f
  | .inr x => "~" ++ F64.toStr x

def contStr (c : Cont) : String :=
  match contVal c with
  | .ok v => valStr v
  | .error e => "E." ++ e

def avgStr (c1 c2 : Cont) : String :=
  match contVal c1, contVal c2 with
  | .ok (.inl x), .ok (.inl y) => F64.toStr (avgF x y)
  | .ok x, .ok y =>
    let f : Sum F64.F F64.F → F64.F := fun v => match v with
      | .inl a => a
      | .inr a => a
    "~" ++ F64.toStr (avgF (f x) (f y))
  | .error e, _ => "E." ++ e
  | _, .error e => "E." ++ e

/-- a field of a composite answer: value or `E.<Class>` -/
def fld {α} (x : Except MH.Err α) (f : α → String) : String :=
  match x with
  | .ok v => f v
  | .error e => "E." ++ errName e

def ans {α} (st : St) (x : Except MH.Err α) (f : α → String) : St × String :=
  match x with
  | .ok v =>
    let s := f v
    if s.startsWith "E." then (st, "err " ++ (s.drop 2).toString) else (st, "ok " ++ s)
  | .error e => (st, err e)

def two (st : St) (a b : String) : Option (MH × MH) :=
  match nat? a, nat? b with
  | some a, some b => match get st a, get st b with
    | some s, some o => some (s, o)
    | _, _ => none
  | _, _ => none

def hfKsize (hf k : Nat) : Nat := if hf = 1 then k else 3 * k

def step (st : St) (line : String) : St × String :=
  let bad := (st, "bad-op")
  match words line with
  | "#" :: _ => (init, "#")
  | ["newm", r, num, scaled, track, ksize, seed, hf] =>
    match nats? [r, num, scaled, ksize, seed, hf], bool? track with
    | some [r, num, scaled, ksize, seed, hf], some tr =>
      if hf = 0 ∨ hf > 4 then bad
      else fin st r (Py.mkMinHash num (hfKsize hf ksize) hf seed tr 0 scaled)
    | _, _ => bad
  | ["fsqrt", n] =>
    -- `math.sqrt(float(n))`: validates the exact square root of the model bit for bit
    match nat? n with
    | some n => (st, "ok " ++ F64.toStr (F64.sqrt (F64.ofNat n)))
    | none => bad
  | ["fcos", p, a, b] =>
    -- `min(float(p) / (sqrt(float(a)) * sqrt(float(b))), 1.0)`: the argument handed to acos
    match nats? [p, a, b] with
    | some [p, a, b] => if a = 0 ∨ b = 0 then bad else (st, "ok " ++ F64.toStr (cosArg p a b))
    | _ => bad
  -- Rust-level entry points (the rust-harness `twin` module issues them on a KmerMinHash and a KmerMinHashBTree)
  | ["rsim", a, b, ia, ds] =>
    match two st a b, bool? ia, bool? ds with
    | some (s, o), some ia, some ds => ans st (Cmp.similarity s o ia ds) simStr
    | _, _, _ => bad
  | ["rjac", a, b] =>
    match two st a b with
    | some (s, o) => ans st (Cmp.jaccard s o) F64.toStr
    | none => bad
  | ["rang", a, b] =>
    match two st a b with
    | some (s, o) => ans st (angularParts s o) (fun t => angStr t.1 t.2.1 t.2.2)
    | none => bad
  | ["isz", a, b] =>
    match two st a b with
    | some (s, o) => ans st (Cmp.intersectionSize s o) (fun p => s!"{p.1} {p.2}")
    | none => bad
  | ["compat", a, b] =>
    match two st a b with
    | some (s, o) => (st, s!"ok {b2s (isCompatible s o)}")
    | none => bad
  | ["cc", a, b, ds] =>
    match two st a b, bool? ds with
    | some (s, o), some ds => ans st (PyCmp.countCommon s o ds) toString
    | _, _ => bad
  | ["iu", a, b] =>
    match two st a b with
    | some (s, o) => ans st (intersectionAndUnionSize s o) (fun p => s!"{p.1} {p.2}")
    | none => bad
  | ["jac", a, b, ds] =>
    match two st a b, bool? ds with
    | some (s, o), some ds => ans st (PyCmp.jaccard s o ds) simStr
    | _, _ => bad
  | ["sim", a, b, ia, ds] =>
    match two st a b, bool? ia, bool? ds with
    | some (s, o), some ia, some ds => ans st (PyCmp.similarity s o ia ds) simStr
    | _, _, _ => bad
  | ["ssim", a, b, ia, ds] =>
    -- SourmashSignature.similarity: pass-through
    match two st a b, bool? ia, bool? ds with
    | some (s, o), some ia, some ds => ans st (PyCmp.similarity s o ia ds) simStr
    | _, _, _ => bad
  | ["sjac", a, b] =>
    match two st a b with
    | some (s, o) => ans st (sigJaccard s o) simStr
    | none => bad
  | ["ang", a, b] =>
    match two st a b with
    | some (s, o) => ans st (angularSimilarity s o) simStr
    | none => bad
  | ["cb", a, b, ds] =>
    match two st a b, bool? ds with
    | some (s, o), some ds => ans st (containedBy s o ds) contStr
    | _, _ => bad
  | ["scb", a, b, ds] =>
    -- SourmashSignature.contained_by: pass-through
    match two st a b, bool? ds with
    | some (s, o), some ds => ans st (containedBy s o ds) contStr
    | _, _ => bad
  | ["mc", a, b, ds] =>
    match two st a b, bool? ds with
    | some (s, o), some ds => ans st (maxContainment s o ds) contStr
    | _, _ => bad
  | ["smc", a, b, ds] =>
    -- SourmashSignature.max_containment: pass-through
    match two st a b, bool? ds with
    | some (s, o), some ds => ans st (maxContainment s o ds) contStr
    | _, _ => bad
  | ["sac", a, b, ds] =>
    -- SourmashSignature.avg_containment: pass-through
    match two st a b, bool? ds with
    | some (s, o), some ds => ans st (avgContainment s o ds) (fun p => avgStr p.1 p.2)
    | _, _ => bad
  | ["ac", a, b, ds] =>
    match two st a b, bool? ds with
    | some (s, o), some ds => ans st (avgContainment s o ds) (fun p => avgStr p.1 p.2)
    | _, _ => bad
  | ["frac", a, b, cs, ia] =>
    match two st a b, nat? cs, bool? ia with
    | some (s, o), some cs, some ia =>
      match fracNew s o (if cs = 0 then none else some cs) ia with
      | .error e => (st, err e)
      | .ok (cs, x, y) =>
        let j := fld (PyCmp.jaccard x y false) simStr
        let an := fld (angularSimilarity x y) simStr
        let c12 := fld (containedBy x y false) contStr
        let c21 := fld (containedBy y x false) contStr
        let mx := fld (maxContainment x y false) contStr
        let av := fld (avgContainment x y false) (fun p => avgStr p.1 p.2)
        let ti := fld (totalUniqueIntersectHashes cs x y) toString
        (st, s!"ok cs={cs} n1={x.mins.length} n2={y.mins.length} j={j} an={an} c12={c12} c21={c21} mx={mx} av={av} ti={ti}")
    | _, _, _ => bad
  | ["numc", a, b, cn, ia] =>
    match two st a b, nat? cn, bool? ia with
    | some (s, o), some cn, some ia =>
      match numNew s o (if cn = 0 then none else some cn) ia with
      | .error e => (st, err e)
      | .ok (cn, x, y) =>
        let j := fld (PyCmp.jaccard x y false) simStr
        let an := fld (angularSimilarity x y) simStr
        (st, s!"ok cn={cn} n1={x.mins.length} n2={y.mins.length} j={j} an={an}")
    | _, _, _ => bad
  | _ => DriverMh.step st line

end Sm.DriverCmp
