/-
Exact integer model of the IEEE-754 binary64 operations sourmash's
scaled <-> max_hash conversions and ratio scores are built from.

A finite non-negative double is `m * 2^e` (`m : Nat`, `e : Int`); zero is `m = 0`.
Only correctly-rounded primitives are modelled: division of two exactly
represented values (round-to-nearest-even), conversion of an integer to a
double, truncation to an integer (`as u64`, saturating), and rounding to the
nearest integer, ties to even (Python `round(x, 0)`) or ties away (Rust `.round()`).

Range assumption (trusted base): every value that occurs is a normal double
(no subnormals, no overflow to infinity): operands are < 2^64 and quotients
are > 2^-64.

Import-free on purpose: this file is part of the executable model.
-/
namespace Sm.F64

structure F where
  m : Nat
  e : Int
deriving Repr, DecidableEq, Inhabited

/-- number of binary digits of `n` (0 for 0) -/
def bitlen (n : Nat) : Nat := if n = 0 then 0 else Nat.log2 n + 1

/-- `n / 2^d` rounded to nearest, ties to even; `sticky` says that bits below
`n`'s unit were non-zero (so an apparent tie is really above the half). -/
def shiftRNE (n d : Nat) (sticky : Bool) : Nat :=
  if d = 0 then n
  else
    let q := n / 2 ^ d
    let r := n % 2 ^ d
    let half := 2 ^ (d - 1)
    if r > half then q + 1
    else if r = half then
      (if sticky then q + 1 else if q % 2 = 1 then q + 1 else q)
    else q

/-- Correctly rounded (RNE, 53-bit) quotient `a / b` of two positive naturals. -/
def divNat (a b : Nat) : F :=
  if a = 0 ∨ b = 0 then ⟨0, 0⟩
  else
    let la : Int := Nat.log2 a
    let lb : Int := Nat.log2 b
    let s : Int := 55 + lb - la
    let num := a * 2 ^ s.toNat
    let den := b * 2 ^ (-s).toNat
    let n := num / den
    let sticky := decide (num % den ≠ 0)
    let d := bitlen n - 53
    let m := shiftRNE n d sticky
    if m = 2 ^ 53 then ⟨2 ^ 52, (d : Int) + 1 - s⟩ else ⟨m, (d : Int) - s⟩

/-- integer -> double, round to nearest even (`x as f64`, Python `float(int)`) -/
def ofNat (n : Nat) : F := divNat n 1

/-- correctly rounded quotient of two doubles -/
def div (x y : F) : F :=
  let q := divNat x.m y.m
  if q.m = 0 then q else ⟨q.m, q.e + x.e - y.e⟩

/-- floor of a non-negative double -/
def floor (x : F) : Nat :=
  if x.e ≥ 0 then x.m * 2 ^ x.e.toNat else x.m / 2 ^ (-x.e).toNat

/-- Rust `x as u64` for a non-negative finite double: truncation, saturating -/
def toU64 (x : F) : Nat := min (floor x) (2 ^ 64 - 1)

/-- Python `round(x, 0)`: nearest integer, ties to even -/
def roundHalfEven (x : F) : Nat :=
  if x.e ≥ 0 then x.m * 2 ^ x.e.toNat else shiftRNE x.m (-x.e).toNat false

/-- Rust `x.round()`: nearest integer, ties away from zero -/
def roundHalfAway (x : F) : Nat :=
  if x.e ≥ 0 then x.m * 2 ^ x.e.toNat
  else
    let d := (-x.e).toNat
    let q := x.m / 2 ^ d
    let r := x.m % 2 ^ d
    if r ≥ 2 ^ (d - 1) then q + 1 else q

/-- comparison `x ≥ y` of two non-negative doubles, exactly -/
def ge (x y : F) : Bool :=
  let emin := min x.e y.e
  decide (x.m * 2 ^ (x.e - emin).toNat ≥ y.m * 2 ^ (y.e - emin).toNat)

def eq (x y : F) : Bool := ge x y && ge y x

/-- canonical text: normalised odd mantissa and exponent, so that two
representations of the same real print identically -/
def canon (x : F) : F :=
  if x.m = 0 then ⟨0, 0⟩ else
  let rec go (fuel m : Nat) (e : Int) : F :=
    match fuel with
    | 0 => ⟨m, e⟩
    | fuel + 1 => if m % 2 = 0 then go fuel (m / 2) (e + 1) else ⟨m, e⟩
  go 1100 x.m x.e

def toStr (x : F) : String :=
  let c := canon x
  s!"{c.m}p{c.e}"

end Sm.F64
