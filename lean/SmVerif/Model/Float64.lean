/-
Exact integer model of the IEEE-754 binary64 operations sourmash's
scaled <-> max_hash conversions and ratio scores are built from.

A finite non-negative double is `m * 2^e` (`m : Nat`, `e : Int`); zero is `m = 0`.
Only correctly-rounded primitives are modelled: division of two exactly
represented values (round-to-nearest-even), conversion of an integer to a
double, truncation to an integer (`as u64`, saturating), and rounding to the
nearest integer, ties to even (Python `round(x, 0)`) or ties away (Rust `.round()`).

Range assumption (trusted base): every value that occurs is a normal double
(no subnormals, no overflow to infinity): operands are < 2^64 and quotients
are > 2^-64.

Import-free on purpose: this file is part of the executable model.
-/
namespace Sm.F64

structure F where
  m : Nat
  e : Int
deriving Repr, DecidableEq, Inhabited

/-- number of binary digits of `n` (0 for 0) -/
def bitlen (n : Nat) : Nat := if n = 0 then 0 else Nat.log2 n + 1

/-- `n / 2^d` rounded to nearest, ties to even; `sticky` says that bits below
`n`'s unit were non-zero (so an apparent tie is really above the half). -/
def shiftRNE (n d : Nat) (sticky : Bool) : Nat :=
  if d = 0 then n
  else
    let q := n / 2 ^ d
    let r := n % 2 ^ d
    let half := 2 ^ (d - 1)
    if r > half then q + 1
    else if r = half then
      (if sticky then q + 1 else if q % 2 = 1 then q + 1 else q)
    else q

/-- Correctly rounded (RNE, 53-bit) quotient `a / b` of two positive naturals. -/
def divNat (a b : Nat) : F :=
  if a = 0 ∨ b = 0 then ⟨0, 0⟩
  else
    let la : Int := Nat.log2 a
    let lb : Int := Nat.log2 b
    let s : Int := 55 + lb - la
    let num := a * 2 ^ s.toNat
    let den := b * 2 ^ (-s).toNat
    let n := num / den
    let sticky := decide (num % den ≠ 0)
    let d := bitlen n - 53
    let m := shiftRNE n d sticky
    if m = 2 ^ 53 then ⟨2 ^ 52, (d : Int) + 1 - s⟩ else ⟨m, (d : Int) - s⟩

/-- integer -> double, round to nearest even (`x as f64`, Python `float(int)`) -/
def ofNat (n : Nat) : F := divNat n 1

/-- correctly rounded quotient of two doubles -/
def div (x y : F) : F :=
  let q := divNat x.m y.m
  if q.m = 0 then q else ⟨q.m, q.e + x.e - y.e⟩

/-- floor of a non-negative double -/
def floor (x : F) : Nat :=
  if x.e ≥ 0 then x.m * 2 ^ x.e.toNat else x.m / 2 ^ (-x.e).toNat

/-- Rust `x as u64` for a non-negative finite double: truncation, saturating -/
def toU64 (x : F) : Nat := min (floor x) (2 ^ 64 - 1)

/-- Python `round(x, 0)`: nearest integer, ties to even -/
def roundHalfEven (x : F) : Nat :=
  if x.e ≥ 0 then x.m * 2 ^ x.e.toNat else shiftRNE x.m (-x.e).toNat false

/-- Rust `x.round()`: nearest integer, ties away from zero -/
def roundHalfAway (x : F) : Nat :=
  if x.e ≥ 0 then x.m * 2 ^ x.e.toNat
  else
    let d := (-x.e).toNat
    let q := x.m / 2 ^ d
    let r := x.m % 2 ^ d
    if r ≥ 2 ^ (d - 1) then q + 1 else q

/-- comparison `x ≥ y` of two non-negative doubles, exactly -/
def ge (x y : F) : Bool :=
  let emin := min x.e y.e
  decide (x.m * 2 ^ (x.e - emin).toNat ≥ y.m * 2 ^ (y.e - emin).toNat)

def eq (x y : F) : Bool := ge x y && ge y x

/-- canonical text: normalised odd mantissa and exponent, so that two
representations of the same real print identically -/
def canon (x : F) : F :=
  if x.m = 0 then ⟨0, 0⟩ else
  let rec go (fuel m : Nat) (e : Int) : F :=
    match fuel with
    | 0 => ⟨m, e⟩
    | fuel + 1 => if m % 2 = 0 then go fuel (m / 2) (e + 1) else ⟨m, e⟩
  go 1100 x.m x.e

def toStr (x : F) : String :=
  let c := canon x
  s!"{c.m}p{c.e}"


/-! ### additions for C19 (tax): correctly rounded addition / subtraction, signed values

`roundNat n e` rounds the exact value `n * 2^e` to 53 significant bits (round to nearest,
ties to even).  `fadd` is IEEE-754 binary64 addition of two finite non-negative doubles
(exact sum on the common exponent, then one rounding).  `SF` adds a sign, which is needed
for `1.0 - total` when a float sum has crept above 1.  Same range assumption as above
(no subnormals, no overflow). -/

/-- `n * 2^e` rounded to 53 significant bits, round-to-nearest-even -/
def roundNat (n : Nat) (e : Int) : F :=
  if n = 0 then ⟨0, 0⟩
  else
    let d := bitlen n - 53
    let m := shiftRNE n d false
    if m = 2 ^ 53 then ⟨2 ^ 52, e + (d : Int) + 1⟩ else ⟨m, e + (d : Int)⟩

/-- the two mantissas on the common (smaller) exponent -/
def alignL (x y : F) : Nat := x.m * 2 ^ (x.e - min x.e y.e).toNat
def alignR (x y : F) : Nat := y.m * 2 ^ (y.e - min x.e y.e).toNat

/-- correctly rounded sum of two non-negative doubles (`x + y`) -/
def fadd (x y : F) : F :=
  if x.m = 0 then y
  else if y.m = 0 then x
  else roundNat (alignL x y + alignR x y) (min x.e y.e)

/-- correctly rounded product of two non-negative doubles (`x * y`) -/
def fmul (x y : F) : F := roundNat (x.m * y.m) (x.e + y.e)

/-- a finite double with a sign: value `(-1)^neg * a` -/
structure SF where
  neg : Bool
  a : F
deriving Repr, DecidableEq, Inhabited

namespace SF

def zero : SF := ⟨false, ⟨0, 0⟩⟩
def one : SF := ⟨false, ⟨1, 0⟩⟩
def ofF (x : F) : SF := ⟨false, x⟩

/-- `x - y` of two non-negative doubles, correctly rounded -/
def subF (x y : F) : SF :=
  if alignL x y ≥ alignR x y then ⟨false, roundNat (alignL x y - alignR x y) (min x.e y.e)⟩
  else ⟨true, roundNat (alignR x y - alignL x y) (min x.e y.e)⟩

/-- correctly rounded `x + y` -/
def add (x y : SF) : SF :=
  match x.neg, y.neg with
  | false, false => ⟨false, fadd x.a y.a⟩
  | true, true => ⟨true, fadd x.a y.a⟩
  | false, true => subF x.a y.a
  | true, false => subF y.a x.a

/-- correctly rounded `x - y` -/
def sub (x y : SF) : SF := add x ⟨!y.neg, y.a⟩

/-- exact `x < y` -/
def lt (x y : SF) : Bool :=
  match x.neg, y.neg with
  | false, false => !(ge x.a y.a)
  | true, true => !(ge y.a x.a)
  | false, true => false
  | true, false => !(x.a.m = 0 && y.a.m = 0)

/-- exact `x ≤ y` -/
def le (x y : SF) : Bool := !(lt y x)

def toStr (x : SF) : String :=
  if x.neg && x.a.m ≠ 0 then "-" ++ F64.toStr x.a else F64.toStr x.a

end SF

end Sm.F64
