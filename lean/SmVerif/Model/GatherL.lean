/-
The gather model over *list sketches*: a scaled MinHash reduced to what gather can
observe of it -- its scaled value, its ascending hash values and (optionally) their
abundances -- with every operation written directly as a filter on the hash list.
`Props/C07.lean` / `Props/C08.lean` state their theorems about this instance; the driver
runs it next to the `MH` instance on every operation of the correspondence streams.

Downsampling to `sc` keeps the hashes `≤ mhR sc` (`Model/Scaled.lean`: the threshold the
code computes for `sc`); C03 proves that for `1 ≤ sc ≤ 2^31` a sketch created or downsampled
at `sc` carries exactly this threshold and reports `sc` back.
-/
import SmVerif.Model.Scaled
import SmVerif.Model.MinHash
import SmVerif.Model.Gather

namespace Sm.Gather

open Sm

/-- a scaled sketch: `ab = none` for a flat sketch, else one abundance per hash -/
structure LS where
  scaled : Nat
  hs : List Nat
  ab : Option (List Nat)
deriving Repr, Inhabited, DecidableEq

namespace LS

def pairs (s : LS) : List (Nat × Nat) :=
  match s.ab with
  | some ab => s.hs.zip ab
  | none => s.hs.map (fun h => (h, 1))

/-- keep the entries whose hash satisfies `p` -/
def filterH (p : Nat → Bool) (s : LS) : LS :=
  { s with hs := s.hs.filter p,
           ab := s.ab.map (fun ab => ((s.hs.zip ab).filter (fun q => p q.1)).map Prod.snd) }

/-- `downsample(scaled=sc)` -/
def ds (s : LS) (sc : Nat) : Except GErr LS :=
  if s.scaled > sc then .error .value
  else .ok { (filterH (fun h => decide (h ≤ mhR sc)) s) with scaled := sc }

def flat (s : LS) : LS := { s with ab := none }

/-- `a & b` for flat sketches at the same scaled -/
def and (a b : LS) : Except GErr LS :=
  if a.ab.isSome ∨ b.ab.isSome then .error .type
  else if a.scaled ≠ b.scaled then .error .value
  else .ok { scaled := a.scaled, hs := interL a.hs b.hs, ab := none }

/-- `count_common(other, downsample=True)`: the finer sketch is downsampled first -/
def cc (a b : LS) : Except GErr Nat :=
  if a.scaled = b.scaled then .ok (interL a.hs b.hs).length
  else if a.scaled > b.scaled then
    .ok (interL a.hs (b.hs.filter (fun h => decide (h ≤ mhR a.scaled)))).length
  else
    .ok (interL b.hs (a.hs.filter (fun h => decide (h ≤ mhR b.scaled)))).length

def interSize (a b : LS) : Except GErr (Nat × Nat) :=
  let c := interL a.hs b.hs
  .ok (c.length, a.hs.length + b.hs.length - c.length)

/-- `a.remove_many(b)` -/
def removeFrom (a b : LS) : LS := filterH (fun h => !b.hs.contains h) a

/-- sorted union of two ascending lists -/
def unionL : List Nat → List Nat → List Nat
  | [], ys => ys
  | x :: xs, ys => go x xs (unionL xs) ys
where
  go (x : Nat) (xs : List Nat) (rec : List Nat → List Nat) : List Nat → List Nat
    | [] => x :: xs
    | y :: ys =>
      if y < x then y :: go x xs rec ys
      else if y = x then x :: rec ys
      else x :: rec (y :: ys)

/-- `a.add_many(b)` on a flat scaled sketch: hashes above `a`'s threshold are dropped -/
def addFrom (a b : LS) : LS :=
  { a with hs := unionL a.hs (b.hs.filter (fun h => decide (h ≤ mhR a.scaled))) }

end LS

def lsOps : SkOps LS where
  scaled := fun s => s.scaled
  num := fun _ => 0
  mins := fun s => s.hs
  track := fun s => s.ab.isSome
  pairs := LS.pairs
  dsM := LS.ds
  dsF := LS.ds
  flat := fun s => .ok s.flat
  and := LS.and
  cc := LS.cc
  compatible := fun a b => decide (a.scaled = b.scaled)
  interSize := LS.interSize
  copyAndClear := fun s => .ok { s with hs := [], ab := s.ab.map (fun _ => []) }
  toMutable := fun s => s
  removeFrom := LS.removeFrom
  addFrom := LS.addFrom

end Sm.Gather
