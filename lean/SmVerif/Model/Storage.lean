/-
Executable model of sourmash's collection formats (property C10).

What is transcribed, and from where
* `src/sourmash/sbt_storage.py`  `_RwZipStorage`: `_generate_filename` (content-addressed name, `_n`
  suffix search that consults ONLY the zipfile it is handed), `save` (write to `self.zipfile`; when that
  is the read-only on-disk zip the write raises and the entry goes to `bufferzip`), `load`, `flush`
  (union of the on-disk zip and the buffer *by name*, buffer wins).
* `src/sourmash/save_load.py`  `SaveSignatures_ZipFile.open/add/close`, `SaveSignatures_Directory.add`
  (`md5`, `md5_0`, `md5_1`, ... suffix scheme), `SaveSignatures_SigFile`, `SaveSignatures_SqliteIndex`,
  the loader chain `_load_database` over `_loader_functions`.
* `src/sourmash/manifest.py`  `make_manifest_row`, `locations`, `__contains__` (by md5).
* `src/sourmash/index/__init__.py`  `ZipFileLinearIndex.signatures`, `MultiIndex.load_from_directory`.
* `src/sourmash/index/sqlite_index.py`  `convert_hash_to/from`, `SqliteIndex.insert`, `_load_sketches`.
* `src/sourmash/lca/lca_db.py`  `insert`, `_signatures`, `__len__`, save/load.
* `src/sourmash/sbt.py`  `save` (leaves through `ZipStorage.save`, manifest rows) / `signatures`.

Conventions
* A signature is an abstract record.  The JSON/gzip bytes of a member are NOT modelled: the content of a
  member is the list of signature records it decodes to, and "same bytes" is "same records" (trusted:
  serialisation is deterministic and injective; that is property C09's business).
* Names, file names and md5 digests are natural numbers (the harness maps them to strings).  md5 is an
  arbitrary field of the record: nothing here assumes that different content has different md5, and
  the theorems hold for every assignment of md5 values (in particular for equal md5 under different
  names, the case the property names).
* Member names are structured: `signatures/<md5>.sig.gz` is `⟨md5, none⟩`, `signatures/<md5>.sig.gz_<n>`
  is `⟨md5, some n⟩` (trusted: the string rendering is injective for 32-hex-digit md5 values).
* Python's `zipfile` lets `writestr` add a second physical entry under an existing name; afterwards
  `read(name)`/`getinfo(name)` see only the LAST one and `set(namelist())` one name.  Only that is
  observable by the code modelled here, so a zip is an association list with unique keys and a write
  is `upsert` (replace-or-append).
-/
namespace Sm.Storage

inductive Err where
  | valueError | keyError | fileNotFound | notImplemented | exception
deriving DecidableEq, Repr, Inhabited

def Err.name : Err → String
  | .valueError => "ValueError"
  | .keyError => "KeyError"
  | .fileNotFound => "FileNotFoundError"
  | .notImplemented => "NotImplementedError"
  | .exception => "Exception"

/-- `Except` without the monad baggage, with decidable equality -/
inductive Res (α : Type) where
  | ok (a : α)
  | err (e : Err)
deriving DecidableEq, Repr

/-- an abstract signature: one sketch with its envelope -/
structure Sig where
  name : Nat
  filename : Nat
  md5 : Nat
  ksize : Nat
  mol : Nat                      -- 0 DNA, 1 protein, 2 dayhoff, 3 hp
  num : Nat
  scaled : Nat
  seed : Nat
  track : Bool
  hashes : List (Nat × Nat)      -- ascending by hash; abundance 1 when `track = false`
deriving DecidableEq, Repr, Inhabited

/-- content-addressed member / file name -/
structure MName where
  md5 : Nat
  suffix : Option Nat
deriving DecidableEq, Repr, Inhabited

inductive Name where
  | manifest                     -- SOURMASH-MANIFEST.csv
  | sig (m : MName)              -- <subdir>/<md5>.sig.gz[_n]
  | other (k : Nat)              -- anything else (a path on disk, an unrelated member)
deriving DecidableEq, Repr, Inhabited

/-- a manifest row: exactly `BaseCollectionManifest.required_keys` -/
structure Row where
  loc : Option Name              -- internal_location (None in SqliteIndex)
  md5 : Nat
  md5short : Nat
  ksize : Nat
  mol : Nat
  num : Nat
  scaled : Nat
  nHashes : Nat
  abund : Bool
  name : Nat
  filename : Nat
deriving DecidableEq, Repr, Inhabited

/-- the column names of `Row`, in the order of the structure above -/
def Row.columns : List String :=
  ["internal_location", "md5", "md5short", "ksize", "moltype", "num", "scaled", "n_hashes",
   "with_abundance", "name", "filename"]

/-- the right-hand sides `make_manifest_row` assigns, by column (what `mkRow` transcribes) -/
def Row.sources : List (String × String) :=
  [("md5", "ss.md5sum()"), ("md5short", "row['md5'][:8]"), ("ksize", "int(mh.ksize)"),
   ("moltype", "mh.moltype"), ("num", "int(mh.num)"), ("scaled", "int(mh.scaled)"),
   ("n_hashes", "len(mh)"), ("with_abundance", "mh.track_abundance"), ("name", "ss.name"),
   ("filename", "ss.filename"), ("internal_location", "location")]

/-- first 8 of 32 hex digits -/
def md5short (m : Nat) : Nat := m / 16 ^ 24

/-- `CollectionManifest.make_manifest_row(ss, location, include_signature=False)` -/
def mkRow (ss : Sig) (loc : Option Name) : Row :=
  { loc := loc, md5 := ss.md5, md5short := md5short ss.md5, ksize := ss.ksize, mol := ss.mol,
    num := ss.num, scaled := ss.scaled, nHashes := ss.hashes.length, abund := ss.track,
    name := ss.name, filename := ss.filename }

/-- `CollectionManifest.locations()`: distinct locations, first occurrence order -/
def dedup {α : Type} [DecidableEq α] : List α → List α
  | [] => []
  | x :: xs => x :: (dedup xs).filter (· ≠ x)

def locations (rows : List Row) : List (Option Name) := dedup (rows.map (·.loc))

/-- `ss in manifest`: by md5 only -/
def inManifest (rows : List Row) (ss : Sig) : Bool := (rows.map (·.md5)).contains ss.md5

/-! ## zip files -/

inductive Content where
  | sigs (l : List Sig)          -- a .sig/.sig.gz member
  | manifest (rows : List Row)   -- SOURMASH-MANIFEST.csv
  | blob (k : Nat)
deriving DecidableEq, Repr, Inhabited

/-- a zip file as seen through `read(name)` / `set(namelist())` -/
abbrev Zip := List (Name × Content)

def read : Zip → Name → Option Content
  | [], _ => none
  | (m, c) :: t, n => if m = n then some c else read t n

/-- `writestr(name, content)` as observed afterwards -/
def upsert : Zip → Name → Content → Zip
  | [], n, c => [(n, c)]
  | (m, d) :: t, n, c => if m = n then (n, c) :: t else (m, d) :: upsert t n c

def names (z : Zip) : List Name := z.map (·.1)

/-- `while newpath is None: testpath = f"{path}_{n}" ...`: advance while `busy n`; `fuel` bounds the
    loop (the Python loop is unbounded; `fuel = len(zf) + 1` is never exhausted, see
    `Lemmas/StorageZip.lean: searchFrom_not_busy`) -/
def searchFrom (busy : Nat → Bool) : Nat → Nat → Nat
  | 0, n => n
  | fuel + 1, n => if busy n then searchFrom busy fuel (n + 1) else n

/-- `_content_matches(zf, path, content)` raised KeyError / returned False / returned True -/
inductive Probe where
  | absent | differs | same
deriving DecidableEq, Repr

def probe (rd : Name → Option Content) (n : Name) (c : Content) : Probe :=
  match rd n with
  | none => .absent
  | some d => if d = c then .same else .differs

/-- `_RwZipStorage._generate_filename(zf, path, content)` for `path = <subdir>/<md5>.sig.gz`:
    returns `(newpath, do_write)`.  `rd` is what `_content_matches` can see (`read zf` in the code as
    found: ONLY the zipfile handed in), `fuel` bounds the suffix search. -/
def genNameR (rd : Name → Option Content) (fuel : Nat) (md5 : Nat) (c : Content) : Name × Bool :=
  let path := Name.sig ⟨md5, none⟩
  match probe rd path c with
  | .same => (path, false)
  | .absent => (path, true)
  | .differs =>
    let n := searchFrom (fun n => probe rd (.sig ⟨md5, some n⟩) c = .differs) fuel 0
    let testpath := Name.sig ⟨md5, some n⟩
    match probe rd testpath c with
    | .same => (testpath, false)
    | _ => (testpath, true)

def genName (zf : Zip) (md5 : Nat) (c : Content) : Name × Bool :=
  genNameR (read zf) (zf.length + 1) md5 c

/-- the storage half of an open `SaveSignatures_ZipFile`:
    `zf` = `self.zipfile` (writable when `buf = none`, the read-only on-disk zip otherwise),
    `buf` = `self.bufferzip` -/
structure RwZip where
  zf : Zip
  buf : Option Zip
deriving DecidableEq, Repr, Inhabited

/-- `_RwZipStorage.save(path, content, overwrite=...)` -> (storage, newpath) -/
def RwZip.save (st : RwZip) (target : Name × Bool) (c : Content) : RwZip × Name :=
  let (newpath, doWrite) := target
  if doWrite then
    match st.buf with
    | none => ({ st with zf := upsert st.zf newpath c }, newpath)          -- zipfile is writable
    | some b => ({ st with buf := some (upsert b newpath c) }, newpath)    -- ValueError -> bufferzip
  else (st, newpath)

/-- OLD VARIANT (the code before commit 44244bd, kept for the regression theorems about D10):
    `save(<subdir>/<md5>.sig.gz, content)` with the name generated against `self.zipfile` ONLY -/
def RwZip.saveSigOld (st : RwZip) (md5 : Nat) (c : Content) : RwZip × Name :=
  st.save (genName st.zf md5 c) c

def unionZip (zf b : Zip) : Zip := b.foldl (fun acc e => upsert acc e.1 e.2) zf

/-- what `_content_matches` sees (since commit 44244bd, the fix of D10): the zipfile handed in, and for
    names that are not there, `bufferzip` -/
def readBoth (zf b : Zip) (n : Name) : Option Content :=
  match read zf n with
  | some c => some c
  | none => read b n

/-- `save(<subdir>/<md5>.sig.gz, content)` (overwrite=False): the content-addressed name is generated
    against the zipfile AND the buffer -/
def RwZip.saveSig (st : RwZip) (md5 : Nat) (c : Content) : RwZip × Name :=
  match st.buf with
  | none => st.save (genName st.zf md5 c) c
  | some b => st.save (genNameR (readBoth st.zf b) (st.zf.length + b.length + 1) md5 c) c

/-- `_RwZipStorage.flush()`: with a buffer, every name of `buffer_names ∪ zf_names` is written to the
    final file, from the buffer if it is there, from the on-disk zip otherwise (both Python branches,
    "duplicated" and "new_data", compute this map; they differ in whether the file is rewritten) -/
def RwZip.flush (st : RwZip) : Zip :=
  match st.buf with
  | none => st.zf
  | some b => unionZip st.zf b

structure ZipSaver where
  st : RwZip
  rows : List Row                -- self.manifest_rows
deriving DecidableEq, Repr, Inhabited

/-- `SaveSignatures_ZipFile.open()`; `disk = none` when the file does not exist -/
def ZipSaver.open (disk : Option Zip) : Res ZipSaver :=
  match disk with
  | none => .ok { st := { zf := [], buf := none }, rows := [] }
  | some z =>
    match read z .manifest with
    | some (.manifest rows) => .ok { st := { zf := z, buf := some [] }, rows := rows }
    | _ => .err .valueError      -- "Cannot add to existing zipfile ... without a manifest"

/-- OLD VARIANT of `add` (name search blind to the buffer) -/
def ZipSaver.addOld (s : ZipSaver) (ss : Sig) : ZipSaver :=
  let (st', location) := s.st.saveSigOld ss.md5 (.sigs [ss])
  { st := st', rows := s.rows ++ [mkRow ss (some location)] }

/-- `SaveSignatures_ZipFile.add(ss)` -/
def ZipSaver.add (s : ZipSaver) (ss : Sig) : ZipSaver :=
  let (st', location) := s.st.saveSig ss.md5 (.sigs [ss])
  { st := st', rows := s.rows ++ [mkRow ss (some location)] }

/-- `SaveSignatures_ZipFile.close()`: manifest saved with `overwrite=True`, then flush -/
def ZipSaver.close (s : ZipSaver) : Zip :=
  (s.st.save (.manifest, true) (.manifest s.rows)).1.flush

/-- OLD VARIANT of a session -/
def zipSessionOld (disk : Option Zip) (sigs : List Sig) : Res Zip :=
  match ZipSaver.open disk with
  | .ok s => .ok (sigs.foldl ZipSaver.addOld s).close
  | .err e => .err e

/-- one `with SaveSignaturesToLocation("x.zip") as save: for ss in sigs: save.add(ss)` -/
def zipSession (disk : Option Zip) (sigs : List Sig) : Res Zip :=
  match ZipSaver.open disk with
  | .ok s => .ok (sigs.foldl ZipSaver.add s).close
  | .err e => .err e

/-- OLD VARIANT of a session sequence -/
def zipSessionsOld : Option Zip → List (List Sig) → Res (Option Zip)
  | disk, [] => .ok disk
  | disk, s :: rest =>
    match zipSessionOld disk s with
    | .ok z => zipSessionsOld (some z) rest
    | .err e => .err e

/-- create-then-append sessions on one path -/
def zipSessions : Option Zip → List (List Sig) → Res (Option Zip)
  | disk, [] => .ok disk
  | disk, s :: rest =>
    match zipSession disk s with
    | .ok z => zipSessions (some z) rest
    | .err e => .err e

/-- the inner loop of `ZipFileLinearIndex.signatures()` with a manifest: one location after the other,
    `storage.load(filename)` (KeyError/FileNotFoundError when the member is missing), keep `ss in manifest` -/
def loadLocs (z : Zip) (rows : List Row) : List (Option Name) → Res (List Sig)
  | [] => .ok []
  | loc :: rest =>
    match loc with
    | none => .err .fileNotFound
    | some n =>
      match read z n with
      | some (.sigs l) =>
        -- since commit 6aca333: a listed location that yields no signature is an error, not silence
        if (l.filter (inManifest rows)).isEmpty then .err .valueError
        else match loadLocs z rows rest with
          | .ok more => .ok (l.filter (inManifest rows) ++ more)
          | .err e => .err e
      | _ => .err .fileNotFound

/-- `ZipFileLinearIndex.load(path).signatures()` -/
def zipLoad (z : Zip) : Res (List Sig) :=
  match read z .manifest with
  | some (.manifest rows) => loadLocs z rows (locations rows)
  | _ =>
    -- no manifest: every member whose name ends in .sig / .sig.gz
    .ok (z.flatMap fun e => match e.1, e.2 with
      | .sig ⟨_, none⟩, .sigs l => l
      | _, _ => [])

/-- `ZipFileLinearIndex.load(path, use_manifest=False).signatures()`: the member NAMES ending in
    `.sig` / `.sig.gz` are opened, in file order (the same walk as the rebuilt manifest: finding C10.4) -/
def zipLoadNoManifest (z : Zip) : List Sig :=
  z.flatMap fun e => match e.1, e.2 with
    | .sig ⟨_, none⟩, .sigs l => l
    | _, _ => []

/-- the manifest a loaded zip reports -/
def zipManifest (z : Zip) : Option (List Row) :=
  match read z .manifest with
  | some (.manifest rows) => some rows
  | _ => none

/-- `get_manifest(idx, rebuild=True)` on a zip (what `sourmash sig manifest` does by default):
    `ZipFileLinearIndex._signatures_with_internal` walks the member NAMES and only opens those ending in
    `.sig` / `.sig.gz` -- a member called `<md5>.sig.gz_0` is skipped (finding C10.4) -/
def zipRebuildManifest (z : Zip) : List Row :=
  z.flatMap fun e => match e.1, e.2 with
    | .sig ⟨m, none⟩, .sigs l => l.map fun s => mkRow s (some (.sig ⟨m, none⟩))
    | _, _ => []

/-- the signature members of a zip -/
def sigMembers (z : Zip) : List (MName × Content) :=
  z.filterMap fun e => match e.1 with
    | .sig m => some (m, e.2)
    | _ => none

/-! ## directory output (`SaveSignatures_Directory`) -/

/-- a directory of `<md5>[_i].sig.gz` files: the same association list as a zip (`open(outname, "wb")`
    replaces an existing file, i.e. `upsert`); `⟨md5, none⟩` is `<md5>.sig.gz`, `⟨md5, some i⟩` is `<md5>_<i>.sig.gz` -/
abbrev Dir := Zip

/-- `os.path.exists(outname)` -/
def Dir.has (d : Dir) (n : MName) : Bool := (read d (.sig n)).isSome

/-- `SaveSignatures_Directory.add`: "don't overwrite even if duplicate md5sum" -/
def dirAdd (d : Dir) (ss : Sig) : Dir :=
  let outname : MName := ⟨ss.md5, none⟩
  if d.has outname then
    let i := searchFrom (fun i => d.has ⟨ss.md5, some i⟩) (d.length + 1) 0
    upsert d (.sig ⟨ss.md5, some i⟩) (.sigs [ss])
  else upsert d (.sig outname) (.sigs [ss])

/-- sessions do not matter for a directory: every `add` goes straight to disk -/
def dirSessions (d : Dir) (sessions : List (List Sig)) : Dir := sessions.flatten.foldl dirAdd d

/-- `MultiIndex.load_from_directory(...).signatures()` (order = traversal order; the harness sorts) -/
def dirLoad (d : Dir) : List Sig :=
  d.flatMap fun e => match e.2 with
    | .sigs l => l
    | _ => []

/-- `traverse_find_sigs`: `for name in sorted(files)` -- the files of a (flat) directory in the order of
    their names `<md5>.sig.gz` < `<md5>_0.sig.gz` < `<md5>_1.sig.gz` < ... (32 hex digits: numeric order of
    the md5; suffixes compared as numbers, which is the string order as long as they have one digit) -/
def nameLe (a b : Name) : Bool :=
  match a, b with
  | .sig ⟨m1, s1⟩, .sig ⟨m2, s2⟩ =>
    if m1 < m2 then true else if m2 < m1 then false
    else match s1, s2 with
      | none, _ => true
      | some _, none => false
      | some i, some j => i ≤ j
  | _, _ => true

def insertByName (e : Name × Content) : Zip → Zip
  | [] => [e]
  | f :: t => if nameLe e.1 f.1 then e :: f :: t else f :: insertByName e t

def dirSorted (d : Dir) : Dir := d.foldr insertByName []

/-- what the command line tools read from a directory, in order -/
def dirLoadSorted (d : Dir) : List Sig := dirLoad (dirSorted d)

/-- `sig cat --unique`: a signature whose md5 was already encountered is skipped -/
def catUnique : List Sig → List Sig
  | [] => []
  | s :: rest => s :: (catUnique rest).filter (fun t => t.md5 ≠ s.md5)

/-- the manifest `MultiIndex.load` builds: one row per signature, location = path relative to the directory -/
def dirManifest (d : Dir) : List Row :=
  d.flatMap fun e => match e.2 with
    | .sigs l => l.map fun s => mkRow s (some e.1)
    | _ => []

/-! ## single JSON file (`SaveSignatures_SigFile`): everything is kept and written at close;
    a second session on the same path truncates the file -/

def sigfileSessions (sessions : List (List Sig)) : List Sig := sessions.getLast?.getD []

/-- the generic loader on a JSON file / a directory: `MultiIndex.load_from_path`; a file holding `[]`
    ("File is too short" for the compression sniffer) and a directory without signature files are
    refused with ValueError -/
def multiIndexLoad (l : List Sig) : Res (List Sig) := if l.isEmpty then .err .valueError else .ok l

/-! ## SQLite (`SqliteIndex`) -/

def maxSqliteInt : Nat := 2 ^ 63 - 1

/-- `BitArray(uint=x, length=64).int if x > MAX_SQLITE_INT else x` -/
def convertHashTo (x : Nat) : Int := if x > maxSqliteInt then (x : Int) - 2 ^ 64 else (x : Int)

/-- `BitArray(int=x, length=64).uint if x < 0 else x` -/
def convertHashFrom (x : Int) : Nat := if x < 0 then (x + 2 ^ 64).toNat else x.toNat

/-- `sourmash_sketches` row: id + manifest columns + seed -/
structure SqlSketch where
  id : Nat
  row : Row
  seed : Nat
deriving DecidableEq, Repr, Inhabited

structure SqlDb where
  sketches : List SqlSketch
  hashes : List (Int × Nat)      -- (hashval, sketch_id)
deriving DecidableEq, Repr, Inhabited

def SqlDb.empty : SqlDb := { sketches := [], hashes := [] }

/-- an open `SqliteIndex`: the tables, `self.scaled`, and the connection's `last_insert_rowid()` -/
structure SqlIndex where
  db : SqlDb
  scaled : Option Nat
  lastRowid : Nat
deriving DecidableEq, Repr, Inhabited

/-- `SqliteIndex.create(location, append=True)`: `SELECT DISTINCT scaled`; more than one value refuses.
    A fresh connection has `last_insert_rowid() = 0`. -/
def SqlIndex.open (db : SqlDb) : Res SqlIndex :=
  match dedup (db.sketches.map (·.row.scaled)) with
  | [] => .ok { db := db, scaled := none, lastRowid := 0 }
  | [s] => .ok { db := db, scaled := some s, lastRowid := 0 }
  | _ => .err .valueError

/-- the rowid SQLite gives a new `sourmash_sketches` row (`id INTEGER PRIMARY KEY`, no AUTOINCREMENT):
    one more than the largest rowid in the table, 1 for an empty table -/
def nextRowid (db : SqlDb) : Nat := (db.sketches.map (·.id)).foldl max 0 + 1

/-- `INSERT OR IGNORE INTO sourmash_sketches ...` under `UNIQUE(internal_location, md5sum)`: a row whose
    (location, md5) pair is already present is IGNORED (NULL locations never collide: SQL NULLs are
    distinct).  Returns the table and the connection's new `last_insert_rowid()`: the new id when a row
    went in, the OLD value when the insert was ignored. -/
def insertRowOrIgnore (db : SqlDb) (lastRowid : Nat) (row : Row) (seed : Nat) : SqlDb × Nat :=
  let conflict := row.loc ≠ none ∧ ∃ sk ∈ db.sketches, sk.row.loc = row.loc ∧ sk.row.md5 = row.md5
  if conflict then (db, lastRowid)
  else
    let id := nextRowid db
    ({ db with sketches := db.sketches ++ [{ id := id, row := row, seed := seed }] }, id)

/-- `SqliteIndex.insert(ss)`: refusals; manifest row (location None) through `_insert_row`;
    `SELECT last_insert_rowid()` gives the sketch id; one `sourmash_hashes` row per hash under that id.
    Since commit 005b230 (the fix of C10.2) the row carries the sketch's seed (`recordSeed = true`); before
    that it carried none and 42 was recorded.  The translator reports which it is. -/
def SqlIndex.insert (recordSeed : Bool) (ix : SqlIndex) (ss : Sig) : Res SqlIndex :=
  if ss.num ≠ 0 then .err .valueError
  else if ss.track then .err .valueError
  else
    let go (ix : SqlIndex) : Res SqlIndex :=
      let row := mkRow ss none
      let (db', last) := insertRowOrIgnore ix.db ix.lastRowid row (if recordSeed then ss.seed else 42)
      let sketchId := last                       -- c.execute("SELECT last_insert_rowid()")
      .ok { ix with lastRowid := last, db :=
        { db' with hashes := db'.hashes ++ ss.hashes.map fun h => (convertHashTo h.1, sketchId) } }
    match ix.scaled with
    | some s => if s ≠ ss.scaled then .err .valueError else go ix
    | none => go { ix with scaled := some ss.scaled }

/-- one session of `SaveSignatures_SqliteIndex`; a refused `add` raises out of the caller's loop body,
    the harness catches it and goes on (the index is unchanged by a refused insert) -/
def sqlSessionAdds (rs : Bool) (ix : SqlIndex) : List Sig → SqlIndex × List Bool
  | [] => (ix, [])
  | ss :: rest =>
    match ix.insert rs ss with
    | .ok ix' => let (r, fl) := sqlSessionAdds rs ix' rest; (r, true :: fl)
    | .err _ => let (r, fl) := sqlSessionAdds rs ix rest; (r, false :: fl)

def sqlSessions (rs : Bool) (db : SqlDb) : List (List Sig) → Res (SqlDb × List (List Bool))
  | [] => .ok (db, [])
  | s :: rest =>
    match SqlIndex.open db with
    | .err e => .err e
    | .ok ix =>
      let (ix', fl) := sqlSessionAdds rs ix s
      match sqlSessions rs ix'.db rest with
      | .ok (d, fls) => .ok (d, fl :: fls)
      | .err e => .err e

/-- `mh.add_hash` into a scaled sketch, as far as the result is concerned: ordered insert, no duplicates -/
def insertHash : List (Nat × Nat) → Nat → List (Nat × Nat)
  | [], h => [(h, 1)]
  | (x, a) :: t, h => if h < x then (h, 1) :: (x, a) :: t else if h = x then (x, a) :: t else (x, a) :: insertHash t h

/-- `SqliteIndex._load_sketches`: per manifest row, a fresh flat scaled sketch filled with the row's hashes -/
def sqlLoadOne (db : SqlDb) (sk : SqlSketch) : Sig :=
  let hs := (db.hashes.filter (·.2 = sk.id)).map (fun p => convertHashFrom p.1)
  { name := sk.row.name, filename := sk.row.filename, md5 := sk.row.md5, ksize := sk.row.ksize,
    mol := sk.row.mol, num := 0, scaled := sk.row.scaled, seed := sk.seed, track := false,
    hashes := hs.foldl insertHash [] }

def sqlLoad (db : SqlDb) : List Sig := db.sketches.map (sqlLoadOne db)

def sqlManifest (db : SqlDb) : List Row := db.sketches.map (·.row)

/-! ## a standalone manifest in SQLite format (`SqliteCollectionManifest`, `sig collect -F sql`):
    `UNIQUE(internal_location, md5sum)` + `INSERT OR IGNORE`: of the rows of one collection (one
    internal_location) only the FIRST per md5 is kept (finding C10.5) -/

def sqlManifestKeep : List Row → List Row
  | [] => []
  | r :: rest => r :: (sqlManifestKeep rest).filter (fun q => !(q.loc = r.loc && q.md5 = r.md5))

/-- what a manifest-derived picklist compares.  `full = true` (since commit cff7217): the row itself, the
    full `(name, md5)`.  `full = false` (before): `(identifier, md5[:8])`, the identifier being the name up
    to the first space (the harness's names have none).  The translator reports which it is. -/
def rowKey (full : Bool) (r : Row) : Nat × Nat := (r.name, if full then r.md5 else r.md5short)
def sigKey (full : Bool) (s : Sig) : Nat × Nat := (s.name, if full then s.md5 else md5short s.md5)

/-- `manifest.to_picklist()` -/
def picklistOf (full : Bool) (rows : List Row) : List (Nat × Nat) := rows.map (rowKey full)

/-- `StandaloneManifestIndex.signatures()` over a manifest all of whose rows point at one collection that
    is NOT a zip (MultiIndex, SqliteIndex: `select(picklist=...)` filters the rows, each row is one
    signature): the collection's signatures restricted to the picklist of the manifest's rows -/
def standaloneLoad (full : Bool) (rows : List Row) (loaded : List Sig) : List Sig :=
  loaded.filter fun s => (picklistOf full rows).contains (sigKey full s)

/-- `ZipFileLinearIndex.select(picklist=pl).signatures()`: the zip's manifest rows matching the picklist,
    their distinct locations, each member loaded, `ss in manifest` w.r.t. the SELECTED rows -/
def zipSelectLoad (full : Bool) (z : Zip) (picks : List (Nat × Nat)) : Res (List Sig) :=
  match read z .manifest with
  | some (.manifest rows) =>
    let sel := rows.filter fun r => picks.contains (rowKey full r)
    loadLocs z sel (locations sel)
  | _ => .err .notImplemented     -- manifest-less zips are not written by the savers

/-- a few collections on disk, by path -/
abbrev Fs := List (Nat × Zip)

def fsLookup : Fs → Nat → Option Zip
  | [], _ => none
  | (k, z) :: t, n => if k = n then some z else fsLookup t n

def concatRes : List (Res (List Sig)) → Res (List Sig)
  | [] => .ok []
  | .ok l :: rest =>
    match concatRes rest with
    | .ok more => .ok (l ++ more)
    | .err e => .err e
  | .err e :: _ => .err e

/-- `StandaloneManifestIndex.signatures()`: ONE picklist from all rows; for each distinct
    internal_location: `load_file_as_index(iloc).select(picklist=picklist).signatures()` -/
def standaloneLoadFs (full : Bool) (fs : Fs) (mfRows : List Row) : Res (List Sig) :=
  concatRes ((locations mfRows).map fun loc =>
    match loc with
    | some (.other k) =>
      match fsLookup fs k with
      | some z => zipSelectLoad full z (picklistOf full mfRows)
      | none => .err .valueError
    | _ => .err .valueError)

/-- `MultiIndex.load_from_pathlist`: every listed file through the generic loader, signatures concatenated -/
def pathlistLoadFs (fs : Fs) (paths : List Nat) : Res (List Sig) :=
  concatRes (paths.map fun k =>
    match fsLookup fs k with
    | some z => zipLoad z
    | none => .err .valueError)

/-- the rows of a collection's manifest as `sig collect` writes them: internal_location := the collection -/
def relocate (k : Nat) (rows : List Row) : List Row := rows.map fun r => { r with loc := some (.other k) }

/-! ## LCA database (`LCA_Database`) -/

structure LcaDb where
  ksize : Nat
  scaled : Nat
  maxHash : Nat                  -- `_get_max_hash_for_scaled(scaled)`, supplied by the harness (C03's business)
  mol : Nat
  nextIndex : Nat
  identToName : List (Nat × Nat) -- ident -> name   (the harness uses ident = name)
  identToIdx : List (Nat × Nat)
  hashvalToIdx : List (Nat × List Nat)
deriving DecidableEq, Repr, Inhabited

def LcaDb.new (ksize scaled maxHash mol : Nat) : LcaDb :=
  { ksize := ksize, scaled := scaled, maxHash := maxHash, mol := mol, nextIndex := 0,
    identToName := [], identToIdx := [], hashvalToIdx := [] }

def addIdx : List (Nat × List Nat) → Nat → Nat → List (Nat × List Nat)
  | [], h, i => [(h, [i])]
  | (x, l) :: t, h, i => if x = h then (x, if l.contains i then l else l ++ [i]) :: t else (x, l) :: addIdx t h i

/-- `LCA_Database.insert(sig)` with `ident = sig.name` (non-empty names) -/
def LcaDb.insert (db : LcaDb) (ss : Sig) : Res LcaDb :=
  if ss.ksize ≠ db.ksize then .err .valueError
  else if ss.mol ≠ db.mol then .err .valueError
  else if ss.num ≠ 0 ∨ ss.scaled = 0 ∨ ss.scaled > db.scaled then .err .valueError   -- downsample refuses
  else if (db.identToName.map (·.1)).contains ss.name then .err .valueError      -- already in this LCA db
  else
    let idx := db.nextIndex
    let kept := (ss.hashes.map (·.1)).filter (· ≤ db.maxHash)
    .ok { db with
      nextIndex := idx + 1,
      identToName := db.identToName ++ [(ss.name, ss.name)],
      identToIdx := db.identToIdx ++ [(ss.name, idx)],
      hashvalToIdx := kept.foldl (fun m h => addIdx m h idx) db.hashvalToIdx }

def lcaInserts (db : LcaDb) : List Sig → LcaDb × List Bool
  | [] => (db, [])
  | ss :: rest =>
    match db.insert ss with
    | .ok db' => let (r, fl) := lcaInserts db' rest; (r, true :: fl)
    | .err _ => let (r, fl) := lcaInserts db rest; (r, false :: fl)

/-- `len(db)` -/
def LcaDb.len (db : LcaDb) : Nat := db.nextIndex

/-- JSON save + load: the tables are written out and read back; `_next_index` is recomputed as
    `max(ident_to_idx.values()) + 1` (0 when empty) -/
def LcaDb.saveLoad (db : LcaDb) : LcaDb :=
  { db with nextIndex := if db.identToIdx.isEmpty then 0 else (db.identToIdx.map (·.2)).foldl max 0 + 1 }

/-- `LCA_Database._signatures`: invert `hashval_to_idx`; since commit 74325d9 (`yieldEmpty = true`, the fix
    of D11) every idx of `_idx_to_ident` gets an entry as well, before that an idx that owns no hash never
    got one.  The translator reports which it is. -/
def LcaDb.signatures (yieldEmpty : Bool) (db : LcaDb) : List Sig :=
  let idxs := dedup (db.hashvalToIdx.flatMap (·.2) ++ (if yieldEmpty then db.identToIdx.map (·.2) else []))
  idxs.filterMap fun idx =>
    match db.identToIdx.find? (·.2 = idx) with
    | none => none
    | some (ident, _) =>
      match db.identToName.find? (·.1 = ident) with
      | none => none
      | some (_, name) =>
        let hs := (db.hashvalToIdx.filter (·.2.contains idx)).map (·.1)
        some { name := name, filename := 0, md5 := 0, ksize := db.ksize, mol := db.mol, num := 0,
               scaled := db.scaled, seed := 42, track := false, hashes := hs.foldl insertHash [] }

/-! ## SBT leaves (`SBT.save` to a zip): the leaves go through the same `ZipStorage.save` with path
    `<subdir>/<md5>` into a freshly created zip (so the name search sees this session's writes), one
    manifest row per leaf with the name actually used; `signatures()` loads one signature per distinct
    manifest location (no md5 filter). -/

def sbtSave (sigs : List Sig) : Zip := (sigs.foldl ZipSaver.add { st := { zf := [], buf := none }, rows := [] }).close

/-- `FSStorage.save(path, content)` (an SBT saved as `<name>.sbt.json` + `.sbt.<name>/`): same content under
    `path` -> reuse; otherwise the first `path_n` that does not EXIST (unlike the zip storage, the content of
    `path_n` is not compared: the same leaf can be written twice behind a different first occupant) -/
def genNameFS (d : Zip) (md5 : Nat) (c : Content) : Name × Bool :=
  let path := Name.sig ⟨md5, none⟩
  match probe (read d) path c with
  | .same => (path, false)
  | .absent => (path, true)
  | .differs =>
    let n := searchFrom (fun n => (read d (.sig ⟨md5, some n⟩)).isSome) (d.length + 1) 0
    (.sig ⟨md5, some n⟩, true)

def ZipSaver.addFS (s : ZipSaver) (ss : Sig) : ZipSaver :=
  let (st', location) := s.st.save (genNameFS s.st.zf ss.md5 (.sigs [ss])) (.sigs [ss])
  { st := st', rows := s.rows ++ [mkRow ss (some location)] }

/-- the leaf files and the manifest of an SBT saved to the file system -/
def sbtSaveFS (sigs : List Sig) : Zip := (sigs.foldl ZipSaver.addFS { st := { zf := [], buf := none }, rows := [] }).close

def sbtLoad (z : Zip) : Res (List Sig) :=
  match read z .manifest with
  | some (.manifest rows) =>
    (locations rows).foldr (fun loc acc =>
      match loc, acc with
      | some n, .ok more =>
        match read z n with
        | some (.sigs (s :: _)) => .ok (s :: more)
        | _ => .err .fileNotFound
      | _, .err e => .err e
      | none, _ => .err .fileNotFound) (.ok [])
  | _ => .err .valueError

/-! ## the loader chain (`_load_database`) -/

inductive FileKind where
  | sigJson | sigGz | directory | zipColl | sqldbIndex | sqlManifest | csvManifest | pathlist
  | sbtZip | sbtJson | lcaJson | lcaSqldb | fasta | emptyText | missing
deriving DecidableEq, Repr, Inhabited

inductive IndexClass where
  | multiIndex | zipFileLinearIndex | sqliteIndex | standaloneManifestIndex | sbt | lcaDatabase
  | lcaSqliteDatabase
deriving DecidableEq, Repr, Inhabited

def IndexClass.name : IndexClass → String
  | .multiIndex => "MultiIndex"
  | .zipFileLinearIndex => "ZipFileLinearIndex"
  | .sqliteIndex => "SqliteIndex"
  | .standaloneManifestIndex => "StandaloneManifestIndex"
  | .sbt => "SBT"
  | .lcaDatabase => "LCA_Database"
  | .lcaSqliteDatabase => "LCA_SqliteDatabase"

/-- the loader functions registered with `@add_loader` in save_load.py, by function name -/
inductive Loader where
  | stdin | standaloneManifest | pathlist | path | sbt | revindex | sqlite | zipfile | fastaq
deriving DecidableEq, Repr, Inhabited

def Loader.ofFn : String → Option Loader
  | "_load_stdin" => some .stdin
  | "_load_standalone_manifest" => some .standaloneManifest
  | "_multiindex_load_from_pathlist" => some .pathlist
  | "_multiindex_load_from_path" => some .path
  | "_load_sbt" => some .sbt
  | "_load_revindex" => some .revindex
  | "_load_sqlite_db" => some .sqlite
  | "_load_zipfile" => some .zipfile
  | "_error_on_fastaq" => some .fastaq
  | _ => none

/-- what one loader does with one kind of file: returns None / raises ValueError or IndexNotLoaded
    (both mean "try the next one") / raises something else (propagates) / returns an index -/
inductive Outcome where
  | none | reject | raise | index (c : IndexClass)
deriving DecidableEq, Repr, Inhabited

/-- transcribed from the loader bodies (and checked against the real functions by the `kind` op of the
    store stream, which calls every registered loader on a real file of every kind) -/
def Loader.run : Loader → FileKind → Outcome
  | .stdin, _ => .none                                   -- filename != "-"
  | .sqlite, .sqldbIndex => .index .sqliteIndex
  | .sqlite, .lcaSqldb => .index .lcaSqliteDatabase
  | .sqlite, .sqlManifest => .index .standaloneManifestIndex
  | .sqlite, _ => .none                                  -- open_sqlite_db returns None
  | .standaloneManifest, .csvManifest => .index .standaloneManifestIndex
  | .standaloneManifest, .sqlManifest => .index .standaloneManifestIndex
  | .standaloneManifest, .sqldbIndex => .index .standaloneManifestIndex   -- load_from_sql(request_manifest)
  | .standaloneManifest, .lcaSqldb => .index .standaloneManifestIndex
  | .standaloneManifest, _ => .reject
  | .path, .sigJson => .index .multiIndex
  | .path, .sigGz => .index .multiIndex
  | .path, .directory => .index .multiIndex
  | .path, _ => .reject
  | .pathlist, .pathlist => .index .multiIndex
  | .pathlist, _ => .reject
  | .sbt, .sbtZip => .index .sbt
  | .sbt, .sbtJson => .index .sbt
  | .sbt, _ => .reject
  | .revindex, .lcaJson => .index .lcaDatabase
  | .revindex, .lcaSqldb => .index .lcaSqliteDatabase
  | .revindex, _ => .reject
  | .zipfile, .zipColl => .index .zipFileLinearIndex      -- filename.endswith(".zip")
  | .zipfile, .sbtZip => .index .zipFileLinearIndex
  | .zipfile, _ => .none
  | .fastaq, .fasta => .raise
  | .fastaq, _ => .none

def Outcome.show : Outcome → String
  | .none => "None"
  | .reject => "rej"
  | .raise => "EXC"
  | .index c => c.name

/-- `sorted(...)` on the priority (the priorities are pairwise distinct: theorem `loader_priorities_distinct`) -/
def insertByPrio (x : Nat × Loader) : List (Nat × Loader) → List (Nat × Loader)
  | [] => [x]
  | y :: t => if x.1 < y.1 then x :: y :: t else y :: insertByPrio x t

def sortByPrio (l : List (Nat × Loader)) : List (Nat × Loader) := l.foldr insertByPrio []

/-- `_load_database`: first loader (in priority order) that returns an index wins; anything but
    ValueError/IndexNotLoaded propagates; nobody -> ValueError -/
def chain (k : FileKind) : List (Nat × Loader) → Res IndexClass
  | [] => .err .valueError
  | (_, l) :: rest =>
    match l.run k with
    | .index c => .ok c
    | .raise => .err .exception
    | _ => chain k rest

def loadChain (table : List (Nat × Loader)) (k : FileKind) : Res IndexClass := chain k (sortByPrio table)

/-- resolve the translated `(priority, description, function name)` table; an unknown function name
    yields `none` (and the theorem `loader_table_recognised` fails: fail closed) -/
def resolveLoaders (t : List (Nat × String × String)) : Option (List (Nat × Loader)) :=
  t.mapM fun e => match Loader.ofFn e.2.2 with
    | some l => some (e.1, l)
    | none => none

end Sm.Storage
