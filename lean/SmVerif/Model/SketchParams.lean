/-
Executable model of the parameter handling of `sourmash sketch`
(src/sourmash/command_sketch.py: `_parse_params_str`, `_signatures_for_sketch_factory`;
src/sourmash/command_compute.py: `ComputeParameters`; src/core/src/cmd.rs: `build_template`,
`Signature::from_params`; src/core/src/ffi/signature.rs: `signature_first_mh`).

Conventions
* a parameter string is a list of ASCII characters (non-ASCII input is outside the model:
  Python's `int()` also accepts non-ASCII digits and white space);
* Python's `int(str)` is `pyInt?`: optional surrounding white space, optional sign, decimal
  digits with single underscores between digits;
* the three exception classes that can leave the factory are an enum: `ValueError`,
  `argparse.ArgumentTypeError` (NOT a `ValueError`: `check_num_bounds`/`check_scaled_bounds`
  on a negative number) and `OverflowError` (cffi refusing a value that does not fit the
  C field, or `float()` of an integer ≥ 2^1024);
* `params["scaled"]` holds a Python float after `check_scaled_bounds`; it is an integer-valued
  float, represented here by that integer (`floatOfNat`), which is also what `int(v)` in the
  `ComputeParameters.scaled` setter returns;
* the literal tables (per-moltype default strings, seed, ×3, molecule order of
  `build_template`) come from `Sm.Gen` (translator).
-/
import SmVerif.Model.MinHashBTree

namespace Sm.Sketch

inductive Mol where
  | dna | protein | dayhoff | hp
deriving DecidableEq, Repr, Inhabited

def Mol.name : Mol → String
  | .dna => "dna" | .protein => "protein" | .dayhoff => "dayhoff" | .hp => "hp"

/-- `HashFunctions` code used by `MH`/`BT` (1 dna, 2 protein, 3 dayhoff, 4 hp) -/
def Mol.hf : Mol → Nat
  | .dna => 1 | .protein => 2 | .dayhoff => 3 | .hp => 4

inductive PErr where
  | value      -- ValueError
  | argType    -- argparse.ArgumentTypeError
  | overflow   -- OverflowError
deriving DecidableEq, Repr

def PErr.name : PErr → String
  | .value => "ValueError" | .argType => "ArgumentTypeError" | .overflow => "OverflowError"

/-- why a parameter specification is refused: one constructor per `raise` site (message) of
    `_parse_params_str` / `check_num_bounds` / `check_scaled_bounds` /
    `_signatures_for_sketch_factory.__init__`, and per C field cffi refuses to fill -/
inductive Reason where
  | kNoParam          -- "k takes a parameter, e.g. 'k=31'"
  | kNotInt           -- int(item[2:]) raises
  | numNoParam        -- "num takes a parameter, e.g. 'num=500'"
  | numAfterScaled    -- "cannot set both num and scaled in a single minhash" (at a num= item)
  | numNotInt         -- "cannot parse num='..' as a number"
  | numNegative       -- ArgumentTypeError "ERROR: num value must be positive"
  | scaledNoParam     -- "scaled takes a parameter, e.g. 'scaled=1000'"
  | scaledAfterNum    -- "cannot set both num and scaled in a single minhash" (at a scaled= item)
  | scaledNotInt      -- "cannot parse scaled='..' as an integer"
  | scaledNegative    -- ArgumentTypeError "ERROR: scaled value must be positive"
  | scaledTooBig      -- OverflowError from float(int)
  | seedNoParam       -- "seed takes a parameter, e.g. 'seed=42'"
  | seedNotInt        -- int(item[5:]) raises
  | unknownItem       -- "unknown component '..' in params string"
  | moltypeUnderDna   -- "Incompatible sketch type (dna) and parameter override (..) ..; maybe use 'sketch translate'?"
  | dnaUnderProtein   -- "Incompatible sketch type (..) and parameter override (dna) .."
  | noMoltype         -- "No default moltype and none specified in param string"
  | zeroSize          -- "must set either num or scaled to a non-zero value" (only once patches/C14.1 is applied)
  | seedRange | ksizeRange | numRange | scaledRange   -- OverflowError from cffi
deriving DecidableEq, Repr

/-- the exception class a refusal surfaces as -/
def Reason.cls : Reason → PErr
  | .numNegative | .scaledNegative => .argType
  | .scaledTooBig | .seedRange | .ksizeRange | .numRange | .scaledRange => .overflow
  | _ => .value

def Reason.name : Reason → String
  | .kNoParam => "kNoParam" | .kNotInt => "notInt" | .numNoParam => "numNoParam"
  | .numAfterScaled => "bothNumScaled" | .numNotInt => "numNotInt" | .numNegative => "numNegative"
  | .scaledNoParam => "scaledNoParam" | .scaledAfterNum => "bothNumScaled" | .scaledNotInt => "scaledNotInt"
  | .scaledNegative => "scaledNegative" | .scaledTooBig => "overflow" | .seedNoParam => "seedNoParam"
  | .seedNotInt => "notInt" | .unknownItem => "unknownItem" | .moltypeUnderDna => "moltypeUnderDna"
  | .dnaUnderProtein => "dnaUnderProtein" | .noMoltype => "noMoltype" | .zeroSize => "zeroSize"
  | .seedRange | .ksizeRange | .numRange | .scaledRange => "overflow"

/-! ### Python `int(str)` on ASCII strings -/

def isSpace (c : Char) : Bool :=
  c = ' ' || c = '\t' || c = '\n' || c = '\r' || c.toNat = 11 || c.toNat = 12 ||
  (28 ≤ c.toNat && c.toNat ≤ 31)

def isDigit (c : Char) : Bool := '0' ≤ c && c ≤ '9'

/-- digits with single underscores strictly between digits; `acc` = value so far,
    `prevDigit` = the previous character was a digit -/
def digitsVal : List Char → Nat → Bool → Option Nat
  | [], acc, prevDigit => if prevDigit then some acc else none
  | c :: cs, acc, prevDigit =>
    if isDigit c then digitsVal cs (acc * 10 + (c.toNat - '0'.toNat)) true
    else if c = '_' ∧ prevDigit then
      match cs with
      | d :: _ => if isDigit d then digitsVal cs acc false else none
      | [] => none
    else none

def pyInt? (s : List Char) : Option Int :=
  let s := (s.dropWhile isSpace).reverse.dropWhile isSpace |>.reverse
  match s with
  | [] => none
  | c :: r =>
    if c = '-' then
      match r with
      | d :: _ => if isDigit d then (digitsVal r 0 false).map (fun n => - (n : Int)) else none
      | [] => none
    else if c = '+' then
      match r with
      | d :: _ => if isDigit d then (digitsVal r 0 false).map (fun n => (n : Int)) else none
      | [] => none
    else if isDigit c then (digitsVal s 0 false).map (fun n => (n : Int))
    else none

/-- `float(n)` for a non-negative integer, as the integer it denotes; `none` = OverflowError -/
def floatOfNat (n : Nat) : Option Nat :=
  if n ≥ 2 ^ 1024 - 2 ^ 970 then none else some (F64.floor (F64.ofNat n))

/-! ### `_parse_params_str` -/

/-- the dict `params` -/
structure Params where
  ksize : List Int := []
  track : Option Bool := none
  num : Option Nat := none
  scaled : Option Nat := none
  seed : Option Int := none
deriving DecidableEq, Repr, Inhabited

def splitOn (sep : Char) : List Char → List (List Char)
  | [] => [[]]
  | c :: cs =>
    match splitOn sep cs with
    | [] => [[]]   -- unreachable
    | w :: ws => if c = sep then [] :: w :: ws else (c :: w) :: ws

def truthy (x : Option Nat) : Bool :=
  match x with
  | some n => n != 0
  | none => false

def molOfItem (item : List Char) : Option Mol :=
  if item = "protein".toList then some .protein
  else if item = "dayhoff".toList then some .dayhoff
  else if item = "hp".toList then some .hp
  else if item = "dna".toList then some .dna
  else none

/-- one iteration of the `for item in items` loop -/
def stepItem (st : Option Mol × Params) (item : List Char) : Except Reason (Option Mol × Params) :=
  let mt := st.1
  let p := st.2
  if item = "abund".toList then .ok (mt, { p with track := some true })
  else if item = "noabund".toList then .ok (mt, { p with track := some false })
  else if "k".toList.isPrefixOf item then
    if item.length < 3 ∨ item[1]? ≠ some '=' then .error .kNoParam
    else match pyInt? (item.drop 2) with
      | some k => .ok (mt, { p with ksize := p.ksize ++ [k] })
      | none => .error .kNotInt
  else if "num".toList.isPrefixOf item then
    if item.length < 5 ∨ item[3]? ≠ some '=' then .error .numNoParam
    else if truthy p.scaled then .error .numAfterScaled
    else match pyInt? (item.drop 4) with
      | none => .error .numNotInt
      | some n =>
        if n < 0 then .error .numNegative
        else .ok (mt, { p with num := some n.toNat, scaled := some 0 })
  else if "scaled".toList.isPrefixOf item then
    if item.length < 8 ∨ item[6]? ≠ some '=' then .error .scaledNoParam
    else if truthy p.num then .error .scaledAfterNum
    else match pyInt? (item.drop 7) with
      | none => .error .scaledNotInt
      | some n =>
        match floatOfNat n.natAbs with
        | none => .error .scaledTooBig
        | some f =>
          if n < 0 then .error .scaledNegative
          else .ok (mt, { p with scaled := some f, num := some 0 })
  else if "seed".toList.isPrefixOf item then
    if item.length < 6 ∨ item[4]? ≠ some '=' then .error .seedNoParam
    else match pyInt? (item.drop 5) with
      | some n => .ok (mt, { p with seed := some n })
      | none => .error .seedNotInt
  else match molOfItem item with
    | some m => .ok (some m, p)
    | none => .error .unknownItem

def foldItems : List (List Char) → Option Mol × Params → Except Reason (Option Mol × Params)
  | [], st => .ok st
  | item :: items, st =>
    match stepItem st item with
    | .ok st' => foldItems items st'
    | .error e => .error e

def parseParamsStr (s : List Char) : Except Reason (Option Mol × Params) :=
  foldItems (splitOn ',' s) (none, {})

/-! ### `_signatures_for_sketch_factory` -/

def molOfName (s : String) : Option Mol :=
  if s = "dna" then some .dna else if s = "protein" then some .protein
  else if s = "dayhoff" then some .dayhoff else if s = "hp" then some .hp else none

/-- `self.defaults[moltype]`: the parsed default string of the molecule type -/
def defaultsOf (m : Mol) : Params :=
  match Gen.sketchDefaults.lookup m.name with
  | some s =>
    match parseParamsStr s.toList with
    | .ok (_, p) => p
    | .error _ => {}
  | none => {}

/-- `__init__`: the list `params_list` (before the size check) -/
def factoryInitCore : List (List Char) → Option Mol → Except Reason (List (Mol × Params))
  | [], none => .error .noMoltype
  | [], some d => .ok [(d, {})]
  | ps, dflt => go ps dflt
where
  go : List (List Char) → Option Mol → Except Reason (List (Mol × Params))
    | [], _ => .ok []
    | s :: rest, dflt =>
      match parseParamsStr s with
      | .error e => .error e
      | .ok (mt, p) =>
        let chosen : Except Reason Mol :=
          match mt with
          | some m =>
            if m ≠ .dna ∧ dflt = some .dna then .error .moltypeUnderDna
            else if m = .dna ∧ dflt ≠ none ∧ dflt ≠ some .dna then .error .dnaUnderProtein
            else .ok m
          | none =>
            match dflt with
            | none => .error .noMoltype
            | some d => .ok d
        match chosen with
        | .error e => .error e
        | .ok m =>
          match go rest dflt with
          | .error e => .error e
          | .ok l => .ok ((m, p) :: l)

/-- neither a num nor a scaled, after the per-moltype defaults are applied: the sketch would stay
    empty whatever is added to it -/
def zeroSized (mp : Mol × Params) : Bool :=
  let d := defaultsOf mp.1
  let num := match mp.2.num with | some n => n | none => d.num.getD 0
  let scaled := match mp.2.scaled with | some s => s | none => d.scaled.getD 0
  num == 0 && scaled == 0

/-- `__init__`.  Whether it ends with the size check of patches/C14.1 is read from the source by the
    translator (`Gen.sketchRefusesZero`; without it `scaled=0` / `num=0` are accepted: finding C14.1) -/
def factoryInit (ps : List (List Char)) (dflt : Option Mol) : Except Reason (List (Mol × Params)) :=
  match factoryInitCore ps dflt with
  | .error e => .error e
  | .ok pl => if Gen.sketchRefusesZero && pl.any zeroSized then .error .zeroSize else .ok pl

/-- `ComputeParameters` (the fields the factory sets) -/
structure CP where
  ksizes : List Nat
  seed : Nat
  protein : Bool
  dayhoff : Bool
  hp : Bool
  dna : Bool
  num : Nat
  track : Bool
  scaled : Nat
deriving DecidableEq, Repr, Inhabited

/-- the values `make_param` passes, before cffi checks that they fit -/
structure RawCP where
  ksizes : List Int
  seed : Int
  mol : Mol
  num : Nat
  track : Bool
  scaled : Nat
deriving DecidableEq, Repr

def rawOf (m : Mol) (p : Params) : RawCP :=
  let d := defaultsOf m
  let ks := if p.ksize.isEmpty then d.ksize else p.ksize
  let ks := if m ≠ .dna then ks.map (· * (Gen.sketchKMult : Int)) else ks
  { ksizes := ks,
    seed := match p.seed with
      | some s => s
      | none => (match d.seed with | some s => s | none => (Gen.sketchDefaultSeed : Int)),
    mol := m,
    num := match p.num with
      | some n => n
      | none => d.num.getD 0,
    track := match p.track with
      | some t => t
      | none => d.track.getD false,
    scaled := match p.scaled with
      | some s => s
      | none => d.scaled.getD 0 }

/-- the cffi setters: every value must fit its C field -/
def mkCP (r : RawCP) (ksizes : List Int) : Except Reason CP :=
  if r.seed < 0 ∨ r.seed ≥ 2 ^ 64 then .error .seedRange
  else if ksizes.any (fun k => k < 0 ∨ k ≥ 2 ^ 32) then .error .ksizeRange
  else if r.num ≥ 2 ^ 32 then .error .numRange
  else if r.scaled ≥ 2 ^ 64 then .error .scaledRange
  else .ok { ksizes := ksizes.map Int.toNat, seed := r.seed.toNat,
             protein := r.mol = .protein, dayhoff := r.mol = .dayhoff, hp := r.mol = .hp,
             dna := r.mol = .dna, num := r.num, track := r.track, scaled := r.scaled }

def mapM' {α β} (f : α → Except Reason β) : List α → Except Reason (List β)
  | [] => .ok []
  | a :: as =>
    match f a with
    | .error e => .error e
    | .ok b =>
      match mapM' f as with
      | .error e => .error e
      | .ok bs => .ok (b :: bs)

/-- `get_compute_params(split_ksizes=)` for one entry of `params_list` -/
def computeParamsOf (split : Bool) (mp : Mol × Params) : Except Reason (List CP) :=
  let r := rawOf mp.1 mp.2
  if split then mapM' (fun k => mkCP r [k]) r.ksizes
  else (mkCP r r.ksizes).map (fun c => [c])

/-- one fresh `KmerMinHashBTree::builder()...build()` -/
def template (p : CP) (k : Nat) (m : Mol) : BT :=
  { num := p.num, maxHash := mhR p.scaled, ksize := k, seed := p.seed, hf := m.hf,
    mins := [], abunds := if p.track then some [] else none, currentMax := 0, md5 := none }

/-- molecule types of a parameter set, in the order `build_template` pushes them -/
def molsOf (p : CP) : List Mol :=
  (if p.protein then [Mol.protein] else []) ++ (if p.dayhoff then [Mol.dayhoff] else []) ++
  (if p.hp then [Mol.hp] else []) ++ (if p.dna then [Mol.dna] else [])

/-- `build_template` -/
def buildTemplate (p : CP) : List BT :=
  p.ksizes.flatMap (fun k => (molsOf p).map (fun m => template p k m))

/-- `_signatures_for_sketch_factory(params_str_list, default_moltype)(split_ksizes=)`:
    one signature (a list of sketches) per parameter set -/
def factory (ps : List (List Char)) (dflt : Option Mol) (split : Bool) : Except Reason (List (List BT)) :=
  match factoryInit ps dflt with
  | .error e => .error e
  | .ok pl =>
    match mapM' (computeParamsOf split) pl with
    | .error e => .error e
    | .ok cps => .ok (cps.flatten.map buildTemplate)

/-- `sig.minhash` (`signature_first_mh`): the first sketch, converted -/
def firstMh (sig : List BT) : Option MH := sig.head?.map BT.intoVec

end Sm.Sketch
