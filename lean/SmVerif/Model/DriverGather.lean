/-
Driver for the `gather` / `partition` correspondence streams (C07, C08): tables of
signatures, in-memory databases and `CounterGather` objects, one `GatherDatabases`
iterator; one API-level operation per line.

Every operation is executed twice: with the `MH` instance of the gather model (the shared
MinHash model underneath) and with the list-sketch instance `LS` the theorems are about.
The observation printed is the `MH` one followed by `L=ok` when the `LS` instance printed
the same text, `L=DIFF:<its text>` otherwise (the real-code adapter always prints `L=ok`).

Floats that went through libm (`contained_by`, `numpy.std`) are computed with the
runtime `Float` and printed as `~<IEEE bits>`; the stream compares them with a
tolerance.  Exactly modelled doubles are printed as `<odd mantissa>p<exponent>`.
-/
import SmVerif.Model.GatherMH
import SmVerif.Model.GatherL
import SmVerif.Model.SearchDb
import SmVerif.Model.Proto

namespace Sm.DriverGather

open Sm Sm.Proto Sm.Gather Sm.F64 Sm.SearchDb

/-- an exactly modelled double as a runtime `Float` -/
def fOfF (x : F) : Float := (Float.ofNat x.m).scaleB x.e

def clamp01 (x : Float) : Float := if x >= 1.0 then 1.0 else if x <= 0.0 then 0.0 else x

/-- `MinHash.contained_by` after `count_common` -/
def containedF (c d s : Nat) : Float :=
  let total := Float.ofNat (d * s)
  let bias := 1.0 - Float.pow (1.0 - 1.0 / Float.ofNat s) total
  clamp01 (Float.ofNat c / (Float.ofNat d * bias))

/-- `numpy.std` (ddof = 0) -/
def stdF (l : List Nat) : Float :=
  let n := Float.ofNat l.length
  let mean := (l.foldl (fun a x => a + Float.ofNat x) 0.0) / n
  let ss := l.foldl (fun a x => let d := Float.ofNat x - mean; a + d * d) 0.0
  Float.sqrt (ss / n)

def floatOps : ScoreOps Float where
  contained := containedF
  ofF := fOfF
  gt := fun a b => a > b
  ge := fun a b => a >= b
  isZero := fun a => a == 0.0
  ltOne := fun a => a < 1.0
  std := stdF
  str := fun a => "~" ++ toString a.toBits.toNat

structure St (α : Type) where
  sigs : Array (Option (Sig α))
  dbs : Array (Option (List (Sig α)))
  cnts : Array (Option (Counter α))
  gd : Option (GD α)
  dead : Bool

def St.init {α : Type} : St α :=
  { sigs := Array.replicate 128 none, dbs := Array.replicate 32 none,
    cnts := Array.replicate 32 none, gd := none, dead := false }

def errName : GErr → String
  | .value => "ValueError"
  | .type => "TypeError"
  | .assertion => "AssertionError"
  | .key => "KeyError"
  | .runtime => "RuntimeError"
  | .zerodiv => "ZeroDivisionError"

section
variable {α : Type}

def getSig (st : St α) (i : Nat) : Option (Sig α) := (st.sigs[i]?).join
def getDb (st : St α) (i : Nat) : Option (List (Sig α)) := (st.dbs[i]?).join
def getCnt (st : St α) (i : Nat) : Option (Counter α) := (st.cnts[i]?).join

def showCounter (c : Counter α) : String :=
  s!"{c.scaled}:" ++ ",".intercalate (c.entries.map (fun e => s!"{e.md5}={e.count}"))

def showCObj : CObj α → String
  | .cg c => showCounter c
  | .idx _ => "i"

def showQ (num den : Nat) : String := F64.toStr (F64.divNat num den)

def optStr {β} (f : β → String) : Option β → String
  | some a => f a
  | none => "-"

def showRes (r : GRes Float) : String :=
  s!"rank={r.rank} name={r.name} md5={r.md5} sc={r.cmpScaled} ibp={r.intersectBp} ubp={r.uniqueIntersectBp}" ++
  s!" fo={F64.toStr r.fOrigQuery} fm{floatOps.str r.fMatch} fmo{floatOps.str r.fMatchOrig}" ++
  s!" fu={F64.toStr r.fUniqueToQuery} fw={F64.toStr r.fUniqueWeighted}" ++
  s!" avg={optStr (fun p => showQ p.1 p.2) r.avgAbund} med={optStr (fun p => showQ p.1 p.2) r.medAbund}" ++
  s!" std{optStr floatOps.str r.stdAbund} rem={r.remainingBp} nuw={optStr toString r.nUniqueWeightedFound}" ++
  s!" swf={r.sumWeightedFound} twh={r.totalWeightedHashes} qbp={r.queryBp} qn={r.queryNHashes}" ++
  s!" qab={b2s r.queryAbundance} io={joinNats r.isectOrig} iu={joinNats r.isectCur}"

def showGD (K : SkOps α) (g : GD α) : String :=
  s!"q={joinNats (K.mins g.query)} c=" ++ ";".intercalate (g.counters.map showCObj)

/-- counter specs of the `gd` op: `c<slot>` = a CounterGather object, `i<slot>` = the database itself -/
def parseCObj (st : St α) (w : String) : Option (CObj α) :=
  match w.toList with
  | 'c' :: r => (nat? (String.ofList r)).bind (fun i => (getCnt st i).map CObj.cg)
  | 'i' :: r => (nat? (String.ofList r)).bind (fun i => (getDb st i).map CObj.idx)
  | _ => none

def optSig (st : St α) (w : String) : Option (Option α) :=
  if w = "-" then some none else (nat? w).bind (fun i => (getSig st i).map (fun s => some s.mh))

/-- rows of a search / prefetch result in result order: `name:md5:score` -/
def showRows (l : List (F × Sig α)) : String :=
  ",".intercalate (l.map (fun p => s!"{p.2.name}:{p.2.md5}:{F64.toStr p.1}"))

/-- insertion sort of `(score, md5)` keys: score descending, then md5 ascending -/
def insKey (x : F × Nat) : List (F × Nat) → List (F × Nat)
  | [] => [x]
  | y :: ys =>
    if (F64.ge x.1 y.1 && !F64.ge y.1 x.1) || (F64.eq x.1 y.1 && decide (x.2 ≤ y.2)) then x :: y :: ys
    else y :: insKey x ys

/-- the rows as a canonical multiset: sorted by (score desc, md5), names dropped; with `best_only` only the
    top score (the part of a best-only search that is guaranteed) -/
def showCanon (l : List (F × Sig α)) (bestOnly : Bool) : String :=
  let ks := (l.map (fun p => (p.1, p.2.md5))).foldr insKey []
  if bestOnly then
    match ks with
    | [] => ""
    | k :: _ => F64.toStr k.1
  else ",".intercalate (ks.map (fun k => s!"{k.2}:{F64.toStr k.1}"))

def parseST (w : String) : Option SearchType :=
  match w with
  | "j" => some .jaccard
  | "c" => some .containment
  | "m" => some .maxContainment
  | _ => none

/-- one operation, for either instance; `mk scaled track pairs` builds a sketch -/
def stepG (K : SkOps α) (mk : Nat → Bool → List (Nat × Nat) → Except GErr α)
    (st : St α) (line : String) : St α × String :=
  let bad := (st, "bad-op")
  match words line with
  | "sig" :: slot :: name :: md5 :: scaled :: track :: ps =>
    match nats? [slot, name, md5, scaled], bool? track, pairs? ps with
    | some [slot, name, md5, scaled], some tr, some ps =>
      match mk scaled tr ps with
      | .error e => (st, "err " ++ errName e)
      | .ok m =>
        ({ st with sigs := st.sigs.setIfInBounds slot (some ⟨md5, name, m⟩) },
         s!"ok n={(K.mins m).length} sc={K.scaled m}")
    | _, _, _ => bad
  | "db" :: slot :: ss =>
    match nat? slot, nats? ss with
    | some slot, some ss =>
      match ss.mapM (getSig st) with
      | some l => ({ st with dbs := st.dbs.setIfInBounds slot (some l) }, s!"ok {l.length}")
      | none => bad
    | _, _ => bad
  | ["cg", c, d, q, thr] =>
    match nats? [c, d, q, thr] with
    | some [c, d, q, thr] =>
      match getDb st d, getSig st q with
      | some db, some qs =>
        match counterGather K db qs.mh thr with
        | .error e => (st, "err " ++ errName e)
        | .ok cn => ({ st with cnts := st.cnts.setIfInBounds c (some cn) }, "ok " ++ showCounter cn)
      | _, _ => bad
    | _ => bad
  | ["peek", c, q, thr] =>
    match nats? [c, q, thr] with
    | some [c, q, thr] =>
      match getCnt st c, getSig st q with
      | some cn, some qs =>
        match cn.peek K floatOps qs.mh thr with
        | .error e => (st, "err " ++ errName e)
        | .ok (cn', none) => ({ st with cnts := st.cnts.setIfInBounds c (some cn') }, s!"ok none sc={cn'.scaled}")
        | .ok (cn', some (sc, s, inter)) =>
          ({ st with cnts := st.cnts.setIfInBounds c (some cn') },
           s!"ok name={s.name} md5={s.md5} score{floatOps.str sc} sc={cn'.scaled} inter={joinNats (K.mins inter)}")
      | _, _ => bad
    | _ => bad
  | ["consume", c, q] =>
    match nats? [c, q] with
    | some [c, q] =>
      match getCnt st c, getSig st q with
      | some cn, some qs =>
        match cn.consume K qs.mh with
        | .error e => (st, "err " ++ errName e)
        | .ok cn' => ({ st with cnts := st.cnts.setIfInBounds c (some cn') }, "ok " ++ showCounter cn')
      | _, _ => bad
    | _ => bad
  | "split" :: islot :: nslot :: q :: cs =>
    match nats? [islot, nslot, q], nats? cs with
    | some [islot, nslot, q], some cs =>
      match getSig st q, cs.mapM (getCnt st) with
      | some qs, some cl =>
        match cliSplit K qs.mh cl with
        | .error e => (st, "err " ++ errName e)
        | .ok (ident, noident) =>
          let sigs := (st.sigs.setIfInBounds islot (some ⟨0, 0, ident⟩)).setIfInBounds nslot (some ⟨0, 0, noident⟩)
          ({ st with sigs := sigs }, s!"ok ident={joinNats (K.mins ident)} noident={joinNats (K.mins noident)}")
      | _, _ => bad
    | _, _ => bad
  | "xdb" :: slot :: _kind :: ss =>
    -- a zip / SBT / LCA / SqliteIndex collection: the same signatures; iteration order is not modelled
    match nat? slot, nats? ss with
    | some slot, some ss =>
      match ss.mapM (getSig st) with
      | some l => ({ st with dbs := st.dbs.setIfInBounds slot (some l) }, s!"ok {l.length}")
      | none => bad
    | _, _ => bad
  | "search" :: stw :: bo :: tnum :: tden :: q :: ds =>
    match parseST stw, bool? bo, nats? [tnum, tden, q], nats? ds with
    | some sty, some bo, some [tnum, tden, q], some ds =>
      match getSig st q, ds.mapM (getDb st) with
      | some qs, some dbs =>
        match searchDatabases K sty dbs qs.mh (F64.divNat tnum tden) bo with
        | .error e => (st, "err " ++ errName e)
        | .ok l => (st, "ok " ++ showRows l)
      | _, _ => bad
    | _, _, _, _ => bad
  | "searchc" :: stw :: bo :: tnum :: tden :: q :: ds =>
    match parseST stw, bool? bo, nats? [tnum, tden, q], nats? ds with
    | some sty, some bo, some [tnum, tden, q], some ds =>
      match getSig st q, ds.mapM (getDb st) with
      | some qs, some dbs =>
        match searchDatabases K sty dbs qs.mh (F64.divNat tnum tden) bo with
        | .error e => (st, "err " ++ errName e)
        | .ok l => (st, "ok " ++ showCanon l bo)
      | _, _ => bad
    | _, _, _, _ => bad
  | "pfall" :: q :: thr :: ds =>
    match nats? [q, thr], nats? ds with
    | some [q, thr], some ds =>
      match getSig st q, ds.mapM (getDb st) with
      | some qs, some dbs =>
        match K.flat qs.mh with
        | .error e => (st, "err " ++ errName e)
        | .ok fq =>
          match prefetchDatabases K fq thr dbs with
          | .error e => (st, "err " ++ errName e)
          | .ok l => (st, "ok " ++ showRows l)
      | _, _ => bad
    | _, _ => bad
  | "pfallc" :: q :: thr :: ds =>
    match nats? [q, thr], nats? ds with
    | some [q, thr], some ds =>
      match getSig st q, ds.mapM (getDb st) with
      | some qs, some dbs =>
        match K.flat qs.mh with
        | .error e => (st, "err " ++ errName e)
        | .ok fq =>
          match prefetchDatabases K fq thr dbs with
          | .error e => (st, "err " ++ errName e)
          | .ok l => (st, "ok " ++ showCanon l false)
      | _, _ => bad
    | _, _ => bad
  | "xsa" :: bo :: tnum :: tden :: q :: ds =>
    -- impl-only observation (`search_databases_with_abund_query`): the model only checks that the op is well formed
    match bool? bo, nats? [tnum, tden, q], nats? ds with
    | some _, some [_, tden, q], some ds =>
      match getSig st q, ds.mapM (getDb st) with
      | some _, some _ => if tden = 0 then bad else (st, "x")
      | _, _ => bad
    | _, _, _ => bad
  | "xpfc" :: q :: thr :: ds =>
    -- impl-only observation (`search.prefetch_database`, what `sourmash prefetch` prints: the rows of
    -- `Index.prefetch` that pass `PrefetchResult.pass_threshold`): the model only checks that the op is well formed
    match nats? [q, thr], nats? ds with
    | some [q, _], some ds =>
      match getSig st q, ds.mapM (getDb st) with
      | some _, some _ => (st, "x")
      | _, _ => bad
    | _, _ => bad
  | "gd" :: q :: thr :: ign :: noid :: ident :: cs =>
    match nats? [q, thr], bool? ign, optSig st noid, optSig st ident, cs.mapM (parseCObj st) with
    | some [q, thr], some ign, some noid, some ident, some cs =>
      match getSig st q with
      | some qs =>
        match GD.init K qs.mh cs thr ign noid ident with
        | .error e => ({ st with gd := none, dead := true }, "err " ++ errName e)
        | .ok g => ({ st with gd := some g, dead := false },
                    s!"ok cmp={g.cmpScaled} twh={g.totalWeighted} nsum={g.noidentSum} " ++ showGD K g)
      | none => bad
    | _, _, _, _, _ => bad
  | "xgd" :: q :: thr :: ign :: mode :: ds =>
    -- impl-only observation: the model only checks that the op is well formed
    match nats? [q, thr], bool? ign, nats? ds with
    | some [q, _], some _, some ds =>
      match getSig st q, ds.mapM (getDb st) with
      | some _, some _ => if mode = "p" ∨ mode = "o" then (st, "x") else bad
      | _, _ => bad
    | _, _, _ => bad
  | ["xnext"] => (st, "x")
  | ["next"] =>
    if st.dead then (st, "dead")
    else
      match st.gd with
      | none => bad
      | some g =>
        match g.next K floatOps with
        | .error e => ({ st with dead := true }, "err " ++ errName e)
        | .ok (g', none) => ({ st with gd := some g' }, "stop " ++ showGD K g')
        | .ok (g', some r) => ({ st with gd := some g' }, "ok " ++ showRes r ++ " " ++ showGD K g')
  | _ => bad

end

/-- `MinHash(0, 21, scaled=, track_abundance=, seed=42)` + `set_abundances` / `add_many` -/
def mkMH (scaled : Nat) (tr : Bool) (ps : List (Nat × Nat)) : Except GErr MH :=
  match Py.mkMinHash 0 21 1 42 tr 0 scaled with
  | .error e => .error (cvErr e)
  | .ok m => .ok (if tr then m.ffiSetAbundances ps true else m.addMany (ps.map Prod.fst))

/-- drop repeated keys of an ascending association list (the last value wins, as in a dict) -/
def dedupKeys : List (Nat × Nat) → List (Nat × Nat)
  | [] => []
  | [p] => [p]
  | p :: q :: rest => if p.1 = q.1 then dedupKeys (q :: rest) else p :: dedupKeys (q :: rest)

/-- the same sketch as a list sketch: ascending distinct hashes at or below the threshold -/
def mkLS (scaled : Nat) (tr : Bool) (ps : List (Nat × Nat)) : Except GErr LS :=
  if scaled = 0 then .error .value
  else
    let qs := (dedupKeys (MH.sortPairs ps)).filter (fun p => decide (p.1 ≤ mhR scaled) && decide (p.2 ≠ 0))
    .ok { scaled := scaled, hs := qs.map Prod.fst, ab := if tr then some (qs.map Prod.snd) else none }

structure St2 where
  m : St MH
  l : St LS

def init : St2 := ⟨St.init, St.init⟩

def step (st : St2) (line : String) : St2 × String :=
  match words line with
  | "#" :: _ => (init, "#")
  | _ =>
    let (m', sm) := stepG mhOps mkMH st.m line
    let (l', sl) := stepG lsOps mkLS st.l line
    (⟨m', l'⟩, if sm == sl then sm ++ " L=ok" else sm ++ " L=DIFF:" ++ sl)

end Sm.DriverGather
