/-
Ownership / aliasing model for C15, layers 2 and 3: SIGNATURE objects and COLLECTION VIEWS
on top of the sketch heap of `Model/Ownership.lean`.

Three kinds of cells, three handle tables:

* sketch cells (`Own.Heap`, unchanged): `MinHash` / `FrozenMinHash` objects;
* signature cells (`SigCell`): `SourmashSignature` / `FrozenSourmashSignature`.  A signature
  CONTAINS a sketch VALUE, not a reference: src/core/src/ffi/signature.rs `signature_set_mh`
  does `sig.reset_sketches(); sig.push(Sketch::MinHash(mh.clone()))` (clone in) and
  `signature_first_mh` does `SourmashKmerMinHash::from_rust(mh.clone())` (clone out; the Python
  getter wraps it as a `FrozenMinHash`).  That discipline is why `sig.minhash.add_hash(..)` or a
  later `mh.add_hash(..)` on the sketch a signature was built from can never reach the signature;
* view cells (`ViewCell`): the index classes of src/sourmash/index/__init__.py (+ the two
  in-place selectors `SBT`, `LCA_Database`), with manifest rows (`Row`, the row dicts of
  `CollectionManifest`, shared between a manifest and every manifest selected from it) and
  stores (what was written to disk: immutable).

Transcribed from signature.py:
  `SourmashSignature(mh, name, filename)`           fresh mutable cell, sketch cloned in
  `.minhash`                                        fresh FROZEN sketch cell (clone out)
  `.minhash = mh` / `.name = ` / `.filename = `     write the receiver; `ValueError` when frozen
  `add_sequence` / `add_protein`                    write the receiver's inner sketch (hashes before an
                                                    invalid k-mer ARE added); `ValueError` when frozen
  `to_mutable()`                                    always fresh (mutable: `copy()`; frozen: `__getstate__/__setstate__`)
  `to_frozen()` / `copy()`                          frozen: the object itself; mutable: fresh
  `into_frozen()`                                   in place
  `update()`                                        defined on `FrozenSourmashSignature` ONLY (a mutable signature
                                                    raises AttributeError): `to_mutable()`, body, `into_frozen()`
  pickle                                            `__reduce__` names `SourmashSignature`: the copy is MUTABLE
  `__setstate__` called on an existing object       frees and re-creates the native object, then goes through the
                                                    setters: on a frozen object the setters raise AFTER the old
                                                    content is gone (finding C15.1; the model states the refusal)
and from search.py / index/__init__.py the two consumers that write a signature they were handed:
  `GatherDatabases.__init__`   `query = query.to_mutable(); query.minhash = orig_query_mh`
  `Index.counter_gather`       `with query.update() as q: q.minhash = q.minhash.flatten()`

Views (`select` returns a NEW object except where noted):
  LinearIndex            own list of REFERENCES to signature objects; `insert` appends; `select` filters into a new list
  LazyLinearIndex        reference to the wrapped index + own selection dict (`dict(...)` copy, merged)
  ZipFileLinearIndex     storage + (manifest | own selection dict, `dict(self.selection_dict)` copy, merged)
  MultiIndex             manifest whose rows carry the signature objects
  StandaloneManifestIndex manifest; signatures re-read from disk
  `CollectionManifest.select_to_manifest` -> `CollectionManifest(rows)`: a NEW row list holding the SAME row dicts
  SBT / LCA_Database     `select` checks, appends the picklist to `self.picklists` and returns `self` (in place, by design);
                         the picklist is appended BEFORE the "multiple picklists" refusal is raised.
Loaded from disk (round 3):
  SBT (`load_sbt_index`)  in-place selector like the in-memory tree; `signatures()` goes through the manifest and re-reads
                         every leaf from the storage (new frozen objects); the node cache size is a parameter of the op and
                         NOT of the model: that it cannot matter is the claim
  SqliteIndex            `select` -> new SqliteIndex over the SAME connection with a merged copy of the manifest's selection
                         dict (`num` / `abund` refused, never stored); rows re-read on every call; hands out plain
                         (mutable) `SourmashSignature` objects (finding C15.3; `Gen.ownSqliteHandsOutMutable`)
  LCA_SqliteDatabase     the same, but it re-reads its rows while it is constructed (`scaled=None` fails at select time)
  LCA_Database.load      a JSON-loaded database is the in-memory kind
Saves (`vro save…`) and every other read-only call on a view are `vRead`: the world is returned unchanged.
-/
import SmVerif.Model.Ownership
import SmVerif.Model.SeqToHashes
import SmVerif.Model.Murmur3

namespace Sm.Obj

open Sm.Own (Heap Cell Res errName)

/-! ### generic handle table -/

structure Tab (α : Type) where
  cells : List α
  handles : List (Nat × Nat)      -- (handle, cell id); first binding wins
deriving Repr

namespace Tab
variable {α : Type}

def empty : Tab α := ⟨[], []⟩

def cid (t : Tab α) (h : Nat) : Option Nat := t.handles.lookup h

def cell (t : Tab α) (h : Nat) : Option α :=
  match t.cid h with
  | some c => t.cells[c]?
  | none => none

def bind (t : Tab α) (h c : Nat) : Tab α :=
  { t with handles := (h, c) :: t.handles.filter (fun p => p.1 ≠ h) }

def alloc (t : Tab α) (h : Nat) (x : α) : Tab α :=
  ({ t with cells := t.cells ++ [x] } : Tab α).bind h t.cells.length

def setCell (t : Tab α) (c : Nat) (x : α) : Tab α := { t with cells := t.cells.set c x }

end Tab

/-! ### signature cells -/

/-- what a signature holds BY VALUE -/
structure SigVal where
  mh : MH
  name : String
  filename : String
deriving Repr, Inhabited

structure SigCell where
  val : SigVal
  frozen : Bool
deriving Repr, Inhabited

/-! ### views -/

inductive VKind where
  | linear | lazy | zipnm | zipm | multi | standalone | sbt | lca
  /-- collections LOADED from disk: an SBT from .sbt.zip / .sbt.json (in-place selector, bounded node cache),
      a SqliteIndex, an LCA_SqliteDatabase (both: copying select over a selection dict, signatures re-read from the db) -/
  | sbtdisk | sqlite | lcasql
deriving Repr, DecidableEq, Inhabited

/-- selection keyword arguments / a stored selection dict, in insertion order.
    keys: 0 ksize, 1 moltype (0 DNA, 1 protein, 2 dayhoff, 3 hp), 2 scaled, 3 num, 4 abund, 5 containment;
    value `none` = Python `None` -/
abbrev Sel := List (Nat × Option Nat)

/-- a LOCATION as a collection reports it (`Index.location`, `signatures_with_location`, the `location` of a search
    result, the `internal_location` column of a manifest), up to the names of temporary directories:
    `dir d` = the path of disk artifact `d` (a zip, a database, a manifest file, a directory), `file d i` = `<d>/<i>.sig`,
    `md5 m` = the member name `signatures/<md5>.sig.gz` of the sketch with hashes `m`, `grp g` = `g<g>.sig` (a member of an
    ad-hoc zip), `num i` = the relative name `<i>.sig`, `label s` = a source label given by the caller -/
inductive Loc where
  | none
  | dir (d : Nat)
  | file (d i : Nat)
  | md5 (m : List Nat)
  | grp (g : Nat)
  | num (i : Nat)
  | label (s : String)
deriving Repr, DecidableEq, Inhabited

/-- `os.path.join(parent, loc)`; `.error` = TypeError (`loc` is None) -/
def joinLoc (parent l : Loc) : Except String Loc :=
  match l with
  | .none => .error "TypeError"
  | .dir d => .ok (.dir d)                       -- an absolute path wins
  | .file d i => .ok (.file d i)
  | .num i =>
    match parent with
    | .dir d => .ok (.file d i)
    | .label p => .ok (.label (p ++ "/" ++ toString i ++ ".sig"))
    | _ => .ok (.num i)
  | .label s =>
    match parent with
    | .label p => .ok (.label (p ++ "/" ++ s))
    | _ => .ok (.label s)
  | other => .ok other

/-- a manifest row dict (`make_manifest_row` / `load_from_csv`) -/
structure Row where
  snap : SigVal                 -- the metadata columns: a snapshot taken when the row was made
  sig : Option Nat              -- row["signature"]: a signature cell (MultiIndex) or None / absent
  hasSigKey : Bool              -- whether the key "signature" exists at all
  loc : Option (Nat × Nat)      -- (store, position) for rows whose signature is re-read from disk
  iloc : Loc := .none           -- the `internal_location` column
  anon : Bool := false          -- row["signature"] is a private FROZEN object (read from disk for this row): its value is `snap`
deriving Repr, Inhabited

structure ViewCell where
  kind : VKind
  sigs : List Nat := []               -- linear, sbt: member signature cells (references)
  vals : List SigVal := []            -- lca: what `insert` copied out of the signatures (flat, by value);
                                      -- sbt: the members AS THEY WERE when inserted (what the internal nodes were built from)
  db : Nat := 0                       -- lazy: the wrapped view cell (reference)
  store : Nat := 0                    -- zipnm, zipm, standalone, sbtdisk, sqlite, lcasql: the store on disk
  sel : Option Sel := none            -- lazy, zipnm, sqlite, lcasql: the view's OWN selection dict
  rows : List Nat := []               -- zipm, multi, standalone: the view's OWN row list (of shared rows)
  picks : List (List String) := []    -- sbt, sbtdisk, lca: `self.picklists` (name picklists, by value)
  scaled : Nat := 0                   -- sbt, sbtdisk, lca: the `scaled` of the members; multi: the `prepend_location` flag
  loc : Loc := .none                  -- `Index.location` (for a MultiIndex: its `parent`)
deriving Repr, Inhabited

structure World where
  heap : Heap
  sigs : Tab SigCell
  views : Tab ViewCell
  rows : List Row                     -- row cells: appended to, never written
  stores : List (List SigVal)         -- stores: appended to, never written
deriving Repr

def World.empty : World := ⟨Heap.empty, Tab.empty, Tab.empty, [], []⟩

/-! ### selection semantics (the sliver of C12 needed to say what a view yields) -/

/-- Python truthiness of a keyword that is absent / None / an int or bool -/
def kwTruthy (kw : Sel) (k : Nat) : Bool :=
  match kw.lookup k with
  | some (some n) => n != 0
  | _ => false

def kwInt (kw : Sel) (k : Nat) : Nat :=
  match kw.lookup k with
  | some (some n) => n
  | _ => 0

/-- moltype code of a sketch -/
def molOf (m : MH) : Nat := m.hf - 1

/-- `select_signature(ss, **kw)`; `none` = raises ValueError -/
def selectSignature (kw : Sel) (m : MH) : Option Bool :=
  if kwTruthy kw 0 && kwInt kw 0 != m.ksize then some false
  else if (match kw.lookup 1 with
           | some (some c) => c != molOf m
           | _ => false) then some false
  else if kwTruthy kw 5 && !kwTruthy kw 2 then none
  else if kwTruthy kw 5 && Py.scaledProp m == 0 then some false
  else if kwTruthy kw 2 && m.num != 0 then some false
  else if kwTruthy kw 3 && (Py.scaledProp m != 0 || kwInt kw 3 != m.num) then some false
  else if kwTruthy kw 4 && !m.trackAbundance then some false
  else some true

/-- the loop of `LinearIndex.select` / of `ZipFileLinearIndex.signatures` without manifest -/
def filterSel {α : Type} (kw : Sel) (mhOf : α → MH) : List α → Option (List α)
  | [] => some []
  | x :: xs =>
    match selectSignature kw (mhOf x) with
    | none => none
    | some b =>
      match filterSel kw mhOf xs with
      | none => none
      | some r => some (if b then x :: r else r)

/-- one row through `CollectionManifest._select` -/
def rowPasses (kw : Sel) (m : MH) : Bool :=
  (!kwTruthy kw 0 || m.ksize == kwInt kw 0) &&
  (match kw.lookup 1 with
   | some (some c) => c == molOf m
   | _ => true) &&
  (!(kwTruthy kw 2 || kwTruthy kw 5) || (Py.scaledProp m != 0 && m.num == 0)) &&
  (!kwTruthy kw 3 || (m.num == kwInt kw 3 && Py.scaledProp m == 0)) &&
  (!kwTruthy kw 4 || m.trackAbundance)

/-- `LazyLinearIndex.select`: `if k in d: if d[k] != v: raise ValueError`; `d[k] = v` -/
def mergeLazy : Sel → Sel → Option Sel
  | d, [] => some d
  | d, (k, v) :: rest =>
    match d.lookup k with
    | some old => if old != v then none else mergeLazy d rest
    | none => mergeLazy (d ++ [(k, v)]) rest

/-- `ZipFileLinearIndex.select` without manifest: `if k in d: if d[k] is not None and d[k] != v: raise`; `d[k] = v` -/
def mergeZip : Sel → Sel → Option Sel
  | d, [] => some d
  | d, (k, v) :: rest =>
    match d.lookup k with
    | some old =>
      if old.isSome && old != v then none
      else mergeZip (d.map (fun p => if p.1 == k then (k, v) else p)) rest
    | none => mergeZip (d ++ [(k, v)]) rest

/-- the checks of `SBT.select` against the (uniform) parameters of the members; `true` = raises ValueError -/
def sbtRefuses (kw : Sel) (dbScaled : Nat) : Bool :=
  (match kw.lookup 0 with
   | some (some k) => k != 21
   | _ => false) ||
  (match kw.lookup 1 with
   | some (some c) => c != 0
   | _ => false) ||
  kwTruthy kw 3 ||
  (kwTruthy kw 2 && kwInt kw 2 > dbScaled && !kwTruthy kw 5) ||
  kwTruthy kw 4

/-- `LCA_Database.select`: `ok`, ValueError or (for `scaled=None`: `None > int`) TypeError -/
def lcaRefuses (kw : Sel) (dbScaled : Nat) : Option String :=
  if kwTruthy kw 3 then some "ValueError"
  else if kw.lookup 2 == some none then some "TypeError"
  else if kwInt kw 2 > dbScaled && !kwTruthy kw 5 then some "ValueError"
  else if (match kw.lookup 0 with
           | some (some k) => k != 21
           | _ => false) then some "ValueError"
  else if (match kw.lookup 1 with
           | some (some c) => c != 0
           | _ => false) then some "ValueError"
  else if kwTruthy kw 4 then some "ValueError"
  else none

/-- `SqliteCollectionManifest._make_select` + the query of `rows`: `.error` = the exception class raised while the
    conditions are built (`select_d["scaled"] > 0` with `scaled=None`); `num` / `abund` never reach the dict
    (`SqliteIndex._select` consumes them) -/
def sqlPasses (d : Sel) (m : MH) : Except String Bool :=
  if d.isEmpty then .ok true
  else if d.lookup 2 == some none then .error "TypeError"
  else .ok ((!kwTruthy d 0 || m.ksize == kwInt d 0) &&
            (!(kwInt d 2 > 0) || Py.scaledProp m != 0) &&
            (!kwTruthy d 5 || Py.scaledProp m != 0) &&
            (match d.lookup 1 with
             | some (some c) => c == molOf m
             | _ => true))

def filterSql (d : Sel) : List SigVal → Except String (List SigVal)
  | [] => if d.isEmpty then .ok [] else if d.lookup 2 == some none then .error "TypeError" else .ok []
  | v :: vs =>
    match sqlPasses d v.mh with
    | .error e => .error e
    | .ok b =>
      match filterSql d vs with
      | .error e => .error e
      | .ok r => .ok (if b then v :: r else r)

/-! ### what a view yields -/

/-- flat copy of a sketch, as `LCA_Database` re-creates it from its hash table -/
def flatOf (m : MH) : MH := { m with abunds := none, md5 := none }

def passesPicks (picks : List (List String)) (name : String) : Bool :=
  picks.all (fun p => p.contains name)

/-- a signature as handed out: frozen flag + value -/
abbrev SigOut := Bool × SigVal

def sigCellsOf (w : World) (ids : List Nat) : List SigCell :=
  ids.filterMap (fun c => w.sigs.cells[c]?)

def frozenOut (vs : List SigVal) : List SigOut := vs.map (fun v => (true, v))

def optErr {α : Type} (o : Option α) : Except String α :=
  match o with
  | some x => .ok x
  | none => .error "ValueError"

/-- what SqliteIndex hands out, as the CURRENT source has it (`Gen.ownSqliteHandsOutMutable`): a plain, MUTABLE
    `SourmashSignature` (finding C15.3), or a frozen one once `_load_sketch` / `_load_sketches` freeze -/
def mutableOut (vs : List SigVal) : List SigOut := vs.map (fun v => (!Gen.ownSqliteHandsOutMutable, v))

/-- `list(view.signatures())` in iteration order; `.error` = the exception class it raises -/
def viewSigs (w : World) (vc : ViewCell) : Except String (List SigOut) :=
  match vc.kind with
  | .linear => .ok (frozenOut vc.vals ++ (sigCellsOf w vc.sigs).map (fun c => (c.frozen, c.val)))
  | .lazy =>
    match w.views.cells[vc.db]? with
    | none => .ok []
    | some dbc =>
      optErr ((filterSel (vc.sel.getD []) (fun (c : SigCell) => c.val.mh) (sigCellsOf w dbc.sigs)).map
        (fun l => l.map (fun c => (c.frozen, c.val))))
  | .zipnm =>
    let all := (w.stores[vc.store]?).getD []
    match vc.sel with
    | none => .ok (frozenOut all)
    | some [] => .ok (frozenOut all)
    | some kw => optErr ((filterSel kw (fun (v : SigVal) => v.mh) all).map frozenOut)
  | .zipm | .standalone =>
    .ok (frozenOut (vc.rows.filterMap (fun r =>
      match w.rows[r]? with
      | some row =>
        match row.loc with
        | some (st, i) => ((w.stores[st]?).getD [])[i]?
        | none => none
      | none => none)))
  | .multi =>
    .ok ((vc.rows.filterMap (fun r =>
      match w.rows[r]? with
      | some row =>
        match row.sig with
        | some c => (w.sigs.cells[c]?).map (fun c => (c.frozen, c.val))
        | none => if row.anon then some (true, row.snap) else none
      | none => none)))
  | .sbt =>
    .ok (((sigCellsOf w vc.sigs).filter (fun c => passesPicks vc.picks c.val.name)).map
      (fun c => (c.frozen, c.val)))
  | .lca => .ok (frozenOut (vc.vals.filter (fun v => passesPicks vc.picks v.name)))
  | .sbtdisk =>
    .ok (frozenOut (((w.stores[vc.store]?).getD []).filter (fun v => passesPicks vc.picks v.name)))
  | .sqlite | .lcasql =>
    (filterSql (vc.sel.getD []) ((w.stores[vc.store]?).getD [])).map mutableOut

/-! ### the locations a view reports -/

/-- the locations `signatures_with_location()` attaches, aligned with `viewSigs` -/
def viewLocs (w : World) (vc : ViewCell) : Except String (List Loc) :=
  match vc.kind with
  | .multi =>
    -- `row["internal_location"]`, with `os.path.join(self.parent, loc)` when `prepend_location` is set
    (vc.rows.filterMap (fun r =>
      match w.rows[r]? with
      | some row =>
        match row.sig with
        | some c => (w.sigs.cells[c]?).map (fun _ => row.iloc)
        | none => if row.anon then some row.iloc else none
      | none => none)).mapM (fun l => if vc.scaled != 0 then joinLoc vc.loc l else .ok l)
  | .standalone =>
    .ok (vc.rows.filterMap (fun r =>
      match w.rows[r]? with
      | some row =>
        match row.loc with
        | some (st, i) => (((w.stores[st]?).getD [])[i]?).map (fun _ => row.iloc)
        | none => none
      | none => none))
  | .lazy =>
    -- the wrapped LinearIndex's location
    match w.views.cells[vc.db]? with
    | none => .ok []
    | some dbc => (viewSigs w vc).map (fun l => l.map (fun _ => dbc.loc))
  | _ => (viewSigs w vc).map (fun l => l.map (fun _ => vc.loc))

/-! ### what a view ANSWERS besides `signatures()`: `len`, manifest membership, a containment search -/

/-- `ss.md5sum()` is a digest of (ksize, hashes): two sketches have the same md5 iff -/
def sameMd5 (a b : MH) : Bool := a.ksize == b.ksize && a.mins == b.mins

/-- `ss in view.manifest` (`_md5_set` of a CollectionManifest; `SELECT COUNT(*) … WHERE md5sum=?` over the WHOLE table of
    a SQLite manifest, whatever its selection; the CSV manifest of a loaded SBT, which select never replaces);
    `none` = the view has no manifest -/
def viewMember (w : World) (vc : ViewCell) (m : MH) : Option Bool :=
  match vc.kind with
  | .zipm | .multi | .standalone =>
    some (vc.rows.any (fun r =>
      match w.rows[r]? with
      | some row => sameMd5 row.snap.mh m
      | none => false))
  | .sbtdisk | .sqlite | .lcasql => some (((w.stores[vc.store]?).getD []).any (fun v => sameMd5 v.mh m))
  | _ => none

/-- `len(view)` -/
def viewLen (w : World) (vc : ViewCell) : Except String Nat :=
  match vc.kind with
  | .linear => .ok (vc.vals.length + (sigCellsOf w vc.sigs).length)       -- `len(self._signatures)`
  | .sbt => .ok (sigCellsOf w vc.sigs).length                             -- `len(self._leaves)`: picklists ignored
  | .lazy | .zipnm | .sqlite | .lcasql => (viewSigs w vc).map List.length
  | .zipm | .multi | .standalone => .ok vc.rows.length       -- `len(self.manifest)`
  | .lca => .ok vc.vals.length                               -- `_next_index`: picklists ignored
  | .sbtdisk => .ok ((w.stores[vc.store]?).getD []).length

/-- the probe query of the dump: the signature with the lowest handle that is flat and scaled -/
def probeOf (w : World) : Option MH :=
  let hs := (w.sigs.handles.map Prod.fst).mergeSort (· ≤ ·)
  (hs.filterMap (fun h =>
    match w.sigs.cell h with
    | some sc => if sc.val.mh.num == 0 && !sc.val.mh.trackAbundance then some sc.val.mh else none
    | none => none)).head?

inductive Found where
  | noProbe
  | mixed                      -- sketches at another resolution than the probe: not covered
  | stale                      -- an in-memory SBT one of whose (referenced, mutable) members was given other hashes
                               -- after insertion: the internal nodes no longer cover it (observation C15.4): not covered
  | err (e : String)
  | names (l : List (String × Loc))

/-- `view.search(probe, threshold=0, do_containment=True)`: the names of the sketches sharing a hash with the probe.
    (Whether SqliteIndex refuses an EMPTY query — `max()` of no hashes — or answers nothing is re-read from the source:
    `Gen.ownSqliteFindRefusesEmptyQuery`.) -/
def viewFind (w : World) (vc : ViewCell) : Found :=
  match probeOf w with
  | none => .noProbe
  | some q =>
    match viewSigs w vc with
    | .error e => .err e
    | .ok l =>
      if l.any (fun o => o.2.mh.maxHash != q.maxHash || o.2.mh.num != 0) then .mixed
      else if vc.kind == .sbt &&
          (sigCellsOf w vc.sigs).map (·.val.mh.mins) != vc.vals.map (·.mh.mins) then .stale
      else if Gen.ownSqliteFindRefusesEmptyQuery && (vc.kind == .sqlite || vc.kind == .lcasql) && q.mins.isEmpty then
        .err "ValueError"
      else
        match viewLocs w vc with
        | .error e => .err e
        | .ok ls =>
          .names (((l.zip ls).filter (fun p => !(interL p.1.2.mh.mins q.mins).isEmpty)).map (fun p => (p.1.2.name, p.2)))

/-! ### primitive effects -/

def World.sigFresh (w : World) (r : Nat) (v : SigVal) (frozen : Bool) : World :=
  { w with sigs := w.sigs.alloc r ⟨v, frozen⟩ }

def World.sigAlias (w : World) (r c : Nat) : World := { w with sigs := w.sigs.bind r c }

/-- a mutator of signature handle `s`: refused with ValueError on a frozen object, otherwise rewrites
    that one cell (`f` returns the new value and the result: `add_sequence` can fail half-way) -/
def World.sigMutate (w : World) (s : Nat) (f : SigVal → SigVal × Res) : World × Res :=
  match w.sigs.cid s with
  | none => (w, .bad)
  | some c =>
    match w.sigs.cells[c]? with
    | none => (w, .bad)
    | some cell =>
      if cell.frozen then (w, .err "ValueError")
      else
        let r := f cell.val
        ({ w with sigs := w.sigs.setCell c ⟨r.1, false⟩ }, r.2)

def World.viewFresh (w : World) (r : Nat) (vc : ViewCell) : World :=
  { w with views := w.views.alloc r vc }

def World.viewAlias (w : World) (r c : Nat) : World := { w with views := w.views.bind r c }

def World.viewSet (w : World) (c : Nat) (vc : ViewCell) : World :=
  { w with views := w.views.setCell c vc }

def World.mhFresh (w : World) (r : Nat) (v : MH) (frozen : Bool) : World :=
  { w with heap := w.heap.alloc r v frozen }

/-- `SourmashSignature.to_mutable()` (`return self.copy()`) / `FrozenSourmashSignature.to_mutable()`
    (`__getstate__/__setstate__` into a new object): always a new object -/
def toMutableSigCopy (w : World) (r s : Nat) : World × Res :=
  match w.sigs.cell s with
  | some sc => (w.sigFresh r sc.val false, .ok)
  | none => (w, .bad)

/-- the seeded change C15a: `to_mutable()` of a MUTABLE signature returning `self` -/
def toMutableSigAliasing (w : World) (r s : Nat) : World × Res :=
  match w.sigs.cid s, w.sigs.cell s with
  | some c, some sc => if sc.frozen then (w.sigFresh r sc.val false, .ok) else (w.sigAlias r c, .ok)
  | _, _ => (w, .bad)

/-- `to_mutable()` as the CURRENT source has it: the translator re-reads the body of
    `SourmashSignature.to_mutable` (`Gen.ownSigToMutableCopies` = it is `return self.copy()`) -/
def toMutableSig (w : World) (r s : Nat) : World × Res :=
  if Gen.ownSigToMutableCopies then toMutableSigCopy w r s else toMutableSigAliasing w r s

/-- `flatten()` as a value (`self` or the new object) -/
def flatVal (m : MH) : Except MH.Err MH :=
  match Py.flatten m with
  | .ok (some f) => .ok f
  | .ok none => .ok m
  | .error e => .error e

/-- `query_mh.to_mutable(); remove_many(empty noident); flatten()` of `GatherDatabases.__init__` -/
def gatherQueryMh (m : MH) : Except MH.Err MH := flatVal (Py.pickleRoundTrip m)

/-- `GatherDatabases.__init__` as far as the query signature goes, over a given `to_mutable` -/
def gatherInitWith (toMut : World → Nat → Nat → World × Res) (w : World) (r s : Nat) : World × Res :=
  match w.sigs.cell s with
  | none => (w, .bad)
  | some sc =>
    if sc.val.mh.num ≠ 0 then (w, .err "TypeError")       -- `unique_dataset_hashes` of a num sketch
    else
      match gatherQueryMh sc.val.mh with
      | .error e => (w, .err (errName e))
      | .ok q =>
        let w1 := toMut w r s                                -- `query = query.to_mutable()`
        match w1.2 with
        | .ok => w1.1.sigMutate r (fun v => ({ v with mh := q }, .ok))     -- `query.minhash = orig_query_mh`
        | e => (w1.1, e)

def hashFnOf (m : MH) : Seq.HashFn :=
  if m.hf == 2 then .protein else if m.hf == 3 then .dayhoff else if m.hf == 4 then .hp else .dna

def pyErrName : Seq.Py.PyErr → String
  | .valueError => "ValueError"
  | .assertionError => "AssertionError"
  | .panic => "Panic"

def seqRes : Option Seq.Py.PyErr → Res
  | none => .ok
  | some e => .err (pyErrName e)

/-- python-level k of a sketch (`MinHash.ksize`) -/
def pyK (m : MH) : Nat := if m.hf == 1 then m.ksize else m.ksize / 3

/-- `Signature::add_sequence`: the inner sketch gets every hash up to the end or the first invalid k-mer -/
def addSeqVal (v : SigVal) (seq : List Nat) (force : Bool) : SigVal × Res :=
  let r := Seq.Py.addSequence (Murmur3.hashNat v.mh.seed) (hashFnOf v.mh) (pyK v.mh) seq force
  ({ v with mh := v.mh.addMany r.1 }, seqRes r.2)

def addProtVal (v : SigVal) (seq : List Nat) : SigVal × Res :=
  let r := Seq.Py.addProtein (Murmur3.hashNat v.mh.seed) (hashFnOf v.mh) (pyK v.mh) seq
  ({ v with mh := v.mh.addMany r.1 }, seqRes r.2)

/-! ### domain guards (ill-formed op = `bad-op` on both sides) -/

def distinctMins : List SigVal → Bool
  | [] => true
  | v :: vs => vs.all (fun u => u.mh.mins != v.mh.mins) && distinctMins vs

/-- every sketch is a scaled sketch with threshold `mx` -/
def uniformScaled (mx : Nat) (vs : List SigVal) : Bool :=
  vs.all (fun v => v.mh.num == 0 && v.mh.maxHash == mx && mx != 0)

/-- non-empty, pairwise distinct names (the identifiers of an `LCA_Database`) -/
def namesOk : List SigVal → Bool
  | [] => true
  | v :: vs => v.name != "" && vs.all (fun u => u.name != v.name) && namesOk vs

/-! ### operations -/

inductive Op where
  /-- a sketch-layer operation of `Model/Ownership.lean` -/
  | mh (op : Own.Op)
  -- signature layer (r = result handle, s = signature handle, h = sketch handle)
  | sNew (r h : Nat) (name filename : String)
  | sMinhash (r s : Nat)
  | sSetMh (s h : Nat)
  | sSetName (s : Nat) (v : String)
  | sSetFilename (s : Nat) (v : String)
  | sAddSeq (s : Nat) (seq : List Nat) (force : Bool)
  | sAddProt (s : Nat) (seq : List Nat)
  | sSetState (s h : Nat) (name filename : String)
  | sIntoFrozen (s : Nat)
  | sToMutable (r s : Nat)
  | sToFrozen (r s : Nat)
  | sCopy (r s : Nat)
  | sPickle (r s : Nat)
  | sUpdateFlat (r s : Nat)
  | sUpdateName (r s : Nat) (v : String)
  | sGatherInit (r s : Nat)
  | sCounterGather (r s : Nat) (ds : List Nat)
  | sRead (name : String) (ss : List Nat)
  -- view layer (r = result handle, v = view handle)
  | vLinear (r : Nat) (ss : List Nat)
  | vLazy (r v : Nat)
  | vZip (r : Nat) (manifest : Bool) (ss : List Nat)
  | vMulti (r : Nat) (vs : List Nat)
  | vStandalone (r : Nat) (ss : List Nat)
  | vSbt (r : Nat) (ss : List Nat)
  | vLca (r : Nat) (ss : List Nat)
  /-- save an in-memory SBT (fmt 0: .sbt.zip, 1: .sbt.json + directory) and load it back with the given node cache size -/
  | vSbtLoad (r fmt cache : Nat) (ss : List Nat)
  /-- `SaveSignaturesToLocation("x.sqldb")`, then `load_file_as_index` -/
  | vSqlite (r : Nat) (ss : List Nat)
  /-- `LCA_Database.save(format = json | sql)`, then `load_file_as_index` -/
  | vLcaLoad (r fmt : Nat) (ss : List Nat)
  | vInsert (v s : Nat)
  | vSelect (r v : Nat) (kw : Sel)
  | vSelectPick (r v : Nat) (names : List String)
  | vGet (r v i : Nat)
  | vRead (name : String) (v : Nat) (qs : List Nat)
  /-- a read-only call on the MANIFESTS of two views (`a + b`, `b + a`, `a + a`, `==`, `in`, `select_to_manifest`, `_select`,
      `filter_rows`, `filter_on_columns`, `to_picklist`, `locations`, `len`, iteration, `write_to_csv`) -/
  | vManifest (name : String) (v u : Nat) (ss : List Nat)
  /-- an ad-hoc zip whose member files hold `k` signatures each (so that the `ss in manifest` filter of
      `ZipFileLinearIndex.signatures` matters); same cells as `vZip` -/
  | vZipGroups (r : Nat) (manifest : Bool) (k : Nat) (ss : List Nat)
  /-- constructors that take EXISTING views as input (and may only read them):
      `MultiIndex.load([views…], [label or None…], parent="p", prepend_location)` -/
  | vMultiOf (r : Nat) (prepend : Bool) (inputs : List (Nat × Option String))
  /-- `LinearIndex(list(view.signatures()))` (0), an SBT (1) / an LCA_Database (2) filled by inserting `view.signatures()` -/
  | vFrom (r kind v : Nat)
  /-- `StandaloneManifestIndex.load(csv)` over the manifest exported from a standalone view -/
  | vStandOf (r v : Nat)
  /-- the view's signatures saved to disk and loaded back with `MultiIndex.load_from_path` (0, one .sig file),
      `load_from_directory` (1, one file per signature), `load_from_pathlist` (2, a list naming that directory and that file) -/
  | vMPath (r mode v : Nat)
deriving Repr

def World.sigCids (w : World) (ss : List Nat) : Option (List Nat) := ss.mapM w.sigs.cid

def World.sigVals (w : World) (ss : List Nat) : Option (List SigVal) :=
  ss.mapM (fun s => (w.sigs.cell s).map (·.val))

/-- `with s.update() as q: body(q)`: only frozen signatures have `update`;
    `new_copy = self.to_mutable(); yield new_copy; new_copy.into_frozen()` -/
def updateCopy (w : World) (r s : Nat) (body : SigVal → Except MH.Err SigVal) : World × Res :=
  match w.sigs.cell s with
  | none => (w, .bad)
  | some sc =>
    if !sc.frozen then (w, .err "AttributeError")
    else
      match body sc.val with
      | .ok v => (w.sigFresh r v true, .ok)
      | .error e => (w, .err (errName e))

/-- the variant the docstring of `update` warns against ("could be made more efficient by _not_ copying"):
    thaw the receiver, run the body on it, freeze it again -/
def updateInPlace (w : World) (r s : Nat) (body : SigVal → Except MH.Err SigVal) : World × Res :=
  match w.sigs.cid s, w.sigs.cell s with
  | some c, some sc =>
    if !sc.frozen then (w, .err "AttributeError")
    else
      match body sc.val with
      | .ok v => ({ w with sigs := (w.sigs.setCell c ⟨v, true⟩).bind r c }, .ok)
      | .error e => (w, .err (errName e))
  | _, _ => (w, .bad)

/-- `update()` as the CURRENT source has it (`Gen.ownUpdateCopiesThenFreezes`) -/
def updateWith (w : World) (r s : Nat) (body : SigVal → Except MH.Err SigVal) : World × Res :=
  if Gen.ownUpdateCopiesThenFreezes then updateCopy w r s body else updateInPlace w r s body

/-- rows of a manifest read back from a zip (`load_from_csv`: `row["signature"] = None`) -/
def diskRows (st : Nat) (vs : List SigVal) (hasKey : Bool) (iloc : Nat → SigVal → Loc := fun _ _ => .none) : List Row :=
  (List.range vs.length).filterMap (fun i =>
    match vs[i]? with
    | some v => some { snap := v, sig := none, hasSigKey := hasKey, loc := some (st, i), iloc := iloc i v }
    | none => none)

def rowIdsFrom (start n : Nat) : List Nat := (List.range n).map (· + start)

/-- `select(**kw)` on a view cell: a new cell, the receiver rewritten in place, or a refusal -/
inductive SelOutcome where
  | fresh (vc : ViewCell)
  | inplace (vc : ViewCell)
  | err (name : String)
deriving Repr

def rowMh (w : World) (r : Nat) : MH := ((w.rows[r]?).map (·.snap.mh)).getD default

def selectOutcome (w : World) (vc : ViewCell) (kw : Sel) : SelOutcome :=
  match vc.kind with
  | .linear =>
    match filterSel kw (fun (p : Nat × SigCell) => p.2.val.mh)
        (vc.sigs.filterMap (fun c => (w.sigs.cells[c]?).map (fun x => (c, x)))) with
    | none => .err "ValueError"
    | some l =>
      match filterSel kw (fun (v : SigVal) => v.mh) vc.vals with
      | none => .err "ValueError"
      | some vs => .fresh { kind := .linear, sigs := l.map Prod.fst, vals := vs, loc := vc.loc }
  | .lazy =>
    match mergeLazy (vc.sel.getD []) kw with
    | none => .err "ValueError"
    | some d => .fresh { kind := .lazy, db := vc.db, sel := some d, loc := vc.loc }
  | .zipnm =>
    match vc.sel with
    | none | some [] => .fresh { kind := .zipnm, store := vc.store, sel := some kw, loc := vc.loc }
    | some d =>
      match mergeZip d kw with
      | none => .err "ValueError"
      | some d' => .fresh { kind := .zipnm, store := vc.store, sel := some d', loc := vc.loc }
  | .zipm | .multi | .standalone =>
    -- (`scaled` of a MultiIndex cell = its `prepend_location` flag, which `select` passes on)
    .fresh { kind := vc.kind, store := vc.store, rows := vc.rows.filter (fun r => rowPasses kw (rowMh w r)),
             scaled := vc.scaled, loc := vc.loc }
  | .sbt =>
    -- `first_sig is None`: nothing (left) to select from
    if ((sigCellsOf w vc.sigs).filter (fun c => passesPicks vc.picks c.val.name)).isEmpty then .inplace vc
    else if sbtRefuses kw vc.scaled then .err "ValueError"
    else .inplace vc
  | .lca =>
    match lcaRefuses kw vc.scaled with
    | some e => .err e
    | none => .inplace vc
  | .sbtdisk =>
    if (((w.stores[vc.store]?).getD []).filter (fun v => passesPicks vc.picks v.name)).isEmpty then .inplace vc
    else if sbtRefuses kw vc.scaled then .err "ValueError"
    else .inplace vc
  | .sqlite | .lcasql =>
    -- `SqliteIndex._select`: `num` / `abund` are refused when truthy and never reach the manifest's dict
    if kwTruthy kw 3 || kwTruthy kw 4 then .err "ValueError"
    else
      let kw' := kw.filter (fun p => p.1 != 3 && p.1 != 4)
      let merged : Option Sel :=
        match vc.sel with
        | none | some [] => some kw'
        | some d => mergeZip d kw'
      match merged with
      | none => .err "ValueError"
      | some d =>
        -- an LCA_SqliteDatabase re-reads its rows while it is constructed (`_build_index`)
        if vc.kind == .lcasql && !d.isEmpty && d.lookup 2 == some none then .err "TypeError"
        else .fresh { kind := vc.kind, store := vc.store, sel := some d, loc := vc.loc }

/-- `select(picklist=pl)` on the in-place kinds: the picklist is appended, THEN a second one is refused -/
def pickOutcome (w : World) (vc : ViewCell) (names : List String) : Option (ViewCell × Res) :=
  match vc.kind with
  | .sbt =>
    if ((sigCellsOf w vc.sigs).filter (fun c => passesPicks vc.picks c.val.name)).isEmpty then some (vc, .ok)
    else
      let vc' := { vc with picks := vc.picks ++ [names] }
      some (vc', if vc'.picks.length > 1 then .err "ValueError" else .ok)
  | .lca =>
    let vc' := { vc with picks := vc.picks ++ [names] }
    some (vc', if vc'.picks.length > 1 then .err "ValueError" else .ok)
  | .sbtdisk =>
    if (((w.stores[vc.store]?).getD []).filter (fun v => passesPicks vc.picks v.name)).isEmpty then some (vc, .ok)
    else
      let vc' := { vc with picks := vc.picks ++ [names] }
      some (vc', if vc'.picks.length > 1 then .err "ValueError" else .ok)
  | _ => none

/-- kinds whose `signatures()` yields the very objects the collection holds -/
def VKind.holdsObjects : VKind → Bool
  | .linear | .multi | .lazy => true
  | _ => false

/-- kinds whose `signatures()` re-reads the signatures from disk -/
def VKind.onDisk : VKind → Bool
  | .zipnm | .zipm | .standalone | .sqlite | .lcasql => true
  | _ => false

/-- disk kinds whose iteration order is the order the signatures were written in (`vget` is defined on these;
    an LCA_SqliteDatabase is filled in the LCA_Database's internal order) -/
def VKind.readsInOrder : VKind → Bool
  | .zipnm | .zipm | .standalone | .sqlite => true
  | _ => false

/-- the cells of the objects `signatures()` yields, for the kinds that hold objects; `none` = raises ValueError -/
def heldIds (w : World) (vc : ViewCell) : Option (List Nat) :=
  match vc.kind with
  | .linear => some (vc.sigs.filter (fun c => (w.sigs.cells[c]?).isSome))
  | .multi => some (vc.rows.filterMap (fun r => (w.rows[r]?).bind (·.sig)))
  | .lazy =>
    match w.views.cells[vc.db]? with
    | none => some []
    | some dbc =>
      (filterSel (vc.sel.getD []) (fun (p : Nat × SigCell) => p.2.val.mh)
        (dbc.sigs.filterMap (fun c => (w.sigs.cells[c]?).map (fun x => (c, x))))).map (·.map Prod.fst)
  | _ => some []

/-- kinds whose iteration order is determined (the constructors from views are defined on these) -/
def VKind.ordered : VKind → Bool
  | .linear | .lazy | .multi | .zipnm | .zipm | .standalone | .sqlite => true
  | _ => false

/-- what `view.signatures()` hands out, in iteration order: the very cell the collection holds (`inl`), or a private frozen
    object read for the occasion (`inr`, by value) -/
def members (w : World) (vc : ViewCell) : Except String (List (Sum Nat SigVal)) :=
  match vc.kind with
  | .linear =>
    .ok (vc.vals.map Sum.inr ++ (vc.sigs.filter (fun c => (w.sigs.cells[c]?).isSome)).map Sum.inl)
  | .lazy =>
    match heldIds w vc with
    | none => .error "ValueError"
    | some l => .ok (l.map Sum.inl)
  | .multi =>
    .ok (vc.rows.filterMap (fun r =>
      match w.rows[r]? with
      | some row =>
        match row.sig with
        | some c => if (w.sigs.cells[c]?).isSome then some (Sum.inl c) else none
        | none => if row.anon then some (Sum.inr row.snap) else none
      | none => none))
  | _ => (viewSigs w vc).map (fun l => l.map (fun o => Sum.inr o.2))

def memberVal (w : World) : Sum Nat SigVal → Option SigVal
  | .inl c => (w.sigs.cells[c]?).map (·.val)
  | .inr v => some v

/-- `make_manifest_row(ss, iloc)` for a member of an input collection -/
def memberRow (w : World) (iloc : Loc) : Sum Nat SigVal → Option Row
  | .inl c => (w.sigs.cells[c]?).map (fun sc => { snap := sc.val, sig := some c, hasSigKey := true, loc := none, iloc := iloc })
  | .inr v => some { snap := v, sig := none, hasSigKey := true, loc := none, iloc := iloc, anon := true }

/-- the rows `MultiIndex.load` builds from its inputs (an input whose `signatures()` raises aborts the construction) -/
def multiRows (w : World) : List (ViewCell × Option String) → Except String (List Row)
  | [] => .ok []
  | (vc, lab) :: rest =>
    match members w vc with
    | .error e => .error e
    | .ok ms =>
      match multiRows w rest with
      | .error e => .error e
      | .ok rs =>
        let iloc := match lab with
          | some s => Loc.label s
          | none => vc.loc
        .ok (ms.filterMap (memberRow w iloc) ++ rs)

def anonRows (vs : List SigVal) (iloc : Nat → Loc) : List Row :=
  vs.zipIdx.map (fun (v, i) => { snap := v, sig := none, hasSigKey := true, loc := none, iloc := iloc i, anon := true })

def step (w : World) : Op → World × Res
  | .mh op =>
    let r := Own.step w.heap op
    ({ w with heap := r.1 }, r.2)
  | .sNew r h name filename =>
    match w.heap.cell h with
    | some c => (w.sigFresh r ⟨c.val, name, filename⟩ false, .ok)
    | none => (w, .bad)
  | .sMinhash r s =>
    match w.sigs.cell s with
    | some sc => (w.mhFresh r sc.val.mh true, .ok)
    | none => (w, .bad)
  | .sSetMh s h =>
    match w.heap.cell h with
    | some c => w.sigMutate s (fun v => ({ v with mh := c.val }, .ok))
    | none => (w, .bad)
  | .sSetName s x => w.sigMutate s (fun v => ({ v with name := x }, .ok))
  | .sSetFilename s x => w.sigMutate s (fun v => ({ v with filename := x }, .ok))
  | .sAddSeq s seq force => w.sigMutate s (fun v => addSeqVal v seq force)
  | .sAddProt s seq => w.sigMutate s (fun v => addProtVal v seq)
  | .sSetState s h name filename =>
    match w.heap.cell h with
    | some c => w.sigMutate s (fun _ => (⟨c.val, name, filename⟩, .ok))
    | none => (w, .bad)
  | .sIntoFrozen s =>
    match w.sigs.cid s, w.sigs.cell s with
    | some c, some sc => ({ w with sigs := w.sigs.setCell c ⟨sc.val, true⟩ }, .ok)
    | _, _ => (w, .bad)
  | .sToMutable r s => toMutableSig w r s
  | .sToFrozen r s =>
    match w.sigs.cid s, w.sigs.cell s with
    | some c, some sc => if sc.frozen then (w.sigAlias r c, .ok) else (w.sigFresh r sc.val true, .ok)
    | _, _ => (w, .bad)
  | .sCopy r s =>
    match w.sigs.cid s, w.sigs.cell s with
    | some c, some sc => if sc.frozen then (w.sigAlias r c, .ok) else (w.sigFresh r sc.val false, .ok)
    | _, _ => (w, .bad)
  | .sPickle r s =>
    match w.sigs.cell s with
    | some sc => (w.sigFresh r { sc.val with mh := Py.pickleRoundTrip sc.val.mh } false, .ok)
    | none => (w, .bad)
  | .sUpdateFlat r s => updateWith w r s (fun v => (flatVal v.mh).map (fun f => { v with mh := f }))
  | .sUpdateName r s x => updateWith w r s (fun v => .ok { v with name := x })
  | .sGatherInit r s => gatherInitWith toMutableSig w r s
  | .sCounterGather r s ds =>
    match w.sigs.cell s, w.sigVals ds with
    | some sc, some dvs =>
      if !(uniformScaled sc.val.mh.maxHash dvs) || sc.val.mh.num ≠ 0 then (w, .bad)
      else if !sc.frozen then (w, .err "AttributeError")
      else if dvs.isEmpty then (w, .err "ValueError")             -- `prefetch`: "no signatures to search"
      else if sc.val.mh.mins.isEmpty then (w, .err "ValueError")   -- `make_containment_query`: "query is empty!?"
      else
        match flatVal sc.val.mh with
        | .ok f => (w.mhFresh r f true, .ok)
        | .error e => (w, .err (errName e))
    | _, _ => (w, .bad)
  | .sRead _ ss => if ss.all (fun s => (w.sigs.cell s).isSome) then (w, .ok) else (w, .bad)
  | .vLinear r ss =>
    match w.sigCids ss with
    | some cs => (w.viewFresh r { kind := .linear, sigs := cs }, .ok)
    | none => (w, .bad)
  | .vLazy r v =>
    match w.views.cid v, w.views.cell v with
    | some c, some vc =>
      if vc.kind == .linear && vc.vals.isEmpty then (w.viewFresh r { kind := .lazy, db := c, sel := some [] }, .ok)
      else (w, .bad)
    | _, _ => (w, .bad)
  | .vZip r manifest ss =>
    match w.sigVals ss with
    | some vs =>
      if vs.isEmpty || !distinctMins vs then (w, .bad)
      else
        let st := w.stores.length
        let w1 := { w with stores := w.stores ++ [vs] }
        if manifest then
          let rs := diskRows st vs true (fun _ v => .md5 v.mh.mins)
          ({ w1 with rows := w.rows ++ rs }.viewFresh r
            { kind := .zipm, store := st, rows := rowIdsFrom w.rows.length rs.length, loc := .dir st }, .ok)
        else (w1.viewFresh r { kind := .zipnm, store := st, sel := none, loc := .dir st }, .ok)
    | none => (w, .bad)
  | .vStandalone r ss =>
    match w.sigVals ss with
    | some vs =>
      if vs.isEmpty || !distinctMins vs then (w, .bad)
      else
        let st := w.stores.length
        let rs := diskRows st vs false (fun i _ => .file st i)
        ({ w with stores := w.stores ++ [vs], rows := w.rows ++ rs }.viewFresh r
          { kind := .standalone, store := st, rows := rowIdsFrom w.rows.length rs.length, loc := .dir st }, .ok)
    | none => (w, .bad)
  | .vMulti r vs =>
    -- `MultiIndex.load(idxs, ["src0", "src1", …], parent="p", prepend_location = r odd)` over LinearIndex objects
    match vs.mapM w.views.cell with
    | some vcs =>
      if !(vcs.all (fun vc => vc.kind == .linear && vc.vals.isEmpty)) then (w, .bad)
      else
        let rs : List Row := (vcs.zipIdx).flatMap (fun (vc, n) => vc.sigs.filterMap (fun c =>
          (w.sigs.cells[c]?).map (fun sc =>
            ({ snap := sc.val, sig := some c, hasSigKey := true, loc := none, iloc := .label ("src" ++ toString n) } : Row))))
        ({ w with rows := w.rows ++ rs }.viewFresh r
          { kind := .multi, rows := rowIdsFrom w.rows.length rs.length, scaled := r % 2, loc := .label "p" }, .ok)
    | none => (w, .bad)
  | .vSbt r ss =>
    match w.sigCids ss, w.sigVals ss with
    | some cs, some vs =>
      match vs with
      | [] => (w, .bad)
      | v0 :: _ =>
        if !(uniformScaled v0.mh.maxHash vs) then (w, .bad)
        else (w.viewFresh r { kind := .sbt, sigs := cs, vals := vs, scaled := Py.scaledProp v0.mh }, .ok)
    | _, _ => (w, .bad)
  | .vLca r ss =>
    match w.sigVals ss with
    | some vs =>
      match vs with
      | [] => (w, .bad)
      | v0 :: _ =>
        if !(uniformScaled v0.mh.maxHash vs) || !namesOk vs then (w, .bad)
        else
          (w.viewFresh r { kind := .lca, vals := vs.map (fun v => ⟨flatOf v.mh, v.name, ""⟩),
                           scaled := Py.scaledProp v0.mh }, .ok)
    | none => (w, .bad)
  | .vSbtLoad r fmt _cache ss =>
    match w.sigVals ss with
    | some vs =>
      match vs with
      | [] => (w, .bad)
      | v0 :: _ =>
        if fmt > 1 || !(uniformScaled v0.mh.maxHash vs) || !distinctMins vs then (w, .bad)
        else
          ({ w with stores := w.stores ++ [vs] }.viewFresh r
            { kind := .sbtdisk, store := w.stores.length, scaled := Py.scaledProp v0.mh, loc := .dir w.stores.length }, .ok)
    | none => (w, .bad)
  | .vSqlite r ss =>
    match w.sigVals ss with
    | some vs =>
      match vs with
      | [] => (w, .bad)
      | v0 :: _ =>
        if !(uniformScaled v0.mh.maxHash vs) || !distinctMins vs || vs.any (fun v => v.mh.trackAbundance) then (w, .bad)
        else
          ({ w with stores := w.stores ++ [vs.map (fun (v : SigVal) => (⟨flatOf v.mh, v.name, v.filename⟩ : SigVal))] }.viewFresh r
            { kind := .sqlite, store := w.stores.length, sel := none, loc := .dir w.stores.length }, .ok)
    | none => (w, .bad)
  | .vLcaLoad r fmt ss =>
    match w.sigVals ss with
    | some vs =>
      match vs with
      | [] => (w, .bad)
      | v0 :: _ =>
        if fmt > 1 || !(uniformScaled v0.mh.maxHash vs) || !namesOk vs then (w, .bad)
        else
          let flat := vs.map (fun v => (⟨flatOf v.mh, v.name, ""⟩ : SigVal))
          if fmt == 0 then
            -- (`LCA_Database.load` records the file name: the JSON file is disk artifact `stores.length`)
            ({ w with stores := w.stores ++ [flat] }.viewFresh r
              { kind := .lca, vals := flat, scaled := Py.scaledProp v0.mh, loc := .dir w.stores.length }, .ok)
          else
            ({ w with stores := w.stores ++ [flat] }.viewFresh r
              { kind := .lcasql, store := w.stores.length, sel := none, loc := .dir w.stores.length }, .ok)
    | none => (w, .bad)
  | .vInsert v s =>
    match w.views.cid v, w.views.cell v, w.sigs.cid s, w.sigs.cell s with
    | some c, some vc, some sc, some scell =>
      match vc.kind with
      | .linear => (w.viewSet c { vc with sigs := vc.sigs ++ [sc] }, .ok)
      | .sbt =>
        if scell.val.mh.num ≠ 0 || Py.scaledProp scell.val.mh ≠ vc.scaled then (w, .bad)
        else (w.viewSet c { vc with sigs := vc.sigs ++ [sc], vals := vc.vals ++ [scell.val] }, .ok)
      | .lca =>
        if scell.val.mh.num ≠ 0 || Py.scaledProp scell.val.mh ≠ vc.scaled || scell.val.name == "" then (w, .bad)
        else if vc.vals.any (fun u => u.name == scell.val.name) then (w, .err "ValueError")
        else (w.viewSet c { vc with vals := vc.vals ++ [⟨flatOf scell.val.mh, scell.val.name, ""⟩] }, .ok)
      | .sbtdisk | .sqlite => (w, .bad)      -- outside the modelled domain (the insertion goes to the shared database / is not in the manifest)
      | _ => (w, .err "NotImplementedError")
    | _, _, _, _ => (w, .bad)
  | .vSelect r v kw =>
    match w.views.cid v, w.views.cell v with
    | some c, some vc =>
      match selectOutcome w vc kw with
      | .fresh vc' => (w.viewFresh r vc', .ok)
      | .inplace vc' => ((w.viewSet c vc').viewAlias r c, .ok)
      | .err e => (w, .err e)
    | _, _ => (w, .bad)
  | .vSelectPick r v names =>
    match w.views.cid v, w.views.cell v with
    | some c, some vc =>
      match pickOutcome w vc names with
      | some (vc', .ok) => ((w.viewSet c vc').viewAlias r c, .ok)
      | some (vc', e) => (w.viewSet c vc', e)
      | none => (w, .bad)
    | _, _ => (w, .bad)
  | .vGet r v i =>
    match w.views.cell v with
    | some vc =>
      if vc.kind.holdsObjects && (!vc.vals.isEmpty || vc.rows.any (fun r => ((w.rows[r]?).map (·.anon)).getD false)) then
        (w, .bad)       -- members that are private copies read from disk: outside the domain of `vget`
      else if vc.kind.holdsObjects then
        -- the object held by the collection itself
        match heldIds w vc with
        | none => (w, .err "ValueError")
        | some l =>
          match l[i]? with
          | some c => (w.sigAlias r c, .ok)
          | none => (w, .err "IndexError")
      else if vc.kind.readsInOrder then
        -- loaded from disk on every call: a new frozen object
        match viewSigs w vc with
        | .error e => (w, .err e)
        | .ok l =>
          match l[i]? with
          | some o => (w.sigFresh r o.2 o.1, .ok)
          | none => (w, .err "IndexError")
      else (w, .bad)
    | none => (w, .bad)
  | .vRead _ v qs =>
    if (w.views.cell v).isSome && qs.all (fun s => (w.sigs.cell s).isSome) then (w, .ok) else (w, .bad)
  | .vManifest _ v u ss =>
    if (w.views.cell v).isSome && (w.views.cell u).isSome && ss.all (fun s => (w.sigs.cell s).isSome) then (w, .ok)
    else (w, .bad)
  | .vMultiOf r prepend inputs =>
    match inputs.mapM (fun p => (w.views.cell p.1).map (fun vc => (vc, p.2))) with
    | none => (w, .bad)
    | some l =>
      if !(l.all (fun p => p.1.kind.ordered)) then (w, .bad)
      else
        match multiRows w l with
        | .error e => (w, .err e)
        | .ok rs =>
          ({ w with rows := w.rows ++ rs }.viewFresh r
            { kind := .multi, rows := rowIdsFrom w.rows.length rs.length, scaled := if prepend then 1 else 0,
              loc := .label "p" }, .ok)
  | .vFrom r kind v =>
    match w.views.cell v with
    | none => (w, .bad)
    | some vc =>
      if !vc.kind.ordered || kind > 2 then (w, .bad)
      else
        match members w vc with
        | .error e => (w, .err e)
        | .ok ms =>
          let ids := ms.filterMap (fun m => match m with | .inl c => some c | .inr _ => none)
          let anons := ms.filterMap (fun m => match m with | .inl _ => none | .inr x => some x)
          let vals := ms.filterMap (memberVal w)
          if kind == 0 then
            if !ids.isEmpty && !anons.isEmpty then (w, .bad)
            else (w.viewFresh r { kind := .linear, sigs := ids, vals := anons }, .ok)
          else
            match vals with
            | [] => (w, .bad)
            | v0 :: _ =>
              if !(uniformScaled v0.mh.maxHash vals) then (w, .bad)
              else if kind == 1 then
                if !anons.isEmpty then (w, .bad)
                else (w.viewFresh r { kind := .sbt, sigs := ids, vals := vals, scaled := Py.scaledProp v0.mh }, .ok)
              else if !namesOk vals then (w, .bad)
              else
                (w.viewFresh r { kind := .lca, vals := vals.map (fun x => ⟨flatOf x.mh, x.name, ""⟩),
                                 scaled := Py.scaledProp v0.mh }, .ok)
  | .vStandOf r v =>
    match w.views.cell v with
    | none => (w, .bad)
    | some vc =>
      if vc.kind != .standalone then (w, .bad)
      else
        -- the CSV is read back: NEW row dicts (with a `signature: None` entry) carrying the same columns
        let rs : List Row := vc.rows.filterMap (fun r => (w.rows[r]?).map (fun row => { row with hasSigKey := true }))
        ({ w with rows := w.rows ++ rs, stores := w.stores ++ [[]] }.viewFresh r
          { kind := .standalone, store := vc.store, rows := rowIdsFrom w.rows.length rs.length,
            loc := .dir w.stores.length }, .ok)
  | .vMPath r mode v =>
    match w.views.cell v with
    | none => (w, .bad)
    | some vc =>
      if !vc.kind.ordered || mode > 2 then (w, .bad)
      else
        match viewSigs w vc with
        | .error e => (w, .err e)
        | .ok l =>
          let vs := l.map (·.2)
          if vs.isEmpty then (w, .bad)
          else
            let st := w.stores.length
            let rs : List Row :=
              if mode == 0 then anonRows vs (fun _ => .dir st)
              else if mode == 1 then anonRows vs (fun i => .num i)
              else anonRows vs (fun _ => .dir st) ++ anonRows vs (fun _ => .dir st)
            ({ w with rows := w.rows ++ rs, stores := w.stores ++ [vs] }.viewFresh r
              { kind := .multi, rows := rowIdsFrom w.rows.length rs.length, scaled := if mode == 1 then 1 else 0,
                loc := .dir st }, .ok)
  | .vZipGroups r manifest k ss =>
    match w.sigVals ss with
    | some vs =>
      if k == 0 || vs.isEmpty || !distinctMins vs then (w, .bad)
      else
        let st := w.stores.length
        let w1 := { w with stores := w.stores ++ [vs] }
        if manifest then
          let rs := diskRows st vs true (fun i _ => .grp (i / k))
          ({ w1 with rows := w.rows ++ rs }.viewFresh r
            { kind := .zipm, store := st, rows := rowIdsFrom w.rows.length rs.length, loc := .dir st }, .ok)
        else (w1.viewFresh r { kind := .zipnm, store := st, sel := none, loc := .dir st }, .ok)
    | none => (w, .bad)

/-! ### classification of operations (used by the frame theorems) -/

/-- the signature handle an operation may write -/
def sigReceiver : Op → Option Nat
  | .sSetMh s _ | .sSetName s _ | .sSetFilename s _ | .sAddSeq s _ _ | .sAddProt s _
  | .sSetState s _ _ _ | .sIntoFrozen s => some s
  | _ => none

/-- signature mutators proper (refused on a frozen object) -/
def isSigMutator : Op → Bool
  | .sSetMh .. | .sSetName .. | .sSetFilename .. | .sAddSeq .. | .sAddProt .. | .sSetState .. => true
  | _ => false

/-- the view handle an operation may write: `insert`, and `select` on the IN-PLACE kinds -/
def viewReceiver : Op → Option Nat
  | .vInsert v _ | .vSelect _ v _ | .vSelectPick _ v _ => some v
  | _ => none

def VKind.inPlace : VKind → Bool
  | .sbt | .lca | .sbtdisk => true
  | _ => false

end Sm.Obj
