/-
Executable model of searching collections of sketches (C06):

* `src/sourmash/search.py`      : `JaccardSearch` (`passes`, `collect`, the three score functions),
                                  `JaccardSearchBestOnly`, `calc_threshold_from_bp`, `make_containment_query`
* `src/sourmash/index/__init__.py` : `Index.find` (the linear scan every list-like container inherits:
                                  LinearIndex, LazyLinearIndex, ZipFileLinearIndex, MultiIndex,
                                  StandaloneManifestIndex), `search`, `prefetch`, `best_containment`
* `src/sourmash/sbt.py` / `sbtmh.py` : `SBT.select`, `SBT.find`, `_find_nodes`, `node_search`
* `src/sourmash/lca/lca_db.py`  : `LCA_Database.select`, `find`
* `src/sourmash/index/sqlite_index.py` : `convert_hash_to/from`, `SqliteIndex.find`,
                                  `_get_matching_sketches`, `_load_sketch_size`

Conventions
* a score is the pair `(n, d)` the score function divides (`d = 0` encodes the integer `0` the
  functions return for an empty denominator); its float value is the exact binary64 quotient
  `F64.divNat n d`, and every threshold comparison is the exact comparison of two doubles.
* the shapes of the three score functions and `MAX_SQLITE_INT` come from the translator (`Sm.Gen`).
* Bloom filters are abstracted to the set they answer "present" on (`Tree.node filter ..`); the
  container invariant the search relies on (filter ⊇ hashes below, `min_n_below` ≤ leaf sizes) is the
  explicit hypothesis `Cover` of Props/C06.lean, proved by C13.
* every function follows the control flow of the function it is named after, branch for branch,
  including the order in which errors are raised.
-/
import SmVerif.Model.MinHash

namespace Sm.Search

open Sm.F64

/-! ### errors -/

inductive SErr where
  | assertion | typeErr | valueErr | runtimeErr | stopIter
deriving DecidableEq, Repr

def SErr.name : SErr → String
  | .assertion => "AssertionError"
  | .typeErr => "TypeError"
  | .valueErr => "ValueError"
  | .runtimeErr => "RuntimeError"
  | .stopIter => "StopIteration"

/-- Python exception class of an error of the sketch layer (as `DriverMh.errName`) -/
def ofMHErr : MH.Err → SErr
  | .pyType => .typeErr
  | .pyRuntime => .runtimeErr
  | .frozen => .typeErr
  | _ => .valueErr

def liftE {α : Type} (x : Except MH.Err α) : Except SErr α :=
  match x with
  | .ok a => .ok a
  | .error e => .error (ofMHErr e)

/-! ### scores -/

/-- what a score function divides: `n / d`; `d = 0` is the integer `0` of the guarded branch -/
structure Ratio where
  n : Nat
  d : Nat
deriving DecidableEq, Repr, Inhabited

def Ratio.zero : Ratio := ⟨0, 0⟩

/-- the Python value of the score as a double (`int / int` is correctly rounded) -/
def Ratio.toF (r : Ratio) : F := divNat r.n r.d

inductive Mode where
  | jaccard | containment | maxContainment
deriving DecidableEq, Repr

def evalArg (a : Gen.SArg) (querySize sharedSize subjectSize totalSize : Nat) : Nat :=
  match a with
  | .query => querySize
  | .shared => sharedSize
  | .subject => subjectSize
  | .total => totalSize
  | .minQuerySubject => min querySize subjectSize

/-- `if guard == 0: return 0; return num / den` -/
def evalShape (s : Gen.ScoreShape) (q sh su t : Nat) : Ratio :=
  if evalArg s.guard q sh su t = 0 then Ratio.zero
  else ⟨evalArg s.num q sh su t, evalArg s.den q sh su t⟩

def shapeOf : Mode → Gen.ScoreShape
  | .jaccard => Gen.scoreJaccardShape
  | .containment => Gen.scoreContainmentShape
  | .maxContainment => Gen.scoreMaxContainmentShape

/-- `search_fn.score_fn(query_size, shared_size, subject_size, total_size)` -/
def scoreFn (m : Mode) (q sh su t : Nat) : Ratio := evalShape (shapeOf m) q sh su t

/-! ### `JaccardSearch` / `JaccardSearchBestOnly` -/

structure JS where
  mode : Mode
  thr : F
  bestOnly : Bool
deriving Repr

def requireScaled : Mode → Bool
  | .jaccard => false
  | _ => true

/-- strict comparison of two non-negative doubles -/
def gt (x y : F) : Bool := !(ge y x)

/-- `passes`: `score and score >= self.threshold` -/
def JS.passes (js : JS) (r : Ratio) : Bool :=
  decide (r.toF.m ≠ 0) && ge r.toF js.thr

/-- Python `max(a, b)`: `a` unless `b > a` -/
def fmax (a b : F) : F := if gt b a then b else a

/-- `collect`: the plain class keeps the threshold, BestOnly raises it to the best score so far -/
def JS.collect (js : JS) (r : Ratio) : JS :=
  if js.bestOnly then { js with thr := fmax js.thr r.toF } else js

/-- `check_is_compatible(query)` -/
def JS.checkIsCompatible (js : JS) (q : MH) : Except SErr Unit :=
  if requireScaled js.mode ∧ Py.scaledProp q = 0 then .error .typeErr
  else if q.trackAbundance then .error .typeErr
  else .ok ()

/-- `calc_threshold_from_bp(threshold_bp, scaled, query_size)` (first component) -/
def calcThresholdFromBp (bp scaled querySize : Nat) : Except SErr F :=
  if bp = 0 then .ok ⟨0, 0⟩
  else
    let nThresholdHashes := F64.div (F64.ofNat bp) (F64.ofNat scaled)
    let threshold := F64.div nThresholdHashes (F64.ofNat querySize)
    if gt threshold ⟨1, 0⟩ then .error .valueErr else .ok threshold

/-- `make_containment_query(query_mh, threshold_bp, best_only=)` -/
def makeContainmentQuery (q : MH) (bp : Nat) (best : Bool) : Except SErr JS :=
  if q.mins.length = 0 then .error .valueErr
  else if Py.scaledProp q = 0 then .error .typeErr
  else
    match calcThresholdFromBp bp (Py.scaledProp q) q.mins.length with
    | .error e => .error e
    | .ok t => .ok ⟨.containment, t, best⟩

/-! ### sketch preparation (`sourmash/minhash.py` helpers) -/

def flattenMH (s : MH) : Except SErr MH :=
  match Py.flatten s with
  | .ok (some f) => .ok f
  | .ok none => .ok s
  | .error e => .error (ofMHErr e)

/-- `flatten_and_downsample_scaled(mh, v)` -/
def flattenAndDownsampleScaled (mh : MH) (v : Nat) : Except SErr MH :=
  if Py.scaledProp mh = 0 then .error .assertion
  else if v = 0 then .error .assertion
  else
    match flattenMH mh with
    | .error e => .error e
    | .ok f => if v > Py.scaledProp f then liftE (Py.downsample f none (some v)) else .ok f

/-- `flatten_and_downsample_num(mh, v)` -/
def flattenAndDownsampleNum (mh : MH) (v : Nat) : Except SErr MH :=
  if mh.num = 0 then .error .assertion
  else if v = 0 then .error .assertion
  else
    match flattenMH mh with
    | .error e => .error e
    | .ok f => if v < f.num then liftE (Py.downsample f (some v) none) else .ok f

/-- `prepare_subject` then `prepare_query` of `Index.find`: `(query', subject')` -/
def prepare (query subj : MH) : Except SErr (MH × MH) :=
  if Py.scaledProp query ≠ 0 then
    match flattenAndDownsampleScaled subj (Py.scaledProp query) with
    | .error e => .error e
    | .ok s' =>
      match flattenAndDownsampleScaled query (Py.scaledProp s') with
      | .error e => .error e
      | .ok q' => .ok (q', s')
  else
    match flattenAndDownsampleNum subj query.num with
    | .error e => .error e
    | .ok s' =>
      match flattenAndDownsampleNum query s'.num with
      | .error e => .error e
      | .ok q' => .ok (q', s')

/-- `intersection_and_union_size`: `TypeError` on incompatible sketches; the FFI maps an
    inner error to `(0, 0)` -/
def iuSize (a b : MH) : Except SErr (Nat × Nat) :=
  match a.checkCompatible b with
  | .error _ => .error .typeErr
  | .ok _ =>
    match a.intersectionSize b with
    | .ok r => .ok r
    | .error _ => .ok (0, 0)

/-! ### `Index.find` (linear) -/

structure Hit where
  idx : Nat
  score : Ratio
deriving DecidableEq, Repr

/-- the score of one (query, subject) pair as `Index.find` computes it -/
def pairScore (m : Mode) (query subj : MH) : Except SErr Ratio :=
  match prepare query subj with
  | .error e => .error e
  | .ok (q', s') =>
    match iuSize q' s' with
    | .error e => .error e
    | .ok (shared, total) => .ok (scoreFn m q'.mins.length shared s'.mins.length total)

/-- the loop of `Index.find` over `signatures_with_location()`; database entries carry their index -/
def findLoop (query : MH) : JS → List (Nat × MH) → Except SErr (JS × List Hit)
  | js, [] => .ok (js, [])
  | js, (i, subj) :: rest =>
    match pairScore js.mode query subj with
    | .error e => .error e
    | .ok r =>
      if js.passes r then
        match findLoop query (js.collect r) rest with
        | .error e => .error e
        | .ok (js', hits) => .ok (js', ⟨i, r⟩ :: hits)
      else findLoop query js rest

/-- `Index.find(search_fn, query)` as a list -/
def findLinear (js : JS) (query : MH) (db : List (Nat × MH)) : Except SErr (JS × List Hit) :=
  match js.checkIsCompatible query with
  | .error e => .error e
  | .ok _ => findLoop query js db

/-- stable insertion for `matches.sort(key=lambda x: -x.score)` -/
def insertDesc (x : Hit) : List Hit → List Hit
  | [] => [x]
  | y :: ys => if ge x.score.toF y.score.toF then x :: y :: ys else y :: insertDesc x ys

def sortDesc (l : List Hit) : List Hit := l.foldr insertDesc []

/-- which `find` a container uses -/
abbrev Finder := JS → MH → Except SErr (JS × List Hit)

/-- `Index.search(query, threshold=, do_containment=, do_max_containment=, best_only=)` -/
def search (find : Finder) (m : Mode) (thr : F) (best : Bool) (query : MH) : Except SErr (List Hit) :=
  match find ⟨m, thr, best⟩ query with
  | .error e => .error e
  | .ok (_, hits) => .ok (sortDesc hits)

/-- `Index.prefetch(query, threshold_bp, best_only=)`; `empty` is `not self` -/
def prefetch (find : Finder) (empty : Bool) (query : MH) (bp : Nat) (best : Bool) : Except SErr (List Hit) :=
  if empty then .error .valueErr
  else
    match makeContainmentQuery query bp best with
    | .error e => .error e
    | .ok js =>
      match find js query with
      | .error e => .error e
      | .ok (_, hits) => .ok hits

/-- the candidates of `best_containment`: the hits of a best-only prefetch with the maximal score
    (the code then takes the one with the smallest md5) -/
def bestContainment (find : Finder) (empty : Bool) (query : MH) (bp : Nat) : Except SErr (List Hit) :=
  match prefetch find empty query bp true with
  | .error e => .error e
  | .ok hits =>
    match sortDesc hits with
    | [] => .ok []
    | h :: _ => .ok (hits.filter (fun x => ge x.score.toF h.score.toF))

/-! ### the list-like containers: what `signatures_with_location()` yields

Every container below inherits `Index.find` (the loop above) and differs only in the list it
iterates; a "location" is carried along with each signature and does not influence the search. -/

/-- one source of signatures (a file, a loaded index) with its location -/
structure Part where
  loc : Nat
  entries : List (Nat × MH)

/-- `LinearIndex.signatures()` : the list itself -/
def sigsLinear (l : List (Nat × MH)) : List (Nat × MH) := l

/-- `LazyLinearIndex.signatures_with_location()` : `self.db.select(**selection_dict)` evaluated at
    search time, then the wrapped database's list -/
def sigsLazy (select : MH → Bool) (l : List (Nat × MH)) : List (Nat × MH) := l.filter (fun e => select e.2)

/-- `ZipFileLinearIndex.signatures()` with a manifest: every file named by `manifest.locations()`,
    each signature kept `if ss in manifest` -/
def sigsZip (files : List Part) (locations : List Nat) (inManifest : MH → Bool) : List (Nat × MH) :=
  locations.flatMap (fun l =>
    match files.find? (fun p => p.loc == l) with
    | some p => p.entries.filter (fun e => inManifest e.2)
    | none => [])

/-- `MultiIndex.signatures_with_location()` : the manifest rows in order (all parts chained), each
    with the internal location of its part -/
def sigsMulti (parts : List Part) : List (Nat × MH) := parts.flatMap (fun p => p.entries)

/-- the location `MultiIndex` reports for an entry -/
def locMulti (parts : List Part) (idx : Nat) : Option Nat :=
  (parts.find? (fun p => p.entries.any (fun e => e.1 == idx))).map (fun p => p.loc)

/-- `StandaloneManifestIndex._signatures_with_internal()` : for each location of the manifest, load
    that file as an index, `select(picklist=manifest.to_picklist())`, yield its signatures -/
def sigsManifest (files : List Part) (locations : List Nat) (picked : MH → Bool) : List (Nat × MH) :=
  locations.flatMap (fun l =>
    match files.find? (fun p => p.loc == l) with
    | some p => p.entries.filter (fun e => picked e.2)
    | none => [])

/-! ### `Index.search_abund` (abundance-weighted search) -/

/-- `search_abund(query, threshold=)`: both sides must track abundances (`TypeError`), the score is
    `query.similarity(subj, downsample=True)` (angular similarity: `sim`, C05's subject), kept when
    `score >= threshold` (no `score != 0` test here), sorted by descending score -/
def searchAbundLoop (sim : MH → MH → Except SErr F) (thr : F) (q : MH) :
    List (Nat × MH) → Except SErr (List (Nat × F))
  | [] => .ok []
  | (i, subj) :: rest =>
    if !subj.trackAbundance then .error .typeErr
    else
      match sim q subj with
      | .error e => .error e
      | .ok score =>
        match searchAbundLoop sim thr q rest with
        | .error e => .error e
        | .ok hits => if ge score thr then .ok ((i, score) :: hits) else .ok hits

def insertDescF (x : Nat × F) : List (Nat × F) → List (Nat × F)
  | [] => [x]
  | y :: ys => if ge x.2 y.2 then x :: y :: ys else y :: insertDescF x ys

def searchAbund (sim : MH → MH → Except SErr F) (thr : F) (q : MH) (db : List (Nat × MH)) :
    Except SErr (List (Nat × F)) :=
  if !q.trackAbundance then .error .typeErr
  else
    match searchAbundLoop sim thr q db with
    | .error e => .error e
    | .ok hits => .ok (hits.foldr insertDescF [])

/-! ### Sequence Bloom Tree -/

/-- an SBT as the search sees it: a leaf holds a signature, an internal node the set its Bloom
    filter answers "present" on, and `min_n_below` (absent in old/sparse trees) -/
inductive Tree where
  | leaf (idx : Nat) (s : MH) : Tree
  | node (filter : List Nat) (minN : Option Nat) (kids : List Tree) : Tree

/-- leaves in `self.leaves()` order is irrelevant for the model except for the first one -/
def Tree.leaves : Tree → List (Nat × MH)
  | .leaf i s => [(i, s)]
  | .node _ _ kids => leavesL kids
where
  leavesL : List Tree → List (Nat × MH)
    | [] => []
    | t :: ts => t.leaves ++ leavesL ts

/-- `Nodegraph.matches(mh)`: number of hashes of the sketch the filter answers "present" on -/
def matchCount (filter : List Nat) (q : MH) : Nat := (q.mins.filter (fun h => filter.contains h)).length

/-- the `select(ksize, moltype, num, scaled, containment)` of `SBT` (ksize / moltype fixed in this model);
    `first` is the first signature of the tree -/
def sbtSelect (first : Option MH) (q : MH) (containment : Bool) : Except SErr Unit :=
  match first with
  | none => .ok ()                 -- nothing to select from: the selection stays empty
  | some db =>
    if containment ∧ Py.scaledProp db = 0 then .error .valueErr
    else if q.num ≠ 0 ∧ db.num = 0 then .error .valueErr
    else if q.num ≠ 0 ∧ q.num ≠ db.num then .error .valueErr
    else if Py.scaledProp q ≠ 0 ∧ Py.scaledProp db = 0 then .error .valueErr
    else if Py.scaledProp q ≠ 0 ∧ Py.scaledProp q > Py.scaledProp db ∧ ¬ containment then .error .valueErr
    else .ok ()

/-- how `SBT.find` prepares the query and the leaves: `(query', downsample_node)` described by the
    target `(scaled?, value)`; `none` = identity -/
structure SbtCtx where
  query : MH
  querySize : Nat
  leafScaled : Option Nat      -- `downsample_node = lambda mh: mh.downsample(scaled=..)`
  leafNum : Option Nat         -- `downsample_node = lambda mh: mh.downsample(num=..)`

def sbtPrepare (first : MH) (q : MH) : Except SErr SbtCtx :=
  let treeScaled := Py.scaledProp first
  if treeScaled ≠ 0 then
    if Py.scaledProp q = 0 then .error .assertion
    else
      let scaled := max (Py.scaledProp q) treeScaled
      let q' : Except SErr MH :=
        if Py.scaledProp q < treeScaled then liftE (Py.downsample q none (some treeScaled)) else .ok q
      match q' with
      | .error e => .error e
      | .ok q' => .ok ⟨q', q'.mins.length, if scaled = treeScaled then none else some scaled, none⟩
  else
    if q.num = 0 then .error .assertion
    else
      let minNum := min q.num first.num
      let q' : Except SErr MH :=
        if q.num > minNum then liftE (Py.downsample q (some minNum) none) else .ok q
      match q' with
      | .error e => .error e
      | .ok q' => .ok ⟨q', q'.mins.length, none, if minNum = first.num then none else some minNum⟩

def SbtCtx.downsampleNode (c : SbtCtx) (s : MH) : Except SErr MH :=
  match c.leafScaled, c.leafNum with
  | some sc, _ => liftE (Py.downsample s none (some sc))
  | none, some n => liftE (Py.downsample s (some n) none)
  | none, none => .ok s

/-- `node_search` on a leaf: the exact score -/
def SbtCtx.leafScore (c : SbtCtx) (m : Mode) (s : MH) : Except SErr Ratio :=
  match c.downsampleNode s with
  | .error e => .error e
  | .ok s1 =>
    match flattenMH s1 with
    | .error e => .error e
    | .ok s2 =>
      match iuSize c.query s2 with
      | .error e => .error e
      | .ok (shared, total) => .ok (scoreFn m c.querySize shared s1.mins.length total)

/-- the subject size `node_search` uses for an internal node: `min_n_below`, unless the leaves are
    compared after downsampling to the query's scaled (`tree_scaled and scaled != tree_scaled`) --
    then `min_n_below`, counted at the tree's scaled, is no lower bound of their size and 1 is used -/
def SbtCtx.nodeSize (c : SbtCtx) (minN : Nat) : Nat := if c.leafScaled.isSome then 1 else minN

/-- `node_search` on an internal node: the (approximate) score used for pruning -/
def SbtCtx.nodeScore (c : SbtCtx) (m : Mode) (filter : List Nat) (minN : Nat) : Ratio :=
  scoreFn m c.querySize (matchCount filter c.query) (c.nodeSize minN) (c.nodeSize minN)

/-- `_find_nodes` with `node_search`: depth first, children pushed to the front of the queue one
    by one (so they are visited last-to-first), threshold threaded through `collect` -/
def sbtWalk (c : SbtCtx) : JS → Tree → Except SErr (JS × List Hit)
  | js, .leaf i s =>
    match c.leafScore js.mode s with
    | .error e => .error e
    | .ok r => if js.passes r then .ok (js.collect r, [⟨i, r⟩]) else .ok (js, [])
  | js, .node filter minN kids =>
    match minN with
    | none => .error .valueErr
    | some n =>
      if js.passes (c.nodeScore js.mode filter n) then walkKids c js kids else .ok (js, [])
where
  /-- the children, last first -/
  walkKids (c : SbtCtx) : JS → List Tree → Except SErr (JS × List Hit)
    | js, [] => .ok (js, [])
    | js, t :: ts =>
      match walkKids c js ts with
      | .error e => .error e
      | .ok (js1, h1) =>
        match sbtWalk c js1 t with
        | .error e => .error e
        | .ok (js2, h2) => .ok (js2, h1 ++ h2)

/-- `SBT.find(search_fn, query)`; `tree = none` is the tree without nodes -/
def findSBT (tree : Option Tree) (first : Option MH) (js : JS) (q : MH) : Except SErr (JS × List Hit) :=
  match js.checkIsCompatible q with
  | .error e => .error e
  | .ok _ =>
    match first with
    | none => .error .runtimeErr          -- `next(iter(self.leaves()))` inside a generator
    | some f =>
      match sbtPrepare f q with
      | .error e => .error e
      | .ok c =>
        match tree with
        | none => .ok (js, [])
        | some t => sbtWalk c js t

/-! ### LCA database -/

/-- `LCA_Database`: `scaled` and the sketches as `insert` stored them (already downsampled to
    `scaled`, flat), keyed by `idx`; the inverted index `_hashval_to_idx` is `idxOf` -/
structure LcaDb where
  scaled : Nat
  entries : List (Nat × MH)

/-- `_hashval_to_idx.get(hashval, [])` -/
def LcaDb.idxOf (db : LcaDb) (h : Nat) : List Nat :=
  (db.entries.filter (fun e => e.2.mins.contains h)).map Prod.fst

/-- `c[idx] += 1` on an insertion-ordered counter -/
def counterIncr : List (Nat × Nat) → Nat → List (Nat × Nat)
  | [], i => [(i, 1)]
  | (j, c) :: rest, i => if i = j then (j, c + 1) :: rest else (j, c) :: counterIncr rest i

/-- stable insertion by count, descending (`Counter.most_common()`) -/
def insertCount (x : Nat × Nat) : List (Nat × Nat) → List (Nat × Nat)
  | [] => [x]
  | y :: ys => if x.2 ≥ y.2 then x :: y :: ys else y :: insertCount x ys

def mostCommon (c : List (Nat × Nat)) : List (Nat × Nat) := c.foldr insertCount []

def LcaDb.select (db : LcaDb) (q : MH) (containment : Bool) : Except SErr Unit :=
  if q.num ≠ 0 then .error .valueErr
  else if Py.scaledProp q > db.scaled ∧ ¬ containment then .error .valueErr
  else .ok ()

def lcaLoop (queryMh : MH) (prepSubject : MH → Except SErr MH) (db : LcaDb) :
    JS → List (Nat × Nat) → Except SErr (JS × List Hit)
  | js, [] => .ok (js, [])
  | js, (idx, _) :: rest =>
    match db.entries.lookup idx with
    | none => lcaLoop queryMh prepSubject db js rest
    | some subj =>
      match prepSubject subj with
      | .error e => .error e
      | .ok subjMh =>
        match liftE (queryMh.countCommon subjMh false), liftE (Py.add queryMh subjMh) with
        | .error e, _ => .error e
        | _, .error e => .error e
        | .ok shared, .ok u =>
          let r := scoreFn js.mode queryMh.mins.length shared subjMh.mins.length u.mins.length
          if js.passes r then
            match lcaLoop queryMh prepSubject db (js.collect r) rest with
            | .error e => .error e
            | .ok (js', hits) => .ok (js', ⟨idx, r⟩ :: hits)
          else lcaLoop queryMh prepSubject db js rest

/-- `LCA_Database.find(search_fn, query)` -/
def findLCA (db : LcaDb) (js : JS) (q : MH) : Except SErr (JS × List Hit) :=
  match js.checkIsCompatible q with
  | .error e => .error e
  | .ok _ =>
    let qs := Py.scaledProp q
    let prep : Except SErr (MH × (MH → Except SErr MH)) :=
      if db.scaled > qs then
        match liftE (Py.downsample q none (some db.scaled)) with
        | .error e => .error e
        | .ok q' => .ok (q', fun x => .ok x)
      else .ok (q, fun s => liftE (Py.downsample s none (some qs)))
    match prep with
    | .error e => .error e
    | .ok (queryMh, prepSubject) =>
      let c := queryMh.mins.foldl (fun c h => (db.idxOf h).foldl counterIncr c) []
      lcaLoop queryMh prepSubject db js (mostCommon c)

/-! ### SQLite index -/

/-- `convert_hash_to`: unsigned 64-bit -> SQLite's signed 64-bit -/
def convTo (x : Nat) : Int := if x > Gen.sqlMaxInt then (x : Int) - 2 ^ 64 else x

/-- `convert_hash_from` -/
def convFrom (x : Int) : Nat := if x < 0 then (x + 2 ^ 64).toNat else x.toNat

/-- `SqliteIndex`: the common `scaled` (none = empty), table `sourmash_hashes (hashval, sketch_id)`
    and the sketches by id -/
structure SqlDb where
  scaled : Option Nat
  rows : List (Int × Nat)
  sketches : List (Nat × MH)

def SqlDb.select (q : MH) : Except SErr Unit :=
  if q.num ≠ 0 then .error .valueErr else .ok ()

/-- `_load_sketch_size(c, sketch_id, max_hash)` -/
def SqlDb.loadSketchSize (db : SqlDb) (id maxHash : Nat) : Nat :=
  if maxHash ≤ Gen.sqlMaxInt then
    (db.rows.filter (fun r => r.2 = id ∧ r.1 ≥ 0 ∧ r.1 ≤ (maxHash : Int))).length
  else
    -- `max_hash` does not fit a signed 64-bit integer: hashes above MAX_SQLITE_INT are stored as
    -- negative numbers, in unsigned order: `hashval >= 0 OR hashval <= convert_hash_to(max_hash)`
    (db.rows.filter (fun r => r.2 = id ∧ (r.1 ≥ 0 ∨ r.1 ≤ convTo maxHash))).length

/-- `_get_matching_sketches(c, hashes, max_hash)`: `(sketch_id, count)` ordered by count descending -/
def SqlDb.matchingSketches (db : SqlDb) (hashes : List Nat) (maxHash : Nat) : Except SErr (List (Nat × Nat)) :=
  match hashes.max? with
  | none => .error .valueErr                  -- `max(hashes)` of an empty sequence
  | some mx =>
    let q := hashes.map convTo
    let maxHash := min maxHash mx
    let cond : Int → Bool := fun hv =>
      if maxHash ≤ Gen.sqlMaxInt then decide (hv ≥ 0 ∧ hv ≤ (maxHash : Int)) else true
    let joined := db.rows.filter (fun r => cond r.1 && q.contains r.1)
    .ok (mostCommon (joined.foldl (fun c r => counterIncr c r.2) []))

def sqlLoop (db : SqlDb) (queryMh : MH) : JS → List (Nat × Nat) → JS × List Hit
  | js, [] => (js, [])
  | js, (id, n) :: rest =>
    let querySize := queryMh.mins.length
    let subjSize := db.loadSketchSize id queryMh.maxHash
    let total := querySize + subjSize - n
    let r := scoreFn js.mode querySize n subjSize total
    if js.passes r then
      let (js', hits) := sqlLoop db queryMh (js.collect r) rest
      (js', ⟨id, r⟩ :: hits)
    else sqlLoop db queryMh js rest

/-- `SqliteIndex.find(search_fn, query)`; `early` = the source has the early return
    `if not query_mh: return` after the query has been downsampled (without it,
    `_get_matching_sketches` takes `max()` of no hashes and raises `ValueError`) -/
def findSqliteV (early : Bool) (db : SqlDb) (js : JS) (q : MH) : Except SErr (JS × List Hit) :=
  match js.checkIsCompatible q with
  | .error e => .error e
  | .ok _ =>
    match db.scaled with
    | none => .error .typeErr                 -- `None > int`
    | some dbScaled =>
      let q' : Except SErr MH :=
        if dbScaled > Py.scaledProp q then liftE (Py.downsample q none (some dbScaled)) else .ok q
      match q' with
      | .error e => .error e
      | .ok queryMh =>
        if early && queryMh.mins.isEmpty then .ok (js, [])
        else
          match db.matchingSketches queryMh.mins queryMh.maxHash with
          | .error e => .error e
          | .ok xx => .ok (sqlLoop db queryMh js xx)

/-- the variant the current source has (read by the translator) -/
def findSqlite (db : SqlDb) (js : JS) (q : MH) : Except SErr (JS × List Hit) :=
  findSqliteV Gen.sqlEmptyQueryReturnsNothing db js q

end Sm.Search
