/-
Decision model of how `sourmash sketch` groups records into signatures and names them
(src/sourmash/command_compute.py: `_compute_individual`, `_compute_merged`, `set_sig_name`;
src/sourmash/command_sketch.py: `_execute_sketch` choosing between them on `args.merge`).

A file is its name and the list of its records (name, sequence); a *unit* is one set of
signatures the command writes: the name it gives them (`none` = the name is left as
`from_params` made it, i.e. empty), the `filename` it records, and the records it fed.
-/
import SmVerif.Model.Generated

namespace Sm.Sketch

structure SeqFile where
  name : List Char
  records : List (List Char × List Nat)

inductive NameMode where
  /-- default: one signature set per input file; `--name-from-first` -/
  | perFile (nameFromFirst : Bool)
  /-- `--singleton`: one per record -/
  | singleton
  /-- `--merge NAME` / `--name NAME` (non-empty): one for everything -/
  | merge (name : List Char)

structure SigUnit where
  name : Option (List Char)
  filename : List Char
  records : List (List Nat)
  /-- the input the unit was read from, as given on the command line (`-` for standard input): what the
      per-file layouts derive the output file name from -/
  source : List Char

/-- `set_sig_name`: standard input is recorded as the empty file name -/
def recordedFilename (filename : List Char) : List Char :=
  if filename = ['-'] then [] else filename

/-- `_compute_individual` for one file.  A file without records is skipped
    (`if not screed_iter: continue`). -/
def unitsOfFile (singleton nameFromFirst : Bool) (f : SeqFile) : List SigUnit :=
  match f.records with
  | [] => []
  | first :: rest =>
    if singleton then
      (first :: rest).map (fun r => ⟨some r.1, recordedFilename f.name, [r.2], f.name⟩)
    else
      -- `name = record.name` only for n = 0, only with --name-from-first
      [⟨if nameFromFirst then some first.1 else none, recordedFilename f.name,
        (first :: rest).map Prod.snd, f.name⟩]

def lastName (files : List SeqFile) : List Char :=
  match files.getLast? with
  | some f => f.name
  | none => []

/-- the signature sets the command writes, in order -/
def plan (mode : NameMode) (files : List SeqFile) : List SigUnit :=
  match mode with
  | .perFile nff => files.flatMap (unitsOfFile false nff)
  | .singleton => files.flatMap (unitsOfFile true false)
  | .merge nm =>
    -- `_compute_merged`: nothing is written when no record was read; `filename` is the loop
    -- variable after the loop, i.e. the LAST input file (even if that file was empty)
    let all := files.flatMap (fun f => f.records.map Prod.snd)
    if all.isEmpty then [] else [⟨some nm, recordedFilename (lastName files), all, lastName files⟩]

/-! ### where the signatures go: `-o FILE`, `--output-dir DIR`, or next to nothing (cwd) -/

inductive OutMode where
  /-- `-o FILE`: everything into one file, in order -/
  | single
  /-- `--output-dir DIR` (`existing` = the directory exists; it is not created) -/
  | dir (existing : Bool)
  /-- neither: `basename(input) + ".sig"` in the current directory -/
  | cwd
deriving DecidableEq, Repr

/-- `os.path.basename` -/
def basename (p : List Char) : List Char :=
  (p.reverse.takeWhile (· ≠ '/')).reverse

inductive OutErr where
  /-- "must specify -o with --merge" / "--output-dir doesn't make sense with -o": `sys.exit(-1)` -/
  | exit
  /-- the output directory does not exist: `FileNotFoundError` when the first file is closed -/
  | noDir
deriving DecidableEq, Repr

/-- the output file each signature set lands in, in order -/
def planOutputs (mode : NameMode) (o : OutMode) (files : List SeqFile) :
    Except OutErr (List (List Char × SigUnit)) :=
  match mode, o with
  | .merge _, .single => .ok ((plan mode files).map (fun u => ("out.sig".toList, u)))
  | .merge _, _ => .error .exit
  | _, .single => .ok ((plan mode files).map (fun u => ("out.sig".toList, u)))
  | _, .dir ex =>
    let us := plan mode files
    -- whether `_compute_individual` creates the directory (patches/C14.2) is read from the source by the translator
    if us.isEmpty then .ok [] else if !(ex || Gen.sketchCreatesOutdir) then .error .noDir
    else .ok (us.map (fun u => ("outd/".toList ++ basename u.source ++ ".sig".toList, u)))
  | _, .cwd => .ok ((plan mode files).map (fun u => (basename u.source ++ ".sig".toList, u)))

/-- `_compute_individual`, per-file layouts (`--output-dir` / current directory): an input whose output file
    already exists is skipped before it is opened, unless `--force` is given; with `-o` and with `--merge` the
    existing file plays no role -/
def skipExisting (mode : NameMode) (o : OutMode) (force : Bool) (existing : SeqFile → Bool) (files : List SeqFile) :
    List SeqFile :=
  match mode, o with
  | .merge _, _ => files
  | _, .single => files
  | _, _ => if force then files else files.filter (fun f => !existing f)

end Sm.Sketch
