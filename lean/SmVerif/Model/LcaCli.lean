/-
Executable model of the command-line layer of `sourmash lca`: `summarize_main` /
`load_singletons_and_count` / `count_signature` / `output_csv` (command_summarize.py),
`classify` (command_classify.py), `make_lca_counts` / `rankinfo_main`
(command_rankinfo.py), `compare_csv` (command_compare_csv.py), and the lineage
helpers `zip_lineage` / `display_lineage` / `is_lineage_match` / `make_lineage` of
lca_utils.py.  What a command prints is modelled up to the rows of its CSV / stdout
tables (counts, status, the eight rank names), not the human-readable percentages.
-/
import SmVerif.Model.LcaIndex

namespace Sm.LcaCli

open Sm.Lin Sm.Lca Sm.Dict

/-- `zip_lineage(lineage, truncate_empty=)`: the names along `taxlist()`; `none` = the
    `ValueError("incomplete lineage …")` for a pair whose rank is not the rank of its position -/
def zipLineage (lin : Lineage) (truncate : Bool) : Option (List Nat) :=
  -- zip_longest(taxlist(), lineage, fillvalue=empty): `some p` is a pair of the lineage, `none` the fill value
  let n := max nRanks lin.length
  let pairs : List (Option Nat × Option Key) :=
    (List.range n).map (fun i => (if i < nRanks then some i else none, lin[i]?))
  let pairs := if truncate then (pairs.reverse.dropWhile (fun p => p.2.isNone)).reverse else pairs
  pairs.mapM (fun p => match p.2 with
    | none => some 0
    | some k => if p.1 = some k.1 then some k.2 else none)

/-- `is_lineage_match(lin_a, lin_b, rank)`; `none` = the `AssertionError` on ranks that differ -/
def isLineageMatch : Lineage → Lineage → Nat → Option Nat
  | a :: as, b :: bs, rank =>
    if a.1 ≠ b.1 then none
    else if a.1 = rank ∧ a = b then some 1
    else if a ≠ b then some 0
    else isLineageMatch as bs rank
  | _, _, _ => some 0

/-- `RankLineageInfo(lineage=a).find_lca(RankLineageInfo(lineage=b))` on lineages along `taxlist()`: the deepest
    rank filled in both down to which the two lineages are equal, i.e. their longest common prefix (`none` when
    they differ at the first rank or one is empty) -/
def commonPrefix : Lineage → Lineage → Lineage
  | a :: as, b :: bs => if a = b then a :: commonPrefix as bs else []
  | _, _ => []

def rankLineageLca (a b : Lineage) : Option Lineage :=
  let p := commonPrefix a b
  if p.isEmpty then none else some p

/-- `make_lineage("a;b;c")`: split at `;` (at `,` when there is no `;`), zip with `taxlist()` -/
def makeLineage (names : List Nat) : Lineage := (List.range nRanks).zip names

/-- the stream's abundance of a hash -/
def abundOf (h : Nat) : Nat := h % 5 + 1

/-- `count_signature(sig, scaled, hashvals)` on a fresh `hashvals` -/
def countSignature (sg : Sig) (scaled : Nat) : Option (List (Nat × Nat)) :=
  match sg.downTo scaled with
  | .error _ => none
  | .ok hs => some (hs.map (fun h => (h, if sg.track then abundOf h else 1)))

inductive Out where
  | ok (text : String)
  | exc (name : String)
  | exit (code : Int)

/-- one row of `output_csv`: count and the eight names -/
def csvRows (agg : List (Lineage × Nat)) : Option (List (List Nat × Nat)) :=
  agg.mapM (fun p => (zipLineage p.1 false).map (fun names => (names, p.2)))

/-- `summarize` + totals for one query signature: the rows of the CSV and `total_counts` -/
def summarizeOne (look : Nat → List (List Lineage)) (thr : Nat) (ign : Bool) (scaled : Nat) (sg : Sig) :
    Except String (List (Lineage × Nat) × Nat) :=
  match countSignature sg scaled with
  | none => .error "ValueError"
  | some hashvals =>
    match summarizeWith look hashvals thr ign with
    | .error _ => .error "ValueError"
    | .ok agg =>
      let total := if ign then hashvals.length else (hashvals.map Prod.snd).sum
      .ok (agg, total)

/-- `classify` for one query signature: downsample to the databases' scaled, `classify_signature` -/
def classifyOne (look : Nat → List (List Lineage)) (thr : Nat) (maj : Bool) (scaled : Nat) (sg : Sig) :
    Except String (Lineage × Status) :=
  let hs : Option (List Nat) :=
    if sg.scaled ≠ scaled then (match sg.downTo scaled with | .ok h => some h | .error _ => none) else some sg.hashes
  match hs with
  | none => .error "ValueError"
  | some hs => match classifyWith look hs thr maj with
    | .ok r => .ok r
    | .error _ => .error "ValueError"

/-- `make_lca_counts` + the per-rank totals of `rankinfo_main`: `none` = "(no hashvals with lineages found)" -/
def rankinfo (hashvalsOf : List (List Nat)) (look : Nat → Nat → List (List Lineage)) (minNum : Nat) :
    Option (List Nat) :=
  -- assignments[hashval].update(lineages) over the databases, in database order
  let asg := (hashvalsOf.zipIdx).foldl (fun asg (hd : List Nat × Nat) =>
    hd.1.foldl (fun asg h =>
      let lins := ((look minNum h)[hd.2]?).getD []
      if lins.isEmpty then asg else set asg h (updateSet ((get? asg h).getD []) lins)) asg) []
  let counts := asg.foldl (fun c (a : Nat × List Lineage) => bump c (lcaOf a.2).1 1) []
  let byRank := counts.foldl (fun (d : List (Nat × Nat)) (p : Lineage × Nat) =>
    match p.1.getLast? with
    | some k => set d k.1 ((get? d k.1).getD 0 + p.2)
    | none => d) []
  if (vals byRank).sum = 0 then none
  else some ((List.range nRanks).map (fun r => (get? byRank r).getD 0))

/-- `compare_csv`: for the identifiers of both spreadsheets whose lineages differ: compatible (one is an
    ancestor of the other) or not, and the LCA -/
def compareCsv (a0 a1 : List (String × Lineage)) : Option (List (String × Bool × List Nat)) :=
  (a0.filter (fun p => (get? a1 p.1).isSome ∧ get? a1 p.1 ≠ some p.2)).mapM (fun p =>
    let r := lcaOf [p.2, (get? a1 p.1).getD []]
    (zipLineage r.1 false).map (fun names => (p.1, decide (r.2 = 0), names)))

/-! ### the lineage table of an LCA SQLite database: `MultiLineageDB.save` / `LineageDB_Sqlite` -/

/-- `MultiLineageDB.items()` after `add(A); add(B)`: the later database first, identifiers seen once -/
def taxMerge (a b : List (String × Lineage)) : List (String × Lineage) :=
  b ++ a.filter (fun p => !(contains b p.1))

/-- `LineageDB_Sqlite.available_ranks`: rank `j` is available when the column `columns[j]` holds a non-empty name;
    names are stored by position in the order of the INSERT statement -/
def availableRanks (rows : List (List Nat)) : List Nat :=
  (List.range nRanks).filter (fun j => match Gen.sqlTaxColumns[j]? with
    | some c => rows.any (fun r => r.getD (Gen.sqlTaxInsert.findIdx (· == c)) 0 != 0)
    | none => false)

/-- save as SQL, load, read every identifier back: `none` = more names than columns -/
def taxSqlRoundTrip (asg : List (String × Lineage)) : Option (List Nat × List (String × Lineage)) :=
  if asg.any (fun p => p.2.length > nRanks) then none
  else
    let rows := asg.map (fun p => sqlTaxRow p.2)
    some (availableRanks rows, asg.map (fun p => (p.1, sqlTaxLineage (sqlTaxRow p.2))))

/-- `_save_csv`: names by rank NAME (`row[t.rank] = t.name`, later pairs win), absent ranks empty;
    `none` = a rank that is not a column (`ValueError` of `csv.DictWriter`) -/
def taxCsvRows (asg : List (String × Lineage)) : Option (List (String × List Nat)) :=
  asg.mapM (fun p =>
    if p.2.any (fun k => k.1 ≥ nRanks) then none
    else
      let d := p.2.foldl (fun d (k : Key) => set d k.1 k.2) ([] : List (Nat × Nat))
      some (p.1, (List.range nRanks).map (fun r => (get? d r).getD 0)))

end Sm.LcaCli
