/-
Driver for the `json` correspondence stream (C09): a table of Python-level
objects (MinHash / FrozenMinHash / SourmashSignature / FrozenSourmashSignature)
and a table of documents; one operation per line.

Token syntax (shared with harness/adapters/json_impl.py):
  strings      x<hex of the UTF-8 bytes>          (the empty string is `x`)
  Fld          `-` absent, `~` null, `!` wrong type, otherwise the value
  lists        decimal naturals joined by `,` (empty list = empty token)
  md5 strings  P<ksize>:<mins>  (the md5 of that pre-image; the harness applies md5)
               R<hex>           (any other string)
-/
import SmVerif.Model.SigJson
import SmVerif.Model.JsonText
import SmVerif.Model.Proto

namespace Sm.DriverJson

open Sm.Proto Sm.SigJson

inductive Obj where
  | mh (s : Sk) (frozen : Bool)
  | sig (s : Sig) (frozen : Bool)
deriving Inhabited

/-- a document handle: a field-level document (and whether its bytes are gzip), or raw bytes with
    what inflating them gives (`none`: not asked; `some none`: damaged / not text) -/
inductive DocE where
  | fields (d : Doc) (gz : Bool)
  | blob (b : List Nat) (g1 g2 : JsonText.Stream)
deriving Inhabited

structure St where
  objs : Array (Option Obj)
  docs : Array (Option DocE)
deriving Inhabited

def init : St := { objs := Array.replicate 512 none, docs := Array.replicate 64 none }

def getObj (st : St) (i : Nat) : Option Obj := (st.objs[i]?).join
def putObj (st : St) (i : Nat) (o : Obj) : St := { st with objs := st.objs.setIfInBounds i (some o) }
def getDoc (st : St) (i : Nat) : Option DocE := (st.docs[i]?).join
def putDoc (st : St) (i : Nat) (d : DocE) : St := { st with docs := st.docs.setIfInBounds i (some d) }

/-! ### tokens -/

def stripPrefix (p s : String) : Option String :=
  let pl := p.toList
  let sl := s.toList
  if pl.isPrefixOf sl then some (String.ofList (sl.drop pl.length)) else none

def hexVal (c : Char) : Option Nat :=
  if '0' ≤ c ∧ c ≤ '9' then some (c.toNat - 48)
  else if 'a' ≤ c ∧ c ≤ 'f' then some (c.toNat - 87)
  else none

def unhex : List Char → Option (List UInt8)
  | [] => some []
  | a :: b :: r => do
    let x ← hexVal a
    let y ← hexVal b
    let t ← unhex r
    pure (UInt8.ofNat (x * 16 + y) :: t)
  | _ => none

def hexDigit (n : Nat) : Char := if n < 10 then Char.ofNat (48 + n) else Char.ofNat (87 + n)

def hexOfBytes (bs : List UInt8) : String :=
  String.ofList (bs.flatMap (fun b => [hexDigit (b.toNat / 16), hexDigit (b.toNat % 16)]))

def hexOfStr (s : String) : String := hexOfBytes s.toUTF8.toList

/-- `x<hex>` -/
def str? (t : String) : Option String := do
  let h ← stripPrefix "x" t
  let bs ← unhex h.toList
  String.fromUTF8? (ByteArray.mk bs.toArray)

def showStr (s : String) : String := "x" ++ hexOfStr s

def natList? (t : String) : Option (List Nat) :=
  if t = "" then some [] else (t.splitOn ",").mapM nat?

def fld? {α : Type} (p : String → Option α) (t : String) : Option (Fld α) :=
  if t = "-" then some .absent
  else if t = "~" then some .null
  else if t = "!" then some .bad
  else (p t).map .val

def md5? (t : String) : Option Md5 :=
  match stripPrefix "P" t with
  | some r =>
    match r.splitOn ":" with
    | [k, ms] => do pure (.pre ⟨← nat? k, ← natList? ms⟩)
    | _ => none
  | none =>
    match stripPrefix "R" t with
    | some h => do
      let bs ← unhex h.toList
      let s ← String.fromUTF8? (ByteArray.mk bs.toArray)
      pure (.raw s)
    | none => none

def showMd5 : Md5 → String
  | .pre d => s!"P{d.ksize}:{joinNats d.mins}"
  | .raw s => "R" ++ hexOfStr s

def showFld {α : Type} (f : α → String) : Fld α → String
  | .absent => "-"
  | .null => "~"
  | .bad => "!"
  | .val a => f a

/-- `key=value` -/
def kv (key tok : String) : Option String := stripPrefix (key ++ "=") tok

/-! ### documents on the wire -/

def skRec? (ws : List String) : Option SkRec :=
  match ws with
  | [num, ksize, seed, mx, mins, md5, ab, mol] => do
    pure { num := ← fld? nat? (← kv "num" num), ksize := ← fld? nat? (← kv "ksize" ksize),
           seed := ← fld? nat? (← kv "seed" seed), maxHash := ← fld? nat? (← kv "mh" mx),
           mins := ← fld? natList? (← kv "mins" mins), md5sum := ← fld? md5? (← kv "md5" md5),
           abundances := ← fld? natList? (← kv "ab" ab), molecule := ← fld? str? (← kv "mol" mol) }
  | _ => none

/-- parse `n` sketch records, each introduced by the token `K` -/
def skRecs? : Nat → List String → Option (List SkRec × List String)
  | 0, ws => some ([], ws)
  | n + 1, "K" :: ws => do
    let r ← skRec? (ws.take 8)
    let (rs, rest) ← skRecs? n (ws.drop 8)
    pure (r :: rs, rest)
  | _, _ => none

def sigRec? (ws : List String) : Option (SigRec × List String) :=
  match ws with
  | "S" :: cls :: email :: hf :: fn :: name :: lic :: ver :: nsk :: rest => do
    let nskv ← kv "nsk" nsk
    let (sigs, rest) ←
      if nskv = "-" then some (Fld.absent, rest)
      else if nskv = "~" then some (Fld.null, rest)
      else if nskv = "!" then some (Fld.bad, rest)
      else do
        let n ← nat? nskv
        let (rs, rest) ← skRecs? n rest
        pure (Fld.val rs, rest)
    pure ({ cls := ← fld? str? (← kv "cls" cls), email := ← fld? str? (← kv "email" email),
            hashFunction := ← fld? str? (← kv "hf" hf), filename := ← fld? str? (← kv "fn" fn),
            name := ← fld? str? (← kv "name" name), license := ← fld? str? (← kv "lic" lic),
            signatures := sigs, version := ← fld? str? (← kv "ver" ver) }, rest)
  | _ => none

def sigRecs? : Nat → List String → Option (List SigRec)
  | 0, [] => some []
  | 0, _ => none
  | n + 1, ws => do
    let (r, rest) ← sigRec? ws
    let rs ← sigRecs? n rest
    pure (r :: rs)

def showSkRec (r : SkRec) : String :=
  s!"K num={showFld toString r.num} ksize={showFld toString r.ksize} seed={showFld toString r.seed} " ++
  s!"mh={showFld toString r.maxHash} mins={showFld joinNats r.mins} md5={showFld showMd5 r.md5sum} " ++
  s!"ab={showFld joinNats r.abundances} mol={showFld showStr r.molecule}"

def showSigRec (r : SigRec) : String :=
  let sk := match r.signatures with
    | .val l => s!"nsk={l.length}" ++ String.join (l.map (fun k => " " ++ showSkRec k))
    | .absent => "nsk=-"
    | .null => "nsk=~"
    | .bad => "nsk=!"
  s!"S cls={showFld showStr r.cls} email={showFld showStr r.email} hf={showFld showStr r.hashFunction} " ++
  s!"fn={showFld showStr r.filename} name={showFld showStr r.name} lic={showFld showStr r.license} " ++
  s!"ver={showFld showStr r.version} {sk}"

def showDoc (d : Doc) (gz : Bool) : String :=
  s!"ok gz={b2s gz} n={d.length}" ++ String.join (d.map (fun r => " " ++ showSigRec r))

/-! ### objects on the wire -/

def errName : Err → String
  | .serde => "SerdeError"
  | .panic => "Panic"
  | .value => "ValueError"
  | .assertion => "AssertionError"
  | .internal => "SourmashError"
  | .niffler => "NifflerError"
  | .mh .pyType => "TypeError"
  | .mh .pyRuntime => "RuntimeError"
  | .mh .frozen => "TypeError"
  | .mh _ => "ValueError"

def strictlyAscending : List Nat → Bool
  | [] => true
  | [_] => true
  | a :: b :: r => decide (a < b) && strictlyAscending (b :: r)

/-- `Py.hashes`, short-cut for strictly ascending mins (`SigJson.hashes_eq_pairs`) -/
def hashesFast (m : MH) : List (Nat × Nat) :=
  if strictlyAscending m.mins && (match m.abunds with | some ab => ab.length == m.mins.length | none => true)
  then m.pairs else Py.hashes m

def showPairs (ps : List (Nat × Nat)) : String := ",".intercalate (ps.map (fun p => s!"{p.1}:{p.2}"))

def showMHFields (s : Sk) : String :=
  let m := s.mh
  let k := match Py.ksizeProp m with
    | .ok k => toString k
    | .error _ => "!"
  s!"mol={Sk.molName m.hf} k={k} seed={m.seed} num={m.num} mx={m.maxHash} sc={Sm.Py.scaledProp m} " ++
  s!"tr={b2s m.trackAbundance} n={m.mins.length} md5={showMd5 s.md5sum.2} hs={showPairs (hashesFast m)}"

def showObj : Obj → String
  | .mh s fr => s!"ok mh fr={b2s fr} {showMHFields s}"
  | .sig s fr =>
    match s.sketches with
    | sk :: _ =>
      s!"ok sig fr={b2s fr} nsk={s.sketches.length} name={showStr (Py.nameOf s)} fn={showStr (Py.filenameOf s)} lic={showStr s.license} " ++
      showMHFields sk
    | [] => "err SourmashError"

def fin (st : St) (r : Nat) (x : Except Err Obj) : St × String :=
  match x with
  | .ok o => (putObj st r o, showObj o)
  | .error e => (st, "err " ++ errName e)

/-- `pickleMH` with the `hashes` short-cut -/
def pickleMHFast (m : MH) : Except Err MH := do
  let k ← Py.ksizeProp m
  let kState := if m.hf = 1 then k else k * 3
  pure (Sm.Py.setState m.num kState (Py.hfOfFlags (Py.flagsOf m.hf)) m.seed m.trackAbundance m.maxHash (hashesFast m))

def pickleSigFast (s : Sig) : Except Err Sig := do
  let mh ← firstMh s
  let m ← pickleMHFast mh.mh
  pure (Py.mkSig (Sk.ofMH m) (Py.nameOf s) (Py.filenameOf s))

/-- place the results of a load into consecutive handles -/
def putAll (st : St) (r : Nat) : List Sig → St
  | [] => st
  | s :: ss => putAll (putObj st r (.sig s true)) (r + 1) ss

def viaData (via : String) (d : Doc) (lit : Bool) : Option Py.PyData :=
  -- the model never sees JSON text: whether the text contains the sniffed literal is
  -- `docMentions` (see SigJson.lean); a text is represented by a stand-in with the same answer
  let text : List Char := if Py.docMentions d then "[".toList ++ Gen.sniffLiteral.toList else "[".toList
  match via with
  | "str" => some (.str text false)
  | "bytes" => some (.bytes (text.map Char.toNat) false)
  | "gz" => some (.bytes (Gen.gzipMagic ++ [8]) false)
  | "path" => some (.str (if lit then "/p/a_".toList ++ Gen.sniffLiteral.toList else "/p/a".toList) true)
  | "ftext" => some .fileLike
  | "ftexttmp" => some .fileLike
  | "fbin" => some .fileLike
  | "fgz" => some .fileLike
  | _ => none

/-- stand-in for the md5 hex string of a pre-image in rendered text (private-use delimiters; the
    generator never puts them into names) -/
def md5Marker (d : Digest) : List Char :=
  Char.ofNat 0xE000 :: ((toString d.ksize ++ ":" ++ joinNats d.mins).toList ++ [Char.ofNat 0xE001])

/-- rendered text as `|`-separated segments: `H<hex of UTF-8>` and `P<k>:<mins>` (an md5 to be applied) -/
def showText (cs : List Char) : String :=
  let flush (cur : List Char) (segs : List String) : List String :=
    if cur.isEmpty then segs else ("H" ++ hexOfStr (String.ofList cur.reverse)) :: segs
  let rec go (cs : List Char) (cur : List Char) (inMark : Bool) (segs : List String) : List String :=
    match cs with
    | [] => (flush cur segs).reverse
    | c :: r =>
      if c = Char.ofNat 0xE000 then go r [] true (flush cur segs)
      else if c = Char.ofNat 0xE001 && inMark then go r [] false (("P" ++ String.ofList cur.reverse) :: segs)
      else go r (c :: cur) inMark segs
  "|".intercalate (go cs [] false [])

/-- `-` (not gzip: never looked at), `h<hex>` inflated bytes, `!<hex>` the bytes delivered before the
    stream fails -/
def gzTok? (t : String) : Option JsonText.Stream :=
  if t = "-" then some ⟨[], false⟩
  else match stripPrefix "h" t with
    | some h => (unhex h.toList).map (fun bs => ⟨bs.map UInt8.toNat, false⟩)
    | none =>
      match stripPrefix "!" t with
      | some h => (unhex h.toList).map (fun bs => ⟨bs.map UInt8.toNat, true⟩)
      | none => none

def textOfBytes (b : List Nat) : Option (List Char) :=
  (String.fromUTF8? (ByteArray.mk (b.map UInt8.ofNat).toArray)).map String.toList

/-- the same document read field by field and read from its text: must agree (modulo md5 strings,
    which the reader no longer trusts) -/
def routesAgree (doc : Doc) : Bool :=
  let a := decodeDoc doc
  let b := JsonText.readText (JsonText.printJV (JsonText.docRecJV md5Marker doc))
  let strip (l : List Sig) : List Sig :=
    l.map (fun s => { s with sketches := s.sketches.map (fun k => { k with raw := none, mh := { k.mh with md5 := none } }) })
  match a, b with
  | .ok x, .ok (y, h) => h == 0 && strip x == strip y
  | .error e, .error f => errName e == errName f
  | _, _ => false

def step (st : St) (line : String) : St × String :=
  let bad := (st, "bad-op")
  match words line with
  | "#" :: _ => (init, "#")
  | "mh" :: r :: hf :: k :: seed :: num :: scaled :: track :: ps =>
    match nats? [r, hf, k, seed, num, scaled], bool? track, pairs? ps with
    | some [r, hf, k, seed, num, scaled], some tr, some ps =>
      let x : Except Err Obj := do
        let m ← Py.mkMH num k (Py.flagsOf hf) seed tr 0 scaled
        let m ← if tr then Py.liftMH (Sm.Py.setAbundances m ps true) else pure (m.addMany (ps.map Prod.fst))
        pure (.mh (Sk.ofMH m) false)
      fin st r x
    | _, _, _ => bad
  | ["sig", r, h, name, fname] =>
    match nats? [r, h], str? name, str? fname with
    | some [r, h], some name, some fname =>
      match getObj st h with
      | some (.mh s _) => fin st r (.ok (.sig (Py.mkSig s name fname) false))
      | _ => bad
    | _, _, _ => bad
  | ["getmh", r, h] =>
    match nats? [r, h] with
    | some [r, h] =>
      match getObj st h with
      | some (.sig s _) => fin st r ((firstMh s).map (fun m => .mh m true))
      | _ => bad
    | _ => bad
  | ["copy", r, h] =>
    match nats? [r, h] with
    | some [r, h] =>
      match getObj st h with
      | some (.mh s false) => fin st r ((Py.copyMH s.mh).map (fun m => .mh (Sk.ofMH m) false))
      | some (.mh s true) => fin st r (.ok (.mh s true))
      | some (.sig s false) => fin st r ((Py.copySig s).map (fun x => .sig x false))
      | some (.sig s true) => fin st r (.ok (.sig s true))
      | none => bad
    | _ => bad
  | ["pickle", r, h] =>
    match nats? [r, h] with
    | some [r, h] =>
      match getObj st h with
      | some (.mh s fr) => fin st r ((pickleMHFast s.mh).map (fun m => .mh (Sk.ofMH m) fr))
      | some (.sig s _) => fin st r ((pickleSigFast s).map (fun x => .sig x false))
      | none => bad
    | _ => bad
  | ["tomut", r, h] =>
    match nats? [r, h] with
    | some [r, h] =>
      match getObj st h with
      | some (.mh s false) => fin st r ((Py.copyMH s.mh).map (fun m => .mh (Sk.ofMH m) false))
      | some (.mh s true) => fin st r ((pickleMHFast s.mh).map (fun m => .mh (Sk.ofMH m) false))
      | some (.sig s _) => fin st r ((Py.copySig s).map (fun x => .sig x false))
      | none => bad
    | _ => bad
  | ["tofrozen", r, h] =>
    match nats? [r, h] with
    | some [r, h] =>
      match getObj st h with
      | some (.mh s false) => fin st r ((Py.copyMH s.mh).map (fun m => .mh (Sk.ofMH m) true))
      | some (.mh s true) => fin st r (.ok (.mh s true))
      | some (.sig s false) => fin st r ((Py.copySig s).map (fun x => .sig x true))
      | some (.sig s true) => fin st r (.ok (.sig s true))
      | none => bad
    | _ => bad
  | ["params", r, scaled, num, track, seed, ks] =>
    match nats? [r, scaled, num, seed], bool? track, natList? ks with
    | some [r, scaled, num, seed], some tr, some ks =>
      if ks.isEmpty then bad else fin st r (.ok (.sig (Py.fromParams ks scaled num seed tr) false))
    | _, _, _ => bad
  | ["update", r, h] =>
    match nats? [r, h] with
    | some [r, h] =>
      match getObj st h with
      | some (.sig s true) => fin st r ((Py.copySig s).map (fun x => .sig x true))
      | _ => bad
    | _ => bad
  | ["eq", x, y] =>
    match nats? [x, y] with
    | some [x, y] =>
      let ans (r : Except Err Bool) : St × String :=
        match r with
        | .ok b => (st, s!"ok {b2s b}")
        | .error e => (st, "err " ++ errName e)
      match getObj st x, getObj st y with
      | some (.sig a _), some (.sig b _) => ans (Py.sigEq a b)
      | some (.mh a _), some (.mh b _) => ans (Py.mhEq a.mh b.mh)
      | _, _ => bad
    | _ => bad
  | ["recheck"] => (st, "ok")
  | ["eqp", _, _] => (st, "skip")
  | ["cli", "describe", _] => (st, "skip")
  | ["cli", "split", _] => (st, "skip")
  | "cli" :: sub :: d2 :: d :: rest =>
    match nats? [d2, d] with
    | some [d2, d] =>
      match getDoc st d with
      | some (.fields doc _) =>
        let i : Py.LoadIn := { data := .str "/p/a".toList true, empty := false, bufDoc := none, fileDoc := some doc }
        match Py.loadFromJson i none none true with
        | .error _ => (st, "err CLI")
        | .ok sigs =>
          let outSigs : Option (List Sig) :=
            match sub, rest with
            | "cat", [] => some sigs
            | "rename", [nm] =>
              match str? nm with
              | some name =>
                (sigs.mapM (fun s => match Py.copySig s with
                  | .ok c => some { c with name := some (cstr name) }
                  | .error _ => none))
              | none => none
            | _, _ => none
          match outSigs with
          | some os =>
            let doc2 := encodeDoc os
            (putDoc st d2 (.fields doc2 false), showDoc doc2 false ++ " tx=" ++ showText (JsonText.renderDoc md5Marker os))
          | none => bad
      | _ => bad
    | _ => bad
  | ["show", h] =>
    match nat? h with
    | some h =>
      match getObj st h with
      | some o => (st, showObj o)
      | none => bad
    | none => bad
  | "save" :: d :: c :: _fp :: hs =>
    match nats? [d, c], nats? hs with
    | some [d, c], some hs =>
      match hs.mapM (fun h => match getObj st h with | some (.sig s _) => some s | _ => none) with
      | some sigs =>
        let (doc, gz) := Py.saveToJson sigs c
        (putDoc st d (.fields doc gz), showDoc doc gz ++ " tx=" ++ showText (JsonText.renderDoc md5Marker sigs))
      | none => bad
    | _, _ => bad
  | "doc" :: d :: n :: rest =>
    match nats? [d, n] with
    | some [d, n] =>
      match sigRecs? n rest with
      | some doc => (putDoc st d (.fields doc false), showDoc doc false)
      | none => bad
    | _ => bad
  | ["blob", d, hex, g1, g2] =>
    match nat? d, (stripPrefix "h" hex).bind (fun h => unhex h.toList), gzTok? g1, gzTok? g2 with
    | some d, some bs, some g1, some g2 => (putDoc st d (.blob (bs.map UInt8.toNat) g1 g2), s!"ok blob n={bs.length}")
    | _, _, _, _ => bad
  | ["loadone", r, d, via, k, m] =>
    match nats? [r, d], fld? nat? k, fld? str? m with
    | some [r, d], some k, some m =>
      let k := match k with | .val k => some k | _ => none
      let m := match m with | .val m => some m | _ => none
      match getDoc st d with
      | some (.fields doc _) =>
        match viaData via doc false with
        | some data =>
          let i : Py.LoadIn := { data := data, empty := false, bufDoc := if via = "path" then none else some doc,
                                 fileDoc := if via = "path" then some doc else none }
          match Py.loadOne i k m with
          | .ok s => (putObj st r (.sig s true), showObj (.sig s true))
          | .error e => (st, "err " ++ errName e)
        | none => bad
      | _ => bad
    | _, _, _ => bad
  | ["load", r, d, via, k, m, lit, raise] =>
    match nats? [r, d], fld? nat? k, fld? str? m, bool? lit, bool? raise with
    | some [r, d], some k, some m, some lit, some raise =>
      let k := match k with | .val k => some k | _ => none
      let m := match m with | .val m => some m | _ => none
      let answer (x : Except Err (List Sig)) : St × String :=
        match x with
        | .ok sigs =>
          (putAll st r sigs,
           s!"ok n={sigs.length}" ++ String.join (sigs.map (fun s => " ; " ++ showObj (.sig s true))))
        | .error e => (st, "err " ++ errName e)
      match getDoc st d with
      | some (.fields doc _) =>
        match viaData via doc lit with
        | some data =>
          if !routesAgree doc then (st, "model-split: the field-level and the text-level reader disagree")
          else
            let i : Py.LoadIn := { data := data, empty := false, bufDoc := if via = "path" then none else some doc,
                                   fileDoc := if via = "path" then some doc else none }
            answer (if via = "ftexttmp" then Py.loadFromTextTemp i k m raise else Py.loadFromJson i k m raise)
        | none => bad
      | some (.blob b g1 g2) =>
        let plain := textOfBytes b
        let pathData : Py.PyData := .str (if lit then "/p/a_".toList ++ Gen.sniffLiteral.toList else "/p/a".toList) true
        let gzStandIn : List Nat := Gen.gzipMagic ++ [8, 0, 0]
        -- (what Python sees, the bytes handed to the FFI, their inflation, and that inflated again)
        let cfg : Option (Py.PyData × List Nat × JsonText.Stream × JsonText.Stream) :=
          match via with
          | "bytes" => some (.bytes b false, b, g1, g2)
          | "str" => plain.map (fun cs => (.str cs false, b, g1, g2))
          | "path" => some (pathData, b, g1, g2)
          | "fbin" => some (.fileLike, b, g1, g2)
          | "ftext" => some (.fileLike, b, g1, g2)
          | "ftexttmp" => some (.fileLike, b, g1, g2)
          | "gz" => some (.bytes gzStandIn false, gzStandIn, ⟨b, false⟩, g1)
          | "fgz" => some (.fileLike, gzStandIn, ⟨b, false⟩, g1)
          | _ => none
        match cfg with
        | some (data, content, x1, x2) =>
          if via = "ftexttmp" && Gen.textWrapperDropped then
            answer (if raise then .error .value else .ok [])
          else
            -- `if not data: return` : an empty str / bytes object (a path or a file object is never "empty")
            answer (JsonText.pyLoadWith data ((via == "str" || via == "bytes") && b.isEmpty)
              (JsonText.ffiLoadBytes false content x1 x2 (k.getD 0) m)
              (JsonText.ffiLoadBytes true content x1 x2 (k.getD 0) m) raise)
        | none => bad
      | none => bad
    | _, _, _, _, _ => bad
  | ["sniff", kind, hex, ex] =>
    match (stripPrefix "h" hex).bind (fun h => unhex h.toList), bool? ex with
    | some bs, some ex =>
      let data : Option Py.PyData :=
        match kind with
        | "str" => (String.fromUTF8? (ByteArray.mk bs.toArray)).map (fun s => .str s.toList ex)
        | "bytes" => some (.bytes (bs.map UInt8.toNat) ex)
        | "file" => some .fileLike
        | "other" => some (.other (if ex then some true else none))
        | _ => none
      match data with
      | some data =>
        (st, match Py.detectInputType data with
          | .fileLike => "ok FILE_LIKE"
          | .path => "ok PATH"
          | .buffer => "ok BUFFER"
          | .unknown => "ok UNKNOWN")
      | none => bad
    | _, _ => bad
  | _ => bad

end Sm.DriverJson
