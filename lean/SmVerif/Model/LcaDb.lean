/-
Executable model of `LCA_Database` (src/sourmash/lca/lca_db.py), of
`gather_assignments` / `summarize` / `classify_signature` on top of it, and of
its SQLite twin `LCA_SqliteDatabase` (src/sourmash/index/sqlite_index.py,
created through `save_to_sql` + `LineageDB_Sqlite` of tax_utils.py).

Conventions
* every Python dict is an insertion-ordered association list (`Model/Dict.lean`);
  a Python set is a duplicate-free list in first-insertion order (observations
  that come out of a set are sorted by the protocol).
* a signature is what `insert` reads of it: name, filename, ksize, moltype and the
  keys of `minhash.hashes` together with the sketch's `num` / `scaled`.  That
  `minhash.downsample(scaled=S).hashes` is "the hashes `<= max_hash`" is C01/C03's
  subject; here it is `Sig.downTo`, tied to the code by the correspondence stream
  with hashes at the threshold and at +-1.
* an empty `ident` is `None`/`""` (`if not ident`), an empty lineage is `None`/`()`
  (`if lineage:`).
* a database returned by `load` from JSON is an ordinary database again (its
  `_hashval_to_idx` is a `defaultdict(set)` of sets): it accepts further insertions.
  The idx lists read from JSON become Python sets; their iteration order is a CPython
  artefact, so — as for every set — the model keeps first-insertion order and the
  protocol sorts what comes out of them on both sides.
-/
import SmVerif.Model.Lineage
import SmVerif.Model.Scaled

namespace Sm.Lca

open Sm.Lin Sm.Dict

inductive Err where
  | value | assertion | key | attribute | notImplemented | other
deriving DecidableEq, Repr

structure Sig where
  name : String
  filename : String
  ksize : Nat
  moltype : Nat
  num : Nat
  scaled : Nat
  hashes : List Nat
  md5 : String := ""       -- `sig.md5sum()`: supplied by the harness (md5 itself is not modelled)
  track : Bool := false    -- `track_abundance`; the stream's abundance of hash `h` is `h % 5 + 1`
deriving Repr, DecidableEq, Inhabited

/-- `str(sig)` = `_display_name()`: the name, else the filename, else the first 8 characters of the md5sum -/
def Sig.str (s : Sig) : String :=
  if s.name ≠ "" then s.name else if s.filename ≠ "" then s.filename else String.ofList (s.md5.toList.take 8)

/-- `max_hash` of the sketch `minhash.downsample(scaled=S)` builds: Python computes
    `max_hash`, the constructor turns it into a scaled value, Rust turns that into `max_hash` -/
def insThreshold (S : Nat) : Nat := mhR (scP (mhP S))

/-- the keys of `sig.minhash.downsample(scaled=S).hashes` (`sig.minhash` is frozen:
    same scaled returns the sketch itself) -/
def Sig.downTo (s : Sig) (S : Nat) : Except Err (List Nat) :=
  if S ≠ 0 ∧ s.scaled = S then .ok s.hashes
  else if s.num ≠ 0 then .error .value
  else if s.scaled > S then .error .value
  else .ok (s.hashes.filter (· ≤ insThreshold S))

structure Db where
  ksize : Nat
  scaled : Nat
  moltype : Nat
  nextIndex : Nat
  nextLid : Nat
  identToName : List (String × String)
  identToIdx : List (String × Nat)
  idxToLid : List (Nat × Nat)
  lineageToLid : List (Lineage × Nat)
  lidToLineage : List (Nat × Lineage)
  hashvalToIdx : List (Nat × List Nat)
deriving Repr, DecidableEq, Inhabited

/-- `LCA_Database(ksize, scaled, moltype)` -/
def Db.new (ksize scaled moltype : Nat) : Db :=
  { ksize, scaled, moltype, nextIndex := 0, nextLid := 0, identToName := [], identToIdx := [],
    idxToLid := [], lineageToLid := [], lidToLineage := [], hashvalToIdx := [] }

/-- `__len__` -/
def Db.len (db : Db) : Nat := db.nextIndex

/-- `_get_ident_index(ident, fail_on_duplicate=True)` -/
def Db.getIdentIndex (db : Db) (ident : String) : Except Err (Db × Nat) :=
  match get? db.identToIdx ident with
  | some _ => .error .assertion
  | none =>
    .ok ({ db with nextIndex := db.nextIndex + 1, identToIdx := set db.identToIdx ident db.nextIndex },
         db.nextIndex)

/-- `_get_lineage_id(lineage)` -/
def Db.getLineageId (db : Db) (lineage : Lineage) : Db × Nat :=
  match get? db.lineageToLid lineage with
  | some lid => (db, lid)
  | none =>
    ({ db with nextLid := db.nextLid + 1,
               lineageToLid := set db.lineageToLid lineage db.nextLid,
               lidToLineage := set db.lidToLineage db.nextLid lineage }, db.nextLid)

/-- `for hashval in minhash.hashes: self._hashval_to_idx[hashval].add(idx)` -/
def addHashes (hv : List (Nat × List Nat)) (idx : Nat) : List Nat → List (Nat × List Nat)
  | [] => hv
  | h :: hs => addHashes (set hv h (addSet ((get? hv h).getD []) idx)) idx hs

/-- `insert(sig, ident=, lineage=)`: the database afterwards (mutations made before an
    exception stay) and the result -/
def Db.insert (db : Db) (sig : Sig) (ident : String) (lineage : Lineage) : Db × Except Err Nat :=
  if sig.ksize ≠ db.ksize then (db, .error .value)
  else if sig.moltype ≠ db.moltype then (db, .error .value)
  else match sig.downTo db.scaled with
  | .error _ => (db, .error .value)
  | .ok kept =>
    let ident := if ident = "" then sig.str else ident
    if contains db.identToName ident then (db, .error .value)
    else
      let db := { db with identToName := set db.identToName ident sig.name }
      match db.getIdentIndex ident with
      | .error e => (db, .error e)
      | .ok (db, idx) =>
        let db := if lineage ≠ [] then
            let (db, lid) := db.getLineageId lineage
            { db with idxToLid := set db.idxToLid idx lid }
          else db
        ({ db with hashvalToIdx := addHashes db.hashvalToIdx idx kept }, .ok kept.length)

/-- `self._hashval_to_idx.get(hashval, [])` -/
def Db.idxsOf (db : Db) (h : Nat) : List Nat := (get? db.hashvalToIdx h).getD []

/-- `get_lineage_assignments(hashval, min_num)`; `minNum = 0` is `None` -/
def Db.getLineageAssignments (db : Db) (h : Nat) (minNum : Nat := 0) : Except Err (List Lineage) :=
  let idxs := db.idxsOf h
  if minNum ≠ 0 ∧ idxs.length < minNum then .ok []
  else idxs.foldlM (fun x idx =>
    match get? db.idxToLid idx with
    | none => .ok x
    | some lid => match get? db.lidToLineage lid with
      | some lin => .ok (x ++ [lin])
      | none => .error .key) []

/-- `_idx_to_ident` (cached property): inversion of `_ident_to_idx`, asserting injectivity -/
def Db.idxToIdent (db : Db) : Except Err (List (Nat × String)) :=
  db.identToIdx.foldlM (fun d (p : String × Nat) =>
    if contains d p.2 then .error .assertion else .ok (set d p.2 p.1)) []

/-- `get_identifiers_for_hashval(hashval)` (a missing idx would yield the default `set()`:
    modelled as `KeyError`, unreachable) -/
def Db.getIdentifiers (db : Db) (h : Nat) : Except Err (List String) :=
  match db.idxToIdent with
  | .error e => .error e
  | .ok m => (db.idxsOf h).mapM (fun idx => match get? m idx with
      | some i => .ok i
      | none => .error .key)

/-- `hashvals` -/
def Db.hashvals (db : Db) : List Nat := keys db.hashvalToIdx

/-- threshold of `downsample_scaled` -/
def downThreshold (S : Nat) : Nat := if Gen.lcaDownThrRust then mhR S else mhP S

def downKeep (S k : Nat) : Bool :=
  if Gen.lcaDownStrict then decide (k < downThreshold S) else decide (k ≤ downThreshold S)

/-- `downsample_scaled(scaled)` (in place) -/
def Db.downsampleScaled (db : Db) (S : Nat) : Except Err Db :=
  if S = db.scaled then .ok db
  else if S < db.scaled then .error .value
  else .ok { db with hashvalToIdx := db.hashvalToIdx.filter (fun p => downKeep S p.1), scaled := S }

/-! ### `_signatures` -/

structure SigState where
  temp : List (Nat × List Nat)      -- temp_vals
  mhd : List (Nat × List Nat)       -- mhd: idx -> ascending hashes of the MinHash
deriving Repr

/-- `mhd[idx].add_many(hs)` on a `MinHash(n=0, scaled=S)` -/
def addManyTo (mhd : List (Nat × List Nat)) (maxHash : Nat) (idx : Nat) (hs : List Nat) :
    List (Nat × List Nat) :=
  set mhd idx (hs.foldl (fun acc h => if h ≤ maxHash then insertAsc acc h else acc)
    ((get? mhd idx).getD []))

/-- body of the inner loop `for idx in idlist` -/
def sigStep (maxHash : Nat) (hashval : Nat) (st : SigState) (idx : Nat) : SigState :=
  let th := (get? st.temp idx).getD [] ++ [hashval]
  if th.length > Gen.lcaSigBatch then
    { temp := erase (set st.temp idx th) idx, mhd := addManyTo st.mhd maxHash idx th }
  else { st with temp := set st.temp idx th }

/-- the two inversion loops of `_signatures`: idx ↦ ascending hashes, for every idx that occurs in
    the inverted index -/
def Db.sketchesCore (db : Db) : List (Nat × List Nat) :=
  let maxHash := mhR db.scaled
  let st := db.hashvalToIdx.foldl (fun st (p : Nat × List Nat) => p.2.foldl (sigStep maxHash p.1) st)
    ({ temp := [], mhd := [] } : SigState)
  st.temp.foldl (fun mhd (p : Nat × List Nat) => addManyTo mhd maxHash p.1 p.2) st.mhd

/-- `for idx in self._idx_to_ident: mhd[idx]`: an idx without entry gets an empty sketch -/
def touchAll (mhd : List (Nat × List Nat)) (idxs : List Nat) : List (Nat × List Nat) :=
  idxs.foldl (fun m i => if contains m i then m else set m i []) mhd

/-- `_signatures` before names are attached: idx ↦ ascending hashes, in `mhd` order; the idx
    of every inserted signature is present (the keys of `_idx_to_ident` are the values of
    `_ident_to_idx`, in that order) -/
def Db.sketches (db : Db) : List (Nat × List Nat) :=
  touchAll db.sketchesCore (vals db.identToIdx)

/-- `_signatures`: idx ↦ (name, hashes) -/
def Db.signatures (db : Db) : Except Err (List (Nat × String × List Nat)) :=
  match db.idxToIdent with
  | .error e => .error e
  | .ok m => db.sketches.mapM (fun (p : Nat × List Nat) =>
      match get? m p.1 with
      | none => .error .key
      | some ident => match get? db.identToName ident with
        | none => .error .key
        | some name => .ok (p.1, name, p.2))

/-! ### JSON -/

/-- `save_to_json`: a protein / dayhoff / hp database (moltype ≠ 0) stores `ksize * 3` -/
def jsonSaveKsize (moltype ksize : Nat) : Nat := if moltype ≠ 0 then ksize * 3 else ksize

/-- `load`: `ksize = int(ksize / 3)` for a non-DNA moltype (after `assert ksize % 3 == 0`) -/
def jsonLoadKsize (moltype stored : Nat) : Nat := if moltype ≠ 0 then stored / 3 else stored

/-- what `load` makes of one stored lineage: a dict rank ↦ name (later pairs win), read out
    along `taxlist()` with `""` for absent ranks -/
def jsonLineage (l : Lineage) : Lineage :=
  let d := l.foldl (fun d (p : Key) => set d p.1 p.2) ([] : List (Nat × Nat))
  (List.range nRanks).map (fun r => (r, (get? d r).getD 0))

/-- `load(save_to_json(db))` for a DNA database -/
def Db.jsonRoundTrip (db : Db) : Db :=
  let l2l := db.lidToLineage.map (fun p => (p.1, jsonLineage p.2))
  { ksize := jsonLoadKsize db.moltype (jsonSaveKsize db.moltype db.ksize), scaled := db.scaled,
    moltype := db.moltype,
    lidToLineage := l2l.foldl (fun d p => set d p.1 p.2) [],
    lineageToLid := l2l.foldl (fun d p => set d p.2 p.1) [],
    hashvalToIdx := db.hashvalToIdx,
    identToName := db.identToName,
    identToIdx := db.identToIdx,
    idxToLid := db.idxToLid,
    nextIndex := nextAfter (vals db.identToIdx),
    nextLid := nextAfter (vals db.idxToLid) }

/-! ### gather / summarize / classify over a list of databases -/

/-- `gather_assignments(hashvals, dblist)` with the lineage lookup abstracted -/
def gatherWith (look : Nat → List (List Lineage)) (hashvals : List Nat) : List (Nat × List Lineage) :=
  hashvals.foldl (fun asg h =>
    (look h).foldl (fun asg lins =>
      if lins.isEmpty then asg else set asg h (updateSet ((get? asg h).getD []) lins)) asg) []

/-- the answers of a list of in-memory databases for one hash (`lca_db.get_lineage_assignments(hashval)`
    for `lca_db in dblist`) -/
def lookDbs (dbs : List Db) (h : Nat) : List (List Lineage) :=
  dbs.map (fun db => match db.getLineageAssignments h with
    | .ok l => l
    | .error _ => [])

/-- `command_summarize.summarize(hashvals, dblist, threshold, ignore_abundance)`; `hashvals` is the
    dict hash ↦ count -/
def summarizeWith (look : Nat → List (List Lineage)) (hashvals : List (Nat × Nat)) (threshold : Nat)
    (ignoreAbundance : Bool) : Except Lin.Err (List (Lineage × Nat)) :=
  let asg := gatherWith look (keys hashvals)
  let w := if ignoreAbundance || hashvals.isEmpty then none else some hashvals
  match countLca asg w with
  | .ok counts => .ok (aggregate counts threshold)
  | .error e => .error e

/-- `command_classify.classify_signature(query_sig, dblist, threshold, majority)` on the query's hashes -/
def classifyWith (look : Nat → List (List Lineage)) (hashes : List Nat) (threshold : Nat) (majority : Bool) :
    Except Lin.Err (Lineage × Status) :=
  match countLca (gatherWith look hashes) none with
  | .ok counts => .ok (classifyCounts counts threshold majority)
  | .error e => .error e

/-! ### the SQLite twin -/

def MAX_SQLITE_INT : Nat := 2 ^ 63 - 1

structure SqlDb where
  ksize : Nat
  moltype : Nat
  scaled : Nat                                   -- `self.scaled`
  storedScaled : Nat                             -- `scaled` column of `sourmash_sketches`
  rows : List (Nat × String × List Nat)          -- (_id, name, hashes of that sketch_id)
  identToIdx : List (String × Nat)
  idxToLid : List (Nat × Nat)
  lidToLineage : List (Nat × Lineage)
deriving Repr, Inhabited

/-- a row of `sourmash_taxonomy`: the names by position, padded with `""` -/
def sqlTaxRow (l : Lineage) : List Nat := (l.map Prod.snd) ++ List.replicate (nRanks - l.length) 0

/-- `LineageDB_Sqlite.__getitem__`: zip the ranks with the row, strip trailing empty names -/
def sqlTaxLineage (row : List Nat) : Lineage :=
  (((List.range nRanks).zip row).reverse.dropWhile (fun p => p.2 == 0)).reverse

/-- the characters before the first `c` (all of them when there is none): `s.split(c)[0]` on characters -/
def headUntil (c : Char) : List Char → List Char
  | [] => []
  | x :: xs => if x = c then [] else x :: headUntil c xs

/-- `name.split(" ")[0]` -/
def firstWord (s : String) : String := String.ofList (headUntil ' ' s.toList)

/-- `name.split(".")[0]` -/
def dotPrefix (s : String) : String := String.ofList (headUntil '.' s.toList)

structure BuildSt where
  identToIdx : List (String × Nat)
  nextLid : Nat
  idxToLid : List (Nat × Nat)
  lineageToLid : List (Lineage × Nat)
  lidToLineage : List (Nat × Lineage)

/-- `lineage_db.get(ident)` on the taxonomy table -/
def taxLook (tax : List (String × List Nat)) (i : String) : Option Lineage := (get? tax i).map sqlTaxLineage

/-- the identifier and lineage `_build_index` settles on for a (non-empty) signature name: first word
    if a lineage is stored under it, otherwise the prefix before the first '.' -/
def sqlIdentLineage (tax : List (String × List Nat)) (name : String) : String × Option Lineage :=
  match taxLook tax (firstWord name) with
  | some l => (firstWord name, some l)
  | none => (dotPrefix name, taxLook tax (dotPrefix name))

/-- `if lineage: lid = lineage_to_lid.get(lineage) ...; idx_to_lid[idx] = lid` -/
def sqlAssign (st : BuildSt) (idx : Nat) (lineage : Option Lineage) : BuildSt :=
  match lineage with
  | none => st
  | some [] => st
  | some lin =>
    match get? st.lineageToLid lin with
    | some lid => { st with idxToLid := set st.idxToLid idx lid }
    | none =>
      { st with nextLid := st.nextLid + 1,
                lineageToLid := set st.lineageToLid lin st.nextLid,
                lidToLineage := set st.lidToLineage st.nextLid lin,
                idxToLid := set st.idxToLid idx st.nextLid }

/-- loop body of `LCA_SqliteDatabase._build_index` for one manifest row -/
def sqlIndexStep (tax : List (String × List Nat)) (st : BuildSt) (row : Nat × String × List Nat) : BuildSt :=
  if row.2.1 = "" then st
  else
    let il := sqlIdentLineage tax row.2.1
    sqlAssign { st with identToIdx := set st.identToIdx il.1 row.1 } row.1 il.2

/-- `LCA_SqliteDatabase._build_index` over the manifest rows, `tax` being the taxonomy table -/
def sqlBuildIndex (tax : List (String × List Nat)) (rows : List (Nat × String × List Nat)) : BuildSt :=
  rows.foldl (sqlIndexStep tax)
    { identToIdx := [], nextLid := 0, idxToLid := [], lineageToLid := [], lidToLineage := [] }

/-- consecutive row ids (`last_insert_rowid()` of successive `INSERT`s into a fresh table) -/
def numberFrom {α : Type} : Nat → List α → List (Nat × α)
  | _, [] => []
  | k, x :: xs => (k, x) :: numberFrom (k + 1) xs

/-- `save_to_sql`: ident ↦ lineage for the identifiers that have one -/
def Db.sqlAssignments (db : Db) : List (String × Lineage) :=
  db.identToIdx.foldl (fun a (p : String × Nat) =>
    match get? db.idxToLid p.2 with
    | none => a
    | some lid => set a p.1 ((get? db.lidToLineage lid).getD [])) ([] : List (String × Lineage))

/-- `_build_index` when `save_to_sql` recorded the identifiers (`sourmash_lca_idents`): the lineage is
    looked up under the identifier the signature was inserted with, whatever its name -/
def sqlIndexStepI (tax : List (String × List Nat)) (st : BuildSt) (ri : (Nat × String × List Nat) × String) :
    BuildSt :=
  sqlAssign { st with identToIdx := set st.identToIdx ri.2 ri.1.1 } ri.1.1 (taxLook tax ri.2)

def initSt : BuildSt := { identToIdx := [], nextLid := 0, idxToLid := [], lineageToLid := [], lidToLineage := [] }

/-- `LCA_Database.load(db.save(path, format="sql"))`; `stored`: the identifiers are recorded in the file
    (`Gen.sqlStoresIdents`, read from the source by the translator) -/
def Db.toSqlWith (stored : Bool) (db : Db) : Except Err SqlDb :=
  match db.signatures with
  | .error e => .error e
  | .ok sigs =>
    let asg := db.sqlAssignments
    if asg.any (fun p => p.2.length > nRanks) then .error .other
    else if sigs.isEmpty then .error .value
    else
      let tax := asg.map (fun p => (p.1, sqlTaxRow p.2))
      -- SqliteIndex.insert gives consecutive ids starting at 1 (an empty sketch gets a manifest row and no
      -- hash rows); hashes pass a MinHash at the stored scaled
      let rows := (numberFrom 1 sigs).map (fun (q : Nat × Nat × String × List Nat) => (q.1, q.2.2.1, q.2.2.2))
      let st := if stored then
          -- idents = [self._idx_to_ident[idx] for idx in self._signatures]
          let m := match db.idxToIdent with | .ok m => m | .error _ => []
          let idents := sigs.map (fun g => (get? m g.1).getD "")
          (rows.zip idents).foldl (sqlIndexStepI tax) initSt
        else sqlBuildIndex tax rows
      .ok { ksize := db.ksize, moltype := db.moltype, scaled := db.scaled, storedScaled := db.scaled,
            rows := rows, identToIdx := st.identToIdx, idxToLid := st.idxToLid,
            lidToLineage := st.lidToLineage }

def Db.toSql (db : Db) : Except Err SqlDb := db.toSqlWith Gen.sqlStoresIdents

def SqlDb.len (s : SqlDb) : Nat := s.rows.length

/-- is `h` part of the sketches at the current `self.scaled`?  (`honoured`: `downsample_scaled` is
    honoured by the queries, `Gen.sqlDownHonoured`) -/
def SqlDb.visibleWith (honoured : Bool) (s : SqlDb) (h : Nat) : Bool := !honoured || decide (h ≤ mhR s.scaled)

/-- every sketch id holding `h` (SQL row order) -/
def SqlDb.idxsOfAll (s : SqlDb) (h : Nat) : List Nat :=
  s.rows.filterMap (fun r => if r.2.2.contains h then some r.1 else none)

def SqlDb.idxsOfWith (honoured : Bool) (s : SqlDb) (h : Nat) : List Nat :=
  if s.visibleWith honoured h then s.idxsOfAll h else []

/-- `_SqliteIndexHashvalToIndex.get(h)` -/
def SqlDb.idxsOf (s : SqlDb) (h : Nat) : List Nat := s.idxsOfWith Gen.sqlDownHonoured h

def SqlDb.getLineageAssignments (s : SqlDb) (h : Nat) (minNum : Nat := 0) : Except Err (List Lineage) :=
  let idxs := s.idxsOf h
  if minNum ≠ 0 ∧ idxs.length < minNum then .ok []
  else idxs.foldlM (fun x idx =>
    match get? s.idxToLid idx with
    | none => .ok x
    | some lid => match get? s.lidToLineage lid with
      | some lin => .ok (x ++ [lin])
      | none => .error .key) []

/-- `get_identifiers_for_hashval` (`hashval_to_idx.get(hashval, [])`: nothing for a hash nobody
    holds); an idx without ident yields the `defaultdict`'s `set()`, modelled as `none` -/
def SqlDb.getIdentifiers (s : SqlDb) (h : Nat) : Except Err (List (Option String)) :=
  let idxs := s.idxsOf h
  if idxs.isEmpty then .ok []
  else
    let inv := s.identToIdx.foldlM (fun (d : List (Nat × String)) (p : String × Nat) =>
      if contains d p.2 then (.error .assertion : Except Err _) else .ok (set d p.2 p.1)) []
    match inv with
    | .error e => .error e
    | .ok m => .ok (idxs.map (fun idx => get? m idx))

/-- what SQLite stores for a hash (`convert_hash_to`) and what comes back (`convert_hash_from`) -/
def convertHashTo (h : Nat) : Int := if h > MAX_SQLITE_INT then (h : Int) - (2 ^ 64 : Int) else (h : Int)
def convertHashFrom (x : Int) : Nat := if x < 0 then (x + (2 ^ 64 : Int)).toNat else x.toNat

/-- every stored hash value: `SELECT DISTINCT hashval`, each through `convert_hash_from` -/
def SqlDb.hashvalsAll (s : SqlDb) : List Nat :=
  let all := s.rows.foldl (fun acc r => updateSet acc r.2.2) ([] : List Nat)
  all.map (fun h => convertHashFrom (convertHashTo h))

def SqlDb.hashvalsWith (honoured : Bool) (s : SqlDb) : List Nat :=
  s.hashvalsAll.filter (s.visibleWith honoured)

/-- `hashvals` -/
def SqlDb.hashvals (s : SqlDb) : List Nat := s.hashvalsWith Gen.sqlDownHonoured

/-- `downsample_scaled`: only the attribute changes -/
def SqlDb.downsampleScaled (s : SqlDb) (S : Nat) : Except Err SqlDb :=
  if S < s.scaled then .error .value else .ok { s with scaled := S }

/-- every manifest row, hashes through a `MinHash` at the stored scaled -/
def SqlDb.signaturesStored (s : SqlDb) : List (Nat × String × List Nat) :=
  s.rows.map (fun r => (r.1, r.2.1, sortAsc (r.2.2.filter (· ≤ mhR s.storedScaled))))

def SqlDb.signaturesWith (honoured : Bool) (s : SqlDb) : List (Nat × String × List Nat) :=
  if honoured && decide (s.storedScaled < s.scaled) then
    -- `ss.minhash.downsample(scaled=self.scaled)`
    s.signaturesStored.map (fun r => (r.1, r.2.1, r.2.2.filter (· ≤ insThreshold s.scaled)))
  else s.signaturesStored

/-- `signatures()` -/
def SqlDb.signatures (s : SqlDb) : List (Nat × String × List Nat) := s.signaturesWith Gen.sqlDownHonoured

end Sm.Lca
