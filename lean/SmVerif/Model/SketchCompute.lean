/-
Decision model of the deprecated `sourmash compute` command (src/sourmash/command_compute.py:
`compute`, `_signatures_for_compute_factory`; src/sourmash/cli/compute.py: option defaults):
how its options become ONE `ComputeParameters` (hence one signature holding
|ksizes| × |molecule types| sketches per unit), and when it refuses.  Grouping / naming / output
location are `_compute_individual` / `_compute_merged`, textually the same functions `sketch` uses
(the translator checks the copies stay identical): `Model/SketchNames.lean`.
-/
import SmVerif.Model.SketchParams

namespace Sm.Sketch

/-- the value given to `--scaled` (argparse `type=float`, default 0) -/
inductive ScaledArg where
  /-- an integer-valued number ≥ 0 (0 = not given) -/
  | int (n : Nat)
  /-- a number below 1 that is not 0 (incl. negative): "--scaled value must be >= 1" -/
  | below1
  /-- a non-integer ≥ 1: "--scaled value must be integer value" -/
  | fraction
deriving DecidableEq, Repr

structure ComputeArgs where
  ksizes : List Nat := [21, 31, 51]
  dna : Bool := true
  protein : Bool := false
  dayhoff : Bool := false
  hp : Bool := false
  numHashes : Nat := 500
  scaled : ScaledArg := .int 0
  track : Bool := false
  seed : Nat := 42
  inputIsProtein : Bool := false
  licenseCC0 : Bool := true
  hasOutput : Bool := true
  hasOutputDir : Bool := false
  merge : Bool := false
deriving Repr

inductive ComputeExit where
  | license | scaledBelow1 | scaledFraction | scaledTooBig | proteinKsize | nothing | mergeNeedsOutput | outputAndDir
deriving DecidableEq, Repr

/-- `compute(args)` up to the creation of the factory: the parameter set every signature is built
    from, or the reason for `sys.exit(-1)`.  The checks are in the order of the source. -/
def computeParams (a : ComputeArgs) : Except ComputeExit CP :=
  if !a.licenseCC0 then .error .license else
  -- "input is protein, turning off nucleotide hashing"
  let dna := if a.inputIsProtein && a.dna then false else a.dna
  let protein := if a.inputIsProtein && a.dna then true else a.protein
  match (match a.scaled with
      | .below1 => Except.error ComputeExit.scaledBelow1
      | .fraction => .error .scaledFraction
      | .int 0 => .ok (a.numHashes, 0)
      | .int n =>
        match floatOfNat n with
        | none => .error .scaledTooBig          -- not reachable through argparse (inf), kept total
        | some f => .ok (0, f)) with               -- "setting num_hashes to 0 because --scaled is set"
  | .error e => .error e
  | .ok (num, scaled) =>
    if (protein || a.dayhoff || a.hp) && a.ksizes.any (fun k => k % 3 != 0) then .error .proteinKsize
    else if !(dna || protein || a.dayhoff || a.hp) || a.ksizes.isEmpty then .error .nothing
    else if a.merge && !a.hasOutput then .error .mergeNeedsOutput
    else if a.hasOutput && a.hasOutputDir then .error .outputAndDir
    else .ok { ksizes := a.ksizes, seed := a.seed, protein := protein, dayhoff := a.dayhoff, hp := a.hp,
               dna := dna, num := num, track := a.track, scaled := scaled }

end Sm.Sketch
