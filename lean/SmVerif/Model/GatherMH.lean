/-
The gather model over the shared MinHash model: `SkOps MH`, every operation is the
Python layer of `Model/MinHash.lean` (what the `gather` driver runs and compares with /repo).
-/
import SmVerif.Model.MinHash
import SmVerif.Model.Gather

namespace Sm.Gather

open Sm

def cvErr : MH.Err → GErr
  | .pyType => .type
  | .frozen => .type
  | .pyRuntime => .runtime
  | _ => .value

def lift {α : Type} : Except MH.Err α → Except GErr α
  | .ok a => .ok a
  | .error e => .error (cvErr e)

namespace MHOps

def scaledOf (s : MH) : Nat := Py.scaledProp s

/-- `MinHash.downsample(scaled=sc)` -/
def dsM (s : MH) (sc : Nat) : Except GErr MH := lift (Py.downsample s none (some sc))

/-- `FrozenMinHash.downsample(scaled=sc)`: returns `self` when nothing changes -/
def dsF (s : MH) (sc : Nat) : Except GErr MH :=
  if sc ≠ 0 ∧ scaledOf s = sc then .ok s else dsM s sc

/-- `flatten()` -/
def flat (s : MH) : Except GErr MH :=
  match Py.flatten s with
  | .ok (some f) => .ok f
  | .ok none => .ok s
  | .error e => .error (cvErr e)

/-- `a & b` -/
def andMH (a b : MH) : Except GErr MH :=
  match Py.intersection a b with
  | .ok (_, n) => .ok n
  | .error e => .error (cvErr e)

/-- `a.count_common(b, downsample=True)` -/
def cc (a b : MH) : Except GErr Nat := lift (a.countCommon b true)

def compatible (a b : MH) : Bool :=
  match a.checkCompatible b with
  | .ok _ => true
  | .error _ => false

def interSize (a b : MH) : Except GErr (Nat × Nat) := lift (a.intersectionSize b)

end MHOps

open MHOps in
def mhOps : SkOps MH where
  scaled := scaledOf
  num := fun s => s.num
  mins := fun s => s.mins
  track := fun s => s.trackAbundance
  pairs := fun s => s.pairs
  dsM := dsM
  dsF := dsF
  flat := flat
  and := andMH
  cc := cc
  compatible := compatible
  interSize := interSize
  copyAndClear := fun s => lift (Py.copyAndClear s)
  toMutable := Py.pickleRoundTrip
  removeFrom := fun a b => a.removeFrom b
  addFrom := fun a b => a.addFrom b

end Sm.Gather
