/-
C20: decision + work models of the two hand-written CSV readers

* `CollectionManifest.load_from_csv`                      (src/sourmash/manifest.py)
* `SignaturePicklist.from_picklist_args` / `.load`        (src/sourmash/picklist.py, with
  `_DictReader_with_version` / `FileInputCSV` from src/sourmash/sourmash_args.py)

over a *parsed* representation: the text decoder (UTF-8, universal newlines) and the `csv` module's
quoting stay trusted.  The harness hands the model what those two produce (the first physical line
as `readline()` returns it; the rows the csv reader yields, in order; and what the reader hits after
the last row it yields: end of file, `csv.Error`, or a `UnicodeDecodeError` of the incremental
decoder).  Everything the hand-written code decides from there on is in the model: version header,
`float(version)`, DictReader's row -> dict rule (duplicate and missing columns), required columns,
`int(...)` per cell, the `ast.literal_eval` cell (an oracle with a stated range), picklist argument
parsing, column checks, empty / duplicate values — and the number of loop iterations made.

Constants (header prefix, required keys, column lists, coltype tables) come from `Gen` (translator).
-/
import SmVerif.Model.PyVal
import SmVerif.Model.Generated

namespace Sm.CsvR

open Sm.Py

abbrev Cell := List Char
abbrev Row := List Cell

/-- what the csv reader hits after the last row it yields -/
inductive Tail where
  | eof | csvError | decodeError
  | ioError (c : Cls)      -- the byte stream itself failed (a gzip stream: EOFError, zlib.error, BadGzipFile)
deriving Repr, DecidableEq

def Tail.stop : Tail → Option Cls
  | .eof => none
  | .csvError => some .CsvError
  | .decodeError => some .UnicodeDecodeError
  | .ioError c => some c

/-- the classes a stream failure hands in -/
def Tail.io : Tail → List Cls
  | .ioError c => [c]
  | _ => []

/-- a reader result together with the number of loop iterations made to get there -/
structure Run (α : Type) where
  res : R α
  work : Nat

/-! ### csv.DictReader's row -> dict rule -/

/-- highest index `i` with `fields[i] = k` (later duplicates overwrite earlier ones in `dict(zip(..))`) -/
def lastIndex (k : Cell) : List Cell → Option Nat
  | [] => none
  | f :: fs =>
    match lastIndex k fs with
    | some i => some (i + 1)
    | none => if f == k then some 0 else none

/-- `row[k]` of the dict DictReader builds: `none` = no such key (KeyError); `some none` = `None`
    (the row is too short: restval); `some (some c)` = the cell -/
def cellOf (fields : List Cell) (row : Row) (k : Cell) : Option (Option Cell) :=
  match lastIndex k fields with
  | none => none
  | some i => some row[i]?

/-! ### manifest -/

structure MfRow where
  num : Int
  scaled : Int
  ksize : Int
  nHashes : Int
  abund : Bool
deriving Repr, DecidableEq

/-- `bool(ast.literal_eval(text))`: an oracle.  Its exceptions are those CPython documents for
    `literal_eval` on a string (`litClasses`). -/
inductive Lit where
  | val (truthy : Bool)
  | exc (c : Cls)
  | unmodelled
deriving Repr, DecidableEq

def litClasses : List Cls := [.ValueError, .SyntaxError, .MemoryError, .RecursionError, .TypeError]

def firstLinePrefix : List Char := Gen.c20ManifestPrefix.toList
def requiredKeys : List Cell := Gen.c20ManifestRequired.map String.toList
def intCols : List Cell := Gen.c20ManifestIntCols.map String.toList
def boolCol : Cell := Gen.c20ManifestBoolCol.toList

/-- `int(row[k])` -/
def intCell : Option (Option Cell) → R Int
  | none => raise .KeyError
  | some none => raise .TypeError           -- int(None)
  | some (some c) => pyIntStr c

/-- the `literal_eval` failure classes that `load_from_csv` turns into ValueError in the current source
    (empty before the repair of C20.2: the bare call) -/
def litCaught : List Cls := Gen.c20ManifestLitCaught.filterMap Cls.ofName

/-- `bool(ast.literal_eval(str(row[k])))`, inside `try … except <caught> as exc: raise ValueError(..) from exc` -/
def boolCell (caught : List Cls) (lit : Cell → Lit) : Option (Option Cell) → R Bool
  | none => raise .KeyError
  | some none => pure false                 -- str(None) = "None" -> None -> False
  | some (some c) =>
    match lit c with
    | .val b => pure b
    | .exc c => if caught.contains c then raise .ValueError else raise c
    | .unmodelled => decline "ast.literal_eval: outside the modelled fragment"

/-- the per-row conversions, in the order the code makes them -/
def convertRow (caught : List Cls) (lit : Cell → Lit) (fields : List Cell) (row : Row) : R MfRow :=
  match intCols with
  | [c1, c2, c3, c4] => do
    -- introws = ("num", "scaled", "ksize", "n_hashes"), in this order
    let a ← intCell (cellOf fields row c1)
    let b ← intCell (cellOf fields row c2)
    let c ← intCell (cellOf fields row c3)
    let d ← intCell (cellOf fields row c4)
    let ab ← boolCell caught lit (cellOf fields row boolCol)
    pure ⟨a, b, c, d, ab⟩
  | _ => decline "introws changed"

/-- `for row in r:` — DictReader skips rows that are `[]`; one unit of work per row read -/
def loadRows (caught : List Cls) (lit : Cell → Lit) (fields : List Cell) (tail : Tail) :
    List Row → List MfRow → Nat → Run (List MfRow)
  | [], acc, w =>
    match tail.stop with
    | none => ⟨pure acc.reverse, w⟩
    | some c => ⟨raise c, w + 1⟩
  | [] :: rest, acc, w => loadRows caught lit fields tail rest acc (w + 1)
  | (c :: cs) :: rest, acc, w =>
    match convertRow caught lit fields (c :: cs) with
    | .ok r => loadRows caught lit fields tail rest (r :: acc) (w + 1)
    | .error e => ⟨.error e, w + 1⟩

inductive FirstLine where
  | decodeError
  | ioError (c : Cls)      -- the first read of the byte stream failed (e.g. `gzip.open` on a file that is not gzip)
  | line (s : List Char)
deriving Repr

def FirstLine.io : FirstLine → List Cls
  | .ioError c => [c]
  | _ => []

structure CsvDoc where
  first : FirstLine
  rows : List Row
  tail : Tail
deriving Repr

/-- is `float(version) == 1.0`?  (`float` failing and `!= 1.0` are both ValueError) -/
def versionIsOne (v : List Char) : R Bool :=
  match pyFloatStr v with
  | .ok pf => pfEqOne pf
  | .error (.exc _) => pure false
  | .error (.unmodelled w) => decline w

/-- every required key is in the header -/
def missingKey (fields : List Cell) : Bool := requiredKeys.any (fun k => !fields.contains k)

/-- does the text end in a non-ASCII character (which `str.rstrip()` might treat as whitespace)? -/
def endsNonAscii (raw : List Char) : Bool :=
  match raw.reverse with
  | c :: _ => !isAscii c
  | [] => false

/-- `CollectionManifest.load_from_csv(fp)`, for a given list of `literal_eval` classes wrapped into ValueError -/
def loadManifestV (caught : List Cls) (lit : Cell → Lit) (doc : CsvDoc) : Run (List MfRow) :=
  match doc.first with
  | .decodeError => ⟨raise .UnicodeDecodeError, 0⟩
  | .ioError c => ⟨raise c, 0⟩
  | .line raw =>
    -- `.rstrip()`: trailing non-ASCII could be Unicode whitespace
    if endsNonAscii raw then ⟨decline "rstrip: non-ASCII tail", 0⟩ else
    let first := rstrip raw
    if !startsWith first firstLinePrefix then ⟨raise .ValueError, 0⟩ else
    let version := first.drop firstLinePrefix.length
    match versionIsOne version with
    | .error e => ⟨.error e, 0⟩
    | .ok false => ⟨raise .ValueError, 0⟩
    | .ok true =>
      -- r.fieldnames: the first row the csv reader yields (a blank line yields [])
      match doc.rows with
      | [] =>
        match doc.tail.stop with
        | none => ⟨raise .ValueError, 1⟩           -- fieldnames is None: missing column headers
        | some c => ⟨raise c, 1⟩
      | fields :: rest =>
        if fields.isEmpty then ⟨raise .ValueError, 1⟩ else
        if missingKey fields then ⟨raise .ValueError, 1 + requiredKeys.length⟩ else
        loadRows caught lit fields doc.tail rest [] (1 + requiredKeys.length)

/-- `CollectionManifest.load_from_csv(fp)` as the current source has it -/
def loadManifest (lit : Cell → Lit) (doc : CsvDoc) : Run (List MfRow) := loadManifestV litCaught lit doc

/-! ### manifest by file name: `CollectionManifest.load_from_filename` -/

/-- `load_from_sql(filename)`: the SQLite probe that comes first -/
inductive SqlRes where
  | notSqlite              -- `load_sqlite_index` returned None
  | loaded                 -- an SQLite manifest
  | raises (c : Cls)
deriving Repr

structure MfFile where
  name : List Char
  sql : SqlRes
  /-- the file read through `open(filename, "rt", newline="")` -/
  plain : CsvDoc
  /-- the file read through `gzip.open(filename, "rt", newline="")` (a file that is not gzip fails at the first read) -/
  gz : CsvDoc
deriving Repr

def endsWith (s suffix : List Char) : Bool := startsWith s.reverse suffix.reverse

/-- `load_from_filename`: SQLite first; then the NAME decides between `gzip.open` and `open` — the content is not
    sniffed ("CTB: fix this to actually try loading this as .gz") -/
def loadManifestFile (lit : Cell → Lit) (f : MfFile) : Run (List MfRow) :=
  match f.sql with
  | .loaded => ⟨decline "an SQLite manifest", 0⟩
  | .raises c => ⟨raise c, 0⟩
  | .notSqlite => loadManifest lit (if endsWith f.name ".gz".toList then f.gz else f.plain)

/-! ### picklist -/

/-- shapes of the `preprocess[...]` lambdas of picklist.py the translator recognises -/
inductive Pre where
  | ident_        -- lambda x: x
  | identSpace    -- x.split(" ")[0]
  | identPrefix   -- x.split(" ")[0].split(".")[0]
  | first8        -- x[:8]
  | combine       -- combine_ident_md5
deriving Repr, DecidableEq

def Pre.ofShape (s : String) : Option Pre :=
  if s == "id" then some .ident_
  else if s == "split_space_0" then some .identSpace
  else if s == "split_space_0_split_dot_0" then some .identPrefix
  else if s == "first8" then some .first8
  else if s == "combine_ident_md5" then some .combine
  else none

def metaColtypes : List Cell := Gen.c20PickMeta.map String.toList
def supportedColtypes : List Cell := Gen.c20PickSupported.map String.toList

def preOf (coltype : Cell) : Option Pre :=
  match Gen.c20PickPreprocess.find? (fun p => p.1.toList == coltype) with
  | some p => Pre.ofShape p.2
  | none => none

/-- which two CSV columns a meta-coltype reads (`_get_value_for_csv_row`) -/
def metaCols (coltype : Cell) : Option (Cell × Cell) :=
  match Gen.c20PickMetaCols.find? (fun p => p.1.toList == coltype) with
  | some p => some (p.2.1.toList, p.2.2.toList)
  | none => none

inductive Style where
  | incl | excl
deriving Repr, DecidableEq

structure Picklist where
  pickfile : Cell
  column : Cell
  coltype : Cell
  style : Style
deriving Repr

/-- `SignaturePicklist.__init__` checks -/
def initPicklist (pickfile column coltype : Cell) (style : Style) : R Picklist :=
  if !(metaColtypes.contains coltype || supportedColtypes.contains coltype) then raise .ValueError else
  if metaColtypes.contains coltype && !column.isEmpty then raise .ValueError else
  match preOf coltype with
  | none => raise .KeyError                 -- preprocess[coltype]
  | some _ => pure ⟨pickfile, column, coltype, style⟩

/-- `picklist = argstr.split(":")`, the optional fourth part popped as the pick style -/
def argParts (argstr : List Char) : R (List Cell × Style) :=
  match splitOn1 ':' argstr with
  | [a, b, c, d] =>
    if d == "include".toList then pure ([a, b, c], .incl)
    else if d == "exclude".toList then pure ([a, b, c], .excl)
    else raise .ValueError
  | parts => pure (parts, .incl)

/-- `SignaturePicklist.from_picklist_args(argstr)` -/
def fromArgs (argstr : List Char) : R Picklist :=
  match argParts argstr with
  | .error e => .error e
  | .ok ([pickfile, column, coltype], style) => initPicklist pickfile column coltype style
  | .ok _ => raise .ValueError

/-- a picklist value: a string, or the (ident, md5short) pair of the meta-coltypes -/
inductive PV where
  | s (x : Cell)
  | pair (a b : Cell)
deriving Repr, DecidableEq

def applyPre : Pre → Cell → Cell
  | .ident_, x => x
  | .identSpace, x => beforeFirst ' ' x
  | .identPrefix, x => beforeFirst '.' (beforeFirst ' ' x)
  | .first8, x => x.take 8
  | .combine, x => x

/-- `_get_value_for_csv_row(row)`: `none` = falsy value (counted as empty) -/
def csvRowValue (pl : Picklist) (fields : List Cell) (row : Row) : R (Option PV) :=
  match preOf pl.coltype with
  | none => raise .KeyError
  | some pre =>
    if metaColtypes.contains pl.coltype then
      match metaCols pl.coltype with
      | none => decline "meta coltype without a column pair"
      | some (cn, cm) =>
        match cellOf fields row cn, cellOf fields row cm with
        | none, _ => raise .KeyError
        | some _, none => raise .KeyError
        | some none, some _ => raise .AttributeError        -- None.split(" ")
        | some (some _), some none => raise .TypeError      -- None[:8]
        | some (some n), some (some m) =>
          -- the tuple is always truthy; combine_ident_md5
          pure (some (.pair (beforeFirst ' ' n) (m.take 8)))
    else
      match cellOf fields row pl.column with
      | none => raise .KeyError
      | some none => pure none
      | some (some c) =>
        if c.isEmpty then pure none else
        let v := applyPre pre c
        if v.isEmpty then pure none else pure (some (.s v))

structure PickResult where
  nEmpty : Nat
  dups : List PV       -- distinct duplicated values (`dup_vals`)
  pickset : List PV    -- distinct values, in order of first appearance
deriving Repr

def pickRows (pl : Picklist) (fields : List Cell) (tail : Tail) :
    List Row → PickResult → Nat → Run PickResult
  | [], acc, w =>
    match tail.stop with
    | none => ⟨pure acc, w⟩
    | some c => ⟨raise c, w + 1⟩
  | [] :: rest, acc, w => pickRows pl fields tail rest acc (w + 1)
  | (c :: cs) :: rest, acc, w =>
    match csvRowValue pl fields (c :: cs) with
    | .error e => ⟨.error e, w + 1⟩
    | .ok none => pickRows pl fields tail rest { acc with nEmpty := acc.nEmpty + 1 } (w + 1)
    | .ok (some v) =>
      if acc.pickset.contains v then
        pickRows pl fields tail rest
          { acc with dups := if acc.dups.contains v then acc.dups else acc.dups ++ [v] } (w + 1)
      else pickRows pl fields tail rest { acc with pickset := acc.pickset ++ [v] } (w + 1)

/-- the file as `FileInputCSV` + `_DictReader_with_version` see it -/
structure PickDoc where
  isFile : Bool             -- os.path.exists and os.path.isfile
  /-- `FileInputCSV` tries `gzip.open(..)` + `peek(1)` first: BadGzipFile means "not gzip, read it as plain text"
      (then the fields below describe the plain stream); any other exception of that probe escapes (`some c`);
      a real gzip stream is read through the same `_DictReader_with_version` (the fields describe the inflated stream) -/
  sniff : Option Cls
  peekStrictOk : Bool       -- the first buffered chunk decodes as UTF-8 on its own (`chunk.decode('utf-8')`)
  peekIncrOk : Bool         -- … decodes incrementally (a character cut by the end of the chunk is fine)
  first : FirstLine         -- readline() (only consumed when the text starts with '#')
  startsHash : Bool
  rowsRest : List Row       -- csv rows after the first physical line
  tailRest : Tail
  rowsAll : List Row        -- csv rows of the whole text
  tailAll : Tail
deriving Repr

/-- which rows the DictReader sees: `_DictReader_with_version` consumes a leading `#` line -/
def pickBody (doc : PickDoc) : R (List Row × Tail) :=
  if doc.startsHash then
    match doc.first with
    | .decodeError => raise .UnicodeDecodeError
    | .ioError c => raise c
    | .line l => if startsWith l "# ".toList then pure (doc.rowsRest, doc.tailRest) else raise .AssertionError
  else pure (doc.rowsAll, doc.tailAll)

/-- did `_DictReader_with_version` manage to decode the peeked chunk? -/
def peekOk (incremental : Bool) (doc : PickDoc) : Bool := if incremental then doc.peekIncrOk else doc.peekStrictOk

/-- `SignaturePicklist.load()`, for the incremental (`true`) or strict (`false`) decoding of the peeked chunk -/
def loadPicklistV (incremental : Bool) (pl : Picklist) (doc : PickDoc) : Run PickResult :=
  if !doc.isFile then ⟨raise .ValueError, 0⟩ else
  match doc.sniff with
  | some c => ⟨raise c, 0⟩
  | none =>
  if !peekOk incremental doc then ⟨raise .CsvError, 0⟩ else
  match pickBody doc with
  | .error e => ⟨.error e, 0⟩
  | .ok (rows, tail) =>
    match rows with
    | [] =>
      match tail.stop with
      | none => ⟨raise .ValueError, 1⟩                  -- empty or improperly formatted pickfile
      | some c => ⟨raise c, 1⟩
    | fields :: rest =>
      if fields.isEmpty then ⟨raise .ValueError, 1⟩ else
      if !(fields.contains pl.column || metaColtypes.contains pl.coltype) then ⟨raise .ValueError, 1⟩ else
      pickRows pl fields tail rest ⟨0, [], []⟩ 1

/-- `SignaturePicklist.load()` as the current source has it -/
def loadPicklist (pl : Picklist) (doc : PickDoc) : Run PickResult := loadPicklistV Gen.c20PeekIncremental pl doc

end Sm.CsvR

namespace Sm.CsvR

open Sm.Py

/-! ### a concrete (partial) model of `bool(ast.literal_eval(cell))` for the driver

Only a small recognised fragment; everything else is `unmodelled` (the file is then skipped by the
correspondence, and counted).  `litModel_range` (Props/C20) shows it stays inside `litClasses`. -/

def pyKeywords : List (List Char) :=
  ["and", "as", "assert", "async", "await", "break", "class", "continue", "def", "del", "elif", "else",
   "except", "finally", "for", "from", "global", "if", "import", "in", "is", "lambda", "nonlocal", "not",
   "or", "pass", "raise", "return", "try", "while", "with", "yield"].map String.toList

def isIdentStart (c : Char) : Bool := ('a' ≤ c && c ≤ 'z') || ('A' ≤ c && c ≤ 'Z') || c == '_'
def isIdentChar (c : Char) : Bool := isIdentStart c || isDigit c

def stripSpTab (s : List Char) : List Char :=
  let f := fun (t : List Char) => t.dropWhile (fun c => c == ' ' || c == '\t')
  (f (f s).reverse).reverse

def litModel (cell : Cell) : Lit :=
  if !allAscii cell then .unmodelled else
  let t := stripSpTab cell
  if t.any (fun c => isWs c) then .unmodelled else
  match t with
  | [] => .exc .SyntaxError
  | c :: cs =>
    if t == "True".toList then .val true
    else if t == "False".toList || t == "None".toList then .val false
    else if t.all isDigit then
      if t.length > maxStrDigits then .exc .SyntaxError
      else if t.all (· == '0') then .val false
      else if c == '0' then .exc .SyntaxError          -- leading zeros in a decimal literal
      else .val true
    else if isIdentStart c && cs.all isIdentChar then
      if pyKeywords.contains t then .exc .SyntaxError else .exc .ValueError
    else .unmodelled

end Sm.CsvR
