/-
Further exact binary64 primitives needed by the comparison model (C05):
addition of two non-negative doubles, halving, the constant 1, the
comparisons used by the clamping code, and decoding of an IEEE bit pattern
(so that values produced by the run-time `Float` of the driver — the tier-2
part: `**`, `sqrt`, `acos` — print in the same canonical text as `F64.toStr`).

Same range assumption as `Float64.lean`: normal, non-negative, finite.
Import-free apart from `Float64.lean`.
-/
import SmVerif.Model.Float64

namespace Sm.F64

def zero : F := ⟨0, 0⟩

def one : F := ⟨1, 0⟩

/-- correctly rounded sum of two non-negative doubles: the exact sum is an
    integer multiple of `2^min(e)`; round that integer to 53 bits (RNE) -/
def add (x y : F) : F :=
  let e := min x.e y.e
  let n := x.m * 2 ^ (x.e - e).toNat + y.m * 2 ^ (y.e - e).toNat
  let r := divNat n 1
  if r.m = 0 then r else ⟨r.m, r.e + e⟩

/-- `x / 2` (exact for normal doubles) -/
def half (x : F) : F := if x.m = 0 then x else ⟨x.m, x.e - 1⟩

/-- `x <= 0` on the non-negative doubles -/
def isZero (x : F) : Bool := decide (x.m = 0)

/-- `x == 1.0` -/
def isOne (x : F) : Bool := ge x one && ge one x

/-- the clamp at the end of `contained_by` / `max_containment`:
    `if c >= 1: return 1.0 elif c <= 0: return 0.0 else: return c` -/
def clamp01 (x : F) : F := if ge x one then one else if isZero x then zero else x

/-- decode the bit pattern of a finite non-negative double; `none` for
    negative, infinite or NaN patterns -/
def ofBits (b : Nat) : Option F :=
  let sign : Nat := b / 2 ^ 63
  let ex : Nat := (b / 2 ^ 52) % 2048
  let fr : Nat := b % 2 ^ 52
  if sign ≠ 0 then (if ex = 0 ∧ fr = 0 then some zero else none)
  else if ex = 2047 then none
  else if ex = 0 then some ⟨fr, -1074⟩
  else some ⟨fr + 2 ^ 52, (ex : Int) - 1075⟩


/-! ### square root (IEEE-754 `sqrt` is a basic operation: correctly rounded by the hardware,
`f64::sqrt` compiles to `sqrtsd`) -/

/-- digit-by-digit integer square root: invariant `r^2 ≤ n < (r + 2^k)^2` -/
def isqrtAux (n : Nat) : Nat → Nat → Nat
  | 0, r => r
  | k + 1, r =>
    let c := r + 2 ^ k
    if c * c ≤ n then isqrtAux n k c else isqrtAux n k r

/-- `⌊√n⌋` -/
def isqrt (n : Nat) : Nat := isqrtAux n (bitlen n / 2 + 1) 0

/-- correctly rounded (RNE) square root of a non-negative double: the mantissa is scaled by an
    even power of two to at least 110 bits, `⌊√·⌋` has at least 55 bits, the inexact flag is the sticky bit -/
def sqrt (x : F) : F :=
  if x.m = 0 then ⟨0, 0⟩
  else
    -- exponent of the scaled mantissa must be even: e - t even
    let t : Nat := if (x.e - 110) % 2 = 0 then 110 else 111
    let n := x.m * 2 ^ t
    let r := isqrt n
    let sticky := decide (r * r ≠ n)
    let d := bitlen r - 53
    let m := shiftRNE r d sticky
    let e : Int := (x.e - t) / 2
    if m = 2 ^ 53 then ⟨2 ^ 52, e + (d : Int) + 1⟩ else ⟨m, e + (d : Int)⟩

def two : F := ⟨2, 0⟩

/-- `std::f64::consts::PI` = 0x400921FB54442D18 -/
def PI : F := ⟨0x1921FB54442D18, -51⟩

/-- `PI / 2` (exact) -/
def halfPI : F := ⟨0x1921FB54442D18, -52⟩

end Sm.F64
