/-
Line-protocol helpers shared by every driver module: one operation per input
line, one observation per output line, decimal naturals, canonical ordering.
-/
namespace Sm.Proto

def words (line : String) : List String :=
  (line.splitOn " ").filter (· ≠ "")

def nat? (s : String) : Option Nat := s.toNat?

def nats? (ws : List String) : Option (List Nat) := ws.mapM nat?

/-- "h:a" -/
def pair? (s : String) : Option (Nat × Nat) :=
  match s.splitOn ":" with
  | [a, b] => do pure (← a.toNat?, ← b.toNat?)
  | _ => none

def pairs? (ws : List String) : Option (List (Nat × Nat)) := ws.mapM pair?

def joinNats (l : List Nat) : String := ",".intercalate (l.map toString)

def bool? (s : String) : Option Bool :=
  match s with
  | "0" => some false
  | "1" => some true
  | _ => none

def b2s (b : Bool) : String := if b then "1" else "0"

/-- read all of stdin, line by line, threading a state -/
partial def loop {σ : Type} (h : IO.FS.Stream) (out : IO.FS.Stream) (step : σ → String → σ × String) (s : σ) : IO Unit := do
  let line ← h.getLine
  if line.isEmpty then return ()
  let line := String.ofList (line.toList.filter (fun c => c ≠ '\n' && c ≠ '\r'))
  let (s', o) := step s line
  out.putStrLn o
  loop h out step s'

end Sm.Proto
