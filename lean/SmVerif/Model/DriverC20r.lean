/- driver for the C20 reader models: one decoded file per line (see harness/c20/encode.py for the token grammar)

   mf    <csvdoc>
   pl    <argstr-hex> <isFile> <sniff: - | Class> <peekStrictOk> <peekIncrOk> <startsHash> <csvdoc: rest> <csvdoc: all>
   mff   <name-hex> <sql: n | l | r:Class> <csvdoc: plain open> <csvdoc: gzip.open>
   lca   <isFile> <sqlite: v | l | r:Class> <text: r | e | t:<hex char> <dec>>
   sbt   <zip: - | r:Class | m<count>> <open: - | Class> <dec> <mkdir: - | Class> <sample: n|d|e|u:Class> <net> <manifest: n|d|e|x|u:Class | c <csvdoc>>
   chain <k> {<fn> <inner>}*k        inner = none | idx | exc:Cls<Base<…
   nd    <fs|zip> <storage failure: Class>      the lazy node loader on a node whose file the storage cannot produce

   csvdoc = <first: E | X:Class | L<hex>> <tail: e|c|d|x:Class> <nrows> {<ncells> <cell-hex>…}
   dec    = J | V | R | U | D <json>
   json   = n | t | f | i<int> | d<num>/<den> | N | I+ | I- | s<hex> | a<k> json*k | o<k> (<key-hex> json)*k
   hex of the empty string is "-" -/
import SmVerif.Model.CsvReaders
import SmVerif.Model.JsonReaders
import SmVerif.Model.LoaderChain
import SmVerif.Model.SbtNodes
import SmVerif.Model.Proto

namespace Sm.DriverC20r

open Sm.Proto Sm.Py Sm.CsvR Sm.JsonR

def hexVal (c : Char) : Option Nat :=
  if '0' ≤ c ∧ c ≤ '9' then some (c.toNat - '0'.toNat)
  else if 'a' ≤ c ∧ c ≤ 'f' then some (c.toNat - 'a'.toNat + 10)
  else none

def hexBytes : List Char → Option (List Nat)
  | [] => some []
  | a :: b :: rest => do
    let x ← hexVal a
    let y ← hexVal b
    let r ← hexBytes rest
    pure ((16 * x + y) :: r)
  | _ => none

/-- UTF-8 decode (the harness only sends valid UTF-8) -/
partial def utf8 : List Nat → List Char
  | [] => []
  | b :: rest =>
    if b < 0x80 then Char.ofNat b :: utf8 rest
    else if b < 0xE0 then
      match rest with
      | c :: r => Char.ofNat ((b % 32) * 64 + c % 64) :: utf8 r
      | _ => []
    else if b < 0xF0 then
      match rest with
      | c :: d :: r => Char.ofNat ((b % 16) * 4096 + (c % 64) * 64 + d % 64) :: utf8 r
      | _ => []
    else
      match rest with
      | c :: d :: e :: r => Char.ofNat ((b % 8) * 262144 + (c % 64) * 4096 + (d % 64) * 64 + e % 64) :: utf8 r
      | _ => []

def dropS (n : Nat) (t : String) : String := String.ofList (t.toList.drop n)

def hexStr (t : String) : Option (List Char) :=
  if t == "-" then some [] else (hexBytes t.toList).map utf8

abbrev P (α : Type) := List String → Option (α × List String)

def pNat : P Nat
  | t :: r => (t.toNat?).map (·, r)
  | [] => none

def pBool : P Bool
  | "0" :: r => some (false, r)
  | "1" :: r => some (true, r)
  | _ => none

def pHex : P (List Char)
  | t :: r => (hexStr t).map (·, r)
  | [] => none

def pMany {α : Type} (p : P α) : Nat → P (List α)
  | 0, ts => some ([], ts)
  | n + 1, ts => do
    let (x, r) ← p ts
    let (xs, r') ← pMany p n r
    pure (x :: xs, r')

def pRow : P Row := fun ts => do
  let (n, r) ← pNat ts
  pMany pHex n r

def pTail : P Tail
  | "e" :: r => some (.eof, r)
  | "c" :: r => some (.csvError, r)
  | "d" :: r => some (.decodeError, r)
  | t :: r => if t.startsWith "x:" then (Cls.ofName (dropS 2 t)).map (fun c => (Tail.ioError c, r)) else none
  | _ => none

def pCsvDoc : P CsvDoc := fun ts => do
  let (first, r1) ← (match ts with
    | "E" :: r => some (FirstLine.decodeError, r)
    | t :: r =>
      if t.startsWith "L" then (hexStr (dropS 1 t)).map (fun s => (FirstLine.line s, r))
      else if t.startsWith "X:" then (Cls.ofName (dropS 2 t)).map (fun c => (FirstLine.ioError c, r))
      else none
    | [] => none)
  let (tail, r2) ← pTail r1
  let (n, r3) ← pNat r2
  let (rows, r4) ← pMany pRow n r3
  pure (⟨first, rows, tail⟩, r4)

def pInt (t : String) : Option Int :=
  if t.startsWith "-" then (dropS 1 t).toNat?.map (fun n => -(Int.ofNat n)) else t.toNat?.map Int.ofNat

partial def pJson : P J
  | [] => none
  | t :: r =>
    if t == "n" then some (.null, r)
    else if t == "t" then some (.bool true, r)
    else if t == "f" then some (.bool false, r)
    else if t == "N" then some (.nan, r)
    else if t == "I+" then some (.inf false, r)
    else if t == "I-" then some (.inf true, r)
    else if t.startsWith "i" then (pInt (dropS 1 t)).map (fun i => (.int i, r))
    else if t.startsWith "d" then
      match (dropS 1 t).splitOn "/" with
      | [a, b] => do
        let n ← pInt a
        let d ← b.toNat?
        pure (.flt n d, r)
      | _ => none
    else if t.startsWith "s" then (hexStr (dropS 1 t)).map (fun s => (.str s, r))
    else if t.startsWith "a" then do
      let n ← (dropS 1 t).toNat?
      let (xs, r') ← pMany pJson n r
      pure (.arr xs, r')
    else if t.startsWith "o" then do
      let n ← (dropS 1 t).toNat?
      let (kvs, r') ← pMany (fun ts => do
        let (k, r1) ← pHex ts
        let (v, r2) ← pJson r1
        pure ((k, v), r2)) n r
      pure (.obj kvs, r')
    else none

def pDec : P JsonDec
  | "J" :: r => some (.jsonError, r)
  | "V" :: r => some (.valueError, r)
  | "R" :: r => some (.recursion, r)
  | "U" :: r => some (.decodeError, r)
  | "D" :: r => (pJson r).map (fun (j, r') => (.doc j, r'))
  | _ => none

def pCls (t : String) : Option Cls := Cls.ofName t

def showStop : Stop → String
  | .exc c => "exc " ++ c.name
  | .unmodelled w => "skip " ++ w

def showInt (i : Int) : String := toString i

def showMfRow (r : MfRow) : String :=
  s!"{r.num},{r.scaled},{r.ksize},{r.nHashes},{b2s r.abund}"

def showOptInt : Option Int → String
  | some i => toString i
  | none => "f"

def doMf (ts : List String) : String :=
  match pCsvDoc ts with
  | some (doc, []) =>
    let r := loadManifest litModel doc
    match r.res with
    | .ok rows => s!"ok {rows.length} " ++ ";".intercalate (rows.map showMfRow) ++ s!" w={r.work}"
    | .error e => showStop e ++ s!" w={r.work}"
  | _ => "bad-op"

def doMff (ts : List String) : String :=
  match ts with
  | nm :: sq :: rest =>
    let sql : Option SqlRes :=
      if sq == "n" then some .notSqlite else if sq == "l" then some .loaded
      else if sq.startsWith "r:" then (Cls.ofName (dropS 2 sq)).map .raises else none
    match hexStr nm, sql, (do
        let (d1, r1) ← pCsvDoc rest
        let (d2, r2) ← pCsvDoc r1
        if r2.isEmpty then pure (d1, d2) else none) with
    | some name, some sq, some (d1, d2) =>
      let r := loadManifestFile litModel ⟨name, sq, d1, d2⟩
      match r.res with
      | .ok rows => s!"ok {rows.length} " ++ ";".intercalate (rows.map showMfRow) ++ s!" w={r.work}"
      | .error e => showStop e ++ s!" w={r.work}"
    | _, _, _ => "bad-op"
  | _ => "bad-op"

def doPl (ts : List String) : String :=
  match ts with
  | a :: rest =>
    match hexStr a, (do
        let (isFile, r0) ← pBool rest
        let (sniff, r1) ← (match r0 with
          | "-" :: r => some (none, r)
          | t :: r => (Cls.ofName t).map (fun c => (some c, r))
          | [] => none)
        let (peekOk, r1b) ← pBool r1
        let (peekIncr, r2) ← pBool r1b
        let (hash, r3) ← pBool r2
        let (d1, r4) ← pCsvDoc r3
        let (d2, r5) ← pCsvDoc r4
        if r5.isEmpty then pure (PickDoc.mk isFile sniff peekOk peekIncr d1.first hash d1.rows d1.tail d2.rows d2.tail) else none) with
    | some argstr, some doc =>
      match fromArgs argstr with
      | .error e => showStop e ++ " w=0"
      | .ok pl =>
        let r := loadPicklist pl doc
        match r.res with
        | .ok p => s!"ok {p.nEmpty} {p.dups.length} {p.pickset.length} w={r.work}"
        | .error e => showStop e ++ s!" w={r.work}"
    | _, _ => "bad-op"
  | _ => "bad-op"

def doLca (ts : List String) : String :=
  let parsed : Option LcaFile := do
    let (isFile, r1) ← pBool ts
    let (sq, r2) ← (match r1 with
      | "v" :: r => some (SqlProbe.valueError, r)
      | "l" :: r => some (SqlProbe.loads, r)
      | t :: r => if t.startsWith "r:" then (pCls (dropS 2 t)).map (fun c => (SqlProbe.raises c, r)) else none
      | [] => none)
    match r2 with
    | ["r"] => pure ⟨isFile, sq, .read1Fail⟩
    | ["e"] => pure ⟨isFile, sq, .empty⟩
    | t :: r =>
      if t.startsWith "t:" then do
        let c ← hexStr (dropS 2 t)
        let (dec, r') ← pDec r
        if r'.isEmpty then pure ⟨isFile, sq, .text (c.headD ' ') dec⟩ else none
      else none
    | [] => none
  match parsed with
  | none => "bad-op"
  | some f =>
    let r := loadLca f
    match r.res with
    | .ok i => s!"ok {i.ksize} {i.scaled} {i.nLid} {i.nHash} {i.nIdx} {showOptInt i.nextIndex} {showOptInt i.nextLid} w={r.work}"
    | .error e => showStop e ++ s!" w={r.work}"

def pFsRead (t : String) : Option FsRead :=
  if t == "n" then some .notFound else if t == "d" then some .isDir else if t == "e" then some .exists_
  else if t.startsWith "u:" then (pCls (dropS 2 t)).map .unreadable else none

def doSbt (ts : List String) : String :=
  let parsed : Option SbtFile := do
    let (zip, ts1) ← (match ts with
      | "-" :: r => some (ZipState.none_, r)
      | t :: r =>
        if t.startsWith "r:" then (pCls (dropS 2 t)).map (fun c => (ZipState.raises c, r))
        else if t.startsWith "m" then (dropS 1 t).toNat?.map (fun n => (ZipState.members n, r))
        else none
      | [] => none)
    let (openExc, ts2) ← (match ts1 with
      | "-" :: r => some (none, r)
      | t :: r => (pCls t).map (fun c => (some c, r))
      | [] => none)
    let (dec, r1) ← pDec ts2
    match r1 with
    | mk :: sm :: net :: rest =>
      let mkdirExc ← (if mk == "-" then some none else (pCls mk).map some)
      let sample ← pFsRead sm
      let (netB, _) ← pBool [net]
      let mf ← (match rest with
        | ["x"] => some MfState.undecodable
        | "c" :: r => (match pCsvDoc r with | some (d, []) => some (MfState.content d) | _ => none)
        | [t] => (pFsRead t).map MfState.fs
        | _ => none)
      pure ⟨dec, mkdirExc, sample, mf, netB, zip, openExc⟩
    | _ => none
  match parsed with
  | none => "bad-op"
  | some f =>
    let r := loadSbt litModel f
    match r.res with
    | .ok i =>
      let mf := match i.mfRows with | some n => toString n | none => "-"
      s!"ok v={i.version} d={showOptInt i.d} n={i.nNodes} l={i.nLeaves} max={i.maxNode} m={i.nMissing} mf={mf} cc={childrenCost i} w={r.work}"
    | .error e => showStop e ++ s!" w={r.work}"

def pOut (t : String) : Option Chain.Out :=
  if t == "none" then some .none_ else if t == "idx" then some .idx
  else if t.startsWith "exc:" then some (.raises ((dropS 4 t).splitOn "<")) else none

def showOut : Chain.Out → String
  | .none_ => "none"
  | .idx => "idx"
  | .raises mro => "exc:" ++ mro.headD "?"

def doChain (ts : List String) : String :=
  match ts with
  | k :: rest =>
    match k.toNat? with
    | none => "bad-op"
    | some n =>
      let rec pairs : Nat → List String → Option (List (String × Chain.Out))
        | 0, [] => some []
        | 0, _ => none
        | m + 1, f :: o :: r => do
          let out ← pOut o
          let ps ← pairs m r
          pure ((f, out) :: ps)
        | _, _ => none
      match pairs n rest with
      | none => "bad-op"
      | some obs =>
        -- the observed calls must be a prefix of the sorted loader table
        let sorted := Chain.loaders
        if obs.length > sorted.length || (obs.map Prod.fst) != (sorted.take obs.length).map (·.fn) then
          "order " ++ ",".intercalate (sorted.map (·.fn))
        else
          let zipped := (sorted.take obs.length).zip (obs.map Prod.snd)
          let (fin, calls) := Chain.run zipped 0
          let outers := zipped.map (fun p => showOut (Chain.outer p.1 p.2))
          let complete := obs.length == sorted.length
          let finS := match fin with
            | .index fn => "idx@" ++ fn
            | .raised mro (some fn) => "exc:" ++ mro.headD "?" ++ "@" ++ fn
            | .raised mro none => if complete then "exc:" ++ mro.headD "?" ++ "@chain" else "more"
          s!"calls={calls} outer={",".intercalate outers} final={finS}"
  | _ => "bad-op"

def step (_ : Unit) (line : String) : Unit × String :=
  match words line with
  | "#" :: _ => ((), "#")
  | "mf" :: ts => ((), doMf ts)
  | "mff" :: ts => ((), doMff ts)
  | "pl" :: ts => ((), doPl ts)
  | "lca" :: ts => ((), doLca ts)
  | "sbt" :: ts => ((), doSbt ts)
  | "chain" :: ts => ((), doChain ts)
  | ["nd", st, c] =>
    match pCls c with
    | none => ((), "bad-op")
    | some cls =>
      let r := if st == "zip" then SbtN.zipLoad (some cls) true else SbtN.StorageRes.raises cls
      match SbtN.nodeData r .Other with
      | .ok .fresh => ((), "fresh")
      | .ok .saved => ((), "saved")
      | .error e => ((), showStop e)
  | _ => ((), "bad-op")

end Sm.DriverC20r
