-- every line-protocol driver (what Main.lean needs)
import SmVerif.Model.DriverMh
import SmVerif.Model.DriverOwn
import SmVerif.Model.DriverNg
import SmVerif.Model.DriverLca
import SmVerif.Model.DriverCmp
import SmVerif.Model.DriverStore
import SmVerif.Model.DriverTwin
import SmVerif.Model.DriverSketch
import SmVerif.Model.DriverSeq
import SmVerif.Model.DriverSelect
import SmVerif.Model.DriverTax
import SmVerif.Model.DriverJson
import SmVerif.Model.DriverSearch
import SmVerif.Model.DriverSetops
