/-
C20 — malformed or hostile files produce an error, never a crash or a hang.  PARTIAL by nature.

What a theorem can carry here is the decision + resource behaviour of the hand-written binary
reader that takes sizes from the file (`Nodegraph::from_reader`):
* it is total (a structurally recursive function of the input: no input makes it loop),
* with the bounded-read discipline the source has now (`Gen.ngPrealloc = false`, re-read from the
  source by the translator on every run) the memory it requests is bounded by the input length,
  whatever the size fields say (`alloc_bounded`),
* with the pre-allocating discipline it had before the repair of D19 it is not
  (`prealloc_unbounded`: a 31-byte input requests 2^37 bytes).
Memory safety of native code, third-party decoders (zip, gzip, sqlite, serde_json) and the
allocator are outside any model; the crash-isolated differential run in `props/C20.py` observes
them (signals, timeouts, address-space limit) and is labelled as testing in the evidence.
-/
import SmVerif.Model.NgReader

namespace Sm.C20

open Sm.Ng

theorem takeN_length {n : Nat} {bs a b : List Nat} (h : takeN n bs = some (a, b)) :
    a.length = n ∧ b.length + n = bs.length := by
  unfold takeN at h
  split at h
  · cases h
  · injection h with h
    injection h with h1 h2
    subst h1; subst h2
    simp [List.length_take, List.length_drop]
    omega

theorem sum_append_single (l : List Nat) (x : Nat) : (l ++ [x]).foldl (· + ·) 0 = l.foldl (· + ·) 0 + x := by
  simp [List.foldl_append]

/-- bounded reading: whatever the size fields claim, the buffers requested while reading the tables
    add up to at most the bytes that are actually there -/
theorem readTables_alloc (rz : Bool) (n : Nat) (bs : List Nat) (acc : List (Nat × List Nat)) (allocs : List Nat) :
    (readTables false rz n bs acc allocs).2.foldl (· + ·) 0 ≤ allocs.foldl (· + ·) 0 + bs.length := by
  induction n generalizing bs acc allocs with
  | zero => simp [readTables]
  | succ n ih =>
    unfold readTables
    split
    · simp
    · rename_i szb rest h8
      have h8' := takeN_length h8
      simp only
      split
      · simp only; omega
      · split
        · rename_i hfail
          simp only [sum_append_single, Bool.false_eq_true, if_false]
          have : min (le szb / 8 + 1) rest.length ≤ rest.length := Nat.min_le_right _ _
          omega
        · rename_i tb rest' hok
          have hok' := takeN_length hok
          have := ih rest' ((le szb, tb) :: acc) (allocs ++ [if false = true then (le szb / 8 + 1) / 4 * 4 else min (le szb / 8 + 1) rest.length])
          simp only [sum_append_single, Bool.false_eq_true, if_false] at this ⊢
          have hm : min (le szb / 8 + 1) rest.length ≤ le szb / 8 + 1 := Nat.min_le_left _ _
          omega

/-- what `parseWith` requests is what `readTables` requests on a suffix of the input (or nothing) -/
theorem parseWith_allocs (pre rz : Bool) (bs : List Nat) :
    (parseWith pre rz bs).2 = [] ∨
    ∃ n r6, r6.length + 19 = bs.length ∧ (parseWith pre rz bs).2 = (readTables pre rz n r6 [] []).2 := by
  unfold parseWith
  cases h4 : takeN 4 bs with
  | none => simp
  | some p4 =>
    obtain ⟨sig, r1⟩ := p4
    simp only
    split
    · simp
    · cases h1 : takeN 1 r1 with
      | none => simp
      | some p1 =>
        obtain ⟨v, r2⟩ := p1
        simp only
        split
        · simp
        · cases h1' : takeN 1 r2 with
          | none => simp
          | some p1' =>
            obtain ⟨t, r3⟩ := p1'
            simp only
            split
            · simp
            · cases h4' : takeN 4 r3 with
              | none => simp
              | some p4' =>
                obtain ⟨k, r4⟩ := p4'
                simp only
                cases h1'' : takeN 1 r4 with
                | none => simp
                | some p1'' =>
                  obtain ⟨nt, r5⟩ := p1''
                  simp only
                  cases h8 : takeN 8 r5 with
                  | none => simp
                  | some p8 =>
                    obtain ⟨occ, r6⟩ := p8
                    simp only
                    right
                    refine ⟨le nt, r6, ?_, ?_⟩
                    · have a := takeN_length h4
                      have b := takeN_length h1
                      have c := takeN_length h1'
                      have d := takeN_length h4'
                      have e := takeN_length h1''
                      have f := takeN_length h8
                      omega
                    · cases hr : readTables pre rz (le nt) r6 [] [] with
                      | mk res allocs => cases res <;> simp

theorem parseWith_false_alloc (rz : Bool) (bs : List Nat) :
    (parseWith false rz bs).2.foldl (· + ·) 0 ≤ bs.length := by
  rcases parseWith_allocs false rz bs with h | ⟨n, r6, hl, h⟩
  · rw [h]; simp
  · rw [h]
    have := readTables_alloc rz n r6 [] []
    simp at this
    omega

/-- **allocation is bounded by the input**, for the reader the source has now -/
theorem alloc_bounded (h : Gen.ngPrealloc = false) (bs : List Nat) : totalAlloc bs ≤ bs.length := by
  unfold totalAlloc parse
  rw [h]
  exact parseWith_false_alloc _ bs

/-- the translator says the current source uses bounded reading -/
theorem current_source_is_bounded : Gen.ngPrealloc = false := by decide

/-- hence, unconditionally for the current source -/
theorem alloc_bounded_current (bs : List Nat) : totalAlloc bs ≤ bs.length :=
  alloc_bounded current_source_is_bounded bs

/-- D19 (repaired): with pre-allocation a 31-byte file whose size field says 2^40 requests 2^37 bytes -/
theorem prealloc_unbounded :
    let hdr : List Nat := [0x4f, 0x58, 0x4c, 0x49, 4, 2, 21, 0, 0, 0, 1, 0, 0, 0, 0, 0, 0, 0, 0]
    let inflated : List Nat := hdr ++ [0, 0, 0, 0, 0, 1, 0, 0] ++ [0, 0, 0, 0]
    inflated.length = 31 ∧ (parseWith true true inflated).2 = [2 ^ 37] ∧
    (parseWith false true inflated).2 = [4] := by
  decide

/-- the current source refuses a table of size zero (every lookup takes the hash modulo the
    table size; an unwrapped panic in `nodegraph_get` used to abort the process: D27, repaired) -/
theorem zero_table_rejected :
    Gen.ngRejectsZeroTable = true ∧
    (parse ([0x4f, 0x58, 0x4c, 0x49, 4, 2, 21, 0, 0, 0, 1, 0, 0, 0, 0, 0, 0, 0, 0] ++
            [0, 0, 0, 0, 0, 0, 0, 0] ++ [0])).1.toOption.isNone = true := by decide

/-- a successfully parsed file has only non-empty tables, whatever the bytes were -/
theorem readTables_nonzero (pre : Bool) (n : Nat) (bs : List Nat) (acc : List (Nat × List Nat)) (allocs : List Nat)
    (tabs : List (Nat × List Nat)) (hacc : ∀ t ∈ acc, t.1 ≠ 0)
    (h : (readTables pre true n bs acc allocs).1 = .ok tabs) : ∀ t ∈ tabs, t.1 ≠ 0 := by
  induction n generalizing bs acc allocs with
  | zero =>
    simp only [readTables] at h
    injection h with h
    subst h
    intro t ht
    exact hacc t (List.mem_reverse.1 ht)
  | succ n ih =>
    unfold readTables at h
    split at h
    · simp at h
    · rename_i szb rest h8
      simp only at h
      split at h
      · simp at h
      · rename_i hz
        split at h
        · simp at h
        · rename_i tb rest' hok
          refine ih rest' ((le szb, tb) :: acc) _ ?_ h
          intro t ht
          rcases List.mem_cons.1 ht with rfl | ht
          · simpa using hz
          · exact hacc t ht

/-! non-vacuity: a well-formed 1-table file parses -/
example :
    (parse ([0x4f, 0x58, 0x4c, 0x49, 4, 2, 21, 0, 0, 0, 1, 3, 0, 0, 0, 0, 0, 0, 0] ++
            [5, 0, 0, 0, 0, 0, 0, 0] ++ [0x15])).1.toOption.map (fun p => (p.ksize, p.occupied, p.tables)) =
      some (21, 3, [(5, [0x15])]) := by decide

end Sm.C20
