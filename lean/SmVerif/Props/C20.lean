/-
C20 — malformed or hostile files produce an error, never a crash or a hang.  PARTIAL by nature.

What a theorem can carry here is the decision + resource behaviour of the hand-written binary
reader that takes sizes from the file (`Nodegraph::from_reader`):
* it is total (a structurally recursive function of the input: no input makes it loop),
* with the bounded-read discipline the source has now (`Gen.ngPrealloc = false`, re-read from the
  source by the translator on every run) the memory it requests is bounded by the input length,
  whatever the size fields say (`alloc_bounded`),
* with the pre-allocating discipline it had before the repair of D19 it is not
  (`prealloc_unbounded`: a 31-byte input requests 2^37 bytes).
Memory safety of native code, third-party decoders (zip, gzip, sqlite, serde_json) and the
allocator are outside any model; the crash-isolated differential run in `props/C20.py` observes
them (signals, timeouts, address-space limit) and is labelled as testing in the evidence.

Second part (sections `manifest`, `picklist`, `lca`, `sbt`, `chain` below): the other hand-written
readers — `CollectionManifest.load_from_csv`, `SignaturePicklist.from_picklist_args/.load`,
`LCA_Database.load`, `SBT.load/_load_v1.._v6`, `_load_database` — as decision + work models over
what the trusted decoders (UTF-8 text layer, csv, json, file system, `ast.literal_eval` as an oracle
with a stated exception range) report.  For each:
* `…_classes`: every exception that can escape belongs to an explicit list of Python classes (all
  `Exception` subclasses: "ordinary catchable errors"), and `…_classes_tight`: each listed class
  does escape for some input (kernel-checked witness) — so the lists are exact for the model;
* `…_accepts`: what an accepted file is guaranteed to contain;
* `…_work`: loop iterations ≤ c·|input| — or, where that is false, the counterexample family
  (`sbt_children_cost_unbounded` = D26, `sbt_missing_range_unbounded` = C20.1).
Two repairs made since are selected by the translator (`Gen.c20ManifestLitCaught`, `Gen.c20PeekIncremental`);
the pre-repair variants stay as regression theorems (`manifest_classes_unwrapped`, `picklist_peek_edge`).
The models are total Lean functions defined by structural recursion (no fuel, no `partial`): no
input makes a modelled reader loop.  The tie to the code is the translator (59 pinned source
definitions + extracted literals) and the differential run of model vs reader on every mutated file.
-/
import SmVerif.Model.NgReader
import SmVerif.Model.LoaderChain
import SmVerif.Model.SbtNodes
import SmVerif.Lemmas.C20Readers

namespace Sm.C20

open Sm.Ng

theorem takeN_length {n : Nat} {bs a b : List Nat} (h : takeN n bs = some (a, b)) :
    a.length = n ∧ b.length + n = bs.length := by
  unfold takeN at h
  split at h
  · cases h
  · injection h with h
    injection h with h1 h2
    subst h1; subst h2
    simp [List.length_take, List.length_drop]
    omega

theorem sum_append_single (l : List Nat) (x : Nat) : (l ++ [x]).foldl (· + ·) 0 = l.foldl (· + ·) 0 + x := by
  simp [List.foldl_append]

/-- bounded reading: whatever the size fields claim, the buffers requested while reading the tables
    add up to at most the bytes that are actually there -/
theorem readTables_alloc (rz : Bool) (n : Nat) (bs : List Nat) (acc : List (Nat × List Nat)) (allocs : List Nat) :
    (readTables false rz n bs acc allocs).2.foldl (· + ·) 0 ≤ allocs.foldl (· + ·) 0 + bs.length := by
  induction n generalizing bs acc allocs with
  | zero => simp [readTables]
  | succ n ih =>
    unfold readTables
    split
    · simp
    · rename_i szb rest h8
      have h8' := takeN_length h8
      simp only
      split
      · simp only; omega
      · split
        · rename_i hfail
          simp only [sum_append_single, Bool.false_eq_true, if_false]
          have : min (le szb / 8 + 1) rest.length ≤ rest.length := Nat.min_le_right _ _
          omega
        · rename_i tb rest' hok
          have hok' := takeN_length hok
          have := ih rest' ((le szb, tb) :: acc) (allocs ++ [if false = true then (le szb / 8 + 1) / 4 * 4 else min (le szb / 8 + 1) rest.length])
          simp only [sum_append_single, Bool.false_eq_true, if_false] at this ⊢
          have hm : min (le szb / 8 + 1) rest.length ≤ le szb / 8 + 1 := Nat.min_le_left _ _
          omega

/-- what `parseWith` requests is what `readTables` requests on a suffix of the input (or nothing) -/
theorem parseWith_allocs (pre rz : Bool) (bs : List Nat) :
    (parseWith pre rz bs).2 = [] ∨
    ∃ n r6, r6.length + 19 = bs.length ∧ (parseWith pre rz bs).2 = (readTables pre rz n r6 [] []).2 := by
  unfold parseWith
  cases h4 : takeN 4 bs with
  | none => simp
  | some p4 =>
    obtain ⟨sig, r1⟩ := p4
    simp only
    split
    · simp
    · cases h1 : takeN 1 r1 with
      | none => simp
      | some p1 =>
        obtain ⟨v, r2⟩ := p1
        simp only
        split
        · simp
        · cases h1' : takeN 1 r2 with
          | none => simp
          | some p1' =>
            obtain ⟨t, r3⟩ := p1'
            simp only
            split
            · simp
            · cases h4' : takeN 4 r3 with
              | none => simp
              | some p4' =>
                obtain ⟨k, r4⟩ := p4'
                simp only
                cases h1'' : takeN 1 r4 with
                | none => simp
                | some p1'' =>
                  obtain ⟨nt, r5⟩ := p1''
                  simp only
                  cases h8 : takeN 8 r5 with
                  | none => simp
                  | some p8 =>
                    obtain ⟨occ, r6⟩ := p8
                    simp only
                    right
                    refine ⟨le nt, r6, ?_, ?_⟩
                    · have a := takeN_length h4
                      have b := takeN_length h1
                      have c := takeN_length h1'
                      have d := takeN_length h4'
                      have e := takeN_length h1''
                      have f := takeN_length h8
                      omega
                    · cases hr : readTables pre rz (le nt) r6 [] [] with
                      | mk res allocs => cases res <;> simp

theorem parseWith_false_alloc (rz : Bool) (bs : List Nat) :
    (parseWith false rz bs).2.foldl (· + ·) 0 ≤ bs.length := by
  rcases parseWith_allocs false rz bs with h | ⟨n, r6, hl, h⟩
  · rw [h]; simp
  · rw [h]
    have := readTables_alloc rz n r6 [] []
    simp at this
    omega

/-- **allocation is bounded by the input**, for the reader the source has now -/
theorem parse_allocs (bs : List Nat) : (parse bs).2 = (parseWith Gen.ngPrealloc Gen.ngRejectsZeroTable bs).2 := by
  unfold parse
  split
  · split <;> simp_all
  · rfl

theorem alloc_bounded (h : Gen.ngPrealloc = false) (bs : List Nat) : totalAlloc bs ≤ bs.length := by
  unfold totalAlloc
  rw [parse_allocs, h]
  exact parseWith_false_alloc _ bs

/-- the translator says the current source uses bounded reading -/
theorem current_source_is_bounded : Gen.ngPrealloc = false := by decide

/-- hence, unconditionally for the current source -/
theorem alloc_bounded_current (bs : List Nat) : totalAlloc bs ≤ bs.length :=
  alloc_bounded current_source_is_bounded bs

/-- D19 (repaired): with pre-allocation a 31-byte file whose size field says 2^40 requests 2^37 bytes -/
theorem prealloc_unbounded :
    let hdr : List Nat := [0x4f, 0x58, 0x4c, 0x49, 4, 2, 21, 0, 0, 0, 1, 0, 0, 0, 0, 0, 0, 0, 0]
    let inflated : List Nat := hdr ++ [0, 0, 0, 0, 0, 1, 0, 0] ++ [0, 0, 0, 0]
    inflated.length = 31 ∧ (parseWith true true inflated).2 = [2 ^ 37] ∧
    (parseWith false true inflated).2 = [4] := by
  decide

/-- the current source refuses a table of size zero (every lookup takes the hash modulo the
    table size; an unwrapped panic in `nodegraph_get` used to abort the process: D27, repaired) -/
theorem zero_table_rejected :
    Gen.ngRejectsZeroTable = true ∧
    (parse ([0x4f, 0x58, 0x4c, 0x49, 4, 2, 21, 0, 0, 0, 1, 0, 0, 0, 0, 0, 0, 0, 0] ++
            [0, 0, 0, 0, 0, 0, 0, 0] ++ [0])).1.toOption.isNone = true := by decide

/-- a successfully parsed file has only non-empty tables, whatever the bytes were -/
theorem readTables_nonzero (pre : Bool) (n : Nat) (bs : List Nat) (acc : List (Nat × List Nat)) (allocs : List Nat)
    (tabs : List (Nat × List Nat)) (hacc : ∀ t ∈ acc, t.1 ≠ 0)
    (h : (readTables pre true n bs acc allocs).1 = .ok tabs) : ∀ t ∈ tabs, t.1 ≠ 0 := by
  induction n generalizing bs acc allocs with
  | zero =>
    simp only [readTables] at h
    injection h with h
    subst h
    intro t ht
    exact hacc t (List.mem_reverse.1 ht)
  | succ n ih =>
    unfold readTables at h
    split at h
    · simp at h
    · rename_i szb rest h8
      simp only at h
      split at h
      · simp at h
      · rename_i hz
        split at h
        · simp at h
        · rename_i tb rest' hok
          refine ih rest' ((le szb, tb) :: acc) _ ?_ h
          intro t ht
          rcases List.mem_cons.1 ht with rfl | ht
          · simpa using hz
          · exact hacc t ht

/-
FULL STATEMENT (not proved / false): "an accepted nodegraph file has at least one table".
False for the code that exists (finding C20.9): a file that declares n_tables = 0 is accepted (there is nothing to read),
and `expected_collisions` — `self.bs.iter().map(|x| x.len()).min().unwrap()` inside an `extern "C"` function without the
panic landing pad — aborts the process on the first use.
-/
theorem no_tables_accepted :
    Gen.ngRejectsNoTables = false ∧
    (parse [0x4f, 0x58, 0x4c, 0x49, 4, 2, 21, 0, 0, 0, 0, 0, 0, 0, 0, 0, 0, 0, 0]).1.toOption.map (·.tables) = some [] := by
  decide

/-! #### HyperLogLog::from_reader -/

def hllHeader (p q : Nat) : List Nat := [0x48, 0x4c, 0x4c, 1, p, q, 21]

/-- the header checks of the repaired variant bound the allocation by 2^18 whatever the file says -/
theorem hll_alloc_bounded_when_checked (cr : Bool) (bs : List Nat) : (hllParseWith true cr bs).2 ≤ 2 ^ 18 := by
  unfold hllParseWith
  split
  · rename_i s0 s1 s2 v p q k rest
    split
    · simp
    split
    · simp
    split
    · simp
    · rename_i hb
      have hp : 4 ≤ p ∧ p ≤ 18 := by
        simp at hb
        omega
      have hmod : p % 64 = p := Nat.mod_eq_of_lt (by omega)
      have hle : 2 ^ (p % 64) ≤ 2 ^ 18 := by rw [hmod]; exact Nat.pow_le_pow_right (by omega) hp.2
      simp only []
      split
      · exact hle
      · split <;> exact hle
  · simp

/-
FULL STATEMENT (not proved / false): `(hllParse bs).2 ≤ c * bs.length + c'` — the memory the HyperLogLog reader requests
is bounded by the input.  False for the code that exists (finding C20.8): p is not checked; a 7-byte header with p = 40
requests 2^40 zero-filled bytes before a single register is read (abort in the allocator), p = 64 wraps to a shift by 0;
registers are not checked either (a register above q + 1 indexes past the estimator's table: panic in an unwrapped
`extern "C"` function, abort).
-/
theorem hll_alloc_unbounded :
    (hllParseWith false false (hllHeader 40 24)).2 = 2 ^ 40 ∧ (hllHeader 40 24).length = 7 ∧
    (hllParseWith true true (hllHeader 40 24)).1.toOption = none ∧
    -- a register of 200 with q = 60 is accepted by the unchecked variant, refused by the repaired one
    (hllParseWith false false (hllHeader 4 60 ++ List.replicate 15 0 ++ [200])).1.toOption.map (·.registers.getLast?) = some (some 200) ∧
    (hllParseWith true true (hllHeader 4 60 ++ List.replicate 15 0 ++ [200])).1.toOption = none ∧
    (hllParseWith true true (hllHeader 4 60 ++ List.replicate 16 3)).1.toOption.map (·.p) = some 4 := by
  decide +kernel

/-- the current source (re-read by the translator on every run) has both checks (fix of C20.8); reverting either
    makes this obligation fail, and the stream then finds the 7-byte header that aborts the process -/
theorem hll_reader_current : Gen.hllChecksHeader = true ∧ Gen.hllChecksRegisters = true := by decide

/-- **zip members**: the current source reads a member into a buffer that grows with the data (re-read by the
    translator on every run), so what it requests is bounded by what the member really holds, whatever size the zip
    directory declares -/
theorem zip_load_alloc_bounded (declared actual : Nat) :
    Gen.zipLoadPrealloc = false ∧ zipLoadRequest declared actual ≤ actual := by
  have h : Gen.zipLoadPrealloc = false := by decide
  refine ⟨h, ?_⟩
  unfold zipLoadRequest zipLoadRequestWith
  rw [h]
  simp

/-- seeded C20e as a counterexample: pre-allocating from the declared size requests 2^60 bytes for a 100-byte member -/
theorem zip_load_prealloc_unbounded : zipLoadRequestWith true (2 ^ 60) 100 = 2 ^ 60 ∧ zipLoadRequestWith false (2 ^ 60) 100 = 100 := by
  decide

/-! non-vacuity: a well-formed 1-table file parses -/
example :
    (parse ([0x4f, 0x58, 0x4c, 0x49, 4, 2, 21, 0, 0, 0, 1, 3, 0, 0, 0, 0, 0, 0, 0] ++
            [5, 0, 0, 0, 0, 0, 0, 0] ++ [0x15])).1.toOption.map (fun p => (p.ksize, p.occupied, p.tables)) =
      some (21, 3, [(5, [0x15])]) := by decide


/-! ## Second part: the text readers -/

open Sm.Py Sm.CsvR Sm.JsonR

/-- the class of the exception a reader step raises, if it raises -/
def excOf {α : Type} (r : R α) : Option Cls :=
  match r with
  | .error (.exc c) => some c
  | _ => none

def okOf {α : Type} (r : R α) : Option α :=
  match r with
  | .ok a => some a
  | _ => none

theorem excOf_within {α : Type} {L : List Cls} {r : R α} (h : Within L r) {c : Cls} (hc : excOf r = some c) : c ∈ L := by
  unfold excOf at hc
  split at hc
  · injection hc with hc; subst hc; exact h _ rfl
  · cases hc

/-! ### manifest CSV: `CollectionManifest.load_from_csv` -/

/-- the concrete (partial) model of `bool(ast.literal_eval(cell))` used by the driver stays inside the
    exception range assumed of the oracle -/
theorem litModel_range : LitOk litModel := by
  intro cell c
  unfold litModel
  (repeat' (first | split | simp only [])) <;>
    (intro h; first | (cases h; done) | (injection h with h; subst h; simp [litClasses]))

/-- the classes wrapped into ValueError around the `with_abundance` conversion since the repair of C20.2 -/
def wrapped : List Cls := [.SyntaxError, .MemoryError, .RecursionError, .TypeError]

/-- … and that is what the current source has (re-read by the translator on every run).  Theorems that depend on the
    variant are stated for the explicit list (`loadManifestV wrapped`, `loadManifestV []`) and tied to the source
    through this one small fact, so that a change of variant fails here, cheaply, and nowhere else. -/
theorem manifest_wraps : litCaught = wrapped := by decide

theorem wrapped_classes : ∀ c ∈ manifestClassesV wrapped, c ∈ [Cls.ValueError, .TypeError, .CsvError, .UnicodeDecodeError] := by
  decide

/-- **escaping classes, current source.**  Whatever the file holds, and for every `literal_eval` oracle inside its
    documented range, an exception leaving `load_from_csv` is a ValueError, a TypeError (`int(None)` on a row cut
    short), csv.Error, or UnicodeDecodeError (a ValueError subclass).  No KeyError: the required-columns check makes
    every later `row[k]` succeed.  No SyntaxError / MemoryError / RecursionError any more: they are wrapped.
    (`docIo doc`: what the byte stream under the text hands in when it is a gzip stream that fails — EOFError,
    zlib.error, BadGzipFile; empty for a plain file or a string.) -/
theorem manifest_classes {lit : Cell → Lit} (hl : LitOk lit) (doc : CsvDoc) {c : Cls}
    (h : excOf (loadManifest lit doc).res = some c) :
    c ∈ [Cls.ValueError, .TypeError, .CsvError, .UnicodeDecodeError] ∨ c ∈ docIo doc := by
  have := excOf_within (loadManifestV_within (caught := litCaught) hl doc) h
  rw [manifest_wraps] at this
  rcases List.mem_append.1 this with h1 | h2
  · exact Or.inl (wrapped_classes c h1)
  · exact Or.inr h2

/-- **regression / the variant before the repair of C20.2** (bare `literal_eval`): the oracle's SyntaxError,
    MemoryError and RecursionError escape as they are -/
theorem manifest_classes_unwrapped {lit : Cell → Lit} (hl : LitOk lit) (doc : CsvDoc) {c : Cls}
    (h : excOf (loadManifestV [] lit doc).res = some c) :
    c ∈ [Cls.ValueError, .TypeError, .CsvError, .UnicodeDecodeError, .SyntaxError, .MemoryError, .RecursionError] ∨ c ∈ docIo doc := by
  have := excOf_within (loadManifestV_within (caught := []) hl doc) h
  rcases List.mem_append.1 this with h1 | h2
  · exact Or.inl ((by decide : ∀ c ∈ manifestClassesV [], c ∈ [Cls.ValueError, .TypeError, .CsvError, .UnicodeDecodeError, .SyntaxError, .MemoryError, .RecursionError]) c h1)
  · exact Or.inr h2

/-
FULL STATEMENT (not proved / false): "every refusal of a malformed manifest is a ValueError".
False for the code that exists: a row shorter than the header makes `int(None)` raise TypeError (and csv.Error is
not a ValueError either).  Before the repair of C20.2 also: the `with_abundance` cell went through a bare
`ast.literal_eval`, whose SyntaxError / MemoryError / RecursionError escaped (`manifest_classes_tight`, second half).
-/

def mfHeader : List Cell :=
  ["internal_location", "md5", "md5short", "ksize", "moltype", "num", "scaled", "n_hashes", "with_abundance", "name", "filename"].map String.toList

def mfDoc (rows : List Row) (tail : Tail := .eof) : CsvDoc :=
  ⟨.line "# SOURMASH-MANIFEST-VERSION: 1.0\n".toList, mfHeader :: rows, tail⟩

def cells (l : List String) : Row := l.map String.toList

/-- kernel-checked counterexamples to the full statement, and witnesses that every listed class escapes -/
theorem manifest_classes_tight :
    -- a good row loads
    okOf (loadManifestV wrapped litModel (mfDoc [cells ["loc", "m", "m", "21", "DNA", "0", "1", "5", "True", "n", "f"]])).res
      = some [⟨0, 1, 21, 5, true⟩] ∧
    -- no version header / version 1.1 / a required column missing / a non-integer cell: ValueError
    excOf (loadManifestV wrapped litModel ⟨.line "md5,name\n".toList, [], .eof⟩).res = some .ValueError ∧
    excOf (loadManifestV wrapped litModel ⟨.line "# SOURMASH-MANIFEST-VERSION: 1.1\n".toList, [mfHeader], .eof⟩).res = some .ValueError ∧
    excOf (loadManifestV wrapped litModel ⟨.line "# SOURMASH-MANIFEST-VERSION: 1.0\n".toList, [mfHeader.drop 1], .eof⟩).res = some .ValueError ∧
    excOf (loadManifestV wrapped litModel (mfDoc [cells ["loc", "m", "m", "x", "DNA", "0", "1", "5", "True", "n", "f"]])).res = some .ValueError ∧
    -- a row cut short before an integer column: TypeError
    excOf (loadManifestV wrapped litModel (mfDoc [cells ["loc", "m", "m", "21", "DNA", "0", "1"]])).res = some .TypeError ∧
    -- an empty `with_abundance` cell, a keyword, or what literal_eval raises on deep nesting (here through an oracle that
    -- says MemoryError): ValueError with the wrapping the current source has (`manifest_wraps`) …
    excOf (loadManifestV wrapped litModel (mfDoc [cells ["loc", "m", "m", "21", "DNA", "0", "1", "5", "", "n", "f"]])).res = some .ValueError ∧
    excOf (loadManifestV wrapped litModel (mfDoc [cells ["loc", "m", "m", "21", "DNA", "0", "1", "5", "if", "n", "f"]])).res = some .ValueError ∧
    excOf (loadManifestV wrapped (fun _ => .exc .MemoryError) (mfDoc [cells ["loc", "m", "m", "21", "DNA", "0", "1", "5", "-", "n", "f"]])).res
      = some .ValueError ∧
    -- … SyntaxError / MemoryError with the bare call of before the repair (C20.2)
    excOf (loadManifestV [] litModel (mfDoc [cells ["loc", "m", "m", "21", "DNA", "0", "1", "5", "", "n", "f"]])).res = some .SyntaxError ∧
    excOf (loadManifestV [] (fun _ => .exc .MemoryError) (mfDoc [cells ["loc", "m", "m", "21", "DNA", "0", "1", "5", "-", "n", "f"]])).res
      = some .MemoryError ∧
    -- the csv module / the text decoder failing after the rows read so far
    excOf (loadManifestV wrapped litModel (mfDoc [] .csvError)).res = some .CsvError ∧
    excOf (loadManifestV wrapped litModel (mfDoc [] .decodeError)).res = some .UnicodeDecodeError := by
  decide +kernel

/-- **an accepted manifest**: the header carries every required column, the reader saw the end of the file
    (no decoder / csv error was swallowed), and the result is exactly the conversion of the non-blank data rows,
    in each of which the four integer columns are present as cells and parse as Python ints -/
theorem manifest_accepts {lit : Cell → Lit} {doc : CsvDoc} {out : List MfRow} (h : (loadManifest lit doc).res = .ok out) :
    ∃ fields rest, doc.rows = fields :: rest ∧ (∀ k ∈ requiredKeys, k ∈ fields) ∧ doc.tail = .eof ∧
      (rest.filter (fun r => !r.isEmpty)).map (convertRow litCaught lit fields) = out.map Except.ok ∧
      ∀ r ∈ rest.filter (fun r => !r.isEmpty), ∀ k ∈ intCols, ∃ c i, cellOf fields r k = some (some c) ∧ pyIntStr c = .ok i := by
  obtain ⟨fields, rest, hrows, hmk, htail, hmap⟩ := loadManifest_ok (caught := litCaught) h
  refine ⟨fields, rest, hrows, ?_, htail, hmap, ?_⟩
  · intro k hk
    have := missingKey_false hmk hk
    simpa using this
  · intro r hr
    have : convertRow litCaught lit fields r ∈ (rest.filter (fun r => !r.isEmpty)).map (convertRow litCaught lit fields) := List.mem_map_of_mem hr
    rw [hmap] at this
    obtain ⟨m, _, hm⟩ := List.mem_map.1 this
    exact convertRow_ok hm.symm

/-
FULL STATEMENT (not proved / false): "an accepted manifest has all required columns in every row".
False for the code that exists: DictReader pads a short row with `None`, `int()` refuses `None` but
`str(None)` evaluates to `None` -> False, and `name` / `filename` / `md5` … are not looked at: a row that stops
after `n_hashes` is accepted with `with_abundance = False`, `name = None`, `filename = None`.
-/
theorem manifest_short_row_accepted :
    okOf (loadManifestV wrapped litModel (mfDoc [cells ["loc", "m", "m", "21", "DNA", "0", "1", "5"]])).res = some [⟨0, 1, 21, 5, false⟩] ∧
    cellOf mfHeader (cells ["loc", "m", "m", "21", "DNA", "0", "1", "5"]) "name".toList = some none := by
  decide +kernel

/-- **work**: one pass over the rows the csv reader yields, plus the header checks -/
theorem manifest_work (lit : Cell → Lit) (doc : CsvDoc) :
    (loadManifest lit doc).work ≤ doc.rows.length + requiredKeys.length + 2 :=
  loadManifest_work lit doc

/-- `float(version) == 1.0`: which version strings pass (IEEE round-to-nearest-even: the interval
    [1 - 2^-54, 1 + 2^-53] around 1, both ends included), which are refused -/
theorem manifest_version_examples :
    okOf (versionIsOne "1.0".toList) = some true ∧ okOf (versionIsOne "1".toList) = some true ∧ okOf (versionIsOne "1e0".toList) = some true ∧
    okOf (versionIsOne " +1.000 ".toList) = some true ∧
    okOf (versionIsOne "1.00000000000000011102230246251565404236316680908203125".toList) = some true ∧
    okOf (versionIsOne "1.000000000000000111022302462515654042363166809082031250001".toList) = some false ∧
    okOf (versionIsOne "0.999999999999999944488848768742172978818416595458984375".toList) = some true ∧
    okOf (versionIsOne "0.99999999999999994448884876874217297881841659545898437499".toList) = some false ∧
    okOf (versionIsOne "1.1".toList) = some false ∧ okOf (versionIsOne "nan".toList) = some false ∧ okOf (versionIsOne "".toList) = some false ∧
    okOf (versionIsOne "0x1".toList) = some false ∧ okOf (versionIsOne "1\x1c".toList) = some false := by
  decide +kernel

/-! ### manifest by file name: `CollectionManifest.load_from_filename` -/

/-- **escaping classes**: those of `load_from_csv`, what the SQLite probe lets out, what the (gzip) byte stream hands in -/
theorem manifest_file_classes {lit : Cell → Lit} (hl : LitOk lit) (f : MfFile) {c : Cls}
    (h : excOf (loadManifestFile lit f).res = some c) :
    c ∈ [Cls.ValueError, .TypeError, .CsvError, .UnicodeDecodeError] ∨ f.sql = .raises c ∨ c ∈ docIo f.plain ∨ c ∈ docIo f.gz := by
  unfold loadManifestFile at h
  split at h
  · simp [excOf, decline] at h
  · rename_i c' hs
    simp [excOf, raise] at h
    subst h
    exact Or.inr (Or.inl hs)
  · split at h
    · rcases manifest_classes hl _ h with h | h
      · exact Or.inl h
      · exact Or.inr (Or.inr (Or.inr h))
    · rcases manifest_classes hl _ h with h | h
      · exact Or.inl h
      · exact Or.inr (Or.inr (Or.inl h))

def goodRow : Row := cells ["loc", "m", "m", "21", "DNA", "0", "1", "5", "True", "n", "f"]

/-- **the NAME decides, not the content**: the same good manifest text is refused with BadGzipFile (an OSError)
    when the file is called `*.gz`, and gzip bytes under a plain name end in UnicodeDecodeError; a gzip stream that
    breaks off hands its EOFError through after the rows read so far -/
theorem manifest_file_by_name :
    okOf (loadManifestFile litModel ⟨"m.csv".toList, .notSqlite, mfDoc [goodRow], ⟨.ioError .BadGzipFile, [], .eof⟩⟩).res = some [⟨0, 1, 21, 5, true⟩] ∧
    excOf (loadManifestFile litModel ⟨"m.csv.gz".toList, .notSqlite, mfDoc [goodRow], ⟨.ioError .BadGzipFile, [], .eof⟩⟩).res = some .BadGzipFile ∧
    okOf (loadManifestFile litModel ⟨"m.csv.gz".toList, .notSqlite, ⟨.decodeError, [], .eof⟩, mfDoc [goodRow]⟩).res = some [⟨0, 1, 21, 5, true⟩] ∧
    excOf (loadManifestFile litModel ⟨"m.csv".toList, .notSqlite, ⟨.decodeError, [], .eof⟩, mfDoc [goodRow]⟩).res = some .UnicodeDecodeError ∧
    excOf (loadManifestFile litModel ⟨"m.csv.gz".toList, .notSqlite, ⟨.decodeError, [], .eof⟩, mfDoc [goodRow] (.ioError .EOFError)⟩).res = some .EOFError ∧
    excOf (loadManifestFile litModel ⟨"m.csv".toList, .raises .OperationalError, mfDoc [goodRow], mfDoc [goodRow]⟩).res = some .OperationalError := by
  decide +kernel

/-! ### picklist: `SignaturePicklist.from_picklist_args`, `.load` -/

/-- the argument string `file:col:coltype[:style]`: the only refusal is ValueError (the `preprocess[coltype]`
    lookup cannot fail for a coltype that passed the validity check) -/
theorem picklist_args_classes (argstr : List Char) {c : Cls} (h : excOf (fromArgs argstr) = some c) : c = .ValueError := by
  have := excOf_within (fromArgs_within argstr) h
  simpa using this

/-- **escaping classes** of `load()` (`pickIo doc`: the gzip probe's own failure other than BadGzipFile, or a gzip
    stream failing while it is read; empty for a plain file) -/
theorem picklist_classes (pl : Picklist) (doc : PickDoc) {c : Cls} (h : excOf (loadPicklist pl doc).res = some c) :
    c ∈ [Cls.ValueError, .CsvError, .AssertionError, .UnicodeDecodeError, .KeyError, .AttributeError, .TypeError] ∨ c ∈ pickIo doc := by
  have := excOf_within (loadPicklist_within pl doc) h
  exact List.mem_append.1 this

def plOf (a : String) : Picklist :=
  match fromArgs a.toList with
  | .ok p => p
  | .error _ => ⟨[], [], [], .incl⟩

def pickDoc (rows : List Row) (tail : Tail := .eof) : PickDoc := ⟨true, none, true, true, .line [], false, [], .eof, rows, tail⟩

theorem picklist_classes_tight :
    -- argument strings
    excOf (fromArgs "f.csv:md5".toList) = some .ValueError ∧ excOf (fromArgs "f.csv:md5:md5:sometimes".toList) = some .ValueError ∧
    excOf (fromArgs "f.csv:md5:sha1".toList) = some .ValueError ∧ excOf (fromArgs "f.csv:name:gather".toList) = some .ValueError ∧
    (okOf (fromArgs "f.csv:md5:md5:exclude".toList)).map (·.style) = some .excl ∧
    (okOf (fromArgs "f.csv::manifest".toList)).map (·.coltype) = some "manifest".toList ∧
    -- a good file: one empty value, one duplicate
    (okOf (loadPicklistV true (plOf "f:md5:md5") (pickDoc [cells ["md5", "x"], cells ["a", "1"], cells ["", "2"], cells ["a", "3"], cells ["b"]])).res).map
      (fun r => (r.nEmpty, r.dups.length, r.pickset.length)) = some (1, 1, 2) ∧
    -- not a file / empty file / column absent: ValueError
    excOf (loadPicklistV true (plOf "f:md5:md5") { pickDoc [] with isFile := false }).res = some .ValueError ∧
    excOf (loadPicklistV true (plOf "f:md5:md5") (pickDoc [])).res = some .ValueError ∧
    excOf (loadPicklistV true (plOf "f:md5:md5") (pickDoc [cells ["name"]])).res = some .ValueError ∧
    -- first buffered chunk not UTF-8 in any continuation: csv.Error; `#x` first line: AssertionError
    excOf (loadPicklistV true (plOf "f:md5:md5") { pickDoc [] with peekStrictOk := false, peekIncrOk := false }).res = some .CsvError ∧
    excOf (loadPicklistV true (plOf "f:md5:md5") { pickDoc [] with startsHash := true, first := .line "#x\n".toList }).res = some .AssertionError ∧
    excOf (loadPicklistV true (plOf "f:md5:md5") (pickDoc [cells ["md5"]] .decodeError)).res = some .UnicodeDecodeError ∧
    -- the gzip probe failing with something other than BadGzipFile (a file that stops inside the gzip header)
    excOf (loadPicklistV true (plOf "f:md5:md5") { pickDoc [] with sniff := some .EOFError }).res = some .EOFError ∧
    excOf (loadPicklistV true (plOf "f:md5:md5") (pickDoc [cells ["md5"], cells ["a"]] (.ioError .ZlibError))).res = some .ZlibError ∧
    -- meta-coltypes skip the column check: KeyError / AttributeError / TypeError from the rows
    excOf (loadPicklistV true (plOf "f::manifest") (pickDoc [cells ["md5"], cells ["a"]])).res = some .KeyError ∧
    excOf (loadPicklistV true (plOf "f::manifest") (pickDoc [cells ["md5", "name"], cells ["a"]])).res = some .AttributeError ∧
    excOf (loadPicklistV true (plOf "f::manifest") (pickDoc [cells ["name", "md5"], cells ["a"]])).res = some .TypeError := by
  decide +kernel

/-- **the peeked chunk** (repair of C20.4): the current source decodes it incrementally, so a valid UTF-8 file whose
    first buffered chunk ends inside a multi-byte character loads; with the strict decoding of before the repair the
    same file was refused with csv.Error -/
theorem picklist_peek_edge :
    Gen.c20PeekIncremental = true ∧
    (okOf (loadPicklistV true (plOf "f:md5:md5") { pickDoc [cells ["md5"], cells ["a"]] with peekStrictOk := false }).res).map (·.pickset.length) = some 1 ∧
    excOf (loadPicklistV false (plOf "f:md5:md5") { pickDoc [cells ["md5"], cells ["a"]] with peekStrictOk := false }).res = some .CsvError := by
  refine ⟨by decide, ?_⟩
  decide +kernel

/-- **work**: one pass over the rows -/
theorem picklist_work (pl : Picklist) (doc : PickDoc) :
    (loadPicklist pl doc).work ≤ doc.rowsRest.length + doc.rowsAll.length + 2 :=
  loadPicklist_work pl doc

/-! ### LCA database JSON: `LCA_Database.load` -/

/-- **escaping classes** (the SQLite probe's own non-ValueError exceptions pass through unchanged) -/
theorem lca_classes (f : LcaFile) {c : Cls} (h : excOf (loadLca f).res = some c) :
    c ∈ [Cls.ValueError, .TypeError, .KeyError, .AttributeError, .IndexError, .OverflowError, .AssertionError,
         .RecursionError, .UnicodeDecodeError] ∨ f.sqlite = .raises c := by
  unfold loadLca at h
  split at h
  · left; simp [excOf, raise] at h; subst h; simp
  split at h
  · simp [excOf, decline] at h
  · rename_i c' hs
    split at h
    · simp [excOf, decline] at h
    · right; simp [excOf, raise] at h; subst h; exact hs
  · split at h
    · left; simp [excOf, raise] at h; subst h; simp
    · left; simp [excOf, raise] at h; subst h; simp
    · split at h
      · left; simp [excOf, raise] at h; subst h; simp
      · split at h
        any_goals (left; simp [excOf, raise] at h; subst h; simp)
        left
        have := excOf_within (loadLcaDoc_within _) h
        simp [lcaDocClasses] at this
        rcases this with rfl | rfl | rfl | rfl | rfl | rfl | rfl <;> simp

def J.set (k : List Char) (v : J) : J → J
  | .obj kvs => .obj (if (lookup k kvs).isSome then kvs.map (fun p => if p.1 == k then (k, v) else p) else kvs ++ [(k, v)])
  | x => x

def J.del (k : List Char) : J → J
  | .obj kvs => .obj (kvs.filter (fun p => p.1 != k))
  | x => x

/-- a small valid LCA database document -/
def lcaBase : J :=
  .obj [(s "version", .str (s "2.1")), (s "type", .str (s "sourmash_lca")), (s "license", .str (s "CC0")),
        (s "ksize", .int 21), (s "scaled", .int 1), (s "moltype", .str (s "DNA")),
        (s "lid_to_lineage", .obj [(s "0", .arr [.arr [.str (s "superkingdom"), .str (s "Bacteria")]])]),
        (s "hashval_to_idx", .obj [(s "5", .arr [.int 0])]),
        (s "ident_to_name", .obj [(s "a", .str (s "b"))]),
        (s "ident_to_idx", .obj [(s "a", .int 0)]),
        (s "idx_to_lid", .obj [(s "0", .int 0)])]

def lcaFile (d : J) : LcaFile := ⟨true, .valueError, .text '{' (.doc d)⟩

set_option exponentiation.threshold 2000 in
/-- every listed class does escape; `license` is never looked at; `version` is compared as a double -/
theorem lca_classes_tight :
    okOf (loadLca (lcaFile lcaBase)).res = some ⟨21, 1, 1, 1, 1, some 1, some 1⟩ ∧
    okOf (loadLca (lcaFile (J.del (s "license") lcaBase))).res = some ⟨21, 1, 1, 1, 1, some 1, some 1⟩ ∧
    Gen.c20LcaChecksLicense = false ∧
    okOf (loadLca (lcaFile (J.set (s "version") (.str (s "1.99999999999999988897769753748434595763683319091796875")) lcaBase))).res
      = some ⟨21, 1, 1, 1, 1, some 1, some 1⟩ ∧
    excOf (loadLca (lcaFile (J.set (s "version") (.str (s "1.9")) lcaBase))).res = some .ValueError ∧
    excOf (loadLca (lcaFile (J.set (s "type") (.str (s "other")) lcaBase))).res = some .ValueError ∧
    excOf (loadLca ⟨true, .valueError, .text '[' .jsonError⟩).res = some .ValueError ∧
    excOf (loadLca ⟨false, .valueError, .empty⟩).res = some .ValueError ∧
    excOf (loadLca (lcaFile (J.del (s "version") lcaBase))).res = some .TypeError ∧
    excOf (loadLca (lcaFile (J.del (s "ksize") lcaBase))).res = some .KeyError ∧
    excOf (loadLca (lcaFile (J.set (s "hashval_to_idx") (.arr []) lcaBase))).res = some .AttributeError ∧
    excOf (loadLca (lcaFile (J.set (s "lid_to_lineage") (.obj [(s "0", .str (s "a"))]) lcaBase))).res = some .IndexError ∧
    excOf (loadLca (lcaFile (J.set (s "version") (.int (2 ^ 1024)) lcaBase))).res = some .OverflowError ∧
    excOf (loadLca (lcaFile (J.set (s "moltype") (.str (s "protein")) (J.set (s "ksize") (.int 22) lcaBase)))).res = some .AssertionError ∧
    (okOf (loadLca (lcaFile (J.set (s "moltype") (.str (s "protein")) (J.set (s "ksize") (.int (3 * (2 ^ 53 + 1))) lcaBase)))).res).map (·.ksize)
      = some (2 ^ 53) ∧
    excOf (loadLca ⟨true, .valueError, .text '{' .recursion⟩).res = some .RecursionError ∧
    excOf (loadLca ⟨true, .valueError, .text '{' .decodeError⟩).res = some .UnicodeDecodeError := by
  decide +kernel

/-- **an accepted LCA database** is a JSON object whose `type` is the demanded string and which has the seven
    keys the reader indexes (`version` needs no particular form beyond `float(version) >= 2.0`; `license` none) -/
theorem lca_accepts {d : J} {info : LcaInfo} (h : (loadLcaDoc d).res = .ok info) :
    ∃ kvs, d = .obj kvs ∧ isStr ((lookup (s "type") kvs).getD .null) (s Gen.c20LcaType) = true ∧
      ∀ k ∈ lcaRequired, (lookup k kvs).isSome = true :=
  loadLcaDoc_ok h

/-- **work**: linear in the size of the decoded document (15 iterations per unit of size at most) -/
theorem lca_work (d : J) : (loadLcaDoc d).work ≤ 15 * d.size := loadLcaDoc_work d

/-! ### SBT index JSON: `SBT.load`, `_load_v1` … `_load_v6` -/

/-- **escaping classes**: the reader's own, plus what the native zip storage lets out when the index is a zip
    collection, the failure of `open()` on the description file (a NotADirectoryError comes out as ValueError), plus
    what the file system reports for the two paths the document
    names (`os.makedirs` in FSStorage, reading the manifest), plus csv.Error from the manifest reader (composed in:
    the attached manifest goes through `load_from_csv`; its other classes are already in the first list) -/
theorem sbt_classes {lit : Cell → Lit} (hl : LitOk lit) (f : SbtFile) {c : Cls} (h : excOf (loadSbt lit f).res = some c) :
    c ∈ [Cls.KeyError, .TypeError, .IndexNotSupported, .AttributeError, .IndexError, .ValueError, .ModuleNotFoundError,
         .FileNotFoundError, .IsADirectoryError, .UnicodeDecodeError, .JSONDecodeError, .RecursionError]
    ∨ f.mkdirExc = some c ∨ f.manifest = .fs (.unreadable c)
    ∨ c = Cls.CsvError ∨ (∃ csv, f.manifest = .content csv ∧ c ∈ docIo csv)
    ∨ f.zip = .raises c ∨ f.openExc = some c := by
  have := excOf_within (loadSbt_within hl f) h
  unfold sbtClasses at this
  rcases List.mem_append.1 this with h1 | h3
  · rcases List.mem_append.1 h1 with h1 | h2
    · exact Or.inl h1
    · unfold envClasses at h2
      rcases List.mem_append.1 h2 with h2 | h5
      · rcases List.mem_append.1 h2 with h2 | h4
        · rcases List.mem_append.1 h2 with h2 | h2
          · split at h2
            · rename_i c' hc; simp at h2; subst h2; exact Or.inr (Or.inl hc)
            · cases h2
          · split at h2
            · rename_i c' hc; simp at h2; subst h2; exact Or.inr (Or.inr (Or.inl hc))
            · rename_i csv hc; exact Or.inr (Or.inr (Or.inr (Or.inr (Or.inl ⟨csv, hc, h2⟩))))
            · cases h2
        · split at h4
          · rename_i c' hc; simp at h4; subst h4; exact Or.inr (Or.inr (Or.inr (Or.inr (Or.inr (Or.inl hc)))))
          · cases h4
      · split at h5
        · rename_i c' hc; simp at h5; subst h5; exact Or.inr (Or.inr (Or.inr (Or.inr (Or.inr (Or.inr hc)))))
        · cases h5
  · -- the attached manifest's classes (current source): the only one not already in the first list is csv.Error
    rw [manifest_wraps] at h3
    have h4 := wrapped_classes c h3
    simp at h4
    rcases h4 with rfl | rfl | rfl | rfl <;> simp

/-- version dispatch: only 1…6 have a loader (found by hash/equality, so `6.0` and `true` count as 6 and 1);
    an unhashable version is a TypeError, anything else IndexNotSupported -/
theorem sbt_version_dispatch :
    Gen.c20SbtVersions = [1, 2, 3, 4, 5, 6] ∧
    okOf (loaderOf (.int 6)) = some 6 ∧ okOf (loaderOf (.flt 6 1)) = some 6 ∧ okOf (loaderOf (.bool true)) = some 1 ∧
    excOf (loaderOf (.int 7)) = some .IndexNotSupported ∧ excOf (loaderOf (.int 0)) = some .IndexNotSupported ∧
    excOf (loaderOf (.str (s "6"))) = some .IndexNotSupported ∧ excOf (loaderOf .null) = some .IndexNotSupported ∧
    excOf (loaderOf (.flt 13 2)) = some .IndexNotSupported ∧
    excOf (loaderOf (.arr [.int 6])) = some .TypeError ∧ excOf (loaderOf (.obj [])) = some .TypeError := by
  decide +kernel

theorem sbt_loader_range {v : J} {n : Nat} (h : loaderOf v = .ok n) : n ∈ Gen.c20SbtVersions := by
  unfold loaderOf at h
  have key : ∀ i : Int, (if Gen.c20SbtVersions.contains i.toNat && i > 0 then (pure i.toNat : R Nat) else raise .IndexNotSupported) = .ok n →
      n ∈ Gen.c20SbtVersions := by
    intro i hi
    split at hi
    · rename_i hc
      simp [pure, Except.pure] at hi
      subst hi
      simp at hc
      exact hc.1
    · simp [raise] at hi
  split at h
  · exact key _ h
  · exact key _ h
  · split at h
    · exact key _ h
    · simp [raise] at h
  all_goals simp [raise] at h

def leaf (n : String) : J := .obj [(s "filename", .str (s n)), (s "name", .str (s n)), (s "metadata", .str (s n))]

/-- a v6 index document with branching factor `d`, one internal node and two leaves -/
def sbtBase (d : J) : J :=
  .obj [(s "d", d), (s "version", .int 6),
        (s "storage", .obj [(s "backend", .str (s "FSStorage")), (s "args", .obj [(s "path", .str (s ".sbt.x"))])]),
        (s "factory", .obj [(s "class", .str (s "GraphFactory")), (s "args", .arr [.int 1, .int 100000, .int 4])]),
        (s "nodes", .obj [(s "0", .obj [(s "filename", .str (s "internal.0")), (s "name", .str (s "internal.0"))])]),
        (s "signatures", .obj [(s "1", leaf "a"), (s "2", leaf "b")])]

/-- a v6 index document with one leaf, stored at position `key` -/
def oneLeaf (key : List Char) : J :=
  .obj [(s "d", .int 2), (s "version", .int 6),
        (s "storage", .obj [(s "backend", .str (s "FSStorage")), (s "args", .obj [(s "path", .str (s ".sbt.x"))])]),
        (s "factory", .obj [(s "class", .str (s "GraphFactory")), (s "args", .arr [.int 1, .int 100000, .int 4])]),
        (s "nodes", .obj []),
        (s "signatures", .obj [(key, leaf "a")])]

def sbtFile (doc : J) : SbtFile := ⟨.doc doc, none, .notFound, .fs .notFound, false, .none_, none⟩

/-- **where the index description is read from** (first step of `SBT.load`): a failure of the native zip storage
    escapes as it is; a description file that cannot be opened gives its OSError subclass, except
    NotADirectoryError which is turned into ValueError; with a zip storage in hand no storage is chosen from the
    document (a document naming a Redis back end loads), and an integer `manifest_path` is a TypeError — or, outside
    0..255 and through the zip storage, a FileNotFoundError -/
theorem sbt_location :
    excOf (loadSbt litModel { sbtFile (sbtBase (.int 2)) with zip := .raises .Panic }).res = some .Panic ∧
    excOf (loadSbt litModel { sbtFile (sbtBase (.int 2)) with zip := .members 2, openExc := some .FileNotFoundError }).res = some .FileNotFoundError ∧
    excOf (loadSbt litModel { sbtFile (sbtBase (.int 2)) with openExc := some .IsADirectoryError }).res = some .IsADirectoryError ∧
    excOf (loadSbt litModel { sbtFile (sbtBase (.int 2)) with openExc := some .NotADirectoryError }).res = some .ValueError ∧
    excOf (loadSbt litModel (sbtFile (J.set (s "storage") (.obj [(s "backend", .str (s "RedisStorage")), (s "args", .obj [])]) (sbtBase (.int 2))))).res
      = some .ModuleNotFoundError ∧
    okOf (loadSbt litModel { sbtFile (J.set (s "storage") (.obj [(s "backend", .str (s "RedisStorage")), (s "args", .obj [])]) (sbtBase (.int 2)))
                             with zip := .members 1 }).res = some ⟨6, some 2, 1, 2, 2, 0, none⟩ ∧
    okOf (loadSbt litModel { sbtFile (J.del (s "storage") (sbtBase (.int 2))) with zip := .members 1 }).res = some ⟨6, some 2, 1, 2, 2, 0, none⟩ ∧
    excOf (loadSbt litModel (sbtFile (J.set (s "manifest_path") (.int 300) (sbtBase (.int 2))))).res = some .TypeError ∧
    excOf (loadSbt litModel { sbtFile (J.set (s "manifest_path") (.int 300) (sbtBase (.int 2))) with zip := .members 1 }).res = some .FileNotFoundError ∧
    excOf (loadSbt litModel { sbtFile (J.set (s "manifest_path") (.int 7) (sbtBase (.int 2))) with zip := .members 1 }).res = some .TypeError := by
  decide +kernel

theorem sbt_classes_tight :
    okOf (loadSbt litModel (sbtFile (sbtBase (.int 2)))).res = some ⟨6, some 2, 1, 2, 2, 0, none⟩ ∧
    excOf (loadSbt litModel ⟨.jsonError, none, .notFound, .fs .notFound, false, .none_, none⟩).res = some .JSONDecodeError ∧
    excOf (loadSbt litModel ⟨.recursion, none, .notFound, .fs .notFound, false, .none_, none⟩).res = some .RecursionError ∧
    excOf (loadSbt litModel (sbtFile (J.del (s "version") (sbtBase (.int 2))))).res = some .KeyError ∧
    excOf (loadSbt litModel (sbtFile (J.set (s "version") (.int 9) (sbtBase (.int 2))))).res = some .IndexNotSupported ∧
    excOf (loadSbt litModel (sbtFile (J.set (s "version") (.arr []) (sbtBase (.int 2))))).res = some .TypeError ∧
    excOf (loadSbt litModel (sbtFile (J.set (s "nodes") (.arr []) (sbtBase (.int 2))))).res = some .AttributeError ∧
    excOf (loadSbt litModel (sbtFile (J.set (s "nodes") (.obj [(s "x", .null)]) (sbtBase (.int 2))))).res = some .ValueError ∧
    excOf (loadSbt litModel (sbtFile (J.set (s "signatures") (.obj []) (sbtBase (.int 2))))).res = some .ValueError ∧
    excOf (loadSbt litModel (sbtFile (.arr []))).res = some .IndexError ∧
    excOf (loadSbt litModel (sbtFile (.arr [.null]))).res = some .ValueError ∧
    excOf (loadSbt litModel (sbtFile (J.set (s "storage") (.obj [(s "backend", .str (s "RedisStorage")), (s "args", .obj [])]) (sbtBase (.int 2))))).res
      = some .ModuleNotFoundError ∧
    excOf (loadSbt litModel (sbtFile (J.set (s "manifest_path") (.str (s "m.csv")) (sbtBase (.int 2))))).res = some .FileNotFoundError ∧
    excOf (loadSbt litModel { sbtFile (J.set (s "manifest_path") (.str []) (sbtBase (.int 2))) with manifest := .fs .isDir }).res
      = some .IsADirectoryError ∧
    excOf (loadSbt litModel { sbtFile (J.set (s "manifest_path") (.str (s "m")) (sbtBase (.int 2))) with manifest := .undecodable }).res
      = some .UnicodeDecodeError ∧
    -- the branching factor is taken as it comes: any JSON value loads
    (okOf (loadSbt litModel (sbtFile (sbtBase (.str (s "abc"))))).res).map (·.d) = some none ∧
    (okOf (loadSbt litModel (sbtFile (sbtBase (.int (-5))))).res).map (·.d) = some (some (-5)) := by
  decide +kernel

/-- **D26, as a theorem about the reader**: `d` is stored unchecked (`Gen.c20SbtChecksD = false`) and
    `SBT.children` iterates `range(d)` (`Gen.c20SbtChildrenLinearInD`): for EVERY n the same small document with
    `"d": n` loads, and every node visit of a later search costs n iterations.  The document's size grows with
    the number of digits of n only: no bound c·|input| on the work of a search exists. -/
theorem sbt_children_cost_unbounded (n : Nat) :
    Gen.c20SbtChecksD = false ∧ Gen.c20SbtChildrenLinearInD = true ∧
    ∃ info, (loadSbt litModel (sbtFile (sbtBase (.int n)))).res = .ok info ∧ childrenCost info = n := by
  refine ⟨by decide, by decide, ⟨6, some n, 1, 2, 2, 0, none⟩, rfl, ?_⟩
  simp [childrenCost]

/-- the work `SBT.load` does beyond `range(max_node)` is linear in the document and the attached manifest -/
theorem sbt_work_partial (lit : Cell → Lit) (f : SbtFile) (doc : J) :
    (loadSbtDoc lit f doc).work ≤ 4 * doc.size + manifestPart f + sbtRange f doc :=
  loadSbtDoc_work lit f doc

/-
FULL STATEMENT (not proved / false): `(loadSbtDoc lit f doc).work ≤ c * doc.size + manifestPart f` for some constant c.
False for the code that exists (finding C20.1): `_load_v3 … _load_v6` build
`{i for i in range(max_node) if i not in sbt_nodes and i not in sbt_leaves}` where `max_node` is the largest
position KEY of the file, converted with `int()`; a key of k+1 digits costs 10^k iterations and a set of 10^k ints.
-/

/-- any one-leaf v6 document whose position key `int()` accepts as `i ≥ 0` loads, with `i` missing positions
    enumerated (work `i + 2`) -/
theorem oneLeaf_loads (lit : Cell → Lit) (key : List Char) (i : Nat) (h : pyIntStr key = .ok (Int.ofNat i)) :
    (loadSbt lit (sbtFile (oneLeaf key))).res = .ok ⟨6, some 2, 0, 1, i, i, none⟩ ∧
    (loadSbt lit (sbtFile (oneLeaf key))).work = i + 2 := by
  have h5 : intTable (oneLeaf key) (s "signatures") = .ok ([(Int.ofNat i, leaf "a")], 1) := by
    unfold intTable
    have hk : getKey (oneLeaf key) (s "signatures") = .ok (.obj [(key, leaf "a")]) := rfl
    rw [hk]
    simp only [bind, Except.bind, items, pure, Except.pure, intKeyed, h]
    rfl
  have h4 : intTable (oneLeaf key) (s "nodes") = .ok ([], 0) := rfl
  have hv : sbtVersion (oneLeaf key) = .ok (.int 6) := rfl
  have hl : loaderOf (.int 6) = .ok 6 := rfl
  have hs : storageFor ⟨.doc (oneLeaf key), none, .notFound, .fs .notFound, false, .none_, none⟩ 6 (oneLeaf key) = .ok () := rfl
  have hf : factoryOf (oneLeaf key) = .ok () := rfl
  have hd : getKey (oneLeaf key) (s "d") = .ok (.int 2) := rfl
  have hm : manifestPath (oneLeaf key) = .ok none := rfl
  have hleaf : leafLoad (leaf "a") = .ok () := rfl
  have hflag : Gen.c20SbtMissingEnumeratesRange = true := by decide
  have hrw : rangeWork (i : Int) = i := by simp [rangeWork, hflag]
  have hrun : runLoader ⟨.doc (oneLeaf key), none, .notFound, .fs .notFound, false, .none_, none⟩ 6 (oneLeaf key) =
      ⟨.ok ⟨6, .int 2, [], [Int.ofNat i], Int.ofNat i, i + 2⟩, i + 2⟩ := by
    unfold runLoader
    simp only [show ((6 : Nat) == 1) = false from rfl, show ((6 : Nat) == 2) = false from rfl,
      show ((6 : Nat) == 3 || (6 : Nat) == 4) = false from rfl, h4]
    unfold loadV56
    simp only [show ((6 : Nat) == 5) = false from rfl]
    simp [h5, hf, hd, loopAll, hleaf, hrw, pure, Except.pure]
    omega
  unfold loadSbt
  simp only [sbtFile]
  unfold loadSbtDoc
  simp only [hv, hl, hs, hrun, hm]
  have he : [(i : Int)].eraseDups = [(i : Int)] := rfl
  simp [infoOf, dOf, missingCount, pure, Except.pure, he]

/-- the position key "1" followed by k zeros -/
def pow10Key (k : Nat) : List Char := '1' :: List.replicate k '0'

theorem go_zeros (acc n k : Nat) : digitsU.go acc n (List.replicate k '0') = some (acc * 10 ^ k, n + k, []) := by
  induction k generalizing acc n with
  | zero => simp [digitsU.go]
  | succ k ih =>
    rw [List.replicate_succ]
    unfold digitsU.go
    have hd : digitVal '0' = some 0 := by decide
    simp only [hd]
    rw [ih]
    have h1 : (acc * 10 + 0) * 10 ^ k = acc * 10 ^ (k + 1) := by
      rw [Nat.add_zero, Nat.pow_succ, Nat.mul_assoc, Nat.mul_comm 10]
    have h2 : n + 1 + k = n + (k + 1) := by omega
    rw [h1, h2]

theorem lstripNum_nonws {c : Char} {cs : List Char} (h : isWsNum c = false) : lstripNum (c :: cs) = c :: cs := by
  simp [lstripNum, h]

/-- `int("1" + "0"*k) = 10^k`, up to CPython's limit on the number of digits -/
theorem pyIntStr_pow10 (k : Nat) (hk : k + 1 ≤ maxStrDigits) : pyIntStr (pow10Key k) = .ok (Int.ofNat (10 ^ k)) := by
  have hascii : allAscii (pow10Key k) = true := by
    simp [allAscii, pow10Key, isAscii, List.all_replicate]
  have hstrip : stripNum (pow10Key k) = pow10Key k := by
    unfold stripNum
    have h1 : lstripNum (pow10Key k) = pow10Key k := lstripNum_nonws (by decide)
    rw [h1]
    cases k with
    | zero => decide
    | succ k =>
      have : (pow10Key (k + 1)).reverse = '0' :: (List.replicate k '0' ++ ['1']) := by
        simp [pow10Key, List.replicate_succ']
      rw [this, lstripNum_nonws (by decide), ← this, List.reverse_reverse]
  unfold pyIntStr
  rw [hascii, hstrip]
  have hs : signSplit (pow10Key k) = (false, pow10Key k) := by rfl
  have hd : digitsU (pow10Key k) = some (10 ^ k, 1 + k, []) := by
    unfold pow10Key digitsU
    have : digitVal '1' = some 1 := by decide
    simp only [this]
    rw [go_zeros]; simp
  simp only [hs, hd]
  have : ¬ (1 + k > maxStrDigits) := by omega
  simp [this, pure, Except.pure]

/-- **C20.1 (new finding), as a theorem about the reader**: for every k below CPython's digit limit, the
    one-leaf index document whose leaf position is written "1" followed by k zeros — a document of size
    146 + k — is ACCEPTED by `SBT.load`, which enumerates 10^k positions to build `_missing_nodes`
    (10^k entries).  The work is exponential in the size of the input: no polynomial bound exists,
    let alone c·|input|. -/
theorem sbt_missing_range_unbounded (lit : Cell → Lit) (k : Nat) (hk : k + 1 ≤ maxStrDigits) :
    Gen.c20SbtMissingEnumeratesRange = true ∧
    (oneLeaf (pow10Key k)).size = 146 + k ∧
    (∃ info, (loadSbt lit (sbtFile (oneLeaf (pow10Key k)))).res = .ok info ∧ info.nMissing = 10 ^ k) ∧
    10 ^ k ≤ (loadSbt lit (sbtFile (oneLeaf (pow10Key k)))).work := by
  obtain ⟨hres, hwork⟩ := oneLeaf_loads lit (pow10Key k) (10 ^ k) (pyIntStr_pow10 k hk)
  refine ⟨by decide, ?_, ⟨_, hres, rfl⟩, by omega⟩
  simp [oneLeaf, pow10Key, J.size, sizeO, sizeL, leaf, s]
  omega

/-- a concrete instance, evaluated by the kernel: a document of size 161 whose load enumerates 10^15 positions -/
theorem sbt_missing_range_instance :
    (oneLeaf (s "1000000000000000")).size = 161 ∧
    (okOf (loadSbt litModel (sbtFile (oneLeaf (s "1000000000000000")))).res).map (·.nMissing) = some (10 ^ 15) ∧
    (loadSbt litModel (sbtFile (oneLeaf (s "1000000000000000")))).work = 10 ^ 15 + 2 := by
  decide +kernel

/-! ### lazy node / leaf loaders: a referenced file that is missing must be an error -/

open Sm.SbtN in
/-- **loud**: with nothing swallowed, whatever the storage raises for a node file comes out of `Node.data`
    unchanged, and a search step at that node never returns normally -/
theorem node_data_loud (c parseError : Cls) (hits : Bool) :
    nodeDataV [] (.raises c) parseError = .error (.exc c) ∧ descendV [] (.raises c) parseError hits = .error (.exc c) := by
  constructor <;> rfl

open Sm.SbtN in
/-- … and that is what the current source does, for internal nodes and for leaves (re-read on every run) -/
theorem node_data_current : nodeSwallows = [] ∧ leafSwallows = [] := by decide

open Sm.SbtN in
/-- **regression (seeded change C20d)**: a loader that catches FileNotFoundError and substitutes a fresh filter makes the
    search step answer "do not descend" although the saved filter would have let the query through — the signatures
    below are silently missing.  Through the zip storage the same happens for every native failure the ffi maps to
    ValueError (entry name damaged in the central directory, unreadable entry), because `ZipStorage.load` turns those
    into FileNotFoundError. -/
theorem node_data_swallowing_is_silent :
    okOf (descendV [.FileNotFoundError] (.raises .FileNotFoundError) .Other true) = some false ∧
    Gen.c20ZipLoadValueErrorBecomes = "FileNotFoundError" ∧
    okOf (descendV [.FileNotFoundError] (zipLoad (some .ValueError) true) .Other true) = some false ∧
    excOf (descendV [] (zipLoad (some .ValueError) true) .Other true) = some .FileNotFoundError ∧
    -- damaged CONTENTS stay loud either way
    excOf (descendV [.FileNotFoundError] (.bytes false) .Other true) = some .Other := by
  decide

/-! ### the loader chain: `_load_database` -/

open Sm.Chain

/-- a loader's outcome lets the chain go on to the next loader -/
def declines (p : Loader × Out) : Prop :=
  outer p.1 p.2 = .none_ ∨ ∃ mro, outer p.1 p.2 = .raises mro ∧ isInstance mro caught = true

/-- **the chain always ends in an index or an exception, and which one**:
    * an index comes from the first loader that returns one, every earlier loader having declined;
    * an exception attributed to loader `fn` is that loader's own (after its conversion to IndexNotLoaded, if any),
      it is NOT an instance of a swallowed class, and every earlier loader declined;
    * otherwise every loader declined and the chain raises its own ValueError. -/
theorem chain_outcome (l : List (Loader × Out)) (n : Nat) :
    (∃ pre p post, l = pre ++ p :: post ∧ (∀ q ∈ pre, declines q) ∧ outer p.1 p.2 = .idx ∧ (run l n).1 = .index p.1.fn) ∨
    (∃ pre p post mro, l = pre ++ p :: post ∧ (∀ q ∈ pre, declines q) ∧ outer p.1 p.2 = .raises mro ∧
        isInstance mro caught = false ∧ (run l n).1 = .raised mro (some p.1.fn)) ∨
    ((∀ q ∈ l, declines q) ∧ (run l n).1 = .raised valueErrorMro none) := by
  induction l generalizing n with
  | nil => right; right; exact ⟨by simp, rfl⟩
  | cons p rest ih =>
    obtain ⟨ld, o⟩ := p
    unfold run
    cases ho : outer ld o with
    | idx => left; exact ⟨[], (ld, o), rest, rfl, by simp, ho, rfl⟩
    | none_ =>
      have hd : declines (ld, o) := Or.inl ho
      rcases ih (n + 1) with ⟨pre, p, post, hl, hpre, hp, hr⟩ | ⟨pre, p, post, mro, hl, hpre, hp, hc, hr⟩ | ⟨hall, hr⟩
      · left; exact ⟨(ld, o) :: pre, p, post, by simp [hl], by intro q hq; rcases List.mem_cons.1 hq with rfl | hq; exact hd; exact hpre q hq, hp, hr⟩
      · right; left; exact ⟨(ld, o) :: pre, p, post, mro, by simp [hl], by intro q hq; rcases List.mem_cons.1 hq with rfl | hq; exact hd; exact hpre q hq, hp, hc, hr⟩
      · right; right; exact ⟨by intro q hq; rcases List.mem_cons.1 hq with rfl | hq; exact hd; exact hall q hq, hr⟩
    | raises mro =>
      simp only []
      by_cases hc : isInstance mro caught = true
      · have hd : declines (ld, o) := Or.inr ⟨mro, ho, hc⟩
        simp only [hc, if_true]
        rcases ih (n + 1) with ⟨pre, p, post, hl, hpre, hp, hr⟩ | ⟨pre, p, post, mro', hl, hpre, hp, hc', hr⟩ | ⟨hall, hr⟩
        · left; exact ⟨(ld, o) :: pre, p, post, by simp [hl], by intro q hq; rcases List.mem_cons.1 hq with rfl | hq; exact hd; exact hpre q hq, hp, hr⟩
        · right; left; exact ⟨(ld, o) :: pre, p, post, mro', by simp [hl], by intro q hq; rcases List.mem_cons.1 hq with rfl | hq; exact hd; exact hpre q hq, hp, hc', hr⟩
        · right; right; exact ⟨by intro q hq; rcases List.mem_cons.1 hq with rfl | hq; exact hd; exact hall q hq, hr⟩
      · have hc' : isInstance mro caught = false := by simpa using hc
        right; left
        exact ⟨[], (ld, o), rest, mro, rfl, by simp, ho, hc', by simp [hc']⟩

/-- **work**: every loader is tried at most once -/
theorem chain_calls (l : List (Loader × Out)) (n : Nat) : (run l n).2 ≤ n + l.length := by
  induction l generalizing n with
  | nil => simp [run]
  | cons p rest ih =>
    obtain ⟨ld, o⟩ := p
    unfold run
    split
    · simp
    · have := ih (n + 1); simp only [List.length_cons]; omega
    · split
      · have := ih (n + 1); simp only [List.length_cons]; omega
      · simp

/-- the loader table of the current source, in the order it is tried, and the classes the chain swallows -/
theorem chain_table :
    loaders.map (fun l => (l.priority, l.fn, l.converts)) =
      [(10, "_load_stdin", []), (20, "_load_sqlite_db", []), (30, "_load_standalone_manifest", ["BadGzipFile"]),
       (40, "_multiindex_load_from_path", []), (50, "_multiindex_load_from_pathlist", []),
       (60, "_load_sbt", ["FileNotFoundError", "TypeError"]), (70, "_load_revindex", []),
       (80, "_load_zipfile", ["FileNotFoundError"]), (1000, "_error_on_fastaq", [])] ∧
    caught = ["ValueError", "IndexNotLoaded"] := by
  decide +kernel

def loaderNamed (fn : String) : Loader := (loaders.find? (fun l => l.fn == fn)).getD ⟨0, "", "", []⟩

/-- run the chain of the current source on a vector of per-loader outcomes (listed in priority order) -/
def runOn (outs : List Out) : Final := (run (loaders.zip outs) 0).1

/-- **what leaks**: the chain swallows ValueError (with its subclasses: UnicodeDecodeError, JSONDecodeError …)
    and IndexNotLoaded only.  Everything else a loader lets out reaches the caller unchanged: the SQLite
    loader's `sqlite3.OperationalError` / `DatabaseError`, `IndexNotSupported` (a SourmashError but not
    IndexNotLoaded), a native `Panic`, the SBT loader's KeyError / AttributeError, the LCA loader's
    OverflowError / AssertionError, the manifest loader's TypeError (and, before the repair of C20.2, its
    SyntaxError / MemoryError).
    A TypeError or FileNotFoundError inside the SBT loader is converted and swallowed. -/
theorem chain_leaks :
    -- every loader declines: the chain's own ValueError
    runOn [.none_, .none_, .raises ["UnicodeDecodeError", "UnicodeError", "ValueError", "Exception"], .raises valueErrorMro,
           .raises valueErrorMro, .raises ["FileNotFoundError", "OSError", "Exception"], .raises valueErrorMro, .none_, .none_]
      = .raised valueErrorMro none ∧
    -- sqlite3.OperationalError from the second loader is not swallowed
    runOn [.none_, .raises ["OperationalError", "DatabaseError", "Error", "Exception"]]
      = .raised ["OperationalError", "DatabaseError", "Error", "Exception"] (some "_load_sqlite_db") ∧
    -- IndexNotSupported from the SQLite or the SBT loader
    runOn [.none_, .raises ["IndexNotSupported", "SourmashError", "Exception"]]
      = .raised ["IndexNotSupported", "SourmashError", "Exception"] (some "_load_sqlite_db") ∧
    -- SyntaxError / TypeError from the manifest loader
    runOn [.none_, .none_, .raises ["SyntaxError", "Exception"]] = .raised ["SyntaxError", "Exception"] (some "_load_standalone_manifest") ∧
    runOn [.none_, .none_, .raises ["TypeError", "Exception"]] = .raised ["TypeError", "Exception"] (some "_load_standalone_manifest") ∧
    -- the same TypeError inside the SBT loader is converted to IndexNotLoaded and swallowed; KeyError is not
    runOn [.none_, .none_, .raises valueErrorMro, .raises valueErrorMro, .raises valueErrorMro, .raises ["TypeError", "Exception"], .idx]
      = .index "_load_revindex" ∧
    runOn [.none_, .none_, .raises valueErrorMro, .raises valueErrorMro, .raises valueErrorMro, .raises ["KeyError", "LookupError", "Exception"]]
      = .raised ["KeyError", "LookupError", "Exception"] (some "_load_sbt") ∧
    -- a native panic surfacing in the zip loader
    runOn [.none_, .none_, .raises valueErrorMro, .raises valueErrorMro, .raises valueErrorMro, .raises indexNotLoadedMro, .raises valueErrorMro,
           .raises ["Panic", "SourmashError", "Exception"]]
      = .raised ["Panic", "SourmashError", "Exception"] (some "_load_zipfile") ∧
    -- the first index wins
    runOn [.none_, .none_, .raises valueErrorMro, .idx, .idx] = .index "_multiindex_load_from_path" := by
  decide +kernel

end Sm.C20
