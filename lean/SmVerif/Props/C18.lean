/-
C18 — LCA databases map each hash to exactly the lineages of signatures containing it.

Statements only (helper lemmas: `SmVerif/Lemmas/{Dict,LineageTree,LineageLca,LineageAgg,
LcaDbInv,LcaDbQuery,LcaDbJson,LcaDbSig}.lean`).

Model: `Model/LcaDb.lean` (the tables of `LCA_Database`, `insert`, `_signatures`,
`get_lineage_assignments`, `get_identifiers_for_hashval`, `downsample_scaled`, JSON
save/load, the SQLite twin) and `Model/Lineage.lean` (`build_tree`, `find_lca`,
`count_lca_for_assignments`, the aggregation loop of `summarize`, `classify_signature`,
`pop_to_rank`).

Part A  lowest common ancestor
  `find_lca_spec`            find_lca(build_tree(L)) meets the specification `IsLca`
  `lca_spec_unique`          the specification determines the answer
  `find_lca_set_only`        hence the answer depends on the set of lineages only (order, duplicates)
  `lca_deepest_if_no_disagreement`, `lca_first_disagreement`   the two halves of the prose statement
  `lca_longest_agreed_path`, `lca_is_agreed`, `lca_several_roots`   find_lca = the longest agreed prefix, on
                             arbitrary (ragged / empty / several-rooted / LIN / ICTV) lineage sets
  `count_conservation`, `summarize_rollup`
  `pop_to_rank_spec`, `classify_spec`, `classify_majority_spec`, `majority_vote_is_first_max`,
  `gather_exact`, `count_lca_total`
Part B  summarised counts
  `counts_eq`, `aggregate_table`, `aggregate_once`   every hash is credited to its LCA and to each
                             of its ancestors exactly once (the root only when it is the LCA itself)
Part C  the database, over all histories of insert / downsample_scaled / JSON save+load
  `index_identifier_sides_identical`, `index_identifier_sides_agree`, `version_cuts_agree_iff_at_most_one_period`
                             the two identifier normalisations of `lca index` (spreadsheet / signature side)
  `index_command_builds_reachable`   the database `sourmash lca index` writes is reached by a history of inserts
  `history_invariant`        the tables represent the log of accepted insertions (also after a JSON
                             round trip followed by further insertions)
  `index_is_relation`        h ↦ idx is in the index  ⇔  signature idx was inserted and holds h
  `assignments_exact`, `identifiers_exact`, `reconstruct`, `len_counts_all`
  `cli_summarize_is_summarize`, `cli_classify_is_classify`   the command-line layer computes with the functions above
  `summarize_end_to_end`, `summarize_reachable`, `linsOf_mem`   the property's last sentence as one theorem
                             about database code and lineage code together
  `default_identifier`, `incompatible_signature_refused`, `json_parameters_roundtrip`   name / filename / md5 prefix;
                             ksize and moltype checks; protein ksize scaling of the JSON form
  `json_roundtrip` (+ `json_assignments`, `json_identifiers`, `json_signatures`, `json_lineage_same_taxa`)
  `downsample_entry`, `downsample_commutes`, regression `downsample_keeps_threshold_hash` (D9, repaired)
  `signatures_named`, regression `empty_sketch_counted_and_yielded` (D11, repaired),
  `signatures_count`, `sql_keeps_every_signature`, `sql_downsample_changes_no_answer` (C18.3),
  `sql_equiv_partial`, `sql_signatures_equiv`, `sql_hashvals_equiv`, `sql_lineage_same_taxa`, `first_word_shapes`
                             the SQLite form answers as the in-memory form when identifiers are derivable
                             from names (the complement of finding C18.4)
  `sql_identifiers_absent_hash`, `sql_hash_roundtrip` (C18.6 / C18.7, repaired)
-/
import SmVerif.Lemmas.LineageLca
import SmVerif.Lemmas.LineageAgg
import SmVerif.Lemmas.LcaDbJson
import SmVerif.Lemmas.LcaDbSig
import SmVerif.Lemmas.LcaDbRecon
import SmVerif.Lemmas.LcaGather
import SmVerif.Lemmas.LineagePop
import SmVerif.Lemmas.LcaSummarize
import SmVerif.Lemmas.LcaSql
import SmVerif.Lemmas.LineageRollup
import SmVerif.Model.LcaIndex
import SmVerif.Model.LcaCli
import SmVerif.Lemmas.LcaIdent

namespace Sm.C18

open Sm Sm.Lin Sm.Lca Sm.Dict

/-! ## Part A — the lowest common ancestor -/

/-- `find_lca(build_tree(ls))` on a non-empty list of lineages: on the taxa the lineages name
    (`canon`: pairs with a non-empty name), the reported path `p` is on the way to some lineage,
    no lineage leaves it earlier, `r` different taxa follow it, and `r ≠ 1`. -/
theorem find_lca_spec (ls : List Lineage) (hne : ls ≠ []) :
    IsLca (ls.map canon) (lcaOf ls).1 (lcaOf ls).2 :=
  findLca_isLca hne

/-- the specification has exactly one solution -/
theorem lca_spec_unique {κ : Type} {Ls : List (List κ)} {p p' : List κ} {r r' : Nat}
    (h : IsLca Ls p r) (h' : IsLca Ls p' r') : p = p' ∧ r = r' :=
  isLca_unique h h'

theorem isLca_congr {κ : Type} {Ls Ls' : List (List κ)} (hm : ∀ l, l ∈ Ls ↔ l ∈ Ls') {p : List κ} {r : Nat}
    (h : IsLca Ls p r) : IsLca Ls' p r :=
  IsLca.congr hm h

/-- the answer depends only on the *set* of taxa sequences: insertion order and repetitions of
    lineages (and the iteration order of the Python set they come from) are irrelevant -/
theorem find_lca_set_only (ls ls' : List Lineage) (hne : ls ≠ []) (hne' : ls' ≠ [])
    (hm : ∀ l, l ∈ ls.map canon ↔ l ∈ ls'.map canon) : lcaOf ls = lcaOf ls' :=
  lcaOf_congr hne hne' hm

/-- "the deepest lineage if none disagree": reason 0 means the path is one of the lineages and every
    lineage is a prefix of it -/
theorem lca_deepest_if_no_disagreement (ls : List Lineage) (hne : ls ≠ []) (h0 : (lcaOf ls).2 = 0) :
    (lcaOf ls).1 ∈ ls.map canon ∧ ∀ l ∈ ls, canon l <+: (lcaOf ls).1 := by
  have hs := find_lca_spec ls hne
  obtain ⟨ks, _, hlen, hmem⟩ := hs.ext
  have hks : ks = [] := List.eq_nil_of_length_eq_zero (hlen.trans h0)
  have hnoext : ∀ l ∈ ls.map canon, (lcaOf ls).1 <+: l → l = (lcaOf ls).1 := by
    intro l hl hp
    by_cases hlt : (lcaOf ls).1.length < l.length
    · obtain ⟨k, hk⟩ := snoc_prefix_of_lt hp hlt
      have : k ∈ ks := (hmem k).mpr ⟨l, hl, hk⟩
      rw [hks] at this
      cases this
    · exact (List.IsPrefix.eq_of_length_le hp (by omega)).symm
  constructor
  · obtain ⟨l, hl, hp⟩ := hs.onPath
    rw [← hnoext l hl hp]; exact hl
  · intro l hl
    have hl' : canon l ∈ ls.map canon := List.mem_map.mpr ⟨l, hl, rfl⟩
    rcases hs.comparable _ hl' with hc | hc
    · exact hc
    · rw [hnoext _ hl' hc]; exact List.prefix_refl _

/-- "the first rank at which two of them name different taxa": a non-zero reason means two lineages
    continue the reported path with different taxa (and, by `find_lca_spec`, nobody left it before) -/
theorem lca_first_disagreement (ls : List Lineage) (hne : ls ≠ []) (h0 : (lcaOf ls).2 ≠ 0) :
    ∃ l₁ ∈ ls, ∃ l₂ ∈ ls, ∃ k₁ k₂ : Key, k₁ ≠ k₂ ∧
      (lcaOf ls).1 ++ [k₁] <+: canon l₁ ∧ (lcaOf ls).1 ++ [k₂] <+: canon l₂ := by
  have hs := find_lca_spec ls hne
  obtain ⟨ks, hnd, hlen, hmem⟩ := hs.ext
  have h1 := hs.notOne
  match ks, hnd, hlen, hmem with
  | [], _, hlen, _ => exact absurd hlen.symm h0
  | [_], _, hlen, _ => exact absurd hlen.symm h1
  | k₁ :: k₂ :: _, hnd, _, hmem =>
    obtain ⟨l1, hl1, hp1⟩ := (hmem k₁).mp (by simp)
    obtain ⟨l2, hl2, hp2⟩ := (hmem k₂).mp (by simp)
    obtain ⟨a1, ha1, rfl⟩ := List.mem_map.mp hl1
    obtain ⟨a2, ha2, rfl⟩ := List.mem_map.mp hl2
    refine ⟨a1, ha1, a2, ha2, k₁, k₂, ?_, hp1, hp2⟩
    simp only [List.nodup_cons, List.mem_cons, not_or] at hnd
    exact hnd.1.1

/-- `find_lca` is the LONGEST path the lineages agree on: any path that is on the way to some lineage and that
    no lineage leaves (`Agreed`) is a prefix of the reported one.  Holds for arbitrary lineage sets — ragged,
    with empty lineages, with repeated ranks or the same name at different ranks (a taxon is a (rank, name)
    pair), with LIN / ICTV rank lists (ranks are arbitrary labels). -/
theorem lca_longest_agreed_path (ls : List Lineage) (hne : ls ≠ []) (q : Lineage)
    (hq : Agreed (ls.map canon) q) : q <+: (lcaOf ls).1 :=
  isLca_longest (find_lca_spec ls hne) hq

/-- ... and it is itself agreed, so it is the maximum of the agreed paths -/
theorem lca_is_agreed (ls : List Lineage) (hne : ls ≠ []) : Agreed (ls.map canon) (lcaOf ls).1 :=
  (find_lca_spec ls hne).agreed

/-- several roots: if two lineages already name different first taxa, the LCA is the root `()` and the reason
    is the number of different first taxa (at least 2) -/
theorem lca_several_roots (ls : List Lineage) (hne : ls ≠ []) {k₁ k₂ : Key} {t₁ t₂ : Lineage}
    (h₁ : k₁ :: t₁ ∈ ls.map canon) (h₂ : k₂ :: t₂ ∈ ls.map canon) (hk : k₁ ≠ k₂) :
    (lcaOf ls).1 = [] ∧ 2 ≤ (lcaOf ls).2 :=
  isLca_roots (find_lca_spec ls hne) h₁ h₂ hk

/-- an empty argument is refused (`ValueError`) -/
theorem build_tree_empty_refused : buildTree [] = .error .value := rfl

/-- `tax_utils.LineageTree.add_lineage` / `.find_lca` are the same statements as
    `lca_utils.build_tree` / `find_lca` (re-established by the translator on every run) -/
theorem find_lca_twins_identical : Gen.lineageTreeTwin = true := by decide

/-- `taxlist()`, `NCBI_RANKS` and the two SQL column lists are the same eight ranks in the same order
    (`order` is spelled `order_` in SQL) -/
theorem rank_tables_agree :
    Gen.lcaTaxlist = Gen.taxNcbiRanks ∧ Gen.sqlTaxSelect = Gen.sqlTaxInsert ∧
      Gen.sqlTaxSelect = Gen.lcaTaxlist.map (fun r => if r = "order" then "order_" else r) ∧
      Gen.lcaTaxlist.length = 8 := by decide

/-- `pop_to_rank(lin, rank)` on a lineage that lists the ranks of `taxlist()` in order: the prefix down to
    and including `rank`; the lineage itself when it ends above `rank` -/
theorem pop_to_rank_spec {l : Lineage} (hp : Positional l) (r : Nat) (hr : r < 8) :
    popToRank l r = l.take (r + 1) :=
  popToRank_positional hp r hr

/-! ## Part B — summarised counts -/

/-- the count of an LCA is the total weight of the hashes whose LCA it is; LCAs are listed once -/
theorem counts_eq {asg : List (Nat × List Lineage)} {w : Option (List (Nat × Nat))}
    {counts : List (Lineage × Nat)} (h : countLca asg w = .ok counts) (l : Lineage) :
    (keys counts).Nodup ∧ val counts l = hashSum w (fun x => decide (x = l)) asg := by
  obtain ⟨h1, h2⟩ := foldlM_countStep asg h
  have hnd := h2 (by simp [keys])
  refine ⟨hnd, ?_⟩
  rw [← selSum_eq_val hnd, h1]
  simp [selSum]

/-- table level: entry `p` of `summarize`'s result is the sum of the counts of the LCAs that reach the
    threshold and are credited to `p` (`credit`: `p` is the LCA or one of its non-empty prefixes; the root
    `()` only when it is the LCA itself) -/
theorem aggregate_table (counts : List (Lineage × Nat)) (thr : Nat) (p : Lineage) :
    val (aggregate counts thr) p = creditSum (counts.filter (fun x => !decide (x.2 < thr))) p :=
  val_aggregate counts thr p

/-- hash level: entry `p` is the total weight of the hashes whose LCA is credited to `p` and reaches the
    threshold — each hash counted once, with its own weight, for its LCA and for every ancestor -/
theorem aggregate_once {asg : List (Nat × List Lineage)} {w : Option (List (Nat × Nat))}
    {counts : List (Lineage × Nat)} (h : countLca asg w = .ok counts) (thr : Nat) (p : Lineage) :
    val (aggregate counts thr) p =
      hashSum w (fun l => decide (credit l p) && decide (thr ≤ val counts l)) asg := by
  obtain ⟨h1, h2⟩ := foldlM_countStep asg h
  have hnd := h2 (by simp [keys])
  rw [aggregate_table]
  unfold creditSum
  rw [filter_sum_eq]
  have := h1 (fun l => decide (credit l p) && decide (thr ≤ val counts l))
  simp only [selSum, List.map_nil, List.sum_nil, Nat.zero_add] at this
  rw [← this]
  apply map_sum_congr
  intro x hx
  have hv : val counts x.1 = x.2 := by
    unfold val
    rw [get?_of_mem_nodup hnd hx]; rfl
  simp only [hv]
  by_cases hc : credit x.1 p
  · by_cases ht : x.2 < thr
    · have : ¬ thr ≤ x.2 := by omega
      simp [hc, ht, this]
    · have : thr ≤ x.2 := by omega
      simp [hc, ht, this]
  · by_cases ht : x.2 < thr <;> simp [hc, ht]

/-- conservation: unweighted, the LCA counts add up to the number of hashes that have at least one lineage;
    weighted, to their total weight — no hash is dropped or counted twice -/
theorem count_conservation {asg : List (Nat × List Lineage)} {w : Option (List (Nat × Nat))}
    {counts : List (Lineage × Nat)} (h : countLca asg w = .ok counts) :
    (counts.map Prod.snd).sum = (asg.map (fun a => weightOf w a.1)).sum ∧
      (w = none → (counts.map Prod.snd).sum = asg.length) := by
  refine ⟨countLca_conservation_weighted h, ?_⟩
  intro hw
  subst hw
  exact countLca_conservation h

/-- the rollup of `summarize`: the count reported for a non-root lineage `p` is the count of the hashes whose
    LCA is `p` itself (when it reaches the threshold) plus the counts reported for its children `p ++ [k]`
    (`childKeys`: the different taxa that follow `p` in the LCAs that reach the threshold) -/
theorem summarize_rollup (counts : List (Lineage × Nat)) (thr : Nat) (p : Lineage) (hp : p ≠ []) :
    val (aggregate counts thr) p =
      (((counts.filter (fun x => !decide (x.2 < thr))).filter (fun x => decide (x.1 = p))).map Prod.snd).sum +
      ((childKeys (counts.filter (fun x => !decide (x.2 < thr))) p).map
        (fun k => val (aggregate counts thr) (p ++ [k]))).sum :=
  aggregate_rollup counts thr p hp

/-- with threshold 0 nothing is filtered: each hash is credited to its LCA and every ancestor -/
theorem aggregate_once_no_threshold {asg : List (Nat × List Lineage)} {w : Option (List (Nat × Nat))}
    {counts : List (Lineage × Nat)} (h : countLca asg w = .ok counts) (p : Lineage) :
    val (aggregate counts 0) p = hashSum w (fun l => decide (credit l p)) asg := by
  rw [aggregate_once h]
  simp

/-- what "credited" means -/
theorem credit_iff (lca p : Lineage) :
    credit lca p ↔ (p = lca ∧ lca = []) ∨ (p ≠ [] ∧ ∃ rest, lca = p ++ rest) := by
  unfold credit
  constructor
  · rintro (⟨h1, h2⟩ | ⟨h1, t, ht⟩)
    · exact Or.inl ⟨h2.trans h1.symm, h1⟩
    · exact Or.inr ⟨h1, t, ht.symm⟩
  · rintro (⟨h1, h2⟩ | ⟨h1, t, ht⟩)
    · exact Or.inl ⟨h2, h1.trans h2⟩
    · exact Or.inr ⟨h1, t, ht.symm⟩

/-- `gather_assignments(hashvals, dblist)`: a lineage is recorded for hash `h` iff `h` is among the
    query hashes and some database reports it for `h`; every recorded set is non-empty and each hash
    has one entry (so `count_lca_for_assignments` sees every assigned hash exactly once) -/
theorem gather_exact (look : Nat → List (List Lineage)) (hashvals : List Nat) :
    (keys (gatherWith look hashvals)).Nodup ∧
    (∀ h s, get? (gatherWith look hashvals) h = some s → s ≠ []) ∧
    (∀ h l, l ∈ (get? (gatherWith look hashvals) h).getD [] ↔ h ∈ hashvals ∧ ∃ lins ∈ look h, l ∈ lins) := by
  obtain ⟨a, b⟩ := gather_spec look hashvals
  exact ⟨a.nodup, a.nonempty, b⟩

/-- unweighted counting of a gathered table never fails -/
theorem count_lca_total (look : Nat → List (List Lineage)) (hashvals : List Nat) :
    ∃ counts, countLca (gatherWith look hashvals) none = .ok counts := by
  obtain ⟨hnd, hne, _⟩ := gather_exact look hashvals
  have hall : ∀ a ∈ gatherWith look hashvals, a.2 ≠ [] := by
    intro a ha
    exact hne a.1 a.2 (get?_of_mem_nodup hnd ha)
  unfold countLca
  generalize gatherWith look hashvals = asg at hall
  have : ∀ acc : List (Lineage × Nat), ∃ counts, asg.foldlM (countStep none) acc = .ok counts := by
    induction asg with
    | nil => intro acc; exact ⟨acc, rfl⟩
    | cons a as ih =>
      intro acc
      simp only [List.foldlM_cons, bind, Except.bind]
      have hne := hall a (by simp)
      have hstep : countStep none acc a = .ok (bump acc (lcaOf a.2).1 1) := by
        unfold countStep buildTree wOf lcaOf
        have : a.2.isEmpty = false := by
          cases h : a.2 with
          | nil => exact absurd h hne
          | cons _ _ => rfl
        simp [this]
      rw [hstep]
      exact ih (fun x hx => hall x (List.mem_cons_of_mem _ hx)) _
  exact this []

/-- `classify_signature` without `--majority`: the status and lineage are the LCA (in the sense of Part A)
    of the per-hash LCAs whose count reaches the threshold; `nomatch` iff none of them names a taxon -/
theorem classify_spec (counts : List (Lineage × Nat)) (thr : Nat) :
    classifyCounts counts thr false =
      (let kept := ((mostCommon counts).filter (fun p => !decide (p.2 < thr))).map Prod.fst
       match buildTreeFrom .nil kept with
       | .nil => ([], Status.nomatch)
       | _ => ((lcaOf kept).1, if (lcaOf kept).2 = 0 then Status.found else Status.disagree)) := by
  unfold classifyCounts lcaOf
  simp only [Bool.and_false, Bool.false_eq_true, if_false]
  rw [takeWhile_eq_filter_of_desc (mostCommon_desc counts)]
  cases buildTreeFrom Tree.nil
    (List.map Prod.fst (List.filter (fun x => !decide (x.2 < thr)) (mostCommon counts))) <;> rfl

/-- `classify_signature --majority`: the vote is the first LCA, in the order the query hashes were counted,
    whose count is maximal (`firstMax`); it is reported (`found`, with the taxa it names) iff its count is
    strictly above the threshold and it names a taxon, otherwise `nomatch` -/
theorem classify_majority_spec (counts : List (Lineage × Nat)) (thr : Nat) :
    classifyCounts counts thr true =
      match firstMax counts with
      | none => ([], Status.nomatch)
      | some vc => if vc.2 > thr ∧ canon vc.1 ≠ [] then (canon vc.1, Status.found) else ([], Status.nomatch) :=
  classifyCounts_majority counts thr

/-- the tie-breaking of `most_common()[0]`: nothing counted before the vote reaches its count, nothing
    counted after it exceeds it -/
theorem majority_vote_is_first_max (counts : List (Lineage × Nat)) :
    (mostCommon counts).head? = firstMax counts ∧
    match firstMax counts with
    | none => counts = []
    | some x => ∃ pre post, counts = pre ++ x :: post ∧ (∀ y ∈ pre, y.2 < x.2) ∧ (∀ y ∈ post, y.2 ≤ x.2) :=
  ⟨mostCommon_head? counts, firstMax_spec counts⟩

/-- ... and those kept LCAs are exactly the entries of `counts` reaching the threshold, in some order
    (which `find_lca_set_only` shows to be irrelevant) -/
theorem classify_kept_perm (counts : List (Lineage × Nat)) (thr : Nat) :
    (((mostCommon counts).filter (fun p => !decide (p.2 < thr))).map Prod.fst).Perm
      ((counts.filter (fun p => !decide (p.2 < thr))).map Prod.fst) :=
  ((mostCommon_perm counts).filter _).map _

/-! ## Part C — the database -/

/-- the operations that change an in-memory database -/
inductive Op where
  | insert (sig : Sig) (ident : String) (lineage : Lineage)
  | downsample (S : Nat)
  | jsonReload                       -- `save(path)` followed by `db = LCA_Database.load(path)`

/-- the implementation side -/
def stepDb (db : Db) : Op → Db
  | .insert sig ident lineage => (db.insert sig ident lineage).1
  | .downsample S => match db.downsampleScaled S with
    | .ok d => d
    | .error _ => db
  | .jsonReload => db.jsonRoundTrip

/-- the specification side: the log of what was accepted.  An accepted insertion contributes the
    identifier, the name, the lineage and the sketch's hashes at the database's scaled; an accepted
    `downsample_scaled(S)` restricts every sketch with the database's filter (`downKeep S`, which
    `downsample_entry` shows to be "the hashes up to max_hash(S)"); a JSON round trip reads every
    lineage back along `taxlist()`. -/
def stepLog (db : Db) (log : List Entry) : Op → List Entry
  | .insert sig ident lineage => match (db.insert sig ident lineage).2, sig.downTo db.scaled with
    | .ok _, .ok kept => log ++ [entryOf sig ident lineage kept]
    | _, _ => log
  | .downsample S => match db.downsampleScaled S with
    | .ok _ => if S = db.scaled then log else log.map (Entry.restrict S)
    | .error _ => log
  | .jsonReload => log.map Entry.json

def run (db : Db) (log : List Entry) : List Op → Db × List Entry
  | [] => (db, log)
  | op :: ops => run (stepDb db op) (stepLog db log op) ops

theorem step_invariant {db : Db} {log : List Entry} (hq : QRep db log) (hl : LinInv db) (op : Op) :
    QRep (stepDb db op) (stepLog db log op) ∧ LinInv (stepDb db op) := by
  cases op with
  | insert sig ident lineage =>
    simp only [stepDb, stepLog]
    cases hres : db.insert sig ident lineage with
    | mk db' res =>
      cases res with
      | error e =>
        have := insert_error hq hres
        subst this
        simp only
        exact ⟨hq, hl⟩
      | ok n =>
        obtain ⟨kept, hk, _, _, _, _, hq', hl', _⟩ := insert_ok hq hl hres
        simp only [hk]
        exact ⟨hq', hl'⟩
  | downsample S =>
    simp only [stepDb, stepLog]
    cases hres : db.downsampleScaled S with
    | error e => exact ⟨hq, hl⟩
    | ok db' =>
      simp only
      by_cases hS : S = db.scaled
      · have := downsample_same hres hS
        subst this
        simp only [hS, if_true]
        exact ⟨hq, hl⟩
      · simp only [hS, if_false]
        exact ⟨(downsample_qrep hq hres hS).1, downsample_lininv hl hres⟩
  | jsonReload =>
    simp only [stepDb, stepLog]
    exact ⟨json_qrep hq hl, json_lininv hl⟩

/-- over every history of insertions (accepted or refused, in any order), downsamplings and JSON
    save/load round trips — in particular insertions *after* a round trip — starting from an empty
    database, the tables represent the log of what was accepted -/
theorem history_invariant (ksize scaled moltype : Nat) (ops : List Op) :
    QRep (run (Db.new ksize scaled moltype) [] ops).1 (run (Db.new ksize scaled moltype) [] ops).2 := by
  have : ∀ (ops : List Op) (db : Db) (log : List Entry), QRep db log → LinInv db →
      QRep (run db log ops).1 (run db log ops).2 := by
    intro ops
    induction ops with
    | nil => intro db log hq _; exact hq
    | cons op ops ih =>
      intro db log hq hl
      obtain ⟨a, b⟩ := step_invariant hq hl op
      exact ih _ _ a b
  exact this ops _ _ (qrep_new ..) (lininv_new ..)

theorem run_append (db : Db) (log : List Entry) (a b : List Op) :
    run db log (a ++ b) = run (run db log a).1 (run db log a).2 b := by
  induction a generalizing db log with
  | nil => rfl
  | cons op ops ih => simp only [List.cons_append, run]; exact ih _ _

/-! ### `lca index --split-identifiers`: the two identifier normalisations

   The spreadsheet identifiers (`load_taxonomy_assignments`) and the signature names (`index`) are normalised by
   two separate statements of the source; the translator reads the version cut of each site on its own
   (`Gen.idxTaxVersionCut`, `Gen.idxSigVersionCut`) and the model has one function per site (`taxIdent`, `sigIdent`). -/

/-- the two sites apply the same version cut … (stops building when one site is edited alone) -/
theorem index_identifier_sides_identical : Gen.idxTaxVersionCut = Gen.idxSigVersionCut := by decide

/-- … hence a spreadsheet identifier and a signature name that are the same string before normalisation are
    the same string after it, whatever the options: the lineage of the spreadsheet row reaches the signature -/
theorem index_identifier_sides_agree (splitIdents keepVersions : Bool) (s : String) :
    LcaIndex.taxIdent splitIdents keepVersions s = LcaIndex.sigIdent splitIdents keepVersions s := by
  unfold LcaIndex.taxIdent LcaIndex.sigIdent
  rw [index_identifier_sides_identical]

/-- when would two DIFFERENT cuts agree?  `split(".")[0]` and `rsplit(".", 1)[0]` agree on a word without a
    period and on a word with exactly one, and differ on every word with two or more (`A.B.1`: `A` vs `A.B`) —
    the ordinary `accession.version` identifiers cannot tell them apart -/
theorem version_cuts_agree_iff_at_most_one_period (c : Char) :
    (∀ l : List Char, c ∉ l → headUntil c l = LcaIndex.beforeLast c l) ∧
    (∀ a b : List Char, c ∉ a → c ∉ b → headUntil c (a ++ c :: b) = LcaIndex.beforeLast c (a ++ c :: b)) ∧
    (∀ a b d : List Char, c ∉ a → c ∉ d →
      headUntil c (a ++ c :: (b ++ c :: d)) ≠ LcaIndex.beforeLast c (a ++ c :: (b ++ c :: d))) :=
  ⟨fun _ h => LcaIndex.cuts_agree_no_period h, LcaIndex.cuts_agree_one_period,
   fun a b d ha hd => (LcaIndex.cuts_differ_two_periods a b d ha hd).2.2⟩

/-- kernel-checked instance: `MGYG.000123.1 genome` under `--split-identifiers` -/
theorem version_cuts_example :
    LcaIndex.normIdent .dotPrefix true false "MGYG.000123.1 genome" = "MGYG" ∧
    LcaIndex.normIdent .dropLast true false "MGYG.000123.1 genome" = "MGYG.000123" ∧
    LcaIndex.normIdent .dotPrefix true true "MGYG.000123.1 genome" = "MGYG.000123.1" ∧
    LcaIndex.normIdent .dotPrefix false false "MGYG.000123.1 genome" = "MGYG.000123.1 genome" := by decide

/-- `sourmash lca index` (Model/LcaIndex.lean: spreadsheet reader, identifier options, duplicate md5s,
    --require-taxonomy, refusals): whatever the options and the spreadsheet, the database it builds is reached
    by a history of `insert` calls from the empty database — so every theorem of this part (`index_is_relation`,
    `assignments_exact`, `reconstruct`, `summarize_reachable`, …) applies to the databases the command writes -/
theorem index_command_builds_reachable (o : LcaIndex.Opts) (sigs : List Sig) (rows : List (List String))
    (r : LcaIndex.Result) (h : LcaIndex.lcaIndex o sigs rows = .ok r) :
    ∃ ops, r.db = (run (Db.new o.ksize o.scaled o.moltype) [] ops).1 := by
  have hfold : ∀ (asg : List (String × Lineage)) (sigs : List Sig) (st st' : LcaIndex.IdxSt) (log : List Entry),
      sigs.foldlM (LcaIndex.indexSig o asg) st = .ok st' → ∃ ops, st'.db = (run st.db log ops).1 := by
    intro asg sigs
    induction sigs with
    | nil =>
      intro st st' log hh
      simp only [List.foldlM_nil, pure, Except.pure, Except.ok.injEq] at hh
      subst hh; exact ⟨[], rfl⟩
    | cons sg rest ih =>
      intro st st' log hh
      simp only [List.foldlM_cons, bind, Except.bind] at hh
      cases hs : LcaIndex.indexSig o asg st sg with
      | error e => simp [hs] at hh
      | ok st1 =>
        simp only [hs] at hh
        -- one step: nothing, or one insertion
        have hstep : ∃ ops1, st1.db = (run st.db log ops1).1 := by
          unfold LcaIndex.indexSig at hs
          split at hs
          · simp only [Except.ok.injEq] at hs; subst hs; exact ⟨[], rfl⟩
          · split at hs
            · simp only [Except.ok.injEq] at hs; subst hs; exact ⟨[], rfl⟩
            · simp only at hs
              split at hs
              · split at hs
                · split at hs
                  · cases hs
                  · simp only [Except.ok.injEq] at hs; subst hs; exact ⟨[], rfl⟩
                · split at hs
                  · cases hs
                  · rename_i db' n hins
                    simp only [Except.ok.injEq] at hs; subst hs
                    refine ⟨[Op.insert sg (LcaIndex.sigIdent o.splitIdents o.keepVersions
                      (if sg.name ≠ "" then sg.name else sg.filename)) []], ?_⟩
                    simp only [run, stepDb, hins]
              · split at hs
                · cases hs
                · rename_i lineage _ _ db' n hins
                  by_cases hc : (Gen.idxRemnantsRemoveRaises && !st.remnants.contains (LcaIndex.sigIdent o.splitIdents o.keepVersions
                      (if sg.name ≠ "" then sg.name else sg.filename))) = true
                  · rw [if_pos hc] at hs; cases hs
                  · rw [if_neg hc] at hs
                    simp only [Except.ok.injEq] at hs; subst hs
                    refine ⟨[Op.insert sg (LcaIndex.sigIdent o.splitIdents o.keepVersions
                      (if sg.name ≠ "" then sg.name else sg.filename)) lineage], ?_⟩
                    simp only [run, stepDb, hins]
        obtain ⟨ops1, h1⟩ := hstep
        obtain ⟨ops2, h2⟩ := ih st1 st' (run st.db log ops1).2 hh
        refine ⟨ops1 ++ ops2, ?_⟩
        rw [run_append, h2, h1]
  unfold LcaIndex.lcaIndex at h
  split at h
  · cases h
  · split at h
    · cases h
    · rename_i asg nrows _
      simp only at h
      split at h
      · cases h
      · rename_i st hst
        split at h
        · cases h
        · split at h
          · cases h
          · simp only [Except.ok.injEq] at h
            subst h
            obtain ⟨ops, hops⟩ := hfold asg sigs _ st [] hst
            exact ⟨ops, hops⟩

/-- the index is the relation "signature `idx` was inserted and holds `h` at the database's scaled":
    nothing is missing, nothing is invented -/
theorem index_is_relation {db : Db} {log : List Entry} (hq : QRep db log) (h idx : Nat) :
    idx ∈ db.idxsOf h ↔ ∃ e, log[idx]? = some e ∧ h ∈ e.kept := by
  rw [hq.index h]
  exact mem_idxsSpec

/-- ... in every reachable database -/
theorem index_is_relation_reachable (ksize scaled moltype : Nat) (ops : List Op) (h idx : Nat) :
    let r := run (Db.new ksize scaled moltype) [] ops
    idx ∈ r.1.idxsOf h ↔ ∃ e, r.2[idx]? = some e ∧ h ∈ e.kept :=
  index_is_relation (history_invariant ksize scaled moltype ops) h idx

/-- what an accepted insertion files: the sketch's hashes up to the threshold of the database's scaled
    (`WF`: the sketch respects its own threshold; `hrt`: the Python → Rust conversion of the
    database's scaled value reproduces its threshold — C03's subject) -/
theorem kept_eq_filter {sig : Sig} {S : Nat} {kept : List Nat} (h : sig.downTo S = .ok kept)
    (hwf : ∀ x ∈ sig.hashes, x ≤ mhR sig.scaled) (hrt : insThreshold S = mhR S) :
    kept = sig.hashes.filter (· ≤ mhR S) := by
  unfold Sig.downTo at h
  by_cases h1 : S ≠ 0 ∧ sig.scaled = S
  · simp only [h1, ne_eq, not_false_eq_true, and_self, if_true, Except.ok.injEq] at h
    subst h
    symm
    rw [List.filter_eq_self]
    intro a ha
    have := hwf a ha
    rw [h1.2] at this
    simpa using this
  · simp only [h1, if_false] at h
    by_cases h2 : sig.num ≠ 0
    · simp [h2] at h
    · simp only [h2, if_false] at h
      by_cases h3 : sig.scaled > S
      · simp [h3] at h
      · simp only [h3, if_false, Except.ok.injEq] at h
        rw [← h, hrt]

/-- the default identifier of an inserted signature (`ident=None`): its name; without a name its filename;
    without either the first 8 characters of its md5sum (md5 itself is supplied by the harness, not modelled) -/
theorem default_identifier (sig : Sig) :
    (sig.name ≠ "" → sig.str = sig.name) ∧
    (sig.name = "" → sig.filename ≠ "" → sig.str = sig.filename) ∧
    (sig.name = "" → sig.filename = "" → sig.str = String.ofList (sig.md5.toList.take 8)) := by
  unfold Sig.str
  refine ⟨fun h => by simp [h], fun h1 h2 => by simp [h1, h2], fun h1 h2 => by simp [h1, h2]⟩

/-- a signature of another k-mer size or molecule type (DNA / protein / dayhoff / hp) is refused and leaves
    the database unchanged -/
theorem incompatible_signature_refused (db : Db) (sig : Sig) (ident : String) (lineage : Lineage)
    (h : sig.ksize ≠ db.ksize ∨ sig.moltype ≠ db.moltype) :
    db.insert sig ident lineage = (db, .error .value) := by
  unfold Db.insert
  by_cases hk : sig.ksize ≠ db.ksize
  · simp [hk]
  · rcases h with h | h
    · exact absurd h hk
    · simp [hk, h]

/-- `get_lineage_assignments(h)`: exactly the lineages of the inserted signatures that hold `h` and
    have a lineage — in insertion order, once per signature (identical lineages of several
    signatures appear several times); `[]` if fewer than `min_num` signatures hold `h` -/
theorem assignments_exact {db : Db} {log : List Entry} (hq : QRep db log) (h minNum : Nat) :
    db.getLineageAssignments h minNum =
      .ok (if minNum ≠ 0 ∧ (idxsSpec log h).length < minNum then []
           else (idxsSpec log h).filterMap (lineageAt log)) :=
  getLineageAssignments_eq hq h minNum

/-- `get_identifiers_for_hashval(h)`: exactly the identifiers of the signatures holding `h` -/
theorem identifiers_exact {db : Db} {log : List Entry} (hq : QRep db log) (h : Nat) :
    db.getIdentifiers h = .ok ((idxsSpec log h).filterMap (fun i => (log[i]?).map Entry.ident)) :=
  getIdentifiers_eq hq h

/-- `len(db)` counts every accepted insertion -/
theorem len_counts_all {db : Db} {log : List Entry} (hq : QRep db log) : db.len = log.length :=
  hq.nextIndex

/-- `_signatures`: every inserted signature is rebuilt — the domain is exactly the set of inserted
    indices, including signatures that hold no hash at the database's scaled — and the sketch rebuilt
    for index `j` is the strictly ascending list of the hashes signature `j` holds (below the threshold
    of the database's scaled) -/
theorem reconstruct {db : Db} {log : List Entry} (hq : QRep db log) :
    (keys db.sketches).Nodup ∧
    (∀ j, ((get? db.sketches j).getD []).Pairwise (· < ·)) ∧
    (∀ j h, h ∈ (get? db.sketches j).getD [] ↔ ∃ e, log[j]? = some e ∧ h ∈ e.kept ∧ h ≤ mhR db.scaled) ∧
    (∀ j, j ∈ keys db.sketches ↔ ∃ e, log[j]? = some e) :=
  sketches_log hq

/-- hence, when the stored hashes respect the threshold, the rebuilt sketch *is* the inserted one
    (possibly empty): it is present, and any strictly ascending list with the same members equals it -/
theorem reconstruct_exact {db : Db} {log : List Entry} (hq : QRep db log) {j : Nat} {e : Entry}
    (he : log[j]? = some e) (hb : ∀ h ∈ e.kept, h ≤ mhR db.scaled) {hs : List Nat}
    (hsorted : hs.Pairwise (· < ·)) (hmem : ∀ h, h ∈ hs ↔ h ∈ e.kept) :
    get? db.sketches j = some hs := by
  obtain ⟨_, h2, h3, h4⟩ := reconstruct hq
  have hpres : (get? db.sketches j).isSome := get?_isSome_iff.mpr ((h4 j).mpr ⟨e, he⟩)
  have heq : (get? db.sketches j).getD [] = hs := by
    apply sorted_ext (h2 j) hsorted
    intro h
    rw [h3 j h, hmem]
    constructor
    · rintro ⟨e', he', hk, _⟩
      rw [he] at he'; cases he'; exact hk
    · intro hk; exact ⟨e, he, hk, hb h hk⟩
  cases hg : get? db.sketches j with
  | none => simp [hg] at hpres
  | some v => simp [hg] at heq; rw [heq]

/-- `_signatures` with names: every rebuilt sketch carries the name its signature was inserted with, and
    nothing fails -/
theorem signatures_named {db : Db} {log : List Entry} (hq : QRep db log) :
    db.signatures = .ok (db.sketches.map (fun p => (p.1, ((log[p.1]?).map Entry.name).getD "", p.2))) :=
  signatures_named_log hq

/-! ### D11 (repaired in /repo, 74325d9): a sketch that is empty at the database's scaled is yielded

   Regression example, kernel-checked on the model of the code as it stands now: one signature without
   hashes at scaled 10 and one with; both are counted and both are yielded, the first with an empty
   sketch. -/

theorem empty_sketch_counted_and_yielded :
    let s0 : Sig := { name := "e", filename := "", ksize := 21, moltype := 0, num := 0, scaled := 10, hashes := [] }
    let s1 : Sig := { name := "f", filename := "", ksize := 21, moltype := 0, num := 0, scaled := 10, hashes := [3] }
    let db := (Db.insert (Db.insert (Db.new 21 10 0) s0 "" []).1 s1 "" []).1
    db.len = 2 ∧ db.signatures.toOption = some [(1, "f", [3]), (0, "e", [])] := by decide

/-! ### `summarize`, end to end: database code and lineage code together

   The specification side mentions only the logs of inserted signatures:
   * `linsOf logs h`      the lineages of the inserted signatures (of all databases) holding `h`;
   * `specAssigned`       the query hashes for which that list is non-empty;
   * `specSum logs hashvals ign S`  total weight (count, or 1 with `--ignore-abundance`) of the assigned query
                          hashes whose LCA `(lcaOf (linsOf logs h)).1` satisfies `S`;
   * `lcaTotal … l`       the same for "LCA = l" (what the threshold is compared with). -/

/-- for databases that represent their logs (every reachable database does: `history_invariant`),
    `summarize(hashvals, dblist, threshold, ignore_abundance)` never fails, and the count it reports for
    lineage `p` is the total weight of the query hashes `h` whose inserted-signature lineages have an LCA
    credited to `p` (the LCA itself or an extension of `p`; the root only for itself) and reaching the
    threshold — every hash once, with its own weight.  This composes `assignments_exact`, `gather_exact`,
    `find_lca_set_only`, `counts_eq` and `aggregate_once`. -/
theorem summarize_end_to_end (dbs : List (Db × List Entry)) (hq : ∀ p ∈ dbs, QRep p.1 p.2)
    (hashvals : List (Nat × Nat)) (hnd : (keys hashvals).Nodup) (thr : Nat) (ign : Bool) :
    ∃ agg, summarizeWith (lookDbs (dbs.map Prod.fst)) hashvals thr ign = .ok agg ∧
      ∀ p, val agg p = specSum (dbs.map Prod.snd) hashvals ign
        (fun l => decide (credit l p) && decide (thr ≤ lcaTotal (dbs.map Prod.snd) hashvals ign l)) := by
  have hw : ∀ h ∈ keys hashvals,
      (wOf (if ign || hashvals.isEmpty then none else some hashvals) h).isSome := by
    intro h hh
    by_cases hc : (ign || hashvals.isEmpty) = true
    · simp [hc, wOf]
    · simp only [hc, Bool.false_eq_true, if_false, wOf]
      exact get?_isSome_iff.mpr hh
  obtain ⟨counts, hc⟩ := countLca_gather_ok (lookDbs (dbs.map Prod.fst)) (keys hashvals) _ hw
  refine ⟨aggregate counts thr, ?_, ?_⟩
  · unfold summarizeWith
    simp only [hc]
  · intro p
    rw [aggregate_once hc thr p]
    have hcounts : ∀ l, val counts l = lcaTotal (dbs.map Prod.snd) hashvals ign l := by
      intro l
      rw [(counts_eq hc l).2]
      exact hashSum_eq_specSum dbs hq hashvals hnd ign _
    have hS : (fun l => decide (credit l p) && decide (thr ≤ val counts l)) =
        (fun l => decide (credit l p) && decide (thr ≤ lcaTotal (dbs.map Prod.snd) hashvals ign l)) := by
      funext l; rw [hcounts l]
    rw [hS]
    exact hashSum_eq_specSum dbs hq hashvals hnd ign _

/-- ... for every database reachable by insertions, downsamplings and JSON round trips -/
theorem summarize_reachable (ksize scaled moltype : Nat) (ops : List Op)
    (hashvals : List (Nat × Nat)) (hnd : (keys hashvals).Nodup) (thr : Nat) (ign : Bool) :
    let r := run (Db.new ksize scaled moltype) [] ops
    ∃ agg, summarizeWith (lookDbs [r.1]) hashvals thr ign = .ok agg ∧
      ∀ p, val agg p = specSum [r.2] hashvals ign
        (fun l => decide (credit l p) && decide (thr ≤ lcaTotal [r.2] hashvals ign l)) := by
  intro r
  have := summarize_end_to_end [(r.1, r.2)]
    (by intro p hp; simp only [List.mem_cons, List.not_mem_nil, or_false] at hp; subst hp
        exact history_invariant ksize scaled moltype ops) hashvals hnd thr ign
  simpa using this

/-- the specification's lineage list for `h` is what the statement says: the lineages of the inserted
    signatures that hold `h` (at the database's scaled) and have a lineage -/
theorem linsOf_mem (logs : List (List Entry)) (h : Nat) (l : Lineage) :
    l ∈ linsOf logs h ↔
      ∃ log ∈ logs, ∃ (i : Nat) (e : Entry), log[i]? = some e ∧ h ∈ e.kept ∧ e.lineage = l ∧ l ≠ [] := by
  unfold linsOf
  rw [List.mem_flatten]
  constructor
  · rintro ⟨ls, hls, hl⟩
    obtain ⟨log, hlog, rfl⟩ := List.mem_map.mp hls
    obtain ⟨i, hi, hla⟩ := List.mem_filterMap.mp hl
    obtain ⟨e, he, hk⟩ := mem_idxsSpec.mp hi
    unfold lineageAt at hla
    rw [he] at hla
    by_cases hne : e.lineage = []
    · simp [hne] at hla
    · simp only [hne, if_false, Option.some.injEq] at hla
      exact ⟨log, hlog, i, e, he, hk, hla, hla ▸ hne⟩
  · rintro ⟨log, hlog, i, e, he, hk, hla, hne⟩
    refine ⟨_, List.mem_map.mpr ⟨log, hlog, rfl⟩, ?_⟩
    apply List.mem_filterMap.mpr
    refine ⟨i, mem_idxsSpec.mpr ⟨e, he, hk⟩, ?_⟩
    unfold lineageAt
    rw [he]
    simp [hla, hne]

/-- the command line (`lca summarize`, Model/LcaCli.lean): what is written for one query signature is
    `summarize` — the function of `summarize_end_to_end` — applied to the hashes of the query downsampled to the
    databases' scaled, each weighted by its abundance (1 for a flat sketch), and `total_counts` is their total
    weight (their number with `--ignore-abundance`) -/
theorem cli_summarize_is_summarize (look : Nat → List (List Lineage)) (thr : Nat) (ign : Bool) (scaled : Nat)
    (sg : Sig) (agg : List (Lineage × Nat)) (total : Nat)
    (h : LcaCli.summarizeOne look thr ign scaled sg = .ok (agg, total)) :
    ∃ kept, sg.downTo scaled = .ok kept ∧
      summarizeWith look (kept.map (fun x => (x, if sg.track then LcaCli.abundOf x else 1))) thr ign = .ok agg ∧
      total = (if ign then kept.length
               else ((kept.map (fun x => (x, if sg.track then LcaCli.abundOf x else 1))).map Prod.snd).sum) := by
  unfold LcaCli.summarizeOne LcaCli.countSignature at h
  cases hd : sg.downTo scaled with
  | error e => simp [hd] at h
  | ok kept =>
    simp only [hd] at h
    refine ⟨kept, rfl, ?_⟩
    cases hs : summarizeWith look (kept.map (fun x => (x, if sg.track then LcaCli.abundOf x else 1))) thr ign with
    | error e => simp [hs] at h
    | ok a =>
      simp only [hs, Except.ok.injEq, Prod.mk.injEq] at h
      obtain ⟨h1, h2⟩ := h
      subst h1
      refine ⟨rfl, ?_⟩
      rw [← h2]
      simp

/-- `lca classify` for one query: `classify_signature` (the function of `classify_spec` / `classify_majority_spec`)
    on the hashes of the query brought to the databases' scaled -/
theorem cli_classify_is_classify (look : Nat → List (List Lineage)) (thr : Nat) (maj : Bool) (scaled : Nat)
    (sg : Sig) (r : Lineage × Status) (h : LcaCli.classifyOne look thr maj scaled sg = .ok r) :
    ∃ hs, (sg.scaled = scaled ∧ hs = sg.hashes ∨ sg.downTo scaled = .ok hs) ∧
      classifyWith look hs thr maj = .ok r := by
  unfold LcaCli.classifyOne at h
  by_cases hsc : sg.scaled ≠ scaled
  · simp only [hsc, ne_eq, not_false_eq_true, if_true] at h
    cases hd : sg.downTo scaled with
    | error e => simp [hd] at h
    | ok hs =>
      simp only [hd] at h
      refine ⟨hs, Or.inr rfl, ?_⟩
      cases hc : classifyWith look hs thr maj with
      | error e => simp [hc] at h
      | ok r' => simp only [hc, Except.ok.injEq] at h; rw [h]
  · have heq : sg.scaled = scaled := by simpa using hsc
    simp only [hsc, if_false] at h
    refine ⟨sg.hashes, Or.inl ⟨heq, rfl⟩, ?_⟩
    cases hc : classifyWith look sg.hashes thr maj with
    | error e => simp [hc] at h
    | ok r' => simp only [hc, Except.ok.injEq] at h; rw [h]

/-! ### JSON save / load -/

/-- the loaded database represents the same log, every lineage read back along `taxlist()` -/
theorem json_roundtrip {db : Db} {log : List Entry} (hq : QRep db log) (hl : LinInv db) :
    QRep db.jsonRoundTrip (log.map Entry.json) :=
  json_qrep hq hl

theorem lineageAt_json (log : List Entry) (i : Nat) :
    lineageAt (log.map Entry.json) i = (lineageAt log i).map jsonLineage := by
  unfold lineageAt
  simp only [List.getElem?_map]
  cases log[i]? with
  | none => rfl
  | some e =>
    by_cases h : e.lineage = []
    · simp [Entry.json, h]
    · simp [Entry.json, h, jsonLineage_ne_nil]

theorem idxsSpec_json (log : List Entry) (h : Nat) : idxsSpec (log.map Entry.json) h = idxsSpec log h := by
  unfold idxsSpec
  simp only [List.length_map]
  apply List.filter_congr
  intro i _
  unfold holds
  simp only [List.getElem?_map]
  cases log[i]? <;> rfl

/-- same lineages for every hash after save/load, each read back along `taxlist()` -/
theorem json_assignments {db : Db} {log : List Entry} (hq : QRep db log) (hl : LinInv db) (h : Nat) :
    ∃ ls, db.getLineageAssignments h = .ok ls ∧ db.jsonRoundTrip.getLineageAssignments h = .ok (ls.map jsonLineage) := by
  refine ⟨_, assignments_exact hq h 0, ?_⟩
  rw [assignments_exact (json_roundtrip hq hl) h 0]
  simp only [ne_eq, not_true_eq_false, false_and, if_false, idxsSpec_json]
  congr 1
  rw [List.map_filterMap]
  apply filterMap_congr'
  intro i _
  rw [lineageAt_json]

/-- same identifiers for every hash after save/load -/
theorem json_identifiers {db : Db} {log : List Entry} (hq : QRep db log) (hl : LinInv db) (h : Nat) :
    db.jsonRoundTrip.getIdentifiers h = db.getIdentifiers h := by
  rw [identifiers_exact hq, identifiers_exact (json_roundtrip hq hl), idxsSpec_json]
  congr 1
  apply filterMap_congr'
  intro i _
  simp only [List.getElem?_map]
  cases log[i]? <;> rfl

/-- same reconstructed signatures, same `len`, same hash values after save/load -/
theorem json_signatures {db : Db} {log : List Entry} (hq : QRep db log) :
    db.jsonRoundTrip.signatures = db.signatures ∧ db.jsonRoundTrip.hashvals = db.hashvals ∧
      db.jsonRoundTrip.len = db.len := by
  refine ⟨rfl, rfl, ?_⟩
  simp only [Db.len, Db.jsonRoundTrip]
  rw [hq.identToIdx, vals_identIdx, nextAfter_range, hq.nextIndex]

/-- protein / dayhoff / hp databases store `ksize * 3` in the JSON file and divide by 3 on load: the k-mer
    size, the moltype and the scaled value of the loaded database are those of the saved one -/
theorem json_parameters_roundtrip (db : Db) :
    db.jsonRoundTrip.ksize = db.ksize ∧ db.jsonRoundTrip.moltype = db.moltype ∧
      db.jsonRoundTrip.scaled = db.scaled := by
  refine ⟨?_, rfl, rfl⟩
  simp only [Db.jsonRoundTrip, jsonLoadKsize, jsonSaveKsize]
  by_cases h : db.moltype ≠ 0
  · rw [if_pos h, if_pos h]; exact Nat.mul_div_cancel _ (by decide)
  · rw [if_neg h, if_neg h]

/-- a lineage that lists the ranks of `taxlist()` in order names the same taxa after save/load
    (what changes is only the padding with empty names), so every LCA and every summary is unchanged -/
theorem json_lineage_same_taxa {l : Lineage} (h : Positional l) : canon (jsonLineage l) = canon l :=
  canon_jsonLineage h

/-! ### `downsample_scaled` (D9, repaired in /repo: `k <= max_hash` of a sketch built at `S`)

   The comparison and the threshold expression are re-read from the source by the translator
   (`Gen.lcaDownStrict`, `Gen.lcaDownThrRust`); these theorems are about the values read now and stop
   building if the source goes back to `k < _get_max_hash_for_scaled(S)`. -/

/-- after `downsample_scaled(S)` every entry holds what a direct insertion at scaled `S` files:
    the hashes up to `max_hash(S)`, inclusive -/
theorem downsample_entry (S : Nat) (e : Entry) : (e.restrict S).kept = e.kept.filter (· ≤ mhR S) := by
  unfold Entry.restrict
  simp only
  apply List.filter_congr
  intro x _
  have h1 : Gen.lcaDownStrict = false := rfl
  have h2 : Gen.lcaDownThrRust = true := rfl
  simp [downKeep, downThreshold, h1, h2]

/-- downsampling commutes with insertion: a sketch filed at the finer scaled `S0` and then
    downsampled is the sketch filed at `S` directly -/
theorem downsample_commutes (S0 S : Nat) (hmono : mhR S ≤ mhR S0) (hashes : List Nat) (e : Entry)
    (he : e.kept = hashes.filter (· ≤ mhR S0)) :
    (e.restrict S).kept = hashes.filter (· ≤ mhR S) := by
  rw [downsample_entry, he, List.filter_filter]
  apply List.filter_congr
  intro x _
  by_cases hx : x ≤ mhR S
  · have : x ≤ mhR S0 := Nat.le_trans hx hmono
    simp [hx, this]
  · simp [hx]

/-- regression example for D9 (kernel-checked on the model of the code as it stands now): a database at
    scaled 1 holding `h = max_hash(10)`; after `downsample_scaled(10)` the hash is still filed under the
    signature, `h + 1` is gone, and a database built directly at scaled 10 agrees -/
theorem downsample_keeps_threshold_hash :
    let h := 1844674407370955264
    let sig : Sig := { name := "s", filename := "", ksize := 21, moltype := 0, num := 0, scaled := 1, hashes := [5, h, h + 1] }
    let db1 := (Db.insert (Db.new 21 1 0) sig "" [(0, 1)]).1
    let direct := (Db.insert (Db.new 21 10 0) sig "" [(0, 1)]).1
    mhR 10 = h ∧ db1.idxsOf h = [0] ∧ db1.idxsOf (h + 1) = [0] ∧ direct.idxsOf h = [0] ∧ direct.idxsOf (h + 1) = [] ∧
      (∀ d, db1.downsampleScaled 10 = .ok d → d.idxsOf h = [0] ∧ d.idxsOf (h + 1) = [] ∧ d.idxsOf 5 = [0]) := by
  have e1 : mhR 10 = 1844674407370955264 := by decide +kernel
  have e3 : insThreshold 10 = 1844674407370955264 := by decide +kernel
  have e4 : insThreshold 1 = U64MAX := by decide +kernel
  have h1 : Gen.lcaDownStrict = false := rfl
  have h2 : Gen.lcaDownThrRust = true := rfl
  have hk : ∀ k, downKeep 10 k = decide (k ≤ 1844674407370955264) := by
    intro k; simp [downKeep, downThreshold, h1, h2, e1]
  refine ⟨e1, ?_, ?_, ?_, ?_, ?_⟩
  · simp [Db.insert, Db.new, Sig.downTo, Db.getIdentIndex, Db.getLineageId, Sig.str, Db.idxsOf,
      addHashes, Dict.get?, Dict.set, Dict.contains, Dict.addSet]
  · simp [Db.insert, Db.new, Sig.downTo, Db.getIdentIndex, Db.getLineageId, Sig.str, Db.idxsOf,
      addHashes, Dict.get?, Dict.set, Dict.contains, Dict.addSet]
  · simp [Db.insert, Db.new, Sig.downTo, Db.getIdentIndex, Db.getLineageId, Sig.str, Db.idxsOf,
      addHashes, Dict.get?, Dict.set, Dict.contains, Dict.addSet, e3]
  · simp [Db.insert, Db.new, Sig.downTo, Db.getIdentIndex, Db.getLineageId, Sig.str, Db.idxsOf,
      addHashes, Dict.get?, Dict.set, Dict.contains, Dict.addSet, e3]
  · intro d hd
    simp [Db.insert, Db.new, Sig.downTo, Db.getIdentIndex, Db.getLineageId, Sig.str, Db.downsampleScaled,
      addHashes, Dict.get?, Dict.set, Dict.contains, Dict.addSet, hk] at hd
    subst hd
    simp [Db.idxsOf, Dict.get?]

/-! ### the SQLite twin and `downsample_scaled` (finding C18.3)

   Whether the queries of `LCA_SqliteDatabase` honour `self.scaled` is read from the source by the translator
   (`Gen.sqlDownHonoured`); both behaviours are modelled, each theorem is about one of them. -/

/-- as the code stands (C18.3): `downsample_scaled(S)` only sets the attribute — every hash keeps the sketch
    ids it had, so hashes above `max_hash(S)` keep being reported -/
theorem sql_downsample_changes_no_answer (hflag : Gen.sqlDownHonoured = false) {s s' : SqlDb} {S : Nat}
    (h : s.downsampleScaled S = .ok s') (x : Nat) : s'.idxsOf x = s.idxsOf x := by
  unfold SqlDb.idxsOf
  rw [hflag]
  exact sql_downsample_unhonoured h x

/-- with the proposed patch (`patches/C18/C18.3-sql-downsample-queries.diff`): after `downsample_scaled(S)`
    a hash is reported iff it is at most `max_hash(S)`, and then with the sketch ids that hold it -/
theorem sql_downsample_honoured (hflag : Gen.sqlDownHonoured = true) {s s' : SqlDb} {S : Nat}
    (h : s.downsampleScaled S = .ok s') (x : Nat) :
    s'.scaled = S ∧ s'.idxsOf x = if x ≤ mhR S then s.idxsOfAll x else [] := by
  unfold SqlDb.idxsOf
  rw [hflag]
  exact sql_downsample_honoured_idxs h x

/-- every inserted signature is rebuilt exactly once: `signatures()` has as many items as `len(db)` -/
theorem signatures_count {db : Db} {log : List Entry} (hq : QRep db log) : db.sketches.length = log.length :=
  signatures_count_log hq

/-- the SQLite form is built from `signatures()`, so (D11 repaired) it now has a row for every inserted
    signature, including those that hold no hash at the database's scaled: `len` agrees with the source -/
theorem sql_keeps_every_signature {db : Db} {log : List Entry} (hq : QRep db log) {s : SqlDb}
    (h : db.toSql = .ok s) : s.len = db.len := by
  unfold Db.toSql Db.toSqlWith at h
  rw [signatures_named hq] at h
  simp only at h
  split at h
  · cases h
  · split at h
    · cases h
    · simp only [Except.ok.injEq] at h
      subst h
      simp [SqlDb.len, length_numberFrom, signatures_count hq, len_counts_all hq]

/-! ### the SQLite form agrees with the in-memory form when identifiers are derivable from names

   `SqlOk db log` (Lemmas/LcaSql.lean) is the case finding C18.4 excludes: every signature has a name whose
   first word (`firstWord`, the model of `name.split(" ")[0]`, structurally recursive on characters and
   compared with `String.splitOn` and with Python's `split` on every `sig` op of the stream) is the identifier
   it was inserted with; a signature without lineage does not collide, after `name.split(".")[0]`
   (`dotPrefix`), with the identifier of one that has a lineage; stored hashes respect the threshold.

   FULL STATEMENT (not proved / false, finding C18.4): the same without `SqlOk` — e.g. a signature named
   "GCF_1.1 E coli" inserted under its full name loses its lineage in the SQLite form. -/

/-- `get_lineage_assignments` on the SQLite form: exactly the lineages the in-memory form reports, each as the
    taxonomy table returns it (`sqlKeep`: names by position, trailing empty names stripped — the same taxa by
    `sql_lineage_same_taxa`), up to the order of the answer (row order, which the protocol canonicalises) -/
theorem sql_equiv_partial (hflag : Gen.sqlStoresIdents = false) {db : Db} {log : List Entry} (hq : QRep db log)
    (hok : SqlOk db log) {s : SqlDb} (h : db.toSql = .ok s) (x : Nat) :
    ∃ ls ls', db.getLineageAssignments x = .ok ls ∧ s.getLineageAssignments x = .ok ls' ∧
      ls'.Perm (ls.filterMap sqlKeep) := by
  have h' : db.toSqlWith false = .ok s := by rw [← hflag]; exact h
  exact sql_assignments_perm hq hok.bounded (toSql_built_names hq hok h') x

/-- with the proposed patch (`patches/C18/C18.4-C18.5-sql-store-identifiers.diff`: `save_to_sql` records the
    identifiers, `_build_index` uses them) the same holds for EVERY database — no hypothesis on names or
    identifiers, only that the stored hashes respect the sketch threshold -/
theorem sql_equiv_stored (hflag : Gen.sqlStoresIdents = true) {db : Db} {log : List Entry} (hq : QRep db log)
    (hb : ∀ e ∈ log, ∀ h ∈ e.kept, h ≤ mhR db.scaled) {s : SqlDb} (h : db.toSql = .ok s) (x : Nat) :
    ∃ ls ls', db.getLineageAssignments x = .ok ls ∧ s.getLineageAssignments x = .ok ls' ∧
      ls'.Perm (ls.filterMap sqlKeep) := by
  have h' : db.toSqlWith true = .ok s := by rw [← hflag]; exact h
  exact sql_assignments_perm hq hb (toSql_built_idents hq h') x

/-- a lineage along `taxlist()` names the same taxa after its passage through the taxonomy table -/
theorem sql_lineage_same_taxa {l : Lineage} (h : Positional l) : canon (sqlLin l) = canon l :=
  canon_sqlLin h

/-- `signatures()` of the SQLite form: the same (name, sketch) pairs as the in-memory form, in the same
    order (no hypothesis on identifiers needed) -/
theorem sql_signatures_equiv {db : Db} {log : List Entry} (hq : QRep db log) {s : SqlDb} (h : db.toSql = .ok s) :
    ∃ sigs, db.signatures = .ok sigs ∧
      s.signatures.map (fun r => (r.2.1, r.2.2)) = sigs.map (fun g => (g.2.1, g.2.2)) :=
  sql_signatures_eq hq (toSqlWith_rows hq h)

/-- `hashvals` of the SQLite form: the same set of hash values (64-bit values within the sketch threshold) -/
theorem sql_hashvals_equiv {db : Db} {log : List Entry} (hq : QRep db log)
    (hb : ∀ e ∈ log, ∀ h ∈ e.kept, h ≤ mhR db.scaled)
    (hu : ∀ e ∈ log, ∀ h ∈ e.kept, h < 2 ^ 64) {s : SqlDb} (h : db.toSql = .ok s) (x : Nat) :
    x ∈ s.hashvals ↔ x ∈ db.hashvals :=
  sql_hashvals_mem hq hb hu (toSqlWith_rows hq h) x

/-- the two shapes of names for which `SqlOk.derivable` holds by construction: a name without a space
    inserted under itself, and `"<ident> <anything>"` inserted under `<ident>` -/
theorem first_word_shapes :
    (∀ s : String, ' ' ∉ s.toList → firstWord s = s) ∧
    (∀ a b : List Char, ' ' ∉ a → firstWord (String.ofList (a ++ ' ' :: b)) = String.ofList a) ∧
    (∀ s : String, '.' ∉ s.toList → dotPrefix s = s) ∧
    (∀ a b : List Char, '.' ∉ a → dotPrefix (String.ofList (a ++ '.' :: b)) = String.ofList a) :=
  ⟨fun _ h => firstWord_of_no_space h, firstWord_ident_space, fun _ h => dotPrefix_of_no_dot h, dotPrefix_dot⟩

/-- finding C18.4, kernel-checked: a signature named "GCF_1.1 E coli" inserted under its default identifier (the
    full name) has its lineage in the in-memory form and none in the SQLite form whose `_build_index` guesses
    identifiers from names (it looks under "GCF_1.1", then under "GCF_1"); with recorded identifiers it is there -/
theorem sql_lineage_lost_counterexample :
    let sig : Sig := { name := "GCF_1.1 E coli", filename := "", ksize := 21, moltype := 0, num := 0, scaled := 10, hashes := [5] }
    let db := (Db.insert (Db.new 21 10 0) sig "" [(0, 1), (1, 2)]).1
    firstWord sig.name = "GCF_1.1" ∧ dotPrefix sig.name = "GCF_1" ∧
    (db.getLineageAssignments 5).toOption = some [[(0, 1), (1, 2)]] ∧
      ((db.toSqlWith false).toOption.map (fun s => (s.getLineageAssignments 5).toOption)) = some (some []) ∧
      ((db.toSqlWith true).toOption.map (fun s => (s.getLineageAssignments 5).toOption)) =
        some (some [[(0, 1), (1, 2)]]) := by decide

/-- C18.6 (repaired): a hash nobody holds has no identifiers on the SQLite form either -/
theorem sql_identifiers_absent_hash (s : SqlDb) (h : Nat) (hh : s.idxsOf h = []) :
    s.getIdentifiers h = .ok [] := by
  unfold SqlDb.getIdentifiers
  simp [hh]

/-- C18.7 (repaired): a 64-bit hash value survives the signed storage of SQLite, so `hashvals` of the
    SQLite form lists the stored hashes themselves -/
theorem sql_hash_roundtrip (h : Nat) (hh : h < 2 ^ 64) : convertHashFrom (convertHashTo h) = h := by
  unfold convertHashFrom convertHashTo MAX_SQLITE_INT
  split <;> split <;> omega

/-! ## non-vacuity -/

/-- three lineages, two of which disagree at the third rank; one has a missing rank that is skipped -/
example : lcaOf [[(0, 1), (1, 2), (2, 3)], [(0, 1), (1, 2), (2, 4), (3, 5)], [(0, 1), (1, 2)]] = ([(0, 1), (1, 2)], 2) := by
  decide

example : lcaOf [[(0, 1), (1, 0), (2, 3)], [(0, 1)]] = ([(0, 1), (2, 3)], 0) := by decide

/-- weighted summary: hash 5 (weight 3) has LCA a;b, hash 7 (weight 1) has LCA a: a gets 4, a;b gets 3 -/
example :
    ((countLca [(5, [[(0, 1), (1, 2)]]), (7, [[(0, 1), (1, 2)], [(0, 1), (1, 3)]])] (some [(5, 3), (7, 1)])).map
      (fun c => aggregate c 0)).toOption = some [([(0, 1), (1, 2)], 3), ([(0, 1)], 4)] := by decide

/-- a reachable database with two signatures sharing a hash, identical lineages, one refused duplicate -/
example :
    let s1 : Sig := { name := "a", filename := "", ksize := 21, moltype := 0, num := 0, scaled := 1, hashes := [3, 9] }
    let s2 : Sig := { name := "b", filename := "", ksize := 21, moltype := 0, num := 0, scaled := 1, hashes := [9] }
    let r := run (Db.new 21 1 0) [] [.insert s1 "" [(0, 1)], .insert s2 "" [(0, 1)], .insert s1 "" []]
    r.1.idxsOf 9 = [0, 1] ∧ r.2.length = 2 ∧ r.1.getLineageAssignments 9 = .ok [[(0, 1)], [(0, 1)]] := by
  simp [run, stepDb, stepLog, Db.insert, Db.new, Sig.downTo, Db.getIdentIndex, Db.getLineageId, Sig.str,
    Db.idxsOf, addHashes, Dict.get?, Dict.set, Dict.contains, Dict.addSet, entryOf, Db.getLineageAssignments,
    List.foldlM, bind, Except.bind, pure, Except.pure]

/-- the SQLite form of a database whose identifier is the first word of the name: the lineage comes back with
    its interior empty name kept and the trailing one stripped -/
example :
    let sig : Sig := { name := "GCF_1.1 E coli", filename := "", ksize := 21, moltype := 0, num := 0, scaled := 10, hashes := [5] }
    let db := (Db.insert (Db.new 21 10 0) sig "GCF_1.1" [(0, 1), (1, 0), (2, 3), (3, 0)]).1
    (db.getLineageAssignments 5).toOption = some [[(0, 1), (1, 0), (2, 3), (3, 0)]] ∧
      ((db.toSqlWith false).toOption.map (fun s => (s.getLineageAssignments 5).toOption)) =
        some (some [[(0, 1), (1, 0), (2, 3)]]) := by decide

/-- majority vote: two LCAs with the same count — the one counted first wins; at threshold 2 a count of 2 is
    not enough (`count > threshold`) -/
example :
    classifyCounts [([(0, 1)], 2), ([(0, 2)], 2), ([(0, 3)], 1)] 1 true = ([(0, 1)], Status.found) ∧
    classifyCounts [([(0, 1)], 2), ([(0, 2)], 2), ([(0, 3)], 1)] 2 true = ([], Status.nomatch) := by decide

/-- C18.8 (repaired), regression example: save/load, then insert another signature holding a hash that
    is already indexed and a new one; the loaded database answers for both, with the old lineage read
    back along `taxlist()` and the new one as given -/
example :
    let s1 : Sig := { name := "a", filename := "", ksize := 21, moltype := 0, num := 0, scaled := 1, hashes := [9] }
    let s2 : Sig := { name := "b", filename := "", ksize := 21, moltype := 0, num := 0, scaled := 1, hashes := [9, 11] }
    let r := run (Db.new 21 1 0) [] [.insert s1 "" [(0, 1)], .jsonReload, .insert s2 "" [(0, 2)], .insert s1 "" []]
    r.1.len = 2 ∧ r.1.idxsOf 9 = [0, 1] ∧ r.1.idxsOf 11 = [1] ∧
      r.1.getLineageAssignments 9 =
        .ok [[(0, 1), (1, 0), (2, 0), (3, 0), (4, 0), (5, 0), (6, 0), (7, 0)], [(0, 2)]] := by
  have e4 : insThreshold 1 = U64MAX := by decide +kernel
  simp [run, stepDb, stepLog, Db.insert, Db.new, Sig.downTo, Db.getIdentIndex, Db.getLineageId, Sig.str,
    Db.idxsOf, Db.len, addHashes, Dict.get?, Dict.set, Dict.contains, Dict.addSet, entryOf, Db.getLineageAssignments,
    Db.jsonRoundTrip, jsonLineage, jsonLoadKsize, jsonSaveKsize, nRanks, Gen.lcaTaxlist, Dict.nextAfter, Dict.vals,
    List.range, List.range.loop,
    List.foldlM, bind, Except.bind, pure, Except.pure]

end Sm.C18
