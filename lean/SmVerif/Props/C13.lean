/-
C13 — Sequence Bloom Tree internal nodes always cover the leaves beneath them.

Statement (given): in an SBT every internal node answers 'present' for every hash of every
signature stored beneath it and records a size bound no larger than the smallest signature
beneath it; after any sequence of insertions, for any branching factor and Bloom filter size,
and after saving and reloading (sparse saves, older index versions, bounded node caches).
Bloom filters never report a stored hash as absent, merging gives the filter of the union,
filters round-trip through their file format.

What is proved here, about the executable model of `sbt.py` / `sbtmh.py` / `nodegraph.rs`
(`SmVerif/Model/SBT.lean`, `SmVerif/Model/Nodegraph.lean`; tied to /repo by the `sbt` and
`nodegraph` correspondence streams and the translator).  The model carries three variant
switches, selected from the source by the translator on every run (`current_source_variant`):
`fixed` (`_rebuild_node` merges every non-None child), `pre` (`add_node` first rebuilds the
nodes recorded in `_missing_nodes`), `keep` (`Node.unload` keeps a filter updated since it was
loaded).  The CURRENT source has all three; the theorems for it are full statements, and the
former defects (D4, C13.1, C13.2) are kept as kernel-checked regression theorems about the
OLDER variants.

* position arithmetic (`parent_child`, …) for every `d`;
* the Bloom laws at full strength (no false negatives through `count`, `update`, round trips;
  `update` = union; `occupied` = popcount; byte-format round trip under the size hypothesis
  the code needs, which every constructor-made filter satisfies);
* `Cover` (with the size bound read as `≤ max 1 |leaf|`, see D13) is an invariant of
  `add_node` on every tree built by insertions, for every `d ≥ 2`, every filter shape and every
  variant: `cover_insert`, `cover_reachable`, `structure_ok`, `insert_total`, `no_signature_lost`;
* save + load (versions 4-6) with ANY subset of internal nodes omitted keeps `Cover`
  (`cover_after_load`), every repair keeps it (`cover_after_load_and_repair`), an insertion
  after a sparse load succeeds, keeps `Cover` and loses no signature (`insert_after_sparse_load`),
  searches with any cache bound keep it on every tree (`cover_after_search`), and after a full
  save + load and any further insertions a search returns exactly the linear scan, the new
  signatures included (`search_after_insert_into_loaded`), also after saving the tree in use to
  another location and continuing to use it (`cover_after_save_elsewhere`), and the same after a sparse save +
  load + insertions (`search_after_insert_into_sparse_loaded`);
* older index versions: a version-3 load ESTABLISHES the bound (`cover_after_load_v3`, also for
  sparse saves: `cover_after_sparse_load_v3`), never fails (`load_v3_total`), and is searchable;
  versions 1-2 leave every node without a bound (`legacy_load_records_no_bound`, known finding
  C13.3) unless the loader runs the fill (`cover_after_load_legacy`);
* kernel-checked counterexamples: the 0 -> 1 clamp (D13, deliberate, `clamp_is_needed`), and
  the three older variants (`older_rebuild_counterexample`, `older_add_node_counterexample`,
  `older_unload_counterexample`), each next to the same input under the current variant.
-/
import SmVerif.Lemmas.SBTInsert
import SmVerif.Lemmas.SBTRebuild
import SmVerif.Lemmas.SBTLoadInsert
import SmVerif.Lemmas.SBTSearch
import SmVerif.Lemmas.SBTFinal
import SmVerif.Lemmas.SBTV3
import SmVerif.Lemmas.SBTLegacy
import SmVerif.Lemmas.SBTSaveElsewhere
import SmVerif.Lemmas.Nodegraph
import SmVerif.Model.Generated

namespace Sm.C13

open Sm Sm.SBT Sm.NG

/-! ## 0. the tie: constants and shapes re-read from the source match what the model hard-codes -/

/-- the variant of the source the translator found on this run is the repaired one in all three
places; the full statements below are about exactly this variant (if an edit brings an older
shape back, this theorem stops checking) -/
theorem current_source_variant :
    Sm.Gen.sbtRebuildFixed = true ∧ Sm.Gen.sbtAddRebuildsMissing = true ∧ Sm.Gen.sbtUnloadKeepsDirty = true ∧
    Sm.Gen.sbtCoarseSubjOne = true ∧ Sm.Gen.sbtSelectEmptyOk = true := by
  decide

/-- `byte_size = tablesize / 8 + 1`, 4-byte blocks, `with_tables` starts at
`max (tablesize - 1) 2` made odd and steps by 2 — as `Model/Nodegraph.lean` has them (whether
`from_reader` refuses a table of size zero is followed by the model: `Sm.Gen.ngLoadRefusesZero`) -/
theorem generated_constants_match_model :
    Sm.Gen.ngByteDiv = 8 ∧ Sm.Gen.ngByteAdd = 1 ∧ Sm.Gen.ngBlockBytes = 4 ∧
    Sm.Gen.ngWtSub = 1 ∧ Sm.Gen.ngWtMin = 2 ∧ Sm.Gen.ngWtStep = 2 := by decide

/-! ## 1. position arithmetic -/

theorem parent_child {d p i : Nat} (hi : i < d) : parent d (child d p i) = p := SBT.parent_child hi

theorem child_parent {d p : Nat} (hd : 0 < d) (hp : 0 < p) :
    child d (parent d p) ((p - 1) % d) = p ∧ (p - 1) % d < d := SBT.child_parent hd hp

theorem child_injective {d p q i j : Nat} (hi : i < d) (hj : j < d) (h : child d p i = child d q j) :
    p = q ∧ i = j := SBT.child_inj hi hj h

theorem parent_decreases {d p : Nat} (hp : 0 < p) : parent d p < p := SBT.parent_lt hp

/-- the ancestor chain of a child is the parent followed by the parent's chain -/
theorem ancestors_of_child {d p i : Nat} (hi : i < d) :
    ancestors d (child d p i) = p :: ancestors d p := SBT.ancestors_child hi

/-! ## 2. Bloom filter laws (`nodegraph.rs`) -/

theorem get_after_count {g : NG} (wf : WF g) (h : Nat) : (g.count h).1.get h = 1 :=
  NG.get_after_count wf h

/-- no false negatives, ever: a stored hash stays present through every later `count` -/
theorem count_monotone (g : NG) (h x : Nat) : g.get x = 1 → (g.count h).1.get x = 1 :=
  NG.count_monotone' g h x

/-- `count` reports a new k-mer exactly when `get` answered 0 -/
theorem count_reports_new {g : NG} (wf : WF g) (h : Nat) : (g.count h).2 = !(g.has h) :=
  NG.count_isNew wf h

theorem addMany_present {g : NG} (wf : WF g) {mins : List Nat} {h : Nat} (hm : h ∈ mins) :
    (g.addMany mins).has h = true := NG.addMany_has wf hm

theorem addMany_monotone {g : NG} (wf : WF g) (mins : List Nat) {x : Nat} (hx : g.has x = true) :
    (g.addMany mins).has x = true := NG.addMany_mono wf mins hx

/-- `update` is the table-wise OR -/
theorem update_is_union {p c : NG} (hs : p.sizes = c.sizes) :
    (p.update c).bs = List.zipWith (fun b o => ({ length := b.length, bits := b.bits ||| o.bits } : BitSet)) p.bs c.bs :=
  NG.update_is_union hs

/-- merging two filters gives the filter of the union of what was stored -/
theorem update_is_filter_of_union (sz : List Nat) (k : Nat) (A B : List Nat) :
    (((NG.new sz k).addMany A).update ((NG.new sz k).addMany B)).bs = ((NG.new sz k).addMany (A ++ B)).bs :=
  NG.update_addMany_bs sz k A B

/-- after a merge every hash present in one of the two filters is present (no false negatives
through `update`) -/
theorem update_no_false_negative {p c : NG} (wp : WF p) (wc : WF c) (hs : p.sizes = c.sizes) {x : Nat}
    (hx : p.has x = true ∨ c.has x = true) : (p.update c).has x = true := by
  rcases hx with h | h
  · exact NG.update_has_left wp wc hs h
  · exact NG.update_has_right wp wc hs h

/-- `occupied_bins` is the population count of table 0: initially, after `count`, after `update` -/
theorem occupied_eq_popcount_new (sz : List Nat) (k : Nat) : OccOK (NG.new sz k) := NG.new_occOK sz k
theorem occupied_eq_popcount_count {g : NG} (wf : WF g) (ho : OccOK g) (h : Nat) : OccOK (g.count h).1 :=
  NG.count_occOK wf ho h
theorem occupied_eq_popcount_update {p c : NG} (hs : p.sizes = c.sizes) : OccOK (p.update c) :=
  NG.update_occOK hs

/-- the byte format round-trips, provided no table size is a multiple of 32 (the size
hypothesis the code needs) and the header fields fit their widths -/
theorem bytes_roundtrip {g : NG} (wf : WF g) (h32 : ∀ b ∈ g.bs, b.length % 32 ≠ 0) (hk : g.ksize < 2 ^ 32)
    (hn : g.bs.length < 256) (ho : g.occupied < 2 ^ 64) (hl : ∀ b ∈ g.bs, b.length < 2 ^ 64) :
    ∃ bytes, g.save = .ok bytes ∧ ∀ extra, NG.load (bytes ++ extra) = .ok { g with unique := 0 } :=
  NG.bytes_roundtrip_extra wf h32 hk hn ho hl

/-- ... and without that hypothesis `save` indexes one block too far (a panic): reachable from
Python only through a foreign/hand-made file whose table size is a multiple of 32 -/
theorem save_panics_on_multiple_of_32 {g : NG} {b : BitSet} (hb : b ∈ g.bs) (h32 : b.length % 32 = 0) :
    g.save = .error .panic := NG.save_panics_mult32 hb h32

/-- every table size chosen by `with_tables` is an odd prime (never a multiple of 32) -/
theorem with_tables_sizes {ts n : Nat} (h1 : 1 ≤ ts) :
    ∀ s ∈ tableSizes ts n, Nat.Prime s ∧ s % 2 = 1 ∧ 3 ≤ s ∧ s < ts := fun s hs =>
  ⟨NG.tableSizes_prime ts n s hs, (NG.tableSizes_odd h1 s hs).1, (NG.tableSizes_odd h1 s hs).2, NG.tableSizes_lt h1 s hs⟩

/-- hence every filter made by the constructor and filled by `count` round-trips -/
theorem bytes_roundtrip_constructor {ts n k : Nat} (h1 : 1 ≤ ts) (mins : List Nat) (hk : k < 2 ^ 32)
    (hn : n < 256) (hts : ts ≤ 2 ^ 64) (ho : ((withTables ts n k).addMany mins).occupied < 2 ^ 64) :
    ∃ bytes, ((withTables ts n k).addMany mins).save = .ok bytes ∧
      NG.load bytes = .ok { (withTables ts n k).addMany mins with unique := 0 } :=
  NG.withTables_addMany_roundtrip h1 mins hk hn hts ho

/-- two insertions into a `d = 2` tree with a single table of 3 bits (used in an example below) -/
def insAll0 (ls : List Leaf) : Except SBT.Err Tree :=
  ls.foldlM (fun t l => addNode true true t l) (Tree.new 2 [3])

/-! ## 3. the Cover invariant under insertion -/

/-- **cover_insert**: on a tree built by insertions (`InsInv`: well-shaped filters, `Cover`,
internal nodes at `0..m-1` and leaves at `m..M`), `add_node` succeeds and gives such a tree
again — every `d ≥ 2`, every filter shape, every leaf (empty / single-hash included), every
variant of the source -/
theorem cover_insert {fixed pre : Bool} {t : Tree} (h : InsInv t) (l : Leaf) :
    ∃ t', addNode fixed pre t l = .ok t' ∧ InsInv t' ∧ Cover t' := by
  obtain ⟨t', h1, h2, _⟩ := addNode_inv (fixed := fixed) (pre := pre) h l
  exact ⟨t', h1, h2, h2.2.1⟩

/-- **cover_reachable**: after ANY sequence of insertions into an empty tree with `d ≥ 2`
children per node and a factory of non-empty tables, every internal node above a leaf answers
'present' for all the leaf's hashes and records `min_n_below ≤ max 1 |leaf|` -/
theorem cover_reachable {d : Nat} {sizes : List Nat} (hd : 2 ≤ d) (hs : SizesOK sizes) {t : Tree}
    (h : Reach d sizes t) : Cover t := (reach_inv hd hs h).1.2.1

/-- **the two halves are one model**: every internal node of the SBT model holds a `Nodegraph`
(`NG`: the prime-sized bit tables of nodegraph.rs with its `count` / `get` / `update`), not an
abstract hash set; `Holds` is stated with `NG.get`, and the insertion/repair proofs go through the
Bloom laws of section 2 (`addMany_present`, `addMany_monotone`, `update_no_false_negative`) under
`DataOK` (every filter has the factory's table sizes).  Spelled out for the factory
`GraphFactory(1, size, n_tables)` of any `size ≥ 1` and any number of tables: after ANY sequence of
insertions every ancestor of every leaf is a present node whose REAL filter answers `get = 1` for
every hash of the leaf, and records `min_n_below ≤ max 1 |leaf|`.  False positives are allowed
(nothing is claimed for hashes not stored beneath the node) -/
theorem cover_reachable_bloom {d ts n : Nat} (hd : 2 ≤ d) (h1 : 1 ≤ ts) {t : Tree}
    (h : Reach d (tableSizes ts n) t) :
    ∀ p l, t.leaves.get? p = some l → ∀ a ∈ ancestors d p,
      ∃ nd, t.nodes.get? a = some nd ∧ (nd.data (tableSizes ts n)).sizes = tableSizes ts n ∧
        (∀ x ∈ l.hashes, (nd.data (tableSizes ts n)).get x = 1) ∧
        ∃ m, nd.minN = some m ∧ m ≤ max 1 l.hashes.length := by
  have hsz : SizesOK (tableSizes ts n) := fun s hs => by have := (NG.tableSizes_odd h1 s hs).2; omega
  obtain ⟨⟨hb, hc, hsh⟩, htd, hts, _⟩ := reach_inv hd hsz h
  intro p l hl a ha
  rcases hsh with he | ⟨m, M, hsp⟩
  · rw [he.2.1] at hl; cases hl
  · rw [← htd] at ha
    obtain ⟨_, nd, hnd, hh, hm⟩ := hsp.cover_some hc hl ha
    rw [hts] at hh
    have hd' := data_ok hsz (by rw [← hts]; exact hb.nodesOK a nd hnd)
    exact ⟨nd, hnd, hd'.2, fun x hx => (NG.has_eq_true_iff_get _ x).mp (hh x hx), hm⟩

/-- the result of a search as a list of signature ids (`none` when it raised) -/
def foundIds (r : Tree × Except SBT.Err (List Leaf)) : Option (List Nat) :=
  match r.2 with | .ok ls => some (ls.map (·.id)) | .error _ => none

/-- the example tree: `d = 2`, ONE table of 3 bits, signatures `{1}` (id 0) and `{2}` (id 1) -/
def fpTree : Tree := match insAll0 [⟨0, [1]⟩, ⟨1, [2]⟩] with | .ok t => t | .error _ => default

/-- a concrete false positive that costs a visit and nothing else: the root's filter answers
'present' for 4 (4 mod 3 = 1) although no stored signature holds 4; a search for `{4}` descends past
the root and returns exactly what a linear scan returns (nothing), a search for `{1}` returns
signature 0 -/
theorem false_positive_costs_only_a_visit :
    (match fpTree.nodes.get? 0 with | some nd => (nd.data fpTree.sizes).get 4 | none => 0) = 1 ∧
    fpTree.leaves.map (fun kv => kv.2.hashes) = [[2], [1]] ∧
    foundIds (search true true fpTree ⟨false, 1, [4], false, none⟩) = some [] ∧
    foundIds (search true true fpTree ⟨false, 1, [1], false, none⟩) = some [0] := by
  decide +kernel

/-- the factory of `GraphFactory(1, size, n_tables)` qualifies for every `size ≥ 1` -/
theorem factory_sizes_ok {ts n : Nat} (h1 : 1 ≤ ts) : SizesOK (tableSizes ts n) := fun s hs =>
  by have := (NG.tableSizes_odd h1 s hs).2; omega

/-- **insert_total**: an insertion never fails on a reachable tree -/
theorem insert_total {d : Nat} {sizes : List Nat} (hd : 2 ≤ d) (hs : SizesOK sizes) {t : Tree}
    (h : Reach d sizes t) (fixed pre : Bool) (l : Leaf) : ∃ t', addNode fixed pre t l = .ok t' := by
  obtain ⟨t', h1, _⟩ := addNode_inv (fixed := fixed) (pre := pre) (reach_inv hd hs h).1 l
  exact ⟨t', h1⟩

/-- **no_signature_lost**: the inserted leaf is in the tree afterwards and every leaf that was in
the tree still is (possibly relocated) -/
theorem no_signature_lost {d : Nat} {sizes : List Nat} (hd : 2 ≤ d) (hs : SizesOK sizes) {t t' : Tree}
    (h : Reach d sizes t) {fixed pre : Bool} {l : Leaf} (ha : addNode fixed pre t l = .ok t') :
    (∃ p, t'.leaves.get? p = some l) ∧ ∀ p0 l0, t.leaves.get? p0 = some l0 → ∃ p', t'.leaves.get? p' = some l0 := by
  obtain ⟨t2, h1, _, _, _, h5, h6⟩ := addNode_inv (fixed := fixed) (pre := pre) (reach_inv hd hs h).1 l
  rw [h1] at ha; cases ha
  exact ⟨h5, h6⟩

/-- **structure_ok**: in a reachable tree no position is both a leaf and an internal node, no
leaf lies beneath a leaf, every ancestor of a leaf is a present internal node, nothing is
recorded as missing; internal nodes occupy exactly `0..m-1` and leaves exactly `m..M`,
`M ≤ d·m` -/
theorem structure_ok {d : Nat} {sizes : List Nat} (hd : 2 ≤ d) (hs : SizesOK sizes) {t : Tree}
    (h : Reach d sizes t) :
    (∀ p, ¬ ((t.nodes.get? p).isSome = true ∧ (t.leaves.get? p).isSome = true)) ∧
    (∀ p l, t.leaves.get? p = some l → ∀ a ∈ ancestors t.d p,
        t.leaves.get? a = none ∧ (t.nodes.get? a).isSome = true) ∧
    t.missing = [] ∧
    (IsEmpty t ∨ ∃ m M, 1 ≤ m ∧ m ≤ M ∧ M ≤ t.d * m ∧
        (∀ p, (t.nodes.get? p).isSome = true ↔ p < m) ∧ (∀ p, (t.leaves.get? p).isSome = true ↔ (m ≤ p ∧ p ≤ M))) := by
  obtain ⟨⟨_, hc, hsh⟩, _, _, hmiss⟩ := reach_inv hd hs h
  rcases hsh with he | ⟨m, M, hsp⟩
  · obtain ⟨hn, hl, hm⟩ := he
    refine ⟨?_, ?_, hm, Or.inl ⟨hn, hl, hm⟩⟩
    · intro p ⟨h1, _⟩; rw [hn] at h1; cases h1
    · intro p l hl'; rw [hl] at hl'; cases hl'
  · refine ⟨?_, ?_, hmiss, Or.inr ⟨m, M, hsp.m1, hsp.mM, hsp.Mdm, hsp.nodes, hsp.leaves⟩⟩
    · intro p ⟨h1, h2⟩
      have := (hsp.nodes p).mp h1
      have := (hsp.leaves p).mp h2
      omega
    · intro p l hl a ha
      obtain ⟨h1, na, hna, _⟩ := hsp.cover_some hc hl ha
      exact ⟨h1, by simp [hna]⟩

/-! ## 4. save / load / repair / insert / search — full statements for the current source -/

/-- **cover_after_load**: save with ANY set of internal nodes omitted (any sparseness, any
draws) and load as index version 4, 5 or 6 with any cache bound: the loaded tree satisfies
`Cover` (omitted nodes are recorded as missing), no node holds unsaved changes, the leaves
are the same -/
theorem cover_after_load {fixed : Bool} {t t' : Tree} (omitted : Nat → Bool) {ver : Nat} (cm : Option Nat)
    (hv : ver ≠ 3) (hb : Base t) (hc : Cover t) (h : load fixed (save t omitted) ver cm = .ok t') :
    Base t' ∧ Cover t' ∧ Clean t' ∧ t'.leaves = t.leaves := by
  obtain ⟨h1, h2, h3, h4, _⟩ := load_save_cover (fixed := fixed) omitted cm hv hb hc h
  exact ⟨h1, h2, h3, h4⟩

/-- **cover_after_load_and_repair**: ... and rebuilding any position of the loaded tree with
the source's `_rebuild_node` (merge every non-None child) keeps `Cover`: ANY omitted subset -/
theorem cover_after_load_and_repair {t t1 t2 : Tree} (omitted : Nat → Bool) {ver : Nat} (cm : Option Nat) (hv : ver ≠ 3)
    (hb : Base t) (hc : Cover t) (h1 : load true (save t omitted) ver cm = .ok t1) {fuel pos : Nat}
    (h2 : rebuild true fuel t1 pos = .ok t2) : Base t2 ∧ Cover t2 ∧ Clean t2 :=
  cover_after_load_fixed omitted cm hv hb hc h1 h2

/-- `_rebuild_node` keeps `Cover` on EVERY tree state -/
theorem rebuild_cover {fuel : Nat} {t t' : Tree} {pos : Nat} (hb : Base t) (hc : Cover t)
    (h : rebuild true fuel t pos = .ok t') : Base t' ∧ Cover t' := rebuild_fixed_cover hb hc h

/-- `_rebuild_node` always terminates within the fuel the driver gives it (either variant) -/
theorem rebuild_terminates (fixed : Bool) (t : Tree) (pos : Nat) :
    ∃ t', rebuild fixed t.rebuildFuel t pos = .ok t' := rebuild_fuel_enough

/-- **insert_after_sparse_load**: an insertion-built tree saved with ANY set of internal nodes
omitted and loaded (index versions 4-6, any cache bound): an insertion succeeds, the result is
again an insertion-shaped covered tree, the new signature is stored and every signature that was
stored still is -/
theorem insert_after_sparse_load {fixed0 : Bool} {t t1 : Tree} (omitted : Nat → Bool) {ver : Nat}
    (cm : Option Nat) (hv : ver ≠ 3) (h : InsInv t) (hl : load fixed0 (save t omitted) ver cm = .ok t1) (l : Leaf) :
    ∃ t2, addNode true true t1 l = .ok t2 ∧ InsInv t2 ∧ Cover t2 ∧
      (∃ p, t2.leaves.get? p = some l) ∧
      (∀ p0 l0, t.leaves.get? p0 = some l0 → ∃ p', t2.leaves.get? p' = some l0) := by
  obtain ⟨t2, h1, h2, h3, _, _, h6, h7⟩ := SBT.insert_after_sparse_load omitted cm hv h hl l
  exact ⟨t2, h1, h2, h3, h6, h7⟩

/-- the repair step alone: a loaded-shape tree becomes an insertion-shaped covered tree -/
theorem repair_restores_shape {t : Tree} {m M : Nat} (hb : Base t) (hc : Cover t) (hs : LShape t m M) :
    ∃ t', rebuildMissing true (sortAsc t.missing) t = .ok t' ∧ Base t' ∧ Cover t' ∧ Shape t' m M ∧
      t'.leaves = t.leaves := by
  obtain ⟨t', h1, h2, h3, h4, h5, _⟩ := repair_lshape hb hc hs
  exact ⟨t', h1, h2, h3, h4, h5⟩

/-- after a full save + load, insertions succeed and keep the invariant (every variant) -/
theorem insert_after_full_load {fixed fixed' pre : Bool} {t t' : Tree} {ver : Nat} (cm : Option Nat) (hv : ver ≠ 3)
    (h : InsInv t) (hl : load fixed (save t (fun _ => false)) ver cm = .ok t') (l : Leaf) :
    ∃ t'', addNode fixed' pre t' l = .ok t'' ∧ InsInv t'' ∧ Cover t'' := by
  obtain ⟨t'', h1, h2, _⟩ := SBT.insert_after_full_load (fixed := fixed) (fixed' := fixed') (pre := pre) cm hv h hl l
  exact ⟨t'', h1, h2, h2.2.1⟩

/-- **cover_after_search** (bounded node caches): a search — any query, any cache bound, any
cache content — keeps `Cover` on EVERY covered tree (current source: `keep = true`, nothing else
is assumed; for the older `unload` the tree had to be `Clean`).  Its only effects are repairs,
cache bookkeeping and `unload`s -/
theorem cover_after_search {t : Tree} (q : Query) (hb : Base t) (hc : Cover t) :
    Base (search true true t q).1 ∧ Cover (search true true t q).1 ∧ (search true true t q).1.leaves = t.leaves := by
  obtain ⟨h1, h2, _, h4⟩ := search_preserves (fixed := true) (keep := true) q hb hc (Or.inl rfl) (Or.inl rfl)
  exact ⟨h1, h2, h4⟩

theorem cover_after_search_variants {fixed keep : Bool} {t : Tree} (q : Query) (hb : Base t) (hc : Cover t)
    (hcl : CleanV keep t) (h : fixed = true ∨ t.missing = []) :
    Base (search fixed keep t q).1 ∧ Cover (search fixed keep t q).1 ∧ CleanV keep (search fixed keep t q).1 ∧
      (search fixed keep t q).1.leaves = t.leaves := search_preserves q hb hc hcl h

/-- `_fill_internal` and `_fill_min_n_below` keep `Cover` on every tree -/
theorem fill_internal_preserves {t t' : Tree} (hb : Base t) (hc : Cover t) (h : fillInternal true t = .ok t') :
    Base t' ∧ Cover t' := fillUp_graph_preserves hb hc h
theorem fill_min_n_below_preserves {t t' : Tree} (hb : Base t) (hc : Cover t) (h : fillMinNBelow true t = .ok t') :
    Base t' ∧ Cover t' := fillUp_min_preserves hb hc h
theorem fill_internal_preserves_nomissing {fixed : Bool} {t t' : Tree} (hb : Base t) (hc : Cover t) (hm : t.missing = [])
    (h : fillInternal fixed t = .ok t') : Base t' ∧ Cover t' := by
  obtain ⟨h1, h2, _⟩ := fillUp_graph_preserves_nomissing hb hc hm h
  exact ⟨h1, h2⟩
theorem fill_min_n_below_preserves_nomissing {fixed : Bool} {t t' : Tree} (hb : Base t) (hc : Cover t) (hm : t.missing = [])
    (h : fillMinNBelow fixed t = .ok t') : Base t' ∧ Cover t' := by
  obtain ⟨h1, h2, _⟩ := fillUp_min_preserves_nomissing hb hc hm h
  exact ⟨h1, h2⟩

/-- what the invariant is for: on every tree built by insertions a search never raises, leaves
the tree searchable, and returns EXACTLY the stored signatures a linear scan with the same
predicate returns (every variant) -/
theorem search_is_linear_scan {d : Nat} {sizes : List Nat} (hd : 2 ≤ d) (hs : SizesOK sizes) {t : Tree}
    (h : Reach d sizes t) (fixed keep : Bool) (q : Query) :
    Searchable keep (search fixed keep t q).1 ∧ ∃ ls, (search fixed keep t q).2 = .ok ls ∧
      ∀ l, l ∈ ls ↔ (leafPasses q l = true ∧ ∃ p, t.leaves.get? p = some l) := by
  obtain ⟨h1, _, h3⟩ := search_exact (fixed := fixed) (keep := keep) (reach_searchable hd hs h) q
  exact ⟨h1, h3⟩

/-- **search_after_insert_into_loaded**: full save + load of an insertion-built tree (versions
4-6, any cache bound), then ANY list of insertions: a search never raises and returns exactly
the linear scan over the signatures now stored — the newly inserted ones included — and leaves
a tree on which this holds again -/
theorem search_after_insert_into_loaded {d : Nat} {sizes : List Nat} (hd : 2 ≤ d) (hsz : SizesOK sizes) {t t1 t2 : Tree}
    (hr : Reach d sizes t) {ver : Nat} (cm : Option Nat) (hv : ver ≠ 3) {fixed0 : Bool}
    (hload : load fixed0 (save t (fun _ => false)) ver cm = .ok t1) {fixed pre : Bool} (ls : List Leaf)
    (hins : insAllV fixed pre t1 ls = .ok t2) (fixed' : Bool) (q : Query) :
    Searchable true (search fixed' true t2 q).1 ∧ ∃ res, (search fixed' true t2 q).2 = .ok res ∧
      (∀ l, l ∈ res ↔ (leafPasses q l = true ∧ ∃ p, t2.leaves.get? p = some l)) ∧
      (∀ l ∈ ls, ∃ p, t2.leaves.get? p = some l) :=
  SBT.search_after_insert_into_loaded hd hsz hr cm hv hload ls hins fixed' q

/-- **search_after_insert_into_sparse_loaded**: the same after a SPARSE save (ANY omitted
subset) + load, an insertion (which first repairs the missing nodes) and any further insertions -/
theorem search_after_insert_into_sparse_loaded {d : Nat} {sizes : List Nat} (hd : 2 ≤ d) (hsz : SizesOK sizes)
    {t t1 t2 t3 : Tree} (hr : Reach d sizes t) (omitted : Nat → Bool) {ver : Nat} (cm : Option Nat) (hv : ver ≠ 3)
    {fixed0 : Bool} (hload : load fixed0 (save t omitted) ver cm = .ok t1) {l : Leaf}
    (hadd : addNode true true t1 l = .ok t2) {fixed pre : Bool} (ls : List Leaf)
    (hins : insAllV fixed pre t2 ls = .ok t3) (fixed' : Bool) (q : Query) :
    Searchable true (search fixed' true t3 q).1 ∧ ∃ res, (search fixed' true t3 q).2 = .ok res ∧
      (∀ x, x ∈ res ↔ (leafPasses q x = true ∧ ∃ p, t3.leaves.get? p = some x)) ∧
      (∃ p, t3.leaves.get? p = some l) ∧ (∀ x ∈ ls, ∃ p, t3.leaves.get? p = some x) ∧
      (∀ p0 l0, t.leaves.get? p0 = some l0 → ∃ p', t3.leaves.get? p' = some l0) :=
  SBT.search_after_insert_into_sparse_loaded hd hsz hr omitted cm hv hload hadd ls hins fixed' q

/-- the same for every score type (Jaccard, containment, max containment) and for a query coarser
than the tree (`cut = some max_hash`: leaves are downsampled before scoring, internal nodes count
as size 1): pruning by the node score never loses a matching signature, false positives of the
filters only cost visits -/
theorem search_is_linear_scan_all_kinds {fixed keep : Bool} {t : Tree} (h : Searchable keep t) (c m : Bool) (thr : Nat)
    (mins : List Nat) (cut : Option Nat) :
    ∃ ls, (search fixed keep t ⟨c, thr, mins, m, cut⟩).2 = .ok ls ∧
      ∀ l, l ∈ ls ↔ (leafPasses ⟨c, thr, mins, m, cut⟩ l = true ∧ ∃ p, t.leaves.get? p = some l) :=
  search_exact_all_kinds h c m thr mins cut

/-- **cover_after_save_elsewhere**: load from disk (full save, versions 4-6, any cache bound), insert
ANY list of signatures, save to ANOTHER location (any omitted subset) and keep using the tree in
memory: `save` leaves it exactly as it was, so after ANY run of further searches — each unloads what
it visits and may evict cached nodes — it is still covered and a search returns exactly the linear
scan, the inserted signatures included; and the copy written is covered, holds the same signatures
and, when saved in full, answers searches exactly.  (The model's `saveElsewhere` returns the tree
unchanged: that `save` touches neither node contents, nor the storage a node reloads from, nor its
dirty flag is what the `saveas` histories of the sbt stream compare against the real code.) -/
theorem cover_after_save_elsewhere {d : Nat} {sizes : List Nat} (hd : 2 ≤ d) (hsz : SizesOK sizes) {t t1 t2 : Tree}
    (hr : Reach d sizes t) {ver : Nat} (cm : Option Nat) (hv : ver ≠ 3) {fixed0 : Bool}
    (hload : load fixed0 (save t (fun _ => false)) ver cm = .ok t1) {fixed pre : Bool} (ls : List Leaf)
    (hins : insAllV fixed pre t1 ls = .ok t2) (omitted : Nat → Bool) :
    (saveElsewhere t2 omitted).1 = t2 ∧ Cover t2 ∧ (∀ l ∈ ls, ∃ p, t2.leaves.get? p = some l) ∧
    (∀ (fixed' : Bool) (qs : List Query) (q : Query),
      let t3 := searchMany fixed' true (saveElsewhere t2 omitted).1 qs
      Cover t3 ∧ t3.leaves = t2.leaves ∧
      ∃ res, (search fixed' true t3 q).2 = .ok res ∧
        ∀ l, l ∈ res ↔ (leafPasses q l = true ∧ ∃ p, t2.leaves.get? p = some l)) ∧
    (∀ (fixed'' : Bool) (ver' : Nat) (cm' : Option Nat) (t4 : Tree), ver' ≠ 3 →
      load fixed'' (saveElsewhere t2 omitted).2 ver' cm' = .ok t4 →
      Base t4 ∧ Cover t4 ∧ t4.leaves = t2.leaves) ∧
    (∀ (fixed'' keep : Bool) (ver' : Nat) (cm' : Option Nat) (t4 : Tree) (q : Query), ver' ≠ 3 →
      load fixed'' (saveElsewhere t2 (fun _ => false)).2 ver' cm' = .ok t4 →
      ∃ res, (search fixed'' keep t4 q).2 = .ok res ∧
        ∀ l, l ∈ res ↔ (leafPasses q l = true ∧ ∃ p, t2.leaves.get? p = some l)) :=
  SBT.cover_after_save_elsewhere hd hsz hr cm hv hload ls hins omitted

/-- searches can be repeated: `Searchable` is what a search needs and what it leaves behind -/
theorem searchable_after_search {fixed keep : Bool} {t : Tree} (h : Searchable keep t) (q : Query) :
    Searchable keep (search fixed keep t q).1 := (search_exact (fixed := fixed) (keep := keep) h q).1

/-- why the 0 -> 1 clamp exists (cf. D13): with `min_n_below = 0` recorded on a node that
otherwise satisfies `Cover`, the Jaccard node score is 0/0 := 0, the subtree is pruned, and a
matching signature is missed -/
theorem clamp_is_needed :
    ∃ (t : Tree) (q : Query) (l : Leaf), Base t ∧ Cover t ∧ Clean t ∧ Shape t 1 1 ∧
      t.leaves.get? 1 = some l ∧ leafPasses q l = true ∧
      ∀ keep, (search false keep t q).2 = .ok [] ∧ (search true keep t q).2 = .ok [] :=
  search_incomplete_minN_zero

/-! ## 4b. older index versions -/

/-- **cover_after_load_v3**: index version 3 stores no `min_n_below`; `_load_v3` runs
`_fill_min_n_below()`, which ESTABLISHES the bound (not merely preserves it): after a full save of
an insertion-built tree and a version-3 load, `Cover` holds.  (`SmallLeaves`: every sketch has
fewer than `sys.maxsize` hashes — always true in CPython; the model's lists are unbounded and
`v3_needs_bounded_sketches` shows the hypothesis cannot be dropped there.) -/
theorem cover_after_load_v3 {d : Nat} {sizes : List Nat} (hd : 2 ≤ d) (hsz : SizesOK sizes) {t t' : Tree}
    (hr : Reach d sizes t) (hsm : SmallLeaves t) (cm : Option Nat) {fixed : Bool}
    (h : load fixed (save t (fun _ => false)) 3 cm = .ok t') :
    Base t' ∧ Cover t' ∧ t'.leaves = t.leaves ∧ t'.missing = [] := by
  obtain ⟨h1, h2, h3, _, _, h6, _⟩ := SBT.cover_after_load_v3 hd hsz hr hsm cm h
  exact ⟨h1, h2, h3, h6⟩

/-- the version-3 load of a non-empty insertion-built tree never fails (the `_fill_up` queue
discipline: no assertion, enough fuel) -/
theorem load_v3_total {d : Nat} {sizes : List Nat} (hd : 2 ≤ d) (hsz : SizesOK sizes) {t : Tree}
    (hr : Reach d sizes t) (hne : t.leaves ≠ []) (cm : Option Nat) (fixed : Bool) :
    ∃ t', load fixed (save t (fun _ => false)) 3 cm = .ok t' := SBT.load_v3_total hd hsz hr hne cm fixed

/-- ... and for a SPARSE version-3 save (ANY omitted subset): `_fill_up` rebuilds every missing
parent on the way up and the result is covered, every listed node present again -/
theorem cover_after_sparse_load_v3 {d : Nat} {sizes : List Nat} (hd : 2 ≤ d) (hsz : SizesOK sizes) {t t' : Tree}
    (hr : Reach d sizes t) (hsm : SmallLeaves t) (omitted : Nat → Bool) (cm : Option Nat)
    (h : load true (save t omitted) 3 cm = .ok t') :
    Base t' ∧ Cover t' ∧ t'.leaves = t.leaves ∧ AllPresent t' := by
  obtain ⟨h1, h2, h3, _, _, h6, _⟩ := SBT.cover_after_sparse_load_v3 hd hsz hr hsm omitted cm h
  exact ⟨h1, h2, h3, h6⟩

theorem load_v3_sparse_total {d : Nat} {sizes : List Nat} (hd : 2 ≤ d) (hsz : SizesOK sizes) {t : Tree}
    (hr : Reach d sizes t) (hsm : SmallLeaves t) (hne : t.leaves ≠ []) (omitted : Nat → Bool) (cm : Option Nat) :
    ∃ t', load true (save t omitted) 3 cm = .ok t' := SBT.load_v3_sparse_total hd hsz hr hsm hne omitted cm

/-- after a version-3 load (full or sparse) a search returns exactly the linear scan -/
theorem search_after_load_v3 {d : Nat} {sizes : List Nat} (hd : 2 ≤ d) (hsz : SizesOK sizes) {t t' : Tree}
    (hr : Reach d sizes t) (hsm : SmallLeaves t) (omitted : Nat → Bool) (cm : Option Nat)
    (h : load true (save t omitted) 3 cm = .ok t') (fixed' keep : Bool) (q : Query) :
    ∃ ls, (search fixed' keep t' q).2 = .ok ls ∧
      ∀ l, l ∈ ls ↔ (leafPasses q l = true ∧ ∃ p, t.leaves.get? p = some l) := by
  obtain ⟨_, _, h3⟩ := SBT.search_after_sparse_load_v3 hd hsz hr hsm omitted cm h fixed' keep q
  exact h3

/-- in the model (unbounded lists) the bound on sketch sizes is needed: with four sketches of
`sys.maxsize` hashes the fill never re-queues an inner node and the root stays without a value -/
theorem v3_needs_bounded_sketches :
    ∃ t : Tree, Reach 2 [3] t ∧ ¬ SmallLeaves t ∧ ∀ (fixed : Bool) (cm : Option Nat),
      ∃ t', load fixed (save t (fun _ => false)) 3 cm = .ok t' ∧ ¬ Cover t' := by
  obtain ⟨t, h1, h2, h3⟩ := cover_after_load_v3_needs_small
  exact ⟨t, h1, h2, fun f c => by obtain ⟨t', a, b, _⟩ := h3 f c; exact ⟨t', a, b⟩⟩

/-- regression (D4 again, through `_fill_up`): with the OLDER `_rebuild_node` a sparse version-3
load already broke `Cover` while loading -/
theorem older_rebuild_v3_counterexample :
    ∃ t t', Reach 2 [3] t ∧ SmallLeaves t ∧ load false (save t (fun p => p == 0)) 3 none = .ok t' ∧ ¬ Cover t' :=
  sparse_load_v3_shipped_cex

/-
FULL STATEMENT (false for the source as it is, known finding C13.3): Cover holds after loading an
index of version 1 or 2.  `_load_v1` / `_load_v2` never call `_fill_min_n_below()` and legacy
files carry no metadata, so no internal node records any size bound (and `search` raises).
`legacy_load_records_no_bound` is the model's statement of the defect, `cover_after_load_legacy`
the theorem for the loaders with the missing call added (candidate patch C13.3); the translator
reads which of the two the source has (`Sm.Gen.sbtLegacyFillsMin`) and the driver follows it.
-/
/-- **C13.3**: a legacy load leaves every internal node without `min_n_below` ... -/
theorem legacy_load_records_no_bound {fixed : Bool} {im : Image} {cm : Option Nat} {t' : Tree}
    (h : loadLegacy fixed false im cm = .ok t') : ∀ p n, t'.nodes.get? p = some n → n.minN = none :=
  loadLegacy_nofill_minN h

/-- the three-signature tree of the corpus case: after a legacy load `Cover` fails, after an
explicit `_fill_min_n_below()` it holds -/
def legacyEx (fills : Bool) : Except SBT.Err Tree := do
  let t ← (List.foldlM (fun t l => addNode true true t l) (Tree.new 2 [11, 7]) [⟨0, [1, 2]⟩, ⟨1, [3]⟩, ⟨2, [4, 5, 6]⟩])
  loadLegacy true fills (save t (fun _ => false)) none

/-- ... hence `Cover` fails on it (kernel-checked), and holds once the fill is run -/
theorem legacy_load_counterexample :
    (match legacyEx false with | .ok t => !coverB t | .error _ => false) = true ∧
    (match legacyEx false with | .ok t => (match fillMinNBelow true t with | .ok t2 => coverB t2 | .error _ => false) | .error _ => false) = true ∧
    (match legacyEx true with | .ok t => coverB t | .error _ => false) = true := by
  decide +kernel

/-- **legacy loaders with the fill** (candidate patch C13.3): `Cover` after a version-1/2 load of a
fully saved insertion-built tree, whenever the factory re-derived from the root's filter file
(first table size rounded to the hundred) is the tree's factory -/
theorem cover_after_load_legacy {d : Nat} {sizes : List Nat} (hd : 2 ≤ d) (hsz : SizesOK sizes) {t t' : Tree}
    (hr : Reach d sizes t) (hsm : SmallLeaves t) (hz : LegacySizesOK t.sizes) (cm : Option Nat) {fixed : Bool}
    (h : loadLegacy fixed true (save t (fun _ => false)) cm = .ok t') :
    Base t' ∧ Cover t' ∧ t'.leaves = t.leaves := SBT.cover_after_load_legacy hd hsz hr hsm hz cm h

/-- the default factory of `sourmash index` (`GraphFactory(1, 1e5, 4)`) and the 1000-bit one survive
the rounding -/
example : LegacySizesOK (tableSizes 1000 4) := ⟨997, [991, 983, 977], by decide, by decide⟩

/-! ## 5. the one place where the code deliberately departs from the literal statement -/

/-
FULL STATEMENT (false, known finding D13, deliberate): every internal node records a size bound
no larger than the smallest signature beneath it:  minN a ≤ |leaf|.
`cover_reachable` proves it with `max 1 |leaf|`; the clamp makes the literal bound fail for an
empty sketch (and `clamp_is_needed` shows why the clamp has to be there):
-/
/-- **D13**: one empty sketch; the root records `min_n_below = 1 > 0` -/
theorem clamp_counterexample :
    ∃ t n, addNode true true (Tree.new 2 [11, 7]) ⟨0, []⟩ = .ok t ∧ t.leaves.get? 1 = some ⟨0, []⟩ ∧
      t.nodes.get? 0 = some n ∧ n.minN = some 1 ∧ ¬ (1 ≤ (⟨0, []⟩ : Leaf).hashes.length) := by
  refine ⟨_, _, rfl, rfl, rfl, rfl, by decide⟩

/-! ## 6. regression: the three older variants violate the statement (kernel-checked), the
current variant satisfies it on the same inputs -/

/-- insert a list of leaves -/
def insAll (fixed pre : Bool) (t : Tree) : List Leaf → Except SBT.Err Tree
  | [] => .ok t
  | l :: ls => do let t ← addNode fixed pre t l; insAll fixed pre t ls

def okCover (r : Except SBT.Err Tree) : Bool := match r with | .ok t => coverB t | .error _ => false

/-- D4 scenario: `d = 2`, four single-hash signatures (internal nodes 0, 1, 2), save omitting
the root only, load (v6), `_rebuild_node(0)` -/
def d4 (fixed : Bool) : Except SBT.Err Tree := do
  let t ← insAll fixed true (Tree.new 2 [11, 7]) [⟨0, [1]⟩, ⟨1, [2]⟩, ⟨2, [3]⟩, ⟨3, [4]⟩]
  let t ← load fixed (save t (fun p => p == 0)) 6 none
  rebuild fixed t.rebuildFuel t 0

/-- **D4 (fixed a05739c)**: the older `_rebuild_node` left the rebuilt root without the hashes of
the subtrees under the loaded internal nodes 1 and 2 ... -/
theorem older_rebuild_counterexample :
    ∃ t, d4 false = .ok t ∧ ¬ Cover t := by
  have h : (match d4 false with | .ok t => !coverB t | .error _ => false) = true := by decide +kernel
  cases hd : d4 false with
  | error e => rw [hd] at h; cases h
  | ok t =>
    rw [hd] at h
    exact ⟨t, rfl, fun hc => by simp [(cover_iff_coverB t).mp hc] at h⟩

/-- ... the current one restores the invariant on the same input (instance of
`cover_after_load_and_repair`) -/
theorem current_rebuild_example : ∃ t, d4 true = .ok t ∧ Cover t := by
  have h : okCover (d4 true) = true := by decide +kernel
  cases hd : d4 true with
  | error e => rw [hd] at h; cases h
  | ok t => exact ⟨t, rfl, (cover_iff_coverB t).mpr (by rw [hd] at h; simpa [okCover] using h)⟩

/-- the older `_rebuild_node` was right only when no loaded internal node hung under an absent,
unlisted one (`NoOrphan`), e.g. for sparseness 1.0 -/
theorem older_rebuild_partial {fuel : Nat} {t t' : Tree} {pos : Nat} (hb : Base t) (hc : Cover t) (ho : NoOrphan t)
    (hpos : pos ∈ t.missing ∨ pos = 0 ∨ (t.nodes.get? (parent t.d pos)).isSome = true)
    (h : rebuild false fuel t pos = .ok t') : Base t' ∧ Cover t' ∧ NoOrphan t' :=
  rebuild_shipped_cover_partial hb hc ho hpos h

theorem older_rebuild_sparseness_one {t t1 t2 : Tree} {ver : Nat} (cm : Option Nat) (hv : ver ≠ 3)
    (hb : Base t) (hc : Cover t) (h1 : load false (save t (fun _ => true)) ver cm = .ok t1) {fuel pos : Nat}
    (h2 : rebuild false fuel t1 pos = .ok t2) (hpos : pos ∈ t1.missing ∨ pos = 0) : Base t2 ∧ Cover t2 :=
  cover_after_load_shipped_all cm hv hb hc h1 h2 hpos

/-- C13.2 scenario: `d = 3`, eight signatures, save with every internal node omitted, load, insert -/
def d25 (fixed pre : Bool) : Except SBT.Err Tree := do
  let t ← insAll fixed pre (Tree.new 3 [11, 7]) ((List.range 8).map (fun i => ⟨i, [i + 1]⟩))
  let t ← load fixed (save t (fun _ => true)) 6 none
  addNode fixed pre t ⟨8, [9]⟩

def holdsAll (t : Tree) (ids : List Nat) : Bool :=
  ids.all (fun i => t.leaves.keys.any (fun p => match t.leaves.get? p with | some l => l.id == i | none => false))

/-- **C13.2 (fixed 2a318d1)**: without the repair step the insertion overwrote the stored signature
#2 and left an empty root: not all inserted signatures are in the tree and `Cover` fails — with
either `_rebuild_node` ... -/
theorem older_add_node_counterexample (fixed : Bool) :
    ∃ t, d25 fixed false = .ok t ∧ ¬ Cover t ∧ (∀ p l, t.leaves.get? p = some l → l.id ≠ 2) := by
  have h : ∀ f, (match d25 f false with
      | .ok t => !coverB t && t.leaves.keys.all (fun p => match t.leaves.get? p with | some l => l.id != 2 | none => true)
      | .error _ => false) = true := by decide +kernel
  have hf := h fixed
  cases hd : d25 fixed false with
  | error e => rw [hd] at hf; cases hf
  | ok t =>
    rw [hd] at hf
    simp only [Bool.and_eq_true, Bool.not_eq_true', List.all_eq_true] at hf
    refine ⟨t, rfl, fun hc => by simp [(cover_iff_coverB t).mp hc] at hf, ?_⟩
    intro p l hl hid
    have := hf.2 p (PMap.mem_keys_iff.mpr (by simp [hl]))
    simp [hl, hid] at this

/-- ... the current `add_node` keeps `Cover` and all nine signatures on the same input (instance of
`insert_after_sparse_load`) -/
theorem current_add_node_example :
    ∃ t, d25 true true = .ok t ∧ Cover t ∧ holdsAll t (List.range 9) = true := by
  have h : (match d25 true true with | .ok t => coverB t && holdsAll t (List.range 9) | .error _ => false) = true := by
    decide +kernel
  cases hd : d25 true true with
  | error e => rw [hd] at h; cases h
  | ok t =>
    rw [hd] at h
    simp only [Bool.and_eq_true] at h
    exact ⟨t, rfl, (cover_iff_coverB t).mpr h.1, h.2⟩

/-- C13.1 scenario: two signatures, full save + load, insert a third, search for it once -/
def d24 (fixed pre keep : Bool) : Except SBT.Err (Tree × Tree) := do
  let t ← insAll fixed pre (Tree.new 2 [11, 7]) [⟨0, [1]⟩, ⟨1, [2]⟩]
  let t ← load fixed (save t (fun _ => false)) 6 none
  let t ← addNode fixed pre t ⟨2, [3]⟩
  pure (t, (search fixed keep t ⟨false, 100, [3], false, none⟩).1)

def found (r : Tree × Except SBT.Err (List Leaf)) (i : Nat) : Bool :=
  match r.2 with | .ok ls => ls.any (fun l => l.id == i) | .error _ => false

/-- **C13.1 (fixed 5431cee)**: with the older `unload`, `Cover` held right after the insertion and
was lost by the search (the updated filters of the loaded ancestors were dropped); a second
search no longer found the new signature — whatever the other two variants ... -/
theorem older_unload_counterexample (fixed pre : Bool) :
    ∃ t t', d24 fixed pre false = .ok (t, t') ∧ Cover t ∧ ¬ Cover t' ∧
      found (search fixed false t' ⟨false, 100, [3], false, none⟩) 2 = false := by
  have h : ∀ f p, (match d24 f p false with
      | .ok (t, t') => coverB t && !coverB t' && !found (search f false t' ⟨false, 100, [3], false, none⟩) 2
      | .error _ => false) = true := by decide +kernel
  have hf := h fixed pre
  cases hd : d24 fixed pre false with
  | error e => rw [hd] at hf; cases hf
  | ok tt =>
    obtain ⟨t, t'⟩ := tt
    rw [hd] at hf
    simp only [Bool.and_eq_true, Bool.not_eq_true'] at hf
    exact ⟨t, t', rfl, (cover_iff_coverB t).mpr hf.1.1, fun hc => by simp [(cover_iff_coverB t').mp hc] at hf, hf.2⟩

/-- ... with the current `unload` the tree stays covered and the second search finds it (instance of
`search_after_insert_into_loaded`) -/
theorem current_unload_example :
    ∃ t t', d24 true true true = .ok (t, t') ∧ Cover t ∧ Cover t' ∧
      found (search true true t' ⟨false, 100, [3], false, none⟩) 2 = true := by
  have h : (match d24 true true true with
      | .ok (t, t') => coverB t && coverB t' && found (search true true t' ⟨false, 100, [3], false, none⟩) 2
      | .error _ => false) = true := by decide +kernel
  cases hd : d24 true true true with
  | error e => rw [hd] at h; cases h
  | ok tt =>
    obtain ⟨t, t'⟩ := tt
    rw [hd] at h
    simp only [Bool.and_eq_true] at h
    exact ⟨t, t', rfl, (cover_iff_coverB t).mpr h.1.1, (cover_iff_coverB t').mpr h.1.2, h.2⟩

/-- the corpus history of the seeded change C13d in the model: two signatures, load, insert a third,
save elsewhere, search twice: both searches find it and the tree stays covered -/
theorem save_elsewhere_example :
    (match d24 true true true with
     | .ok (t, _) =>
       let t1 := (saveElsewhere t (fun _ => false)).1
       let r1 := search true true t1 ⟨false, 100, [3], false, none⟩
       let r2 := search true true r1.1 ⟨false, 100, [3], false, none⟩
       found r1 2 && found r2 2 && coverB r2.1 &&
         (match load true (saveElsewhere t (fun _ => false)).2 6 none with | .ok t4 => coverB t4 | .error _ => false)
     | .error _ => false) = true := by decide +kernel

/-! ## 7. non-vacuity -/

/-- a reachable tree with 5 leaves (one empty, one single-hash) under `d = 3` satisfies the
hypotheses and the conclusion -/
example : okCover (insAll true true (Tree.new 3 (tableSizes 12 4))
    [⟨0, [5, 6, 7]⟩, ⟨1, []⟩, ⟨2, [8]⟩, ⟨3, [1, 2, 3, 4, 5]⟩, ⟨4, [0, 18446744073709551615]⟩]) = true := by
  decide +kernel

example : Reach 3 [11, 7] (Tree.new 3 [11, 7]) := Reach.new
example : InsInv (Tree.new 2 [11, 7]) := new_inv (by decide) (by intro s hs; simp at hs; omega)
example : SizesOK (tableSizes 100000 4) := factory_sizes_ok (by decide)
example : parent 10 (child 10 7 9) = 7 := by decide
example : ancestors 2 12 = [5, 2, 0] := by decide

end Sm.C13
