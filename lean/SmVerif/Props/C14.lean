/-
C14 — the sketch command builds exactly the sketches its parameters describe; in particular
the tree-backed builder used while sketching (`KmerMinHashBTree`, model `BT`) and the
array-backed sketch used everywhere else (`KmerMinHash`, model `MH`) agree on every input.

Statements only; helper lemmas live in `SmVerif/Lemmas/BTree*.lean` and
`SmVerif/Lemmas/SketchParams.lean`.

Part A — the two sketch implementations (twin machine `C14.step`, `Lemmas/BTreeHist.lean`:
a table of handles, every operation applied to an array-backed and a tree-backed sketch).
The source now carries the repair of defect D14 (/repo commit 779da1d: abundance 0 removes;
`current_max` refreshed by `merge`, `From<KmerMinHash>` and both branches of `Deserialize`); the
translator re-reads this on every run (`Gen.btreeD14Repaired`, theorem `source_has_repair`) and
the `twin` driver runs the matching variant of the model (`fix = true`).
* `btree_eq_vec`: for the CURRENT source the two implementations agree in parameters, hashes,
  abundances and md5, at every handle, after EVERY history of add / add-with-abundance (any
  abundance, 0 included) / add_many / add_many_with_abund / remove_many / clear / merge / add_from /
  downsample_scaled / From conversions / serde round trip / md5 — for sketches that are num or
  scaled, not both, and conversions of stable thresholds (`Allowed`; `allowed_iff` spells it out).
* the statement without the first of these hypotheses is still FALSE (known finding D14e:
  a sketch that is both num and scaled overgrows in the array — C01's finding — and not in the
  tree; `btree_eq_vec_counterexample_num_and_scaled`).  The sketch command never builds such a
  sketch (`factory_builds_excl`).
* regression theorems about the UNREPAIRED variant (`fix = false`, the four sites as first
  found): `unrepaired_eq_vec_partial` (agreement outside the D14 classes) and four kernel-checked
  counterexamples `unrepaired_counterexample_*` (what the repair removed); `repaired_examples`
  runs the same histories on the current variant.
* `btree_refines_spec_scaled`: the tree-backed scaled sketch refines C01's finite-map spec.
* `conv_preserves`: the `From` conversions keep parameters, hashes and abundances, given that the
  threshold survives the `scaled()` detour (`Stable`, a theorem of C03 for scaled ≤ 2^31);
  `conv_needs_stable`: without it they do not.
* `intersectionSize_eq`, `countCommon_eq`: queries answer the same on equal twins.

C11 for the tree-backed sketch — `bt_md5_valid` and corollaries: in every state reachable through
any operation of `KmerMinHashBTree` (any parameters) an md5 query answers the digest of the current
k-mer size and hashes; `bt_fed_reachable`: so for what the sketch command holds.

Part B — the parameter handling.
* `parse_total`, `parse_error_class_partial` (+ counterexample: a negative `num=`/`scaled=`
  escapes as `argparse.ArgumentTypeError`, which `sketch dna` does not catch);
* `parse_not_both`: no accepted string yields both a num and a scaled;
* `one_sketch_per_combination`, `template_params`: `build_template` yields exactly one fresh sketch
  per (k, moltype), each with the requested parameters;
* `factory_one_signature_per_group`, `factory_builds_excl`;
* `factory_eq_direct`: a sketch built by the factory, after any sequence of hashes, converts to
  exactly the array-backed sketch created directly with those parameters and fed the same hashes;
* `sketch_eq_direct_sequences` (+ `_factory`): C14 ∘ C02 — records (byte strings) through C02's model
  of `SeqToHashes` into the factory's tree-backed sketch and into the directly created array-backed
  one give the same sketch, the same error behaviour, the same md5 and the same JSON;
* `names_merged`, `names_singleton`, `names_per_file`, `names_stdin`: per record or merged, named
  from file or first record; standard input is recorded as the empty file name and lands in `-.sig`;
  `skip_existing`: an input whose output file exists is skipped in the per-file layouts unless `--force`;
* `parse_refusal_iff` / `item_refusal_iff` / `refusal_classes`: total classification of the refusals
  with their reasons (one per `raise` site); `parse_wellformed`, `parse_canonical_roundtrip`: every
  well-formed string is read as its items mean and round-trips through its canonical form;
  `conflicts_resolved`, `moltype_rule`: repeated / conflicting items and molecule words, exactly;
* `outputs`: `-o` vs `--output-dir` vs the current directory; `fromfile_*`: `sketch fromfile` builds
  exactly the requested signatures that are neither already done nor impossible, each once;
* `compute_excl`, `compute_sketch_set`, `compute_eq_sketch`, `compute_exits`: the deprecated
  `sourmash compute` maps its options to ONE `ComputeParameters` (never num and scaled together),
  builds one sketch per (k, molecule type switched on), the same sketches as the equivalent
  `sketch -p ...` invocation whenever one exists, and refuses in the listed order;
* the literal tables re-extracted by the translator are what the model assumes
  (`defaults_wellformed`, `template_order`, `cp_defaults_agree`).
-/
import SmVerif.Lemmas.BTreeHist
import SmVerif.Lemmas.SketchParams
import SmVerif.Lemmas.SketchCanon
import SmVerif.Lemmas.BTreeQuery
import SmVerif.Lemmas.SketchFeed
import SmVerif.Lemmas.BTreeCache
import SmVerif.Lemmas.SketchNames
import SmVerif.Lemmas.SketchFromfile
import SmVerif.Lemmas.SketchCompute
import SmVerif.Props.C01

namespace Sm.C14

open Sm MH

/-! ## Part A: tree-backed vs array-backed sketch -/

/-- what `btree_eq_vec` asks of a history: a created sketch is a num sketch or a scaled sketch,
not both, and a `From` conversion is applied to a threshold that survives the `scaled()` detour.
Nothing is asked of any other operation. -/
def Allowed : Tab → List Op → Prop := SafeHist true

theorem allowed_iff (t : Tab) (op : Op) :
    Safe true t op ↔
      match op with
      | .new _ num scaled _ _ _ => scaled = 0 ∨ num = 0
      | .convvec h => ∀ c, t h = some c → Stable c.b.maxHash
      | .convbt h => ∀ c, t h = some c → Stable c.b.maxHash
      | _ => True := by
  cases op <;> simp [Safe]

/-- the translator found the four D14 sites of `KmerMinHashBTree` in their repaired shape -/
theorem source_has_repair : Gen.btreeD14Repaired = true := by decide

/- FULL STATEMENT (not proved / false):
     theorem btree_eq_vec_all (ops : List Op) :
         ∀ i c, run true ops i = some c → obsB c.b = obsV c.v
   (no hypothesis on the history at all).  Counterexample
   `btree_eq_vec_counterexample_num_and_scaled` (known finding D14e): a sketch created with both
   num ≠ 0 and scaled ≠ 0 — the array-backed sketch grows past `num` (C01's `addHashAb_inv`
   finding), the tree-backed one evicts.  Minimal correction: the hypothesis `Allowed` (its
   `new` clause); every sketch the sketch command builds satisfies it (`factory_builds_excl`).
   The `Stable` clause is C03's theorem for thresholds of scaled values ≤ 2^31. -/

/-- **the two implementations agree along every history** (current source): parameters, hashes,
abundances and the md5 answer of the tree-backed sketch are those of the array-backed sketch, at
every handle, after every operation -/
theorem btree_eq_vec (ops : List Op) (hs : Allowed emptyTab ops) :
    ∀ i c, run true ops i = some c → obsB c.b = obsV c.v :=
  fun i c h => (goodTab_foldl ops (goodTab_empty true) hs i c h).obs_eq

/-- the same, phrased for whichever variant the translator reports the source to have (what the
`twin` driver runs) -/
theorem btree_eq_vec_current (ops : List Op) (hs : SafeHist Gen.btreeD14Repaired emptyTab ops) :
    ∀ i c, run Gen.btreeD14Repaired ops i = some c → obsB c.b = obsV c.v :=
  fun i c h => (goodTab_foldl ops (goodTab_empty _) hs i c h).obs_eq

/-- `Allowed` asks nothing of add / add-with-abundance / merge / serde / remove / clear
operations, whatever the abundance and whatever came before -/
theorem allowed_adds (t : Tab) (h x a g : Nat) (xs : List Nat) (ps : List (Nat × Nat)) :
    Safe true t (.add h x) ∧ Safe true t (.addab h x a) ∧ Safe true t (.addmany h xs) ∧
    Safe true t (.addmanyab h ps) ∧ Safe true t (.addfrom h g) ∧ Safe true t (.merge h g) ∧
    Safe true t (.json h) ∧ Safe true t (.rm h xs) ∧ Safe true t (.clear h) ∧
    Safe true t (.down h g x) ∧ Safe true t (.md5 h) :=
  ⟨Or.inl rfl, Or.inl rfl, Or.inl rfl, Or.inl rfl, Or.inl rfl, trivial, trivial, trivial, trivial,
   trivial, trivial⟩

/-- the invariant behind the theorems, for use by other properties: along an allowed history the
tree-backed sketch is a valid sketch whose abstraction is the array-backed twin -/
theorem twin_invariant (fix : Bool) (ops : List Op) (hs : SafeHist fix emptyTab ops) :
    ∀ i c, run fix ops i = some c →
      c.b.abs.erase = c.v.erase ∧ BInv c.b ∧ Inv c.v ∧ C11.CacheInv c.v ∧ C11.CacheInv c.b.abs := by
  intro i c h
  have g := goodTab_foldl ops (goodTab_empty fix) hs i c h
  exact ⟨g.eq, g.binv, g.inv_v, g.cv, g.cb⟩

/-- **D14e (known finding)**: a sketch that is both num and scaled — the array overgrows (C01's
`addHashAb_inv` finding), the tree does not; the hypothesis `scaled = 0 ∨ num = 0` of `Allowed` is
necessary, for the current and for the unrepaired variant alike -/
theorem btree_eq_vec_counterexample_num_and_scaled (fix : Bool) :
    let ops := [Op.new 0 2 1 false 21 42, .addmany 0 [1, 2, 3]]
    ∃ c, run fix ops 0 = some c ∧ c.v.mins = [1, 2, 3] ∧ c.b.mins = [1, 2] := by
  cases fix
  · exact ⟨_, rfl, by decide, by decide⟩
  · exact ⟨_, rfl, by decide, by decide⟩

/-- the histories on which the unrepaired variant diverged, on the current one: equal
observations (merge then add on a num sketch; abundance 0; From<KmerMinHash> then add; flat
Deserialize then add) -/
theorem repaired_examples :
    (∃ c, run true [Op.new 0 2 0 false 21 42, .new 1 2 0 false 21 42, .addmany 1 [10, 20],
        .merge 0 1, .add 0 15] 0 = some c ∧ c.b.mins = [10, 15] ∧ obsB c.b = obsV c.v) ∧
    (∃ c, run true [Op.new 0 0 1 true 21 42, .addab 0 5 3, .addab 0 5 0] 0 = some c ∧
        c.b.mins = [] ∧ obsB c.b = obsV c.v) ∧
    (∃ c, run true [Op.new 0 2 0 false 21 42, .addmany 0 [10, 20], .convbt 0, .add 0 15] 0 = some c ∧
        c.b.mins = [10, 15] ∧ obsB c.b = obsV c.v) ∧
    (∃ c, run true [Op.new 0 2 0 false 21 42, .addmany 0 [10, 20], .json 0, .add 0 15] 0 = some c ∧
        c.b.mins = [10, 15] ∧ obsB c.b = obsV c.v) :=
  ⟨⟨_, rfl, by decide, by decide⟩, ⟨_, rfl, by decide, by decide⟩, ⟨_, rfl, by decide, by decide⟩,
   ⟨_, rfl, by decide, by decide⟩⟩

/-! ### regression: the UNREPAIRED variant (the four D14 sites as first found, before 779da1d)

These theorems are about `fix = false`, which is no longer the source; they record what the
repair removed and what would come back if it were reverted. -/

/-- UNREPAIRED variant: the two implementations agreed along every history outside the D14
classes (`Safe false`: no abundance 0; no add of any kind on a num sketch after a merge, a
`From<KmerMinHash>` conversion or a flat `Deserialize` unless a `clear()` came in between) -/
theorem unrepaired_eq_vec_partial (ops : List Op) (hs : SafeHist false emptyTab ops) :
    ∀ i c, run false ops i = some c → obsB c.b = obsV c.v :=
  fun i c h => (goodTab_foldl ops (goodTab_empty false) hs i c h).obs_eq

/-- UNREPAIRED, D14a: `merge` did not refresh `current_max`: num = 2, merge {10, 20} into an empty
sketch, add 15 — the array holds [10, 15], the tree [10, 20] -/
theorem unrepaired_counterexample_merge :
    let ops := [Op.new 0 2 0 false 21 42, .new 1 2 0 false 21 42, .addmany 1 [10, 20],
                .merge 0 1, .add 0 15]
    ∃ c, run false ops 0 = some c ∧ c.v.mins = [10, 15] ∧ c.b.mins = [10, 20] ∧
      obsB c.b ≠ obsV c.v :=
  ⟨_, rfl, by decide, by decide, by decide⟩

/-- UNREPAIRED, D14b: abundance 0 — the array removed the hash, the tree ignored the call -/
theorem unrepaired_counterexample_abund0 :
    let ops := [Op.new 0 0 1 true 21 42, .addab 0 5 3, .addab 0 5 0]
    ∃ c, run false ops 0 = some c ∧ c.v.mins = [] ∧ c.b.mins = [5] ∧ obsB c.b ≠ obsV c.v :=
  ⟨_, rfl, by decide, by decide, by decide⟩

/-- UNREPAIRED, D14c: `From<KmerMinHash>` started the tree with `current_max = 0` -/
theorem unrepaired_counterexample_from_vec :
    let ops := [Op.new 0 2 0 false 21 42, .addmany 0 [10, 20], .convbt 0, .add 0 15]
    ∃ c, run false ops 0 = some c ∧ c.v.mins = [10, 15] ∧ c.b.mins = [10, 20] ∧
      obsB c.b ≠ obsV c.v :=
  ⟨_, rfl, by decide, by decide, by decide⟩

/-- UNREPAIRED, D14d: the flat branch of `Deserialize` set `current_max = 0` -/
theorem unrepaired_counterexample_deserialize :
    let ops := [Op.new 0 2 0 false 21 42, .addmany 0 [10, 20], .json 0, .add 0 15]
    ∃ c, run false ops 0 = some c ∧ c.v.mins = [10, 15] ∧ c.b.mins = [10, 20] ∧
      obsB c.b ≠ obsV c.v :=
  ⟨_, rfl, by decide, by decide, by decide⟩

/-- the tree-backed scaled sketch refines the finite-map specification of C01: adding `h` with
a positive abundance changes the count of `h` and of nothing else -/
theorem btree_refines_spec_scaled {b : BT} (hb : BInv b) (hn : b.num = 0) (hM : b.maxHash ≠ 0)
    (h : Nat) {a : Nat} (ha : 0 < a) (x : Nat) :
    count (b.addHashAb h a).abs x =
      C01.Spec.add b.maxHash b.trackAbundance (count b.abs) h a x := by
  have hc : CmOk b := fun hne => absurd hn hne
  rw [abs_addHashAb hb (Or.inl hn) hc h ha]
  have := C01.count_addHashAb_scaled hb.inv hn hM h a x
  simpa using this

/-- removal on the tree-backed sketch, any sketch kind -/
theorem btree_refines_spec_remove {b : BT} (hb : BInv b) (h x : Nat) :
    count (b.removeHash h).abs x = if x = h then 0 else count b.abs x := by
  rw [abs_removeHash hb]
  exact C01.count_removeHash hb.inv h x

/-- **the conversions keep parameters, hashes and abundances** (md5 cache empty afterwards),
provided the threshold is stable under `max_hash_for_scaled ∘ scaled_for_max_hash` -/
theorem conv_preserves {b : BT} (hst : Stable b.maxHash) :
    b.intoVec = { b.abs with md5 := none } := by
  rw [intoVec_eq]
  unfold Stable at hst
  rw [hst]
  rfl

theorem conv_preserves_from_vec {v : MH} (hv : Inv v) (hst : Stable v.maxHash) :
    (BT.ofVec v).abs = { v with md5 := none } ∧ BInv (BT.ofVec v) := by
  have h := ofVec_abs hv
  unfold Stable at hst
  rw [hst] at h
  refine ⟨h, ⟨?_, ofVec_keys hv⟩⟩
  rw [h]
  exact hv.congr rfl rfl rfl rfl

/-- round trip array → tree → array -/
theorem conv_round_trip {v : MH} (hv : Inv v) (hst : Stable v.maxHash) :
    (BT.ofVec v).intoVec = { v with md5 := none } := by
  have h := conv_preserves_from_vec hv hst
  have hm : (BT.ofVec v).maxHash = v.maxHash := by
    have := congrArg MH.maxHash h.1
    simpa using this
  rw [conv_preserves (by rw [hm]; exact hst), h.1]

/-- without `Stable` the conversion changes the threshold: a tree-backed sketch with
`max_hash = 93` holding the hash 93 converts to an array-backed sketch with `max_hash = 92` that
still holds 93 (and so violates the array's own invariant).  Such a threshold is reachable only
through the builder / deserialisation, not through `new(scaled)` for scaled ≤ 2^31. -/
theorem conv_needs_stable :
    let b : BT := { num := 0, maxHash := 93, ksize := 21, seed := 42, hf := 1, mins := [93],
                    abunds := none, currentMax := 93, md5 := none }
    b.intoVec.maxHash = 92 ∧ b.intoVec.mins = [93] ∧ ¬ Stable 93 := by
  refine ⟨by decide +kernel, rfl, by unfold Stable; decide +kernel⟩

/-- the thresholds the sketch command's default and common `scaled` values give are stable
(non-vacuity of `Stable`; the general statement for scaled ≤ 2^31 belongs to C03) -/
theorem stable_common :
    Stable (mhR 0) ∧ Stable (mhR 1) ∧ Stable (mhR 2) ∧ Stable (mhR 10) ∧ Stable (mhR 93) ∧
    Stable (mhR 99) ∧ Stable (mhR 100) ∧ Stable (mhR 200) ∧ Stable (mhR 1000) ∧
    Stable (mhR 2000) ∧ Stable (mhR 10000) ∧ Stable (mhR 100000) ∧ Stable (mhR 1000000) := by
  unfold Stable
  decide +kernel

/-- queries: `intersection_size` answers the same on a tree-backed pair as on the array-backed
pair they stand for -/
theorem intersectionSize_eq {b o : BT} (hb : BInv b) (ho : BInv o) :
    b.intersectionSize o = b.abs.intersectionSize o.abs :=
  Sm.intersectionSize_abs hb ho

/-- `count_common` (with or without implicit downsampling) answers the same -/
theorem countCommon_eq {b o : BT} (hb : BInv b) (ho : BInv o) (hxb : Excl b.abs)
    (hxo : Excl o.abs) (ds : Bool) : b.countCommon o ds = b.abs.countCommon o.abs ds :=
  Sm.countCommon_abs hb ho hxb hxo ds

/-! ## C11 for the tree-backed sketch: its md5 is a function of its current content only

`BT.Reach` (`Lemmas/BTreeCache.lean`): every state reachable from `new`, the builder
(`build_template`), `From<KmerMinHash>` or `Deserialize` through add / add-with-abundance / add_many /
add_many_with_abund / add_from / remove_hash / remove_many / clear / merge / md5sum / clone /
downsample_scaled / downsample_max_hash / enable_abundance / disable_abundance / set_hash_function
(current source, plus the four D14 sites as first found).  No hypothesis on the parameters: a
sketch that is both num and scaled is covered too.  Mirrors `Sm.C11.md5_valid` for `KmerMinHash`. -/

/-- in every reachable state the md5 cache is empty or holds the digest of the current content -/
theorem bt_cache_inv_reachable {b : BT} (h : BT.Reach b) : CacheInvB b := (sc_reachable h).cache

/-- **an md5 query on a reachable tree-backed sketch answers the digest of its current k-mer size
and hashes** -/
theorem bt_md5_valid {b : BT} (h : BT.Reach b) : b.md5sum.2 = ⟨b.ksize, b.mins⟩ :=
  (sc_md5sum (sc_reachable h)).2

theorem bt_equal_content_equal_md5 {a b : BT} (ha : BT.Reach a) (hb : BT.Reach b)
    (hk : a.ksize = b.ksize) (hm : a.mins = b.mins) : a.md5sum.2 = b.md5sum.2 := by
  rw [bt_md5_valid ha, bt_md5_valid hb, hk, hm]

theorem bt_changed_hashes_changed_preimage {a b : BT} (ha : BT.Reach a) (hb : BT.Reach b)
    (hm : a.mins ≠ b.mins) : a.md5sum.2 ≠ b.md5sum.2 := by
  rw [bt_md5_valid ha, bt_md5_valid hb]
  intro h
  injection h with _ h2
  exact hm h2

theorem bt_md5_query_idempotent {b : BT} (h : BT.Reach b) : b.md5sum.1.md5sum.2 = b.md5sum.2 := by
  have h1 := bt_md5_valid (BT.Reach.md5 h)
  have hf := md5sum_fields_bt b
  have hk : b.md5sum.1.ksize = b.ksize := by
    obtain ⟨num, maxHash, ksize, seed, hf, mins, abunds, cm, md5⟩ := b
    cases md5 <;> rfl
  rw [h1, bt_md5_valid h, hf.1, hk]

/-- the md5 of a reachable tree-backed sketch is the md5 of the array-backed sketch it converts to
(`sig.minhash`), whatever the thresholds -/
theorem bt_md5_eq_converted {b : BT} (h : BT.Reach b) : b.md5sum.2 = b.intoVec.md5sum.2 := by
  rw [bt_md5_valid h, intoVec_eq]
  rfl

/-- what the sketch command holds after feeding records is reachable, so all of the above
applies to it -/
theorem bt_fed_reachable (hashS : Nat → List Nat → Nat) (p : Sketch.CP) (k : Nat) (m : Sketch.Mol)
    (input : Sketch.Input) (force : Bool) (records : List (List Nat)) :
    BT.Reach (Sketch.feedBT hashS (Sketch.template p k m) m.toHashFn input force records).1 := by
  unfold Sketch.feedBT
  generalize (records.map _) = runs
  have h0 : BT.Reach (Sketch.template p k m) := BT.Reach.builder p k m
  generalize Sketch.template p k m = b at h0
  induction runs generalizing b with
  | nil => exact h0
  | cons r rest ih =>
    obtain ⟨hs, stop⟩ := r
    unfold Sketch.feed
    split
    · exact ih _ (BT.Reach.addMany h0 hs)
    · exact BT.Reach.addMany h0 hs

/-! ## Part B: parameter strings, the factory, `build_template` -/

open Sketch

/-- the parser is total: every string yields parameters or a refusal with a reason -/
theorem parse_total (s : List Char) :
    (∃ r, parseParamsStr s = .ok r) ∨ (∃ r : Reason, parseParamsStr s = .error r) := by
  cases h : parseParamsStr s with
  | ok r => exact Or.inl ⟨r, rfl⟩
  | error e => exact Or.inr ⟨e, rfl⟩

/-- **total classification of the refusals**: a string is refused with reason `r` exactly when
its first item that is not accepted is `Refused` for that reason — `Refused`
(`Lemmas/SketchParams.lean`) spells out, per reason, the category the item falls in (the first of:
abund/noabund, `k…`, `num…`, `scaled…`, `seed…`, molecule word) and what is wrong with it, given
what the earlier items have set (a `num=` after a non-zero `scaled=`, and vice versa) -/
theorem parse_refusal_iff (s : List Char) (r : Reason) :
    parseParamsStr s = .error r ↔
      ∃ pre item post st, splitOn ',' s = pre ++ item :: post ∧
        foldItems pre (none, {}) = .ok st ∧ Refused st item r :=
  Sketch.parse_error_iff s r

theorem item_refusal_iff (st : Option Mol × Params) (item : List Char) (r : Reason) :
    stepItem st item = .error r ↔ Refused st item r :=
  Sketch.stepItem_error_iff st item r

/-- the exception class of every reason: ArgumentTypeError exactly for a negative num / scaled,
OverflowError exactly for numbers that do not fit, ValueError otherwise -/
theorem refusal_classes (r : Reason) :
    (r.cls = .argType ↔ r = .numNegative ∨ r = .scaledNegative) ∧
    (r.cls = .overflow ↔ r = .scaledTooBig ∨ r = .seedRange ∨ r = .ksizeRange ∨ r = .numRange ∨
      r = .scaledRange) := by
  cases r <;> simp [Reason.cls]

/- FULL STATEMENT (not proved / false):
     theorem parse_total_or_error (s : List Char) :
         (∃ r, parseParamsStr s = .ok r) ∨ ∃ r, parseParamsStr s = .error r ∧ r.cls = .value
   ("every string yields parameters or a ValueError", which is what `sketch dna|protein|translate`
   catch and report).  Counterexample `parse_error_class_counterexample`: `num=-5` and `scaled=-1`
   raise argparse.ArgumentTypeError (from check_num_bounds / check_scaled_bounds), which is not a
   ValueError; the command dies with a traceback instead of "Error creating signatures".
   Minimal correction: `refusal_classes` (exclude negative and astronomically large values). -/
theorem parse_error_class_counterexample :
    parseParamsStr "num=-5".toList = .error .numNegative ∧
    parseParamsStr "k=21,scaled=-1".toList = .error .scaledNegative ∧
    Reason.numNegative.cls = .argType ∧ Reason.scaledNegative.cls = .argType :=
  ⟨by decide +kernel, by decide +kernel, rfl, rfl⟩

/-- **every well-formed `-p` string is read as its items mean**: the `,`-joined rendering
(decimal numbers) of any non-empty list of items parses to the left-to-right application of the
items' semantics (`Item.apply`: k sizes accumulate in order, later abund/noabund, seed and molecule
words override earlier ones, `num=` after a non-zero `scaled=` — and vice versa — is refused) -/
theorem parse_wellformed (items : List Item) (hne : items ≠ []) :
    parseParamsStr (renderItems items) = applyAll items (none, {}) :=
  Sketch.parse_render items hne

/-- **canonical form**: if a well-formed string is accepted, so is its canonical form (molecule
word, the k sizes in order, the last num/scaled, the last abund/noabund, the last seed), with the
same result -/
theorem parse_canonical_roundtrip (items : List Item) (hne : items ≠ []) (r : Option Mol × Params)
    (h : parseParamsStr (renderItems items) = .ok r) :
    parseParamsStr (renderItems (summarize items).canon) = .ok r := by
  rw [parse_wellformed items hne] at h
  have hc : (summarize items).canon ≠ [] :=
    Sketch.canon_ne_nil _ (Sketch.nonTrivial_foldl items {} (Or.inr hne))
  rw [parse_wellformed _ hc]
  exact Sketch.canon_roundtrip items r h

/-- conflicting and repeated items, exactly: repeated `k=` accumulate (one sketch each, in order);
num and scaled in one string are refused unless the earlier one is 0; `scaled=0` / `num=0` are
accepted (known finding C14.1); the last of abund/noabund wins; unknown words, empty items and
`k` without a number are refused, each with its reason -/
theorem conflicts_resolved :
    (parseParamsStr "k=21,k=31,k=21".toList).toOption.map (fun r => r.2.ksize) = some [21, 31, 21] ∧
    parseParamsStr "num=5,scaled=10".toList = .error .scaledAfterNum ∧
    parseParamsStr "scaled=10,num=5".toList = .error .numAfterScaled ∧
    (parseParamsStr "num=0,scaled=10".toList).toOption.map (fun r => (r.2.num, r.2.scaled)) =
      some (some 0, some 10) ∧
    (parseParamsStr "scaled=0".toList).toOption.map (fun r => (r.2.num, r.2.scaled)) =
      some (some 0, some 0) ∧
    (parseParamsStr "abund,noabund,abund".toList).toOption.map (fun r => r.2.track) = some (some true) ∧
    parseParamsStr "k=21,foo".toList = .error .unknownItem ∧
    parseParamsStr "k=21,".toList = .error .unknownItem ∧
    parseParamsStr "k".toList = .error .kNoParam ∧
    parseParamsStr "k=abc".toList = .error .kNotInt ∧
    parseParamsStr "scaled=1.5".toList = .error .scaledNotInt ∧
    (parseParamsStr "dna,protein".toList).toOption.map (fun r => r.1) = some (some Mol.protein) := by
  decide +kernel

/-- molecule words against the subcommand's molecule type (`sketch dna` = dna; `sketch protein` /
`translate` = protein, dayhoff or hp; `fromfile` = none): a non-DNA word under `dna` and `dna`
under a protein type are refused, a string without a word needs a default, everything else is
accepted with the word's molecule type -/
theorem moltype_rule :
    ∀ m ∈ [Mol.dna, Mol.protein, Mol.dayhoff, Mol.hp],
    ∀ d ∈ [none, some Mol.dna, some Mol.protein, some Mol.dayhoff, some Mol.hp],
      (factoryInit [("k=5," ++ m.name).toList] d).toOption.map (fun l => l.map Prod.fst) =
        (if (m ≠ .dna ∧ d = some .dna) ∨ (m = .dna ∧ d ≠ none ∧ d ≠ some .dna) then none else some [m]) ∧
      (factoryInit ["k=5".toList] d).toOption.map (fun l => l.map Prod.fst) = d.map (fun x => [x]) := by
  decide +kernel

/-- no accepted parameter string describes both a num and a scaled sketch, and `num` is set
exactly when `scaled` is -/
theorem parse_not_both (s : List Char) (mt : Option Mol) (p : Params)
    (h : parseParamsStr s = .ok (mt, p)) :
    ¬ (truthy p.num ∧ truthy p.scaled) ∧ (p.num.isSome ↔ p.scaled.isSome) :=
  Sketch.parse_numScaled s mt p h

/-- **one sketch per requested combination**: `build_template` yields `|ksizes| × |moltypes|`
fresh sketches … -/
theorem one_sketch_per_combination (p : CP) :
    (buildTemplate p).length = p.ksizes.length * (molsOf p).length :=
  Sketch.buildTemplate_length p

/-- … exactly the sketches `template p k m` for the requested k sizes and molecule types … -/
theorem template_membership (p : CP) (b : BT) :
    b ∈ buildTemplate p ↔ ∃ k ∈ p.ksizes, ∃ m ∈ molsOf p, b = template p k m :=
  Sketch.mem_buildTemplate p b

/-- … each of them the tree-backed twin of the sketch created directly with those parameters:
empty, with the requested num / threshold / k / seed / molecule / abundance tracking -/
theorem template_params (p : CP) (k : Nat) (m : Mol) :
    (template p k m).abs = MH.new p.scaled k m.hf p.seed p.track p.num ∧
    BInv (template p k m) ∧ CmOk (template p k m) :=
  Sketch.template_abs p k m

/-- one signature per `-p` group (one group by default), in order -/
theorem factory_one_signature_per_group (ps : List (List Char)) (d : Option Mol)
    (sigs : List (List BT)) (h : factory ps d false = .ok sigs) :
    sigs.length = max 1 ps.length :=
  Sketch.factory_length ps d sigs h

/-- every sketch the factory builds is a num sketch or a scaled sketch, never both: the
hypothesis `Excl` of Part A holds of everything the sketch command creates -/
theorem factory_builds_excl (ps : List (List Char)) (d : Option Mol) (split : Bool)
    (sigs : List (List BT)) (h : factory ps d split = .ok sigs) :
    ∀ sig ∈ sigs, ∀ b ∈ sig, Excl b.abs ∧ BInv b ∧ CmOk b ∧ b.mins = [] :=
  Sketch.factory_excl ps d split sigs h

/-- **factory = direct**: a sketch built from parameters `p` for (k, m), after the hashes `hs` of
any sequences were added to it, converts (`sig.minhash`) to exactly the array-backed sketch created
directly with those parameters and fed the same hashes; same parameters, hashes, abundances, and
(both caches being valid) the same md5 -/
theorem factory_eq_direct (p : CP) (k : Nat) (m : Mol) (hs : List Nat)
    (hx : p.scaled = 0 ∨ p.num = 0) (hst : Stable (mhR p.scaled)) :
    ((template p k m).addMany hs).intoVec =
      { (MH.new p.scaled k m.hf p.seed p.track p.num).addMany hs with md5 := none } ∧
    ((template p k m).addMany hs).md5sum.2 =
      ((MH.new p.scaled k m.hf p.seed p.track p.num).addMany hs).md5sum.2 :=
  Sketch.factory_direct p k m hs hx hst

/-- the same through the JSON writer (the other exit of a tree-backed sketch): what is written
for the factory's sketch is what is written for the direct one -/
theorem factory_eq_direct_json (p : CP) (k : Nat) (m : Mol) (hs : List Nat)
    (hx : p.scaled = 0 ∨ p.num = 0) :
    ((template p k m).addMany hs).serialize.2 =
      ((MH.new p.scaled k m.hf p.seed p.track p.num).addMany hs).serialize.2 :=
  Sketch.factory_direct_json p k m hs hx

/-- **C14 ∘ C02, the property's first sentence as one theorem.**  For every parameter set `p`,
k-mer size `k` and molecule type `m`, every list of records (arbitrary byte strings: DNA with invalid
characters, short records, protein), nucleotide or amino-acid input, with or without
`--check-sequence` (`force`), and every seeded hash function: run each record through C02's model
of `SeqToHashes` (`add_sequence` / `add_protein` semantics: skipped k-mers, first error aborts,
hashes before the error are kept) into the tree-backed sketch the factory built, and into the
array-backed sketch created directly with those parameters.  Then the factory's sketch converts
(`sig.minhash`) to exactly the direct one, both loops end the same way, the md5 answers coincide
and the JSON written is the same.  (`hashS seed` is the real `Murmur3.hashNat seed`; C02's theorems
say which byte strings it is applied to.) -/
theorem sketch_eq_direct_sequences (hashS : Nat → List Nat → Nat) (p : CP) (k : Nat) (m : Mol)
    (input : Input) (force : Bool) (records : List (List Nat))
    (hx : p.scaled = 0 ∨ p.num = 0) (hst : Stable (mhR p.scaled)) :
    let fb := feedBT hashS (template p k m) m.toHashFn input force records
    let fv := feedMH hashS (MH.new p.scaled k m.hf p.seed p.track p.num) m.toHashFn input force records
    fb.1.intoVec = { fv.1 with md5 := none } ∧ fb.2 = fv.2 ∧ fb.1.md5sum.2 = fv.1.md5sum.2 ∧
    fb.1.serialize.2 = fv.1.serialize.2 :=
  Sketch.sketch_direct_sequences hashS p k m input force records hx hst

/-- the same for everything the factory builds from parameter strings: every sketch of every
signature is `template c k m` for a parameter set that is num or scaled, so the theorem above
applies to it (only `Stable` of its threshold remains as hypothesis) -/
theorem sketch_eq_direct_sequences_factory (hashS : Nat → List Nat → Nat) (ps : List (List Char))
    (d : Option Mol) (split : Bool) (sigs : List (List BT)) (h : factory ps d split = .ok sigs)
    (input : Input) (force : Bool) (records : List (List Nat)) :
    ∀ sig ∈ sigs, ∀ b ∈ sig, ∃ c k m, b = template c k m ∧
      (Stable (mhR c.scaled) →
        let fb := feedBT hashS b m.toHashFn input force records
        let fv := feedMH hashS (MH.new c.scaled k m.hf c.seed c.track c.num) m.toHashFn input force records
        fb.1.intoVec = { fv.1 with md5 := none } ∧ fb.2 = fv.2 ∧ fb.1.md5sum.2 = fv.1.md5sum.2 ∧
        fb.1.serialize.2 = fv.1.serialize.2) := by
  intro sig hsig b hb
  obtain ⟨c, k, m, hex, rfl⟩ := Sketch.factory_templates ps d split sigs h sig hsig b hb
  exact ⟨c, k, m, rfl, fun hst => Sketch.sketch_direct_sequences hashS c k m input force records hex hst⟩

/-! ### per record or merged, named from file or first record (`Model/SketchNames.lean`) -/

/-- `--merge NAME`: when at least one record was read, exactly one signature set, named NAME,
fed every record of every file in order; the file name recorded is that of the LAST input file -/
theorem names_merged (nm : List Char) (files : List SeqFile)
    (h : (files.flatMap (fun f => f.records.map Prod.snd)) ≠ []) :
    plan (.merge nm) files =
      [⟨some nm, recordedFilename (lastName files), files.flatMap (fun f => f.records.map Prod.snd), lastName files⟩] :=
  Sketch.plan_merge nm files h

/-- … and nothing is written when no record was read -/
theorem names_merged_empty (nm : List Char) (files : List SeqFile)
    (h : (files.flatMap (fun f => f.records.map Prod.snd)) = []) : plan (.merge nm) files = [] :=
  Sketch.plan_merge_empty nm files h

/-- `--singleton`: one signature set per record, named after the record, in order -/
theorem names_singleton (files : List SeqFile) :
    plan .singleton files =
      files.flatMap (fun f => f.records.map (fun r => ⟨some r.1, recordedFilename f.name, [r.2], f.name⟩)) ∧
    (plan .singleton files).length = (files.map (fun f => f.records.length)).sum := by
  refine ⟨?_, Sketch.plan_singleton_length files⟩
  unfold plan
  simp only []
  congr 1
  funext f
  exact Sketch.unitsOfFile_singleton f

/-- default / `--name-from-first`: one signature set per input file that has records, fed all its
records, unnamed resp. named after its first record; a file without records yields nothing -/
theorem names_per_file (nff : Bool) (f : SeqFile) :
    (f.records = [] → unitsOfFile false nff f = []) ∧
    (∀ first rest, f.records = first :: rest →
      unitsOfFile false nff f =
        [⟨if nff then some first.1 else none, recordedFilename f.name, f.records.map Prod.snd, f.name⟩]) :=
  ⟨Sketch.unitsOfFile_empty false nff f, fun first rest h => Sketch.unitsOfFile_perFile nff f first rest h⟩

/-- standard input is recorded as the empty file name, every other name as it is; in the per-file layouts
its signatures land in `-.sig` (the output name comes from the name as typed, not from the recorded one) -/
theorem names_stdin : recordedFilename "-".toList = [] ∧ recordedFilename "a.fa".toList = "a.fa".toList ∧
    planOutputs (.perFile false) .cwd [⟨"-".toList, [("r".toList, [65])]⟩] =
      .ok [("-.sig".toList, ⟨none, [], [[65]], "-".toList⟩)] :=
  ⟨by decide, by decide, by rfl⟩

/-- an input whose output file already exists is skipped in the per-file layouts unless `--force` is
given; with `-o` and with `--merge` an existing file plays no role (driver flags `+pre` / `+force`) -/
theorem skip_existing (mode : NameMode) (o : OutMode) (ex : SeqFile → Bool) (files : List SeqFile) :
    skipExisting mode .single false ex files = files ∧
    (∀ nm force, skipExisting (.merge nm) o force ex files = files) ∧
    skipExisting mode o true ex files = files ∧
    (∀ nff, skipExisting (.perFile nff) .cwd false ex files = files.filter (fun f => !ex f)) ∧
    (∀ b, skipExisting .singleton (.dir b) false ex files = files.filter (fun f => !ex f)) := by
  refine ⟨?_, fun nm force => rfl, ?_, fun nff => rfl, fun b => rfl⟩
  · cases mode <;> rfl
  · cases mode <;> cases o <;> rfl

/-- where the signatures go: with `-o FILE` everything lands in that file, in order; `--merge`
needs `-o`; without `-o` every signature set lands in `basename(input).sig`, in the output
directory or the current one — and an output directory that does not exist is an error once there
is something to write (known finding C14.2: it is not created) -/
theorem outputs (mode : NameMode) (files : List SeqFile) :
    planOutputs mode .single files = .ok ((plan mode files).map (fun u => ("out.sig".toList, u))) ∧
    (∀ nm, planOutputs (.merge nm) .cwd files = .error .exit ∧
           ∀ ex, planOutputs (.merge nm) (.dir ex) files = .error .exit) ∧
    (∀ nff, planOutputs (.perFile nff) .cwd files =
      .ok ((plan (.perFile nff) files).map (fun u => (basename u.source ++ ".sig".toList, u)))) ∧
    (∀ nff, Gen.sketchCreatesOutdir = false → plan (.perFile nff) files ≠ [] →
      planOutputs (.perFile nff) (.dir false) files = .error .noDir) := by
  refine ⟨?_, fun nm => ⟨rfl, fun ex => rfl⟩, fun nff => rfl, ?_⟩
  · cases mode <;> rfl
  · intro nff hg h
    unfold planOutputs
    simp only []
    rw [if_neg (by simpa using h), hg]
    rfl

/-! ### the deprecated `sourmash compute` (`Model/SketchCompute.lean`) -/

/-- whatever its options, `compute` never builds a sketch that is both num and scaled: giving
`--scaled` resets the default `num_hashes = 500` to 0.  (The raw `ComputeParameters(scaled=S)` API,
whose `num_hashes` also defaults to 500, does not — that, not `compute`, is where D14e is reachable.) -/
theorem compute_excl (a : ComputeArgs) (c : CP) (h : computeParams a = .ok c) : c.scaled = 0 ∨ c.num = 0 :=
  Sketch.computeParams_excl h

/-- one signature per unit, holding one sketch per (k, molecule type) with `compute`'s parameters -/
theorem compute_sketch_set (a : ComputeArgs) (c : CP) (_h : computeParams a = .ok c) (b : BT) :
    (b ∈ buildTemplate c ↔ ∃ k ∈ c.ksizes, ∃ m ∈ molsOf c, b = template c k m) ∧
    (buildTemplate c).length = c.ksizes.length * (molsOf c).length :=
  ⟨Sketch.mem_buildTemplate c b, Sketch.buildTemplate_length c⟩

/-- **`compute` builds the same sketches as the equivalent `sketch` invocation**: for every
molecule type `m` that `compute` was asked for, `sketch -p <m>,k=K..,num=N|scaled=S,abund|noabund,seed=..`
(K = k/3 for the protein alphabets) yields one signature holding exactly `compute`'s sketches of
type `m`, in the order of the k sizes — same parameters, hence (by `sketch_eq_direct_sequences`,
applied to either) the same hashes, abundances and md5 on every input.  `Equivalent` lists what the
invocation needs: a k size, protein k sizes divisible by 3 (`compute` enforces it), numbers that
fit, a float-representable scaled, and a size.  Where they DIFFER: `compute` puts all molecule types
and k sizes of a unit into ONE signature (and one `-k` list serves every molecule type), `sketch`
makes one signature per `-p` group; `compute -n 0` without `--scaled` is accepted (an always-empty
sketch, what C14.1 was for `sketch`), and only `compute` acts on `--randomize`. -/
theorem compute_eq_sketch (c : CP) (m : Mol) (h : Equivalent c m) :
    factory [renderItems (equivSummary c m).canon] none false =
      .ok [c.ksizes.map (fun k => template c k m)] :=
  Sketch.factory_equiv h

/-- the refusals of `compute`, in the order of the source -/
theorem compute_exits :
    computeParams { licenseCC0 := false } = .error .license ∧
    computeParams { scaled := .below1 } = .error .scaledBelow1 ∧
    computeParams { scaled := .fraction } = .error .scaledFraction ∧
    computeParams { protein := true, ksizes := [21, 31] } = .error .proteinKsize ∧
    computeParams { dna := false } = .error .nothing ∧
    computeParams { merge := true, hasOutput := false } = .error .mergeNeedsOutput ∧
    computeParams { hasOutput := true, hasOutputDir := true } = .error .outputAndDir ∧
    (computeParams { inputIsProtein := true, ksizes := [21] }).toOption.map (fun c => (c.dna, c.protein)) = some (false, true) ∧
    computeParams { inputIsProtein := true } = .error .proteinKsize ∧
    (computeParams { scaled := .int 1000 }).toOption.map (fun c => (c.num, c.scaled)) = some (0, 1000) ∧
    (computeParams {}).toOption.map (fun c => (c.ksizes, c.num, c.scaled, c.seed, c.track)) =
      some ([21, 31, 51], 500, 0, 42, false) := by
  decide +kernel

/-! ### `sketch fromfile` (`Model/SketchFromfile.lean`) -/

/-- every requested signature is a (CSV row, parameter set) pair, `|names| × |parameter sets|` of them -/
theorem fromfile_requested (names : List FFRow) (build : List CP) (r : FFRow) (p : CP) :
    ((r, p) ∈ requested names build ↔ r ∈ names ∧ p ∈ build) ∧
    (requested names build).length = names.length * build.length :=
  ⟨Sketch.mem_requested names build r p, Sketch.requested_length names build⟩

/-- **built ∪ already-done ∪ impossible = exactly the requested set, no duplicates**: every request
has exactly one fate (skipped: an `--already-done` row with the same name and equal parameters;
missing: the file its molecule type needs is blank; build otherwise), the three counts add up to
the number of requests, the (name, file) keys under which parameter sets are filed for building are
distinct, exactly as many parameter sets are filed as requests have fate `build`, and a parameter
set is filed under (name, file) iff it was requested for that name with fate `build` and `file` is
the genome (DNA) resp. protein file of that row -/
theorem fromfile_builds_exactly (done : List DoneRow) (reqs : List (FFRow × CP)) :
    ((toBuild done reqs).map Prod.fst).Nodup ∧
    totalSize (toBuild done reqs) = (reqs.filter (fun rp => fate done rp.1 rp.2 = .build)).length ∧
    (∀ k p, p ∈ groupOf (toBuild done reqs) k ↔
      ∃ r, (r, p) ∈ reqs ∧ fate done r p = .build ∧ k = (r.name, fileFor r p)) ∧
    (reqs.filter (fun rp => fate done rp.1 rp.2 = .build)).length +
    (reqs.filter (fun rp => fate done rp.1 rp.2 = .skipped)).length +
    (reqs.filter (fun rp => fate done rp.1 rp.2 = .missing)).length = reqs.length :=
  ⟨(Sketch.toBuild_spec done reqs).1, (Sketch.toBuild_spec done reqs).2.1, (Sketch.toBuild_spec done reqs).2.2,
   Sketch.fates_partition done reqs⟩

/-- the skip rule: a request is skipped exactly when an already-done row has the same name and, read
as `ComputeParameters.from_manifest_row` reads it (k ×3 for the protein alphabets, seed 42), equal
k size, molecule type, num, scaled and abundance flag -/
theorem fromfile_skip_rule (done : List DoneRow) (r : FFRow) (p : CP) :
    fate done r p = .skipped ↔ ∃ d ∈ done, d.name = r.name ∧ d.cp = p := by
  unfold fate doneFor
  constructor
  · intro h
    split at h
    · rename_i hc
      simp only [List.contains_iff_mem, List.mem_map, List.mem_filter, decide_eq_true_eq] at hc
      obtain ⟨d, ⟨hd, hn⟩, rfl⟩ := hc
      exact ⟨d, hd, hn, rfl⟩
    · split at h <;> cases h
  · rintro ⟨d, hd, hn, rfl⟩
    rw [if_pos]
    simp only [List.contains_iff_mem, List.mem_map, List.mem_filter, decide_eq_true_eq]
    exact ⟨d, ⟨hd, hn⟩, rfl⟩

/-- early exits, in the order the command checks them -/
theorem fromfile_exits (build : List CP) (rows : List FFRow) (done : List DoneRow) (ign : Bool) :
    (build.any (fun p => p.seed ≠ Gen.sketchDefaultSeed) = true →
      fromfilePlan build rows done ign = .error .seedSet) ∧
    (build.any (fun p => p.seed ≠ Gen.sketchDefaultSeed) = false → namesOk rows = false →
      fromfilePlan build rows done ign = .error .badNames) := by
  constructor
  · intro h; unfold fromfilePlan; rw [if_pos h]
  · intro h1 h2
    unfold fromfilePlan
    rw [if_neg (by rw [h1]; exact Bool.false_ne_true), if_pos (by rw [h2]; rfl)]

/-! ### the translator's tables are the ones the model assumes -/

/-- every per-moltype default string parses, names no molecule type, has a k size and an
abundance flag (so `default_params["track_abundance"]` cannot raise KeyError) -/
theorem defaults_wellformed :
    ∀ m ∈ [Mol.dna, Mol.protein, Mol.dayhoff, Mol.hp],
      ∃ s, Gen.sketchDefaults.lookup m.name = some s ∧
        ∃ p, parseParamsStr s.toList = .ok (none, p) ∧ p.ksize ≠ [] ∧ p.track.isSome ∧
          (truthy p.num ∨ truthy p.scaled) := by
  intro m hm
  apply Sketch.defaultOk_spec
  simp only [List.mem_cons, List.mem_nil_iff, or_false] at hm
  rcases hm with rfl | rfl | rfl | rfl <;> decide +kernel

/-- `build_template` pushes protein, dayhoff, hp, dna for each k — the order `molsOf` models -/
theorem template_order : Gen.templateMolOrder = ["protein", "dayhoff", "hp", "dna"] ∧
    Gen.sketchKMult = 3 ∧ Gen.sketchDefaultSeed = 42 := by decide

/-- the Rust builder defaults and the Python keyword defaults of `ComputeParameters` agree -/
theorem cp_defaults_agree : Gen.cpRustDefaults = Gen.cpPyDefaults := rfl

/-! non-vacuity -/

example : Allowed emptyTab
    [Op.new 0 2 0 false 21 42, .new 1 2 0 false 21 42, .addmany 1 [10, 20], .merge 0 1,
     .add 0 15, .addab 0 7 0, .rm 0 [7], .json 0, .add 0 3, .md5 0] :=
  ⟨Or.inl rfl, Or.inl rfl, Or.inl rfl, trivial, Or.inl rfl, Or.inl rfl, trivial, trivial, Or.inl rfl,
   trivial, trivial⟩

example : (factory ["k=21,k=31,scaled=1000,abund".toList, "num=500".toList] (some .dna) false).toOption.map
    (fun sigs => sigs.map List.length) = some [2, 1] := by decide +kernel

/-- a concrete instance of `sketch_eq_direct_sequences` with the real hash (Murmur3 model): the
record `ACGTNACGTTGCA` (one invalid character) and the too-short record `AC`, k = 5, scaled = 1,
with abundance tracking: four hashes retained, both sketches equal -/
example :
    let p : CP := { ksizes := [5], seed := 42, protein := false, dayhoff := false, hp := false, dna := true,
                    num := 0, track := true, scaled := 1 }
    let recs := [[65, 67, 71, 84, 78, 65, 67, 71, 84, 84, 71, 67, 65], [65, 67]]
    (feedBT Murmur3.hashNat (template p 5 .dna) .dna .dna true recs).1.mins.length = 4 ∧
    (feedBT Murmur3.hashNat (template p 5 .dna) .dna .dna true recs).1.mins =
      (feedMH Murmur3.hashNat (MH.new 1 5 1 42 true 0) .dna .dna true recs).1.mins := by
  decide +kernel

end Sm.C14
