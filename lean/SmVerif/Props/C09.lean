/-
C09 — signature files round-trip without loss.

Statement.  Writing any signatures to the JSON signature format (plain or gzip, one or
many per file) and reading them back yields signatures equal in name, filename, license,
k-mer size, molecule type, seed, num/scaled, hash values, abundances and md5, and writing
those again yields an equivalent document.  Loading with a k-mer-size or molecule-type
filter returns exactly the matching subset, and signatures survive pickling and copying
unchanged.

The model (`Model/SigJson.lean`) is field-level: JSON text, serde_json, gzip and the file
system are trusted.  What is proved here, for ALL signatures / documents / parameters:

 (A) Rust layer.  `decode_encode`: for every well-formed signature (`WF`: strictly ascending
     hashes within range, aligned non-zero abundances, integer ranges of the Rust types, a
     valid md5 cache) `Deserialize (Serialize sig)` succeeds and returns a signature with
     the same envelope fields and, per sketch, the same parameters, hashes, abundances and
     md5 (`Sig.Same`); the exact result is given for both variants of the md5 handling (cache
     left empty on load, as the code does since 517223f: `sig` with empty caches; file's md5
     trusted, as before: `sig` with filled caches).  `encode_decode_encode`: EVERY document the reader accepts
     (well-formed or not) is normalised by one read: writing what was read and reading that
     again changes nothing.  `filter_exact`: loading with `(ksize, moltype)` = loading
     everything, then keeping the sketches whose stored k and hash function match.
 (B) Python layer.  `py_save_load_roundtrip` / `py_save_load_filter`: signatures built by
     `SourmashSignature(mh, name, filename)` (names without NUL), saved and loaded through
     any transport `_detect_input_type` recognises, come back with equal observations;
     `pickle_roundtrip`, `copy_eq` (sketch: through `scaled <-> max_hash`, using the C03
     stability fact `mhR (scP M) = M`, which holds for every `M = mhR S`, `1 ≤ S ≤ 2^31`;
     signature: fresh envelope, same fields); `ksize_roundtrip`; `sniff_total`.
 (C) What the code does with documents that are NOT well-formed (`malformed_*`); what holds for
     EVERY accepted document since the repairs C09.2-C09.4 (each was first found by this check as a
     violation; the old variants are kept as kernel-checked regression examples):
       C09.2 `loaded_md5_valid`, `py_loaded_md5_valid`   the md5 a loaded signature reports is the
             digest of its own k-mer size and hashes, whatever the md5sum field of the file says
             (C11's `CacheInv` holds after load: `loaded_cache_ok`); old variant: `stale_md5_old_variant`;
       C09.3 `sniff_existing_path`   an existing file whose name does not start with `[` is loaded
             from that file, whatever text its name contains; old variant: `path_sniff_old_variant`;
       C09.4 `py_load_is_rust_load`, `py_load_keeps_envelope`, `loaded_license`   the Python loader
             returns exactly what the Rust loader read: class, email, hash_function, filename, name,
             license, version as in the file; old variant: `license_old_variant`.
     One place where the code still departs from the statement as written, kept as KNOWN finding C09.1
     with the full statement in a comment and a kernel-checked counterexample:
       C09.1 `ksize_filter_counterexample`   the ksize filter of `load_signatures` compares its argument
             with the STORED k, which is 3x the k-mer size for protein / dayhoff / hp sketches
             (`ksize_filter_is_stored_k`, `ksize_filter_protein_3k`); it is exact for DNA
             (`ksize_filter_dna_partial`).  The project's own tests rely on the stored size
             (`load_one_signature(sig, ksize=57)` selects a protein k=19 sketch), so it is not repaired.
-/
import SmVerif.Lemmas.SigJsonState
import SmVerif.Lemmas.JsonTextRead

namespace Sm.C09

open Sm Sm.SigJson

/-! ### well-formed signatures -/

/-- the sketches the statement quantifies over -/
structure WFSk (s : Sk) : Prop where
  /-- strictly ascending hashes, aligned non-zero abundances, hashes within `max_hash`, at most `num` of them -/
  inv : Inv s.mh
  /-- a num sketch or a scaled sketch, not both -/
  excl : Excl s.mh
  num32 : s.mh.num < 2 ^ 32
  ksize32 : s.mh.ksize < 2 ^ 32
  seed64 : s.mh.seed < 2 ^ 64
  max64 : s.mh.maxHash < 2 ^ 64
  mins64 : ∀ h ∈ s.mh.mins, h < 2 ^ 64
  ab64 : ∀ ab, s.mh.abunds = some ab → ∀ a ∈ ab, a < 2 ^ 64
  /-- DNA, protein, dayhoff or hp -/
  hf : 1 ≤ s.mh.hf ∧ s.mh.hf ≤ 4
  /-- the md5 cache is empty or valid (C11) and holds no foreign string -/
  cache : s.CacheOK

def WF (sig : Sig) : Prop := ∀ sk ∈ sig.sketches, WFSk sk

theorem WFSk.encodable {s : Sk} (h : WFSk s) : s.Encodable := by
  refine ⟨h.num32, h.ksize32, h.seed64, h.max64, h.mins64, h.ab64, h.inv.aligned, ?_, h.excl, h.hf, ?_⟩
  · unfold Ordered
    cases hab : s.mh.abunds with
    | none => exact sorted_le_of_sorted h.inv.sorted
    | some ab => exact zip_lexLe_of_sorted h.inv.sorted
  · intro hr
    rw [h.cache.1] at hr
    cases hr

theorem WF.encodable {sig : Sig} (h : WF sig) : sig.Encodable := fun sk hsk => (h sk hsk).encodable

/-- equal in every field the statement lists -/
structure Sig.Same (a b : Sig) : Prop where
  cls : a.cls = b.cls
  email : a.email = b.email
  hashFunction : a.hashFunction = b.hashFunction
  filename : a.filename = b.filename
  name : a.name = b.name
  license : a.license = b.license
  version : a.version = b.version
  /-- per sketch: num, max_hash, k, seed, hash function, hashes, abundances, and the md5 it reports -/
  sketches : a.sketches.map Sk.obs = b.sketches.map Sk.obs

/-! ### (A) the Rust layer -/

theorem afterLoad_same (t : Bool) {sig : Sig} (h : WF sig) : Sig.Same (sig.afterLoad t) sig := by
  refine ⟨rfl, rfl, rfl, rfl, rfl, rfl, rfl, ?_⟩
  simp only [Sig.afterLoad, List.map_map]
  apply List.map_congr_left
  intro sk hsk
  exact Sk.obs_afterLoad t sk (fun _ => (h sk hsk).cache)

/-- **decode_encode.**  Reading what was written for a well-formed signature succeeds and gives a
signature equal in every listed field, md5 included. -/
theorem decode_encode {sig : Sig} (h : WF sig) :
    ∃ sig', decodeSig sig.encode = .ok sig' ∧ Sig.Same sig' sig :=
  ⟨_, decodeSig_encode _ _ h.encodable, afterLoad_same _ h⟩

/-- the same for whole files (one or many signatures, any grouping) -/
theorem decode_encode_doc {sigs : List Sig} (h : ∀ s ∈ sigs, WF s) :
    ∃ sigs', decodeDoc (encodeDoc sigs) = .ok sigs' ∧ sigs'.length = sigs.length ∧
      ∀ i (h1 : i < sigs'.length) (h2 : i < sigs.length), Sig.Same sigs'[i] sigs[i] := by
  refine ⟨_, decodeDoc_encode _ _ (fun s hs => (h s hs).encodable), by simp, ?_⟩
  intro i h1 h2
  simp only [List.getElem_map]
  exact afterLoad_same _ (h _ (List.getElem_mem h2))

/-- the exact result, for both values of the two translator flags (md5 trusted from the file / load-time
sort): with `trusted = false` (the code since 517223f) it is `sig` with empty md5 caches, with
`trusted = true` (before) `sig` with its caches filled -/
theorem decode_encode_exact (trusted sorts : Bool) {sig : Sig} (h : WF sig) :
    decodeSigWith trusted sorts sig.encode = .ok (sig.afterLoad trusted) :=
  decodeSig_encode trusted sorts h.encodable

theorem afterLoad_trusted (sig : Sig) : sig.afterLoad true = sig.touch := rfl

/-- link to C11: the md5 a signature reports after a round trip is the digest of its content -/
theorem md5_after_roundtrip (t : Bool) {sk : Sk} (h : WFSk sk) :
    (sk.afterLoad t).md5sum.2 = .pre ⟨sk.mh.ksize, sk.mh.mins⟩ := by
  have h1 := Sk.obs_afterLoad t sk (fun _ => h.cache)
  have h2 : sk.md5sum.2 = .pre ⟨sk.mh.ksize, sk.mh.mins⟩ := by
    have hc := h.cache
    unfold Sk.md5sum
    rw [hc.1]
    simp only
    rw [C11.md5sum_eq_digest hc.2]
    rfl
  rw [← h2]
  have h3 : (sk.afterLoad t).obs.2 = sk.obs.2 := by rw [h1]
  exact h3

/-- **encode_decode_encode.**  Every document the reader accepts -- irregular ones included -- is
normalised by a single read: writing the result and reading it again gives the same signatures
(up to filled md5 caches) and the same document. -/
theorem encode_decode_encode {d : Doc} {sigs : List Sig} (h : decodeDoc d = .ok sigs) :
    ∃ sigs', decodeDoc (encodeDoc sigs) = .ok sigs' ∧ encodeDoc sigs' = encodeDoc sigs := by
  have hz : Gen.numZeroedWhenScaled = true := rfl
  have hs : Gen.loadSortsMins = true := rfl
  unfold decodeDoc at h
  rw [hs] at h
  unfold decodeDocWith at h
  have henc : ∀ s ∈ sigs, s.Encodable := by
    intro s hsm
    obtain ⟨r, _, hr⟩ := mapM_ok_mem h s hsm
    exact decodeSig_encodable _ hz hr
  have hcache : Gen.md5TrustedFromFile = false → ∀ s ∈ sigs, ∀ sk ∈ s.sketches, sk.CacheOK := by
    intro ht s hsm
    obtain ⟨r, _, hr⟩ := mapM_ok_mem h s hsm
    rw [ht] at hr
    exact decodeSig_untrusted_cache hr
  refine ⟨_, decodeDoc_encode _ _ henc, ?_⟩
  unfold encodeDoc
  rw [List.map_map]
  apply List.map_congr_left
  intro s hsm
  exact Sig.encode_afterLoad _ s (fun ht => hcache ht s hsm)

/-- re-writing what was read from a file written for well-formed signatures gives an equal document -/
theorem encode_decode_encode_wf {sigs : List Sig} (h : ∀ s ∈ sigs, WF s) :
    ∃ sigs', decodeDoc (encodeDoc sigs) = .ok sigs' ∧ encodeDoc sigs' = encodeDoc sigs := by
  refine ⟨_, decodeDoc_encode _ _ (fun s hs => (h s hs).encodable), ?_⟩
  unfold encodeDoc
  rw [List.map_map]
  apply List.map_congr_left
  intro s hsm
  exact Sig.encode_afterLoad _ s (fun _ sk hsk => (h s hsm sk hsk).cache)

/-- **filter_exact.**  `load_signatures(ksize, moltype)` = `load_signatures(None, None)` followed by
keeping the signatures whose sketch passes the filter. -/
theorem filter_exact (ksize moltype : Option Nat) (sigs : List Sig) :
    loadSignatures ksize moltype sigs = (loadSignatures none none sigs).filter (sigKeeps ksize moltype) := by
  rw [loadSignatures_none, loadSignatures_eq_filter]

/-- flattening: one signature per sketch, in order, the envelope repeated -/
theorem load_all_flattens (sigs : List Sig) :
    loadSignatures none none sigs =
      sigs.flatMap (fun s => s.sketches.map (fun sk => { s with sketches := [sk] })) :=
  loadSignatures_none sigs

/-- what the filter tests: stored k and hash function -/
theorem sigKeeps_iff (ksize moltype : Option Nat) (sig : Sig) (sk : Sk) (h : sig.sketches = [sk]) :
    sigKeeps ksize moltype sig = true ↔
      (∀ k, ksize = some k → filterK Gen.loadFilterKsizeRaw sk k = sk.mh.ksize) ∧
      (∀ m, moltype = some m → sk.mh.hf = m) := by
  unfold sigKeeps keeps keepsWith
  rw [h]
  cases ksize <;> cases moltype <;> simp

/-- the FFI entry point: `ksize = 0` means no k filter; the moltype string is parsed (case folded)
before the data is looked at -/
theorem ffiLoad_all {doc : Doc} {sigs : List Sig} (h : decodeDoc doc = .ok sigs) :
    ffiLoad (some doc) 0 none = .ok (loadSignatures none none sigs) := by
  simp [ffiLoad, h, bind, Except.bind, pure, Except.pure]

theorem ffi_filter_exact {doc : Doc} {ksize : Nat} {mstr : Option String} {r : List Sig}
    (h : ffiLoad (some doc) ksize mstr = .ok r) :
    ∃ all mol, ffiLoad (some doc) 0 none = .ok all ∧
      (match mstr with
       | none => mol = none
       | some s => ∃ hf, parseMoltype (cstr s) = .ok hf ∧ mol = some hf) ∧
      r = all.filter (sigKeeps (if ksize = 0 then none else some ksize) mol) := by
  unfold ffiLoad at h
  cases mstr with
  | none =>
    simp only [bind, Except.bind, pure, Except.pure] at h
    split at h; · cases h
    rename_i sigs hs
    injection h with h
    exact ⟨_, none, ffiLoad_all hs, rfl, by rw [← h, filter_exact]⟩
  | some s =>
    simp only [bind, Except.bind, pure, Except.pure, Except.map] at h
    split at h; · cases h
    rename_i mol hmol
    split at hmol; · cases hmol
    rename_i hf hhf
    injection hmol with hmol
    subst hmol
    split at h; · cases h
    rename_i sigs hs
    injection h with h
    exact ⟨_, some hf, ffiLoad_all hs, ⟨hf, hhf, rfl⟩, by rw [← h, filter_exact]⟩

/-! ### (B) the Python layer -/

/-- a sketch for which `__setstate__` / `__copy__` rebuild the same object -/
abbrev PyStable := Sm.SigJson.PyStable

/-- **pickle_roundtrip** (MinHash / FrozenMinHash; also `FrozenMinHash.to_mutable`). -/
theorem pickle_roundtrip {m : MH} (h : PyStable m) : Py.pickleMH m = .ok { m with md5 := none } :=
  pickleMH_eq h

/-- **copy_eq** (`MinHash.__copy__`, `to_mutable`, `to_frozen` of a mutable sketch). -/
theorem copy_eq {m : MH} (h : PyStable m) : Py.copyMH m = .ok { m with md5 := none } :=
  copyMH_eq h

/-- C03 supplies the stability hypothesis for every scaled value up to 2^31 ... -/
theorem pystable_of_scaled {m : MH} {S : Nat} (hi : Inv m) (hn : m.num = 0) (hM : m.maxHash = mhR S)
    (h1 : 1 ≤ S) (h2 : S ≤ 2 ^ 31) (hhf : 1 ≤ m.hf ∧ m.hf ≤ 4) (hk : m.hf = 1 ∨ m.ksize % 3 = 0) :
    PyStable m :=
  ⟨hi, Or.inl hn, Or.inr (by rw [hM]; exact mhR_pos h1 (by omega)), by rw [hM]; exact stable_of_scaled h1 h2,
   hhf, hk⟩

/-- ... and it is trivial for num sketches -/
theorem pystable_of_num {m : MH} (hi : Inv m) (hn : m.num ≠ 0) (hM : m.maxHash = 0)
    (hhf : 1 ≤ m.hf ∧ m.hf ≤ 4) (hk : m.hf = 1 ∨ m.ksize % 3 = 0) : PyStable m :=
  ⟨hi, Or.inr hM, Or.inl hn, by rw [hM]; exact stable_zero, hhf, hk⟩

/-- pickling / copying changes nothing Python can see: same fields, and the md5 asked afterwards is
the md5 the original reports (C11: the digest of the content) -/
theorem pickle_obs {sk : Sk} (h : PyStable sk.mh) (hc : sk.CacheOK) :
    (Sk.ofMH { sk.mh with md5 := none }).obs = sk.obs := by
  have h1 := C11.md5sum_eq_digest hc.2
  obtain ⟨m, raw⟩ := sk
  have hr := hc.1
  simp only at hr h1
  subst hr
  simp only [Sk.obs, Sk.ofMH, Sk.md5sum, h1]
  simp [MH.md5sum, MH.digest]

/-- **pickle_roundtrip** (SourmashSignature / FrozenSourmashSignature) -/
theorem pickle_roundtrip_sig {s : Sig} {sk : Sk} (h : PyNormal s) (hsk : s.sketches = [sk])
    (hst : PyStable sk.mh) (hc : sk.CacheOK) :
    ∃ s', Py.pickleSig s = .ok s' ∧ Sig.Same s' s := by
  refine ⟨_, pickleSig_normal h hsk hst, rfl, rfl, rfl, rfl, rfl, rfl, rfl, ?_⟩
  simp only [hsk, List.map_cons, List.map_nil, Sk.obs_touch, pickle_obs hst hc]

/-- **copy_eq** (SourmashSignature `__copy__`, `to_frozen`, `to_mutable`; the loader's `to_frozen()`) -/
theorem copy_eq_sig {s : Sig} (h : PyNormal s) : ∃ s', Py.copySig s = .ok s' ∧ Sig.Same s' s := by
  refine ⟨_, copySig_normal h, rfl, rfl, rfl, rfl, rfl, rfl, rfl, ?_⟩
  simp only [Sig.touch, List.map_map]
  apply List.map_congr_left
  intro sk _
  exact Sk.obs_touch sk

/-- **ksize_roundtrip.**  The constructor stores `3k` for protein-like sketches; `.ksize` gives `k` back. -/
theorem ksize_roundtrip (k : Nat) : (k * 3) / 3 = k := by omega

theorem ksize_prop_of_ctor (m : MH) (k : Nat) (h : m.ksize = Py.ctorKsize m.hf k) : Py.ksizeProp m = .ok k := by
  unfold Py.ksizeProp
  unfold Py.ctorKsize at h
  by_cases h1 : m.hf = 1
  · simp [h1] at h ⊢; exact h
  · simp only [h1, if_false] at h ⊢
    have : m.ksize % 3 = 0 := by omega
    simp only [this, if_true]
    congr 1
    omega

/-- the other direction needs `3 ∣ K`: a protein sketch read from a file with `ksize` 20 cannot even
report its k-mer size (`assert k % 3 == 0`) -/
theorem ksize_not_multiple_of_3 :
    Py.ksizeProp { num := 0, maxHash := 1, ksize := 20, seed := 42, hf := 2, mins := [], abunds := none, md5 := none }
      = .error .assertion := rfl

/-- the three flags `is_protein / dayhoff / hp` determine the hash function back -/
theorem flags_roundtrip {hf : Nat} (h1 : 1 ≤ hf) (h4 : hf ≤ 4) : Py.hfOfFlags (Py.flagsOf hf) = hf :=
  hfOfFlags_flagsOf h1 h4

/-- molecule string <-> hash function, in any letter case -/
theorem molecule_roundtrip {hf : Nat} (h1 : 1 ≤ hf) (h4 : hf ≤ 4) : parseMolecule (Sk.molName hf) = .ok hf :=
  parseMolecule_molName h1 h4

/-- **sniff_total.**  Every input is classified, by these rules. -/
theorem sniff_total (d : Py.PyData) :
    Py.detectInputType d = .fileLike ∨ Py.detectInputType d = .path ∨
    Py.detectInputType d = .buffer ∨ Py.detectInputType d = .unknown := by
  cases h : Py.detectInputType d <;> simp

theorem sniff_file_like : Py.detectInputType .fileLike = .fileLike := rfl

theorem sniff_str_with (guard : Bool) (s : List Char) (e : Bool) :
    Py.detectInputTypeWith guard (.str s e) =
      if Py.hit (Py.findSub Gen.sniffLiteral.toList s) && (!guard || Py.lstripStartsBracket s) then .buffer
      else if e then .path else .unknown := rfl

/-- a `str` is JSON text iff it contains the literal after position 0 AND starts (after white space)
with `[`; otherwise it is a path if such a file exists -/
theorem sniff_str (s : List Char) (e : Bool) :
    Py.detectInputType (.str s e) =
      if Py.hit (Py.findSub Gen.sniffLiteral.toList s) && Py.lstripStartsBracket s then .buffer
      else if e then .path else .unknown := by
  have hg : Gen.sniffBracketGuard = true := rfl
  simp [Py.detectInputType, sniff_str_with, hg]

theorem sniff_gzip (b : List Nat) (e : Bool) (h : b.take 2 = [31, 139]) :
    Py.detectInputType (.bytes b e) = .buffer := by
  have hm : Gen.gzipMagic = [31, 139] := rfl
  unfold Py.detectInputType
  show (if Py.hit (Py.findSub Py.litBytes b) then Py.SigInput.buffer
        else if b.take Gen.gzipMagic.length == Gen.gzipMagic then Py.SigInput.buffer
        else if e then Py.SigInput.path else Py.SigInput.unknown) = Py.SigInput.buffer
  split
  · rfl
  · simp [hm, h]

/-- the text written for normal signatures (class = "sourmash_signature") is recognised -/
theorem saved_doc_mentions {sigs : List Sig} (hne : sigs ≠ []) (hn : ∀ s ∈ sigs, PyNormal s) :
    Py.docMentions (encodeDoc sigs) = true := by
  cases sigs with
  | nil => exact absurd rfl hne
  | cons s ss =>
    have hc := (hn s (by simp)).cls
    have hm : Py.mentions Gen.sigDefaultClass = true := by decide
    simp [Py.docMentions, encodeDoc, Py.sigRecMentions, Sig.encode, Py.fldMentions, hc, hm]

/-- **py_save_load_filter.**  Signatures built through the Python API (any sketch satisfying `WF`, names
without NUL), saved into one file and loaded -- through any input `_detect_input_type` recognises,
with any ksize / moltype filter -- come back as exactly the signatures whose sketch passes the filter,
in order, equal in every observable field. -/
theorem py_save_load_filter {sigs : List Sig} (hn : ∀ s ∈ sigs, PyNormal s) (hw : ∀ s ∈ sigs, WF s)
    {i : Py.LoadIn} (he : i.empty = false) (hu : Py.detectInputType i.data ≠ .unknown)
    (hd : docFor i = some (encodeDoc sigs))
    (ksize : Option Nat) (mstr : Option String) (mol : Option Nat)
    (hm : (match mstr with
           | none => Except.ok none
           | some s => (parseMoltype (cstr s)).map some) = Except.ok mol)
    (raise : Bool) :
    ∃ r, Py.loadFromJson i ksize mstr raise = .ok r ∧
      r.map Sig.obs =
        (sigs.filter (sigKeeps (if ksize.getD 0 = 0 then none else some (ksize.getD 0)) mol)).map Sig.obs := by
  have hl := load_saved hn (fun s hs => (hw s hs).encodable) (ksize.getD 0) mstr mol hm
  refine ⟨_, loadFromJson_of_doc he hu hd ksize mstr raise hl, ?_⟩
  generalize (if ksize.getD 0 = 0 then none else some (ksize.getD 0)) = kf
  clear hl hd hm
  induction sigs with
  | nil => rfl
  | cons s ss ih =>
    have ih' := ih (fun x hx => hn x (by simp [hx])) (fun x hx => hw x (by simp [hx]))
    have hsame := afterLoad_same Gen.md5TrustedFromFile (hw s (by simp))
    have hkeep : sigKeeps kf mol (s.afterLoad Gen.md5TrustedFromFile) = sigKeeps kf mol s := by
      obtain ⟨sk, hsk⟩ := (hn s (by simp)).one
      have hf := congrArg Prod.fst (Sk.obs_afterLoad Gen.md5TrustedFromFile sk
        (fun _ => (hw s (by simp) sk (by simp [hsk])).cache))
      simp only [Sk.obs, Prod.mk.injEq] at hf
      have hsk' : (s.afterLoad Gen.md5TrustedFromFile).sketches = [sk.afterLoad Gen.md5TrustedFromFile] := by
        simp [Sig.afterLoad, hsk]
      apply Bool.eq_iff_iff.mpr
      rw [sigKeeps_iff _ _ _ _ hsk', sigKeeps_iff _ _ _ _ hsk]
      unfold filterK
      rw [hf.2.2.1, hf.2.2.2.2.1]
    have hobs : (fin (s.afterLoad Gen.md5TrustedFromFile)).obs = s.obs := by
      rw [fin_obs]
      unfold Sig.obs
      have h1 : Py.nameOf (s.afterLoad Gen.md5TrustedFromFile) = Py.nameOf s := rfl
      have h2 : Py.filenameOf (s.afterLoad Gen.md5TrustedFromFile) = Py.filenameOf s := rfl
      have h3 : (s.afterLoad Gen.md5TrustedFromFile).license = s.license := rfl
      rw [h1, h2, h3, hsame.sketches]
    simp only [List.map_cons, List.filter_cons, hkeep]
    cases hk : sigKeeps kf mol s
    · simpa using ih'
    · simp only [if_true, List.map_cons, hobs]
      rw [ih']

/-- **py_save_load_roundtrip**: no filter -- everything comes back, in order -/
theorem py_save_load_roundtrip {sigs : List Sig} (hn : ∀ s ∈ sigs, PyNormal s) (hw : ∀ s ∈ sigs, WF s)
    {i : Py.LoadIn} (he : i.empty = false) (hu : Py.detectInputType i.data ≠ .unknown)
    (hd : docFor i = some (encodeDoc sigs)) (raise : Bool) :
    ∃ r, Py.loadFromJson i none none raise = .ok r ∧ r.map Sig.obs = sigs.map Sig.obs := by
  obtain ⟨r, hr, ho⟩ := py_save_load_filter hn hw he hu hd none none none rfl raise
  refine ⟨r, hr, ?_⟩
  rw [ho]
  congr 1
  apply List.filter_eq_self.mpr
  intro s _
  simp [sigKeeps, keeps_none]

/-- the constructor yields normal signatures for NUL-free names (any Unicode otherwise) -/
theorem ctor_normal (sk : Sk) {name filename : String} (h1 : NoNul name) (h2 : NoNul filename) :
    PyNormal (Py.mkSig sk name filename) :=
  mkSig_normal sk h1 h2

/-- a name crosses the FFI as a C string: it ends at its first NUL (documented limit of the statement) -/
theorem name_cut_at_nul : Py.nameOf (Py.mkSig default "ab\x00cd" "") = "ab" := by decide

/-! ### (C) documents that are not well-formed: what the reader does -/

def sk0 : SkRec :=
  { num := .val 0, ksize := .val 21, seed := .val 42, maxHash := .val 18446744073709551615,
    mins := .val [9, 3, 3, 1], md5sum := .val (.raw "deadbeef"), abundances := .val [1, 2, 3, 4],
    molecule := .val "DnA" }

def sig0 (sks : List SkRec) (lic : String) : SigRec :=
  { cls := .val "sourmash_signature", email := .absent, hashFunction := .val "0.murmur64",
    filename := .null, name := .val "n", license := .val lic, signatures := .val sks, version := .absent }

/-- unsorted hashes are sorted together with their abundances; duplicates are kept; the molecule is
matched case-insensitively; missing optional keys take their defaults -/
theorem malformed_sorted_duplicates_kept :
    (decodeDoc [sig0 [sk0] "CC0"]).toOption.map
      (fun l => l.map (fun s => (s.email, s.version, s.filename,
                                s.sketches.map (fun k => (k.mh.mins, k.mh.abunds, k.mh.hf))))) =
      some [("", "0.4", none, [([1, 3, 3, 9], some [4, 2, 3, 1], 1)])] := rfl

/-- `mins` and `abundances` of different lengths are silently cut to the shorter one -/
theorem malformed_abundances_truncated :
    (decodeSk { sk0 with mins := .val [1, 2, 3], abundances := .val [7, 8] }).toOption.map
      (fun k => (k.mh.mins, k.mh.abunds)) = some ([1, 2], some [7, 8]) := by decide

/-- `num` is dropped when `max_hash` is set -/
theorem malformed_num_dropped :
    (decodeSk { sk0 with num := .val 500 }).toOption.map (fun k => k.mh.num) = some 0 := by decide

/-- out-of-range integers, wrong types and missing required keys are serde errors; an unknown
molecule is a panic (caught at the FFI boundary) -/
theorem malformed_refused :
    decodeSk { sk0 with num := .val (2 ^ 32) } = .error .serde ∧
    decodeSk { sk0 with mins := .val [2 ^ 64] } = .error .serde ∧
    decodeSk { sk0 with seed := .absent } = .error .serde ∧
    decodeSk { sk0 with md5sum := .null } = .error .serde ∧
    decodeSk { sk0 with molecule := .val "rna" } = .error .panic ∧
    decodeDoc [{ sig0 [sk0] "CC0" with hashFunction := .absent }] = .error .serde ∧
    decodeDoc [{ sig0 [sk0] "CC0" with license := .null }] = .error .serde := by
  refine ⟨rfl, rfl, rfl, rfl, rfl, rfl, rfl⟩

/-! #### C09.2 (fixed 517223f) — the md5 of a loaded signature is the digest of its content -/

/-- with the cache left empty on load every loaded sketch reports the digest of its content
(for both values of the sort flag) -/
theorem loaded_md5_valid_if_untrusted {sorts : Bool} {d : Doc} {sigs : List Sig}
    (h : decodeDocWith false sorts d = .ok sigs) :
    ∀ s ∈ sigs, ∀ sk ∈ s.sketches, sk.md5sum.2 = .pre ⟨sk.mh.ksize, sk.mh.mins⟩ := by
  intro s hs sk hsk
  obtain ⟨r, _, hr⟩ := mapM_ok_mem h s hs
  have hc := decodeSig_untrusted_cache hr sk hsk
  unfold Sk.md5sum
  rw [hc.1]
  simp only
  rw [C11.md5sum_eq_digest hc.2]
  rfl

/-- C11's invariant holds for everything `Deserialize` returns: the cache is empty (hence valid)
and holds no string taken from the file -/
theorem loaded_cache_ok {d : Doc} {sigs : List Sig} (h : decodeDoc d = .ok sigs) :
    ∀ s ∈ sigs, ∀ sk ∈ s.sketches, sk.CacheOK := by
  have ht : Gen.md5TrustedFromFile = false := rfl
  unfold decodeDoc at h
  rw [ht] at h
  intro s hs
  obtain ⟨r, _, hr⟩ := mapM_ok_mem h s hs
  exact decodeSig_untrusted_cache hr

/-- **loaded_md5_valid.**  For EVERY document the reader accepts -- whatever its md5sum fields say,
sorted or not -- each loaded sketch reports the md5 of its own k-mer size and (sorted) hashes.
(C11: "the md5 is a function of the current content only", for loaded sketches.) -/
theorem loaded_md5_valid {d : Doc} {sigs : List Sig} (h : decodeDoc d = .ok sigs) :
    ∀ s ∈ sigs, ∀ sk ∈ s.sketches, sk.md5sum.2 = .pre ⟨sk.mh.ksize, sk.mh.mins⟩ := by
  have ht : Gen.md5TrustedFromFile = false := rfl
  unfold decodeDoc at h
  rw [ht] at h
  exact loaded_md5_valid_if_untrusted h

/-- the yield loop of `load_signatures_from_json` hands out the loaded objects themselves -/
theorem finishLoad_id (sigs : List Sig) : Py.finishLoad sigs = .ok sigs := by
  have hc : Gen.loaderCopies = false := rfl
  simp [Py.finishLoad, Py.finishLoadWith, hc]

/-- the same through the Python API: whatever `load_signatures_from_json` returns (any input, any
filter, raising or not) reports valid md5s -/
theorem py_loaded_md5_valid {i : Py.LoadIn} {k : Option Nat} {m : Option String} {raise : Bool} {r : List Sig}
    (h : Py.loadFromJson i k m raise = .ok r) :
    ∀ s ∈ r, ∀ sk ∈ s.sketches, sk.md5sum.2 = .pre ⟨sk.mh.ksize, sk.mh.mins⟩ := by
  rcases loadFromJson_ok_cases h with rfl | ⟨doc, hdoc⟩
  · intro s hs; cases hs
  · simp only [bind, Except.bind] at hdoc
    split at hdoc; · cases hdoc
    rename_i l hl
    rw [finishLoad_id] at hdoc
    injection hdoc with hdoc
    subst hdoc
    obtain ⟨d, sigs, k', m', _, hdec, rfl⟩ := ffiLoad_ok hl
    intro s hs sk hsk
    obtain ⟨s0, hs0, sk0, hsk0, rfl⟩ := mem_flatten (mem_loadSignatures hs)
    simp only [List.mem_singleton] at hsk
    subst hsk
    exact loaded_md5_valid hdec s0 hs0 sk hsk0

/-- regression (the variant before 517223f, `Mutex::new(Some(tmpsig.md5sum))`): the md5sum string of
the file was put into the cache unverified, so this file loaded as a signature whose md5 is
"deadbeef" -/
theorem stale_md5_old_variant :
    ∃ sig sk, decodeDocWith true Gen.loadSortsMins [sig0 [sk0] "CC0"] = .ok [sig] ∧ sig.sketches = [sk] ∧
      sk.md5sum.2 = .raw "deadbeef" ∧ sk.md5sum.2 ≠ .pre ⟨sk.mh.ksize, sk.mh.mins⟩ :=
  ⟨_, _, rfl, rfl, rfl, by decide⟩

/-- ... and what the same file loads as now -/
theorem stale_md5_file_now :
    (decodeDoc [sig0 [sk0] "CC0"]).toOption.map (fun l => l.map (fun s => s.sketches.map (fun k => k.md5sum.2))) =
      some [[.pre ⟨21, [1, 3, 3, 9]⟩]] := rfl

/-! #### C09.1 (known) — the ksize filter compares with the STORED k-mer size -/

/- FULL STATEMENT (not proved / false):
     theorem ksize_filter_user_k (k : Nat) (sig : Sig) (sk : Sk) (h : sig.sketches = [sk]) (hk : k ≠ 0) :
         sigKeeps (some k) none sig = true ↔ Py.ksizeProp sk.mh = .ok k
   ("loading with a k-mer-size filter returns exactly the signatures whose k-mer size is k", the
   k-mer size being what `MinHash.ksize` reports and what the user passed to the constructor.)
   False while `Gen.loadFilterKsizeRaw = true`: `Signature::load_signatures` compares the argument
   with the STORED k (`ksize_filter_is_stored_k`), which is 3x the k-mer size for protein / dayhoff /
   hp sketches: a protein sketch built with ksize=7 is returned for ksize=21 and not for ksize=7
   (`ksize_filter_counterexample`; in general `ksize_filter_protein_3k`).  `Select for Signature` in
   the same file does multiply by 3.  True for DNA (`ksize_filter_dna_partial`).
   Not repaired: the project's own test-suite relies on the stored size
   (tests/test_sourmash.py::test_gather_metagenome_output_unassigned_nomatches_protein calls
   `load_one_signature(query_sig, ksize=57)` to select a protein k=19 sketch). -/

/-- what the filter does: it keeps the sketches whose STORED k equals the argument -/
theorem ksize_filter_is_stored_k (h : Gen.loadFilterKsizeRaw = true) (k : Nat) (sig : Sig) (sk : Sk)
    (hs : sig.sketches = [sk]) : sigKeeps (some k) none sig = true ↔ sk.mh.ksize = k := by
  rw [sigKeeps_iff _ _ _ _ hs]
  unfold filterK
  simp only [h, if_true]
  constructor
  · intro hh; exact (hh.1 k rfl).symm
  · intro hh
    exact ⟨fun k' hk' => by injection hk' with hk'; rw [← hk', hh], fun m hm => by cases hm⟩

/-- for a protein-like sketch with k-mer size `k` the filter value that selects it is `3 * k` -/
theorem ksize_filter_protein_3k (h : Gen.loadFilterKsizeRaw = true) (k : Nat) (sig : Sig) (sk : Sk)
    (hs : sig.sketches = [sk]) (hp : sk.mh.hf ≠ 1) (hk : Py.ksizeProp sk.mh = .ok k) :
    sigKeeps (some (3 * k)) none sig = true := by
  rw [ksize_filter_is_stored_k h _ _ _ hs]
  unfold Py.ksizeProp at hk
  simp only [hp, if_false] at hk
  split at hk
  · injection hk with hk
    omega
  · cases hk

theorem ksize_filter_dna_partial (k : Nat) (sig : Sig) (sk : Sk) (h : sig.sketches = [sk]) (hd : sk.mh.hf = 1) :
    sigKeeps (some k) none sig = true ↔ Py.ksizeProp sk.mh = .ok k := by
  rw [sigKeeps_iff _ _ _ _ h]
  unfold filterK Py.ksizeProp
  simp only [hd, if_true]
  constructor
  · intro hh
    have := hh.1 k rfl
    split at this <;> simp [this]
  · intro hh
    injection hh with hh
    refine ⟨fun k' hk' => ?_, fun m hm => by cases hm⟩
    injection hk' with hk'
    subst hk'
    split <;> exact hh.symm

/-- a protein sketch built with k = 7 (stored k = 21) -/
def protMH : MH :=
  { num := 0, maxHash := 18446744073709551615, ksize := 21, seed := 42, hf := 2, mins := [1], abunds := none,
    md5 := none }

def protSig : Sig := { Sig.default with sketches := [Sk.ofMH protMH] }

theorem ksize_filter_counterexample (h : Gen.loadFilterKsizeRaw = true) :
    (protSig.sketches.map (fun sk => Py.ksizeProp sk.mh)) = [.ok 7] ∧
    sigKeeps (some 7) none protSig = false ∧ sigKeeps (some 21) none protSig = true := by
  refine ⟨rfl, ?_, ?_⟩ <;> simp [sigKeeps, keeps, keepsWith, filterK, h, protSig, protMH, Sk.ofMH]

/-! #### C09.3 (fixed 4d1285d) — an existing file is loaded from that file, whatever its name contains -/

/-- **sniff_existing_path.**  A `str` naming an existing file is classified as a path unless it starts
(after white space) with `[`; in particular every absolute path and every name made of the usual
file-name characters, whether or not it contains "sourmash_signature". -/
theorem sniff_existing_path (s : List Char) (h : Py.lstripStartsBracket s = false) :
    Py.detectInputType (.str s true) = .path := by
  rw [sniff_str]
  simp [h]

theorem sniff_absolute_path (t : List Char) : Py.detectInputType (.str ('/' :: t) true) = .path :=
  sniff_existing_path _ (by simp [Py.lstripStartsBracket, List.dropWhile, Py.pyIsSpace])

/-- text written by `save` (starts with `[`, contains the class literal after position 0) is still a buffer -/
theorem sniff_json_text (s : List Char) (e : Bool) (h1 : Py.hit (Py.findSub Gen.sniffLiteral.toList s) = true)
    (h2 : Py.lstripStartsBracket s = true) : Py.detectInputType (.str s e) = .buffer := by
  rw [sniff_str]
  simp [h1, h2]

/-- regression (the variant before 4d1285d, `data.find("sourmash_signature") > 0` alone): such a
path was taken for JSON text and the load failed; now it is a path -/
theorem path_sniff_old_variant :
    Py.detectInputTypeWith false (.str "/data/my_sourmash_signature.sig".toList true) = .buffer ∧
    Py.detectInputType (.str "/data/my_sourmash_signature.sig".toList true) = .path := by
  constructor
  · rw [sniff_str_with]; decide
  · exact sniff_absolute_path _

/- Remaining ambiguity of an API that takes text and file names in one `str` argument (not a finding:
   JSON text must win for strings that start with `[`): a relative file name that itself starts with
   `[` and contains the literal is read as text. -/
theorem sniff_bracket_name_residual :
    Py.detectInputType (.str "[x]_sourmash_signature.sig".toList true) = .buffer := by
  rw [sniff_str]; decide

/-! #### C09.4 (fixed d8387c1) — the Python loader returns what the Rust loader read -/

/-- **py_load_is_rust_load.**  For any recognised input `load_signatures_from_json` returns exactly the
signatures `signatures_load_buffer/_path` produced: no copy, no fresh envelope.  Hence class, email,
hash_function, filename, name (also an empty one, also one containing NUL), license and version are
those of the file. -/
theorem py_load_is_rust_load {i : Py.LoadIn} {d : Doc} (he : i.empty = false)
    (hu : Py.detectInputType i.data ≠ .unknown) (hd : docFor i = some d)
    (ksize : Option Nat) (m : Option String) (raise : Bool) {l : List Sig}
    (hl : ffiLoad (some d) (ksize.getD 0) m = .ok l) :
    Py.loadFromJson i ksize m raise = .ok l := by
  apply loadFromJson_of_doc he hu hd ksize m raise
  simp only [bind, Except.bind, hl, finishLoad_id]

/-- without a filter: the decoded signatures, one per sketch, envelope repeated -/
theorem py_load_keeps_envelope {i : Py.LoadIn} {d : Doc} {sigs : List Sig} (he : i.empty = false)
    (hu : Py.detectInputType i.data ≠ .unknown) (hd : docFor i = some d) (hdec : decodeDoc d = .ok sigs)
    (raise : Bool) : Py.loadFromJson i none none raise = .ok (flatten sigs) := by
  have := py_load_is_rust_load he hu hd none none raise (l := loadSignatures none none sigs) (ffiLoad_all hdec)
  rw [loadSignatures_none] at this
  exact this

theorem flatten_license (sigs : List Sig) :
    (flatten sigs).map (·.license) = sigs.flatMap (fun s => s.sketches.map (fun _ => s.license)) := by
  unfold flatten
  induction sigs with
  | nil => rfl
  | cons s ss ih =>
    simp only [List.flatMap_cons, List.map_append, List.map_map]
    rw [ih]
    rfl

/-- **loaded_license**: the license a loaded signature reports is the one in the file -/
theorem loaded_license {i : Py.LoadIn} {d : Doc} {sigs : List Sig} (he : i.empty = false)
    (hu : Py.detectInputType i.data ≠ .unknown) (hd : docFor i = some d) (hdec : decodeDoc d = .ok sigs)
    (raise : Bool) :
    ∃ r, Py.loadFromJson i none none raise = .ok r ∧
      r.map (·.license) = sigs.flatMap (fun s => s.sketches.map (fun _ => s.license)) :=
  ⟨_, py_load_keeps_envelope he hu hd hdec raise, flatten_license sigs⟩

/-- a file that says "CC-BY" loads as "CC-BY" -/
theorem license_file_now :
    (decodeDoc [sig0 [sk0] "CC-BY"]).toOption.map (fun l => (flatten l).map (·.license)) = some ["CC-BY"] := rfl

/-- regression (the variant before d8387c1, `yield sig.to_frozen()`): the loader copied every signature
into a fresh envelope, so the same file loaded with the default license (and class, email, version,
hash_function); names were also cut at NUL and an empty name became "no name" -/
theorem license_old_variant :
    ((decodeDoc [sig0 [sk0] "CC-BY"]).toOption.bind (fun l => (Py.finishLoadWith true (flatten l)).toOption)).map
      (fun l => l.map (·.license)) = some ["CC0"] := rfl

/-! ### (D) the JSON text itself

`Model/JsonText.lean` brings the text inside the model: a one-pass lexer, a tree parser that stops
at the first syntax error, serde's derived readers walked in document order (any key order, unknown
keys ignored, duplicates refused, defaults, map or sequence form, the untagged `Sketch` enum with
its recursion limit), and the compact printer with serde_json's escaping.  `renderDoc` is compared
BYTE FOR BYTE with what `save_signatures_to_json` writes on every `save` of the correspondence
stream; `readText` is compared with the real loader on generated and damaged texts. -/

/-- every string -- any sequence of Unicode scalar values, control characters, quotes, backslashes,
astral planes -- survives escaping and unescaping -/
theorem string_escape_roundtrip (s : List Char) :
    JsonText.lex (JsonText.printToks [.str s]) = [.str s] :=
  JsonText.lex_printToks _ (by intro t ht; simp only [List.mem_singleton] at ht; subst ht; trivial) trivial

/-- every unsigned 64-bit integer is written in decimal and read back exactly -/
theorem uint_roundtrip (n : Nat) (h : n < 2 ^ 64) :
    JsonText.lex (JsonText.printToks [.num (.nat n)]) = [.num (.nat n)] :=
  JsonText.lex_printToks _ (by
    intro t ht; simp only [List.mem_singleton] at ht; subst ht; exact JsonText.numOk_nat h) trivial

/-- an integer literal beyond 2^64-1 is not an integer for the reader (serde_json hands it over as a
float, which no `u64` field accepts) -/
theorem uint_beyond_u64 (n : Nat) (h : ¬ n < 2 ^ 64) :
    JsonText.classifyNum (Nat.toDigits 10 n) = some (.other (Nat.toDigits 10 n)) := by
  rw [JsonText.classifyNum_toDigits, if_neg h]

/-- print, lex, parse: any tree without error nodes whose number tokens are well-formed comes back -/
theorem tree_text_roundtrip (v : JsonText.JV) (h : v.Good) :
    JsonText.parseTop (JsonText.lex (JsonText.printJV v)) = ⟨v, [], true⟩ :=
  JsonText.parse_lex_print v h

/-- **text_roundtrip (parse ∘ render = id).**  For every list of well-formed signatures -- names,
filenames and every other string arbitrary, hashes and abundances up to 2^64-1, empty sketches,
several sketches per signature, several signatures per file -- reading the rendered text succeeds
and yields the signatures (md5 caches empty), whatever string `md5hex` puts into the md5sum fields. -/
theorem text_roundtrip (md5hex : Digest → List Char) {sigs : List Sig} (hw : ∀ s ∈ sigs, WF s)
    (hv : ∀ s ∈ sigs, JsonText.VerTok s.version) :
    JsonText.readText (JsonText.renderDoc md5hex sigs) = .ok (sigs.map (Sig.afterLoad false), 0) := by
  have ht : Gen.md5TrustedFromFile = false := rfl
  unfold JsonText.readText
  rw [ht]
  exact JsonText.readText_renderDoc md5hex _ (fun s hs => (hw s hs).encodable) hv

/-- ... equal to what was written in every field the statement lists -/
theorem text_roundtrip_same (md5hex : Digest → List Char) {sigs : List Sig} (hw : ∀ s ∈ sigs, WF s)
    (hv : ∀ s ∈ sigs, JsonText.VerTok s.version) :
    ∃ r, JsonText.readText (JsonText.renderDoc md5hex sigs) = .ok (r, 0) ∧ r.length = sigs.length ∧
      ∀ i (h1 : i < r.length) (h2 : i < sigs.length), Sig.Same r[i] sigs[i] := by
  refine ⟨_, text_roundtrip md5hex hw hv, by simp, ?_⟩
  intro i h1 h2
  simp only [List.getElem_map]
  exact afterLoad_same false (hw _ (List.getElem_mem h2))

/-- the text route and the field route of the model read the same signatures from a saved file -/
theorem text_route_eq_field_route (md5hex : Digest → List Char) {sigs : List Sig} (hw : ∀ s ∈ sigs, WF s)
    (hv : ∀ s ∈ sigs, JsonText.VerTok s.version) :
    (JsonText.readText (JsonText.renderDoc md5hex sigs)).map Prod.fst = decodeDoc (encodeDoc sigs) := by
  have ht : Gen.md5TrustedFromFile = false := rfl
  rw [text_roundtrip md5hex hw hv]
  unfold decodeDoc
  rw [ht, decodeDoc_encode false _ (fun s hs => (hw s hs).encodable)]
  rfl

/-- signatures built through the Python API carry the default version token, which is one -/
theorem normal_version_token {s : Sig} (h : PyNormal s) : JsonText.VerTok s.version := by
  rw [h.version]; exact JsonText.verTok_default

/-! #### what the reader does with texts that `save` does not write (kernel-checked samples; the
correspondence stream compares thousands of damaged texts with the real loader) -/

deriving instance DecidableEq for Except

def txt (s : String) : Except Err (List Sig × Nat) := JsonText.readText s.toList

/-- what the samples below look at: per signature (class, license + version, name, hashes of its sketches), and the
number of HyperLogLog sketches -/
def view (r : Except Err (List Sig × Nat)) : Option (List (String × String × Option String × List (List Nat)) × Nat) :=
  r.toOption.map (fun r => (r.1.map (fun s => (s.cls, s.license ++ "/" ++ s.version, s.name,
    s.sketches.map (fun k => k.mh.mins))), r.2))

set_option synthInstance.maxSize 2000 in
/-- keys in any order, unknown keys (also repeated, also deeply nested) ignored, defaults for the
missing optional ones, white space between tokens -/
theorem text_any_key_order :
    view (txt " [ {\"zz\":[[[1]]],\"signatures\":[{\"num\":0,\"ksize\":21,\"seed\":42,\"max_hash\":1,\"mins\":[1],\"md5sum\":\"x\",\"molecule\":\"dna\"}],\"zz\":null,\n\"hash_function\":\"h\"} ]\n") =
      some ([("sourmash_signature", "CC0/0.4", none, [[1]])], 0) := by decide +kernel

/-- duplicate known keys, missing required keys, integers beyond u64 / floats / negative numbers in
integer positions, leading zeros, trailing characters, lone surrogates: serde errors -/
theorem text_refused :
    txt "[{\"hash_function\":\"h\",\"hash_function\":\"h\",\"signatures\":[]}]" = .error .serde ∧
    txt "[{\"signatures\":[]}]" = .error .serde ∧
    txt "[{\"hash_function\":\"h\",\"signatures\":[{\"num\":0,\"ksize\":21,\"seed\":42,\"max_hash\":1,\"mins\":[18446744073709551616],\"md5sum\":\"x\",\"molecule\":\"dna\"}]}]" = .error .serde ∧
    txt "[{\"hash_function\":\"h\",\"signatures\":[{\"num\":0,\"ksize\":21,\"seed\":42,\"max_hash\":1,\"mins\":[1.0],\"md5sum\":\"x\",\"molecule\":\"dna\"}]}]" = .error .serde ∧
    txt "[{\"hash_function\":\"h\",\"signatures\":[{\"num\":0,\"ksize\":21,\"seed\":42,\"max_hash\":1,\"mins\":[-0],\"md5sum\":\"x\",\"molecule\":\"dna\"}]}]" = .error .serde ∧
    txt "[{\"hash_function\":\"h\",\"signatures\":[{\"num\":0,\"ksize\":21,\"seed\":42,\"max_hash\":1,\"mins\":[01],\"md5sum\":\"x\",\"molecule\":\"dna\"}]}]" = .error .serde ∧
    txt "[{\"hash_function\":\"h\",\"signatures\":[]}] x" = .error .serde ∧
    txt "[{\"hash_function\":\"\\ud83d\",\"signatures\":[]}]" = .error .serde := by decide +kernel

/-- streaming order: a sketch with an unknown molecule panics before a LATER syntax error is seen,
but a syntax error inside that sketch (which is buffered first) wins -/
theorem text_panic_before_later_error :
    txt "[{\"hash_function\":\"h\",\"signatures\":[{\"num\":0,\"ksize\":21,\"seed\":42,\"max_hash\":1,\"mins\":[1],\"md5sum\":\"x\",\"molecule\":\"rna\"}], @@@" = .error .panic ∧
    txt "[{\"hash_function\":\"h\",\"signatures\":[{\"num\":0,\"ksize\":21,\"seed\":42,\"max_hash\":1,\"mins\":[1],\"md5sum\":\"x\",\"molecule\":\"rna\", @@@" = .error .serde := by decide +kernel

set_option synthInstance.maxSize 2000 in
/-- serde also accepts the sequence forms of both records -/
theorem text_sequence_forms :
    view (txt "[[\"c\",\"\",\"h\",null,\"n\",\"L\",[[0,21,42,1,\"x\",[1],null,\"DNA\"]]]]") =
      some ([("c", "L/0.4", some "n", [[1]])], 0) := by decide +kernel

/-! ### (E) other sketch types in a signature file -/

def hllTxt : String := "[{\"hash_function\":\"h\",\"signatures\":[{\"registers\":[0,255],\"p\":1,\"q\":63,\"ksize\":21}]}]"

set_option synthInstance.maxSize 2000 in
theorem hll_read : view (txt hllTxt) = some ([("sourmash_signature", "CC0/0.4", none, [])], 1) := by decide +kernel

/-- a HyperLogLog sketch is accepted by the reader (third variant of the untagged enum) -- and then
`load_signatures` panics on it (`Sketch::HyperLogLog(_) => unimplemented!()`): through the FFI such
a file raises `Panic`, with or without a filter, by buffer or by path.  Neither skipped nor loaded. -/
theorem hll_accepted_then_panics {cs : List Char} {sigs : List Sig} {n : Nat}
    (hr : JsonText.readText cs = .ok (sigs, n)) (hn : n ≠ 0)
    (viaPath : Bool) (b : List Nat) (g1 g2 : JsonText.Stream) (k : Nat)
    (hs : JsonText.nifflerSniff b = some .none) (hu : JsonText.utf8Text b = some cs) :
    JsonText.ffiLoadBytes viaPath b g1 g2 k none = .error .panic := by
  unfold JsonText.ffiLoadBytes JsonText.nifflerLayer
  cases viaPath <;>
    simp [hs, bind, Except.bind, pure, Except.pure, JsonText.readStream, hu, hr, hn]

/-- registers must be bytes: otherwise no variant matches -/
theorem hll_bad_registers :
    txt "[{\"hash_function\":\"h\",\"signatures\":[{\"registers\":[0,256],\"p\":1,\"q\":63,\"ksize\":21}]}]" = .error .serde := by
  decide +kernel

/-! ### (F) compression: decided by the first bytes, never by the file name -/

theorem niffler_needs_five_bytes (b : List Nat) (h : b.length < 5) : JsonText.nifflerSniff b = none := by
  match b, h with
  | [], _ => rfl
  | [_], _ => rfl
  | [_, _], _ => rfl
  | [_, _, _], _ => rfl
  | [_, _, _, _], _ => rfl
  | _ :: _ :: _ :: _ :: _ :: _, h => simp at h; omega

theorem niffler_gzip (b2 b3 b4 : Nat) (r : List Nat) :
    JsonText.nifflerSniff (0x1f :: 0x8b :: b2 :: b3 :: b4 :: r) = some .gzip := by
  simp [JsonText.nifflerSniff]

/-- a JSON text (it starts with `[` or white space) of five bytes or more is read as it is -/
theorem niffler_plain (b0 b1 b2 b3 b4 : Nat) (r : List Nat) (h : b0 = 0x5b ∨ b0 = 0x20 ∨ b0 = 0x0a) :
    JsonText.nifflerSniff (b0 :: b1 :: b2 :: b3 :: b4 :: r) = some .none := by
  rcases h with rfl | rfl | rfl <;> simp [JsonText.nifflerSniff]

/-- bzip2 / zstd / xz are recognised and refused (only `gz` is compiled in), a file shorter than
five bytes is refused: NifflerError in each case -/
theorem niffler_refused :
    JsonText.nifflerLayer ⟨[0x42, 0x5a, 0x68, 0x39, 0x31], false⟩ ⟨[], false⟩ = .error .niffler ∧
    JsonText.nifflerLayer ⟨[0x28, 0xb5, 0x2f, 0xfd, 0x00], false⟩ ⟨[], false⟩ = .error .niffler ∧
    JsonText.nifflerLayer ⟨[0xfd, 0x37, 0x7a, 0x58, 0x5a], false⟩ ⟨[], false⟩ = .error .niffler ∧
    JsonText.nifflerLayer ⟨[0x5b, 0x5d], false⟩ ⟨[], false⟩ = .error .niffler := ⟨rfl, rfl, rfl, rfl⟩

/-- `signatures_load_path` sniffs twice (`niffler::from_path`, then `Signature::from_reader`),
`signatures_load_buffer` once: a doubly gzipped file loads by path and is a serde error as a buffer -/
theorem path_sniffs_twice (gzgz gz : List Nat) (text : List Char) (sigs : List Sig)
    (h1 : JsonText.nifflerSniff gzgz = some .gzip) (h2 : JsonText.nifflerSniff gz = some .gzip)
    (hu : JsonText.utf8Text gz = none)                -- compressed bytes are not UTF-8 text
    (ht : JsonText.readStream ⟨text.map Char.toNat, false⟩ = .ok (sigs, 0)) :
    JsonText.ffiLoadBytes false gzgz ⟨gz, false⟩ ⟨text.map Char.toNat, false⟩ 0 none = .error .serde ∧
    JsonText.ffiLoadBytes true gzgz ⟨gz, false⟩ ⟨text.map Char.toNat, false⟩ 0 none =
      .ok (loadSignatures none none sigs) := by
  constructor
  · simp [JsonText.ffiLoadBytes, JsonText.nifflerLayer, h1, bind, Except.bind, pure, Except.pure,
      JsonText.readStream, hu]
  · simp [JsonText.ffiLoadBytes, JsonText.nifflerLayer, h1, h2, bind, Except.bind, pure, Except.pure, ht]

/-- a gzip stream that breaks off is a text followed by an error: SerdeError -- unless it breaks within
its first five bytes and is read by path, where the second sniff reports it (NifflerError) -/
theorem damaged_gzip (gz : List Nat) (part : List Nat) (h1 : JsonText.nifflerSniff gz = some .gzip)
    (hp : part.length < 5) :
    JsonText.ffiLoadBytes true gz ⟨part, true⟩ ⟨[], false⟩ 0 none = .error .niffler := by
  simp [JsonText.ffiLoadBytes, JsonText.nifflerLayer, h1, niffler_needs_five_bytes part hp, bind, Except.bind,
    pure, Except.pure]

/-! ### (G) pickling is a state tuple and a constructor call -/

/-- `pickle.loads(pickle.dumps(mh))` = `__setstate__(__getstate__())`; the state is
`(num, stored ksize, is_protein, dayhoff, hp, hashes, None, track_abundance, max_hash, seed)` -/
theorem pickle_is_state_roundtrip (m : MH) : Py.pickleMH m = (Py.getState m).map Py.ofState :=
  pickleMH_eq_state m

/-- the state of a valid sketch: its parameters, flags and (hash, abundance) pairs -- abundances included -/
theorem state_of_valid_sketch {m : MH} (h : PyStable m) :
    Py.getState m = .ok { num := m.num, ksize := m.ksize, isProtein := m.hf == 2, dayhoff := m.hf == 3,
                          hp := m.hf == 4, hashes := m.pairs, track := m.trackAbundance, maxHash := m.maxHash,
                          seed := m.seed } :=
  getState_stable h

/-- the md5 cache is NOT carried over, for any sketch (valid or not, stale cache or not): what is
unpickled starts with an empty cache, so its md5 is computed from its own content (C11) -/
theorem pickle_md5_not_carried {m m' : MH} (h : Py.pickleMH m = .ok m') : m'.md5 = none :=
  pickleMH_md5_none h

theorem unpickled_md5_valid {m m' : MH} (h : Py.pickleMH m = .ok m') : m'.md5sum.2 = ⟨m'.ksize, m'.mins⟩ :=
  C11.md5sum_eq_digest (Or.inl (pickleMH_md5_none h))

/-- `SourmashSignature.__reduce__`: `(SourmashSignature, (minhash, name, filename))` -/
theorem pickle_sig_is_state (s : Sig) : Py.pickleSig s = (Py.reduceSig s).map Py.ofSigState :=
  pickleSig_eq_state s

/-- an unpickled signature holds one sketch with a valid md5 cache and no string from a file -/
theorem unpickled_sig_cache_ok {s s' : Sig} (h : Py.pickleSig s = .ok s') : ∀ sk ∈ s'.sketches, sk.CacheOK := by
  rw [pickleSig_eq_state] at h
  cases hr : Py.reduceSig s with
  | error e => rw [hr] at h; cases h
  | ok st =>
    rw [hr] at h
    injection h with h
    subst h
    intro sk hsk
    unfold Py.ofSigState at hsk
    rw [mkSig_eq] at hsk
    simp only [List.mem_singleton] at hsk
    subst hsk
    have hm := ofState_md5_none st.minhash
    refine ⟨?_, Or.inr ?_⟩
    · simp [Sk.touch, Sk.md5sum, Sk.ofMH]
    · simp [Sk.touch, Sk.md5sum, Sk.ofMH, MH.md5sum, hm, MH.digest]

/- FULL STATEMENT (not proved / false):
     theorem copy_unchanged (s : Sig) (sk : Sk) (h : s.sketches = [sk]) : ∃ s', Py.copySig s = .ok s' ∧ Sig.Same s' s
   ("signatures survive pickling and copying unchanged", for EVERY signature object.)
   False for a signature whose envelope is not the default one -- which since d8387c1 is what
   loading a foreign file gives: `__copy__` / `to_mutable` / `__reduce__` pass only
   `(minhash, name, filename)` to the constructor, so license, class, email, version and
   hash_function are reset (and a name is cut at NUL).  True for every signature the Python API
   can build (`copy_eq_sig`, `pickle_roundtrip_sig`: `PyNormal`).  Finding C09.5. -/
theorem copy_resets_license_counterexample :
    ∃ s s', (decodeDoc [sig0 [sk0] "CC-BY"]).toOption = some [s] ∧ s.license = "CC-BY" ∧
      Py.copySig s = .ok s' ∧ s'.license = "CC0" ∧
      ∃ s'', Py.pickleSig s = .ok s'' ∧ s''.license = "CC0" :=
  ⟨_, _, rfl, rfl, rfl, rfl, _, rfl, rfl⟩

/- FULL STATEMENT (not proved / false): `copy_unchanged` above, for a signature holding SEVERAL sketches
   (`SourmashSignature.from_params(ComputeParameters(ksizes=[21, 31]))`; saving it writes both sketches into
   one record): `__copy__` / `to_mutable` / `to_frozen` / `__reduce__` read `self.minhash`, i.e.
   `signature_first_mh`, so every sketch but the first is dropped.  Finding C09.6. -/
theorem copy_drops_sketches_counterexample :
    let s := Py.fromParams [21, 31] 1 0 42 false
    s.sketches.length = 2 ∧ (encodeDoc [s]).map (fun r => match r.signatures with | .val l => l.length | _ => 0) = [2] ∧
    (Py.copySig s).toOption.map (fun c => c.sketches.length) = some 1 ∧
    (Py.pickleSig s).toOption.map (fun c => c.sketches.length) = some 1 := by
  decide

/-- ... while saving and loading such a signature keeps every sketch (one signature per sketch) -/
theorem multi_sketch_file_roundtrip :
    ((decodeDoc (encodeDoc [Py.fromParams [21, 31] 1 0 42 false])).toOption.map
      (fun l => (loadSignatures none none l).map (fun s => s.sketches.map (fun k => k.mh.ksize)))) = some [[21], [31]] := by
  decide

/- FULL STATEMENT (not proved / false):
     theorem text_file_object (i : Py.LoadIn) k m raise : Py.loadFromTextTemp i k m raise = Py.loadFromJson i k m raise
   (reading back "via file object": a text-mode file object is as good as a binary one.)  False while
   `Gen.textWrapperDropped = true`: `load_signatures_from_json(open(path))` rebinds `data = data.buffer`,
   the text wrapper -- to which nobody else refers -- is finalised, which closes the buffer, and the read
   raises `ValueError: read of closed file` (without `do_raise`: an empty result).  It holds when the caller
   keeps the file object alive (`with open(path) as fp:`), which is `Py.loadFromJson`.  Finding C09.8. -/
theorem text_file_object_counterexample (h : Gen.textWrapperDropped = true) (i : Py.LoadIn)
    (k : Option Nat) (m : Option String) :
    Py.loadFromTextTemp i k m true = .error .value ∧ Py.loadFromTextTemp i k m false = .ok [] := by
  simp [Py.loadFromTextTemp, h]

/-- `==` on signatures: class, email, hash_function, filename, name and the md5 of the first sketch -/
theorem sig_eq_after_roundtrip {s : Sig} {sk : Sk} (hsk : s.sketches = [sk]) (t : Bool) (hc : sk.CacheOK) :
    Py.sigEq s (s.afterLoad t) = .ok true := by
  have ho := Sk.obs_afterLoad t sk (fun _ => hc)
  have hmd : (sk.afterLoad t).md5sum.2 = sk.md5sum.2 := by
    have h3 : (sk.afterLoad t).obs.2 = sk.obs.2 := by rw [ho]
    exact h3
  simp [Py.sigEq, Sig.afterLoad, hsk, hmd]

/-! ### the translator's tables are the ones the model was written against -/

theorem written_fields :
    Gen.skWritten.map (fun t => (t.1, t.2.2)) =
      [("num", false), ("ksize", false), ("seed", false), ("max_hash", false), ("mins", false),
       ("md5sum", false), ("abundances", true), ("molecule", false)] := by decide

theorem read_fields :
    Gen.skRead = [("num", "u32"), ("ksize", "u32"), ("seed", "u64"), ("max_hash", "u64"), ("md5sum", "String"),
                  ("mins", "Vec<u64>"), ("abundances", "Option<Vec<u64>>"), ("molecule", "String")] := by decide

theorem envelope_fields :
    Gen.sigFields.map (fun t => (t.1, t.2.2)) =
      [("class", "default:default_class"), ("email", "default"), ("hash_function", "required"),
       ("filename", "option"), ("name", "option-skip-none"), ("license", "default:default_license"),
       ("signatures", "required"), ("version", "default:default_version")] := by decide

/-- every molecule name that is written is read back as the same hash function, and the moltype
filter understands the same names -/
theorem molecule_tables_agree :
    ∀ hf ∈ [1, 2, 3, 4], parseMolecule (Sk.molName hf) = .ok hf ∧ parseMoltype (Sk.molName hf) = .ok hf := by
  intro hf h
  simp only [List.mem_cons, List.mem_nil_iff, or_false] at h
  rcases h with rfl | rfl | rfl | rfl <;> exact ⟨rfl, rfl⟩

/-! ### non-vacuity -/

/-- a well-formed protein sketch (k = 7, scaled = 1) with abundances up to 2^64-1, a valid cache -/
def exSk : Sk :=
  Sk.ofMH { num := 0, maxHash := 18446744073709551615, ksize := 21, seed := 42, hf := 2,
            mins := [0, 5, 18446744073709551615], abunds := some [1, 3, 18446744073709551615],
            md5 := some ⟨21, [0, 5, 18446744073709551615]⟩ }

def exSig : Sig := Py.mkSig exSk "a\"b,\nא😀" "f"

example : WFSk exSk := by
  refine ⟨⟨?_, ?_, ?_, ?_, ?_⟩, Or.inl rfl, by decide, by decide, by decide, by decide, ?_, ?_, by decide, ⟨rfl, Or.inr rfl⟩⟩
  · show Sorted [0, 5, 18446744073709551615]; unfold Sorted; decide
  · intro ab h; injection h with h; subst h; rfl
  · intro ab h; injection h with h; subst h; decide
  · intro _; decide
  · intro h; exact absurd rfl h
  · decide
  · intro ab h; injection h with h; subst h; decide

example : PyNormal exSig := mkSig_normal exSk (by decide) (by decide)

example : (decodeDoc (encodeDoc [exSig])).toOption.map (fun l => l.map Sig.obs) = some [exSig.obs] := rfl

example : (Py.pickleMH exSk.mh).toOption = some { exSk.mh with md5 := none } := by decide

example : (Py.copyMH exSk.mh).toOption = some { exSk.mh with md5 := none } := by decide

end Sm.C09
