import SmVerif.Lemmas.MinHashInv
namespace Sm.C03
open Sm MH
theorem upsample_refused (s : MH) (sc : Nat) (h0 : s.scaled ≠ 0) (h : sc < s.scaled) :
    s.downsampleScaled sc = .error .upsample := by
  unfold MH.downsampleScaled
  have h1 : ¬ (s.scaled = sc ∨ s.scaled = 0) := by omega
  simp [h1, h]
theorem py_upsample_refused (s : MH) (sc : Nat) (hn : s.num = 0) (h : sc < Py.scaledProp s) :
    Py.downsample s none (some sc) = .error .pyValue := by
  simp [Py.downsample, Py.downsampleParams, hn, h]
end Sm.C03
