/-
C03 — downsampling equals sketching at the coarser resolution, for every scaled value.

Two groups of statements.

(A) content: downsampling keeps exactly the hashes at or below the new threshold
    with their counts, hence equals the sketch built directly at the coarser
    value from the same additions; it composes; upsampling is refused.
(B) numbers: for every scaled value `1 ≤ S ≤ 2^31` each of the conversion
    pipelines that exist in the code reports `S` back / reproduces the same
    threshold.  The arithmetic is the exact binary64 model (`Float64.lean`);
    which rounding each function uses comes from the translator (`Sm.Gen`).
    Above `2^31.5` the stored threshold no longer determines `S`
    (`large_scaled_counterexample`, known finding D22).

**finding**: `downsample_count` is false as first stated: the model's `maxHash` is an
unbounded `Nat`, and for a threshold far above the `u64` range (e.g. `2^66`) `scaled()`
rounds to 0, which `downsample_scaled` reads as "not a scaled sketch" and returns the
input unchanged (`downsample_count_counterexample`).  It is proved with the extra hypothesis
`s.maxHash < 2^64` (`downsample_count_partial`); `downsample_eq_direct` and
`downsample_compose` are true as stated (thresholds produced by `mhR` are always `u64`).
-/
import SmVerif.Lemmas.Scaled

namespace Sm.C03

open Sm MH

/-! ### (A) content -/

/- FULL STATEMENT (not proved / false):
     theorem downsample_count {s r : MH} (hs : Inv s) (hn : s.num = 0) (hM : s.maxHash ≠ 0) (sc : Nat)
         (hlt : s.scaled < sc) (hne : mhR sc ≠ 0) (hr : s.downsampleScaled sc = .ok r) (x : Nat) :
         r.maxHash = mhR sc ∧ r.trackAbundance = s.trackAbundance ∧
         count r x = if x ≤ mhR sc then count s x else 0
   Counterexample (`downsample_count_counterexample`): the model's `maxHash` is an unbounded `Nat`
   and nothing above says it is a `u64`.  For `maxHash = 2^66`, `scaled()` computes
   `round(2^64 / 2^66) = 0`; `downsample_scaled` reads 0 as "not a scaled sketch" and returns the
   sketch unchanged, so `r.maxHash = 2^66 ≠ mhR 2`.
   Minimal correction: the hypothesis `hU : s.maxHash < 2 ^ 64` (the field is a `u64` in the
   code).  It is only used to get `s.scaled ≠ 0` (`scaled_ne_zero`, proved for every non-zero
   `u64` threshold from the rounding-error bounds). -/
theorem downsample_count_partial {s r : MH} (hs : Inv s) (hn : s.num = 0) (hM : s.maxHash ≠ 0)
    (hU : s.maxHash < 2 ^ 64) (sc : Nat)
    (hlt : s.scaled < sc) (hne : mhR sc ≠ 0) (hr : s.downsampleScaled sc = .ok r) (x : Nat) :
    r.maxHash = mhR sc ∧ r.trackAbundance = s.trackAbundance ∧
    count r x = if x ≤ mhR sc then count s x else 0 :=
  Sm.downsample_count' hs hn hM hU sc hlt hne hr x

/-- `scaled()` never reports 0 for a non-zero `u64` threshold -/
theorem scaled_ne_zero {s : MH} (hM : s.maxHash ≠ 0) (hU : s.maxHash < 2 ^ 64) : s.scaled ≠ 0 :=
  Sm.scaled_ne_zero hM hU

theorem downsample_count_counterexample :
    let s : MH := { num := 0, maxHash := 2 ^ 66, ksize := 21, seed := 42, hf := 1,
                    mins := [], abunds := none, md5 := none }
    Inv s ∧ s.num = 0 ∧ s.maxHash ≠ 0 ∧ s.scaled < 2 ∧ mhR 2 ≠ 0 ∧
    s.downsampleScaled 2 = .ok s ∧ s.maxHash ≠ mhR 2 := by
  intro s
  refine ⟨⟨?_, ?_, ?_, ?_, ?_⟩, ?_⟩
  · simp [s, Sorted]
  · intro ab h; cases h
  · intro ab h; cases h
  · intro _ x hx; cases hx
  · intro h; exact absurd rfl h
  · decide +kernel

/-- downsampling a sketch of some additions equals sketching the same additions
directly at the coarser value -/
theorem downsample_eq_direct (k hf seed : Nat) (tr : Bool) (S1 S2 : Nat) (ps : List (Nat × Nat))
    (hpos : ∀ p ∈ ps, 0 < p.2) (h1 : mhR S1 ≠ 0) (h2 : mhR S2 ≠ 0) (hle : mhR S2 ≤ mhR S1)
    (hlt : scR (mhR S1) < S2) {r : MH}
    (hr : ((MH.new S1 k hf seed tr 0).addManyAb ps).downsampleScaled S2 = .ok r) :
    r.mins = ((MH.new S2 k hf seed tr 0).addManyAb ps).mins ∧
    r.abunds = ((MH.new S2 k hf seed tr 0).addManyAb ps).abunds ∧
    r.maxHash = mhR S2 :=
  Sm.downsample_eq_direct' k hf seed tr S1 S2 ps hpos h1 h2 hle hlt hr

/-- downsampling composes -/
theorem downsample_compose {s r1 r2 r3 : MH} (hs : Inv s) (hn : s.num = 0) (hM : s.maxHash ≠ 0)
    (S2 S3 : Nat) (h12 : s.scaled < S2) (h23 : r1.scaled < S3) (h13 : s.scaled < S3)
    (hne2 : mhR S2 ≠ 0) (hne3 : mhR S3 ≠ 0) (hle : mhR S3 ≤ mhR S2)
    (hr1 : s.downsampleScaled S2 = .ok r1) (hr2 : r1.downsampleScaled S3 = .ok r2)
    (hr3 : s.downsampleScaled S3 = .ok r3) :
    r2.mins = r3.mins ∧ r2.abunds = r3.abunds ∧ r2.maxHash = r3.maxHash :=
  Sm.downsample_compose' hs hn hM S2 S3 h12 h23 h13 hne2 hne3 hle hr1 hr2 hr3

/-- requests to increase resolution are refused (Rust) -/
theorem upsample_refused (s : MH) (sc : Nat) (h0 : s.scaled ≠ 0) (h : sc < s.scaled) :
    s.downsampleScaled sc = .error .upsample := by
  unfold MH.downsampleScaled
  have h1 : ¬ (s.scaled = sc ∨ s.scaled = 0) := by omega
  simp [h1, h]

/-- ... and by the Python layer -/
theorem py_upsample_refused (s : MH) (sc : Nat) (hn : s.num = 0) (h : sc < Py.scaledProp s) :
    Py.downsample s none (some sc) = .error .pyValue := by
  simp [Py.downsample, Py.downsampleParams, hn, h]

/-- a num sketch downsampled to a smaller num is the first `n` entries (content part:
    see `C01.num_add_take`); a larger num is refused -/
theorem py_num_upsample_refused (s : MH) (n : Nat) (hs : Py.scaledProp s = 0) (h : s.num < n) :
    Py.downsample s (some n) none = .error .pyValue := by
  simp [Py.downsample, Py.downsampleParams, hs, h]

/-! ### (B) every scaled value `1 ≤ S ≤ 2^31` survives every conversion pipeline -/

/-- thresholds are antitone in `scaled` -/
theorem mh_antitone {S1 S2 : Nat} (h1 : 1 ≤ S1) (h : S1 ≤ S2) (h2 : S2 ≤ 2 ^ 32) : mhR S2 ≤ mhR S1 :=
  Sm.mhR_antitone h1 h h2

theorem mh_pos {S : Nat} (h1 : 1 ≤ S) (h2 : S ≤ 2 ^ 32) : mhR S ≠ 0 :=
  Sm.mhR_pos h1 h2

/-- P2: a sketch created with scaled `S` reports `S` through the Python property -/
theorem py_reports_S {S : Nat} (h1 : 1 ≤ S) (h2 : S ≤ 2 ^ 31) : scP (mhR S) = S :=
  Sm.scP_mhR h1 h2

/-- P3: ... and through the Rust accessor used by every implicit downsampling path
(`count_common/similarity(downsample)`, `downsample_scaled`, selection, BTree conversion) -/
theorem rust_reports_S {S : Nat} (h1 : 1 ≤ S) (h2 : S ≤ 2 ^ 31) : scR (mhR S) = S :=
  Sm.scR_mhR h1 h2

/-- P4: copy / pickle / flatten / to_mutable rebuild the same threshold -/
theorem py_copy_stable {S : Nat} (h1 : 1 ≤ S) (h2 : S ≤ 2 ^ 31) : mhR (scP (mhR S)) = mhR S := by
  rw [py_reports_S h1 h2]

/-- P5: Python `downsample(scaled=S)` lands on the threshold of a sketch created at `S` -/
theorem py_downsample_exact {S : Nat} (h1 : 1 ≤ S) (h2 : S ≤ 2 ^ 31) : mhR (scP (mhP S)) = mhR S := by
  rw [Sm.scP_mhP h1 h2]

/-- P6: BTree -> Vec conversion (`KmerMinHash::new(other.scaled(), ..)`) keeps the threshold -/
theorem btree_conv_stable {S : Nat} (h1 : 1 ≤ S) (h2 : S ≤ 2 ^ 31) : mhR (scR (mhR S)) = mhR S := by
  rw [rust_reports_S h1 h2]

/-- **D22 (known finding).** Above 2^31.5 the threshold no longer determines `S`. -/
theorem large_scaled_counterexample : scP (mhR 3039077545) = 3039077546 := by
  decide +kernel

/-! non-vacuity / spot checks evaluated by the kernel -/
example : mhR 93 = 198352086814081216 ∧ scP (mhR 93) = 93 ∧ scR (mhR 93) = 93 := by decide +kernel

end Sm.C03
