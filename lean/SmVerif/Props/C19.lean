/-
C19 — taxonomic summaries conserve the gather fractions at every rank.

Model: `SmVerif/Model/Tax.lean` (`summarize_up_ranks`, `build_summarized_result`,
`check_values`, `build_classification_result`, `get_ident`), parametrised by the arithmetic.

Part I (exact rationals, `ratA`): for every *valid gather result* `g` (`Gather.Valid`: what
gather guarantees about its own rows — `f_i = k_i/N`, `fw_i = w_i/W`, `bp_i = k_i*scaled`,
positive unique overlaps, `Σk ≤ N`, `Σw ≤ W`, everything found iff all weight found), every
taxonomy (lineages are arbitrary lists of optional names: missing ranks, any number of ranks,
matches without lineage), every rank:
  `never_rejected_exact`, `rank_sum`, `rank_sum_complete`, `conservation`, `bounds`,
  `parent_ge_children`, `order_independent`, `summary_never_rejected_exact`,
  `classification_lowest_rank`, `format_independent_writerOrder`, `get_ident_agree`.
All of Part I holds for the code as it is (`rp = none`) and for the tolerance repair of D18
(`rp = some p` with `0 ≤ tol < 1/N`, hypothesis `RepairOK`): the repair changes nothing over ℚ.

Part II (exact binary64 model, `f64`): the statement "valid gather output is never rejected"
is FALSE for the code as it is — kernel-checked counterexamples (`never_rejected_counterexample…`),
including order dependence of the rejection; what is provable of the unrepaired code is kept as
`bounds_partial`.  For the repaired comparison (`> 1 + FLOAT_TOLERANCE`, clamp, remainder `> FLOAT_TOLERANCE`)
the statement is proved: `never_rejected_repaired`, `summary_never_rejected_repaired`,
`classification_never_rejected_repaired`, and for the patch's constant 1e-9 `never_rejected_patch`
(up to 2^22 − 1 gather rows), from the rounding-error bounds in `Lemmas/Float64Err.lean`.
Two variants of the repair are modelled (`Repair.strict`): the non-strict one above, and the strict one of
`patches/C19-D18-tolerance-v2.diff` (keeps `f_weighted <= 0 -> error`, no clamp of the weighted remainder; the
project's unit tests stay as they are): `never_rejected_repaired_v2`, `summary_never_rejected_repaired_v2`,
`never_rejected_patch_v2` — under the extra explicit hypothesis `4·n·W·2^-53 < 1` (rows × total query abundance
< 2^51), proved from two-sided per-lineage bounds (`Lemmas/TaxFloat2.lean`).
Classification in binary64: `classification_lowest_rank_f64` (the loop picks a float-maximal lineage at the lowest rank
whose double meets the threshold; uses `GoodLt f64`, proved in `Lemmas/TaxFloatOrder.lean`), `float_argmax_is_exact_argmax`
(n·N < 2^53/3 ⇒ the float arg-max holds at least as many hashes as every other lineage; exact ties may go either way),
`float_threshold_vs_exact`.  Writers that format numbers: `percent_text_is_nearest`, `kreport_bp_within_one`,
`kreport_parent_short_by_at_most_one`, `kreport_truncation_example` (finding C19.1).  Several queries:
`multi_query_conservation`.
Which of the two shapes the source has is re-read by the translator on every run (`Sm.Gen.taxRepaired`)
and the executable model follows it (`Tax.f64Repair`).
-/
import SmVerif.Lemmas.TaxResult
import SmVerif.Lemmas.TaxKreport
import SmVerif.Lemmas.TaxMulti
import SmVerif.Lemmas.TaxSession
import SmVerif.Lemmas.TaxLoad

namespace Sm.C19

open Sm.Tax

set_option linter.unusedSectionVars false
set_option linter.unusedSimpArgs false
variable {ν : Type} [DecidableEq ν]

/-- the gather rows whose lineage lies under `L` at rank `r` (rank `r` filled, lineage cut at `r` = `L`) -/
abbrev underL (L : Lineage ν) (r : Nat) : GRow ν → Bool := under (fun K => decide (K = L)) r

/-! ## Part I — exact rationals -/

/-- over the rationals `check_values` never fires on a valid gather result -/
theorem never_rejected_exact (rp : Option (Repair ℚ)) (g : Gather ν) (hv : g.Valid) (hrp : RepairOK rp g.N) (r : Nat) :
    ∃ es, buildRank ratA rp g.qbp r (g.tbl r) = .ok es :=
  ⟨_, buildRank_valid rp g hv hrp r⟩

/-- **rank_sum**: the fraction, weighted fraction and base pairs reported for a lineage at a rank are
the sums over the gather matches whose lineage lies under it -/
theorem rank_sum (rp : Option (Repair ℚ)) (g : Gather ν) (hv : g.Valid) (hrp : RepairOK rp g.N) (r : Nat) (es : List (Entry ℚ ν))
    (h : buildRank ratA rp g.qbp r (g.tbl r) = .ok es) (e : Entry ℚ ν) (he : e ∈ es) (hc : e.lin ≠ []) :
    e.f = (ksum (g.rows.filter (underL e.lin r)) : ℚ) / g.N ∧
    e.fw = (wsum (g.rows.filter (underL e.lin r)) : ℚ) / g.W ∧
    e.bp = ((ksum (g.rows.filter (underL e.lin r)) * g.scaled : Nat) : Int) := by
  rcases (mem_result rp g hv hrp r es h e).mp he with ⟨⟨L, a⟩, hx, rfl⟩ | hrem
  · refine ⟨entry_f g r L a hx, entry_fw g r L a hx, ?_⟩
    simp only [toEntry]
    exact_mod_cast entry_bp g r L a hx
  · exact absurd (rem_lin g r e hrem) hc

/-- … and every lineage some match lies under is reported -/
theorem rank_sum_complete (rp : Option (Repair ℚ)) (g : Gather ν) (hv : g.Valid) (hrp : RepairOK rp g.N) (r : Nat) (es : List (Entry ℚ ν))
    (h : buildRank ratA rp g.qbp r (g.tbl r) = .ok es) (x : GRow ν) (hx : x ∈ g.rows)
    (hf : (hasLineage x.lin && filledAt x.lin r) = true) :
    ∃ e ∈ es, e.lin = popTo x.lin r := by
  have hk : popTo x.lin r ∈ (g.tbl r).map Prod.fst := by
    unfold Gather.tbl
    rw [mem_keys]
    exact ⟨GRow.toQ g.N g.W g.scaled x, List.mem_map_of_mem hx, hf, rfl⟩
  obtain ⟨⟨L, a⟩, hm, hL⟩ := List.mem_map.mp hk
  exact ⟨toEntry r (L, a), (mem_result rp g hv hrp r es h _).mpr (Or.inl ⟨(L, a), hm, rfl⟩), hL⟩

/-- **conservation**: at every rank the classified entries plus the unclassified remainder account for
the whole query — fractions and weighted fractions sum to 1, base pairs to `query_bp` -/
theorem conservation (rp : Option (Repair ℚ)) (g : Gather ν) (hv : g.Valid) (hrp : RepairOK rp g.N) (r : Nat) (es : List (Entry ℚ ν))
    (h : buildRank ratA rp g.qbp r (g.tbl r) = .ok es) :
    (es.map (·.f)).sum = 1 ∧ (es.map (·.fw)).sum = 1 ∧ (es.map (·.bp)).sum = (g.qbp : Int) := by
  have hN : (0 : ℚ) < g.N := by exact_mod_cast hv.hN
  have hW : (0 : ℚ) < g.W := by exact_mod_cast hv.hW
  rw [buildRank_valid rp g hv hrp r] at h
  cases h
  have hp := sortDesc_perm ratA (g.tbl r)
  simp only [List.map_append, List.sum_append, sum_map_toEntry_f, sum_map_toEntry_fw, sum_map_toEntry_bp,
    tblF_perm hp, tblFw_perm hp, tblBp_perm hp]
  unfold Gather.rem
  by_cases hk : g.kAt r < g.N
  · simp only [hk, if_true, List.map_cons, List.map_nil, List.sum_cons, List.sum_nil, remainder]
    refine ⟨by ring, by ring, by ring⟩
  · have hk' : g.kAt r = g.N := le_antisymm (kAt_le g hv r) (not_lt.mp hk)
    simp only [hk, if_false, List.map_nil, List.sum_nil, add_zero]
    refine ⟨?_, ?_, ?_⟩
    · rw [tblF_eq, hk', div_self (ne_of_gt hN)]
    · rw [tblFw_eq, wAt_eq_of_kAt_eq g hv r hk', div_self (ne_of_gt hW)]
    · rw [tblBp_eq, hk']; rfl

/-- **bounds**: never more than 100 %, never negative (nor zero) -/
theorem bounds (rp : Option (Repair ℚ)) (g : Gather ν) (hv : g.Valid) (hrp : RepairOK rp g.N) (r : Nat) (es : List (Entry ℚ ν))
    (h : buildRank ratA rp g.qbp r (g.tbl r) = .ok es) (e : Entry ℚ ν) (he : e ∈ es) :
    0 < e.f ∧ e.f ≤ 1 ∧ 0 < e.fw ∧ e.fw ≤ 1 ∧ 0 ≤ e.bp ∧ e.bp ≤ (g.qbp : Int) := by
  have hN : (0 : ℚ) < g.N := by exact_mod_cast hv.hN
  have hW : (0 : ℚ) < g.W := by exact_mod_cast hv.hW
  rcases (mem_result rp g hv hrp r es h e).mp he with ⟨⟨L, a⟩, hx, rfl⟩ | hrem
  · have hg := good_tbl g hv r (L, a) hx
    refine ⟨hg.1, hg.2.1, hg.2.2.1, hg.2.2.2, ?_, ?_⟩
    · simp [toEntry]
    · simp only [toEntry, Gather.qbp]
      rw [entry_bp g r L a hx]
      have : ksum (g.rows.filter (underL L r)) ≤ g.N := le_trans (ksum_filter_le _ _) hv.kle
      exact_mod_cast Nat.mul_le_mul_right _ this
  · unfold Gather.rem at hrem
    split at hrem
    · rename_i hk
      simp at hrem
      subst hrem
      have hw := wAt_lt_of_kAt_lt g hv r hk
      simp only [remainder, tblF_eq, tblFw_eq, tblBp_eq, Gather.qbp]
      have h1 : (g.kAt r : ℚ) / g.N < 1 := by rw [div_lt_iff₀ hN, one_mul]; exact_mod_cast hk
      have h2 : (g.wAt r : ℚ) / g.W < 1 := by rw [div_lt_iff₀ hW, one_mul]; exact_mod_cast hw
      have h3 : (0 : ℚ) ≤ (g.kAt r : ℚ) / g.N := div_nonneg (by positivity) (le_of_lt hN)
      have h4 : (0 : ℚ) ≤ (g.wAt r : ℚ) / g.W := div_nonneg (by positivity) (le_of_lt hW)
      have h5 : g.kAt r * g.scaled ≤ g.N * g.scaled := Nat.mul_le_mul_right _ (le_of_lt hk)
      refine ⟨by linarith, by linarith, by linarith, by linarith, ?_, ?_⟩
      · have : ((g.kAt r * g.scaled : Nat) : Int) ≤ ((g.N * g.scaled : Nat) : Int) := by exact_mod_cast h5
        linarith
      · have : (0 : Int) ≤ ((g.kAt r * g.scaled : Nat) : Int) := by positivity
        linarith
    · cases hrem

/-- **parent_ge_children**: a lineage is never smaller than the sum of its reported children at any lower rank
(fraction, weighted fraction, base pairs) -/
theorem parent_ge_children (rp : Option (Repair ℚ)) (g : Gather ν) (hv : g.Valid) (hrp : RepairOK rp g.N) (r r' : Nat) (hr : r ≤ r')
    (es es' : List (Entry ℚ ν))
    (h : buildRank ratA rp g.qbp r (g.tbl r) = .ok es) (h' : buildRank ratA rp g.qbp r' (g.tbl r') = .ok es')
    (e : Entry ℚ ν) (he : e ∈ es) (hc : e.lin ≠ []) :
    ((childrenOf e.lin r es').map (·.f)).sum ≤ e.f ∧
    ((childrenOf e.lin r es').map (·.fw)).sum ≤ e.fw ∧
    ((childrenOf e.lin r es').map (fun c => (c.bp : ℚ))).sum ≤ (e.bp : ℚ) := by
  have hN : (0 : ℚ) < g.N := by exact_mod_cast hv.hN
  have hW : (0 : ℚ) < g.W := by exact_mod_cast hv.hW
  rcases (mem_result rp g hv hrp r es h e).mp he with ⟨⟨L, a⟩, hx, rfl⟩ | hrem
  · have himp : ∀ x ∈ g.rows, under (fun C => decide (popTo C r = L)) r' x = true → underL L r x = true :=
      fun x _ hxu => under_child_parent g hr L a hx x hxu
    have hk := ksum_filter_mono _ _ g.rows himp
    have hw := wsum_filter_mono _ _ g.rows himp
    simp only [toEntry]
    refine ⟨?_, ?_, ?_⟩
    · rw [children_sum rp g hv hrp r r' es' h' L projF (·.f) (fun _ => rfl), psum_f]
      rw [entry_f g r L a hx]
      exact div_le_div_of_nonneg_right (by exact_mod_cast hk) (le_of_lt hN)
    · rw [children_sum rp g hv hrp r r' es' h' L projFw (·.fw) (fun _ => rfl), psum_fw]
      rw [entry_fw g r L a hx]
      exact div_le_div_of_nonneg_right (by exact_mod_cast hw) (le_of_lt hW)
    · rw [children_sum rp g hv hrp r r' es' h' L projBp (fun c => (c.bp : ℚ)) (fun x => by simp [toEntry, projBp]), psum_bp]
      rw [entry_bp g r L a hx]
      push_cast
      exact mul_le_mul_of_nonneg_right (by exact_mod_cast hk) (by positivity)
  · exact absurd (rem_lin g r e hrem) hc

/-- **order_independent**: any permutation of the gather rows gives the same summarised table
(the same entries; only the relative order of equal fractions can differ) -/
theorem order_independent (rp : Option (Repair ℚ)) (g g' : Gather ν) (hv : g.Valid) (hrp : RepairOK rp g.N) (hre : g.Reorder g') (r : Nat) :
    ∃ es es', buildRank ratA rp g.qbp r (g.tbl r) = .ok es ∧ buildRank ratA rp g'.qbp r (g'.tbl r) = .ok es' ∧
      es'.Perm es := by
  refine ⟨_, _, buildRank_valid rp g hv hrp r, buildRank_valid rp g' (hre.valid hv) (by rw [hre.hN]; exact hrp) r, ?_⟩
  rw [rem_reorder hre r]
  apply List.Perm.append_right
  apply List.Perm.map
  exact ((sortDesc_perm ratA _).trans (tbl_perm hre r)).trans (sortDesc_perm ratA _).symm

/-- the whole of `build_summarized_result` (all summarized ranks) succeeds on a valid gather result, and its
per-rank parts are the `buildRank` results the theorems above speak about -/
theorem summary_never_rejected_exact (rp : Option (Repair ℚ)) (g : Gather ν) (hv : g.Valid) (hrp : RepairOK rp g.N) (nranks : Nat) :
    buildSummarized ratA rp g.qbp nranks g.toQ none =
      .ok ((summarizedRanks nranks g.toQ).map (fun r => (sortDesc ratA (g.tbl r)).map (toEntry r) ++ g.rem r)) := by
  unfold buildSummarized
  simp only
  generalize summarizedRanks nranks g.toQ = rs
  induction rs with
  | nil => rfl
  | cons r rs ih =>
    unfold mapMRanks
    have := buildRank_valid rp g hv hrp r
    unfold Gather.tbl at this
    rw [this, ih]
    rfl

/-! ### classification -/

/-- **classification_lowest_rank**: genome classification (containment threshold `thr`) reports a
best-supported lineage (no lineage of that rank has a larger summed fraction), at the lowest rank at which the
best-supported lineage meets the threshold: every lineage at every lower summarized rank is below it; when
no rank meets it, the answer is `below_threshold` at the highest summarized rank.  It fails only when no
match has a lineage at all. -/
theorem classification_lowest_rank (rp : Option (Repair ℚ)) (g : Gather ν) (hv : g.Valid) (hrp : RepairOK rp g.N) (nranks : Nat) (thr : ℚ) :
    match classify ratA rp nranks g.toQ none (some thr) true with
    | .error e => e = .noRanks ∧ summarizedRanks nranks g.toQ = []
    | .ok none => False
    | .ok (some c) =>
      c.rank ∈ summarizedRanks nranks g.toQ ∧
      (c.lin, (⟨c.f, c.fw, c.bp⟩ : Acc ℚ)) ∈ g.tbl c.rank ∧
      (∀ y ∈ g.tbl c.rank, y.2.f ≤ c.f) ∧
      (∀ r0 ∈ summarizedRanks nranks g.toQ, c.rank < r0 → ∀ y ∈ g.tbl r0, y.2.f < thr) ∧
      ((c.status = .match_ ∧ thr ≤ c.f) ∨
       (c.status = .below ∧ c.f < thr ∧ ∀ r0 ∈ summarizedRanks nranks g.toQ, c.rank ≤ r0)) := by
  unfold classify
  simp only [Bool.not_true, Bool.false_eq_true, if_false]
  cases hsr : summarizedRanks nranks g.toQ with
  | nil => simp
  | cons r0 rs =>
    simp only [List.isEmpty_cons, Bool.false_eq_true, if_false]
    rw [← hsr]
    set sr := summarizedRanks nranks g.toQ with hsrdef
    set l := sr.reverse.map (fun r => (r, sumAtRank ratA g.toQ r)) with hl
    have hmem : ∀ p ∈ l, p.1 ∈ sr ∧ p.2 = g.tbl p.1 := by
      intro p hp
      rw [hl, List.mem_map] at hp
      obtain ⟨r, hr, rfl⟩ := hp
      exact ⟨List.mem_reverse.mp hr, rfl⟩
    have hne : ∀ p ∈ l, p.2 ≠ [] := by
      intro p hp
      obtain ⟨h1, h2⟩ := hmem p hp
      rw [h2]; exact tbl_ne_nil_of_mem g nranks p.1 h1
    have hchk : ∀ p ∈ l, ∀ x ∈ p.2, checkValues ratA rp x.2.f x.2.fw = .ok (x.2.f, x.2.fw) := by
      intro p hp x hx
      obtain ⟨_, h2⟩ := hmem p hp
      rw [h2] at hx
      have := good_tbl g hv p.1 x hx
      exact checkValues_ok rp (fun p hp => (hrp p hp).2.1) _ _ this.1 this.2.1 this.2.2.1 this.2.2.2
    obtain ⟨c, hc1, hc2⟩ := classifyLoop_spec ratA ratA_goodLt thr l none hne rp hchk
    rw [hc1]
    have hlne : l ≠ [] := by
      rw [hl, hsr]; simp
    rcases hc2 with ⟨hnil, _⟩ | ⟨pre, post, r, t, x, st, hsplit, hcx, hxt, hmax, hpre, hst⟩
    · exact absurd hnil hlne
    · subst hcx
      have hrt : (r, t) ∈ l := by rw [hsplit]; simp
      obtain ⟨hr1, hr2⟩ := hmem (r, t) hrt
      simp only at hr1 hr2
      subst hr2
      -- order of the ranks in `l`: strictly descending
      have hsorted : l.Pairwise (fun p q => q.1 < p.1) := by
        rw [hl, List.pairwise_map, List.pairwise_reverse]
        exact summarizedRanks_sorted nranks g.toQ
      rw [hsplit, List.pairwise_append] at hsorted
      obtain ⟨_, hpost, hcross⟩ := hsorted
      have hpost' := (List.pairwise_cons.mp hpost).1
      simp only [clsOf]
      refine ⟨hr1, hxt, ?_, ?_, ?_⟩
      · intro y hy
        have := hmax y hy
        simpa using this
      · intro r1 hr1m hlt y hy
        -- r1 is in `l`, hence in pre (it is larger than r)
        have hin : (r1, g.tbl r1) ∈ l := by
          rw [hl, List.mem_map]; exact ⟨r1, List.mem_reverse.mpr hr1m, rfl⟩
        rw [hsplit, List.mem_append, List.mem_cons] at hin
        rcases hin with hin | hin | hin
        · have := hpre _ hin y hy
          simpa using this
        · have : r1 = r := (Prod.mk.inj hin).1
          omega
        · have := hpost' _ hin
          simp only at this
          omega
      · rcases hst with ⟨rfl, hge⟩ | ⟨rfl, hlt, hpostnil⟩
        · left; exact ⟨rfl, by simpa using hge⟩
        · right
          refine ⟨rfl, by simpa using hlt, ?_⟩
          intro r1 hr1m
          have hin : (r1, g.tbl r1) ∈ l := by
            rw [hl, List.mem_map]; exact ⟨r1, List.mem_reverse.mpr hr1m, rfl⟩
          rw [hsplit, hpostnil, List.mem_append, List.mem_singleton] at hin
          rcases hin with hin | hin
          · have := hcross _ hin (r, g.tbl r) (by simp)
            simp only at this
            omega
          · have : r1 = r := (Prod.mk.inj hin).1
            omega

/-- **a second identical `build_summarized_result()` is idempotent** (any arithmetic): totals and result lists are
rebuilt from the per-rank sums on every call, so building again on the same object — without `force_resummarize`, or
with it — returns the same summarized ranks and the same result lists as the first build -/
theorem rebuild_idempotent {α : Type} (A : Arith α) (rp : Option (Repair α)) (qbp nranks : Nat) (rows : List (RowV α ν))
    (force : Bool) (l : List Nat) (ess : List (List (Entry α ν)))
    (h : sessBuild A rp qbp nranks rows none false none = .ok (l, ess)) :
    sessBuild A rp qbp nranks rows none force (some l) = .ok (l, ess) := by
  unfold sessBuild sessRanks sessSummarize at h ⊢
  simp only at h ⊢
  cases hm : mapMRanks A rp qbp rows (summarizedRanks nranks rows) with
  | error e => rw [hm] at h; cases h
  | ok ess0 =>
    rw [hm] at h
    have h' : (summarizedRanks nranks rows, ess0) = (l, ess) := by
      have : Except.map (fun ess => (summarizedRanks nranks rows, ess)) (Except.ok ess0 : Except Err _) =
          Except.ok (summarizedRanks nranks rows, ess0) := rfl
      simp only [decide_true, if_true] at h
      rw [this] at h
      exact Except.ok.inj h
    obtain ⟨hl, he⟩ := Prod.mk.inj h'
    subst hl he
    by_cases hc : (force || (summarizedRanks nranks rows).isEmpty) = true
    · simp only [hc, if_true, decide_true, hm]; rfl
    · simp only [hc, Bool.false_eq_true, if_false, decide_true, if_true, hm]; rfl

/-! ### reading the gather CSV(s): one result per query -/

/-- **every query owns all its rows**: `load_gather_results` stores under each query name exactly that query's rows of the
file, in file order — wherever they stand between the rows of other queries (several gather outputs concatenated,
interleaved, re-sorted …).  `κ` = query names, `β` = rows. -/
theorem loader_groups_by_query {κ β : Type} [DecidableEq κ] (rows : List (κ × β)) (k : κ) :
    rowsOf k (groupRows rows []) = (rows.filter (fun r => decide (r.1 = k))).map Prod.snd := by
  rw [rowsOf_groupRows]; simp [rowsOf]

/-- **interleaving invariance**: two deliveries of the rows in which every query's rows come in the same relative order
give every query the same row list — hence the same summary, bit for bit, in any arithmetic (the doubles included).
What order dependence remains is the order of a query's OWN rows (gather's rank order): over the rationals it does not
matter either (`order_independent`), in binary64 it can move last bits (FULL STATEMENT note above).  The order in which
the queries appear in multi-query outputs is their order of first appearance. -/
theorem per_query_rows_invariant_under_interleaving {κ β : Type} [DecidableEq κ] (rows rows' : List (κ × β))
    (h : ∀ k, (rows.filter (fun r => decide (r.1 = k))).map Prod.snd = (rows'.filter (fun r => decide (r.1 = k))).map Prod.snd) :
    ∀ k, rowsOf k (groupRows rows []) = rowsOf k (groupRows rows' []) := by
  intro k
  rw [loader_groups_by_query, loader_groups_by_query, h k]

/-- a file is accepted — and loads as that grouping — unless one of its rows belongs to a query already loaded from an
earlier file, or lacks a lineage under `--fail-on-missing-taxonomy`, or the file has no rows -/
theorem loader_accepts {κ β : Type} [DecidableEq κ] (failMissing : Bool) (missing : β → Bool) (seen : List κ)
    (rows : List (κ × β)) (hne : rows ≠ []) (hseen : ∀ r ∈ rows, seen.contains r.1 = false)
    (hmiss : ∀ r ∈ rows, (failMissing && missing r.2) = false) :
    loadFile failMissing missing seen rows [] = .ok (groupRows rows []) :=
  loadFile_ok failMissing missing seen rows [] hseen hmiss (Or.inl hne)

/-- the regression example for a loader that starts a FRESH result whenever the query switches (instead of looking the
name up): rows `a₁ b₁ a₂` — the dictionary lookup gives query `a` both its rows (kernel-checked on the model) -/
theorem interleaved_rows_example :
    rowsOf 0 (groupRows [(0, 10), (1, 20), (0, 11)] ([] : List (Nat × List Nat))) = [10, 11] ∧
    rowsOf 1 (groupRows [(0, 10), (1, 20), (0, 11)] ([] : List (Nat × List Nat))) = [20] := by decide

/-! ### several queries -/

/-- **conservation for a multi-query run** (`tax metagenome` with several gather results; krona aggregation
`aggregate_by_lineage_at_rank(by_query=False)`): every query is summarised on its own (so all the theorems above hold
per query), and the aggregated table — per-lineage sums over the queries divided by the number of queries — again
accounts for exactly 100 % at a rank every query has.  `keyOf` is the display string the implementation aggregates by. -/
theorem multi_query_conservation {κ : Type} [DecidableEq κ] (rp : Option (Repair ℚ)) (gs : List (Gather ν))
    (hne : gs ≠ []) (hv : ∀ g ∈ gs, g.Valid ∧ RepairOK rp g.N) (r : Nat) (keyOf : Lineage ν → κ)
    (ess : List (List (Entry ℚ ν)))
    (hess : List.Forall₂ (fun g es => buildRank ratA rp g.qbp r (g.tbl r) = .ok es) gs ess) :
    ((aggregateAt ratA (fun x n => x / (n : ℚ)) keyOf r ess).map Prod.snd).sum = 1 := by
  rw [aggregateAt_sum]
  have hlen : ess.length = gs.length := hess.length_eq.symm
  have hall : ∀ es ∈ ess, ((es.filter (fun e => e.rank = r)).map (·.f)).sum = 1 := by
    intro es hes
    obtain ⟨g, hg, hb⟩ : ∃ g ∈ gs, buildRank ratA rp g.qbp r (g.tbl r) = .ok es := by
      clear hne hlen
      induction hess with
      | nil => cases hes
      | cons hab _ ih =>
        rcases List.mem_cons.mp hes with he | he
        · subst he; exact ⟨_, List.mem_cons_self .., hab⟩
        · obtain ⟨g, hg, hb⟩ := ih (fun g hg => hv g (List.mem_cons_of_mem _ hg)) he
          exact ⟨g, List.mem_cons_of_mem _ hg, hb⟩
    obtain ⟨hvg, hrp⟩ := hv g hg
    have hcons := (conservation rp g hvg hrp r es hb).1
    have hfil : es.filter (fun e => e.rank = r) = es := by
      rw [List.filter_eq_self]
      intro e he
      rcases (mem_result rp g hvg hrp r es hb e).mp he with ⟨x, _, rfl⟩ | hrem
      · simp [toEntry]
      · unfold Gather.rem at hrem
        split at hrem
        · simp at hrem; subst hrem; simp [remainder]
        · cases hrem
    rw [hfil]; exact hcons
  rw [sum_flatMap_const ess r hall, hlen]
  have : (gs.length : ℚ) ≠ 0 := by
    have : gs.length ≠ 0 := by intro h; exact hne (List.length_eq_zero_iff.mp h)
    exact_mod_cast this
  exact div_self this

/-! ### several writers on one `QueryTaxResult` (one `tax metagenome -F a b c` run) -/

/-- `make_full_summary` (csv_summary) and `make_human_summary` (human) sort the shared per-rank lists in place; the
content of every rank's list survives (any arithmetic) -/
theorem sorting_writers_keep_content {α : Type} (A : Arith α) (r : Nat) (ess : List (List (Entry α ν))) :
    SamePerRank (sessCsv A ess).1 ess ∧ SamePerRank (sessHuman A r ess).1 ess :=
  ⟨sessCsv_state A ess, sessHuman_state A r ess⟩

/-- **the writers are functions of the CONTENT of the summarised result**: on two states holding rank by rank the same
entries — in particular the fresh state and the state after any sequence of csv_summary / human calls — csv_summary,
krona, human and kreport print the same rows (as multisets; kreport needs at most one remainder per rank, which
`build_summarized_result` guarantees).  Only the ORDER of rows can depend on the writers called before (finding
C19.5); a writer that drops or duplicates a row after another writer ran contradicts this theorem. -/
theorem writer_rows_depend_on_content_only (r : Nat) (T : Nat) (a b : List (List (Entry F64.SF String)))
    (h : SamePerRank a b) (h1 : OneRemainder a) :
    (sessCsv f64 a).2.Perm (sessCsv f64 b).2 ∧ (sessKrona f64 r a).Perm (sessKrona f64 r b) ∧
    (sessHuman f64 r a).2.Perm (sessHuman f64 r b).2 ∧ (kreportRows T a).Perm (kreportRows T b) :=
  ⟨sessCsv_rows f64 h, sessKrona_rows f64 r h, sessHuman_rows f64 r h, kreportRows_perm T h h1⟩

/-- finding C19.5, kernel-checked on the model: after csv_summary ran, a rank whose unclassified remainder (11/20) is
larger than its lineage (9/20) has the remainder FIRST in the shared list, so kreport / bioboxes list their rows in
another order than on a fresh object -/
theorem row_order_depends_on_prior_writers :
    let ess : List (List (Entry F64.SF Nat)) :=
      [[⟨0, [some 0], F64.SF.ofF (F64.divNat 9 20), F64.SF.ofF (F64.divNat 9 20), 9⟩, ⟨0, [], F64.SF.ofF (F64.divNat 11 20), F64.SF.ofF (F64.divNat 11 20), 11⟩]]
    ess.map (fun es => es.map (fun e => e.lin.isEmpty)) = [[false, true]] ∧
    (sessCsv f64 ess).1.map (fun es => es.map (fun e => e.lin.isEmpty)) = [[true, false]] := by
  refine ⟨by decide, by decide +kernel⟩

/-! ### output formats: every writer prints entries of the one summarised table -/

/-- **format_independent** (csv_summary / krona ordering, any arithmetic — in particular the doubles): the rows a
writer prints for a rank are a permutation of that rank's summarised entries: same lineages, same numbers -/
theorem format_independent_writerOrder {α : Type} (A : Arith α) (es : List (Entry α ν)) :
    (writerOrder A es).Perm es := by
  unfold writerOrder
  have h := sortEntriesDesc_perm A es
  refine List.Perm.trans ?_ h
  have := List.filter_append_perm (fun e : Entry α ν => !isUnclassified e) (sortEntriesDesc A es)
  simpa using this

/-! ### identifiers -/

/-- the two `get_ident` implementations (taxonomy side, gather side) agree on every string and flag combination,
so a match is looked up under the key the taxonomy was stored with -/
theorem get_ident_agree (s : String) (kf kv : Bool) : getIdent s kf kv = getIdentRow s kf kv := by
  cases kf <;> cases kv <;> simp [getIdent, getIdentRow]

/-! ## Part II — the binary64 model: `check_values` on the sums the code really computes -/

section Float
open Sm.F64

/-- a fully classified query, all matches under one lineage -/
def oneLineage (N : Nat) (ks ws : List Nat) (W : Nat) : Gather Nat :=
  ⟨N, W, 1, (ks.zip ws).map (fun p => ⟨p.1, p.2, [some 0]⟩)⟩

def rejectedWith (g : Gather Nat) (e : Err) : Bool :=
  match buildRank f64 none g.qbp 0 (sumAtRank f64 g.toF 0) with
  | .error e' => e' == e
  | .ok _ => false

def accepted (g : Gather Nat) : Bool :=
  match buildRank f64 none g.qbp 0 (sumAtRank f64 g.toF 0) with
  | .error _ => false
  | .ok _ => true

/- FULL STATEMENT (not proved / false):
   theorem never_rejected (g : Gather ν) (hv : g.Valid) (r : Nat) :
       ∃ es, buildRank f64 none g.qbp r (sumAtRank f64 g.toF r) = .ok es
   False for the code as it was (`none` = no repair): the doubles k_i/N are added one by one and the sum can
   exceed 1.0, or fall short of 1.0 while the weighted sum does not.  Kernel-checked counterexamples below
   (defect D18).  What is proved instead: `bounds_partial` (whatever is not rejected is within bounds), and for
   the tolerance repair (`some p`, which the model switches to when the translator finds a repaired shape in
   the source): `never_rejected_repaired` / `never_rejected_patch` (non-strict variant) and
   `never_rejected_repaired_v2` / `never_rejected_patch_v2` (strict variant, needs n·W < 2^51).

   FULL STATEMENT (not proved / false):  order_independent / conservation in binary64.
   Float addition is not associative: after a permutation of the rows the doubles can differ in the last ulp,
   and with the unrepaired code even the accept/reject decision differs (`rejection_depends_on_row_order`);
   the sum of the reported doubles is 1 only up to rounding (`spurious_remainder_example`).  The exact
   statements are the Part I theorems over ℚ; the correspondence run compares every double bit for bit and the
   oracle bounds the distance to the exact rationals by 1e-12. -/

/-- smallest query: `N = 9`, unique overlaps `[5,1,1,1,1]` (gather's order), one lineage:
`5/9 + 1/9 + 1/9 + 1/9 + 1/9` is `1 + 2^-52` in binary64 and `check_values` raises "fraction is > 100%" -/
theorem never_rejected_counterexample :
    rejectedWith (oneLineage 9 [5, 1, 1, 1, 1] [5, 1, 1, 1, 1] 9) .gt100 = true := by decide +kernel

/-- fewest rows: three (`N = 28`, `[18, 9, 1]`) -/
theorem never_rejected_counterexample_3rows :
    rejectedWith (oneLineage 28 [18, 9, 1] [18, 9, 1] 28) .gt100 = true := by decide +kernel

/-- the second way to be rejected: `N = 6`, `k = [4,1,1]` sums to `1 - 2^-53`, so a remainder is created; the
weighted sum `4/8 + 1/8 + 3/8` is exactly 1.0 and the remainder's weighted fraction `0.0` raises "fraction is <=0%" -/
theorem never_rejected_counterexample_le0 :
    rejectedWith (oneLineage 6 [4, 1, 1] [4, 1, 3] 8) .le0 = true := by decide +kernel

/-- both counterexamples are valid gather results -/
theorem counterexamples_are_valid :
    (oneLineage 9 [5, 1, 1, 1, 1] [5, 1, 1, 1, 1] 9).Valid ∧ (oneLineage 28 [18, 9, 1] [18, 9, 1] 28).Valid ∧
    (oneLineage 6 [4, 1, 1] [4, 1, 3] 8).Valid := by
  refine ⟨⟨by decide, by decide, by decide, by decide, by decide, by decide⟩,
          ⟨by decide, by decide, by decide, by decide, by decide, by decide⟩,
          ⟨by decide, by decide, by decide, by decide, by decide, by decide⟩⟩

/-- whether a valid result is rejected depends on the order of its rows: the same five rows, smallest first,
are accepted (so `order_independent` is false in binary64 even for the accept/reject decision) -/
theorem rejection_depends_on_row_order :
    rejectedWith (oneLineage 9 [5, 1, 1, 1, 1] [5, 1, 1, 1, 1] 9) .gt100 = true ∧
    accepted (oneLineage 9 [1, 1, 1, 1, 5] [1, 1, 1, 1, 5] 9) = true := by decide +kernel

/-- a fully classified query is reported with a spurious unclassified remainder of `2^-53` and 0 bp
(`N = 6`, `[4,1,1]`, no abundances) -/
theorem spurious_remainder_example :
    (match buildRank f64 none 6 0 (sumAtRank f64 (oneLineage 6 [4, 1, 1] [4, 1, 1] 6).toF 0) with
     | .ok [_, e] => e.lin == [] && e.f == ⟨false, ⟨1, -53⟩⟩ && e.bp == 0
     | _ => false) = true := by decide +kernel

/-- what *is* true of the code as it is, in any arithmetic (in particular binary64), whatever the input: a result
that is not rejected satisfies the bounds — every reported entry lies in (0, 1] -/
theorem bounds_partial {α : Type} (A : Arith α) (qbp r : Nat) (t : Tbl α ν) (es : List (Entry α ν))
    (h : buildRank A none qbp r t = .ok es) (e : Entry α ν) (he : e ∈ es) :
    A.lt A.one e.f = false ∧ A.lt A.one e.fw = false ∧ A.le e.f A.zero = false ∧ A.le e.fw A.zero = false := by
  have hcv : ∀ (f fw : α) (p : α × α), checkValues A none f fw = .ok p → p = (f, fw) ∧
      A.lt A.one f = false ∧ A.lt A.one fw = false ∧ A.le f A.zero = false ∧ A.le fw A.zero = false := by
    intro f fw p hc
    unfold checkValues at hc
    cases h1 : A.lt A.one f <;> cases h2 : A.lt A.one fw <;> cases h3 : A.le f A.zero <;>
      cases h4 : A.le fw A.zero <;> simp_all
  have hcl : ∀ (t : Tbl α ν) (es : List (Entry α ν)), classified A none r t = .ok es → ∀ e ∈ es,
      A.lt A.one e.f = false ∧ A.lt A.one e.fw = false ∧ A.le e.f A.zero = false ∧ A.le e.fw A.zero = false := by
    intro t
    induction t with
    | nil => intro es h e he; simp [classified] at h; subst h; cases he
    | cons x t ih =>
      intro es h e he
      obtain ⟨lin, a⟩ := x
      unfold classified at h
      cases hc : checkValues A none a.f a.fw with
      | error err => simp [hc] at h
      | ok p =>
        obtain ⟨hp, hb⟩ := hcv _ _ p hc
        subst hp
        cases hr : classified A none r t with
        | error err => simp [hc, hr] at h
        | ok es0 =>
          simp [hc, hr] at h
          subst h
          rcases List.mem_cons.mp he with he | he
          · subst he; exact hb
          · exact ih es0 hr e he
  unfold buildRank at h
  simp only at h
  cases hc : classified A none r (nonzero A (sortDesc A t)) with
  | error err => simp [hc] at h
  | ok es0 =>
    simp only [hc] at h
    by_cases hlt : A.lt A.zero (A.sub A.one (totalF A (nonzero A (sortDesc A t)))) = true
    · simp only [hlt, if_true] at h
      cases hcv2 : checkValues A none (A.sub A.one (totalF A (nonzero A (sortDesc A t))))
          (A.sub A.one (totalFw A (nonzero A (sortDesc A t)))) with
      | error err => simp [hcv2] at h
      | ok p =>
        obtain ⟨hp, hb⟩ := hcv _ _ p hcv2
        subst hp
        simp [hcv2] at h
        subst h
        rcases List.mem_append.mp he with he | he
        · exact hcl _ _ hc e he
        · simp at he; subst he; exact hb
    · simp only [hlt] at h
      simp at h
      subst h
      exact hcl _ _ hc e he


/-! ### the tolerance repair (`patches/C19-D18-tolerance.diff`) in binary64 -/

/-- every accumulator of a valid gather result is a positive double not above `1 + tol`, when the repair leaves
room for the rounding of `n` additions: `1 + 2(n+1)·2^-53 ≤ 1 + tol` -/
theorem float_sums_within_tolerance (g : Gather ν) (hv : g.Valid) (p : Repair SF)
    (hp : RepairF p g.rows.length) (hn : 2 * ((g.rows.length : ℚ) + 1) * u ≤ 1) (r : Nat)
    (x : Lineage ν × Tax.Acc SF) (hx : x ∈ sumAtRank f64 g.toF r) :
    PosD x.2.f ∧ x.2.f.a.toQ ≤ p.onePlus.a.toQ ∧ PosD x.2.fw ∧ x.2.fw.a.toQ ≤ p.onePlus.a.toQ := by
  have hu := u_pos
  have hb := tblF_bound g hv.pos hv.kle hv.wle hv.hN hv.hW r x hx
  have hn' : 2 * (g.rows.length : ℚ) * u ≤ 1 := by nlinarith
  have hpow := one_add_u_pow_le g.rows.length hn'
  have hroom : (1 + u) ^ g.rows.length ≤ p.onePlus.a.toQ := by
    have := hp.room
    nlinarith
  exact ⟨hb.1, le_trans hb.2.1 hroom, hb.2.2.1, le_trans hb.2.2.2 hroom⟩

/-- **never_rejected, for the repaired comparison**: with the tolerance repair, `build_summarized_result` never
rejects a valid gather result in binary64, at any rank, as long as `2(n+1)·2^-53` is within the tolerance
(`n` = number of gather rows) -/
theorem never_rejected_repaired (g : Gather ν) (hv : g.Valid) (p : Repair SF) (hns : p.strict = false)
    (hp : RepairF p g.rows.length) (hn : 2 * ((g.rows.length : ℚ) + 1) * u ≤ 1) (r : Nat) :
    ∃ es, buildRank f64 (some p) g.qbp r (sumAtRank f64 g.toF r) = .ok es :=
  buildRankR_ok p g.rows.length hp g.qbp r _ (float_sums_within_tolerance g hv p hp hn r)
    (fun h => by rw [hns] at h; cases h)

/-- … hence the whole summary (all ranks) is produced -/
theorem summary_never_rejected_repaired (g : Gather ν) (hv : g.Valid) (p : Repair SF) (hns : p.strict = false)
    (hp : RepairF p g.rows.length) (hn : 2 * ((g.rows.length : ℚ) + 1) * u ≤ 1) (nranks : Nat) :
    ∃ ess, buildSummarized f64 (some p) g.qbp nranks g.toF none = .ok ess := by
  unfold buildSummarized
  simp only
  generalize summarizedRanks nranks g.toF = rs
  induction rs with
  | nil => exact ⟨[], rfl⟩
  | cons r rs ih =>
    obtain ⟨es, hes⟩ := never_rejected_repaired g hv p hns hp hn r
    obtain ⟨ess, hess⟩ := ih
    unfold mapMRanks
    rw [hes, hess]
    exact ⟨_, rfl⟩

/-- … and genome classification answers (or reports that no match has a lineage) -/
theorem classification_never_rejected_repaired (g : Gather ν) (hv : g.Valid) (p : Repair SF)
    (hp : RepairF p g.rows.length) (hn : 2 * ((g.rows.length : ℚ) + 1) * u ≤ 1) (nranks : Nat) (thr : Option SF) :
    (∃ c, classify f64 (some p) nranks g.toF none thr true = .ok c) ∨
    classify f64 (some p) nranks g.toF none thr true = .error .noRanks := by
  unfold classify
  simp only [Bool.not_true, Bool.false_eq_true, if_false]
  cases hsr : (summarizedRanks nranks g.toF).isEmpty with
  | true => right; simp
  | false =>
    left
    simp only [Bool.false_eq_true, if_false]
    apply classifyLoopR_ok p g.rows.length hp
    · intro q hq
      obtain ⟨r, hr, rfl⟩ := List.mem_map.mp hq
      have hr' := List.mem_reverse.mp hr
      rw [mem_summarizedRanks] at hr'
      obtain ⟨_, row, hrow, hc⟩ := hr'
      -- the row is counted at r, so the table has its key
      intro hnil
      have : ∀ (rows : List (RowV SF ν)) (t0 : Tbl SF ν), (t0 ≠ [] ∨ ∃ row ∈ rows, counted row r = true) →
          rows.foldl (fun t row => if counted row r then bump f64 (popTo row.lin r) row t else t) t0 ≠ [] := by
        intro rows
        induction rows with
        | nil => intro t0 h; rcases h with h | ⟨_, h, _⟩; exact h; cases h
        | cons x xs ihx =>
          intro t0 h
          simp only [List.foldl_cons]
          apply ihx
          by_cases hcx : counted x r = true
          · left
            simp only [hcx, if_true]
            cases t0 with
            | nil => simp [bump]
            | cons y ys =>
              obtain ⟨k0, a0⟩ := y
              unfold bump
              split <;> simp
          · rcases h with h | ⟨row', hrow', hc'⟩
            · left; simp only [hcx]; simpa using h
            · rcases List.mem_cons.mp hrow' with he | he
              · subst he; exact absurd hc' hcx
              · right; exact ⟨row', he, hc'⟩
      exact this g.toF [] (Or.inr ⟨row, hrow, hc⟩) hnil
    · intro q hq x hx
      obtain ⟨r, _, rfl⟩ := List.mem_map.mp hq
      exact float_sums_within_tolerance g hv p hp hn r x hx

/-- the repair the patch proposes: `FLOAT_TOLERANCE = 1e-9` and `1 + FLOAT_TOLERANCE`, as doubles -/
def patchRepair : Repair SF :=
  ⟨SF.ofF (divNat 1 (10 ^ 9)), SF.ofF (fadd ⟨1, 0⟩ (divNat 1 (10 ^ 9))), false⟩

/-- `1 + 1e-9` in binary64 leaves room for 2^22 (about four million) gather rows -/
theorem patchRepair_ok (n : Nat) (hn : n + 1 ≤ 2 ^ 22) : RepairF patchRepair n := by
  have hval : fadd ⟨1, 0⟩ (divNat 1 (10 ^ 9)) = ⟨4503599631874096, -52⟩ := by decide +kernel
  refine ⟨rfl, rfl, ?_⟩
  show 1 + 2 * ((n : ℚ) + 1) * u ≤ (fadd ⟨1, 0⟩ (divNat 1 (10 ^ 9))).toQ
  rw [hval]
  have hnq : ((n : ℚ) + 1) ≤ 2 ^ 22 := by exact_mod_cast hn
  unfold F.toQ u
  simp only
  have : (2 : ℚ) ^ (-52 : ℤ) = 1 / 2 ^ 52 := by
    rw [zpow_neg]; norm_num
  rw [this]
  have h1 : 1 + 2 * ((n : ℚ) + 1) * (1 / 2 ^ 53) ≤ 1 + 2 * 2 ^ 22 * (1 / 2 ^ 53) := by
    have : (0 : ℚ) < 1 / 2 ^ 53 := by positivity
    nlinarith
  refine le_trans h1 ?_
  norm_num

/-- **never_rejected for the proposed patch**: up to 2^22 − 1 gather rows -/
theorem never_rejected_patch (g : Gather ν) (hv : g.Valid) (hn : g.rows.length + 1 ≤ 2 ^ 22) (r : Nat) :
    ∃ es, buildRank f64 (some patchRepair) g.qbp r (sumAtRank f64 g.toF r) = .ok es := by
  apply never_rejected_repaired g hv patchRepair rfl (patchRepair_ok _ hn)
  have hnq : ((g.rows.length : ℚ) + 1) ≤ 2 ^ 22 := by exact_mod_cast hn
  unfold u
  have : (0 : ℚ) < 1 / 2 ^ 53 := by positivity
  calc 2 * ((g.rows.length : ℚ) + 1) * (1 / 2 ^ 53) ≤ 2 * 2 ^ 22 * (1 / 2 ^ 53) := by nlinarith
    _ ≤ 1 := by norm_num

/-- the patch accepts the three counterexamples (and reports the fully classified query as exactly 100 %) -/
theorem patch_accepts_counterexamples :
    (match buildRank f64 (some patchRepair) 9 0 (sumAtRank f64 (oneLineage 9 [5, 1, 1, 1, 1] [5, 1, 1, 1, 1] 9).toF 0) with
     | .ok [e] => e.f == SF.one && e.fw == SF.one && e.bp == 9
     | _ => false) = true ∧
    (match buildRank f64 (some patchRepair) 6 0 (sumAtRank f64 (oneLineage 6 [4, 1, 1] [4, 1, 3] 8).toF 0) with
     | .ok [e] => e.bp == 6
     | _ => false) = true := by decide +kernel


/-! ### the strict tolerance repair (`patches/C19-D18-tolerance-v2.diff`: `f_weighted <= 0` still raises, the weighted
remainder is not clamped) -/

/-- **never_rejected, for the strict repaired comparison (v2)**: with `n` gather rows and total query abundance `W`,
`build_summarized_result` never rejects a valid gather result in binary64 at any rank, provided
 * `1 + 2(n+1)·2^-53 ≤ 1 + tol` (room above 1 for the rounding of the sums),
 * `2n·2^-53·(1+2^-53) ≤ tol`   (a fully classified rank produces no remainder), and
 * `4·n·W·2^-53 < 1`             (a genuine remainder keeps a positive weighted fraction: `n·W < 2^51`). -/
theorem never_rejected_repaired_v2 (g : Gather ν) (hv : g.Valid) (p : Repair SF)
    (hp : RepairF p g.rows.length) (hn : 2 * ((g.rows.length : ℚ) + 1) * u ≤ 1)
    (htol : 2 * (g.rows.length : ℚ) * u * (1 + u) ≤ p.tol.a.toQ)
    (hW : 4 * (g.rows.length : ℚ) * g.W * u < 1) (r : Nat) :
    ∃ es, buildRank f64 (some p) g.qbp r (sumAtRank f64 g.toF r) = .ok es := by
  have hu := u_pos
  apply buildRankR_ok p _ hp g.qbp r _ (float_sums_within_tolerance g hv p hp hn r)
  intro _ hkeep
  obtain ⟨hTf, hTw, hlo, hhi, hwhi⟩ := totals_bounds g hv r
  set s := nonzero f64 (sortDesc f64 (sumAtRank f64 g.toF r)) with hs
  set n := g.rows.length with hndef
  have hNq : (0 : ℚ) < g.N := by exact_mod_cast hv.hN
  have hWq : (0 : ℚ) < g.W := by exact_mod_cast hv.hW
  have hW1 : (1 : ℚ) ≤ g.W := by exact_mod_cast hv.hW
  have hnq : (0 : ℚ) ≤ n := Nat.cast_nonneg n
  -- 4nu ≤ 4nuW < 1
  have h4 : 4 * (n : ℚ) * u < 1 := by
    have : 4 * (n : ℚ) * u ≤ 4 * (n : ℚ) * g.W * u := by
      have : (0 : ℚ) ≤ 4 * (n : ℚ) * u := by positivity
      nlinarith
    linarith
  -- step 1: something at rank r is unclassified (otherwise the remainder would be within the tolerance)
  have hk : g.kAt r < g.N := by
    by_contra hcon
    have hkN : g.kAt r = g.N := le_antisymm (kAt_le g hv r) (not_lt.mp hcon)
    have hge : 1 - 2 * (n : ℚ) * u ≤ (totalF f64 s).a.toQ := by
      have h1 := one_sub_u_pow_ge (2 * n)
      push_cast at h1
      rw [hkN, div_self (ne_of_gt hNq), one_mul] at hlo
      linarith
    rw [one_sub_eq _ hTf] at hkeep
    have hspec := subF_spec SF.one.a (totalF f64 s).a
    rw [one_toQ] at hspec
    by_cases hle : (totalF f64 s).a.toQ ≤ 1
    · obtain ⟨hneg, hval, _⟩ := hspec.1 hle
      have hfalse := lt_nonneg_false p.tol _ hp.tol_nonneg hneg (by
        have h0 : (0 : ℚ) ≤ 1 - (totalF f64 s).a.toQ := by linarith
        have : (1 - (totalF f64 s).a.toQ) * (1 + u) ≤ 2 * (n : ℚ) * u * (1 + u) :=
          mul_le_mul_of_nonneg_right (by linarith) (by linarith)
        linarith)
      rw [show f64.lt = SF.lt from rfl] at hkeep
      rw [hfalse] at hkeep; cases hkeep
    · have hneg := hspec.2 (not_le.mp hle)
      have hfalse := lt_nonneg_neg p.tol _ hp.tol_nonneg hneg
      rw [show f64.lt = SF.lt from rfl] at hkeep
      rw [hfalse] at hkeep; cases hkeep
  -- step 2: then some weight is unclassified, and the float total of the weighted fractions stays below 1
  have hw := wAt_lt_of_kAt_lt g hv r hk
  have hwq : (g.wAt r : ℚ) + 1 ≤ g.W := by exact_mod_cast hw
  have hpow : (1 + u) ^ (2 * n) ≤ 1 + 4 * (n : ℚ) * u := by
    have := one_add_u_pow_le (2 * n) (by push_cast; linarith)
    push_cast at this
    linarith
  have hlt1 : (totalFw f64 s).a.toQ < 1 := by
    have hwa : (0 : ℚ) ≤ (g.wAt r : ℚ) / g.W := by positivity
    have h1 : (totalFw f64 s).a.toQ ≤ (g.wAt r : ℚ) / g.W * (1 + 4 * (n : ℚ) * u) :=
      le_trans hwhi (mul_le_mul_of_nonneg_left hpow hwa)
    have h2 : (g.wAt r : ℚ) / g.W * (1 + 4 * (n : ℚ) * u) < 1 := by
      rw [div_mul_eq_mul_div, div_lt_one hWq]
      have hx : (0 : ℚ) ≤ 4 * (n : ℚ) * u := by positivity
      have h3 : (g.wAt r : ℚ) * (1 + 4 * (n : ℚ) * u) ≤ ((g.W : ℚ) - 1) * (1 + 4 * (n : ℚ) * u) :=
        mul_le_mul_of_nonneg_right (by linarith) (by linarith)
      nlinarith
    linarith
  rw [one_sub_eq _ hTw]
  have hspec := subF_spec SF.one.a (totalFw f64 s).a
  rw [one_toQ] at hspec
  obtain ⟨hneg, _, hpos⟩ := hspec.1 (le_of_lt hlt1)
  exact ⟨hpos hlt1, hneg⟩

/-- … hence the whole summary (all ranks) is produced -/
theorem summary_never_rejected_repaired_v2 (g : Gather ν) (hv : g.Valid) (p : Repair SF)
    (hp : RepairF p g.rows.length) (hn : 2 * ((g.rows.length : ℚ) + 1) * u ≤ 1)
    (htol : 2 * (g.rows.length : ℚ) * u * (1 + u) ≤ p.tol.a.toQ)
    (hW : 4 * (g.rows.length : ℚ) * g.W * u < 1) (nranks : Nat) :
    ∃ ess, buildSummarized f64 (some p) g.qbp nranks g.toF none = .ok ess := by
  unfold buildSummarized
  simp only
  generalize summarizedRanks nranks g.toF = rs
  induction rs with
  | nil => exact ⟨[], rfl⟩
  | cons r rs ih =>
    obtain ⟨es, hes⟩ := never_rejected_repaired_v2 g hv p hp hn htol hW r
    obtain ⟨ess, hess⟩ := ih
    unfold mapMRanks
    rw [hes, hess]
    exact ⟨_, rfl⟩

/-- the repair `patches/C19-D18-tolerance-v2.diff` installs: `FLOAT_TOLERANCE = 1e-9`, strict variant -/
def patchRepairV2 : Repair SF :=
  ⟨SF.ofF (divNat 1 (10 ^ 9)), SF.ofF (fadd ⟨1, 0⟩ (divNat 1 (10 ^ 9))), true⟩

theorem patchRepairV2_ok (n : Nat) (hn : n + 1 ≤ 2 ^ 22) : RepairF patchRepairV2 n :=
  ⟨(patchRepair_ok n hn).tol_nonneg, (patchRepair_ok n hn).one_nonneg, (patchRepair_ok n hn).room⟩

/-- **never_rejected for the v2 patch**: fewer than 2^22 gather rows and `rows · total abundance < 2^51` -/
theorem never_rejected_patch_v2 (g : Gather ν) (hv : g.Valid) (hn : g.rows.length + 1 ≤ 2 ^ 22)
    (hW : 4 * g.rows.length * g.W < 2 ^ 53) (r : Nat) :
    ∃ es, buildRank f64 (some patchRepairV2) g.qbp r (sumAtRank f64 g.toF r) = .ok es := by
  have hnq : ((g.rows.length : ℚ) + 1) ≤ 2 ^ 22 := by exact_mod_cast hn
  have hn0 : (0 : ℚ) ≤ g.rows.length := Nat.cast_nonneg _
  have hupos : (0 : ℚ) < 1 / 2 ^ 53 := by positivity
  apply never_rejected_repaired_v2 g hv patchRepairV2 (patchRepairV2_ok _ hn)
  · unfold u
    calc 2 * ((g.rows.length : ℚ) + 1) * (1 / 2 ^ 53) ≤ 2 * 2 ^ 22 * (1 / 2 ^ 53) := by nlinarith
      _ ≤ 1 := by norm_num
  · -- 2n·u·(1+u) ≤ 2^-30·(1+2^-53) ≤ the double nearest 1e-9
    have hval : divNat 1 (10 ^ 9) = ⟨4835703278458517, -82⟩ := by decide +kernel
    show _ ≤ (divNat 1 (10 ^ 9)).toQ
    rw [hval]
    unfold F.toQ u
    simp only
    have e : (2 : ℚ) ^ (-82 : ℤ) = 1 / 2 ^ 82 := by rw [zpow_neg]; norm_num
    rw [e]
    have h1 : 2 * (g.rows.length : ℚ) * (1 / 2 ^ 53) * (1 + 1 / 2 ^ 53) ≤ 2 * 2 ^ 22 * (1 / 2 ^ 53) * (1 + 1 / 2 ^ 53) := by
      have : (g.rows.length : ℚ) ≤ 2 ^ 22 := by linarith
      have : (0 : ℚ) ≤ (1 / 2 ^ 53) * (1 + 1 / 2 ^ 53) := by positivity
      nlinarith
    refine le_trans h1 ?_
    norm_num
  · unfold u
    have : ((4 * g.rows.length * g.W : Nat) : ℚ) < ((2 ^ 53 : Nat) : ℚ) := by exact_mod_cast hW
    push_cast at this
    rw [mul_one_div, div_lt_one (by positivity)]
    linarith

/-- the abundance hypothesis of the v2 theorems is not gratuitous: one gather row holding one of the two hashes of
the query with abundance 2^54 − 1 (the other hash has abundance 1; `n·W = 2^54`) is still rejected by the strict
repair — `(2^54−1)/2^54` rounds to 1.0, so the remainder's weighted fraction is 0.0.  (Reproduced on the patched
code; such abundances do not occur in practice.) -/
theorem v2_abundance_hypothesis_needed :
    (⟨2, 2 ^ 54, 1, [⟨1, 2 ^ 54 - 1, [some 0]⟩]⟩ : Gather Nat).Valid ∧
    (match buildRank f64 (some patchRepairV2) 2 0
        (sumAtRank f64 (⟨2, 2 ^ 54, 1, [⟨1, 2 ^ 54 - 1, [some 0]⟩]⟩ : Gather Nat).toF 0) with
     | .error e => e == Err.le0
     | .ok _ => false) = true := by
  refine ⟨⟨by decide, by decide, by decide, by decide, by decide, by decide⟩, by decide +kernel⟩

/-- the v2 patch accepts the old counterexamples: the fully classified queries are reported as exactly 100 %
with no remainder -/
theorem patch_v2_accepts_counterexamples :
    (match buildRank f64 (some patchRepairV2) 9 0 (sumAtRank f64 (oneLineage 9 [5, 1, 1, 1, 1] [5, 1, 1, 1, 1] 9).toF 0) with
     | .ok [e] => e.f == SF.one && e.fw == SF.one && e.bp == 9
     | _ => false) = true ∧
    (match buildRank f64 (some patchRepairV2) 28 0 (sumAtRank f64 (oneLineage 28 [18, 9, 1] [18, 9, 1] 28).toF 0) with
     | .ok [e] => e.f == SF.one && e.bp == 28
     | _ => false) = true ∧
    (match buildRank f64 (some patchRepairV2) 6 0 (sumAtRank f64 (oneLineage 6 [4, 1, 1] [4, 1, 3] 8).toF 0) with
     | .ok [e] => F64.eq e.fw.a SF.one.a && e.bp == 6
     | _ => false) = true ∧
    (match buildRank f64 (some patchRepairV2) 6 0 (sumAtRank f64 (oneLineage 6 [4, 1, 1] [4, 1, 1] 6).toF 0) with
     | .ok [e] => e.bp == 6
     | _ => false) = true := by decide +kernel


/-! ### classification in binary64 (the repaired code) -/

/-- **classification_lowest_rank, in the binary64 model** (either variant of the tolerance repair; threshold a
non-negative double ≤ 1.0).  The answer is a lineage `c.lin` of the float table of rank `c.rank` whose summed double is
maximal *as a double* at that rank; at every lower summarized rank every lineage's double is below the threshold;
status `match` iff the double is not below the threshold; otherwise `below_threshold` at the highest summarized rank.
The reported fractions are the sums clamped with `min(·, 1.0)`. -/
theorem classification_lowest_rank_f64 (g : Gather ν) (hv : g.Valid) (p : Repair SF)
    (hp : RepairF p g.rows.length) (hn : 2 * ((g.rows.length : ℚ) + 1) * u ≤ 1) (nranks : Nat)
    (thr : SF) (ht : thr.neg = false) (ht1 : thr.a.toQ ≤ 1) :
    match classify f64 (some p) nranks g.toF none (some thr) true with
    | .error e => e = .noRanks ∧ summarizedRanks nranks g.toF = []
    | .ok none => False
    | .ok (some c) =>
      c.rank ∈ summarizedRanks nranks g.toF ∧
      ∃ a : Tax.Acc SF, (c.lin, a) ∈ sumAtRank f64 g.toF c.rank ∧ c.f = clamp1 a.f ∧ c.fw = clamp1 a.fw ∧ c.bp = a.bp ∧
        (∀ y ∈ sumAtRank f64 g.toF c.rank, SF.lt a.f y.2.f = false) ∧
        (∀ r0 ∈ summarizedRanks nranks g.toF, c.rank < r0 → ∀ y ∈ sumAtRank f64 g.toF r0, SF.lt y.2.f thr = true) ∧
        ((c.status = .match_ ∧ SF.lt a.f thr = false) ∨
         (c.status = .below ∧ SF.lt a.f thr = true ∧ ∀ r0 ∈ summarizedRanks nranks g.toF, c.rank ≤ r0)) := by
  unfold classify
  simp only [Bool.not_true, Bool.false_eq_true, if_false]
  cases hsr : summarizedRanks nranks g.toF with
  | nil => simp
  | cons r0 rs =>
    simp only [List.isEmpty_cons, Bool.false_eq_true, if_false]
    rw [← hsr]
    set sr := summarizedRanks nranks g.toF with hsrdef
    set l := sr.reverse.map (fun r => (r, sumAtRank f64 g.toF r)) with hl
    have hmem : ∀ q ∈ l, q.1 ∈ sr ∧ q.2 = sumAtRank f64 g.toF q.1 := by
      intro q hq
      rw [hl, List.mem_map] at hq
      obtain ⟨r, hr, rfl⟩ := hq
      exact ⟨List.mem_reverse.mp hr, rfl⟩
    have hne : ∀ q ∈ l, q.2 ≠ [] := by
      intro q hq
      obtain ⟨h1, h2⟩ := hmem q hq
      rw [h2]
      rw [mem_summarizedRanks] at h1
      exact sumAtRank_ne_nil f64 g.toF q.1 h1.2
    have hchk : ∀ q ∈ l, ∀ x ∈ q.2, checkValues f64 (some p) x.2.f x.2.fw = .ok (clamp1 x.2.f, clamp1 x.2.fw) ∧
        f64.lt (clamp1 x.2.f) thr = f64.lt x.2.f thr := by
      intro q hq x hx
      obtain ⟨_, h2⟩ := hmem q hq
      rw [h2] at hx
      have hb := float_sums_within_tolerance g hv p hp hn q.1 x hx
      exact ⟨checkValuesR_val p _ hp _ _ hb.1 hb.2.1 hb.2.2.1 hb.2.2.2, clamp1_lt_thr _ _ hb.1.1 ht ht1⟩
    obtain ⟨c, hc1, hc2⟩ := classifyLoop_specC f64 f64_goodLt clamp1 thr l none hne (some p) hchk
    rw [hc1]
    have hlne : l ≠ [] := by rw [hl, hsr]; simp
    rcases hc2 with ⟨hnil, _⟩ | ⟨pre, post, r, t, x, st, hsplit, hcx, hxt, hmax, hpre, hst⟩
    · exact absurd hnil hlne
    · subst hcx
      have hrt : (r, t) ∈ l := by rw [hsplit]; simp
      obtain ⟨hr1, hr2⟩ := hmem (r, t) hrt
      simp only at hr1 hr2
      subst hr2
      have hsorted : l.Pairwise (fun a b => b.1 < a.1) := by
        rw [hl, List.pairwise_map, List.pairwise_reverse]
        exact summarizedRanks_sorted nranks g.toF
      rw [hsplit, List.pairwise_append] at hsorted
      obtain ⟨_, hpost, hcross⟩ := hsorted
      have hpost' := (List.pairwise_cons.mp hpost).1
      dsimp only
      refine ⟨hr1, x.2, hxt, rfl, rfl, rfl, hmax, ?_, ?_⟩
      · intro r1 hr1m hlt y hy
        have hin : (r1, sumAtRank f64 g.toF r1) ∈ l := by
          rw [hl, List.mem_map]; exact ⟨r1, List.mem_reverse.mpr hr1m, rfl⟩
        rw [hsplit, List.mem_append, List.mem_cons] at hin
        rcases hin with hin | hin | hin
        · exact hpre _ hin y hy
        · have : r1 = r := (Prod.mk.inj hin).1
          omega
        · have := hpost' _ hin
          simp only at this
          omega
      · rcases hst with ⟨rfl, hge⟩ | ⟨rfl, hlt, hpostnil⟩
        · left; exact ⟨rfl, hge⟩
        · right
          refine ⟨rfl, hlt, ?_⟩
          intro r1 hr1m
          have hin : (r1, sumAtRank f64 g.toF r1) ∈ l := by
            rw [hl, List.mem_map]; exact ⟨r1, List.mem_reverse.mpr hr1m, rfl⟩
          rw [hsplit, hpostnil, List.mem_append, List.mem_singleton] at hin
          rcases hin with hin | hin
          · have := hcross _ hin (r, sumAtRank f64 g.toF r) (by simp)
            simp only at this
            omega
          · have : r1 = r := (Prod.mk.inj hin).1
            omega

/-- **float arg-max is the exact arg-max** when `3·n·N·2^-53 < 1` (rows × query hashes < 2^53/3 ≈ 3.0e15): a lineage
whose summed double is maximal at a rank holds at least as many hashes as every other lineage of that rank.
Tie condition, precisely: among lineages with *equal* exact hash counts the doubles may differ in the last bits
(different addition orders), so any of the exactly-tied lineages can be the one picked — not necessarily the one gather
met first; lineages with a strictly smaller exact count are never picked. -/
theorem float_argmax_is_exact_argmax (g : Gather ν) (hv : g.Valid) (r : Nat)
    (hsmall : 3 * (g.rows.length : ℚ) * g.N * u < 1)
    (x : Lineage ν × Tax.Acc SF) (hx : x ∈ sumAtRank f64 g.toF r)
    (hmax : ∀ y ∈ sumAtRank f64 g.toF r, SF.lt x.2.f y.2.f = false) :
    ∀ y ∈ sumAtRank f64 g.toF r, kU r g.rows y.1 ≤ kU r g.rows x.1 := by
  intro y hy
  obtain ⟨_, _, _, _, hin⟩ := tbl_bnd2 g hv r
  have hKY : kU r g.rows y.1 ≤ g.N := le_trans (ksum_filter_le _ _) hv.kle
  exact exact_max_of_float_max _ _ g.N g.rows.length hv.hN hKY x.2.f y.2.f (hin x hx).1 (hin y hy).1 (hmax y hy) hsmall

/-- **float threshold test versus the exact fraction**: a lineage whose double is not below the threshold has exact
fraction ≥ thr/(1+u)^n; one whose double is below it has exact fraction < thr/(1-u)^n.  (So the decision is the exact
one unless the exact fraction is within a factor (1±2^-53)^n of the threshold.) -/
theorem float_threshold_vs_exact (g : Gather ν) (hv : g.Valid) (r : Nat) (thr : SF) (ht : thr.neg = false)
    (x : Lineage ν × Tax.Acc SF) (hx : x ∈ sumAtRank f64 g.toF r) :
    (SF.lt x.2.f thr = false → thr.a.toQ ≤ (kU r g.rows x.1 : ℚ) / g.N * (1 + u) ^ g.rows.length) ∧
    (SF.lt x.2.f thr = true → (kU r g.rows x.1 : ℚ) / g.N * (1 - u) ^ g.rows.length < thr.a.toQ) := by
  obtain ⟨_, _, _, _, hin⟩ := tbl_bnd2 g hv r
  have hw := (hin x hx).1
  constructor
  · intro h
    have := (sf_lt_false_iff x.2.f thr).mp h
    rw [sfQ_nonneg _ hw.1.1, sfQ_nonneg _ ht] at this
    exact le_trans this hw.2.2
  · intro h
    have := (sf_lt_iff x.2.f thr).mp h
    rw [sfQ_nonneg _ hw.1.1, sfQ_nonneg _ ht] at this
    exact lt_of_le_of_lt hw.2.1 this


/-! ### the writers that format numbers (kreport, bioboxes, human) -/

/-- the percentage text `'%.kf'` is the decimal nearest to the exact binary value of the double: `|h − x·10^k| ≤ 1/2`
(`h` = the printed number times `10^k`) -/
theorem percent_text_is_nearest (x : F) (k : Nat) :
    (fmtDec x k : ℚ) - 1 / 2 ≤ x.toQ * 10 ^ k ∧ x.toQ * 10 ^ k ≤ (fmtDec x k : ℚ) + 1 / 2 :=
  fmtDec_nearest x k

/-- **kreport `num_bp_contained` (finding C19.1, the bound)**: for a classified lineage the reported integer
`int(f_weighted * total_bp)` is the exact weighted base pairs `w_L·scaled` of the matches under it, or ONE less —
never more, never two less — when `total_bp = W·scaled < 2^53` and `2(n+1)·total_bp·2^-53 < 1` -/
theorem kreport_bp_within_one (g : Gather ν) (hv : g.Valid) (r : Nat) (x : Lineage ν × Tax.Acc SF)
    (hx : x ∈ sumAtRank f64 g.toF r) (hT : g.W * g.scaled < 2 ^ 53)
    (hsmall : 2 * ((g.rows.length : ℚ) + 1) * ((g.W * g.scaled : Nat) : ℚ) * u < 1)
    (hn : 2 * ((g.rows.length : ℚ) + 1) * u ≤ 1) :
    kreportBp x.2.fw (g.W * g.scaled) ≤ wU r g.rows x.1 * g.scaled ∧
    wU r g.rows x.1 * g.scaled ≤ kreportBp x.2.fw (g.W * g.scaled) + 1 :=
  kreportBp_bounds g hv r x hx hT hsmall hn

/-- **finding C19.1, precisely**: in kreport a parent can report fewer base pairs than its reported children together,
but by at most ONE base pair, however many children there are -/
theorem kreport_parent_short_by_at_most_one (g : Gather ν) (hv : g.Valid) (r r' : Nat) (hr : r ≤ r')
    (hT : g.W * g.scaled < 2 ^ 53)
    (hsmall : 2 * ((g.rows.length : ℚ) + 1) * ((g.W * g.scaled : Nat) : ℚ) * u < 1)
    (hn : 2 * ((g.rows.length : ℚ) + 1) * u ≤ 1)
    (x : Lineage ν × Tax.Acc SF) (hx : x ∈ sumAtRank f64 g.toF r) :
    (((sumAtRank f64 g.toF r').filter (fun y => decide (popTo y.1 r = x.1))).map
        (fun y => kreportBp y.2.fw (g.W * g.scaled))).sum ≤ kreportBp x.2.fw (g.W * g.scaled) + 1 :=
  kreport_parent_children g hv r r' hr hT hsmall hn x hx

/-- … and it does happen (kernel-checked; `N = 7`, two matches of 4 and 1 hashes in two phyla of one superkingdom):
the phyla report 4 and 1 bp, the superkingdom — whose double `4/7 + 1/7` times 7 is 4.999… — reports 4 -/
theorem kreport_truncation_example :
    let g : Gather Nat := ⟨7, 7, 1, [⟨4, 4, [some 0, some 1]⟩, ⟨1, 1, [some 0, some 2]⟩]⟩
    g.Valid ∧
    (sumAtRank f64 g.toF 0).map (fun x => kreportBp x.2.fw 7) = [4] ∧
    (sumAtRank f64 g.toF 1).map (fun x => kreportBp x.2.fw 7) = [4, 1] := by
  refine ⟨⟨by decide, by decide, by decide, by decide, by decide, by decide⟩, by decide +kernel, by decide +kernel⟩

end Float

/-! ## non-vacuity -/

/-- a valid gather result with two lineages sharing a phylum, a match without species, a match without
lineage and unidentified hashes -/
def demo : Gather Nat :=
  ⟨20, 20, 10, [⟨6, 6, [some 0, some 1, some 2]⟩, ⟨5, 5, [some 0, some 1, some 3]⟩, ⟨4, 4, [some 0, some 4]⟩,
                ⟨2, 2, []⟩, ⟨1, 1, [some 9, none, some 2]⟩]⟩

example : demo.Valid := ⟨by decide, by decide, by decide, by decide, by decide, by decide⟩

/-- the hypotheses of the theorems are satisfiable and the model computes a non-trivial table on them:
in binary64 `demo` has 4 entries at rank 0 (two superkingdoms + … + remainder) and is accepted at all three ranks -/
example : ((sumAtRank f64 demo.toF 0).length, (sumAtRank f64 demo.toF 1).length, (sumAtRank f64 demo.toF 2).length)
    = (2, 2, 3) := by decide +kernel

example : (match buildSummarized f64 none demo.qbp 3 demo.toF none with
    | .ok ess => ess.map List.length
    | .error _ => []) = [3, 3, 4] := by decide +kernel

/-- classification of `demo` at threshold 1/2 in binary64: species 6/20 and 5/20 are below, the phylum 11/20 matches -/
example : (match classify f64 none 3 demo.toF none (some (F64.SF.ofF (F64.divNat 1 2))) true with
    | .ok (some c) => (c.status == .match_) && (c.rank == 1) && (c.lin == [some 0, some 1]) && (c.bp == 110)
    | _ => false) = true := by decide +kernel

end Sm.C19
