/-
C08 — search, prefetch and gather results do not depend on how the database is organised.

Models: `Model/SearchDb.lean` (`Index.find` / `Index.search` of an in-memory collection,
`search_databases_with_flat_query`: per-collection search, de-duplication on `(md5, scaled, num)` keeping the
first row seen, final sort; `commands.prefetch` over several collections) and the gather model of C07, both on list
sketches.  An *organisation* of a set of sketches is a list of collections (`List (List (Sig LS))`):
how many collections, which sketch goes where, in which order it was inserted.  Two organisations hold
the same sketches when their concatenations are permutations of each other.  Container types other than
the in-memory list are related to lists by C06 (each container's `find` = linear scan); here they are
exercised by the `partition` stream.

Statements.
* `search_partition` / `search_insertion_order` / `search_organisation`: the (md5, scaled, score) triples
  returned are the same multiset.  The only hypothesis about md5 values is `MD5OK` (sketches with equal md5
  have equal hashes: md5 is computed from the hashes, collisions are outside the model); that rows with the
  same de-duplication key `(md5, scaled, num)` score equally is PROVED from the model (`same_key_same_score`).
  Finding C08.1 (fixed upstream): the key used to be the md5 alone, and the same hashes stored at two scaled
  values share an md5 but not a score, so the row reported depended on the collection order; the old witness is
  kept as the regression check `search_dedup_regression`.
* `prefetch_organisation`: multi-collection prefetch returns `find` over the concatenation (no
  de-duplication): equal concatenations give equal rows, permuted ones permuted rows.
* `gather_partition`: two prefetch-mode gather runs over two organisations of the same sketches (database at
  one scaled value), in states that have assigned the same hashes: they stop together; when both report, both
  reported sketches attain the same maximal overlap (they are picked from the same arg-max set); and given
  the same pick all numbers coincide and the successor states are again related.  Under C07's `NoD6`.
* `mode_equiv` (prefetch mode vs on-demand mode): proved for every input without D6 (`threshold_bp = 0`, or a
  query at least as coarse as the database; `threshold_bp ≤ 2^50`, sizes below `2^50`): both modes' float
  threshold tests are the integer test `threshold_bp ≤ k · scaled` (C06's analysis of the correctly rounded
  quotient).  FALSE for a query finer than the database with a positive threshold
  (`gather_modes_differ_under_d6`, finding D6m); the `partition` stream compares the two modes on every case.
-/
import SmVerif.Lemmas.SearchDbExamples
import SmVerif.Lemmas.GatherRatOps
import SmVerif.Lemmas.GatherModesT

set_option autoImplicit false

namespace Sm.C08

open Sm Sm.Gather Sm.SearchDb

variable {σ : Type} {ops : ScoreOps σ}

/-! ### tie to the source -/

/-- `search_databases_with_flat_query` de-duplicates on `(match.md5sum(), match.minhash.scaled,
match.minhash.num)` (`dedupKey` / `sigKey`) and `best_containment` sorts on `(-score, md5)` (`bestOf`), as
re-read by the translator -/
theorem translator_shapes :
    Gen.searchDedupKey = "md5,scaled,num" ∧ Gen.bestContainmentKey = "-score,md5" := by decide

/-! ### search -/

/-- rows with the same de-duplication key score equally — from the model: the score depends on the database
sketch only through its scaled value and its hashes, and equal md5 means equal hashes -/
theorem same_key_same_score (st : SearchType) (pq : LS) {db : List (Sig LS)} (hmd5 : MD5OK db)
    {d d' : Sig LS} (hd : d ∈ db) (hd' : d' ∈ db) (hk : sigKey lsOps d = sigKey lsOps d') :
    findScoreS st pq d.mh = findScoreS st pq d'.mh := by
  have h1 : d.md5 = d'.md5 := congrArg Prod.fst hk
  have h2 : d.mh.scaled = d'.mh.scaled := congrArg (fun k => k.2.1) hk
  exact findScoreS_congr st pq h2 (hmd5 d hd d' hd' h1)

/-- `search_organisation`: any two organisations of the same sketches -/
theorem search_organisation (st : SearchType) {pq : LS} (hp : pq.WF) (hflat : pq.ab = none) (thr : F64.F)
    {dbs dbs' : List (List (Sig LS))} (hwf : ∀ db ∈ dbs, ∀ d ∈ db, d.mh.WF)
    (hwf' : ∀ db ∈ dbs', ∀ d ∈ db, d.mh.WF) (hperm : dbs.flatten.Perm dbs'.flatten)
    (hmd5 : MD5OK dbs.flatten) :
    ∃ r r', searchDatabases lsOps st dbs pq thr false = .ok r ∧
      searchDatabases lsOps st dbs' pq thr false = .ok r' ∧ (r.map rowKey).Perm (r'.map rowKey) :=
  search_perm st hp hflat thr hwf hwf' hperm hmd5

/-- `search_partition`: one collection `db₁ ++ db₂` against the two collections `db₁`, `db₂` -/
theorem search_partition (st : SearchType) {pq : LS} (hp : pq.WF) (hflat : pq.ab = none) (thr : F64.F)
    {db1 db2 : List (Sig LS)} (hwf : ∀ d ∈ db1 ++ db2, d.mh.WF) (hmd5 : MD5OK (db1 ++ db2)) :
    ∃ r r', searchDatabases lsOps st [db1 ++ db2] pq thr false = .ok r ∧
      searchDatabases lsOps st [db1, db2] pq thr false = .ok r' ∧ (r.map rowKey).Perm (r'.map rowKey) := by
  apply search_perm st hp hflat thr
  · intro db hdb d hd
    simp only [List.mem_singleton] at hdb; subst hdb; exact hwf d hd
  · intro db hdb d hd
    simp only [List.mem_cons, List.mem_nil_iff, or_false] at hdb
    rcases hdb with rfl | rfl
    · exact hwf d (List.mem_append_left _ hd)
    · exact hwf d (List.mem_append_right _ hd)
  · simp
  · simpa using hmd5

/-- `search_insertion_order`: the same collection filled in another order -/
theorem search_insertion_order (st : SearchType) {pq : LS} (hp : pq.WF) (hflat : pq.ab = none) (thr : F64.F)
    {db db' : List (Sig LS)} (hperm : db.Perm db') (hwf : ∀ d ∈ db, d.mh.WF) (hmd5 : MD5OK db) :
    ∃ r r', searchDatabases lsOps st [db] pq thr false = .ok r ∧
      searchDatabases lsOps st [db'] pq thr false = .ok r' ∧ (r.map rowKey).Perm (r'.map rowKey) := by
  apply search_perm st hp hflat thr
  · intro x hx d hd
    simp only [List.mem_singleton] at hx; subst hx; exact hwf d hd
  · intro x hx d hd
    simp only [List.mem_singleton] at hx; subst hx; exact hwf d (hperm.mem_iff.2 hd)
  · simpa using hperm
  · simpa using hmd5

/-- **regression for finding C08.1 (fixed upstream)**: the hashes {1, 2} stored at scaled 2 and at scaled 4 (same
md5, `dup_md5ok`); Jaccard with the query is 2/6 resp. 2/3.  With the md5-only key, searching [[A],[B]] reported
md5 7 with 2/6 while [[B],[A]] and [[A,B]] reported it with 2/3; with the key `(md5, scaled, num)` the three
organisations report the same two rows. -/
theorem search_dedup_regression : dupCheck = true ∧ MD5OK [dupA, dupB] := ⟨dupCheck_true, dup_md5ok⟩

/-! ### prefetch over several collections -/

/-- `prefetch_organisation`: the rows are `find` over the concatenation of the collections -/
theorem prefetch_organisation {pq : LS} (hp : pq.WF) (hflat : pq.ab = none) (hne : pq.hs ≠ []) {thr : Nat}
    {t nT : F64.F} (hthr : calcThreshold thr pq.scaled pq.hs.length = .ok (t, nT))
    (dbs : List (List (Sig LS))) (hwf : ∀ db ∈ dbs, ∀ d ∈ db, d.mh.WF) :
    prefetchDatabases lsOps pq thr dbs =
      .ok ((dbs.flatten.filter (fun d => passes (findScore pq d.mh) t)).map (fun d => (findScore pq d.mh, d))) :=
  prefetchDatabases_ls hp hflat hne hthr dbs hwf

/-- ... hence equal for any two partitions of the same sequence, and permuted for permuted sketches -/
theorem prefetch_partition {pq : LS} (hp : pq.WF) (hflat : pq.ab = none) (hne : pq.hs ≠ []) {thr : Nat}
    {t nT : F64.F} (hthr : calcThreshold thr pq.scaled pq.hs.length = .ok (t, nT))
    {dbs dbs' : List (List (Sig LS))} (hwf : ∀ db ∈ dbs, ∀ d ∈ db, d.mh.WF)
    (hwf' : ∀ db ∈ dbs', ∀ d ∈ db, d.mh.WF) (hperm : dbs.flatten.Perm dbs'.flatten) :
    ∃ r r', prefetchDatabases lsOps pq thr dbs = .ok r ∧ prefetchDatabases lsOps pq thr dbs' = .ok r' ∧
      r.Perm r' ∧ (dbs.flatten = dbs'.flatten → r = r') := by
  refine ⟨_, _, prefetchDatabases_ls hp hflat hne hthr dbs hwf, prefetchDatabases_ls hp hflat hne hthr dbs' hwf',
    (hperm.filter _).map _, ?_⟩
  intro h; rw [h]

/-! ### gather -/

/-- `gather_partition` (see the header) -/
theorem gather_partition (laws : ScoreLaws ops) {q : LS} {sd thr : Nat} {t nT : F64.F}
    {dbs dbs' : List (List (Sig LS))} {Q0 NI0 : List Nat} {g0 h0 g h g' h' : GD LS}
    {rA rB : Option (GRes σ)}
    (A : RunSetup q sd thr t nT dbs Q0 NI0 g0) (B : RunSetup q sd thr t nT dbs' Q0 NI0 h0)
    (hperm : dbs.flatten.Perm dbs'.flatten)
    (hrA : Reach ops g0 g) (hrB : Reach ops h0 h) (rel : Rel q.scaled sd g h)
    (hnA : g.next lsOps ops = .ok (g', rA)) (hnB : h.next lsOps ops = .ok (h', rB)) :
    match rA, rB with
    | none, none => Rel q.scaled sd g' h'
    | some a, some b =>
      ∃ bestA ∈ dbs.flatten, ∃ bestB ∈ dbs'.flatten,
        a.name = bestA.name ∧ a.md5 = bestA.md5 ∧ b.name = bestB.name ∧ b.md5 = bestB.md5 ∧
        ovl (g.unassigned q.scaled sd) (dn (max q.scaled sd) bestA.mh.hs)
          = ovl (g.unassigned q.scaled sd) (dn (max q.scaled sd) bestB.mh.hs) ∧
        (dn (max q.scaled sd) bestA.mh.hs = dn (max q.scaled sd) bestB.mh.hs →
          SameNumbers a b ∧ Rel q.scaled sd g' h')
    | none, some _ => False
    | some _, none => False :=
  Sm.Gather.gather_partition laws A B hperm hrA hrB rel hnA hnB

/-- the initial states of two runs over the same query are related -/
theorem gather_partition_init {sq sd : Nat} {g0 h0 : GD LS} {q : LS} {thr : Nat}
    (hg : g0.unassigned sq sd = dn (max sq sd) q.hs) (hh : h0.unassigned sq sd = dn (max sq sd) q.hs)
    (rg : g0.resultN = 0) (rh : h0.resultN = 0) (og : g0.origSigMh = q) (oh : h0.origSigMh = q)
    (ab : g0.origQueryAbunds = h0.origQueryAbunds) (tr : g0.trackAbundance = h0.trackAbundance)
    (tg : g0.thresholdBp = thr) (th : h0.thresholdBp = thr) : Rel sq sd g0 h0 :=
  ⟨by rw [hg, hh], by rw [rg, rh], by rw [og, oh], ab, tr, by rw [tg, th]⟩

/- FULL STATEMENT (false without the input condition): mode_equiv for every input — a prefetch-mode run
   (`counter_gather` + `CounterGather.peek`) and an on-demand run (`Index.peek` = `best_containment` each round)
   over the same sketches satisfy the conclusion of `gather_partition`.
   Proved below (`mode_equiv`) for `threshold_bp = 0` or a query at least as coarse as the database: `Index.peek`'s
   threshold `fl(fl(threshold_bp / scaled) / n)` accepts exactly the overlaps `k` with `threshold_bp ≤ k·scaled`,
   and so does `CounterGather.peek`'s test `k ≥ fl(threshold_bp / scaled)` (`Sm.C07.threshold_tests_exact`);
   `Index.find` with the best-only threshold raising returns an arg-max of `fl(k / n)`, which is strictly
   increasing in `k` (`F64.divNat_strict_mono`); an unattainable threshold stops both modes.
   For a query finer than the database and threshold_bp > 0 the statement is FALSE (finding D6m): -/
theorem gather_modes_differ_under_d6 : modeCheck = true := modeCheck_true

/-- **`mode_equiv`** on inputs without D6 (see the comment block above) -/
theorem mode_equiv (lawsA : ScoreLaws ops) (lawsB : IdxLaws ops) {q : LS} {sd thr : Nat} {t nT : F64.F}
    {dbs dbs' : List (List (Sig LS))} {Q0 NI0 : List Nat} {g0 h0 g h g' h' : GD LS}
    {rA rB : Option (GRes σ)} (hin : thr = 0 ∨ sd ≤ q.scaled) (hthr50 : thr ≤ 2 ^ 50) (hsd : sd ≤ 2 ^ 31)
    (A : RunSetup q sd thr t nT dbs Q0 NI0 g0) (B : IdxSetupT thr q.scaled sd dbs' Q0 NI0 h0)
    (hperm : dbs.flatten.Perm dbs'.flatten)
    (hrA : Reach ops g0 g) (hrB : Reach ops h0 h) (rel : Rel q.scaled sd g h)
    (hnA : g.next lsOps ops = .ok (g', rA)) (hnB : h.next lsOps ops = .ok (h', rB)) :
    match rA, rB with
    | none, none => Rel q.scaled sd g' h'
    | some a, some b =>
      ∃ bestA ∈ dbs.flatten, ∃ bestB ∈ dbs'.flatten,
        a.name = bestA.name ∧ a.md5 = bestA.md5 ∧ b.name = bestB.name ∧ b.md5 = bestB.md5 ∧
        ovl (g.unassigned q.scaled sd) (dn (max q.scaled sd) bestA.mh.hs)
          = ovl (g.unassigned q.scaled sd) (dn (max q.scaled sd) bestB.mh.hs) ∧
        (dn (max q.scaled sd) bestA.mh.hs = dn (max q.scaled sd) bestB.mh.hs →
          SameNumbers a b ∧ Rel q.scaled sd g' h')
    | none, some _ => False
    | some _, none => False :=
  mode_equiv_noD6 lawsA lawsB hin hthr50 hsd A B hperm hrA hrB rel hnA hnB

/-- each on-demand round reports a sketch of maximal overlap among the ELIGIBLE ones (non-empty overlap worth at
least `threshold_bp` base pairs) and stops exactly when no sketch is eligible (`RoundT`); the invariants are
kept -/
theorem ondemand_round (laws : IdxLaws ops) {thr sq sd : Nat} {dbs : List (List (Sig LS))} {Q0 NI0 : List Nat}
    {g g' : GD LS} {r : Option (GRes σ)} (hin : thr = 0 ∨ sd ≤ sq) (hthr50 : thr ≤ 2 ^ 50)
    (B : IdxSetupT thr sq sd dbs Q0 NI0 g) (hn : g.next lsOps ops = .ok (g', r)) :
    RoundT ops thr sq sd dbs.flatten Q0 NI0 g g' r ∧ IdxSetupT thr sq sd dbs Q0 NI0 g' := by
  obtain ⟨i1, i2, i3, i4, i5⟩ := roundT_idx laws hin hthr50 B.inv B.acc B.thr B.size hn
  exact ⟨i1, i2, i3, i4, i5⟩

/-- the hypotheses of the prefetch-mode side follow from the inputs: `NoD6` is implied by the input condition -/
theorem run_setup_of_inputs {q : LS} {sd thr : Nat} {t nT : F64.F} {dbs : List (List (Sig LS))}
    {Q0 NI0 : List Nat} {g0 : GD LS} (hq : q.WF)
    (hdb : ∀ db ∈ dbs, ∀ d ∈ db, d.mh.WF ∧ d.mh.scaled = sd)
    (hthr : calcThreshold thr q.scaled q.hs.length = .ok (t, nT)) (hin : thr = 0 ∨ sd ≤ q.scaled)
    (hthr53 : thr < 2 ^ 53) (hsize : q.hs.length < 2 ^ 53)
    (h0 : GInv q.scaled sd (candLists q t dbs) g0) (a0 : AInv q.scaled sd Q0 NI0 g0)
    (hun0 : g0.unassigned q.scaled sd = dn (max q.scaled sd) q.hs) (hthr0 : g0.thresholdBp = thr) :
    RunSetup q sd thr t nT dbs Q0 NI0 g0 :=
  ⟨hq, hdb, hthr, noD6_of_inputs hq hthr53 hsize hthr hin, hsize, h0, a0, hun0, hthr0⟩

/-- the on-demand hypotheses hold after `GatherDatabases.__init__(query, [index, ...], threshold_bp)` -/
theorem mode_equiv_init {q : LS} (hq : q.WF) {sd thr : Nat} (hsd1 : 1 ≤ sd) (hsd2 : sd ≤ 2 ^ 31)
    {dbs : List (List (Sig LS))} {ign : Bool} {g : GD LS}
    (hdb : ∀ db ∈ dbs, ∀ d ∈ db, d.mh.WF ∧ d.mh.scaled = sd) (hsize : q.hs.length < 2 ^ 50)
    (h : GD.init lsOps q (dbs.map CObj.idx) thr ign none none = .ok g) :
    IdxSetupT thr q.scaled sd dbs q.hs [] g ∧ g.unassigned q.scaled sd = dn (max q.scaled sd) q.hs ∧
    g.origSigMh = q ∧ g.resultN = 0 :=
  init_idxT hq hsd1 hsd2 hdb hsize h

/-! ### non-vacuity -/

/-- both score laws are satisfiable together -/
example : ScoreLaws ratOps ∧ IdxLaws ratOps := ⟨ratOps_laws, ratOps_idxLaws⟩


/-- the hypotheses of `search_organisation` are satisfiable with a non-trivial result: the C07 example
database against its (flattened) query -/
example :
    (match searchDatabases lsOps .containment [[exD1, exD2], [exD3]] exQuery.flat fzero false with
     | .ok r => r.map rowKey
     | .error _ => []) = [(12, 2, F64.divNat 11 20), (11, 2, F64.divNat 10 20), (13, 2, F64.divNat 5 20)] := by
  decide +kernel

end Sm.C08
