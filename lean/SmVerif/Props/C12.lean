/-
C12 — Selection and picklists keep exactly the signatures that satisfy them.

Model: `SmVerif/Model/Select.lean` (the selection routines are *interpreted* from the statement lists
the translator re-extracts from `select_signature`, `CollectionManifest._select` and
`SqliteCollectionManifest._make_select` on every run; the picklist tables and the presence of `assert q`
in the manifest-row path likewise).

`Sat c s` is what the statement calls "satisfies all the criteria" of one `select` call:
k-mer size, molecule type, scaled-or-num kind (a num request names the num), abundance when
required, containment capability (= a scaled sketch), the picklist.  `WF s`: a sketch is a num
sketch or a scaled sketch.

State of the source these theorems are about (after fixes b86e966, b14179d, 73316d8, cee6873, f20102b):
the manifest-row path no longer asserts, a num request is compared by value in manifests and in SQL,
SQL has a clause for `abund` and SqliteIndex refuses it, SqliteIndex.find is restricted to the selected
ids, SBT.select on an empty selection returns self.  Hence, for every collection / criteria / chain:
* the reference predicate `select_signature` decides `Sat` or refuses (`containment` without `scaled`);
* `row_eq_sig`, `picklist_row_eq_sig`, `sql_eq_reference` hold at full strength: the manifest-row path and
  the SQL path never raise and decide `Sat` (SQL: on well-formed sketches);
* LinearIndex, LazyLinearIndex, MultiIndex, ZipFileLinearIndex with / without manifest, SqliteIndex keep
  exactly the satisfying signatures or refuse; successive selections are the conjunction or a refusal;
* filtering a zip's manifest before loading = filtering the loaded signatures (`pre_post_equiv`);
* searches stay inside the selection on every container (`search_respects_selection`);
* picklist value functions are the documented ones; prefix collisions behave as the string functions say.
One theorem over all containers: `select_exact`, `select_conj`, `select_chain` (section 6a) hold for every container of
the model, with the exclusions explicit in `Coll.Ok` / `Coll.Compat` — picklist identity where dicts are merged,
homogeneous SBT leaves, and, for standalone manifests, `SmiExact` / `SqlmfExact`: no deselected signature of a still
listed file shares its key with a selected one, the key being what `to_picklist()` compares — re-read from the source per
manifest class: the full (name, md5) since fix cff7217, (identifier, md5[:8]) before.  Section 8b proves that this is
*exactly* what StandaloneManifestIndex needs (`select_exact_standalone_iff`), spells the remaining exclusion out
(`standalone_exclusion_now`: same name and same md5 — what is left of known finding C12.3,
`standalone_same_name_md5_counterexample`) and keeps the old variant as regressions.  Section 9: SBT with and without
manifest, and LCA databases whose `_signatures` cache was filled before the selection (`lca_select_after_cache`).
Section 8c: a picklist made from the manifest / search / prefetch / gather output of a selection gives that selection back
iff no such collision (`output_picklist_roundtrip`).  The old variants of the repaired routines are kept as regression
examples (`…_old_variant…`).
-/
import SmVerif.Lemmas.SelectGeneric

namespace Sm.C12

open Sm Sm.Select
open Sm.Gen (Coltype SelExpr)

/-! ## 1. the reference predicate -/

/-- `select_signature` answers `Sat`, answers `False` early on a k-mer size / molecule mismatch, or
    refuses (ValueError) when `containment` is requested without `scaled` -/
theorem reference_predicate_spec {s : Sig} (c : Crit) (hwf : WF s) :
    selectSignature s c =
      if c.ksizeBad s.ksize || c.molBad s.mol then .ok false
      else if c.incoherent then .error .value
      else .ok (Sat c s) :=
  selectSignature_spec c hwf

theorem reference_ok_iff_sat {s : Sig} {c : Crit} {b : Bool} (hwf : WF s) (h : selectSignature s c = .ok b) :
    b = Sat c s :=
  selectSignature_ok hwf h

theorem reference_refusal {s : Sig} {c : Crit} {e : Err} (hwf : WF s) (h : selectSignature s c = .error e) :
    e = .value ∧ c.incoherent = true :=
  selectSignature_error hwf h

/-! ## 2. manifest rows against loaded signatures -/

/-- a row made by `make_manifest_row` from `s` passes `CollectionManifest._select` iff `s` satisfies the request;
    the row path never refuses -/
theorem row_decides_sat (s : Sig) (c : Crit) (loc : Nat) : rowPasses (mkRow s loc) c = .ok (Sat c s) :=
  rowPasses_total s c loc

/-- `row = make_manifest_row ss`: wherever the reference predicate does not refuse, the row passes
    `manifest._select` iff `select_signature` accepts the signature -/
theorem row_eq_sig {s : Sig} {c : Crit} {loc : Nat} {b : Bool} (hwf : WF s) (hsig : selectSignature s c = .ok b) :
    rowPasses (mkRow s loc) c = .ok b := by
  rw [rowPasses_total, selectSignature_ok hwf hsig]

def numSketch1000 : Sig :=
  { ksize := 31, mol := .DNA, num := 1000, scaled := 0, abund := false, name := ['n'], md5 := ['a', 'b'], hashes := [1] }

/-- regression (variant before fix b14179d, known finding C12.1): with the old clause
    `row["num"] and not row["scaled"]` a num=1000 row passed a `num=500` request that `select_signature` rejects -/
theorem row_eq_sig_old_variant_regression :
    let oldNumClause : SelExpr × SelExpr := (.param .num, .and (.attr .num) (.not (.attr .scaled)))
    clauseOk (rowEnv (mkRow numSketch1000 0) { num := some 500 }) oldNumClause = .ok true ∧
      rowPasses (mkRow numSketch1000 0) { num := some 500 } = .ok false ∧
      selectSignature numSketch1000 { num := some 500 } = .ok false :=
  ⟨rfl, rfl, rfl⟩

/-! ## 3. picklists: manifest-row path against signature path -/

/-- `matches_manifest_row(row)` answers what `ss in picklist` answers — for every column type, both styles,
    named and unnamed signatures -/
theorem picklist_row_eq_sig (pl : Picklist) (s : Sig) (loc : Nat) :
    pl.matchesRow (mkRow s loc) = .ok (pl.hasSig s) :=
  matchesRow_total pl s loc

def unnamedSig : Sig :=
  { ksize := 31, mol := .DNA, num := 0, scaled := 1000, abund := false, name := [], md5 := ['a', 'b'], hashes := [1] }

def namePicklist : Picklist := { id := 1, coltype := .name, exclude := false, pickset := [.s ['x']] }

/-- an unnamed signature under a name picklist: no match, through a LinearIndex and through a manifest alike -/
example :
    ((Coll.linear [unnamedSig]).select { picklist := some namePicklist }).2 = .ok (.linear []) ∧
      ((Coll.multi [(mkRow unnamedSig 0, unnamedSig)]).select { picklist := some namePicklist }).2 = .ok (.multi []) :=
  ⟨rfl, rfl⟩

/-- regression (variant before fix b86e966, D7): with `assert q` the row path raised exactly when the looked-up
    column was empty — whatever the variant answers otherwise is the signature path's answer -/
theorem picklist_row_old_variant_raises_iff (ct : Coltype) (s : Sig) (loc : Nat) :
    (∃ e, rowValueWith true ct (mkRow s loc) = .error e) ↔
      (match Gen.rowKeyOf ct with
       | .pair => False
       | .md5 => s.md5 = []
       | .md5short => s.md5.take 8 = []
       | .name => s.name = []) := by
  rw [rowValueWith_error_iff]
  exact ⟨fun h => h.2, fun h => ⟨rfl, h⟩⟩

theorem picklist_row_old_variant_regression :
    rowValueWith true .name (mkRow unnamedSig 0) = .error .assertion ∧
      namePicklist.matchesRow (mkRow unnamedSig 0) = .ok false ∧ namePicklist.hasSig unnamedSig = false :=
  ⟨rfl, rfl, rfl⟩

/-! ## 4. the SQL conditions against the reference predicate -/

/-- the `WHERE` of `_make_select` followed by the Python picklist pass decides `Sat` on every well-formed sketch
    and never raises -/
theorem sql_decides_sat {s : Sig} (c : Crit) (loc : Nat) (hwf : WF s) : sqlRowPasses (mkRow s loc) c = .ok (Sat c s) :=
  sqlRowPasses_total c loc hwf

theorem sql_eq_reference {s : Sig} {c : Crit} {loc : Nat} {b : Bool} (hwf : WF s) (hsig : selectSignature s c = .ok b) :
    sqlRowPasses (mkRow s loc) c = .ok b := by
  rw [sqlRowPasses_total c loc hwf, selectSignature_ok hwf hsig]

def flatSig : Sig :=
  { ksize := 31, mol := .DNA, num := 0, scaled := 1000, abund := false, name := ['f'], md5 := ['a', 'b'], hashes := [1] }

/-- regression (variant before fix 73316d8, known finding C12.2): the old `WHERE` had no clause for `abund` (and only
    `num > 0` for a num request): a flat sketch passed `abund=True`; now it does not, and SqliteIndex refuses the request -/
theorem sql_eq_reference_old_variant_regression :
    let oldSql : List (SelExpr × SelExpr) :=
      [((.and (.has .ksize) (.param .ksize)), (.eq .ksize .ksize)),
       ((.and (.has .num) (.gt0 .num)), (.attr .num)),
       ((.and (.has .scaled) (.gt0 .scaled)), (.attr .scaled)),
       ((.and (.has .containment) (.param .containment)), (.attr .scaled)),
       ((.and (.has .moltype) (.notNone .moltype)), (.eq .moltype .moltype))]
    clausesPass { crit := { abund := .val true }, attr := rowAttrVal (mkRow flatSig 0), inPl := .ok true } oldSql = .ok true ∧
      sqlRowPasses (mkRow flatSig 0) { abund := .val true } = .ok false ∧
      ((Coll.sqlite [(mkRow flatSig 0, flatSig)] {}).select { abund := .val true }).2 = .error .value :=
  ⟨rfl, rfl, rfl⟩

/-! ## 5. `select` keeps exactly the satisfying signatures, or refuses -/

/-- LinearIndex -/
theorem select_exact_linear {sigs : List Sig} {c : Crit} {y : Coll} (hwf : ∀ s ∈ sigs, WF s)
    (h : ((Coll.linear sigs).select c).2 = .ok y) :
    y = .linear (sigs.filter (Sat c)) ∧ y.signatures = .ok (sigs.filter (Sat c)) := by
  have := linear_select_ok hwf h
  subst this
  exact ⟨rfl, rfl⟩

theorem select_refusal_linear {sigs : List Sig} {c : Crit} {e : Err} (hwf : ∀ s ∈ sigs, WF s)
    (h : ((Coll.linear sigs).select c).2 = .error e) : e = .value ∧ c.incoherent = true :=
  linear_select_error hwf h

/-- MultiIndex (a manifest whose rows carry their signatures): never refuses, keeps exactly the satisfying ones -/
theorem select_exact_manifest {rows : List (Row × Sig)} (c : Crit) (hrows : RowsOf rows) :
    ∃ y, ((Coll.multi rows).select c).2 = .ok y ∧ y = .multi (rows.filter (fun rs => Sat c rs.2)) ∧
      y.signatures = .ok ((rows.map (·.2)).filter (Sat c)) := by
  refine ⟨_, multi_select_total c hrows, rfl, ?_⟩
  simp only [Coll.signatures, List.filter_map]
  rfl

/-- ZipFileLinearIndex with a manifest (one file per signature): selecting on the manifest and loading -/
theorem select_exact_zip {rs : List (Row × Sig)} (c : Crit) (hok : ZipOk rs) :
    ∃ y, ((Coll.zipM (rs.map (·.1)) (storeOf rs)).select c).2 = .ok y ∧
      y.signatures = .ok ((rs.map (·.2)).filter (Sat c)) :=
  zipM_select_signatures c hok

/-- LazyLinearIndex: whatever chain of `select` calls produced the merged dict `d` -/
theorem select_exact_lazy {sigs l : List Sig} {d : Crit} (hwf : ∀ s ∈ sigs, WF s)
    (h : (Coll.lazy sigs d).signatures = .ok l) : l = sigs.filter (Sat d) :=
  lazy_signatures hwf h

/-- ZipFileLinearIndex without a manifest -/
theorem select_exact_zip_nomanifest {sigs l : List Sig} {d : Crit} (hwf : ∀ s ∈ sigs, WF s)
    (h : (Coll.zipNM sigs d).signatures = .ok l) : l = sigs.filter (Sat d) :=
  zipNM_signatures hwf h

/-- SqliteIndex: a `num` or an `abund=True` request is refused; an accepted request keeps exactly the stored sketches
    satisfying it -/
theorem select_exact_sqlite {all : List (Row × Sig)} {c : Crit} {y : Coll} (hrows : RowsOf all)
    (hwf : ∀ x ∈ all, WF x.2) (h : ((Coll.sqlite all {}).select c).2 = .ok y) :
    c.numV = 0 ∧ c.abundReq = false ∧ y.signatures = .ok ((all.map (·.2)).filter (Sat c)) := by
  obtain ⟨hn, ha, d, hm, hy⟩ := sqlite_select h
  subst hy
  rw [mergeZip_empty] at hm
  injection hm with hm
  subst hm
  refine ⟨hn, ha, ?_⟩
  rw [(sqlite_signatures _ hrows hwf).1]
  congr 2
  funext s
  exact Sat_forSql hn ha s

/-! ## 6. successive selections act as a conjunction (or refuse) -/

theorem select_conj_linear {sigs : List Sig} {c₁ c₂ : Crit} {y z : Coll} (hwf : ∀ s ∈ sigs, WF s)
    (h₁ : ((Coll.linear sigs).select c₁).2 = .ok y) (h₂ : (y.select c₂).2 = .ok z) :
    z.signatures = .ok (sigs.filter (fun s => Sat c₁ s && Sat c₂ s)) := by
  obtain ⟨hy, _⟩ := select_exact_linear hwf h₁
  subst hy
  have hwf' : ∀ s ∈ sigs.filter (Sat c₁), WF s := fun s hs => hwf s (List.mem_filter.mp hs).1
  obtain ⟨hz, _⟩ := select_exact_linear hwf' h₂
  subst hz
  simp only [Coll.signatures, List.filter_filter]
  congr 2
  funext s
  exact Bool.and_comm _ _

/-- MultiIndex: two selections never refuse and leave the conjunction -/
theorem select_conj_manifest {rows : List (Row × Sig)} (c₁ c₂ : Crit) (hrows : RowsOf rows) :
    ∃ y z, ((Coll.multi rows).select c₁).2 = .ok y ∧ (y.select c₂).2 = .ok z ∧
      z.signatures = .ok ((rows.map (·.2)).filter (fun s => Sat c₁ s && Sat c₂ s)) := by
  have sub : RowsOf (rows.filter (fun rs => Sat c₁ rs.2)) := fun rs hrs => hrows rs (List.mem_filter.mp hrs).1
  refine ⟨_, _, multi_select_total c₁ hrows, multi_select_total c₂ sub, ?_⟩
  simp only [Coll.signatures, List.filter_filter, List.filter_map]
  congr 2
  apply List.filter_congr
  intro rs _
  exact Bool.and_comm _ _

/-- LazyLinearIndex merges the selection dicts; the merged dict means the conjunction, or the merge refuses -/
theorem select_conj_lazy {sigs l : List Sig} {c₁ c₂ : Crit} {y z : Coll} (hwf : ∀ s ∈ sigs, WF s)
    (hid : SamePl c₁ c₂)
    (h₁ : ((Coll.lazy sigs {}).select c₁).2 = .ok y) (h₂ : (y.select c₂).2 = .ok z)
    (hl : z.signatures = .ok l) : l = sigs.filter (fun s => Sat c₁ s && Sat c₂ s) := by
  obtain ⟨d₁, hm₁, hy⟩ := lazy_select h₁
  subst hy
  rw [mergeLazy_empty] at hm₁
  injection hm₁ with hm₁
  subst hm₁
  obtain ⟨d₂, hm₂, hz⟩ := lazy_select h₂
  subst hz
  rw [lazy_signatures hwf hl]
  apply List.filter_congr
  intro s _
  exact mergeLazy_sat s hid hm₂

/-- one more `select` on a LazyLinearIndex holding any merged dict `d` -/
theorem select_step_lazy {sigs l : List Sig} {d c : Crit} {z : Coll} (hwf : ∀ s ∈ sigs, WF s) (hid : SamePl d c)
    (h : ((Coll.lazy sigs d).select c).2 = .ok z) (hl : z.signatures = .ok l) :
    l = sigs.filter (fun s => Sat d s && Sat c s) := by
  obtain ⟨d', hm, hz⟩ := lazy_select h
  subst hz
  rw [lazy_signatures hwf hl]
  apply List.filter_congr
  intro s _
  exact mergeLazy_sat s hid hm

theorem select_conj_zip_nomanifest {sigs l : List Sig} {c₁ c₂ : Crit} {y z : Coll} (hwf : ∀ s ∈ sigs, WF s)
    (hid : SamePl c₁ c₂)
    (h₁ : ((Coll.zipNM sigs {}).select c₁).2 = .ok y) (h₂ : (y.select c₂).2 = .ok z)
    (hl : z.signatures = .ok l) : l = sigs.filter (fun s => Sat c₁ s && Sat c₂ s) := by
  obtain ⟨d₁, hm₁, hy⟩ := zipNM_select h₁
  subst hy
  rw [mergeZip_empty] at hm₁
  injection hm₁ with hm₁
  subst hm₁
  obtain ⟨d₂, hm₂, hz⟩ := zipNM_select h₂
  subst hz
  rw [zipNM_signatures hwf hl]
  apply List.filter_congr
  intro s _
  exact mergeZip_sat s hid hm₂

/-- one more `select` on a SqliteIndex holding any merged dict `d`: refused, or the conjunction -/
theorem select_step_sqlite {all : List (Row × Sig)} {d c : Crit} {z : Coll} (hrows : RowsOf all)
    (hwf : ∀ x ∈ all, WF x.2) (hid : SamePl d c) (h : ((Coll.sqlite all d).select c).2 = .ok z) :
    z.signatures = .ok ((all.map (·.2)).filter (fun s => Sat d s && Sat c s)) := by
  obtain ⟨hn, ha, d', hm, hz⟩ := sqlite_select h
  subst hz
  rw [(sqlite_signatures _ hrows hwf).1]
  congr 2
  funext s
  rw [mergeZip_sat s (c2 := c.forSql) hid hm, Sat_forSql hn ha]

/-! ## 6a. one theorem over all containers

`Coll.Ok x`: the container is what the generator builds and what `select` preserves (rows made by `make_manifest_row`,
stores consistent with their manifests, sketches well-formed, SBT leaves homogeneous, LCA cache computed under a prefix
of the picklists now held).  `Coll.Compat x c` are the exclusions, made explicit: picklists are objects (equal identity
= equal picklist) where selection dicts get merged, and a standalone manifest must not — after this request — be able to
re-read a deselected signature through an (identifier, md5[:8]) collision (`SmiExact` / `SqlmfExact`, known finding
C12.3).  `SBT.select` looking at its first signature only is covered by the homogeneity in `Ok`.  Listings are compared
up to permutation (a standalone manifest lists file by file). -/

/-- `select` on any container keeps exactly the signatures satisfying the request (and the result is again well-formed) -/
theorem select_exact {x y : Coll} {c : Crit} {l₀ l : List Sig} (hok : x.Ok) (hc : x.Compat c)
    (h : (x.select c).2 = .ok y) (h₀ : x.signatures = .ok l₀) (hl : y.signatures = .ok l) :
    y.Ok ∧ l.Perm (l₀.filter (Sat c)) := by
  obtain ⟨hy, hperm⟩ := select_step hok hc h
  rw [listing_of_signatures hok h₀, listing_of_signatures hy hl]
  exact ⟨hy, hperm⟩

/-- successive selections act as a conjunction, on every container: whenever both are accepted, what is listed in the end
    is what was listed at the start, filtered by both requests -/
theorem select_conj {x y z : Coll} {c₁ c₂ : Crit} {l₀ l : List Sig} (hok : x.Ok)
    (hc₁ : x.Compat c₁) (h₁ : (x.select c₁).2 = .ok y) (hc₂ : y.Compat c₂) (h₂ : (y.select c₂).2 = .ok z)
    (h₀ : x.signatures = .ok l₀) (hl : z.signatures = .ok l) :
    l.Perm (l₀.filter (fun s => Sat c₁ s && Sat c₂ s)) := by
  obtain ⟨hy, hp₁⟩ := select_step hok hc₁ h₁
  obtain ⟨hz, hp₂⟩ := select_step hy hc₂ h₂
  rw [listing_of_signatures hok h₀, listing_of_signatures hz hl]
  refine hp₂.trans ?_
  have := hp₁.filter (Sat c₂)
  rw [List.filter_filter] at this
  refine this.trans (List.Perm.of_eq ?_)
  apply List.filter_congr
  intro s _
  exact Bool.and_comm _ _

/-- a chain of accepted selections, each outside the exclusions -/
inductive Chain : Coll → List Crit → Coll → Prop where
  | nil (x : Coll) : Chain x [] x
  | cons {x y z : Coll} {c : Crit} {cs : List Crit} :
      x.Compat c → (x.select c).2 = .ok y → Chain y cs z → Chain x (c :: cs) z

/-- … and so does any chain of accepted selections, of any length -/
theorem select_chain {x z : Coll} {cs : List Crit} (hok : x.Ok) (h : Chain x cs z) :
    z.Ok ∧ z.listing.Perm (x.listing.filter (fun s => cs.all (fun c => Sat c s))) := by
  induction h with
  | nil x =>
    refine ⟨hok, List.Perm.of_eq ?_⟩
    simp only [List.all_nil]
    exact (List.filter_eq_self.mpr (fun _ _ => rfl)).symm
  | @cons x y z c cs hcomp hsel _ ih =>
    obtain ⟨hy, hp⟩ := select_step hok hcomp hsel
    obtain ⟨hz, hq⟩ := ih hy
    refine ⟨hz, hq.trans ?_⟩
    have := hp.filter (fun s => cs.all (fun c => Sat c s))
    rw [List.filter_filter] at this
    refine this.trans (List.Perm.of_eq ?_)
    apply List.filter_congr
    intro s _
    simp [List.all_cons, Bool.and_comm]

/-! ## 6b. filtering the manifest before loading = filtering the loaded signatures -/

/-- a zip collection (one file per signature, rows made by `make_manifest_row`, distinct locations): `select` on the
    manifest followed by loading the listed files never refuses and yields exactly what loading everything and
    filtering with `select_signature` yields, whenever the latter does not refuse -/
theorem pre_post_equiv {rs : List (Row × Sig)} {c : Crit} {y' : Coll} (hok : ZipOk rs) (hwf : ∀ x ∈ rs, WF x.2)
    (hpost : ((Coll.linear (rs.map (·.2))).select c).2 = .ok y') :
    ∃ y, ((Coll.zipM (rs.map (·.1)) (storeOf rs)).select c).2 = .ok y ∧ y.signatures = y'.signatures ∧
      y.signatures = .ok ((rs.map (·.2)).filter (Sat c)) := by
  obtain ⟨y, hy, h1⟩ := zipM_select_signatures c hok
  have hwf' : ∀ s ∈ rs.map (·.2), WF s := by
    intro s hs
    obtain ⟨x, hx, rfl⟩ := List.mem_map.mp hs
    exact hwf x hx
  have h2 := (select_exact_linear hwf' hpost).2
  exact ⟨y, hy, h1.trans h2.symm, h1⟩

/-! ## 7. searches consider only the selection -/

/-- an SBT reloaded from its zip: manifest rows, stored leaf files and in-memory leaves describe the same signatures
    (vacuous for every other container) -/
def SbtManifestOk : Coll → Prop
  | .sbtM rows store leaves _ => ∃ rs, ZipOk rs ∧ rows = rs.map (·.1) ∧ store = storeOf rs ∧ leaves = rs.map (·.2)
  | _ => True

theorem search_respects_selection {x : Coll} {q : Sig} {l l₀ : List Sig} (hx : SbtManifestOk x)
    (hf : x.find q = .ok l) (hs : x.signatures = .ok l₀) : ∀ s ∈ l, s ∈ l₀ := by
  intro s hs'
  cases x with
  | sqlite all sel =>
    simp only [Coll.find] at hf
    simp only [Coll.signatures] at hs
    split at hf
    · cases hf
    · cases hsel : filterE (fun rs : Row × Sig => sqlRowPasses rs.1 sel) all with
      | error e => simp [hsel] at hf
      | ok selected =>
        simp only [hsel] at hf hs
        injection hf with hf; injection hs with hs
        subst hf; subst hs
        cases hp : sel.picklist with
        | none => simp only [hp] at hs'; exact (List.mem_filter.mp hs').1
        | some pl => simp only [hp] at hs'; exact (List.mem_filter.mp (List.mem_filter.mp hs').1).1
  | sbtM rows store leaves pls =>
    obtain ⟨rs, hok, rfl, rfl, rfl⟩ := hx
    rw [sbtM_signatures hok] at hs
    simp only [Coll.find] at hf
    injection hf with hf; injection hs with hs
    subst hf; subst hs
    simp only [List.mem_filter] at hs' ⊢
    exact ⟨hs'.1.1, hs'.2⟩
  | sbt leaves pls =>
    simp only [Coll.find] at hf
    simp only [Coll.signatures] at hs
    injection hf with hf; injection hs with hs
    subst hf; subst hs
    simp only [List.mem_filter] at hs' ⊢
    exact ⟨hs'.1.1, hs'.2⟩
  | lca k m sc sigs pls =>
    simp only [Coll.find] at hf
    simp only [Coll.signatures] at hs
    injection hf with hf; injection hs with hs
    subst hf; subst hs
    simp only [List.mem_filter] at hs' ⊢
    exact ⟨hs'.1.1, hs'.2⟩
  | linear sigs =>
    have := (baseFind_subset (sigs := (Coll.linear sigs).signatures) hf hs).1
    subst this; exact (List.mem_filter.mp hs').1
  | lazy sigs sel =>
    have := (baseFind_subset (sigs := (Coll.lazy sigs sel).signatures) hf hs).1
    subst this; exact (List.mem_filter.mp hs').1
  | multi rows =>
    have := (baseFind_subset (sigs := (Coll.multi rows).signatures) hf hs).1
    subst this; exact (List.mem_filter.mp hs').1
  | zipM rows store =>
    have := (baseFind_subset (sigs := (Coll.zipM rows store).signatures) hf hs).1
    subst this; exact (List.mem_filter.mp hs').1
  | zipNM sigs sel =>
    have := (baseFind_subset (sigs := (Coll.zipNM sigs sel).signatures) hf hs).1
    subst this; exact (List.mem_filter.mp hs').1
  | smi rows store =>
    have := (baseFind_subset (sigs := (Coll.smi rows store).signatures) hf hs).1
    subst this; exact (List.mem_filter.mp hs').1
  | sqlmf all sel store =>
    have := (baseFind_subset (sigs := (Coll.sqlmf all sel store).signatures) hf hs).1
    subst this; exact (List.mem_filter.mp hs').1

/-- and a search over a LinearIndex returns exactly the (selected) signatures sharing a hash with the query -/
theorem search_exact_linear {sigs : List Sig} {q : Sig} {l : List Sig} (hf : (Coll.linear sigs).find q = .ok l) :
    l = sigs.filter (overlaps q) :=
  (baseFind_subset (sigs := (Coll.linear sigs).signatures) hf rfl).1

def k21 : Sig :=
  { ksize := 21, mol := .DNA, num := 0, scaled := 1000, abund := false, name := ['a'], md5 := ['2', '1'], hashes := [1, 2] }
def k31 : Sig :=
  { ksize := 31, mol := .DNA, num := 0, scaled := 1000, abund := false, name := ['b'], md5 := ['3', '1'], hashes := [1, 3] }
def q31 : Sig :=
  { ksize := 31, mol := .DNA, num := 0, scaled := 1000, abund := false, name := ['q'], md5 := ['q'], hashes := [1] }

/-- `SqliteIndex.find` before fix cee6873 (D8): the hash lookup ran over every sketch, only the picklist was applied -/
def oldSqliteFind (all : List (Row × Sig)) (sel : Crit) (q : Sig) : List Sig :=
  let hits := (all.map (·.2)).filter (overlaps q)
  match sel.picklist with
  | some pl => hits.filter pl.hasSig
  | none => hits

/-- regression: after `select(ksize=31)` the old lookup returned the k=21 sketch; the current one does not -/
theorem search_respects_selection_sqlite_old_variant_regression :
    ∃ y, ((Coll.sqlite [(mkRow k21 0, k21), (mkRow k31 1, k31)] {}).select { ksize := .val 31 }).2 = .ok y ∧
      y.signatures = .ok [k31] ∧ y.find q31 = .ok [k31] ∧
      oldSqliteFind [(mkRow k21 0, k21), (mkRow k31 1, k31)] { ksize := .val 31 } q31 = [k21, k31] :=
  ⟨_, rfl, rfl, rfl, rfl⟩

/-! ## 8. identifiers, prefixes, collisions -/

theorem splitOnChar_head (c : Char) (s : Str) : (splitOnChar c s)[0]?.getD [] = s.takeWhile (· != c) := by
  induction s with
  | nil => rfl
  | cons x xs ih =>
    by_cases h : x = c
    · subst h
      simp [splitOnChar, List.takeWhile]
    · have hb : (x != c) = true := by simp [h]
      rw [List.takeWhile_cons, hb]
      simp only [splitOnChar, h, if_false, if_true]
      cases hs : splitOnChar c xs with
      | nil => rw [hs] at ih; simpa using ih
      | cons w ws => rw [hs] at ih; simpa using ih

/-- what each column type compares, as the documentation says: `name` and `md5` exactly, `ident` the name up
    to the first space, `identprefix` that up to the first '.', `md5prefix8` / `md5short` the first 8
    characters of the md5, the tuple column types the pair (ident, md5[:8]) -/
theorem ident_prefix_semantics (s : Sig) :
    applyPre (preOf .name) (sigAttr .name s) = .s s.name ∧
    applyPre (preOf .md5) (sigAttr .md5 s) = .s s.md5 ∧
    applyPre (preOf .ident) (sigAttr .ident s) = .s (s.name.takeWhile (· != ' ')) ∧
    applyPre (preOf .identprefix) (sigAttr .identprefix s)
      = .s ((s.name.takeWhile (· != ' ')).takeWhile (· != '.')) ∧
    applyPre (preOf .md5prefix8) (sigAttr .md5prefix8 s) = .s (s.md5.take 8) ∧
    applyPre (preOf .md5short) (sigAttr .md5short s) = .s (s.md5.take 8) ∧
    (∀ ct, ct.isMeta = true →
      applyPre (preOf ct) (sigAttr ct s) = .p (s.name.takeWhile (· != ' ')) (s.md5.take 8)) := by
  refine ⟨rfl, rfl, ?_, ?_, rfl, rfl, ?_⟩
  · simp [preOf, Gen.preprocessOf, sigAttr, Gen.sigAttrOf, applyPre, applyOps, applyOp, splitOnChar_head]
  · simp [preOf, Gen.preprocessOf, sigAttr, Gen.sigAttrOf, applyPre, applyOps, applyOp, splitOnChar_head]
  · intro ct hct
    cases ct <;> simp [Gen.Coltype.isMeta] at hct <;>
      simp [preOf, Gen.preprocessOf, sigAttr, Gen.sigAttrOf, applyPre, applyOps, applyOp, splitOnChar_head]

/-- a picklist loaded from a file keeps the preprocessing of its column type (only `to_picklist()` overrides it) -/
theorem pre_of_loaded {pl : Picklist} (h : pl.exactRows = false) : pl.pre = preOf pl.coltype := by
  simp [Picklist.pre, h]

/-- two signatures whose md5s share the first 8 characters cannot be told apart by a prefix picklist,
    nor — when their identifiers also agree — by a gather / prefetch / search / manifest picklist loaded from a file -/
theorem md5prefix_collisions (pl : Picklist) (hloaded : pl.exactRows = false) (s t : Sig)
    (h8 : s.md5.take 8 = t.md5.take 8) :
    ((pl.coltype = .md5prefix8 ∨ pl.coltype = .md5short) → pl.hasSig s = pl.hasSig t) ∧
    (pl.coltype.isMeta = true → s.name.takeWhile (· != ' ') = t.name.takeWhile (· != ' ') →
      pl.hasSig s = pl.hasSig t) := by
  constructor
  · intro h
    unfold Picklist.hasSig
    rw [pre_of_loaded hloaded]
    rcases h with h | h <;> rw [h]
    · rw [(ident_prefix_semantics s).2.2.2.2.1, (ident_prefix_semantics t).2.2.2.2.1, h8]
    · rw [(ident_prefix_semantics s).2.2.2.2.2.1, (ident_prefix_semantics t).2.2.2.2.2.1, h8]
  · intro hm hid
    unfold Picklist.hasSig
    rw [pre_of_loaded hloaded]
    rw [(ident_prefix_semantics s).2.2.2.2.2.2 _ hm, (ident_prefix_semantics t).2.2.2.2.2.2 _ hm, h8, hid]

/-- … while an `md5` picklist holding one of the two md5s separates them -/
theorem md5_picklist_separates (s t : Sig) (h : s.md5 ≠ t.md5) :
    let pl : Picklist := { id := 1, coltype := .md5, exclude := false, pickset := [.s s.md5] }
    pl.hasSig s = true ∧ pl.hasSig t = false := by
  intro pl
  have hpre : pl.pre = preOf .md5 := pre_of_loaded rfl
  have hs : pl.hasSig s = pl.decide (.s s.md5) := by
    unfold Picklist.hasSig; rw [hpre, (ident_prefix_semantics s).2.1]
  have ht : pl.hasSig t = pl.decide (.s t.md5) := by
    unfold Picklist.hasSig; rw [hpre, (ident_prefix_semantics t).2.1]
  rw [hs, ht]
  constructor
  · simp [pl, Picklist.decide]
  · simp only [pl, Picklist.decide, List.contains_cons, List.contains_nil, Bool.or_false]
    simp only [Bool.false_eq_true, if_false, beq_eq_false_iff_ne, ne_eq, PVal.s.injEq]
    exact fun h' => h h'.symm

/-! ## 8b. StandaloneManifestIndex: exactly when re-reading through `to_picklist()` is the selection

`to_picklist()` is re-read from the source per manifest class (`Gen.toPicklistExactCsv`, `Gen.toPicklistExactSql`):
since cff7217 the derived picklist compares the full (name, md5) of a row; before, (identifier, md5[:8]).  The theorems
are stated for whichever variant the source has (`SmiExact e`); the readable form of the current exclusion is
`standalone_exclusion_now`.  What is left of known finding C12.3: a deselected signature of a still listed file that
has the *same name and the same md5* as a selected one — sketches of one sequence differing only in abundance tracking,
in num-vs-scaled with the same retained hashes, or in molecule type with the same hashes — is still returned
(`standalone_same_name_md5_counterexample`); the statement condemns it. -/

/-- a standalone manifest over files holding several signatures each (`SmiOk`): `select` never refuses, and — provided no
    deselected signature of a file that is still listed shares its key with a selected one (`SmiExact`) — `signatures()`
    lists exactly the satisfying signatures (file by file, hence up to permutation) -/
theorem select_exact_standalone_partial {rs : List (Row × Sig)} {store : Store} (c : Crit) (hok : SmiOk rs store)
    (hex : SmiExact Gen.toPicklistExactCsv rs (fun x => Sat c x.2)) :
    ∃ y l, ((Coll.smi (rs.map (·.1)) store).select c).2 = .ok y ∧ y.signatures = .ok l ∧
      l.Perm ((rs.map (·.2)).filter (Sat c)) := by
  have hf : filterE (fun a : Row × Sig => rowPasses a.1 c) rs = .ok (rs.filter (fun x => Sat c x.2)) := by
    apply filterE_ok_of_forall
    intro x hx
    rw [hok.rows x hx]
    exact rowPasses_total x.2 c _
  obtain ⟨l, hl, hperm⟩ := smi_signatures_exact hok _ hex
  refine ⟨_, l, ?_, hl, ?_⟩
  · simp only [Coll.select]
    rw [filterE_map, hf]
  · rw [List.filter_map]
    exact hperm

/-- whatever the collisions, nothing satisfying is lost … -/
theorem standalone_complete {rs : List (Row × Sig)} {store : Store} (c : Crit) (hok : SmiOk rs store) {l : List Sig}
    (hl : (Coll.smi ((rs.filter (fun x => Sat c x.2)).map (·.1)) store).signatures = .ok l) :
    ∀ t ∈ rs, Sat c t.2 = true → t.2 ∈ l := by
  intro t ht hs
  have hmem : t ∈ rs.filter (fun x => Sat c x.2) := List.mem_filter.mpr ⟨ht, hs⟩
  refine (smi_mem_signatures hok _ hl t.2).mpr ⟨t, ht, rfl, ?_, ?_⟩
  · simp only [listed, List.any_eq_true, beq_iff_eq]; exact ⟨t, hmem, rfl⟩
  · simp only [keyIn, List.any_eq_true, beq_iff_eq]; exact ⟨t, hmem, rfl⟩

/-- … and `SmiExact` is exactly what is needed for nothing unsatisfying to come back: every listed signature satisfies
    the request iff no deselected signature of a listed file shares its key with a selected one -/
theorem select_exact_standalone_iff {rs : List (Row × Sig)} {store : Store} (c : Crit) (hok : SmiOk rs store)
    {l : List Sig} (hl : (Coll.smi ((rs.filter (fun x => Sat c x.2)).map (·.1)) store).signatures = .ok l) :
    (∀ s ∈ l, Sat c s = true) ↔ SmiExact Gen.toPicklistExactCsv rs (fun x => Sat c x.2) := by
  constructor
  · exact smi_exact_of_sound _ hok (Sat c) hl
  · intro hex s hs
    obtain ⟨l', hl', hperm⟩ := smi_signatures_exact hok _ hex
    rw [hl] at hl'
    injection hl' with hl'
    subst hl'
    obtain ⟨x, hx, rfl⟩ := List.mem_map.mp (hperm.mem_iff.mp hs)
    exact (List.mem_filter.mp hx).2

/-- the exclusion for the current source, spelled out: a deselected signature of a still listed file with the same name
    and the same md5 as a selected one -/
theorem standalone_exclusion_now (rs : List (Row × Sig)) (P : Row × Sig → Bool) :
    SmiExact true rs P ↔
      ∀ t ∈ rs, (∃ u ∈ rs, P u = true ∧ u.1.loc = t.1.loc) →
        (∃ u ∈ rs, P u = true ∧ u.2.name = t.2.name ∧ u.2.md5 = t.2.md5) → P t = true := by
  unfold SmiExact
  simp only [listed, keyIn, List.any_eq_true, beq_iff_eq, List.mem_filter, keyOfW_true_eq_iff]
  constructor
  · intro h t ht ⟨u, hu, hpu, hl⟩ ⟨v, hv, hpv, hn, hm⟩
    exact h t ht ⟨u, ⟨hu, hpu⟩, hl⟩ ⟨v, ⟨hv, hpv⟩, hn, hm⟩
  · intro h t ht ⟨u, ⟨hu, hpu⟩, hl⟩ ⟨v, ⟨hv, hpv⟩, hn, hm⟩
    exact h t ht ⟨u, hu, hpu, hl⟩ ⟨v, hv, hpv, hn, hm⟩

/-- the fix only shrinks the exclusion: whatever was exact with (identifier, md5[:8]) keys is exact with (name, md5) keys -/
theorem standalone_exclusion_shrinks {rs : List (Row × Sig)} {P : Row × Sig → Bool} (h : SmiExact false rs P) :
    SmiExact true rs P :=
  smiExact_true_of_false h

/-- sufficient: no two rows of the whole manifest share the key -/
theorem standalone_exact_of_distinct_keys {rs : List (Row × Sig)} (c : Crit)
    (hd : ∀ t ∈ rs, ∀ u ∈ rs, keyOfW Gen.toPicklistExactCsv t.2 = keyOfW Gen.toPicklistExactCsv u.2 → t = u) :
    SmiExact Gen.toPicklistExactCsv rs (fun x => Sat c x.2) :=
  smiExact_of_distinct_keys _ _ hd

def colA : Sig :=
  { ksize := 21, mol := .DNA, num := 0, scaled := 1000, abund := false, name := ['G', ' ', '1'],
    md5 := ['a', '7', '1', '0', '9', '3', '0', '7', '2'], hashes := [1] }
def colB : Sig :=
  { ksize := 31, mol := .DNA, num := 0, scaled := 1000, abund := false, name := ['G', ' ', '2'],
    md5 := ['a', '7', '1', '0', '9', '3', '0', '7', '7'], hashes := [2] }
def colC : Sig :=
  { ksize := 21, mol := .DNA, num := 0, scaled := 1000, abund := false, name := ['H', ' ', '3'],
    md5 := ['c', 'c', 'c', 'c', 'c', 'c', 'c', 'c', 'c'], hashes := [3] }

/-- regression (variant before fix cff7217, the former shape of known finding C12.3): re-reading by (identifier, md5[:8])
    returned a deselected signature sharing both with a selected one — `select(ksize=21)` gave back the k=31 sketch `colB`;
    with (name, md5) keys it does not -/
theorem standalone_manifest_collision_old_variant_regression :
    let sub := [mkRow colA 0]               -- the rows `select(ksize=21)` keeps of [colA, colB]
    let store : Store := [(0, [colA, colB])]
    standaloneSignatures false sub (locations sub) store = .ok [colA, colB] ∧
      standaloneSignatures true sub (locations sub) store = .ok [colA] ∧
      Sat { ksize := .val 21 } colB = false :=
  ⟨rfl, rfl, rfl⟩

/-- regression, across files: distinct keys within every single file were not enough for the old variant — the derived
    picklist is global, so `colB` (file 0) came back through `colA` (file 1) once file 0 was listed for `colC` -/
theorem standalone_cross_file_collision_old_variant_regression :
    let sub := [mkRow colC 0, mkRow colA 1]
    let store : Store := [(0, [colC, colB]), (1, [colA])]
    keyOfW false colC ≠ keyOfW false colB ∧ keyOfW false colA = keyOfW false colB ∧
      standaloneSignatures false sub (locations sub) store = .ok [colC, colB, colA] ∧
      standaloneSignatures true sub (locations sub) store = .ok [colC, colA] :=
  ⟨by decide, rfl, rfl, rfl⟩

/-- what is left of C12.3 (kernel-checked on the model of the current source): two sketches of the same sequence in one
    file, same name, same md5, one tracking abundance — `select(abund=True)` on the standalone manifest returns both -/
def abundTwin : Sig := { flatSig with abund := true }

theorem standalone_same_name_md5_counterexample :
    let rs := [(mkRow flatSig 0, flatSig), (mkRow abundTwin 0, abundTwin)]
    let store : Store := [(0, [flatSig, abundTwin])]
    flatSig.name = abundTwin.name ∧ flatSig.md5 = abundTwin.md5 ∧
      Sat { abund := .val true } flatSig = false ∧
      standaloneSignatures true [mkRow abundTwin 0] (locations [mkRow abundTwin 0]) store = .ok [flatSig, abundTwin] ∧
      ¬ SmiExact true rs (fun x => Sat { abund := .val true } x.2) := by
  refine ⟨rfl, rfl, rfl, rfl, ?_⟩
  intro h
  have := h (mkRow flatSig 0, flatSig) (by simp) rfl rfl
  exact absurd this (by decide)

/-- the SQLite flavour (`load_sqlite_index` on a manifest-only database): files are listed by the SQL `WHERE` alone
    (`locations()` ignores the picklist), so the exclusion `SqlmfExact` quantifies over those -/
theorem select_exact_sqlite_manifest_partial {rs : List (Row × Sig)} {store : Store} {c : Crit} {y : Coll}
    (hok : SmiOk rs store) (hwf : ∀ x ∈ rs, WF x.2) (hex : SqlmfExact Gen.toPicklistExactSql rs c)
    (h : ((Coll.sqlmf (rs.map (·.1)) {} store).select c).2 = .ok y) :
    ∃ l, y.signatures = .ok l ∧ l.Perm ((rs.map (·.2)).filter (Sat c)) := by
  obtain ⟨d', hm, rfl⟩ := sqlmf_select h
  rw [mergeZip_empty] at hm
  injection hm with hm
  subst hm
  exact sqlmf_signatures_exact _ hok hwf hex

/-! ## 8c. picklists made from the output of a selection (manifest / search / prefetch / gather CSVs)

These picklists are *loaded from a file* (`SignaturePicklist.load`), so they keep the tuple preprocessing
(identifier, md5[:8]) whatever `to_picklist()` does: fix cff7217 does not touch this section. -/

/-- the picklist `--picklist out.csv::<coltype>` loads from the (name, md5) rows the sketches `l` produce in a manifest,
    search, prefetch or gather CSV -/
def outputPicklist (id : Nat) (ct : Coltype) (exclude : Bool) (l : List Sig) : Picklist :=
  { id := id, coltype := ct, exclude := exclude, pickset := loadPickset ct (l.map (fun s => PVal.p s.name s.md5)) }

/-- it matches exactly the signatures sharing (identifier, md5[:8]) with one of `l` -/
theorem output_picklist_matches {ct : Coltype} (hct : ct.isMeta = true) (id : Nat) (l : List Sig) (s : Sig) :
    (outputPicklist id ct false l).hasSig s = true ↔ ∃ t ∈ l, keyOf t = keyOf s := by
  rw [hasSig_meta hct _ rfl rfl]
  simp only [outputPicklist, Picklist.decide, Bool.false_eq_true, if_false, List.contains_iff_mem]
  exact loadPickset_meta hct l (keyOf s)

theorem output_picklist_exclude {ct : Coltype} (hct : ct.isMeta = true) (id : Nat) (l : List Sig) (s : Sig) :
    (outputPicklist id ct true l).hasSig s = !(outputPicklist id ct false l).hasSig s := by
  rw [hasSig_meta hct _ rfl rfl, hasSig_meta hct _ rfl rfl]
  simp [outputPicklist, Picklist.decide]

theorem filter_eq_filter_iff {α : Type} (p q : α → Bool) (l : List α) :
    l.filter p = l.filter q ↔ ∀ x ∈ l, p x = q x := by
  constructor
  · intro h x hx
    have h1 : x ∈ l.filter p ↔ x ∈ l.filter q := by rw [h]
    simp only [List.mem_filter, hx, true_and] at h1
    cases hp : p x <;> cases hq : q x <;> simp_all
  · exact fun h => List.filter_congr h

/-- round trip: a picklist built from the output of the selection `X = l₀.filter P` of a collection listing `l₀`, applied
    to that collection, selects exactly `X` — iff no deselected signature of the collection shares (identifier, md5[:8]) with
    a selected one -/
theorem output_picklist_roundtrip {ct : Coltype} (hct : ct.isMeta = true) (id : Nat) (l₀ : List Sig) (P : Sig → Bool) :
    l₀.filter (outputPicklist id ct false (l₀.filter P)).hasSig = l₀.filter P ↔
      ∀ s ∈ l₀, (∃ t ∈ l₀.filter P, keyOf t = keyOf s) → P s = true := by
  rw [filter_eq_filter_iff]
  constructor
  · intro h s hs hex
    rw [← h s hs]
    exact (output_picklist_matches hct id _ s).mpr hex
  · intro h s hs
    cases hp : P s with
    | true => exact (output_picklist_matches hct id _ s).mpr ⟨s, List.mem_filter.mpr ⟨hs, hp⟩, rfl⟩
    | false =>
      cases hm : (outputPicklist id ct false (l₀.filter P)).hasSig s with
      | false => rfl
      | true => rw [h s hs ((output_picklist_matches hct id _ s).mp hm)] at hp; cases hp

/-- … and with `:exclude` it selects exactly the complement, under the same condition -/
theorem output_picklist_roundtrip_exclude {ct : Coltype} (hct : ct.isMeta = true) (id : Nat) (l₀ : List Sig)
    (P : Sig → Bool) (h : ∀ s ∈ l₀, (∃ t ∈ l₀.filter P, keyOf t = keyOf s) → P s = true) :
    l₀.filter (outputPicklist id ct true (l₀.filter P)).hasSig = l₀.filter (fun s => !P s) := by
  have := (filter_eq_filter_iff _ _ _).mp ((output_picklist_roundtrip hct id l₀ P).mpr h)
  apply List.filter_congr
  intro s hs
  rw [output_picklist_exclude hct, this s hs]

/-- through a container: selecting a LinearIndex with the picklist made from one of its selections gives that selection
    back (signatures whose keys are pairwise distinct) -/
theorem output_picklist_select_linear {ct : Coltype} (hct : ct.isMeta = true) (id : Nat) {sigs : List Sig} {c : Crit}
    {y : Coll} (hwf : ∀ s ∈ sigs, WF s) (hd : ∀ s ∈ sigs, ∀ t ∈ sigs, keyOf s = keyOf t → s = t)
    (h : ((Coll.linear sigs).select { picklist := some (outputPicklist id ct false (sigs.filter (Sat c))) }).2 = .ok y) :
    y.signatures = .ok (sigs.filter (Sat c)) := by
  obtain ⟨_, hy⟩ := select_exact_linear hwf h
  rw [hy]
  congr 1
  have hsat : ∀ s, Sat { picklist := some (outputPicklist id ct false (sigs.filter (Sat c))) } s
      = (outputPicklist id ct false (sigs.filter (Sat c))).hasSig s := fun s => Sat_only_picklist _ s
  rw [List.filter_congr (fun s _ => hsat s)]
  apply (output_picklist_roundtrip hct id sigs (Sat c)).mpr
  rintro s hs ⟨t, ht, hk⟩
  have ht' := List.mem_filter.mp ht
  rw [← hd t ht'.1 s hs hk]
  exact ht'.2

/-- the picklist the *code* derives from a manifest (`to_picklist()`, used by `sig extract` with `--name` or `--md5`, `sig grep`,
    `--include-db-pattern`) gives the picked rows back exactly, up to signatures with the same name and the same md5
    (fix cff7217; regression of known finding C12.5: with the old variant the twin `G twin` came back for `G coli`) -/
def coli : Sig := { flatSig with name := ['G', ' ', 'c', 'o', 'l', 'i'] }
def coliTwin : Sig := { flatSig with name := ['G', ' ', 't', 'w', 'i', 'n'] }

theorem derived_picklist_reselects_rows :
    coli.md5 = coliTwin.md5 ∧
      ((derivedPicklist true [mkRow coli 0]).hasSig coli = true ∧ (derivedPicklist true [mkRow coli 0]).hasSig coliTwin = false) ∧
      ((derivedPicklist false [mkRow coli 0]).hasSig coliTwin = true) ∧
      ∀ (rows : List Row) (s : Sig),
        (derivedPicklist true rows).hasSig s = true ↔ ∃ r ∈ rows, rowKeyW true r = .p s.name s.md5 := by
  refine ⟨rfl, ⟨rfl, rfl⟩, rfl, ?_⟩
  intro rows s
  rw [derivedPicklist_hasSig, List.contains_iff_mem, List.mem_map, keyOfW_true]

/-! ## 8d. a picklist object used by several selects / databases -/

/-- the bookkeeping accumulates over everything the picklist was asked about (several selects, several databases) … -/
theorem found_accumulates (pl : Picklist) (a b : List Sig) :
    pl.foundAfter (a ++ b) = pl.foundAfter a ++ pl.foundAfter b := by
  simp [Picklist.foundAfter]

/-- … and `sig check -o` reports exactly the picklist values that no signature looked at carries (include style) -/
theorem missing_values_exact (pl : Picklist) (hinc : pl.exclude = false) (asked : List Sig) (v : PVal) :
    v ∈ pl.missingAfter asked ↔
      v ∈ pl.pickset ∧ ∀ s ∈ asked, applyPre pl.pre (sigAttr pl.coltype s) ≠ v := by
  have hfound : ∀ w, (pl.foundAfter asked).contains w = true ↔
      w ∈ pl.pickset ∧ ∃ s ∈ asked, applyPre pl.pre (sigAttr pl.coltype s) = w := by
    intro w
    simp only [Picklist.foundAfter, List.contains_iff_mem, List.mem_filter, List.mem_map, Picklist.decide, hinc,
      Bool.false_eq_true, if_false]
    constructor
    · rintro ⟨⟨s, hs, rfl⟩, hw⟩; exact ⟨hw, s, hs, rfl⟩
    · rintro ⟨hw, s, hs, rfl⟩; exact ⟨⟨s, hs, rfl⟩, hw⟩
  simp only [Picklist.missingAfter, List.mem_filter]
  constructor
  · rintro ⟨hv, h⟩
    refine ⟨hv, fun s hs he => ?_⟩
    have : (pl.foundAfter asked).contains v = true := (hfound v).mpr ⟨hv, s, hs, he⟩
    rw [this] at h
    cases h
  · rintro ⟨hv, h⟩
    refine ⟨hv, ?_⟩
    cases hc : (pl.foundAfter asked).contains v with
    | false => rfl
    | true =>
      obtain ⟨_, s, hs, he⟩ := (hfound v).mp hc
      exact absurd he (h s hs)

/-- a verdict never depends on what the picklist was asked before: in the model `hasSig` is a function of the picklist's
    column type, style and values and of the signature alone (the `select` stream re-uses every picklist object across
    selects and collections and compares; a per-md5 verdict cache is the seeded change C12d) -/
theorem verdict_is_a_function_of_the_signature (pl : Picklist) (s t : Sig)
    (h : sigAttr pl.coltype s = sigAttr pl.coltype t) : pl.hasSig s = pl.hasSig t := by
  unfold Picklist.hasSig
  rw [h]

/-- two sketches with identical hashes (same md5) and different names are told apart by a name picklist -/
example :
    let a : Sig := { unnamedSig with name := ['a'] }
    let b : Sig := { unnamedSig with name := ['x'] }
    a.md5 = b.md5 ∧ namePicklist.hasSig a = false ∧ namePicklist.hasSig b = true ∧
      ((Coll.linear [a, b]).select { picklist := some namePicklist }).2 = .ok (.linear [b]) :=
  ⟨rfl, rfl, rfl, rfl⟩

/-! ## 9. SBT and LCA databases: in-place picklists, refusal on everything else -/

/-- an SBT that accepts a selection (it answers `self`): what it then lists is what it listed, filtered by the request
    — the tree being homogeneous (`SBT.select` checks its first signature only); a tree whose selection is already empty
    accepts everything and stays empty -/
theorem sbt_select_sound {leaves : List Sig} {pls : List Picklist} {c : Crit} {y : Coll}
    (hwf : ∀ s ∈ leaves, WF s) (hh : Homogeneous leaves) (h : ((Coll.sbt leaves pls).select c).2 = .ok y) :
    ∃ pls', y = .sbt leaves pls' ∧
      y.signatures = .ok ((leaves.filter (passesAll pls)).filter (Sat c)) := by
  obtain ⟨pls', rfl, hshape⟩ := sbt_select_shape h
  refine ⟨pls', rfl, ?_⟩
  simp only [Coll.signatures]
  rw [tree_select_shape hwf hh _ rfl pls' hshape]

/-- the same for an SBT reloaded from its zip, which lists through its manifest -/
theorem sbt_manifest_select_sound {rs : List (Row × Sig)} {pls : List Picklist} {c : Crit} {y : Coll} (hz : ZipOk rs)
    (hwf : ∀ s ∈ rs.map (·.2), WF s) (hh : Homogeneous (rs.map (·.2)))
    (h : ((Coll.sbtM (rs.map (·.1)) (storeOf rs) (rs.map (·.2)) pls).select c).2 = .ok y) :
    y.signatures = .ok (((rs.map (·.2)).filter (passesAll pls)).filter (Sat c)) := by
  obtain ⟨pls', rfl, hshape⟩ := sbtM_select_shape (sbtM_signatures hz pls) h
  rw [sbtM_signatures hz, tree_select_shape hwf hh _ rfl pls' hshape]

/-- regression (fix f20102b, known finding C12.4): `SBT.select` on a tree whose picklist leaves no signature used to
    raise StopIteration; it now returns the (empty) selection -/
theorem sbt_select_empty_selection :
    ∃ y, ((Coll.sbt [unnamedSig] [namePicklist]).select { ksize := .val 31 }).2 = .ok y ∧ y.signatures = .ok [] :=
  ⟨_, rfl, rfl⟩

/-- an LCA database (its sketches all have the database's ksize / molecule type and are scaled, by construction of
    `insert`) that accepts a selection lists what it listed, filtered by the request — **whether or not an earlier
    iteration or search left a `_signatures` cache behind** (`select` does not invalidate the cache; `signatures()` and
    `find` re-apply the picklists held now to the cached sketches) -/
theorem lca_select_after_cache {k sc : Nat} {m : Mol} {sigs : List Sig} {pls : List Picklist}
    {cache : Option (List Sig)} {c : Crit} {y : Coll}
    (hdb : ∀ s ∈ sigs, s.ksize = k ∧ s.mol = m ∧ s.scaled ≠ 0 ∧ s.num = 0) (hcache : CacheOk sigs pls cache)
    (h : (((Coll.lca k m sc sigs pls cache).touch).select c).2 = .ok y) :
    y.signatures = .ok ((sigs.filter (passesAll pls)).filter (Sat c)) ∧
      ∀ q, y.find q = .ok (((sigs.filter (passesAll pls)).filter (Sat c)).filter (overlaps q)) := by
  simp only [Coll.touch] at h
  have hcache' := cacheOk_touch hcache
  obtain ⟨hchk, rfl⟩ := lca_select_shape h
  have hcore : ∀ s ∈ sigs.filter (passesAll pls), satCore c s = true := by
    intro s hs
    have hs' := (List.mem_filter.mp hs).1
    exact lcaChecks_sound (hdb s hs').1 (hdb s hs').2.1 (hdb s hs').2.2.1 (hdb s hs').2.2.2 hchk
  have hlist : (lcaCached sigs (pls ++ c.picklist.toList) (some (lcaCached sigs pls cache))).filter
      (passesAll (pls ++ c.picklist.toList)) = (sigs.filter (passesAll pls)).filter (Sat c) := by
    rw [lcaCached_filter (cacheOk_append _ hcache'), filter_step sigs pls c hcore]
  refine ⟨by simp only [Coll.signatures, hlist], ?_⟩
  intro q
  simp only [Coll.find]
  congr 1
  rw [← hlist, List.filter_filter, List.filter_filter]
  apply List.filter_congr
  intro s _
  exact Bool.and_comm _ _

theorem lca_select_sound {k sc : Nat} {m : Mol} {sigs : List Sig} {pls : List Picklist} {cache : Option (List Sig)}
    {c : Crit} {y : Coll}
    (hdb : ∀ s ∈ sigs, s.ksize = k ∧ s.mol = m ∧ s.scaled ≠ 0 ∧ s.num = 0) (hcache : CacheOk sigs pls cache)
    (h : ((Coll.lca k m sc sigs pls cache).select c).2 = .ok y) :
    y.signatures = .ok ((sigs.filter (passesAll pls)).filter (Sat c)) := by
  obtain ⟨hchk, rfl⟩ := lca_select_shape h
  simp only [Coll.signatures]
  rw [lcaCached_filter (cacheOk_append _ hcache)]
  congr 1
  apply filter_step
  intro s hs
  have hs' := (List.mem_filter.mp hs).1
  exact lcaChecks_sound (hdb s hs').1 (hdb s hs').2.1 (hdb s hs').2.2.1 (hdb s hs').2.2.2 hchk

/-- iterate, then select with a picklist, then iterate again: only the picked sketch is listed (the variant that yields the
    cached sketches unfiltered would list both) -/
theorem lca_cache_regression :
    let db := (Coll.lca 31 .DNA 1000 [unnamedSig, flatSig] [] none).touch
    let pl : Picklist := { id := 2, coltype := .name, exclude := false, pickset := [.s ['f']] }
    db.signatures = .ok [unnamedSig, flatSig] ∧
      ∃ y, (db.select { picklist := some pl }).2 = .ok y ∧ y.signatures = .ok [flatSig] ∧
        lcaCached [unnamedSig, flatSig] [pl] (some [unnamedSig, flatSig]) = [unnamedSig, flatSig] :=
  ⟨rfl, _, rfl, rfl, rfl⟩

/-! ## 10. the picklist tables are the documented ones -/

theorem preprocess_table_pinned :
    Gen.preprocessOf .name = .simple [] ∧ Gen.preprocessOf .md5 = .simple [] ∧
    Gen.preprocessOf .ident = .simple [.split ' ' 0] ∧
    Gen.preprocessOf .identprefix = .simple [.split ' ' 0, .split '.' 0] ∧
    Gen.preprocessOf .md5prefix8 = .simple [.take 8] ∧ Gen.preprocessOf .md5short = .simple [.take 8] ∧
    (∀ ct, ct.isMeta = true → Gen.preprocessOf ct = .pair [.split ' ' 0] [.take 8]) := by
  refine ⟨rfl, rfl, rfl, rfl, rfl, rfl, ?_⟩
  intro ct h
  cases ct <;> first | rfl | (simp [Gen.Coltype.isMeta] at h)

/-! ## non-vacuity -/

def dnaA : Sig :=
  { ksize := 31, mol := .DNA, num := 0, scaled := 1000, abund := true, name := ['G', '1', '.', '1', ' ', 'x'],
    md5 := ['a', 'b', 'c'], hashes := [1, 2] }
def protB : Sig :=
  { ksize := 10, mol := .protein, num := 0, scaled := 1000, abund := false, name := ['G', '2'],
    md5 := ['d', 'e'], hashes := [2] }

example : WF dnaA ∧ WF protB ∧ WF numSketch1000 := ⟨Or.inl ⟨rfl, by decide⟩, Or.inl ⟨rfl, by decide⟩, Or.inr ⟨by decide, rfl⟩⟩

/-- a selection that keeps some and drops some, through two steps -/
example :
    ∃ y z, ((Coll.linear [dnaA, protB, numSketch1000]).select { scaled := some 1000 }).2 = .ok y ∧
      (y.select { moltype := .val .DNA, abund := .val true }).2 = .ok z ∧ z.signatures = .ok [dnaA] :=
  ⟨_, _, rfl, rfl, rfl⟩

/-- an identprefix picklist ("G1") picks `G1.1 x` through both paths -/
example :
    let pl : Picklist := { id := 1, coltype := .identprefix, exclude := false, pickset := [.s ['G', '1']] }
    pl.hasSig dnaA = true ∧ pl.matchesRow (mkRow dnaA 0) = .ok true ∧ pl.hasSig protB = false :=
  ⟨rfl, rfl, rfl⟩

/-- a well-formed zip of two named sketches: selecting on the manifest loads exactly the DNA one -/
example :
    ZipOk [(mkRow dnaA 0, dnaA), (mkRow protB 1, protB)] ∧
      ∃ y, ((Coll.zipM [mkRow dnaA 0, mkRow protB 1] (storeOf [(mkRow dnaA 0, dnaA), (mkRow protB 1, protB)])).select
          { moltype := .val .DNA }).2 = .ok y ∧ y.signatures = .ok [dnaA] := by
  refine ⟨⟨?_, by decide⟩, _, rfl, rfl⟩
  intro x hx
  simp only [List.mem_cons, List.not_mem_nil, or_false] at hx
  rcases hx with rfl | rfl <;> rfl

/-- the generic theorems are not vacuous: a well-formed MultiIndex, a two-step chain outside the exclusions, its result -/
example :
    let x := Coll.multi [(mkRow dnaA 0, dnaA), (mkRow protB 1, protB), (mkRow numSketch1000 2, numSketch1000)]
    x.Ok ∧ ∃ y z, Chain x [{ scaled := some 1000 }, { moltype := .val .DNA }] z ∧
      (x.select { scaled := some 1000 }).2 = .ok y ∧ z.signatures = .ok [dnaA] := by
  refine ⟨?_, _, _, Chain.cons trivial rfl (Chain.cons trivial rfl (Chain.nil _)), rfl, rfl⟩
  intro rs hrs
  simp only [List.mem_cons, List.not_mem_nil, or_false] at hrs
  rcases hrs with rfl | rfl | rfl <;> exact ⟨_, rfl⟩

/-- a standalone manifest over two files, distinct keys: `SmiExact` holds and the selection is exact -/
example :
    let rs := [(mkRow dnaA 0, dnaA), (mkRow protB 0, protB), (mkRow colC 1, colC)]
    SmiExact Gen.toPicklistExactCsv rs (fun x => Sat { moltype := .val .DNA } x.2) ∧
      ∃ y, ((Coll.smi (rs.map (·.1)) [(0, [dnaA, protB]), (1, [colC])]).select { moltype := .val .DNA }).2 = .ok y ∧
        y.signatures = .ok [dnaA, colC] := by
  refine ⟨?_, _, rfl, rfl⟩
  apply smiExact_of_distinct_keys
  intro t ht u hu hk
  simp only [List.mem_cons, List.not_mem_nil, or_false] at ht hu
  rcases ht with rfl | rfl | rfl <;> rcases hu with rfl | rfl | rfl <;> first | rfl | (exact absurd hk (by decide))

/-- the refusal of the reference predicate is reachable -/
example : selectSignature dnaA { containment := some true } = .error .value := rfl

/-- a merge that refuses, and one that does not -/
example : mergeLazy { ksize := .val 21 } { ksize := .val 31 } = .error .value := rfl
example : mergeLazy { ksize := .val 21 } { moltype := .val .DNA } = .ok { ksize := .val 21, moltype := .val .DNA } := rfl

end Sm.C12
