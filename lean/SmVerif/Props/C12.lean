/-
C12 — Selection and picklists keep exactly the signatures that satisfy them.

Model: `SmVerif/Model/Select.lean` (the selection routines are *interpreted* from the statement lists
the translator re-extracts from `select_signature`, `CollectionManifest._select` and
`SqliteCollectionManifest._make_select` on every run; the picklist tables and the presence of `assert q`
in the manifest-row path likewise).

`Sat c s` is what the statement calls "satisfies all the criteria" of one `select` call:
k-mer size, molecule type, scaled-or-num kind (a num request names the num), abundance when
required, containment capability (= a scaled sketch), the picklist.  `WF s`: a sketch is a num
sketch or a scaled sketch.

State of the source these theorems are about (after fixes b86e966, b14179d, 73316d8, cee6873, f20102b):
the manifest-row path no longer asserts, a num request is compared by value in manifests and in SQL,
SQL has a clause for `abund` and SqliteIndex refuses it, SqliteIndex.find is restricted to the selected
ids, SBT.select on an empty selection returns self.  Hence, for every collection / criteria / chain:
* the reference predicate `select_signature` decides `Sat` or refuses (`containment` without `scaled`);
* `row_eq_sig`, `picklist_row_eq_sig`, `sql_eq_reference` hold at full strength: the manifest-row path and
  the SQL path never raise and decide `Sat` (SQL: on well-formed sketches);
* LinearIndex, LazyLinearIndex, MultiIndex, ZipFileLinearIndex with / without manifest, SqliteIndex keep
  exactly the satisfying signatures or refuse; successive selections are the conjunction or a refusal;
* filtering a zip's manifest before loading = filtering the loaded signatures (`pre_post_equiv`);
* searches stay inside the selection on every container (`search_respects_selection`);
* picklist value functions are the documented ones; prefix collisions behave as the string functions say.
What stays false: StandaloneManifestIndex re-reads files by (identifier, md5[:8]) (known finding C12.3,
`standalone_manifest_collision_counterexample`), so the container-generic `select_conj` is still stated
per container.  The old variants of the repaired routines are kept as regression examples (`…_old_variant…`).
-/
import SmVerif.Lemmas.SelectZip

namespace Sm.C12

open Sm Sm.Select
open Sm.Gen (Coltype SelExpr)

/-! ## 1. the reference predicate -/

/-- `select_signature` answers `Sat`, answers `False` early on a k-mer size / molecule mismatch, or
    refuses (ValueError) when `containment` is requested without `scaled` -/
theorem reference_predicate_spec {s : Sig} (c : Crit) (hwf : WF s) :
    selectSignature s c =
      if c.ksizeBad s.ksize || c.molBad s.mol then .ok false
      else if c.incoherent then .error .value
      else .ok (Sat c s) :=
  selectSignature_spec c hwf

theorem reference_ok_iff_sat {s : Sig} {c : Crit} {b : Bool} (hwf : WF s) (h : selectSignature s c = .ok b) :
    b = Sat c s :=
  selectSignature_ok hwf h

theorem reference_refusal {s : Sig} {c : Crit} {e : Err} (hwf : WF s) (h : selectSignature s c = .error e) :
    e = .value ∧ c.incoherent = true :=
  selectSignature_error hwf h

/-! ## 2. manifest rows against loaded signatures -/

/-- a row made by `make_manifest_row` from `s` passes `CollectionManifest._select` iff `s` satisfies the request;
    the row path never refuses -/
theorem row_decides_sat (s : Sig) (c : Crit) (loc : Nat) : rowPasses (mkRow s loc) c = .ok (Sat c s) :=
  rowPasses_total s c loc

/-- `row = make_manifest_row ss`: wherever the reference predicate does not refuse, the row passes
    `manifest._select` iff `select_signature` accepts the signature -/
theorem row_eq_sig {s : Sig} {c : Crit} {loc : Nat} {b : Bool} (hwf : WF s) (hsig : selectSignature s c = .ok b) :
    rowPasses (mkRow s loc) c = .ok b := by
  rw [rowPasses_total, selectSignature_ok hwf hsig]

def numSketch1000 : Sig :=
  { ksize := 31, mol := .DNA, num := 1000, scaled := 0, abund := false, name := ['n'], md5 := ['a', 'b'], hashes := [1] }

/-- regression (variant before fix b14179d, known finding C12.1): with the old clause
    `row["num"] and not row["scaled"]` a num=1000 row passed a `num=500` request that `select_signature` rejects -/
theorem row_eq_sig_old_variant_regression :
    let oldNumClause : SelExpr × SelExpr := (.param .num, .and (.attr .num) (.not (.attr .scaled)))
    clauseOk (rowEnv (mkRow numSketch1000 0) { num := some 500 }) oldNumClause = .ok true ∧
      rowPasses (mkRow numSketch1000 0) { num := some 500 } = .ok false ∧
      selectSignature numSketch1000 { num := some 500 } = .ok false :=
  ⟨rfl, rfl, rfl⟩

/-! ## 3. picklists: manifest-row path against signature path -/

/-- `matches_manifest_row(row)` answers what `ss in picklist` answers — for every column type, both styles,
    named and unnamed signatures -/
theorem picklist_row_eq_sig (pl : Picklist) (s : Sig) (loc : Nat) :
    pl.matchesRow (mkRow s loc) = .ok (pl.hasSig s) :=
  matchesRow_total pl s loc

def unnamedSig : Sig :=
  { ksize := 31, mol := .DNA, num := 0, scaled := 1000, abund := false, name := [], md5 := ['a', 'b'], hashes := [1] }

def namePicklist : Picklist := { id := 1, coltype := .name, exclude := false, pickset := [.s ['x']] }

/-- an unnamed signature under a name picklist: no match, through a LinearIndex and through a manifest alike -/
example :
    ((Coll.linear [unnamedSig]).select { picklist := some namePicklist }).2 = .ok (.linear []) ∧
      ((Coll.multi [(mkRow unnamedSig 0, unnamedSig)]).select { picklist := some namePicklist }).2 = .ok (.multi []) :=
  ⟨rfl, rfl⟩

/-- regression (variant before fix b86e966, D7): with `assert q` the row path raised exactly when the looked-up
    column was empty — whatever the variant answers otherwise is the signature path's answer -/
theorem picklist_row_old_variant_raises_iff (ct : Coltype) (s : Sig) (loc : Nat) :
    (∃ e, rowValueWith true ct (mkRow s loc) = .error e) ↔
      (match Gen.rowKeyOf ct with
       | .pair => False
       | .md5 => s.md5 = []
       | .md5short => s.md5.take 8 = []
       | .name => s.name = []) := by
  rw [rowValueWith_error_iff]
  exact ⟨fun h => h.2, fun h => ⟨rfl, h⟩⟩

theorem picklist_row_old_variant_regression :
    rowValueWith true .name (mkRow unnamedSig 0) = .error .assertion ∧
      namePicklist.matchesRow (mkRow unnamedSig 0) = .ok false ∧ namePicklist.hasSig unnamedSig = false :=
  ⟨rfl, rfl, rfl⟩

/-! ## 4. the SQL conditions against the reference predicate -/

/-- the `WHERE` of `_make_select` followed by the Python picklist pass decides `Sat` on every well-formed sketch
    and never raises -/
theorem sql_decides_sat {s : Sig} (c : Crit) (loc : Nat) (hwf : WF s) : sqlRowPasses (mkRow s loc) c = .ok (Sat c s) :=
  sqlRowPasses_total c loc hwf

theorem sql_eq_reference {s : Sig} {c : Crit} {loc : Nat} {b : Bool} (hwf : WF s) (hsig : selectSignature s c = .ok b) :
    sqlRowPasses (mkRow s loc) c = .ok b := by
  rw [sqlRowPasses_total c loc hwf, selectSignature_ok hwf hsig]

def flatSig : Sig :=
  { ksize := 31, mol := .DNA, num := 0, scaled := 1000, abund := false, name := ['f'], md5 := ['a', 'b'], hashes := [1] }

/-- regression (variant before fix 73316d8, known finding C12.2): the old `WHERE` had no clause for `abund` (and only
    `num > 0` for a num request): a flat sketch passed `abund=True`; now it does not, and SqliteIndex refuses the request -/
theorem sql_eq_reference_old_variant_regression :
    let oldSql : List (SelExpr × SelExpr) :=
      [((.and (.has .ksize) (.param .ksize)), (.eq .ksize .ksize)),
       ((.and (.has .num) (.gt0 .num)), (.attr .num)),
       ((.and (.has .scaled) (.gt0 .scaled)), (.attr .scaled)),
       ((.and (.has .containment) (.param .containment)), (.attr .scaled)),
       ((.and (.has .moltype) (.notNone .moltype)), (.eq .moltype .moltype))]
    clausesPass { crit := { abund := .val true }, attr := rowAttrVal (mkRow flatSig 0), inPl := .ok true } oldSql = .ok true ∧
      sqlRowPasses (mkRow flatSig 0) { abund := .val true } = .ok false ∧
      ((Coll.sqlite [(mkRow flatSig 0, flatSig)] {}).select { abund := .val true }).2 = .error .value :=
  ⟨rfl, rfl, rfl⟩

/-! ## 5. `select` keeps exactly the satisfying signatures, or refuses -/

/-- LinearIndex -/
theorem select_exact_linear {sigs : List Sig} {c : Crit} {y : Coll} (hwf : ∀ s ∈ sigs, WF s)
    (h : ((Coll.linear sigs).select c).2 = .ok y) :
    y = .linear (sigs.filter (Sat c)) ∧ y.signatures = .ok (sigs.filter (Sat c)) := by
  have := linear_select_ok hwf h
  subst this
  exact ⟨rfl, rfl⟩

theorem select_refusal_linear {sigs : List Sig} {c : Crit} {e : Err} (hwf : ∀ s ∈ sigs, WF s)
    (h : ((Coll.linear sigs).select c).2 = .error e) : e = .value ∧ c.incoherent = true :=
  linear_select_error hwf h

/-- MultiIndex (a manifest whose rows carry their signatures): never refuses, keeps exactly the satisfying ones -/
theorem select_exact_manifest {rows : List (Row × Sig)} (c : Crit) (hrows : RowsOf rows) :
    ∃ y, ((Coll.multi rows).select c).2 = .ok y ∧ y = .multi (rows.filter (fun rs => Sat c rs.2)) ∧
      y.signatures = .ok ((rows.map (·.2)).filter (Sat c)) := by
  refine ⟨_, multi_select_total c hrows, rfl, ?_⟩
  simp only [Coll.signatures, List.filter_map]
  rfl

/-- ZipFileLinearIndex with a manifest (one file per signature): selecting on the manifest and loading -/
theorem select_exact_zip {rs : List (Row × Sig)} (c : Crit) (hok : ZipOk rs) :
    ∃ y, ((Coll.zipM (rs.map (·.1)) (storeOf rs)).select c).2 = .ok y ∧
      y.signatures = .ok ((rs.map (·.2)).filter (Sat c)) :=
  zipM_select_signatures c hok

/-- LazyLinearIndex: whatever chain of `select` calls produced the merged dict `d` -/
theorem select_exact_lazy {sigs l : List Sig} {d : Crit} (hwf : ∀ s ∈ sigs, WF s)
    (h : (Coll.lazy sigs d).signatures = .ok l) : l = sigs.filter (Sat d) :=
  lazy_signatures hwf h

/-- ZipFileLinearIndex without a manifest -/
theorem select_exact_zip_nomanifest {sigs l : List Sig} {d : Crit} (hwf : ∀ s ∈ sigs, WF s)
    (h : (Coll.zipNM sigs d).signatures = .ok l) : l = sigs.filter (Sat d) :=
  zipNM_signatures hwf h

/-- SqliteIndex: a `num` or an `abund=True` request is refused; an accepted request keeps exactly the stored sketches
    satisfying it -/
theorem select_exact_sqlite {all : List (Row × Sig)} {c : Crit} {y : Coll} (hrows : RowsOf all)
    (hwf : ∀ x ∈ all, WF x.2) (h : ((Coll.sqlite all {}).select c).2 = .ok y) :
    c.numV = 0 ∧ c.abundReq = false ∧ y.signatures = .ok ((all.map (·.2)).filter (Sat c)) := by
  obtain ⟨hn, ha, d, hm, hy⟩ := sqlite_select h
  subst hy
  rw [mergeZip_empty] at hm
  injection hm with hm
  subst hm
  refine ⟨hn, ha, ?_⟩
  rw [(sqlite_signatures _ hrows hwf).1]
  congr 2
  funext s
  exact Sat_forSql hn ha s

/-! ## 6. successive selections act as a conjunction (or refuse) -/

theorem select_conj_linear {sigs : List Sig} {c₁ c₂ : Crit} {y z : Coll} (hwf : ∀ s ∈ sigs, WF s)
    (h₁ : ((Coll.linear sigs).select c₁).2 = .ok y) (h₂ : (y.select c₂).2 = .ok z) :
    z.signatures = .ok (sigs.filter (fun s => Sat c₁ s && Sat c₂ s)) := by
  obtain ⟨hy, _⟩ := select_exact_linear hwf h₁
  subst hy
  have hwf' : ∀ s ∈ sigs.filter (Sat c₁), WF s := fun s hs => hwf s (List.mem_filter.mp hs).1
  obtain ⟨hz, _⟩ := select_exact_linear hwf' h₂
  subst hz
  simp only [Coll.signatures, List.filter_filter]
  congr 2
  funext s
  exact Bool.and_comm _ _

/-- MultiIndex: two selections never refuse and leave the conjunction -/
theorem select_conj_manifest {rows : List (Row × Sig)} (c₁ c₂ : Crit) (hrows : RowsOf rows) :
    ∃ y z, ((Coll.multi rows).select c₁).2 = .ok y ∧ (y.select c₂).2 = .ok z ∧
      z.signatures = .ok ((rows.map (·.2)).filter (fun s => Sat c₁ s && Sat c₂ s)) := by
  have sub : RowsOf (rows.filter (fun rs => Sat c₁ rs.2)) := fun rs hrs => hrows rs (List.mem_filter.mp hrs).1
  refine ⟨_, _, multi_select_total c₁ hrows, multi_select_total c₂ sub, ?_⟩
  simp only [Coll.signatures, List.filter_filter, List.filter_map]
  congr 2
  apply List.filter_congr
  intro rs _
  exact Bool.and_comm _ _

/-- LazyLinearIndex merges the selection dicts; the merged dict means the conjunction, or the merge refuses -/
theorem select_conj_lazy {sigs l : List Sig} {c₁ c₂ : Crit} {y z : Coll} (hwf : ∀ s ∈ sigs, WF s)
    (hid : SamePl c₁ c₂)
    (h₁ : ((Coll.lazy sigs {}).select c₁).2 = .ok y) (h₂ : (y.select c₂).2 = .ok z)
    (hl : z.signatures = .ok l) : l = sigs.filter (fun s => Sat c₁ s && Sat c₂ s) := by
  obtain ⟨d₁, hm₁, hy⟩ := lazy_select h₁
  subst hy
  rw [mergeLazy_empty] at hm₁
  injection hm₁ with hm₁
  subst hm₁
  obtain ⟨d₂, hm₂, hz⟩ := lazy_select h₂
  subst hz
  rw [lazy_signatures hwf hl]
  apply List.filter_congr
  intro s _
  exact mergeLazy_sat s hid hm₂

/-- one more `select` on a LazyLinearIndex holding any merged dict `d` -/
theorem select_step_lazy {sigs l : List Sig} {d c : Crit} {z : Coll} (hwf : ∀ s ∈ sigs, WF s) (hid : SamePl d c)
    (h : ((Coll.lazy sigs d).select c).2 = .ok z) (hl : z.signatures = .ok l) :
    l = sigs.filter (fun s => Sat d s && Sat c s) := by
  obtain ⟨d', hm, hz⟩ := lazy_select h
  subst hz
  rw [lazy_signatures hwf hl]
  apply List.filter_congr
  intro s _
  exact mergeLazy_sat s hid hm

theorem select_conj_zip_nomanifest {sigs l : List Sig} {c₁ c₂ : Crit} {y z : Coll} (hwf : ∀ s ∈ sigs, WF s)
    (hid : SamePl c₁ c₂)
    (h₁ : ((Coll.zipNM sigs {}).select c₁).2 = .ok y) (h₂ : (y.select c₂).2 = .ok z)
    (hl : z.signatures = .ok l) : l = sigs.filter (fun s => Sat c₁ s && Sat c₂ s) := by
  obtain ⟨d₁, hm₁, hy⟩ := zipNM_select h₁
  subst hy
  rw [mergeZip_empty] at hm₁
  injection hm₁ with hm₁
  subst hm₁
  obtain ⟨d₂, hm₂, hz⟩ := zipNM_select h₂
  subst hz
  rw [zipNM_signatures hwf hl]
  apply List.filter_congr
  intro s _
  exact mergeZip_sat s hid hm₂

/-- one more `select` on a SqliteIndex holding any merged dict `d`: refused, or the conjunction -/
theorem select_step_sqlite {all : List (Row × Sig)} {d c : Crit} {z : Coll} (hrows : RowsOf all)
    (hwf : ∀ x ∈ all, WF x.2) (hid : SamePl d c) (h : ((Coll.sqlite all d).select c).2 = .ok z) :
    z.signatures = .ok ((all.map (·.2)).filter (fun s => Sat d s && Sat c s)) := by
  obtain ⟨hn, ha, d', hm, hz⟩ := sqlite_select h
  subst hz
  rw [(sqlite_signatures _ hrows hwf).1]
  congr 2
  funext s
  rw [mergeZip_sat s (c2 := c.forSql) hid hm, Sat_forSql hn ha]

/- FULL STATEMENT (not proved / false):
   theorem select_conj (X : Coll) (c₁ c₂) {y z l l₀} :
       (X.select c₁).2 = .ok y → (y.select c₂).2 = .ok z → z.signatures = .ok l → X.signatures = .ok l₀ →
       l = l₀.filter (fun s => Sat c₁ s && Sat c₂ s)
   false on a StandaloneManifestIndex under an (identifier, md5[:8]) collision (known finding C12.3, section 8) and
   on SBTs whose leaves are not homogeneous (SBT.select checks its first signature only; section 9 assumes
   homogeneity).  Proved above for LinearIndex, MultiIndex, LazyLinearIndex, zip with and without manifest (sections
   5, 6b), SqliteIndex. -/

/-! ## 6b. filtering the manifest before loading = filtering the loaded signatures -/

/-- a zip collection (one file per signature, rows made by `make_manifest_row`, distinct locations): `select` on the
    manifest followed by loading the listed files never refuses and yields exactly what loading everything and
    filtering with `select_signature` yields, whenever the latter does not refuse -/
theorem pre_post_equiv {rs : List (Row × Sig)} {c : Crit} {y' : Coll} (hok : ZipOk rs) (hwf : ∀ x ∈ rs, WF x.2)
    (hpost : ((Coll.linear (rs.map (·.2))).select c).2 = .ok y') :
    ∃ y, ((Coll.zipM (rs.map (·.1)) (storeOf rs)).select c).2 = .ok y ∧ y.signatures = y'.signatures ∧
      y.signatures = .ok ((rs.map (·.2)).filter (Sat c)) := by
  obtain ⟨y, hy, h1⟩ := zipM_select_signatures c hok
  have hwf' : ∀ s ∈ rs.map (·.2), WF s := by
    intro s hs
    obtain ⟨x, hx, rfl⟩ := List.mem_map.mp hs
    exact hwf x hx
  have h2 := (select_exact_linear hwf' hpost).2
  exact ⟨y, hy, h1.trans h2.symm, h1⟩

/-! ## 7. searches consider only the selection -/

/-- an SBT reloaded from its zip: manifest rows, stored leaf files and in-memory leaves describe the same signatures
    (vacuous for every other container) -/
def SbtManifestOk : Coll → Prop
  | .sbtM rows store leaves _ => ∃ rs, ZipOk rs ∧ rows = rs.map (·.1) ∧ store = storeOf rs ∧ leaves = rs.map (·.2)
  | _ => True

theorem search_respects_selection {x : Coll} {q : Sig} {l l₀ : List Sig} (hx : SbtManifestOk x)
    (hf : x.find q = .ok l) (hs : x.signatures = .ok l₀) : ∀ s ∈ l, s ∈ l₀ := by
  intro s hs'
  cases x with
  | sqlite all sel =>
    simp only [Coll.find] at hf
    simp only [Coll.signatures] at hs
    split at hf
    · cases hf
    · cases hsel : filterE (fun rs : Row × Sig => sqlRowPasses rs.1 sel) all with
      | error e => simp [hsel] at hf
      | ok selected =>
        simp only [hsel] at hf hs
        injection hf with hf; injection hs with hs
        subst hf; subst hs
        cases hp : sel.picklist with
        | none => simp only [hp] at hs'; exact (List.mem_filter.mp hs').1
        | some pl => simp only [hp] at hs'; exact (List.mem_filter.mp (List.mem_filter.mp hs').1).1
  | sbtM rows store leaves pls =>
    obtain ⟨rs, hok, rfl, rfl, rfl⟩ := hx
    rw [sbtM_signatures hok] at hs
    simp only [Coll.find] at hf
    injection hf with hf; injection hs with hs
    subst hf; subst hs
    simp only [List.mem_filter] at hs' ⊢
    exact ⟨hs'.1.1, hs'.2⟩
  | sbt leaves pls =>
    simp only [Coll.find] at hf
    simp only [Coll.signatures] at hs
    injection hf with hf; injection hs with hs
    subst hf; subst hs
    simp only [List.mem_filter] at hs' ⊢
    exact ⟨hs'.1.1, hs'.2⟩
  | lca k m sc sigs pls =>
    simp only [Coll.find] at hf
    simp only [Coll.signatures] at hs
    injection hf with hf; injection hs with hs
    subst hf; subst hs
    simp only [List.mem_filter] at hs' ⊢
    exact ⟨hs'.1.1, hs'.2⟩
  | linear sigs =>
    have := (baseFind_subset (sigs := (Coll.linear sigs).signatures) hf hs).1
    subst this; exact (List.mem_filter.mp hs').1
  | lazy sigs sel =>
    have := (baseFind_subset (sigs := (Coll.lazy sigs sel).signatures) hf hs).1
    subst this; exact (List.mem_filter.mp hs').1
  | multi rows =>
    have := (baseFind_subset (sigs := (Coll.multi rows).signatures) hf hs).1
    subst this; exact (List.mem_filter.mp hs').1
  | zipM rows store =>
    have := (baseFind_subset (sigs := (Coll.zipM rows store).signatures) hf hs).1
    subst this; exact (List.mem_filter.mp hs').1
  | zipNM sigs sel =>
    have := (baseFind_subset (sigs := (Coll.zipNM sigs sel).signatures) hf hs).1
    subst this; exact (List.mem_filter.mp hs').1
  | smi rows store =>
    have := (baseFind_subset (sigs := (Coll.smi rows store).signatures) hf hs).1
    subst this; exact (List.mem_filter.mp hs').1
  | sqlmf all sel store =>
    have := (baseFind_subset (sigs := (Coll.sqlmf all sel store).signatures) hf hs).1
    subst this; exact (List.mem_filter.mp hs').1

/-- and a search over a LinearIndex returns exactly the (selected) signatures sharing a hash with the query -/
theorem search_exact_linear {sigs : List Sig} {q : Sig} {l : List Sig} (hf : (Coll.linear sigs).find q = .ok l) :
    l = sigs.filter (overlaps q) :=
  (baseFind_subset (sigs := (Coll.linear sigs).signatures) hf rfl).1

def k21 : Sig :=
  { ksize := 21, mol := .DNA, num := 0, scaled := 1000, abund := false, name := ['a'], md5 := ['2', '1'], hashes := [1, 2] }
def k31 : Sig :=
  { ksize := 31, mol := .DNA, num := 0, scaled := 1000, abund := false, name := ['b'], md5 := ['3', '1'], hashes := [1, 3] }
def q31 : Sig :=
  { ksize := 31, mol := .DNA, num := 0, scaled := 1000, abund := false, name := ['q'], md5 := ['q'], hashes := [1] }

/-- `SqliteIndex.find` before fix cee6873 (D8): the hash lookup ran over every sketch, only the picklist was applied -/
def oldSqliteFind (all : List (Row × Sig)) (sel : Crit) (q : Sig) : List Sig :=
  let hits := (all.map (·.2)).filter (overlaps q)
  match sel.picklist with
  | some pl => hits.filter pl.hasSig
  | none => hits

/-- regression: after `select(ksize=31)` the old lookup returned the k=21 sketch; the current one does not -/
theorem search_respects_selection_sqlite_old_variant_regression :
    ∃ y, ((Coll.sqlite [(mkRow k21 0, k21), (mkRow k31 1, k31)] {}).select { ksize := .val 31 }).2 = .ok y ∧
      y.signatures = .ok [k31] ∧ y.find q31 = .ok [k31] ∧
      oldSqliteFind [(mkRow k21 0, k21), (mkRow k31 1, k31)] { ksize := .val 31 } q31 = [k21, k31] :=
  ⟨_, rfl, rfl, rfl, rfl⟩

/-! ## 8. identifiers, prefixes, collisions -/

theorem splitOnChar_head (c : Char) (s : Str) : (splitOnChar c s)[0]?.getD [] = s.takeWhile (· != c) := by
  induction s with
  | nil => rfl
  | cons x xs ih =>
    by_cases h : x = c
    · subst h
      simp [splitOnChar, List.takeWhile]
    · have hb : (x != c) = true := by simp [h]
      rw [List.takeWhile_cons, hb]
      simp only [splitOnChar, h, if_false, if_true]
      cases hs : splitOnChar c xs with
      | nil => rw [hs] at ih; simpa using ih
      | cons w ws => rw [hs] at ih; simpa using ih

/-- what each column type compares, as the documentation says: `name` and `md5` exactly, `ident` the name up
    to the first space, `identprefix` that up to the first '.', `md5prefix8` / `md5short` the first 8
    characters of the md5, the tuple column types the pair (ident, md5[:8]) -/
theorem ident_prefix_semantics (s : Sig) :
    applyPre (preOf .name) (sigAttr .name s) = .s s.name ∧
    applyPre (preOf .md5) (sigAttr .md5 s) = .s s.md5 ∧
    applyPre (preOf .ident) (sigAttr .ident s) = .s (s.name.takeWhile (· != ' ')) ∧
    applyPre (preOf .identprefix) (sigAttr .identprefix s)
      = .s ((s.name.takeWhile (· != ' ')).takeWhile (· != '.')) ∧
    applyPre (preOf .md5prefix8) (sigAttr .md5prefix8 s) = .s (s.md5.take 8) ∧
    applyPre (preOf .md5short) (sigAttr .md5short s) = .s (s.md5.take 8) ∧
    (∀ ct, ct.isMeta = true →
      applyPre (preOf ct) (sigAttr ct s) = .p (s.name.takeWhile (· != ' ')) (s.md5.take 8)) := by
  refine ⟨rfl, rfl, ?_, ?_, rfl, rfl, ?_⟩
  · simp [preOf, Gen.preprocessOf, sigAttr, Gen.sigAttrOf, applyPre, applyOps, applyOp, splitOnChar_head]
  · simp [preOf, Gen.preprocessOf, sigAttr, Gen.sigAttrOf, applyPre, applyOps, applyOp, splitOnChar_head]
  · intro ct hct
    cases ct <;> simp [Gen.Coltype.isMeta] at hct <;>
      simp [preOf, Gen.preprocessOf, sigAttr, Gen.sigAttrOf, applyPre, applyOps, applyOp, splitOnChar_head]

/-- two signatures whose md5s share the first 8 characters cannot be told apart by a prefix picklist,
    nor — when their identifiers also agree — by a gather / prefetch / search / manifest picklist -/
theorem md5prefix_collisions (pl : Picklist) (s t : Sig) (h8 : s.md5.take 8 = t.md5.take 8) :
    ((pl.coltype = .md5prefix8 ∨ pl.coltype = .md5short) → pl.hasSig s = pl.hasSig t) ∧
    (pl.coltype.isMeta = true → s.name.takeWhile (· != ' ') = t.name.takeWhile (· != ' ') →
      pl.hasSig s = pl.hasSig t) := by
  constructor
  · intro h
    unfold Picklist.hasSig
    rcases h with h | h <;> rw [h]
    · rw [(ident_prefix_semantics s).2.2.2.2.1, (ident_prefix_semantics t).2.2.2.2.1, h8]
    · rw [(ident_prefix_semantics s).2.2.2.2.2.1, (ident_prefix_semantics t).2.2.2.2.2.1, h8]
  · intro hm hid
    unfold Picklist.hasSig
    rw [(ident_prefix_semantics s).2.2.2.2.2.2 _ hm, (ident_prefix_semantics t).2.2.2.2.2.2 _ hm, h8, hid]

/-- … while an `md5` picklist holding one of the two md5s separates them -/
theorem md5_picklist_separates (s t : Sig) (h : s.md5 ≠ t.md5) :
    let pl : Picklist := { id := 1, coltype := .md5, exclude := false, pickset := [.s s.md5] }
    pl.hasSig s = true ∧ pl.hasSig t = false := by
  intro pl
  have hs : pl.hasSig s = pl.decide (.s s.md5) := by
    unfold Picklist.hasSig; rw [(ident_prefix_semantics s).2.1]
  have ht : pl.hasSig t = pl.decide (.s t.md5) := by
    unfold Picklist.hasSig; rw [(ident_prefix_semantics t).2.1]
  rw [hs, ht]
  constructor
  · simp [pl, Picklist.decide]
  · simp only [pl, Picklist.decide, List.contains_cons, List.contains_nil, Bool.or_false]
    simp only [Bool.false_eq_true, if_false, beq_eq_false_iff_ne, ne_eq, PVal.s.injEq]
    exact fun h' => h h'.symm

/-- StandaloneManifestIndex re-reads every file through `manifest.to_picklist()`, i.e. by (ident, md5[:8]):
    a deselected signature of the same file sharing both with a selected one comes back.  Here `select(ksize=21)`
    returns the k=31 sketch.  (kernel-checked; the correspondence stream reproduces it on the real code with
    two real md5s sharing 8 hex digits) -/
def colA : Sig :=
  { ksize := 21, mol := .DNA, num := 0, scaled := 1000, abund := false, name := ['G', ' ', '1'],
    md5 := ['a', '7', '1', '0', '9', '3', '0', '7', '2'], hashes := [1] }
def colB : Sig :=
  { ksize := 31, mol := .DNA, num := 0, scaled := 1000, abund := false, name := ['G', ' ', '2'],
    md5 := ['a', '7', '1', '0', '9', '3', '0', '7', '7'], hashes := [2] }

theorem standalone_manifest_collision_counterexample :
    ∃ y, ((Coll.smi [mkRow colA 0, mkRow colB 0] [(0, [colA, colB])]).select { ksize := .val 21 }).2 = .ok y ∧
      y.signatures = .ok [colA, colB] ∧ Sat { ksize := .val 21 } colB = false :=
  ⟨_, rfl, rfl, rfl⟩

/-! ## 9. SBT and LCA databases: in-place picklists, refusal on everything else -/

/-- all leaves share the indexing parameters (what `sourmash index` enforces) -/
def Homogeneous (leaves : List Sig) : Prop :=
  ∀ s ∈ leaves, ∀ t ∈ leaves, s.ksize = t.ksize ∧ s.mol = t.mol ∧ s.num = t.num ∧ s.scaled = t.scaled

theorem sbtChecks_sound {first : Sig} {c : Crit} (hwf : WF first) (h : sbtChecks first c = .ok ()) :
    satCore c first = true ∧ c.abundReq = false := by
  unfold sbtChecks at h
  have hr : sbtRefuses first c = false := by
    cases hq : sbtRefuses first c
    · rfl
    · rw [hq] at h; cases h
  clear h
  unfold sbtRefuses at hr
  unfold satCore Crit.ksizeBad Crit.molBad Crit.abundReq Crit.cont Crit.scaledV Crit.numV
  unfold WF at hwf
  rcases c with ⟨ks, mt, sc, nm, ab, ct, pl⟩
  simp only [Bool.or_eq_false_iff] at hr
  obtain ⟨⟨⟨⟨⟨h1, h2⟩, h3⟩, h4⟩, h5⟩, h6⟩ := hr
  cases ks <;> cases mt <;> rcases ab with _ | _ | (_ | _) <;> simp_all
  all_goals (
    cases hc : ct.getD false <;> simp_all <;>
    by_cases e1 : sc.getD 0 = 0 <;> by_cases e2 : first.scaled = 0 <;> by_cases e3 : first.num = 0 <;>
    by_cases e4 : nm.getD 0 = 0 <;> simp_all <;> omega)

theorem passesAll_append (a b : List Picklist) (s : Sig) :
    passesAll (a ++ b) s = (passesAll a s && passesAll b s) := by
  simp [passesAll, List.all_append]

/-- an SBT that accepts a selection (it answers `self`): its signatures are the leaves passing the stored
    picklists, and — the tree being homogeneous — every one of them satisfies the request; a tree whose selection is
    already empty accepts everything and stays empty -/
theorem sbt_select_sound {leaves : List Sig} {pls : List Picklist} {c : Crit} {y : Coll}
    (hwf : ∀ s ∈ leaves, WF s) (hh : Homogeneous leaves)
    (h : ((Coll.sbt leaves pls).select c).2 = .ok y) :
    ∃ l, y.signatures = .ok l ∧ (∀ s ∈ l, s ∈ leaves ∧ Sat c s = true) ∧
      l = leaves.filter (passesAll (pls ++ c.picklist.toList)) := by
  simp only [Coll.select] at h
  cases hf : leaves.filter (passesAll pls) with
  | nil =>
    simp only [hf] at h
    injection h with h
    subst h
    refine ⟨[], ?_, by simp, ?_⟩
    · simp only [Coll.signatures, hf]
    · symm
      rw [List.filter_eq_nil_iff]
      intro s hs
      have : passesAll pls s = false := by
        have := List.filter_eq_nil_iff.mp hf s hs
        simpa using this
      rw [passesAll_append, this]
      simp
  | cons first rest =>
    simp only [hf] at h
    have hfirst : first ∈ leaves := (List.mem_filter.mp (hf ▸ List.mem_cons_self ..)).1
    cases hc : sbtChecks first c with
    | error e => simp [hc] at h
    | ok u =>
      simp only [hc] at h
      have hcore : ∀ s ∈ leaves, satCore c s = true := by
        intro s hs
        obtain ⟨this, hab⟩ := sbtChecks_sound (hwf first hfirst) hc
        obtain ⟨a, b, c', d⟩ := hh s hs first hfirst
        unfold satCore at this ⊢
        rw [a, b, c', d]
        simp only [hab] at this ⊢
        simpa using this
      cases hp : c.picklist with
      | none =>
        simp only [hp] at h
        injection h with h
        subst h
        refine ⟨_, rfl, ?_, by simp⟩
        intro s hs
        have hs' := List.mem_filter.mp hs
        refine ⟨hs'.1, ?_⟩
        rw [Sat_eq, hcore s hs'.1]
        simp [plOk, hp]
      | some pl =>
        simp only [hp] at h
        split at h
        · cases h
        · rename_i hlen
          injection h with h
          subst h
          have hnil : pls = [] := by
            cases pls with
            | nil => rfl
            | cons a t => simp at hlen
          subst hnil
          refine ⟨_, rfl, ?_, by simp⟩
          intro s hs
          have hs' := List.mem_filter.mp hs
          refine ⟨hs'.1, ?_⟩
          rw [Sat_eq, hcore s hs'.1]
          simpa [plOk, hp, passesAll] using hs'.2

/-- regression (fix f20102b, known finding C12.4): `SBT.select` on a tree whose picklist leaves no signature used to
    raise StopIteration; it now returns the (empty) selection -/
theorem sbt_select_empty_selection :
    ∃ y, ((Coll.sbt [unnamedSig] [namePicklist]).select { ksize := .val 31 }).2 = .ok y ∧ y.signatures = .ok [] :=
  ⟨_, rfl, rfl⟩

theorem lcaChecks_sound {k sc : Nat} {m : Mol} {c : Crit} {s : Sig} (hk : s.ksize = k) (hm : s.mol = m)
    (hs : s.scaled ≠ 0) (hn : s.num = 0) (h : lcaChecks k m sc c = .ok ()) : satCore c s = true := by
  unfold lcaChecks at h
  have hr : lcaRefuses k m sc c = false := by
    cases hq : lcaRefuses k m sc c
    · rfl
    · rw [hq] at h; cases h
  clear h
  unfold lcaRefuses at hr
  unfold satCore Crit.ksizeBad Crit.molBad Crit.abundReq Crit.cont Crit.scaledV Crit.numV
  rcases c with ⟨ks, mt, scl, nm, ab, ct, pl⟩
  simp only [Bool.or_eq_false_iff] at hr
  obtain ⟨⟨⟨⟨h1, h2⟩, h3⟩, h4⟩, h5⟩ := hr
  subst hk hm
  cases ks <;> cases mt <;> rcases ab with _ | _ | (_ | _) <;> simp_all

/-- an LCA database that accepts a selection (it answers `self`): its signatures are the stored sketches passing
    the picklists, and every one of them satisfies the request (the stored sketches all have the database's
    ksize / molecule type and are scaled, by construction of `insert`) -/
theorem lca_select_sound {k sc : Nat} {m : Mol} {sigs : List Sig} {pls : List Picklist} {c : Crit} {y : Coll}
    (hdb : ∀ s ∈ sigs, s.ksize = k ∧ s.mol = m ∧ s.scaled ≠ 0 ∧ s.num = 0)
    (h : ((Coll.lca k m sc sigs pls).select c).2 = .ok y) :
    ∃ l, y.signatures = .ok l ∧ (∀ s ∈ l, s ∈ sigs ∧ Sat c s = true) ∧
      l = sigs.filter (passesAll (pls ++ c.picklist.toList)) := by
  simp only [Coll.select] at h
  cases hc : lcaChecks k m sc c with
  | error e => simp [hc] at h
  | ok u =>
    simp only [hc] at h
    have hcore : ∀ s ∈ sigs, satCore c s = true := fun s hs =>
      lcaChecks_sound (hdb s hs).1 (hdb s hs).2.1 (hdb s hs).2.2.1 (hdb s hs).2.2.2 hc
    cases hp : c.picklist with
    | none =>
      simp only [hp] at h
      injection h with h
      subst h
      refine ⟨_, rfl, ?_, by simp⟩
      intro s hs
      have hs' := List.mem_filter.mp hs
      refine ⟨hs'.1, ?_⟩
      rw [Sat_eq, hcore s hs'.1]
      simp [plOk, hp]
    | some pl =>
      simp only [hp] at h
      split at h
      · cases h
      · rename_i hlen
        injection h with h
        subst h
        have hnil : pls = [] := by
          cases pls with
          | nil => rfl
          | cons a t => simp at hlen
        subst hnil
        refine ⟨_, rfl, ?_, by simp⟩
        intro s hs
        have hs' := List.mem_filter.mp hs
        refine ⟨hs'.1, ?_⟩
        rw [Sat_eq, hcore s hs'.1]
        simpa [plOk, hp, passesAll] using hs'.2

/-! ## 10. the picklist tables are the documented ones -/

theorem preprocess_table_pinned :
    Gen.preprocessOf .name = .simple [] ∧ Gen.preprocessOf .md5 = .simple [] ∧
    Gen.preprocessOf .ident = .simple [.split ' ' 0] ∧
    Gen.preprocessOf .identprefix = .simple [.split ' ' 0, .split '.' 0] ∧
    Gen.preprocessOf .md5prefix8 = .simple [.take 8] ∧ Gen.preprocessOf .md5short = .simple [.take 8] ∧
    (∀ ct, ct.isMeta = true → Gen.preprocessOf ct = .pair [.split ' ' 0] [.take 8]) := by
  refine ⟨rfl, rfl, rfl, rfl, rfl, rfl, ?_⟩
  intro ct h
  cases ct <;> first | rfl | (simp [Gen.Coltype.isMeta] at h)

/-! ## non-vacuity -/

def dnaA : Sig :=
  { ksize := 31, mol := .DNA, num := 0, scaled := 1000, abund := true, name := ['G', '1', '.', '1', ' ', 'x'],
    md5 := ['a', 'b', 'c'], hashes := [1, 2] }
def protB : Sig :=
  { ksize := 10, mol := .protein, num := 0, scaled := 1000, abund := false, name := ['G', '2'],
    md5 := ['d', 'e'], hashes := [2] }

example : WF dnaA ∧ WF protB ∧ WF numSketch1000 := ⟨Or.inl ⟨rfl, by decide⟩, Or.inl ⟨rfl, by decide⟩, Or.inr ⟨by decide, rfl⟩⟩

/-- a selection that keeps some and drops some, through two steps -/
example :
    ∃ y z, ((Coll.linear [dnaA, protB, numSketch1000]).select { scaled := some 1000 }).2 = .ok y ∧
      (y.select { moltype := .val .DNA, abund := .val true }).2 = .ok z ∧ z.signatures = .ok [dnaA] :=
  ⟨_, _, rfl, rfl, rfl⟩

/-- an identprefix picklist ("G1") picks `G1.1 x` through both paths -/
example :
    let pl : Picklist := { id := 1, coltype := .identprefix, exclude := false, pickset := [.s ['G', '1']] }
    pl.hasSig dnaA = true ∧ pl.matchesRow (mkRow dnaA 0) = .ok true ∧ pl.hasSig protB = false :=
  ⟨rfl, rfl, rfl⟩

/-- a well-formed zip of two named sketches: selecting on the manifest loads exactly the DNA one -/
example :
    ZipOk [(mkRow dnaA 0, dnaA), (mkRow protB 1, protB)] ∧
      ∃ y, ((Coll.zipM [mkRow dnaA 0, mkRow protB 1] (storeOf [(mkRow dnaA 0, dnaA), (mkRow protB 1, protB)])).select
          { moltype := .val .DNA }).2 = .ok y ∧ y.signatures = .ok [dnaA] := by
  refine ⟨⟨?_, by decide⟩, _, rfl, rfl⟩
  intro x hx
  simp only [List.mem_cons, List.not_mem_nil, or_false] at hx
  rcases hx with rfl | rfl <;> rfl

/-- the refusal of the reference predicate is reachable -/
example : selectSignature dnaA { containment := some true } = .error .value := rfl

/-- a merge that refuses, and one that does not -/
example : mergeLazy { ksize := .val 21 } { ksize := .val 31 } = .error .value := rfl
example : mergeLazy { ksize := .val 21 } { moltype := .val .DNA } = .ok { ksize := .val 21, moltype := .val .DNA } := rfl

end Sm.C12
