/-
C16 — comparison matrices equal the pairwise values, however they are computed.

Model: `SmVerif/Model/CompareMatrix.lean` (every matrix builder of `src/sourmash/compare.py`,
branch for branch; the pairwise values are inputs).  `cell a b` is the outcome of the pairwise
method with receiver `siglist[a]` and argument `siglist[b]` (`.error cls` = it raised `cls`).

What is proved, for every list length `n`, every pairwise function, every job count:

* `serial_entries`, `max_entries`, `avg_entries`, `avg_ani_entries` (+ `avg_ani_entry_eq_pairwise`),
  `containment_entries`, `parallel_entries`:
  the exact matrix each builder returns (unit diagonal, which pairwise call lands in which cell).
* `parallel_eq_serial`, `allpairs_eq_serial`, `parallel_jobs_irrelevant`, `imap_chunk_irrelevant`:
  `compare_parallel` = `compare_serial` as VALUES OF TYPE `Except` — same matrix, or the same
  exception — for every `n ≥ 1`, every `n_jobs ≥ 1` (n < jobs, n not divisible, n = 1, 2 included).
  The only thing assumed of `multiprocessing` is that `Pool.imap` yields its batches in submission
  order (trusted; it is what `imap` in the model says).
* `parallel_writes_in_bounds`, `parallel_writes_cover`, `parallel_writes_once`, `parallel_writes_consistent`:
  the placement loop `M[i, i+1+c] = M[c+i+1, i] = row_i[c]` only writes inside the matrix, never on the
  diagonal, reaches every off-diagonal cell, and writes no cell twice (every cell exactly once, with the right value).
* `unit_diag`, `symm`, `containment_direction`, `ani_none_is_zero`.
* `entry_eq_pairwise_partial`, `perm_equivariant_partial`: entry (a,b) is the pairwise value of
  (a,b) in either argument order, and permuting the inputs permutes the matrix — PROVIDED the pairwise
  function is symmetric.  Without that hypothesis both are false of the code (the symmetric builders
  evaluate one argument order only): `perm_equivariant_counterexample`.  The real
  `MinHash.max_containment(other, downsample=True)` was not symmetric for sketches of different
  `scaled` until /repo commit 0bf3075 (finding C16.1 of this check, see harness/streams/compare.py:
  the oracle tests the symmetry of every pairwise table), so the hypothesis is not pedantry.
* `allpairs_perm_equivariant`, `parallel_perm_equivariant`, `allpairs_raises_iff`: the same for `compare_all_pairs` /
  `compare_parallel` themselves, for ALL `n_jobs` and chunkings (nothing about the parallel path is `_partial`).
* `perm_equivariant_containment`: no symmetry needed for the containment matrix.
* `earlier_results_unchanged`, `earlier_results_unchanged_by_any_sequence`: in the model results are values; the
  implementation's memory-mapped results are tied to that by the stream's `recheck` op.
-/
import SmVerif.Lemmas.CompareOnce

namespace Sm.C16

open Sm.Compare

variable {α : Type}

/-! ### the source shapes the model is instantiated with (re-read from compare.py on every run) -/

/-- receiver of the pairwise call: row index in `compare_serial`, column index in the three containment
    builders; `col_idx = index + 1`; `siglist[index + 1:]`.  If compare.py changes any of these the
    translator regenerates the constant, this theorem and every `*_entries` theorem stop checking. -/
theorem source_shapes :
    Gen.cmpSerialRecvIsRow = true ∧ Gen.cmpContainmentRecvIsRow = false ∧ Gen.cmpMaxRecvIsRow = false ∧
      Gen.cmpAvgRecvIsRow = false ∧ Gen.cmpAvgAniFirstRecvIsRow = false ∧ Gen.cmpParColOffset = 1 ∧
      Gen.cmpParRowStart = 1 := by decide

/-! ### what each builder returns -/

/-- `compare_serial`: `M[a][b] = sig_min.f(sig_max)`, unit diagonal -/
theorem serial_entries (n : Nat) (cell : Nat → Nat → Except String α) (f : Nat → Nat → α) (one : α)
    (h : ∀ i j, i < j → j < n → cell i j = .ok (f i j)) :
    compareSerial n cell one =
      .ok (Mat.ofFn n fun a b => if a = b then one else if a < b then f a b else f b a) :=
  compareSerial_ok n cell f one h

/-- `compare_serial_max_containment`: the receiver is the LATER signature -/
theorem max_entries (n : Nat) (cell : Nat → Nat → Except String α) (f : Nat → Nat → α) (one : α)
    (h : ∀ i j, i < j → j < n → cell j i = .ok (f j i)) :
    compareSerialMax n cell one =
      .ok (Mat.ofFn n fun a b => if a = b then one else if a < b then f b a else f a b) := by
  rw [compareSerialMax_eq]
  exact compareSerial_ok n (fun i j => cell j i) (fun i j => f j i) one h

/-- `compare_serial_avg_containment`: likewise -/
theorem avg_entries (n : Nat) (cell : Nat → Nat → Except String α) (f : Nat → Nat → α) (one : α)
    (h : ∀ i j, i < j → j < n → cell j i = .ok (f j i)) :
    compareSerialAvg n cell one =
      .ok (Mat.ofFn n fun a b => if a = b then one else if a < b then f b a else f a b) := by
  rw [compareSerialAvg_eq]
  exact compareSerial_ok n (fun i j => cell j i) (fun i j => f j i) one h

/-- the pairwise reference for average-containment ANI: `sig_a.avg_containment_ani(sig_b)` as `MinHash` computes it
    (`a1 = self.containment_ani(other).ani`, `a2 = other.containment_ani(self).ani`, None if either is None,
    else `(a1 + a2) / 2`), with the builders' `None -> 0.0`; `g x y` = `sig_x.containment_ani(sig_y).ani` -/
def pairwiseAvgAni (g : Nat → Nat → Option α) (avg : α → α → α) (zero : α) (a b : Nat) : α :=
  avgOrZero avg zero (g a b) (g b a)

/-- `compare_serial_avg_containment(return_ani=True)` for the current source (/repo b596f84: two `containment_ani`
    calls with the `downsample` flag, averaged, None -> 0.0): the exact matrix.  FULL statement: every
    `containment_ani` table `g`, every averaging function. -/
theorem avg_ani_entries (n : Nat) (cani : Nat → Nat → Except String (Option α)) (g : Nat → Nat → Option α)
    (avg : α → α → α) (zero one : α)
    (h : ∀ i j, i ≠ j → i < n → j < n → cani i j = .ok (g i j)) :
    compareSerialAvgAni n cani avg zero one =
      .ok (Mat.ofFn n fun a b => if a = b then one else
        if a < b then pairwiseAvgAni g avg zero b a else pairwiseAvgAni g avg zero a b) :=
  compareSerialAvgAni_ok n cani g avg zero one h

/-- … and every off-diagonal entry IS the pairwise `avg_containment_ani` of the two signatures, whichever of them
    is the receiver (binary64 `+` is commutative: hypothesis `hc`) -/
theorem avg_ani_entry_eq_pairwise (n : Nat) (g : Nat → Nat → Option α) (avg : α → α → α)
    (hc : ∀ x y, avg x y = avg y x) (zero one : α) (a b : Nat) (ha : a < n) (hb : b < n) (hab : a ≠ b) :
    (upperSpec n (fun i j => avgOrZero avg zero (g j i) (g i j)) one).get? a b = some (pairwiseAvgAni g avg zero a b) ∧
    pairwiseAvgAni g avg zero a b = pairwiseAvgAni g avg zero b a := by
  have hs : pairwiseAvgAni g avg zero a b = pairwiseAvgAni g avg zero b a := avgOrZero_comm avg hc zero _ _
  refine ⟨?_, hs⟩
  simp only [upperSpec, Mat.get?_ofFn _ ha hb, hab, if_false]
  by_cases h1 : a < b
  · simp only [h1, if_true]; exact congrArg some hs.symm
  · simp only [h1, if_false]; rfl

/-- the first `containment_ani` call that raises decides the outcome: with `downsample=False` on sketches of
    different scaled the pairwise call raises, and so does the builder (it used to return a matrix: C16.2) -/
theorem avg_ani_raises_with_pairwise (cani : Nat → Nat → Except String (Option α)) (avg : α → α → α) (zero one : α)
    (e : String) (h : cani 1 0 = .error e) : compareSerialAvgAni 2 cani avg zero one = .error e := by
  rw [compareSerialAvgAni_eq, compareSerial_def]
  simp [pairsUpper, List.range, List.range.loop, stepSym, h, bind, Except.bind]

/-- `compare_serial_containment`: row a, column b holds `sig_b.contained_by(sig_a)` -/
theorem containment_entries (n : Nat) (cell : Nat → Nat → Except String α) (f : Nat → Nat → α) (one : α)
    (h : ∀ i j, i ≠ j → i < n → j < n → cell j i = .ok (f j i)) :
    compareSerialContainment n cell one = .ok (Mat.ofFn n fun a b => if a = b then one else f b a) :=
  compareSerialContainment_ok n cell f one h

/-- `compare_parallel` with any number of processes -/
theorem parallel_entries (n jobs : Nat) (hn : 0 < n) (hj : 0 < jobs)
    (cell : Nat → Nat → Except String α) (f : Nat → Nat → α) (one zero : α)
    (h : ∀ i j, i < j → j < n → cell i j = .ok (f i j)) :
    compareParallel n jobs cell one zero =
      .ok (Mat.ofFn n fun a b => if a = b then one else if a < b then f a b else f b a) :=
  compareParallel_ok n jobs hn hj cell f one zero h

/-! ### serial = parallel, for every process count and chunking, exceptions included -/

theorem parallel_eq_serial (n jobs : Nat) (hn : 0 < n) (hj : 0 < jobs)
    (cell : Nat → Nat → Except String α) (one zero : α) :
    compareParallel n jobs cell one zero = compareSerial n cell one :=
  compareParallel_eq_serial n jobs hn hj cell one zero

theorem parallel_jobs_irrelevant (n j₁ j₂ : Nat) (hn : 0 < n) (h₁ : 0 < j₁) (h₂ : 0 < j₂)
    (cell : Nat → Nat → Except String α) (one zero : α) :
    compareParallel n j₁ cell one zero = compareParallel n j₂ cell one zero := by
  rw [parallel_eq_serial n j₁ hn h₁, parallel_eq_serial n j₂ hn h₂]

/-- `compare_all_pairs(…, n_jobs)` for `n_jobs ∈ {None, 1, 2, …}` -/
theorem allpairs_eq_serial (n : Nat) (hn : 0 < n) (jobs : Option Nat) (hj : jobs ≠ some 0)
    (cell : Nat → Nat → Except String α) (one zero : α) :
    compareAllPairs n jobs cell one zero = compareSerial n cell one := by
  match jobs, hj with
  | none, _ => rfl
  | some 0, hj => exact absurd rfl hj
  | some 1, _ => rfl
  | some (j + 2), _ => exact parallel_eq_serial n (j + 2) hn (by omega) cell one zero

/-- whatever `imap` delivers (values or the first exception) is independent of the chunk size -/
theorem imap_chunk_irrelevant {β γ : Type} (f : β → Except String γ) (l : List β) (c₁ c₂ : Nat)
    (h₁ : 0 < c₁) (h₂ : 0 < c₂) : imap f l c₁ = imap f l c₂ := by
  rw [imap_eq_mapM f l c₁ h₁, imap_eq_mapM f l c₂ h₂]

/-- `divmod(n, jobs)` rounded up is a legal `imap` chunk size whenever there is something to compare -/
theorem chunk_size_positive (n jobs : Nat) (hn : 0 < n) (hj : 0 < jobs) : 0 < chunkSize n jobs :=
  chunkSize_pos hn hj

/-- `n = 0`: `compare_parallel([])` raises (`imap(chunksize=0)`), `compare_serial([])` returns the 0×0 matrix;
    the property quantifies over 1..dozens of signatures, the difference is recorded here -/
theorem empty_list_differs (jobs : Nat) (cell : Nat → Nat → Except String α) (one zero : α) :
    compareParallel 0 jobs cell one zero = .error "ValueError" ∧ compareSerial 0 cell one = .ok [] := by
  refine ⟨?_, rfl⟩
  unfold compareParallel
  by_cases h : jobs = 0
  · simp [h]
  · simp [h, chunkSize]

/-! ### the placement loop of `compare_parallel` -/

theorem parallel_writes_in_bounds (n : Nat) (f : Nat → Nat → α) :
    ∀ w ∈ parWrites (rowsOf n f), w.1 < n ∧ w.2.1 < n ∧ w.1 ≠ w.2.1 := by
  intro w hw
  obtain ⟨i, c, hi, hc, hw⟩ := mem_parWrites_rowsOf.mp hw
  rcases hw with rfl | rfl
  · exact ⟨hi, show i + 1 + c < n by omega, show i ≠ i + 1 + c by omega⟩
  · exact ⟨show c + (i + 1) < n by omega, hi, show c + (i + 1) ≠ i by omega⟩

theorem parallel_writes_cover (n : Nat) (f : Nat → Nat → α) (a b : Nat) (ha : a < n) (hb : b < n) (hab : a ≠ b) :
    ∃ w ∈ parWrites (rowsOf n f), w.1 = a ∧ w.2.1 = b ∧ w.2.2 = if a < b then f a b else f b a := by
  by_cases hlt : a < b
  · refine ⟨(a, b, f a b), mem_parWrites_rowsOf.mpr ⟨a, b - a - 1, ha, by omega, Or.inl ?_⟩, rfl, rfl, by simp [hlt]⟩
    have : a + 1 + (b - a - 1) = b := by omega
    rw [this]
  · refine ⟨(a, b, f b a), mem_parWrites_rowsOf.mpr ⟨b, a - b - 1, hb, by omega, Or.inr ?_⟩, rfl, rfl, by simp [hlt]⟩
    have h1 : a - b - 1 + (b + 1) = a := by omega
    have h2 : b + 1 + (a - b - 1) = a := by omega
    rw [h1, h2]

/-- no cell is assigned twice: with `parallel_writes_cover`, every off-diagonal cell is written exactly once -/
theorem parallel_writes_once (n : Nat) (f : Nat → Nat → α) :
    ((parWrites (rowsOf n f)).map (fun w => (w.1, w.2.1))).Nodup :=
  parWrites_nodup n f

/-- every assignment to a given cell stores the same value: nothing is overwritten with something else -/
theorem parallel_writes_consistent (n : Nat) (f : Nat → Nat → α) :
    ∀ w ∈ parWrites (rowsOf n f), w.2.2 = if w.1 < w.2.1 then f w.1 w.2.1 else f w.2.1 w.1 := by
  intro w hw
  obtain ⟨i, c, hi, hc, hw⟩ := mem_parWrites_rowsOf.mp hw
  rcases hw with rfl | rfl
  · have : i < i + 1 + c := by omega
    simp [this]
  · have h1 : ¬ c + (i + 1) < i := by omega
    have h2 : i + 1 + c = c + (i + 1) := by omega
    simp [h1, h2]

/-! ### unit diagonal, symmetry, direction -/

theorem unit_diag (n : Nat) (f : Nat → Nat → α) (one : α) (a : Nat) (ha : a < n) :
    (upperSpec n f one).get? a a = some one ∧ (contSpec n f one).get? a a = some one := by
  simp [upperSpec, contSpec, Mat.get?_ofFn _ ha ha]

/-- the matrices of the symmetric builders are symmetric whatever the pairwise function is -/
theorem symm (n : Nat) (f : Nat → Nat → α) (one : α) (a b : Nat) (ha : a < n) (hb : b < n) :
    (upperSpec n f one).get? a b = (upperSpec n f one).get? b a := by
  simp only [upperSpec, Mat.get?_ofFn _ ha hb, Mat.get?_ofFn _ hb ha]
  by_cases h : a = b
  · subst h; rfl
  · have h' : ¬ b = a := fun e => h e.symm
    by_cases h1 : a < b
    · have : ¬ b < a := by omega
      simp [h, h', h1, this]
    · have : b < a := by omega
      simp [h, h', h1, this]

/-- documented direction (doc/command-line.md): `C(A, B) = B.contained_by(A)`;
    `f x y` = `sig_x.contained_by(sig_y)` -/
theorem containment_direction (n : Nat) (f : Nat → Nat → α) (one : α) (a b : Nat) (ha : a < n) (hb : b < n)
    (hab : a ≠ b) : (contSpec n f one).get? a b = some (f b a) := by
  simp [contSpec, Mat.get?_ofFn _ ha hb, hab]

/-- `if ani is None: ani = 0.0` -/
theorem ani_none_is_zero (zero : α) :
    aniOrZero zero (.ok none) = .ok zero ∧ (∀ v, aniOrZero zero (.ok (some v)) = .ok v) ∧
      (∀ e, aniOrZero zero (.error e) = .error e) :=
  ⟨rfl, fun _ => rfl, fun _ => rfl⟩

/- FULL STATEMENT (not proved / false):
     theorem entry_eq_pairwise (n) (f) (one) (a b) (ha : a < n) (hb : b < n) (hab : a ≠ b) :
         (upperSpec n f one).get? a b = some (f a b)
   i.e. "entry (i,j) is the pairwise value of signatures i and j" for EVERY pairwise function.
   The symmetric builders evaluate one argument order only (`sig_i.f(sig_j)` for i < j, or
   `sig_j.f(sig_i)`), so below the diagonal the entry is the value of the other order.
   Proved under the hypothesis that the pairwise function is symmetric; counterexample below.
   The code violated the hypothesis for `max_containment(downsample=True)` on mixed scaled (C16.1, repaired by 0bf3075). -/
theorem entry_eq_pairwise_partial (n : Nat) (f : Nat → Nat → α) (one : α)
    (hsym : ∀ i j, i < n → j < n → f i j = f j i) (a b : Nat) (ha : a < n) (hb : b < n) (hab : a ≠ b) :
    (upperSpec n f one).get? a b = some (f a b) ∧ (upperSpec n f one).get? a b = some (f b a) := by
  simp only [upperSpec, Mat.get?_ofFn _ ha hb, hab, if_false]
  by_cases h1 : a < b
  · simp [h1, hsym b a hb ha]
  · simp [h1, hsym a b ha hb]

/- FULL STATEMENT (not proved / false):
     theorem perm_equivariant (n) (f) (one) (σ) (hσ : maps [0,n) to [0,n)) (inj : injective on [0,n)) (a b) :
         (upperSpec n (fun i j => f (σ i) (σ j)) one).get? a b = (upperSpec n f one).get? (σ a) (σ b)
   for EVERY pairwise function `f` ("permuting the inputs permutes the matrix").
   False without symmetry of `f`: `perm_equivariant_counterexample`. -/
theorem perm_equivariant_partial (n : Nat) (f : Nat → Nat → α) (one : α) (σ : Nat → Nat)
    (hσ : ∀ a, a < n → σ a < n) (inj : ∀ a b, a < n → b < n → σ a = σ b → a = b)
    (hsym : ∀ i j, i < n → j < n → f i j = f j i) (a b : Nat) (ha : a < n) (hb : b < n) :
    (upperSpec n (fun i j => f (σ i) (σ j)) one).get? a b = (upperSpec n f one).get? (σ a) (σ b) :=
  upperSpec_perm f one σ hσ inj hsym ha hb

/-- two signatures whose pairwise value depends on the argument order (7 one way, 9 the other):
    `compare_serial_max_containment([s0, s1])` and `…([s1, s0])` both succeed, and the second is
    not the first with rows and columns swapped -/
def cexF : Nat → Nat → Nat := fun i j => if i < j then 7 else 9
def cexσ : Nat → Nat := fun i => 1 - i

theorem perm_equivariant_counterexample :
    compareSerialMax 2 (fun i j => .ok (cexF i j)) 1 = .ok [[1, 9], [9, 1]] ∧
    compareSerialMax 2 (fun i j => .ok (cexF (cexσ i) (cexσ j))) 1 = .ok [[1, 7], [7, 1]] ∧
    (upperSpec 2 (fun i j => cexF (cexσ i) (cexσ j)) 1).get? 0 1 ≠ (upperSpec 2 cexF 1).get? (cexσ 0) (cexσ 1) := by
  decide

/-- `compare_all_pairs` (hence `sourmash compare`, with or without `-p N`) is permutation-equivariant for EVERY
    `n_jobs ∈ {None, 1, 2, …}` and every chunking: permuting the signature list by an injective `σ` permutes rows and
    columns of the returned matrix.  Hypotheses: the pairwise function is symmetric (necessary, see
    `perm_equivariant_counterexample`) and total on the list.  The only assumption about `multiprocessing` is the one
    built into the model's `imap`: `Pool.imap` yields its chunks in SUBMISSION ORDER and re-raises a worker's exception
    when its chunk is reached; nothing is assumed about which worker runs which chunk, or when. -/
theorem allpairs_perm_equivariant (n : Nat) (hn : 0 < n) (jobs : Option Nat) (hj : jobs ≠ some 0)
    (f : Nat → Nat → α) (hsym : ∀ i j, i < n → j < n → f i j = f j i) (σ : Nat → Nat)
    (hσ : ∀ a, a < n → σ a < n) (inj : ∀ a b, a < n → b < n → σ a = σ b → a = b) (one zero : α) :
    ∃ M M', compareAllPairs n jobs (fun i j => .ok (f i j)) one zero = .ok M ∧
      compareAllPairs n jobs (fun i j => .ok (f (σ i) (σ j))) one zero = .ok M' ∧
      ∀ a b, a < n → b < n → M'.get? a b = M.get? (σ a) (σ b) := by
  refine ⟨upperSpec n f one, upperSpec n (fun i j => f (σ i) (σ j)) one, ?_, ?_, ?_⟩
  · rw [allpairs_eq_serial n hn jobs hj]; exact compareSerial_ok n _ f one (fun _ _ _ _ => rfl)
  · rw [allpairs_eq_serial n hn jobs hj]; exact compareSerial_ok n _ _ one (fun _ _ _ _ => rfl)
  · intro a b ha hb; exact upperSpec_perm f one σ hσ inj hsym ha hb

/-- the same for `compare_parallel` called directly with any positive number of processes -/
theorem parallel_perm_equivariant (n jobs : Nat) (hn : 0 < n) (hj : 0 < jobs)
    (f : Nat → Nat → α) (hsym : ∀ i j, i < n → j < n → f i j = f j i) (σ : Nat → Nat)
    (hσ : ∀ a, a < n → σ a < n) (inj : ∀ a b, a < n → b < n → σ a = σ b → a = b) (one zero : α) :
    ∃ M M', compareParallel n jobs (fun i j => .ok (f i j)) one zero = .ok M ∧
      compareParallel n jobs (fun i j => .ok (f (σ i) (σ j))) one zero = .ok M' ∧
      ∀ a b, a < n → b < n → M'.get? a b = M.get? (σ a) (σ b) := by
  refine ⟨upperSpec n f one, upperSpec n (fun i j => f (σ i) (σ j)) one, ?_, ?_, ?_⟩
  · exact compareParallel_ok n jobs hn hj _ f one zero (fun _ _ _ _ => rfl)
  · exact compareParallel_ok n jobs hn hj _ _ one zero (fun _ _ _ _ => rfl)
  · intro a b ha hb; exact upperSpec_perm f one σ hσ inj hsym ha hb

theorem perm_equivariant_containment (n : Nat) (f : Nat → Nat → α) (one : α) (σ : Nat → Nat)
    (hσ : ∀ a, a < n → σ a < n) (inj : ∀ a b, a < n → b < n → σ a = σ b → a = b)
    (a b : Nat) (ha : a < n) (hb : b < n) :
    (contSpec n (fun i j => f (σ i) (σ j)) one).get? a b = (contSpec n f one).get? (σ a) (σ b) :=
  contSpec_perm f one σ hσ inj ha hb

/-- the first pairwise call that raises (in loop order) decides the outcome of the serial builder,
    hence (by `parallel_eq_serial`) of every builder -/
theorem serial_raises_iff_some_pair_raises (n : Nat) (cell : Nat → Nat → Except String α) (one : α) :
    (∃ e, compareSerial n cell one = .error e) ↔ ∃ i j, i < j ∧ j < n ∧ ∃ e, cell i j = .error e := by
  constructor
  · rintro ⟨e, he⟩
    apply Classical.byContradiction
    intro hno
    let f : Nat → Nat → α := fun i j => match cell i j with | .ok v => v | .error _ => one
    have h : ∀ i j, i < j → j < n → cell i j = .ok (f i j) := by
      intro i j h1 h2
      cases hc : cell i j with
      | ok v => simp only [f, hc]
      | error e' => exact absurd ⟨i, j, h1, h2, e', hc⟩ hno
    rw [compareSerial_ok n cell f one h] at he
    cases he
  · rintro ⟨i, j, h1, h2, e, he⟩
    cases hm : (pairsUpper n).mapM (fun p => cell p.1 p.2) with
    | error e' =>
      refine ⟨e', ?_⟩
      rw [compareSerial_def]
      exact foldlM_error_of_mapM_error (fun p : Nat × Nat => cell p.1 p.2)
        (fun (m : Mat α) p v => (m.set2 p.1 p.2 v).set2 p.2 p.1 v) _ e' hm _
    | ok vs =>
      obtain ⟨v, hv⟩ := mapM_ok_imp _ _ _ hm (i, j) (mem_pairsUpper.mpr ⟨h1, h2⟩)
      simp only [he] at hv
      cases hv

/-- … and when some pairwise call raises, every path raises (the permuted list may raise a different one of the
    exceptions, the first in ITS loop order) -/
theorem allpairs_raises_iff (n : Nat) (hn : 0 < n) (jobs : Option Nat) (hj : jobs ≠ some 0)
    (cell : Nat → Nat → Except String α) (one zero : α) :
    (∃ e, compareAllPairs n jobs cell one zero = .error e) ↔ ∃ i j, i < j ∧ j < n ∧ ∃ e, cell i j = .error e := by
  rw [allpairs_eq_serial n hn jobs hj]
  exact serial_raises_iff_some_pair_raises n cell one

/-! ### results are values

The model's builders return matrices as VALUES: in a history of calls (serial and parallel, any lists, any `n_jobs`)
a later call cannot change what an earlier call returned.  In the implementation `compare_parallel` returns an
`np.memmap` opened on a scratch file written by `np_utils.to_memmap`; the statement is true of it only as long as every
call gets its own file.  That is not provable from the model (file identity is not modelled); it is TIED by the `recheck`
op of the compare stream: the adapter keeps every matrix object uncopied for the whole case and re-reads all of them
after every later pool-based call (oracle signature `C16:earlier-result-changed`). -/

/-- a history of the compare API: the results handed out so far, oldest first -/
abbrev History (α : Type) := List (Except String (Mat α))

/-- one more call (`run` = any of the builders applied to any list) -/
def History.call (h : History α) (run : Except String (Mat α)) : History α := h ++ [run]

theorem earlier_results_unchanged (h : History α) (run : Except String (Mat α)) (i : Nat) (hi : i < h.length) :
    (h.call run)[i]? = h[i]? := by
  unfold History.call
  exact List.getElem?_append_left hi

theorem earlier_results_unchanged_by_any_sequence (h : History α) (runs : List (Except String (Mat α))) (i : Nat)
    (hi : i < h.length) : (runs.foldl History.call h)[i]? = h[i]? := by
  induction runs generalizing h with
  | nil => rfl
  | cons r rs ih =>
    simp only [List.foldl_cons]
    rw [ih (h.call r) (by unfold History.call; simp; omega)]
    exact earlier_results_unchanged h r i hi

/-! ### non-vacuity: concrete runs of the model -/

example : compareParallel 4 3 (fun i j => .ok (10 * i + j)) 1 0 =
    .ok [[1, 1, 2, 3], [1, 1, 12, 13], [2, 12, 1, 23], [3, 13, 23, 1]] := by decide

example : compareSerialContainment 3 (fun i j => .ok (10 * i + j)) 1 = .ok [[1, 10, 20], [1, 1, 21], [2, 12, 1]] := by
  decide

example : compareParallel 3 16 (fun i j => if i = 1 ∧ j = 2 then .error "ValueError" else .ok (10 * i + j)) 1 0 =
    .error "ValueError" := by decide

/-! regression examples for finding C16.2 (repaired by /repo b596f84): `compare_serial_avg_containment(return_ani=True)`
    used to build `FracMinHashComparison(mh_j, mh_i)` and ignore `downsample`.  Now the entry is the average of the
    two `containment_ani` results, 0.0 as soon as one is withheld, and the builder raises when the pairwise call does.
    (The concrete sketches — 10 hashes at scaled 1 vs 60 hashes at scaled 2 — are replayed from corpus/C16 on every run.) -/
example : compareSerialAvgAni 2 (fun i j => .ok (some (if i < j then 4 else 8))) (fun x y => (x + y) / 2) 0 1 =
    .ok [[1, 6], [6, 1]] := by decide

example : compareSerialAvgAni 2 (fun i j => .ok (if i < j then some 4 else none)) (fun x y => (x + y) / 2) 0 1 =
    .ok [[1, 0], [0, 1]] := by decide

example : compareSerialAvgAni 2 (fun _ _ => (.error "ValueError" : Except String (Option Nat))) (fun x y => (x + y) / 2) 0 1 =
    .error "ValueError" := by decide

example : chunkSize 7 3 = 3 ∧ chunks 3 (List.range 7) = [[0, 1, 2], [3, 4, 5], [6]] ∧ chunkSize 2 16 = 1 := by decide

end Sm.C16
