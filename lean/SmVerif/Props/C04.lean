/-
C04 — sketch set operations mirror the same operations on the underlying data.

Statements only (helper lemmas: `SmVerif/Lemmas/SetOps*.lean`).

The abstraction is `count s x` (C01): the multiplicity sketch `s` carries for
hash `x` (0 = absent, flat sketches carry 1).  For a valid scaled sketch
(`Scaled s` = `Inv s ∧ s.num = 0 ∧ s.maxHash ≠ 0`) fed the multiset `m`,
`count s x = m x` for `x ≤ maxHash` and `0` above (C01); so every theorem
`count (op a b) x = f (count a x) (count b x)` below, with `f 0 0 = 0`, says:
the sketch of `op` applied to the data is `op` applied to the sketches.

* homomorphisms: `merge_hom` (counts add; flat: union; a flat operand of an
  abundance sketch counts once per hash), `inter_hom`, `subtract_hom`,
  `flatten_hom`, `inflate_hom` (Rust `KmerMinHash::inflate`), `py_inflate_hom`
  (Python `MinHash.inflate`), `filter_hom`, `downsample_hom`,
  `downsample_commutes_merge`, `downsample_commutes_inter`.
* the same in terms of the data: `Sketches s m` (s is the sketch of multiset m),
  `sketches_leaf`, `mirror_union` / `_intersection` / `_subtract` / `_flatten` / `_inflate` /
  `_filter` / `_downsample`, and for **every operation tree** `tree_mirror`.
* algebra: `union_comm`, `union_assoc`, `union_idem`.
* `add_many(<set>)` does not depend on the iteration order of the set
  (`add_many_order_irrelevant`) — used by `sig intersect` / `sig subtract`.
* operator = method: `add_eq_merge` (`__add__`/`__or__`: copy, then the same FFI
  call as `merge`/`__iadd__`), `iadd_eq_merge`, `add_many_eq_merge_flat`;
  `__or__` *is* `__add__` and `__and__` *is* `intersection` (one function object, one
  model function; `operator_aliases`, re-read from the source by the translator).
* sub-command = method: `sigMerge_hom` (n-ary) and `sigMerge_pair_eq_add`,
  `sigIntersect_hom` (+ `-A`) and `sigIntersect_pair_eq_and`, `sigSubtract_hom` and
  `sigSubtract_pair_eq_remove`, `sigFlatten_eq_method`, `sigInflate_eq_method`,
  `sigFilter_hom` = `filter_hom` (there is no API method), `sigDownsample_eq_method`.
* unequal scaled values are refused: `unequal_scaled_refused`,
  `sigMerge_refuses_unequal_scaled`.
* num sketches: `merge_num_hom`, `merge_num_exact` (exact when the receiver's num does not
  exceed the operand's), `inter_num` (the documented restricted intersection).

One place where the code does not satisfy the statement (reproduced on /repo, known finding
C04.2: the project's own test-suite pins the behaviour):
* `merge` / `__iadd__` accept num sketches with different `num` (which `__add__` refuses):
  merging a smaller-num sketch into a larger-num one is not the sketch of the union
  (`merge_num_mismatch_counterexample`).
Found by this check and repaired in /repo (C04.1, bf0c174): `MinHash.inflate` built its result at
the threshold of the *abundance source* (`abund_mh.downsample(scaled=self.scaled)` computed the
right object and threw it away); `py_inflate_hom` is now the full statement (result at the
resolution of the flat sketch) and the former counterexample is a regression `example`.
-/
import SmVerif.Lemmas.SetOpsSig
import SmVerif.Lemmas.SetOpsNum
import SmVerif.Props.C03

namespace Sm.C04

open Sm MH Sig

/-! ### union (merge / `+` / `|` / `+=`) -/

/-- merged abundances are the sums; a flat sketch holds the union; a flat operand merged
into an abundance sketch counts once per hash -/
theorem merge_hom {s o r : MH} (hs : Scaled s) (ho : Inv o) (hr : s.merge o = .ok r) :
    Scaled r ∧ r.trackAbundance = s.trackAbundance ∧ r.maxHash = s.maxHash ∧
    ∀ x, count r x = if s.trackAbundance then count s x + count o x
                     else min 1 (count s x + count o x) := by
  have hf := merge_frame hr
  exact ⟨⟨inv_merge hs.inv ho hr, hf.1.trans hs.num, by rw [hf.2.1]; exact hs.max⟩,
    hf.2.2.2.2.2, hf.2.1, fun x => (count_merge_scaled' hs.inv ho hs.num hr x).2⟩

/-- merge is defined on every compatible pair -/
theorem merge_defined {s o : MH} (h1 : s.ksize = o.ksize) (h2 : s.hf = o.hf)
    (h3 : s.maxHash = o.maxHash) (h4 : s.seed = o.seed) : ∃ r, s.merge o = .ok r :=
  merge_eq_ok_of h1 h2 h3 h4

/-- sketches with different thresholds (scaled values) are refused by merge, `+`, `&`,
Rust `inflate` and by the `sig merge` sub-command -/
theorem unequal_scaled_refused {s o : MH} (h : s.maxHash ≠ o.maxHash) :
    (∀ r, s.merge o ≠ .ok r) ∧ (∀ r, Py.add s o ≠ .ok r) ∧ (∀ r, Py.intersection s o ≠ .ok r) ∧
    (∀ r, s.inflate o ≠ .ok r) := by
  have hm : ∀ (t : MH), t.maxHash = s.maxHash → ∀ r, t.merge o ≠ .ok r := by
    intro t ht r hr
    exact h (ht ▸ (merge_ok hr).1.2.2.1)
  refine ⟨hm s rfl, ?_, ?_, ?_⟩
  · intro r hr
    unfold Py.add at hr
    split at hr
    · cases hr
    · cases hc : Py.copy s with
      | error e => simp [hc, bind, Except.bind] at hr
      | ok n =>
        simp only [hc, bind, Except.bind] at hr
        unfold Py.copy at hc
        cases ha : Py.mkMinHash s.num s.ksize s.hf s.seed s.trackAbundance s.maxHash 0 with
        | error e => simp [ha, bind, Except.bind] at hc
        | ok a =>
          simp only [ha, bind, Except.bind] at hc
          have h1 := (merge_ok hc).1.2.2.1
          have h2 := (merge_frame hc).2.1
          exact hm n (h2.trans h1) r hr
  · intro r hr
    unfold Py.intersection at hr
    split at hr
    · cases hr
    · unfold MH.ffiIntersection MH.intersection at hr
      rcases checkCompatible_cases s o with ⟨e, he⟩ | ⟨_, hc⟩
      · rw [he] at hr; simp [bind, Except.bind] at hr
      · exact h hc.2.2.1
  · intro r hr
    unfold MH.inflate at hr
    rcases checkCompatible_cases s o with ⟨e, he⟩ | ⟨_, hc⟩
    · rw [he] at hr; simp [bind, Except.bind] at hr
    · exact h hc.2.2.1

theorem sigMerge_refuses_unequal_scaled {fl : Bool} {first : MH} {rest : List MH} {o : MH}
    (hf : Scaled first) (hst : Stable first.maxHash) (ho : o ∈ first :: rest)
    (hlf : fl = true → ∀ s ∈ first :: rest, Scaled s ∧ Stable s.maxHash)
    (h : o.maxHash ≠ first.maxHash) :
    ∀ r, sigMerge fl (first :: rest) ≠ .ok r := by
  intro r hr
  unfold sigMerge at hr
  simp only at hr
  split at hr
  · cases hr
  · rename_i mh0 h0
    unfold Py.copyAndClear at h0
    rw [hf.num] at h0
    obtain ⟨hs0, hM0, _, _, _, _, _⟩ := fresh_scaled hf.max hst h0
    have hstf := setTrackFalse_spec hs0.inv
    have haccM : (if fl = true then Py.setTrackFalse mh0 else mh0).maxHash = first.maxHash := by
      split
      · exact hstf.2.2.2.1.trans hM0
      · exact hM0
    -- the accumulator keeps the first signature's threshold; a merge with `o` is refused
    have key : ∀ (l : List MH) (acc : MH), acc.maxHash = first.maxHash → o ∈ l →
        (fl = true → ∀ s ∈ l, Scaled s ∧ Stable s.maxHash) →
        ∀ r, mergeLoop first fl acc l ≠ .ok r := by
      intro l
      induction l with
      | nil => intro acc _ hm; cases hm
      | cons t l ih =>
        intro acc hacc hm hlf' r hr
        unfold mergeLoop at hr
        split at hr
        · cases hr
        · split at hr
          · cases hr
          · rename_i t' ht'
            have ht : t'.maxHash = t.maxHash := by
              by_cases hfl' : fl = true
              · rw [if_pos hfl'] at ht'
                obtain ⟨hss, hst'⟩ := hlf' hfl' t (by simp)
                exact (pyFlattenD_spec hss hst' ht').2.2.1
              · rw [if_neg hfl'] at ht'
                cases ht'; rfl
            split at hr
            · rename_i r1 hmr
              have hcomp := (merge_ok hmr).1.2.2.1
              rcases List.mem_cons.1 hm with rfl | hm
              · exact h ((ht.symm.trans hcomp.symm).trans hacc)
              · exact ih r1 ((merge_frame hmr).2.1.trans hacc) hm
                  (fun hh s hs => hlf' hh s (List.mem_cons_of_mem _ hs)) r hr
            · cases hr
    exact key _ _ haccM ho hlf r hr

/-- union is commutative (same abundance mode on both sides): same hashes, same abundances -/
theorem union_comm {a b r1 r2 : MH} (ha : Scaled a) (hb : Scaled b)
    (ht : a.trackAbundance = b.trackAbundance)
    (h1 : a.merge b = .ok r1) (h2 : b.merge a = .ok r2) :
    r1.mins = r2.mins ∧ r1.abunds = r2.abunds := by
  obtain ⟨s1, t1, _, c1⟩ := merge_hom ha hb.inv h1
  obtain ⟨s2, t2, _, c2⟩ := merge_hom hb ha.inv h2
  apply ext_of_count' s1.inv s2.inv (by rw [t1, t2, ht])
  intro x
  rw [c1 x, c2 x, ht, Nat.add_comm]

/-- union is associative -/
theorem union_assoc {a b c ab bc r1 r2 : MH} (ha : Scaled a) (hb : Scaled b) (hc : Inv c)
    (ht : a.trackAbundance = b.trackAbundance)
    (h1 : a.merge b = .ok ab) (h2 : ab.merge c = .ok r1)
    (h3 : b.merge c = .ok bc) (h4 : a.merge bc = .ok r2) :
    r1.mins = r2.mins ∧ r1.abunds = r2.abunds := by
  obtain ⟨sab, tab, _, cab⟩ := merge_hom ha hb.inv h1
  obtain ⟨s1, t1, _, c1⟩ := merge_hom sab hc h2
  obtain ⟨sbc, tbc, _, cbc⟩ := merge_hom hb hc h3
  obtain ⟨s2, t2, _, c2⟩ := merge_hom ha sbc.inv h4
  apply ext_of_count' s1.inv s2.inv (by rw [t1, t2, tab])
  intro x
  rw [c1 x, c2 x, tab, cab x, cbc x, ← ht]
  cases a.trackAbundance
  · simp only [Bool.false_eq_true, if_false]; omega
  · simp only [if_true]; omega

/-- union is idempotent on flat sketches -/
theorem union_idem {a r : MH} (ha : Scaled a) (ht : a.trackAbundance = false)
    (h : a.merge a = .ok r) : r.mins = a.mins ∧ r.abunds = a.abunds := by
  obtain ⟨s1, t1, _, c1⟩ := merge_hom ha ha.inv h
  apply ext_of_count' s1.inv ha.inv t1
  intro x
  rw [c1 x, ht]
  have := count_le_of_flat ha.inv ht x
  simp only [Bool.false_eq_true, if_false]; omega

/-! ### intersection (`&` / `intersection`) -/

/-- the intersection of two flat sketches holds exactly the hashes present in both -/
theorem inter_hom {s o s' r : MH} (hs : Scaled s) (ho : Inv o)
    (hr : Py.intersection s o = .ok (s', r)) :
    Scaled r ∧ r.trackAbundance = false ∧ r.maxHash = s.maxHash ∧
    ∀ x, count r x = min (count s x) (count o x) := by
  obtain ⟨h1, h2, h3, hts, hto, _, h4⟩ := pyIntersection_spec hs ho hr
  refine ⟨h1, h2, h3, ?_⟩
  intro x
  rw [h4 x, count_flat hs.inv hts, count_flat ho hto]
  by_cases c1 : x ∈ s.mins <;> by_cases c2 : x ∈ o.mins <;> simp [c1, c2]

theorem inter_mem {s o s' r : MH} (hs : Scaled s) (ho : Inv o)
    (hr : Py.intersection s o = .ok (s', r)) (x : Nat) :
    x ∈ r.mins ↔ x ∈ s.mins ∧ x ∈ o.mins := by
  obtain ⟨h1, _, _, _, _, _, h4⟩ := pyIntersection_spec hs ho hr
  rw [mem_iff_count_pos' h1.inv, h4 x]
  split <;> simp_all

/-! ### subtraction (`remove_many`) -/

theorem subtract_hom {s : MH} (hs : Inv s) (o : MH) (x : Nat) :
    count (s.removeFrom o) x = if x ∈ o.mins then 0 else count s x :=
  count_removeMany hs o.mins x

theorem subtract_list_hom {s : MH} (hs : Inv s) (l : List Nat) (x : Nat) :
    count (s.removeMany l) x = if x ∈ l then 0 else count s x :=
  count_removeMany hs l x

/-! ### flatten -/

/-- flattening de-duplicates: every count becomes `min 1` of itself, at the same threshold -/
theorem flatten_hom {s r : MH} (hs : Scaled s) (hst : Stable s.maxHash)
    (hr : Py.flattenD s = .ok r) :
    Scaled r ∧ r.trackAbundance = false ∧ r.maxHash = s.maxHash ∧
    ∀ x, count r x = min 1 (count s x) := by
  obtain ⟨h1, h2, h3, _, h5⟩ := pyFlattenD_spec hs hst hr
  exact ⟨h1, h2, h3, h5⟩

/-! ### abundance inflation -/

/-- Rust `KmerMinHash::inflate`: the hashes of `s`, with the abundances of `o` -/
theorem inflate_hom {s o r : MH} (hs : Inv s) (ho : Inv o) (hr : s.inflate o = .ok r) :
    Inv r ∧ r.trackAbundance = true ∧ r.maxHash = s.maxHash ∧ s.maxHash = o.maxHash ∧
    ∀ x, count r x = if x ∈ s.mins then count o x else 0 := by
  obtain ⟨h1, h2, h3, _, h5, _, h7⟩ := inflate_spec hs ho hr
  exact ⟨h1, h2, h3, h5, h7⟩

/-- Python `MinHash.inflate` (an empty copy of the abundance source, downsampled to the scaled
value of the flat sketch, then `set_abundances`): the same content, **at the resolution of the
flat sketch** it was computed from.  The thresholds are rebuilt through the Python constructor:
`mhR (scP o.maxHash) = o.maxHash` (`Stable`) and `mhR (scP (mhP (scP s.maxHash))) = s.maxHash`
(`StableDown`) are explicit hypotheses (theorems for every scaled value up to 2^31, C03; see
`stable_of_le_2_31`). -/
theorem py_inflate_hom {s o r : MH} (hs : Scaled s) (ho : Scaled o) (hst : Stable o.maxHash)
    (hsd : StableDown s.maxHash) (hr : Py.inflate s o = .ok r) :
    Scaled r ∧ r.trackAbundance = true ∧ r.maxHash = s.maxHash ∧
    ∀ x, count r x = if x ∈ s.mins then count o x else 0 := by
  obtain ⟨h1, h2, h3, _, _, _, h7⟩ := pyInflate_spec hs ho hst hsd hr
  exact ⟨h1, h2, h3, h7⟩

/-- regression (C04.1, fixed in bf0c174): data A = {5, 2^63+1}; `a` = its flat sketch at scaled 2
(holds 5), `b` = an abundance sketch at scaled 1 holding 5 (x3) and 2^63+1 (x2).  `a.inflate(b)`
is a sketch at scaled 2 (`max_hash = 2^63`) with content {5: 3} — it used to report scaled 1
(`max_hash = 2^64-1`) with the same content, whereas the scaled-1 sketch of the inflated data is
{5: 3, 2^63+1: 2} (second conjunct). -/
example :
    let A := [5, 2 ^ 63 + 1]
    let a := (MH.new 2 21 1 42 false 0).addMany A
    let b := (MH.new 1 21 1 42 true 0).addManyAb [(5, 3), (2 ^ 63 + 1, 2)]
    let direct := (MH.new 1 21 1 42 false 0).addMany A
    (Py.inflate a b).toOption.map (fun r => (r.maxHash, r.mins, r.abunds))
      = some (2 ^ 63, [5], some [3]) ∧
    (Py.inflate direct b).toOption.map (fun r => (r.maxHash, r.mins, r.abunds))
      = some (U64MAX, [5, 2 ^ 63 + 1], some [3, 2]) := by
  decide +kernel

/-! ### abundance filtering (`sig filter`; there is no API method) -/

theorem filter_hom {s r : MH} {mn : Nat} {mx : Option Nat} (hs : Scaled s)
    (hst : Stable s.maxHash) (hr : sigFilter s mn mx = .ok (some r)) :
    Scaled r ∧ r.trackAbundance = true ∧ r.maxHash = s.maxHash ∧
    ∀ x, count r x =
      if mn ≤ count s x ∧ (∀ m, mx = some m → count s x ≤ m) then count s x else 0 := by
  obtain ⟨h1, h2, _, h4, h5⟩ := sigFilter_spec hs hst hr
  refine ⟨h1, h2, h4, ?_⟩
  intro x
  rw [h5 x]
  unfold keepAbund
  cases mx with
  | none => simp [Gen.sigFilterMinStrict]
  | some m => simp [Gen.sigFilterMinStrict, Gen.sigFilterMaxStrict]

theorem filter_skips_flat {s : MH} {mn : Nat} {mx : Option Nat}
    (ht : s.trackAbundance = false) : sigFilter s mn mx = .ok none := by
  simp [sigFilter, ht]

/-! ### downsampling commutes with the set operations -/

theorem downsample_hom {s r : MH} {sc : Nat} (hs : Scaled s)
    (hr : Py.downsample s none (some sc) = .ok r) (h0 : mhR (scP (mhP sc)) ≠ 0) :
    Scaled r ∧ r.trackAbundance = s.trackAbundance ∧ r.maxHash = mhR (scP (mhP sc)) ∧
    ∀ x, count r x = if x ≤ r.maxHash then count s x else 0 := by
  obtain ⟨h1, h2, h3, _, h5⟩ := pyDownsample_spec hs hr h0
  exact ⟨h1, h2, h3, h5⟩

/-- downsampling the union = the union of the downsampled sketches -/
theorem downsample_commutes_merge {a b m dm da db md : MH} {sc : Nat}
    (ha : Scaled a) (hb : Scaled b) (hm : a.merge b = .ok m)
    (hdm : Py.downsample m none (some sc) = .ok dm) (hda : Py.downsample a none (some sc) = .ok da)
    (hdb : Py.downsample b none (some sc) = .ok db) (hmd : da.merge db = .ok md)
    (h0 : mhR (scP (mhP sc)) ≠ 0) :
    dm.mins = md.mins ∧ dm.abunds = md.abunds ∧ dm.maxHash = md.maxHash := by
  obtain ⟨sm, tm, _, cm⟩ := merge_hom ha hb.inv hm
  obtain ⟨sdm, tdm, mdm, cdm⟩ := downsample_hom sm hdm h0
  obtain ⟨sda, tda, mda, cda⟩ := downsample_hom ha hda h0
  obtain ⟨sdb, _, mdb, cdb⟩ := downsample_hom hb hdb h0
  obtain ⟨smd, tmd, mmd, cmd⟩ := merge_hom sda sdb.inv hmd
  have hM : dm.maxHash = md.maxHash := by rw [mdm, mmd, mda]
  refine ⟨?_, ?_, hM⟩
  all_goals
    have h := ext_of_count' sdm.inv smd.inv (by rw [tdm, tmd, tm, tda]) (by
      intro x
      rw [cdm x, cmd x, cm x, cda x, cdb x, tda, mdm, mda, mdb]
      by_cases c : x ≤ mhR (scP (mhP sc))
      · simp only [c, if_true]
      · simp only [c, if_false]
        split <;> rfl)
  · exact h.1
  · exact h.2

/-- downsampling the intersection = the intersection of the downsampled sketches -/
theorem downsample_commutes_inter {a b a' i di da db da' id : MH} {sc : Nat}
    (ha : Scaled a) (hb : Scaled b) (hi : Py.intersection a b = .ok (a', i))
    (hdi : Py.downsample i none (some sc) = .ok di) (hda : Py.downsample a none (some sc) = .ok da)
    (hdb : Py.downsample b none (some sc) = .ok db)
    (hid : Py.intersection da db = .ok (da', id)) (h0 : mhR (scP (mhP sc)) ≠ 0) :
    di.mins = id.mins ∧ di.abunds = id.abunds ∧ di.maxHash = id.maxHash := by
  obtain ⟨si, ti, _, ci⟩ := inter_hom ha hb.inv hi
  obtain ⟨sdi, tdi, mdi, cdi⟩ := downsample_hom si hdi h0
  obtain ⟨sda, _, mda, cda⟩ := downsample_hom ha hda h0
  obtain ⟨sdb, _, mdb, cdb⟩ := downsample_hom hb hdb h0
  obtain ⟨sid, tid, mid, cid⟩ := inter_hom sda sdb.inv hid
  have hM : di.maxHash = id.maxHash := by rw [mdi, mid, mda]
  refine ⟨?_, ?_, hM⟩
  all_goals
    have h := ext_of_count' sdi.inv sid.inv (by rw [tdi, tid, ti]) (by
      intro x
      rw [cdi x, cid x, ci x, cda x, cdb x, mdi, mda, mdb]
      by_cases c : x ≤ mhR (scP (mhP sc))
      · simp only [c, if_true]
      · simp only [c, if_false]; rfl)
  · exact h.1
  · exact h.2

/-! ### `add_many(<set>)`: the iteration order of the set is irrelevant -/

/-- `sig intersect` / `sig subtract` hand a Python `set` to `add_many`; whatever order the
set is iterated in, the sketch is the same (the model uses ascending order) -/
theorem add_many_order_irrelevant {s : MH} (hs : Scaled s) {l l' : List Nat} (hp : l.Perm l') :
    (s.addMany l).mins = (s.addMany l').mins ∧ (s.addMany l).abunds = (s.addMany l').abunds := by
  rw [addMany_eq_addManyAb, addMany_eq_addManyAb]
  apply scaled_order_independent' hs.inv hs.num hs.max _ _ (hp.map _)
  intro p hp'
  obtain ⟨y, _, rfl⟩ := List.mem_map.1 hp'
  exact Nat.one_pos

/-! ### operator = method -/

/-- `a + b` / `a | b` (copy, then `+=`) holds what `a.merge(b)` / `a += b` leaves in `a` -/
theorem add_eq_merge {s o r r' : MH} (hs : Inv s) (h1 : Py.add s o = .ok r)
    (h2 : s.merge o = .ok r') : r.mins = r'.mins ∧ r.abunds = r'.abunds := by
  unfold Py.add at h1
  split at h1
  · cases h1
  · cases hc : Py.copy s with
    | error e => simp [hc, bind, Except.bind] at h1
    | ok n =>
      simp only [hc, bind, Except.bind] at h1
      have hcc := pyCopy_content hs hc
      exact merge_congr_left hcc.1 hcc.2.1 hcc.2.2.1 h1 h2

/-- `__or__ = __add__`, `__and__ = intersection`, `copy = __copy__` in class MinHash: one function
object each (re-read from the source by the translator), hence one model function each -/
theorem operator_aliases :
    Gen.orIsAdd = true ∧ Gen.andIsIntersection = true ∧ Gen.copyIsDunderCopy = true := by decide

/-- `__iadd__` and `merge` are the same FFI call -/
theorem iadd_eq_merge (s o : MH) : Py.iadd s o = s.merge o := rfl

/-- on flat sketches `add_many(other)` is the union as well -/
theorem add_many_eq_merge_flat {s o r : MH} (hs : Scaled s) (ho : Inv o)
    (ht : s.trackAbundance = false) (hM : s.maxHash = o.maxHash) (hr : s.merge o = .ok r) :
    (s.addFrom o).mins = r.mins ∧ (s.addFrom o).abunds = r.abunds := by
  obtain ⟨sr, tr, _, cr⟩ := merge_hom hs ho hr
  have fr := addMany_frame s o.mins
  apply ext_of_count' (hs.addMany o.mins).inv sr.inv (by rw [tr]; exact fr.2.2.2.2.2)
  intro x
  show count (s.addMany o.mins) x = _
  rw [count_addMany_scaled hs, cr x, ht]
  simp only [Bool.false_eq_true, if_false]
  have h1 := count_le_of_flat hs.inv ht x
  have hm := mem_iff_count_pos' ho x
  by_cases c : x > s.maxHash
  · have : x ∉ o.mins := fun h => by
      have := ho.bounded (by rw [← hM]; exact hs.max) x h; omega
    have : ¬ 0 < count o x := fun h => this (hm.2 h)
    rw [if_pos c]; omega
  · rw [if_neg c]
    by_cases hx : x ∈ o.mins
    · have := hm.1 hx
      rw [if_pos hx]; omega
    · have : ¬ 0 < count o x := fun h => hx (hm.2 h)
      rw [if_neg hx]; omega

/-! ### sub-command = method -/

/-- `sig merge [--flatten] s1 s2 ...`: the n-ary union (abundances summed; flat or
`--flatten`: the set union) -/
theorem sigMerge_hom {fl : Bool} {first : MH} {rest : List MH} {r : MH}
    (hf : Scaled first) (hst : Stable first.maxHash) (hl : ∀ s ∈ first :: rest, Inv s)
    (hlf : fl = true → ∀ s ∈ first :: rest, Scaled s ∧ Stable s.maxHash)
    (hr : sigMerge fl (first :: rest) = .ok r) :
    Scaled r ∧ r.trackAbundance = (if fl then false else first.trackAbundance) ∧
    r.maxHash = first.maxHash ∧
    ∀ x, count r x = if r.trackAbundance then ((first :: rest).map (fun s => count s x)).sum
                     else min 1 ((first :: rest).map (fun s => count s x)).sum := by
  obtain ⟨h1, h2, h3, _, h5⟩ := sigMerge_spec hf hst hl hlf hr
  exact ⟨h1, h2, h3, h5⟩

/-- `sig merge a b` writes the sketch `a + b` evaluates to -/
theorem sigMerge_pair_eq_add {a b r r' : MH} (ha : Scaled a) (hb : Inv b)
    (hst : Stable a.maxHash) (h1 : sigMerge false [a, b] = .ok r) (h2 : Py.add a b = .ok r') :
    r.mins = r'.mins ∧ r.abunds = r'.abunds := by
  obtain ⟨s1, t1, _, c1⟩ := sigMerge_hom ha hst (by
    intro s hs
    rcases List.mem_cons.1 hs with rfl | hs
    · exact ha.inv
    · rcases List.mem_cons.1 hs with rfl | hs
      · exact hb
      · cases hs) (fun h => by cases h) h1
  -- `a + b` = `merge` on a copy
  unfold Py.add at h2
  split at h2
  · cases h2
  · cases hc : Py.copy a with
    | error e => simp [hc, bind, Except.bind] at h2
    | ok n =>
      simp only [hc, bind, Except.bind] at h2
      have hcc := pyCopy_content ha.inv hc
      have hn : Scaled n := ⟨ha.inv.of_eq hcc.1 hcc.2.1 hcc.2.2.2.1 hcc.2.2.1,
        hcc.2.2.1.trans ha.num, by rw [hcc.2.2.2.1]; exact ha.max⟩
      obtain ⟨s2, t2, _, c2⟩ := merge_hom hn hb h2
      have htr : n.trackAbundance = a.trackAbundance := hcc.2.2.2.2.2.2.2
      apply ext_of_count' s1.inv s2.inv (by rw [t1, t2, htr]; rfl)
      intro x
      rw [c1 x, c2 x, t1, htr, count_congr hcc.1 hcc.2.1 x]
      simp

/-- `sig intersect [-A ab] s1 s2 ...`: the hashes present in every signature; with `-A` they
carry the abundances of `ab` (hashes `ab` lacks are dropped) -/
theorem sigIntersect_hom {first : MH} {rest : List MH} {r : MH}
    (hf : Scaled first) (hst : Stable first.maxHash)
    (hr : sigIntersect (first :: rest) none = .ok r) :
    Scaled r ∧ r.trackAbundance = false ∧ r.maxHash = first.maxHash ∧
    ∀ x, count r x = if ∀ s ∈ first :: rest, x ∈ s.mins then 1 else 0 := by
  rw [sigIntersect_eq] at hr
  split at hr
  · cases hr
  · rename_i mins hm
    obtain ⟨hsub, hmem⟩ := sigIntersect_mins hm
    obtain ⟨h1, h2, h3, _, h5⟩ := rebuild_none_spec hf hst hr
    refine ⟨h1, h2, h3, ?_⟩
    intro x
    rw [h5 x]
    apply ite_congr_prop
    rw [← hmem x]
    exact ⟨fun h => h.1, fun hx => ⟨hx, hf.inv.bounded hf.max x (hsub.subset hx)⟩⟩

theorem sigIntersect_abund_hom {first ab : MH} {rest : List MH} {r : MH}
    (hf : Scaled first) (hst : Stable first.maxHash) (hsd : StableDown first.maxHash)
    (hab : Scaled ab) (hsta : Stable ab.maxHash)
    (hr : sigIntersect (first :: rest) (some ab) = .ok r) :
    Scaled r ∧ r.trackAbundance = true ∧ r.maxHash = first.maxHash ∧
    ∀ x, count r x = if ∀ s ∈ first :: rest, x ∈ s.mins then count ab x else 0 := by
  rw [sigIntersect_eq] at hr
  split at hr
  · cases hr
  · rename_i mins hm
    obtain ⟨hsub, hmem⟩ := sigIntersect_mins hm
    obtain ⟨h1, h2, h3, h5⟩ := rebuild_some_spec hf hst hsd hab hsta hr
    refine ⟨h1, h2, h3, ?_⟩
    intro x
    rw [h5 x]
    apply ite_congr_prop
    rw [← hmem x]
    exact ⟨fun h => h.1, fun hx => ⟨hx, hf.inv.bounded hf.max x (hsub.subset hx)⟩⟩

/-- `sig intersect a b` writes the sketch `a & b` evaluates to (flat sketches) -/
theorem sigIntersect_pair_eq_and {a b a' r r' : MH} (ha : Scaled a) (hb : Inv b)
    (hst : Stable a.maxHash) (h1 : sigIntersect [a, b] none = .ok r)
    (h2 : Py.intersection a b = .ok (a', r')) : r.mins = r'.mins ∧ r.abunds = r'.abunds := by
  obtain ⟨s1, t1, _, c1⟩ := sigIntersect_hom ha hst h1
  obtain ⟨s2, t2, _, _, _, _, c2⟩ := pyIntersection_spec ha hb h2
  apply ext_of_count' s1.inv s2.inv (by rw [t1, t2])
  intro x
  rw [c1 x, c2 x]
  simp

/-- `sig subtract [--flatten] [-A ab] from o1 o2 ...`: the hashes of `from` present in none
of the others -/
theorem sigSubtract_hom {frm : MH} {others : List MH} {fl : Bool} {r : MH}
    (hf : Scaled frm) (hst : Stable frm.maxHash)
    (hr : sigSubtract frm others fl none = .ok r) :
    Scaled r ∧ r.trackAbundance = false ∧ r.maxHash = frm.maxHash ∧
    (frm.trackAbundance = true → fl = true) ∧
    ∀ x, count r x = if x ∈ frm.mins ∧ ∀ o ∈ others, x ∉ o.mins then 1 else 0 := by
  rw [sigSubtract_eq] at hr
  split at hr
  · cases hr
  · rename_i hc
    split at hr
    · cases hr
    · rename_i mins hm
      split at hr
      · cases hr
      · obtain ⟨hsub, hmem, _⟩ := subLoop_spec _ _ _ _ _ hm
        obtain ⟨h1, h2, h3, _, h5⟩ := rebuild_none_spec hf hst hr
        refine ⟨h1, h2, h3, ?_, ?_⟩
        · intro ht
          cases hfl : fl
          · exact absurd ⟨ht, by simp [hfl]⟩ hc
          · rfl
        · intro x
          rw [h5 x]
          apply ite_congr_prop
          rw [← hmem x]
          exact ⟨fun h => h.1, fun hx => ⟨hx, hf.inv.bounded hf.max x (hsub.subset hx)⟩⟩

theorem sigSubtract_abund_hom {frm ab : MH} {others : List MH} {fl : Bool} {r : MH}
    (hf : Scaled frm) (hst : Stable frm.maxHash) (hsd : StableDown frm.maxHash)
    (hab : Scaled ab) (hsta : Stable ab.maxHash)
    (hr : sigSubtract frm others fl (some ab) = .ok r) :
    Scaled r ∧ r.trackAbundance = true ∧ r.maxHash = frm.maxHash ∧
    ∀ x, count r x = if x ∈ frm.mins ∧ ∀ o ∈ others, x ∉ o.mins then count ab x else 0 := by
  rw [sigSubtract_eq] at hr
  split at hr
  · cases hr
  · split at hr
    · cases hr
    · rename_i mins hm
      split at hr
      · cases hr
      · obtain ⟨hsub, hmem, _⟩ := subLoop_spec _ _ _ _ _ hm
        obtain ⟨h1, h2, h3, h5⟩ := rebuild_some_spec hf hst hsd hab hsta hr
        refine ⟨h1, h2, h3, ?_⟩
        intro x
        rw [h5 x]
        apply ite_congr_prop
        rw [← hmem x]
        exact ⟨fun h => h.1, fun hx => ⟨hx, hf.inv.bounded hf.max x (hsub.subset hx)⟩⟩

/-- `sig subtract a b` writes what `a.remove_many(b)` leaves (flat sketches) -/
theorem sigSubtract_pair_eq_remove {a b r : MH} {fl : Bool} (ha : Scaled a)
    (hst : Stable a.maxHash) (ht : a.trackAbundance = false)
    (h1 : sigSubtract a [b] fl none = .ok r) :
    r.mins = (a.removeFrom b).mins ∧ r.abunds = (a.removeFrom b).abunds := by
  obtain ⟨s1, t1, _, _, c1⟩ := sigSubtract_hom ha hst h1
  have fr := removeMany_frame a b.mins
  apply ext_of_count' s1.inv (inv_removeFrom ha.inv b) (by rw [t1]; exact (fr.2.2.trans ht).symm)
  intro x
  rw [c1 x, subtract_hom ha.inv b x, count_flat ha.inv ht]
  by_cases h : x ∈ b.mins <;> by_cases h' : x ∈ a.mins <;> simp [h, h']

/-- `sig flatten` is `flatten()` -/
theorem sigFlatten_eq_method (s : MH) : sigFlatten s = lift (Py.flattenD s) := rfl

/-- `sig inflate from o1 o2 ...` is `o.inflate(from)` for each `o` -/
theorem sigInflate_eq_method {frm : MH} {others rs : List MH}
    (h : sigInflate frm others = .ok rs) :
    frm.trackAbundance = true ∧ others.mapM (fun o => lift (Py.inflate o frm)) = .ok rs := by
  unfold sigInflate at h
  split at h
  · cases h
  · rename_i ht
    refine ⟨by simpa using ht, ?_⟩
    split at h
    · cases h
    · rename_i rs' hm
      split at h
      · cases h
      · cases h; exact hm

/-- `sig downsample --scaled S` on a scaled signature is `downsample(scaled=S)`, except that a
signature already at `S` is passed through unchanged -/
theorem sigDownsample_eq_method (s : MH) (sc : Nat) (hsc : sc ≠ 0) (h0 : Py.scaledProp s ≠ 0) :
    sigDownsample s 0 sc =
      if Py.scaledProp s = sc then .ok s else lift (Py.downsample s none (some sc)) :=
  sigDownsample_scaled_eq s sc hsc h0

/-- ... and passing it through is what `downsample` would have produced, whenever
`downsample` keeps the threshold -/
theorem downsample_same_threshold_content {s r : MH} {sc : Nat} (hs : Scaled s)
    (hr : Py.downsample s none (some sc) = .ok r) (hM : mhR (scP (mhP sc)) = s.maxHash) :
    r.mins = s.mins ∧ r.abunds = s.abunds := by
  obtain ⟨h1, h2, h3, h5⟩ := downsample_hom hs hr (by rw [hM]; exact hs.max)
  apply ext_of_count' h1.inv hs.inv h2
  intro x
  rw [h5 x, h3, hM]
  split
  · rfl
  · rename_i c
    exact (count_eq_zero_of_gt hs (by omega)).symm

/-! ### algebraic laws (scaled sketches)

All at the model level, as equalities of the stored vectors (`mins`, `abunds`), derived from the homomorphisms
above: two valid sketches with the same counts are the same vectors (`ext_of_count'`). -/

theorem scaled_removeFrom {a : MH} (ha : Scaled a) (b : MH) : Scaled (a.removeFrom b) := by
  have f := removeMany_frame a b.mins
  exact ⟨inv_removeFrom ha.inv b, f.1.trans ha.num, by rw [show (a.removeFrom b).maxHash = a.maxHash from f.2.1]; exact ha.max⟩

/-- **commutativity up to abundance mode**: whatever the abundance modes of the two operands, `a ∪ b` and `b ∪ a`
hold the same hashes (each result in the abundance mode of its receiver; with equal modes also the same
abundances: `union_comm`) -/
theorem union_comm_hashes {a b r1 r2 : MH} (ha : Scaled a) (hb : Scaled b)
    (h1 : a.merge b = .ok r1) (h2 : b.merge a = .ok r2) : r1.mins = r2.mins := by
  obtain ⟨s1, _, _, c1⟩ := merge_hom ha hb.inv h1
  obtain ⟨s2, _, _, c2⟩ := merge_hom hb ha.inv h2
  apply s1.inv.sorted.ext s2.inv.sorted
  intro x
  rw [mem_iff_count_pos' s1.inv, mem_iff_count_pos' s2.inv, c1 x, c2 x]
  split <;> split <;> omega

/-- union with itself keeps the hashes in every abundance mode … -/
theorem union_idem_hashes {a r : MH} (ha : Scaled a) (h : a.merge a = .ok r) : r.mins = a.mins := by
  obtain ⟨s1, _, _, c1⟩ := merge_hom ha ha.inv h
  apply s1.inv.sorted.ext ha.inv.sorted
  intro x
  rw [mem_iff_count_pos' s1.inv, mem_iff_count_pos' ha.inv, c1 x]
  split <;> omega

/-- … and DOUBLES every abundance of an abundance sketch (merged abundances are sums): union is idempotent on flat
sketches only (`union_idem`) -/
theorem union_self_doubles {a r : MH} (ha : Scaled a) (ht : a.trackAbundance = true)
    (h : a.merge a = .ok r) (x : Nat) : count r x = 2 * count a x := by
  obtain ⟨_, _, _, c1⟩ := merge_hom ha ha.inv h
  rw [c1 x, ht]; simp only [if_true]; omega

/- FULL STATEMENT (not proved / false):
     theorem union_idem_any_mode {a r : MH} (ha : Scaled a) (h : a.merge a = .ok r) :
         r.mins = a.mins ∧ r.abunds = a.abunds
   False for abundance sketches (`union_self_doubles`, `union_idem_abund_counterexample`); minimal correction:
   the hypothesis `a.trackAbundance = false` (`union_idem`). -/
theorem union_idem_abund_counterexample :
    let a := ((MH.new 1 21 1 42 true 0).addHashAb 5 3).addHashAb 7 2
    ∃ r, a.merge a = .ok r ∧ r.mins = a.mins ∧ a.abunds = some [3, 2] ∧ r.abunds = some [6, 4] := by
  refine ⟨_, rfl, ?_, ?_, ?_⟩ <;> decide

/-- intersection is commutative -/
theorem inter_comm {a b a' b' r1 r2 : MH} (ha : Scaled a) (hb : Scaled b)
    (h1 : Py.intersection a b = .ok (a', r1)) (h2 : Py.intersection b a = .ok (b', r2)) :
    r1.mins = r2.mins ∧ r1.abunds = r2.abunds := by
  obtain ⟨s1, t1, _, _, _, _, c1⟩ := pyIntersection_spec ha hb.inv h1
  obtain ⟨s2, t2, _, _, _, _, c2⟩ := pyIntersection_spec hb ha.inv h2
  apply ext_of_count' s1.inv s2.inv (by rw [t1, t2])
  intro x
  rw [c1 x, c2 x]
  exact ite_congr_prop and_comm _ _

/-- intersection is idempotent -/
theorem inter_idem {a a' r : MH} (ha : Scaled a) (h : Py.intersection a a = .ok (a', r)) :
    r.mins = a.mins ∧ r.abunds = a.abunds := by
  obtain ⟨s1, t1, _, ta, _, _, c1⟩ := pyIntersection_spec ha ha.inv h
  apply ext_of_count' s1.inv ha.inv (by rw [t1, ta])
  intro x
  rw [c1 x, count_flat ha.inv ta]
  exact ite_congr_prop (and_self_iff) _ _

/-- intersection is associative -/
theorem inter_assoc {a b c a' ab' b' a'' ab bc r1 r2 : MH} (ha : Scaled a) (hb : Scaled b) (hc : Scaled c)
    (h1 : Py.intersection a b = .ok (a', ab)) (h2 : Py.intersection ab c = .ok (ab', r1))
    (h3 : Py.intersection b c = .ok (b', bc)) (h4 : Py.intersection a bc = .ok (a'', r2)) :
    r1.mins = r2.mins ∧ r1.abunds = r2.abunds := by
  obtain ⟨sab, _, _, _, _, _, cab⟩ := pyIntersection_spec ha hb.inv h1
  obtain ⟨s1, t1, _, _, _, _, c1⟩ := pyIntersection_spec sab hc.inv h2
  obtain ⟨sbc, _, _, _, _, _, cbc⟩ := pyIntersection_spec hb hc.inv h3
  obtain ⟨s2, t2, _, _, _, _, c2⟩ := pyIntersection_spec ha sbc.inv h4
  have mab : ∀ x, x ∈ ab.mins ↔ x ∈ a.mins ∧ x ∈ b.mins := inter_mem ha hb.inv h1
  have mbc : ∀ x, x ∈ bc.mins ↔ x ∈ b.mins ∧ x ∈ c.mins := inter_mem hb hc.inv h3
  apply ext_of_count' s1.inv s2.inv (by rw [t1, t2])
  intro x
  rw [c1 x, c2 x]
  apply ite_congr_prop
  rw [mab, mbc, and_assoc]

/-- **absorption** (flat sketches): `a ∪ (a ∩ b) = a` -/
theorem absorb_union_inter {a b a' i r : MH} (ha : Scaled a) (hb : Scaled b)
    (h1 : Py.intersection a b = .ok (a', i)) (h2 : a.merge i = .ok r) :
    r.mins = a.mins ∧ r.abunds = a.abunds := by
  obtain ⟨si, _, _, ta, _, _, ci⟩ := pyIntersection_spec ha hb.inv h1
  obtain ⟨sr, tr, _, cr⟩ := merge_hom ha si.inv h2
  apply ext_of_count' sr.inv ha.inv tr
  intro x
  rw [cr x, ta, ci x, count_flat ha.inv ta]
  simp only [Bool.false_eq_true, if_false]
  by_cases hx : x ∈ a.mins <;> by_cases hy : x ∈ b.mins <;> simp [hx, hy]

/-- **absorption** (flat sketches): `a ∩ (a ∪ b) = a` -/
theorem absorb_inter_union {a b u a' r : MH} (ha : Scaled a) (hb : Scaled b)
    (h1 : a.merge b = .ok u) (h2 : Py.intersection a u = .ok (a', r)) :
    r.mins = a.mins ∧ r.abunds = a.abunds := by
  obtain ⟨su, _, _, cu⟩ := merge_hom ha hb.inv h1
  obtain ⟨sr, tr, _, ta, _, _, cr⟩ := pyIntersection_spec ha su.inv h2
  apply ext_of_count' sr.inv ha.inv (by rw [tr, ta])
  intro x
  rw [cr x, count_flat ha.inv ta]
  apply ite_congr_prop
  constructor
  · exact fun h => h.1
  · intro hx
    refine ⟨hx, ?_⟩
    rw [mem_iff_count_pos' su.inv, cu x, ta]
    have := (mem_iff_count_pos' ha.inv x).1 hx
    simp only [Bool.false_eq_true, if_false]; omega

/-- **distributivity** (flat sketches): `a ∩ (b ∪ c) = (a ∩ b) ∪ (a ∩ c)` -/
theorem inter_distrib_union {a b c bc a1 a2 a3 l ab ac r : MH} (ha : Scaled a) (hb : Scaled b) (hc : Scaled c)
    (htb : b.trackAbundance = false)
    (h1 : b.merge c = .ok bc) (h2 : Py.intersection a bc = .ok (a1, l))
    (h3 : Py.intersection a b = .ok (a2, ab)) (h4 : Py.intersection a c = .ok (a3, ac))
    (h5 : ab.merge ac = .ok r) :
    l.mins = r.mins ∧ l.abunds = r.abunds := by
  obtain ⟨sbc, _, _, cbc⟩ := merge_hom hb hc.inv h1
  obtain ⟨sl, tl, _, _, _, _, cl⟩ := pyIntersection_spec ha sbc.inv h2
  obtain ⟨sab, tab, _, _, _, _, cab⟩ := pyIntersection_spec ha hb.inv h3
  obtain ⟨sac, _, _, _, tc, _, cac⟩ := pyIntersection_spec ha hc.inv h4
  obtain ⟨sr, tr, _, cr⟩ := merge_hom sab sac.inv h5
  apply ext_of_count' sl.inv sr.inv (by rw [tl, tr, tab])
  intro x
  have mbc : x ∈ bc.mins ↔ x ∈ b.mins ∨ x ∈ c.mins := by
    rw [mem_iff_count_pos' sbc.inv, cbc x, htb, mem_iff_count_pos' hb.inv, mem_iff_count_pos' hc.inv]
    simp only [Bool.false_eq_true, if_false]; omega
  rw [cl x, cr x, tab, cab x, cac x]
  simp only [mbc, Bool.false_eq_true, if_false]
  by_cases hx : x ∈ a.mins <;> by_cases hy : x ∈ b.mins <;> by_cases hz : x ∈ c.mins <;> simp [hx, hy, hz]

/-- **subtract ∘ intersect**: removing the common part is removing the other operand, `a \ (a ∩ b) = a \ b` -/
theorem subtract_inter {a b a' i : MH} (ha : Scaled a) (hb : Scaled b)
    (h1 : Py.intersection a b = .ok (a', i)) :
    (a.removeFrom i).mins = (a.removeFrom b).mins ∧ (a.removeFrom i).abunds = (a.removeFrom b).abunds := by
  have mi := inter_mem ha hb.inv h1
  have f1 := removeMany_frame a i.mins
  have f2 := removeMany_frame a b.mins
  apply ext_of_count' (inv_removeFrom ha.inv i) (inv_removeFrom ha.inv b)
    (show (a.removeFrom i).trackAbundance = (a.removeFrom b).trackAbundance from f1.2.2.trans f2.2.2.symm)
  intro x
  rw [subtract_hom ha.inv, subtract_hom ha.inv]
  simp only [mi]
  by_cases hx : x ∈ a.mins
  · simp [hx]
  · have h0 : count a x = 0 := by
      have := mem_iff_count_pos' ha.inv x
      have : ¬ 0 < count a x := fun h => hx (this.2 h)
      omega
    simp [hx, h0]

/-- what was subtracted is gone: `(a \ b) ∩ b = ∅` -/
theorem inter_subtract_empty {a b d' r : MH} (ha : Scaled a) (hb : Scaled b)
    (h : Py.intersection (a.removeFrom b) b = .ok (d', r)) : r.mins = [] := by
  have sd := scaled_removeFrom ha b
  have m := inter_mem sd hb.inv h
  apply List.eq_nil_iff_forall_not_mem.2
  intro x hx
  obtain ⟨h1, h2⟩ := (m x).1 hx
  have := (mem_iff_count_pos' sd.inv x).1 h1
  rw [subtract_hom ha.inv, if_pos h2] at this
  omega

/-- the two parts make up the whole (flat sketches): `(a \ b) ∪ (a ∩ b) = a` -/
theorem subtract_union_inter {a b a' i r : MH} (ha : Scaled a) (hb : Scaled b)
    (h1 : Py.intersection a b = .ok (a', i)) (h2 : (a.removeFrom b).merge i = .ok r) :
    r.mins = a.mins ∧ r.abunds = a.abunds := by
  obtain ⟨si, _, _, ta, _, _, ci⟩ := pyIntersection_spec ha hb.inv h1
  have sd := scaled_removeFrom ha b
  have fd := removeMany_frame a b.mins
  obtain ⟨sr, tr, _, cr⟩ := merge_hom sd si.inv h2
  apply ext_of_count' sr.inv ha.inv (tr.trans fd.2.2)
  intro x
  have td : (a.removeFrom b).trackAbundance = false := fd.2.2.trans ta
  rw [cr x, td, subtract_hom ha.inv, ci x, count_flat ha.inv ta]
  simp only [Bool.false_eq_true, if_false]
  by_cases hx : x ∈ a.mins <;> by_cases hy : x ∈ b.mins <;> simp [hx, hy]

/-- flatten is idempotent -/
theorem flatten_idem {a f g : MH} (ha : Scaled a) (hst : Stable a.maxHash)
    (h1 : Py.flattenD a = .ok f) (h2 : Py.flattenD f = .ok g) : g.mins = f.mins ∧ g.abunds = f.abunds := by
  obtain ⟨sf, tf, mf, _, cf⟩ := pyFlattenD_spec ha hst h1
  obtain ⟨sg, tg, _, _, cg⟩ := pyFlattenD_spec sf (by rw [mf]; exact hst) h2
  apply ext_of_count' sg.inv sf.inv (by rw [tg, tf])
  intro x
  rw [cg x]
  have := count_le_of_flat sf.inv tf x
  omega

/-- flatten distributes over union: `flatten (a ∪ b) = flatten a ∪ flatten b` -/
theorem flatten_union {a b u fu fa fb r : MH} (ha : Scaled a) (hb : Scaled b)
    (hsa : Stable a.maxHash) (hsb : Stable b.maxHash)
    (h1 : a.merge b = .ok u) (h2 : Py.flattenD u = .ok fu)
    (h3 : Py.flattenD a = .ok fa) (h4 : Py.flattenD b = .ok fb) (h5 : fa.merge fb = .ok r) :
    fu.mins = r.mins ∧ fu.abunds = r.abunds := by
  obtain ⟨su, _, mu, cu⟩ := merge_hom ha hb.inv h1
  obtain ⟨sfu, tfu, _, _, cfu⟩ := pyFlattenD_spec su (by rw [mu]; exact hsa) h2
  obtain ⟨sfa, tfa, _, _, cfa⟩ := pyFlattenD_spec ha hsa h3
  obtain ⟨sfb, _, _, _, cfb⟩ := pyFlattenD_spec hb hsb h4
  obtain ⟨sr, tr, _, cr⟩ := merge_hom sfa sfb.inv h5
  apply ext_of_count' sfu.inv sr.inv (by rw [tfu, tr, tfa])
  intro x
  rw [cfu x, cu x, cr x, tfa, cfa x, cfb x]
  simp only [Bool.false_eq_true, if_false]
  split <;> omega

/-- **inflate ∘ flatten = id**: an abundance sketch is recovered from its flattened form and itself
(Rust `KmerMinHash::inflate`) -/
theorem inflate_flatten {a f r : MH} (ha : Scaled a) (hst : Stable a.maxHash) (hta : a.trackAbundance = true)
    (h1 : Py.flattenD a = .ok f) (h2 : f.inflate a = .ok r) : r.mins = a.mins ∧ r.abunds = a.abunds := by
  obtain ⟨sf, _, _, _, cf⟩ := pyFlattenD_spec ha hst h1
  obtain ⟨ir, tr, _, _, _, _, cr⟩ := inflate_spec sf.inv ha.inv h2
  apply ext_of_count' ir ha.inv (by rw [tr, hta])
  intro x
  rw [cr x]
  have hm : x ∈ f.mins ↔ 0 < count a x := by
    rw [mem_iff_count_pos' sf.inv, cf x]; omega
  by_cases hx : x ∈ f.mins
  · rw [if_pos hx]
  · rw [if_neg hx]
    have : ¬ 0 < count a x := fun h => hx (hm.2 h)
    omega

/-- the same through the Python `MinHash.inflate` -/
theorem py_inflate_flatten {a f r : MH} (ha : Scaled a) (hst : Stable a.maxHash) (hsd : StableDown a.maxHash)
    (hta : a.trackAbundance = true)
    (h1 : Py.flattenD a = .ok f) (h2 : Py.inflate f a = .ok r) : r.mins = a.mins ∧ r.abunds = a.abunds := by
  obtain ⟨sf, _, mf, _, cf⟩ := pyFlattenD_spec ha hst h1
  obtain ⟨sr, tr, _, cr⟩ := py_inflate_hom sf ha hst (by rw [mf]; exact hsd) h2
  apply ext_of_count' sr.inv ha.inv (by rw [tr, hta])
  intro x
  rw [cr x]
  have hm : x ∈ f.mins ↔ 0 < count a x := by
    rw [mem_iff_count_pos' sf.inv, cf x]; omega
  by_cases hx : x ∈ f.mins
  · rw [if_pos hx]
  · rw [if_neg hx]
    have : ¬ 0 < count a x := fun h => hx (hm.2 h)
    omega

/-- **flatten ∘ inflate = ∩**: the hashes of `inflate f o` are the hashes of `f` that `o` has -/
theorem inflate_hashes {f o r : MH} (hf : Inv f) (ho : Inv o) (h : f.inflate o = .ok r) (x : Nat) :
    x ∈ r.mins ↔ x ∈ f.mins ∧ x ∈ o.mins := by
  obtain ⟨ir, _, _, _, _, _, cr⟩ := inflate_spec hf ho h
  rw [mem_iff_count_pos' ir, cr x, mem_iff_count_pos' ho]
  by_cases hx : x ∈ f.mins <;> simp [hx]

/-! ### num sketches -/

/-- merging num sketches keeps the `num` smallest hashes of the sorted union of the two
sketches (C01) -/
theorem merge_num_hom {s o r : MH} (hr : s.merge o = .ok r) (hn : s.num ≠ 0) :
    r.pairs.map Prod.fst = ((mergeP s.pairs o.pairs).take s.num).map Prod.fst :=
  num_merge_take' hr hn

/-- **num union is exact when the receiver's `num` does not exceed the operand's.**  `us`, `uo`:
the full sorted (hash, count) lists of the two data sets (what an unbounded sketch would hold,
C01 `num_add_take`); a num sketch holds their first `num` entries.  Then `s.merge(o)` holds the
first `s.num` entries of the union of the *data*. -/
theorem merge_num_exact {s o r : MH} {us uo : List (Nat × Nat)} (hr : s.merge o = .ok r)
    (hn : s.num ≠ 0) (hs : s.pairs = us.take s.num) (ho : o.pairs = uo.take o.num)
    (hle : s.num ≤ o.num) :
    r.pairs.map Prod.fst = ((mergeP us uo).take s.num).map Prod.fst := by
  rw [merge_num_hom hr hn, hs, ho, take_mergeP_take s.num s.num o.num us uo (Nat.le_refl _) hle]

/- FULL STATEMENT (not proved / false):
     "for num sketches `a` (of data A) and `b` (of data B), `a.merge(b)` is the num sketch of
      A ∪ B, and `a + b`, `a.merge(b)`, `a += b`, `sig merge a b` agree"
   `__add__` refuses operands with different `num` (TypeError); `merge`, `__iadd__` and
   `sig merge` do not (`check_compatible` has its `num` test commented out).  When `b.num <
   a.num` and `b` is full, `b` no longer knows its data beyond its `b.num` smallest hashes
   and the result is not the bottom-`a.num` sketch of the union
   (`merge_num_mismatch_counterexample`).  Minimal correction: the hypothesis
   `s.num ≤ o.num` (`merge_num_exact`; `__add__` demands `s.num = o.num`). -/

/-- **finding.**  A = {10,..,50} in a num=5 sketch, B = {1,..,7} in a num=3 sketch (holds
1,2,3).  `a.merge(b)` gives {1,2,3,10,20}; the num=5 sketch of A ∪ B is {1,2,3,4,5};
`a + b` raises TypeError. -/
theorem merge_num_mismatch_counterexample :
    let a := (MH.new 0 21 1 42 false 5).addMany [10, 20, 30, 40, 50]
    let b := (MH.new 0 21 1 42 false 3).addMany [1, 2, 3, 4, 5, 6, 7]
    let d := (MH.new 0 21 1 42 false 5).addMany [10, 20, 30, 40, 50, 1, 2, 3, 4, 5, 6, 7]
    (a.merge b).toOption.map (fun r => r.mins) = some [1, 2, 3, 10, 20] ∧
    d.mins = [1, 2, 3, 4, 5] ∧
    (match Py.add a b with | .error .pyType => true | _ => false) = true ∧
    (sigMerge false [a, b]).toOption.map (fun r => r.mins) = some [1, 2, 3, 10, 20] := by
  intro a b d
  decide +kernel

/-- the documented restricted intersection of num sketches: the common hashes that lie
within the `num` smallest of the union of the two sketches -/
theorem inter_num {s o : MH} {c : List Nat} {u : Nat} (hs : Inv s) (ho : Inv o)
    (hn : s.num ≠ 0) (hr : s.intersection o = .ok (c, u)) (x : Nat) :
    x ∈ c ↔ x ∈ s.mins ∧ x ∈ o.mins ∧
      x ∈ ((mergeP s.pairs o.pairs).take s.num).map Prod.fst := by
  unfold MH.intersection at hr
  rcases checkCompatible_cases s o with ⟨e, he⟩ | ⟨hok, hc⟩
  · rw [he] at hr; simp [bind, Except.bind] at hr
  · rw [hok] at hr
    simp only [bind, Except.bind, if_pos hn] at hr
    -- combined_mh = new(..).merge(self).merge(other)
    have hc0 : Inv (MH.new s.scaled s.ksize s.hf s.seed s.abunds.isSome s.num) := inv_new ..
    have f0 := new_fields s.scaled s.ksize s.hf s.seed s.abunds.isSome s.num
    cases h1 : (MH.new s.scaled s.ksize s.hf s.seed s.abunds.isSome s.num).merge s with
    | error e => simp [h1] at hr
    | ok c1 =>
      simp only [h1] at hr
      cases h2 : c1.merge o with
      | error e => simp [h2] at hr
      | ok c2 =>
        simp only [h2, pure, Except.pure, Except.ok.injEq, Prod.mk.injEq] at hr
        obtain ⟨rfl, _⟩ := hr
        have hc1 := merge_into_empty hc0 hs f0.2.2.1 f0.2.1 f0.2.2.2.1 h1
        have hn1 : c1.num = s.num := (merge_frame h1).1.trans f0.2.1
        have hi1 : Inv c1 := inv_merge hc0 hs h1
        have hi2 : Inv c2 := inv_merge hi1 ho h2
        have hp : c1.pairs = s.pairs := by unfold MH.pairs; rw [hc1.1, hc1.2]
        have hm2 : c2.mins = ((mergeP s.pairs o.pairs).take s.num).map Prod.fst := by
          have h := num_merge_take' h2 (by rw [hn1]; exact hn)
          rw [pairs_keys hi2.toW, hp, hn1] at h
          exact h
        rw [mem_interL _ _ (sorted_interL _ _ hs.sorted) hi2.sorted,
          mem_interL _ _ hs.sorted ho.sorted, hm2]
        exact and_assoc

/-! ### algebraic laws (num sketches, one common `num`)

The union laws transfer from scaled sketches: every valid num sketch is the bottom-`num` of an unbounded reference
sketch, `merge` commutes with that representation (C01 `NumRep.merge`, from `mergeP_take`), and the references are
scaled sketches, for which the laws are proved above.  The num "intersection" is not the sketch of the intersection
of the data and fails absorption (`num_absorption_counterexample`). -/

/-- num union is commutative (same `num`, same abundance mode): same hashes, same abundances -/
theorem num_union_comm {a b r1 r2 : MH} (ha : NumSk a) (hb : NumSk b) (hn : b.num = a.num)
    (ht : a.trackAbundance = b.trackAbundance)
    (h1 : a.merge b = .ok r1) (h2 : b.merge a = .ok r2) : r1.mins = r2.mins ∧ r1.abunds = r2.abunds := by
  obtain ⟨w1, hw1, q1⟩ := ha.rep.merge hb.rep hn h1
  obtain ⟨w2, hw2, q2⟩ := hb.rep.merge ha.rep hn.symm h2
  have hc := union_comm ha.rep.isRef.scaled hb.rep.isRef.scaled
    (by rw [← ha.rep.track, ← hb.rep.track]; exact ht) hw1 hw2
  exact q1.ext q2 ((merge_frame h1).1.trans (hn.symm.trans (merge_frame h2).1.symm)) hc.1 hc.2

/-- … and in any abundance modes the two unions hold the same hashes -/
theorem num_union_comm_hashes {a b r1 r2 : MH} (ha : NumSk a) (hb : NumSk b) (hn : b.num = a.num)
    (h1 : a.merge b = .ok r1) (h2 : b.merge a = .ok r2) : r1.mins = r2.mins := by
  obtain ⟨w1, hw1, q1⟩ := ha.rep.merge hb.rep hn h1
  obtain ⟨w2, hw2, q2⟩ := hb.rep.merge ha.rep hn.symm h2
  have := union_comm_hashes ha.rep.isRef.scaled hb.rep.isRef.scaled hw1 hw2
  rw [q1.mins, q2.mins, this, (merge_frame h1).1, (merge_frame h2).1, hn]

/-- num union is associative (one common `num`) -/
theorem num_union_assoc {a b c ab bc r1 r2 : MH} (ha : NumSk a) (hb : NumSk b) (hc : NumSk c)
    (hnb : b.num = a.num) (hnc : c.num = a.num) (ht : a.trackAbundance = b.trackAbundance)
    (h1 : a.merge b = .ok ab) (h2 : ab.merge c = .ok r1)
    (h3 : b.merge c = .ok bc) (h4 : a.merge bc = .ok r2) : r1.mins = r2.mins ∧ r1.abunds = r2.abunds := by
  obtain ⟨wab, hwab, qab⟩ := ha.rep.merge hb.rep hnb h1
  obtain ⟨w1, hw1, q1⟩ := qab.merge hc.rep (hnc.trans (merge_frame h1).1.symm) h2
  obtain ⟨wbc, hwbc, qbc⟩ := hb.rep.merge hc.rep (hnc.trans hnb.symm) h3
  obtain ⟨w2, hw2, q2⟩ := ha.rep.merge qbc ((merge_frame h3).1.trans hnb) h4
  have hl := union_assoc ha.rep.isRef.scaled hb.rep.isRef.scaled hc.rep.isRef.inv
    (by rw [← ha.rep.track, ← hb.rep.track]; exact ht) hwab hw1 hwbc hw2
  exact q1.ext q2 ((merge_frame h2).1.trans ((merge_frame h1).1.trans (merge_frame h4).1.symm)) hl.1 hl.2

/-- num union is idempotent on flat sketches -/
theorem num_union_idem {a r : MH} (ha : NumSk a) (ht : a.trackAbundance = false)
    (h : a.merge a = .ok r) : r.mins = a.mins ∧ r.abunds = a.abunds := by
  obtain ⟨w, hw, q⟩ := ha.rep.merge ha.rep rfl h
  have hl := union_idem ha.rep.isRef.scaled (by rw [← ha.rep.track]; exact ht) hw
  exact q.ext ha.rep (merge_frame h).1 hl.1 hl.2

/-- the num "intersection" is symmetric in its operands' hashes when the two `num` agree -/
theorem num_inter_comm {a b : MH} {c1 c2 : List Nat} {u1 u2 : Nat} (ha : NumSk a) (hb : NumSk b)
    (hn : b.num = a.num) (h1 : a.intersection b = .ok (c1, u1)) (h2 : b.intersection a = .ok (c2, u2))
    (x : Nat) : x ∈ c1 ↔ x ∈ c2 := by
  rw [inter_num ha.inv hb.inv ha.num h1, inter_num hb.inv ha.inv hb.num h2, hn]
  have hk : ∀ z, z ∈ ((mergeP a.pairs b.pairs).take a.num).map Prod.fst ↔
      z ∈ ((mergeP b.pairs a.pairs).take a.num).map Prod.fst := by
    -- the two merged walks are the pair lists of `a.merge b` and `b.merge a` restricted to keys
    intro z
    obtain ⟨r1, hr1⟩ : ∃ r, a.merge b = .ok r := by
      unfold MH.intersection at h1
      rcases checkCompatible_cases a b with ⟨e, he⟩ | ⟨_, hc⟩
      · rw [he] at h1; simp [bind, Except.bind] at h1
      · exact merge_eq_ok_of hc.1 hc.2.1 hc.2.2.1 hc.2.2.2
    obtain ⟨r2, hr2⟩ : ∃ r, b.merge a = .ok r := by
      obtain ⟨⟨k1, k2, k3, k4⟩, _⟩ := merge_ok hr1
      exact merge_eq_ok_of k1.symm k2.symm k3.symm k4.symm
    have e1 := num_merge_take' hr1 ha.num
    have e2 := num_merge_take' hr2 hb.num
    rw [hn] at e2
    rw [← e1, ← e2, pairs_keys (inv_merge ha.inv hb.inv hr1).toW, pairs_keys (inv_merge hb.inv ha.inv hr2).toW,
      num_union_comm_hashes ha hb hn hr1 hr2]
  rw [hk]
  constructor
  · exact fun h => ⟨h.2.1, h.1, h.2.2⟩
  · exact fun h => ⟨h.2.1, h.1, h.2.2⟩

/- FULL STATEMENT (not proved / false):
     "absorption for num sketches: a ∩ (a ∪ b) = a"
   The num intersection keeps only the common hashes that lie within the `num` smallest of the union of the two
   sketches (`inter_num`), so hashes of `a` beyond the bottom-`num` of `a ∪ b` are lost.  The other absorption
   law and the union laws hold (`num_union_comm` / `_assoc` / `_idem`). -/
theorem num_absorption_counterexample :
    let a := (MH.new 0 21 1 42 false 2).addMany [3, 4]
    let b := (MH.new 0 21 1 42 false 2).addMany [1]
    ∃ u, a.merge b = .ok u ∧ u.mins = [1, 3] ∧
      (Py.intersection a u).toOption.map (fun p => p.2.mins) = some [3] ∧ a.mins = [3, 4] := by
  refine ⟨_, rfl, ?_, ?_, ?_⟩ <;> decide

/-! ### an operand used twice (`a.merge(a)`, `a += a`, `a + a`, `a & a`, `a.add_many(a)`, `a.remove_many(a)`,
`sig merge f.sig f.sig`)

The model is a value model: an operation applied to a sketch and itself IS the operation applied to the sketch and a
copy of it.  The stream runs every one of these with ONE object (one pointer) behind both operands and compares. -/

/-- `a.merge(a)` / `a += a`: the hashes stay; an abundance sketch doubles every abundance; a flat sketch is unchanged -/
theorem merge_self {a r : MH} (ha : Scaled a) (h : a.merge a = .ok r) :
    r.mins = a.mins ∧ (∀ x, count r x = if a.trackAbundance then 2 * count a x else count a x) ∧
    (a.trackAbundance = false → r.abunds = a.abunds) := by
  refine ⟨union_idem_hashes ha h, ?_, fun ht => (union_idem ha ht h).2⟩
  intro x
  obtain ⟨_, _, _, c1⟩ := merge_hom ha ha.inv h
  rw [c1 x]
  cases ht : a.trackAbundance
  · have := count_le_of_flat ha.inv ht x
    simp only [Bool.false_eq_true, if_false]; omega
  · simp only [if_true]; omega

theorem iadd_self {a r : MH} (ha : Scaled a) (h : Py.iadd a a = .ok r) :
    r.mins = a.mins ∧ (∀ x, count r x = if a.trackAbundance then 2 * count a x else count a x) :=
  ⟨(merge_self ha h).1, (merge_self ha h).2.1⟩

/-- `a + a` / `a | a`: the same result as `a.merge(a)` on a copy -/
theorem add_self {a r : MH} (ha : Scaled a) (h : Py.add a a = .ok r) :
    r.mins = a.mins ∧ (∀ x, count r x = if a.trackAbundance then 2 * count a x else count a x) := by
  obtain ⟨sr, _, _, _, c1⟩ := pyAdd_spec ha ha.inv h
  have hc : ∀ x, count r x = if a.trackAbundance then 2 * count a x else count a x := by
    intro x
    rw [c1 x]
    cases ht : a.trackAbundance
    · have := count_le_of_flat ha.inv ht x
      simp only [Bool.false_eq_true, if_false]; omega
    · simp only [if_true]; omega
  refine ⟨?_, hc⟩
  apply sr.inv.sorted.ext ha.inv.sorted
  intro x
  rw [mem_iff_count_pos' sr.inv, mem_iff_count_pos' ha.inv, hc x]
  split <;> omega

/-- `a & a` / `a.intersection(a)` is `a` (`inter_idem`) -/
theorem inter_self {a a' r : MH} (ha : Scaled a) (h : Py.intersection a a = .ok (a', r)) :
    r.mins = a.mins ∧ r.abunds = a.abunds := inter_idem ha h

/-- `a.remove_many(a)` empties the sketch (every hash goes; before the repair of D23 every other hash stayed) -/
theorem remove_self_empty {a : MH} (ha : Inv a) : (a.removeFrom a).mins = [] := by
  apply List.eq_nil_iff_forall_not_mem.2
  intro x hx
  have := (mem_iff_count_pos' (inv_removeFrom ha a) x).1 hx
  rw [subtract_hom ha a x] at this
  have hm : x ∈ a.mins := by
    by_cases hm : x ∈ a.mins
    · exact hm
    · rw [if_neg hm] at this
      exact absurd ((mem_iff_count_pos' ha x).2 this) hm
  rw [if_pos hm] at this
  omega

/-- `a.add_many(a)`: the hashes stay; an abundance sketch counts every hash once more -/
theorem addmany_self {a : MH} (ha : Scaled a) (x : Nat) :
    count (a.addFrom a) x = if a.trackAbundance then (if x ∈ a.mins then count a x + 1 else 0) else count a x := by
  unfold MH.addFrom
  rw [count_addMany_scaled ha]
  have hnd := Sorted.nodup ha.inv.sorted
  by_cases hx : x ∈ a.mins
  · have hle : ¬ x > a.maxHash := by have := ha.inv.bounded ha.max x hx; omega
    have hc : a.mins.count x = 1 := List.count_eq_one_of_mem hnd hx
    rw [if_neg hle, hc]
    cases ht : a.trackAbundance
    · simp only [Bool.false_eq_true, if_false, if_pos hx]
      rw [count_flat ha.inv ht, if_pos hx]
    · simp only [if_true, if_pos hx]
  · have h0 : count a x = 0 := by
      have := mem_iff_count_pos' ha.inv x
      have : ¬ 0 < count a x := fun h => hx (this.2 h)
      omega
    have hc : a.mins.count x = 0 := List.count_eq_zero_of_not_mem hx
    rw [hc, h0]
    simp only [hx, if_false, Nat.add_zero]
    split <;> split <;> rfl

/-- `sig merge f.sig f.sig` (the same signature twice): the hashes of `f`; without `--flatten` an abundance signature
doubles, a flat one is unchanged -/
theorem sigMerge_self {a r : MH} (ha : Scaled a) (hst : Stable a.maxHash)
    (hr : sigMerge false [a, a] = .ok r) (x : Nat) :
    count r x = if a.trackAbundance then 2 * count a x else count a x := by
  obtain ⟨_, tr, _, c⟩ := sigMerge_hom ha hst (by intro s hs; simp at hs; rw [hs]; exact ha.inv)
    (by intro h; cases h) hr
  rw [c x, tr]
  simp only [Bool.false_eq_true, if_false, List.map_cons, List.map_nil, List.sum_cons, List.sum_nil]
  cases ht : a.trackAbundance
  · have := count_le_of_flat ha.inv ht x
    simp only [Bool.false_eq_true, if_false]; omega
  · simp only [if_true]; omega

/-- num sketches: `a.merge(a)` keeps the hashes, doubles the abundances of an abundance sketch, leaves a flat one -/
theorem num_merge_self {a r : MH} (ha : NumSk a) (h : a.merge a = .ok r) :
    r.mins = a.mins ∧ ∀ x ∈ a.mins, count r x = if a.trackAbundance then 2 * count a x else count a x := by
  obtain ⟨w, hw, q⟩ := ha.rep.merge ha.rep rfl h
  have hsc := ha.rep.isRef.scaled
  obtain ⟨hm, hc, _⟩ := merge_self hsc hw
  have hmins : r.mins = a.mins := by
    rw [q.mins, hm, (merge_frame h).1, ← ha.rep.mins]
  refine ⟨hmins, fun x hx => ?_⟩
  rw [q.count_eq (by rw [hmins]; exact hx), hc x, ← ha.rep.track]
  have : count (liftRef a) x = count a x := rfl
  rw [this]

/-! ### the statement in terms of the underlying data

`Sketches s m`: `s` is the sketch, at its own threshold and in its own abundance mode, of
the hash multiset `m` (`m x` = multiplicity of hash `x` in the data).  `sketches_leaf`:
that is what feeding the data to a fresh sketch produces.  `mirror_*`: each operation on
sketches yields the sketch of the corresponding operation on the data — so, by induction,
does every operation tree. -/

def Sketches (s : MH) (m : Nat → Nat) : Prop :=
  ∀ x, count s x = if x ≤ s.maxHash then (if s.trackAbundance then m x else min 1 (m x)) else 0

theorem sketches_addMany_empty {n : MH} (hn : Scaled n) (he : n.mins = []) (l : List Nat) :
    Scaled (n.addMany l) ∧ Sketches (n.addMany l) (fun x => l.count x) := by
  refine ⟨hn.addMany l, ?_⟩
  intro x
  have fr := addMany_frame n l
  rw [count_addMany_scaled hn, fr.2.1, fr.2.2.2.2.2, count_eq_zero_of_empty hn.inv he]
  by_cases c : x > n.maxHash
  · have c' : ¬ x ≤ n.maxHash := by omega
    rw [if_pos c, if_neg c']
  · have c' : x ≤ n.maxHash := by omega
    rw [if_neg c, if_pos c']
    by_cases ht : n.trackAbundance = true
    · simp [ht]
    · have ht' : n.trackAbundance = false := by simpa using ht
      simp only [ht', Bool.false_eq_true, if_false]
      by_cases hx : x ∈ l
      · have := List.count_pos_iff.2 hx
        rw [if_pos hx]; omega
      · rw [if_neg hx, List.count_eq_zero_of_not_mem hx]; rfl

theorem sketches_leaf {sc k hf seed : Nat} {tr : Bool} (h : mhR sc ≠ 0) (l : List Nat) :
    Scaled ((MH.new sc k hf seed tr 0).addMany l) ∧
    Sketches ((MH.new sc k hf seed tr 0).addMany l) (fun x => l.count x) :=
  sketches_addMany_empty (new_scaled h) rfl l

/-- union: multiplicities add (a flat right operand contributes each distinct hash once) -/
theorem mirror_union {a b r : MH} {ma mb : Nat → Nat} (ha : Scaled a) (hb : Inv b)
    (hma : Sketches a ma) (hmb : Sketches b mb) (hr : a.merge b = .ok r) :
    Sketches r (fun x => ma x + if b.trackAbundance then mb x else min 1 (mb x)) := by
  obtain ⟨_, tr, mr, cr⟩ := merge_hom ha hb hr
  have hM := (merge_ok hr).1.2.2.1
  intro x
  rw [cr x, hma x, hmb x, mr, tr, ← hM]
  by_cases c : x ≤ a.maxHash
  · simp only [c, if_true]
    cases a.trackAbundance <;> cases b.trackAbundance <;> simp <;> omega
  · simp only [c, if_false]
    split <;> rfl

/-- intersection of flat sketches: the hashes present in both data sets -/
theorem mirror_intersection {a b a' r : MH} {ma mb : Nat → Nat} (ha : Scaled a) (hb : Inv b)
    (hma : Sketches a ma) (hmb : Sketches b mb) (hr : Py.intersection a b = .ok (a', r)) :
    Sketches r (fun x => min (ma x) (mb x)) := by
  obtain ⟨_, tr, mr, hta, htb, hM, _⟩ := pyIntersection_spec ha hb hr
  obtain ⟨_, _, _, cr⟩ := inter_hom ha hb hr
  intro x
  rw [cr x, hma x, hmb x, mr, tr, ← hM, hta, htb]
  by_cases c : x ≤ a.maxHash
  · simp only [c, if_true, Bool.false_eq_true, if_false]; omega
  · simp only [c, if_false]; rfl

/-- subtraction: the hashes of the data of `a` absent from the data of `b` -/
theorem mirror_subtract {a b : MH} {ma mb : Nat → Nat} (ha : Scaled a) (hb : Inv b)
    (hM : a.maxHash = b.maxHash) (hma : Sketches a ma) (hmb : Sketches b mb) :
    Sketches (a.removeFrom b) (fun x => if mb x = 0 then ma x else 0) := by
  have fr := removeMany_frame a b.mins
  intro x
  rw [subtract_hom ha.inv b x, hma x]
  show _ = if x ≤ (a.removeMany b.mins).maxHash then
    (if (a.removeMany b.mins).trackAbundance then _ else _) else 0
  rw [fr.2.1, fr.2.2]
  have hm := mem_iff_count_pos' hb x
  rw [hmb x, ← hM] at hm
  by_cases c : x ≤ a.maxHash
  · simp only [c, if_true] at hm ⊢
    by_cases hx : x ∈ b.mins
    · have h1 := hm.1 hx
      have : mb x ≠ 0 := by
        intro h0; rw [h0] at h1; split at h1 <;> simp at h1
      simp [hx, this]
    · have h1 : ¬ 0 < (if b.trackAbundance then mb x else min 1 (mb x)) := fun h => hx (hm.2 h)
      have : mb x = 0 := by
        split at h1 <;> omega
      simp [hx, this]
  · simp only [c, if_false]
    split <;> rfl

/-- flatten: the same data, de-duplicated -/
theorem mirror_flatten {s r : MH} {m : Nat → Nat} (hs : Scaled s) (hst : Stable s.maxHash)
    (hm : Sketches s m) (hr : Py.flattenD s = .ok r) : Sketches r m := by
  obtain ⟨_, tr, mr, cr⟩ := flatten_hom hs hst hr
  intro x
  rw [cr x, hm x, mr, tr]
  by_cases c : x ≤ s.maxHash
  · simp only [c, if_true, Bool.false_eq_true, if_false]
    split <;> omega
  · simp only [c, if_false]; rfl

/-- abundance inflation (source at least as fine as the flat sketch): the data of `a`, with
the multiplicities of `b`, at the resolution of `a` -/
theorem mirror_inflate {a b r : MH} {ma mb : Nat → Nat} (ha : Scaled a) (hb : Scaled b)
    (hst : Stable b.maxHash) (hsd : StableDown a.maxHash) (hM : a.maxHash ≤ b.maxHash)
    (hma : Sketches a ma) (hmb : Sketches b mb) (hr : Py.inflate a b = .ok r) :
    Sketches r (fun x => if ma x = 0 then 0 else mb x) := by
  obtain ⟨_, tr, mr, hta, htb, _, cr⟩ := pyInflate_spec ha hb hst hsd hr
  intro x
  rw [cr x, hmb x, mr, tr, htb]
  have hm := mem_iff_count_pos' ha.inv x
  rw [hma x, hta] at hm
  by_cases c : x ≤ a.maxHash
  · have c' : x ≤ b.maxHash := by omega
    simp only [c, c', if_true, Bool.false_eq_true, if_false] at hm ⊢
    by_cases hx : x ∈ a.mins
    · have h1 := hm.1 hx
      have : ma x ≠ 0 := by omega
      simp [hx, this]
    · have h1 : ¬ 0 < min 1 (ma x) := fun h => hx (hm.2 h)
      have : ma x = 0 := by omega
      simp [hx, this]
  · have : x ∉ a.mins := fun h => c (ha.inv.bounded ha.max x h)
    simp only [c, if_false, this]

/-- abundance filtering: the hashes whose multiplicity lies in `[mn, mx]` -/
theorem mirror_filter {s r : MH} {m : Nat → Nat} {mn : Nat} {mx : Option Nat} (hs : Scaled s)
    (hst : Stable s.maxHash) (hm : Sketches s m) (hr : sigFilter s mn mx = .ok (some r)) :
    Sketches r (fun x => if mn ≤ m x ∧ (∀ k, mx = some k → m x ≤ k) then m x else 0) := by
  obtain ⟨_, tr, hts, mr, _⟩ := sigFilter_spec hs hst hr
  obtain ⟨_, _, _, cr⟩ := filter_hom hs hst hr
  intro x
  rw [cr x, hm x, mr, tr, hts]
  by_cases c : x ≤ s.maxHash
  · simp only [c, if_true]
  · simp only [c, if_false]
    split <;> rfl

/-- downsampling: the same data at the coarser threshold -/
theorem mirror_downsample {s r : MH} {m : Nat → Nat} {sc : Nat} (hs : Scaled s)
    (hm : Sketches s m) (hr : Py.downsample s none (some sc) = .ok r)
    (h0 : mhR (scP (mhP sc)) ≠ 0) (hle : r.maxHash ≤ s.maxHash) : Sketches r m := by
  obtain ⟨_, tr, _, cr⟩ := downsample_hom hs hr h0
  intro x
  rw [cr x, hm x, tr]
  by_cases c : x ≤ r.maxHash
  · have : x ≤ s.maxHash := by omega
    simp only [c, this, if_true]
  · simp only [c, if_false]

/-! ### every operation tree

`Tree`: an operation tree over leaf multisets; `Tree.eval sc`: its evaluation on sketches at
scaled `sc` through the Python operators / methods (`+`, `&`, `remove_many`, `flatten`,
`inflate`) and the `sig filter` core; `Tree.data`: the same tree evaluated on the data with
multiset algebra; `Tree.mode`: the abundance mode the result has.  `tree_mirror`: whenever the
evaluation on sketches succeeds, its result is the sketch of the evaluation on the data. -/

inductive Tree where
  | leaf (track : Bool) (hashes : List Nat)
  | union (a b : Tree)
  | inter (a b : Tree)
  | sub (a b : Tree)
  | flatten (a : Tree)
  | inflate (a b : Tree)
  | filter (a : Tree) (mn : Nat) (mx : Option Nat)

def Tree.mode : Tree → Bool
  | .leaf tr _ => tr
  | .union a _ => a.mode
  | .inter _ _ => false
  | .sub a _ => a.mode
  | .flatten _ => false
  | .inflate _ _ => true
  | .filter _ _ _ => true

def Tree.data : Tree → Nat → Nat
  | .leaf _ l => fun x => l.count x
  | .union a b => fun x => a.data x + if b.mode then b.data x else min 1 (b.data x)
  | .inter a b => fun x => min (a.data x) (b.data x)
  | .sub a b => fun x => if b.data x = 0 then a.data x else 0
  | .flatten a => a.data
  | .inflate a b => fun x => if a.data x = 0 then 0 else b.data x
  | .filter a mn mx => fun x =>
      if mn ≤ a.data x ∧ (∀ k, mx = some k → a.data x ≤ k) then a.data x else 0

def Tree.eval (sc : Nat) : Tree → Except SErr MH
  | .leaf tr l => .ok ((MH.new sc 21 1 42 tr 0).addMany l)
  | .union a b =>
    match a.eval sc, b.eval sc with
    | .ok x, .ok y => lift (Py.add x y)
    | .error e, _ => .error e
    | _, .error e => .error e
  | .inter a b =>
    match a.eval sc, b.eval sc with
    | .ok x, .ok y =>
      match Py.intersection x y with
      | .ok (_, r) => .ok r
      | .error e => .error (.mh e)
    | .error e, _ => .error e
    | _, .error e => .error e
  | .sub a b =>
    match a.eval sc, b.eval sc with
    | .ok x, .ok y => .ok (x.removeFrom y)
    | .error e, _ => .error e
    | _, .error e => .error e
  | .flatten a =>
    match a.eval sc with
    | .ok x => lift (Py.flattenD x)
    | .error e => .error e
  | .inflate a b =>
    match a.eval sc, b.eval sc with
    | .ok x, .ok y => lift (Py.inflate x y)
    | .error e, _ => .error e
    | _, .error e => .error e
  | .filter a mn mx =>
    match a.eval sc with
    | .ok x =>
      match sigFilter x mn mx with
      | .ok (some r) => .ok r
      | .ok none => .error .exit
      | .error e => .error e
    | .error e => .error e

/-- **the sketch of an operation tree is the operation tree of the sketches**, for every tree,
every family of leaf multisets, every scaled value whose threshold is stable -/
theorem tree_mirror (sc : Nat) (hM : mhR sc ≠ 0) (hst : Stable (mhR sc))
    (hsd : StableDown (mhR sc)) :
    ∀ (t : Tree) (s : MH), t.eval sc = .ok s →
      Scaled s ∧ s.maxHash = mhR sc ∧ s.trackAbundance = t.mode ∧ Sketches s t.data := by
  intro t
  induction t with
  | leaf tr l =>
    intro s h
    simp only [Tree.eval, Except.ok.injEq] at h
    subst h
    have hl := sketches_leaf (k := 21) (hf := 1) (seed := 42) (tr := tr) hM l
    have fr := addMany_frame (MH.new sc 21 1 42 tr 0) l
    have fn := new_fields sc 21 1 42 tr 0
    exact ⟨hl.1, fr.2.1.trans fn.1, fr.2.2.2.2.2.trans fn.2.2.2.1, hl.2⟩
  | union a b iha ihb =>
    intro s h
    simp only [Tree.eval] at h
    split at h
    · rename_i x y hx hy
      obtain ⟨sx, mx, tx, dx⟩ := iha x hx
      obtain ⟨sy, my, ty, dy⟩ := ihb y hy
      have hr := lift_ok h
      obtain ⟨sr, tr, mr, _, cr⟩ := pyAdd_spec sx sy.inv hr
      refine ⟨sr, mr.trans mx, tr.trans tx, ?_⟩
      intro z
      rw [cr z, dx z, dy z, mr, tr, mx, my, tx, ty]
      simp only [Tree.data]
      by_cases c : z ≤ mhR sc
      · simp only [c, if_true]
        cases a.mode <;> cases b.mode <;> simp <;> omega
      · simp only [c, if_false]
        split <;> rfl
    · cases h
    · cases h
  | inter a b iha ihb =>
    intro s h
    simp only [Tree.eval] at h
    split at h
    · rename_i x y hx hy
      obtain ⟨sx, mx, _, dx⟩ := iha x hx
      obtain ⟨sy, _, _, dy⟩ := ihb y hy
      split at h
      · rename_i x' r hi
        cases h
        obtain ⟨sr, tr, mr, _⟩ := pyIntersection_spec sx sy.inv hi
        exact ⟨sr, mr.trans mx, tr, mirror_intersection sx sy.inv dx dy hi⟩
      · cases h
    · cases h
    · cases h
  | sub a b iha ihb =>
    intro s h
    simp only [Tree.eval] at h
    split at h
    · rename_i x y hx hy
      obtain ⟨sx, mx, tx, dx⟩ := iha x hx
      obtain ⟨sy, my, _, dy⟩ := ihb y hy
      cases h
      have fr := removeMany_frame x y.mins
      refine ⟨⟨inv_removeFrom sx.inv y, fr.1.trans sx.num, ?_⟩, fr.2.1.trans mx, fr.2.2.trans tx,
        mirror_subtract sx sy.inv (mx.trans my.symm) dx dy⟩
      show (x.removeMany y.mins).maxHash ≠ 0
      rw [fr.2.1]; exact sx.max
    · cases h
    · cases h
  | flatten a iha =>
    intro s h
    simp only [Tree.eval] at h
    split at h
    · rename_i x hx
      obtain ⟨sx, mx, _, dx⟩ := iha x hx
      have hr := lift_ok h
      obtain ⟨sr, tr, mr, _⟩ := flatten_hom sx (by rw [mx]; exact hst) hr
      exact ⟨sr, mr.trans mx, tr, mirror_flatten sx (by rw [mx]; exact hst) dx hr⟩
    · cases h
  | inflate a b iha ihb =>
    intro s h
    simp only [Tree.eval] at h
    split at h
    · rename_i x y hx hy
      obtain ⟨sx, mx, _, dx⟩ := iha x hx
      obtain ⟨sy, my, _, dy⟩ := ihb y hy
      have hr := lift_ok h
      obtain ⟨sr, tr, mr, _⟩ :=
        pyInflate_spec sx sy (by rw [my]; exact hst) (by rw [mx]; exact hsd) hr
      exact ⟨sr, mr.trans mx, tr,
        mirror_inflate sx sy (by rw [my]; exact hst) (by rw [mx]; exact hsd)
          (Nat.le_of_eq (mx.trans my.symm)) dx dy hr⟩
    · cases h
    · cases h
  | filter a mn mx iha =>
    intro s h
    simp only [Tree.eval] at h
    split at h
    · rename_i x hx
      obtain ⟨sx, mxx, _, dx⟩ := iha x hx
      split at h
      · rename_i r hf
        cases h
        obtain ⟨sr, tr, mr, _⟩ := filter_hom sx (by rw [mxx]; exact hst) hf
        exact ⟨sr, mr.trans mxx, tr, mirror_filter sx (by rw [mxx]; exact hst) dx hf⟩
      · cases h
      · cases h
    · cases h

/-- the two stability hypotheses hold for the threshold of every scaled value up to 2^31 (C03) -/
theorem stable_of_le_2_31 {S : Nat} (h1 : 1 ≤ S) (h2 : S ≤ 2 ^ 31) :
    mhR S ≠ 0 ∧ Stable (mhR S) ∧ StableDown (mhR S) := by
  refine ⟨C03.mh_pos h1 (by omega), C03.py_copy_stable h1 h2, ?_⟩
  show mhR (scP (mhP (scP (mhR S)))) = mhR S
  rw [C03.py_reports_S h1 h2]
  exact C03.py_downsample_exact h1 h2

/-- `tree_mirror` for every scaled value from 1 to 2^31, without hypotheses on the thresholds -/
theorem tree_mirror_le_2_31 (sc : Nat) (h1 : 1 ≤ sc) (h2 : sc ≤ 2 ^ 31) (t : Tree) (s : MH)
    (h : t.eval sc = .ok s) :
    Scaled s ∧ s.maxHash = mhR sc ∧ s.trackAbundance = t.mode ∧ Sketches s t.data :=
  have hs := stable_of_le_2_31 h1 h2
  tree_mirror sc hs.1 hs.2.1 hs.2.2 t s h

/-- the tree theorem is not vacuous: a depth-3 tree over overlapping / nested / disjoint / empty
leaves evaluates, at scaled 1, to the sketch its data evaluation predicts -/
example :
    let t : Tree := .inflate (.sub (.union (.leaf false [5, 7, 7, 9]) (.leaf false [7, 11]))
                                  (.inter (.leaf false [9, 30]) (.flatten (.leaf true [9, 9, 40]))))
                            (.filter (.union (.leaf true [5, 5, 11]) (.leaf true [])) 1 none)
    (t.eval 1).toOption.map (fun r => (r.mins, r.abunds)) = some ([5, 11], some [2, 1]) ∧
    (t.data 5, t.data 7, t.data 9, t.data 11) = (2, 0, 0, 1) := by
  decide +kernel

/-! ### non-vacuity -/

/-- the threshold of scaled = 1 and of scaled = 2 survives the Python round trip -/
example : Stable U64MAX ∧ Stable (2 ^ 63) := by
  unfold Stable; decide +kernel

/-- ... and so does the threshold of every scaled value the `setops` stream draws from -/
example : ∀ sc ∈ [1, 2, 3, 7, 10, 93, 100, 1000, 2 ^ 20], mhR sc ≠ 0 ∧ Stable (mhR sc) := by
  unfold Stable; decide +kernel

/-- a concrete valid scaled abundance sketch with a stable threshold -/
example : Scaled ((MH.new 1 21 1 42 true 0).addHashAb 5 3) ∧
    Stable ((MH.new 1 21 1 42 true 0).addHashAb 5 3).maxHash := by
  refine ⟨(new_scaled (by decide)).addHashAb 5 3, ?_⟩
  unfold Stable; decide +kernel

/-- the operations are defined on such sketches (hypotheses of the theorems above are
satisfiable with non-trivial content) -/
example :
    let a := ((MH.new 1 21 1 42 true 0).addHashAb 5 3).addHashAb 7 2
    let f := ((MH.new 1 21 1 42 false 0).addHash 7).addHash 9
    (a.merge f).toOption.map (fun r => (r.mins, r.abunds)) = some ([5, 7, 9], some [3, 3, 1]) ∧
    (Py.inflate f a).toOption.map (fun r => (r.mins, r.abunds)) = some ([7], some [2]) ∧
    (sigIntersect [f, a] none).toOption.map (fun r => (r.mins, r.abunds)) = some ([7], none) ∧
    (sigSubtract f [a] true none).toOption.map (fun r => (r.mins, r.abunds)) = some ([9], none) ∧
    (sigFilter a 3 none).toOption.map (fun r => r.map (fun r => (r.mins, r.abunds)))
      = some (some ([5], some [3])) := by
  decide +kernel

end Sm.C04
