/-
C15 — queries, comparisons and saves never modify their inputs; frozen objects
are immutable; a mutable copy shares no state with its original.

The theorems are about the ownership model (`Model/Ownership.lean`): a heap of
cells, handles bound to cells, and for each API entry point whether it writes its
receiver's cell and whether its result is a fresh cell or an alias.  They show
that, GIVEN that table (which the `own` correspondence stream checks against
the real objects after every operation, including object identity), no history
of operations can change a frozen object or reach a caller-owned cell through a
read-only call or through a copy.

Layers 2 and 3 (`Model/OwnObj.lean`): signature objects, which CONTAIN a sketch value (clone in /
clone out), and collection views (LinearIndex, LazyLinearIndex, ZipFileLinearIndex with / without
manifest, MultiIndex, StandaloneManifestIndex: `select` builds a new object; SBT, LCA_Database:
`select` narrows the receiver in place and returns it, by design).  The second half of this file
proves the same kind of statement for them; every operation of those layers is a MODELLED op of
the `own` stream, i.e. compared with the real objects (content, frozen flag, identity class, a
view's own state and what it yields) after every step.

This property is PARTIAL by nature: a pure model cannot exhibit aliasing it was
not told about; CPython/cffi object lifetime and aliasing inside native code are
observed by the stream's monitor, not proved.
-/
import SmVerif.Lemmas.Ownership
import SmVerif.Lemmas.OwnObj
import SmVerif.Lemmas.OwnObjWF

namespace Sm.C15

open Sm Sm.Own

/-- only a mutator (or `into_frozen`) can change an existing cell, and only its
receiver's: every other pre-existing cell keeps its content (frame rule) -/
theorem step_frame (hp : Heap) (op : Op) (c : Nat) (cell : Cell)
    (hc : hp.cells[c]? = some cell)
    (hne : ∀ h, receiver op = some h → hp.cid h ≠ some c) :
    (step hp op).1.cells[c]? = some cell :=
  Sm.Own.step_frame' hp op c cell hc hne

/-- operations that are not mutators never change the content of any existing cell -/
theorem nonmutator_preserves (hp : Heap) (op : Op) (hm : isMutator op = false) (c : Nat) (cell : Cell)
    (hc : hp.cells[c]? = some cell) :
    ∃ cell', (step hp op).1.cells[c]? = some cell' ∧ cell'.val = cell.val :=
  Sm.Own.nonmutator_preserves' hp op hm c cell hc

/-- read-only queries (search, prefetch, gather, compare, similarity, containment,
    md5, save, manifest export …) leave the heap exactly as it was -/
theorem readonly_frame (hp : Heap) (name : String) (hs : List Nat) :
    (step hp (.readOnly name hs)).1 = hp := by
  simp [step]; split <;> rfl

/-- every mutator applied to a frozen object leaves the whole heap unchanged … -/
theorem frozen_immutable (hp : Heap) (op : Op) (h : Nat) (cell : Cell)
    (hm : isMutator op = true) (hr : receiver op = some h)
    (hc : hp.cell h = some cell) (hf : cell.frozen = true) :
    (step hp op).1 = hp :=
  Sm.Own.frozen_immutable' hp op h cell hm hr hc hf

/-- … and is refused with a TypeError (for `track_abundance = b` only when it would change anything;
    `merge` needs an existing operand) -/
theorem frozen_refused (hp : Heap) (op : Op) (h : Nat) (cell : Cell)
    (hm : isMutator op = true) (hr : receiver op = some h)
    (hc : hp.cell h = some cell) (hf : cell.frozen = true)
    (hst : ∀ b, op = .setTrack h b → cell.val.trackAbundance ≠ b)
    (hmg : ∀ g, op = .merge h g → (hp.cell g).isSome) :
    (step hp op).2 = .err "TypeError" :=
  Sm.Own.frozen_refused' hp op h cell hm hr hc hf hst hmg

/-- nothing ever unfreezes a cell -/
theorem frozen_stays_frozen (hp : Heap) (op : Op) (c : Nat) (cell : Cell)
    (hc : hp.cells[c]? = some cell) (hf : cell.frozen = true) :
    ∃ cell', (step hp op).1.cells[c]? = some cell' ∧ cell'.frozen = true :=
  Sm.Own.frozen_stays_frozen' hp op c cell hc hf

/-- **for every history**: once a cell is frozen its content never changes again -/
theorem frozen_forever (hp : Heap) (ops : List Op) (c : Nat) (cell : Cell)
    (hwf : hp.WF) (hc : hp.cells[c]? = some cell) (hf : cell.frozen = true) :
    ∃ cell', (ops.foldl (fun hp op => (step hp op).1) hp).cells[c]? = some cell' ∧
      content cell' = content cell :=
  Sm.Own.frozen_forever' hp ops c cell hwf hc hf

/-- `to_mutable` always returns a fresh, unfrozen cell … -/
theorem to_mutable_fresh (hp : Heap) (r h : Nat) (hwf : hp.WF)
    (hok : (step hp (.toMutable r h)).2 = .ok) :
    (step hp (.toMutable r h)).1.cid r = some hp.cells.length ∧
    ∃ cell, (step hp (.toMutable r h)).1.cells[hp.cells.length]? = some cell ∧ cell.frozen = false :=
  Sm.Own.to_mutable_fresh' hp r h hwf hok

/-- … so a mutable copy shares no state with its original: whatever is then done
    through the copy's handle leaves the original's cell untouched -/
theorem copy_disjoint (hp : Heap) (r h : Nat) (hwf : hp.WF) (hrh : r ≠ h)
    (hok : (step hp (.toMutable r h)).2 = .ok) (op : Op) (hrec : receiver op = some r)
    (c : Nat) (cell : Cell) (hc : hp.cid h = some c) (hcell : hp.cells[c]? = some cell) :
    (step (step hp (.toMutable r h)).1 op).1.cells[c]? = some cell :=
  Sm.Own.copy_disjoint' hp r h hwf hrh hok op hrec c cell hc hcell

/-- the only ways to obtain a second handle on an EXISTING cell: the cell is frozen
    (`to_frozen`/`copy`/`downsample` of a frozen object), or `flatten` of a flat sketch
    (which returns the object itself — for a mutable flat sketch this is a genuine alias) -/
theorem alias_only_frozen_or_flatten (hp : Heap) (op : Op) (r c : Nat) (hwf : hp.WF)
    (hnew : (step hp op).1.cid r = some c) (hold : hp.cid r ≠ some c) (hlt : c < hp.cells.length) :
    (∃ cell, hp.cells[c]? = some cell ∧ cell.frozen = true) ∨ (∃ h, op = .flatten r h) :=
  Sm.Own.alias_only_frozen_or_flatten' hp op r c hwf hnew hold hlt

/-! non-vacuity -/
example :
    let hp0 := (step Heap.empty (.new 0 0 1 true)).1
    let hp1 := (step hp0 (.addAb 0 5 3)).1
    let hp2 := (step hp1 (.toFrozen 1 0)).1
    (step hp2 (.add 1 7)).2 = .err "TypeError" ∧ (step hp2 (.add 1 7)).1.cells.length = 2 := by
  decide

/-! # layer 2: signature objects -/

open Sm.Obj

/-- the tie of the alias table to the source: every clone / copy / return-self fact `Model/OwnObj.lean` is built on
    (bodies of `to_mutable`, `__copy__`, `to_frozen`, `into_frozen`, `update`, the `minhash` getter / setter, the
    refusing overrides of `FrozenSourmashSignature`, `mh.clone()` in `signature_set_mh` / `signature_first_mh`,
    `query = query.to_mutable()` in `GatherDatabases.__init__`, `dict(...)` / `list(...)` copies and `return <New>(…)`
    in every copying `select`, the new row list of `CollectionManifest`, `write_to_csv` leaving the rows alone,
    append-then-refuse + `return self` in `SBT.select` / `LCA_Database.select`) has been RE-READ from the current
    source by `harness/translators/own.py` and has the recorded shape.  A changed body turns its constant to
    `false`: this theorem (and with it the check) fails, naming the fact in `Gen.ownFacts`. -/
theorem source_clone_discipline : Gen.ownFacts.all (fun p => p.2) = true := by decide

/-- the two facts of that list the model's `step` itself follows (the bodies of `to_mutable` and `update`),
    discharged by `rfl` against `Generated.lean` INSIDE every theorem below that rests on them -/
local macro "src!" : term => `((Sm.Obj.SourceOk.mk rfl rfl : Sm.Obj.SourceOk))

/-- frame rule: an existing signature's name, filename, sketch and frozen flag can change only through a handle
    bound to that very object, by one of its own setters / `add_sequence` / `add_protein` / `__setstate__` /
    `into_frozen` — whatever else happens in any layer (in particular whatever is done to the sketch it was built
    from, or to a sketch it handed out) -/
theorem sig_frame (w : World) (op : Obj.Op) (c : Nat) (cell : SigCell)
    (hc : w.sigs.cells[c]? = some cell)
    (hne : ∀ s, sigReceiver op = some s → w.sigs.cid s ≠ some c) :
    (Obj.step w op).1.sigs.cells[c]? = some cell :=
  Sm.Obj.sig_frame' src! w op c cell hc hne

/-- every mutator of a frozen signature (`.minhash =`, `.name =`, `.filename =`, `add_sequence`, `add_protein`,
    `__setstate__`) is refused with ValueError and leaves the WHOLE world as it was.
    (`__setstate__` is where the code departs: finding C15.1.) -/
theorem sig_frozen_immutable (w : World) (op : Obj.Op) (s : Nat) (sc : SigCell)
    (hm : isSigMutator op = true) (hr : sigReceiver op = some s)
    (hc : w.sigs.cell s = some sc) (hf : sc.frozen = true) (hwf : (Obj.step w op).2 ≠ .bad) :
    Obj.step w op = (w, .err "ValueError") :=
  Sm.Obj.sig_frozen_refused' w op s sc hm hr hc hf hwf

/-- **for every history over all three layers**: a frozen signature never changes again -/
theorem sig_frozen_forever (w : World) (ops : List Obj.Op) (c : Nat) (cell : SigCell)
    (hc : w.sigs.cells[c]? = some cell) (hf : cell.frozen = true) :
    (ops.foldl (fun w op => (Obj.step w op).1) w).sigs.cells[c]? = some cell :=
  Sm.Obj.sig_frozen_cell_foldl src! ops w c cell hc hf

/-- clone-in: NO history of sketch-layer operations (add_hash, merge, clear, … on any sketch object, including the
    one a signature was built from) changes any signature, view, manifest row or store -/
theorem sketch_ops_never_reach_signatures (w : World) (ops : List Own.Op) :
    (ops.foldl (fun w o => (Obj.step w (.mh o)).1) w).sigs = w.sigs ∧
    (ops.foldl (fun w o => (Obj.step w (.mh o)).1) w).views = w.views ∧
    (ops.foldl (fun w o => (Obj.step w (.mh o)).1) w).rows = w.rows ∧
    (ops.foldl (fun w o => (Obj.step w (.mh o)).1) w).stores = w.stores :=
  Sm.Obj.mh_ops_foldl_others ops w

/-- clone-out: `sig.minhash` is a NEW frozen sketch cell holding a copy of the inner sketch; it never aliases
    the inner sketch: whatever sketch-layer history follows (on it, on a mutable copy of it, on anything),
    the signature table stays what it was -/
theorem sig_minhash_never_aliases (w : World) (r s : Nat) (hok : (Obj.step w (.sMinhash r s)).2 = .ok)
    (ops : List Own.Op) :
    (∃ sc, w.sigs.cell s = some sc ∧
      (Obj.step w (.sMinhash r s)).1.heap.cid r = some w.heap.cells.length ∧
      (Obj.step w (.sMinhash r s)).1.heap.cells[w.heap.cells.length]? = some ⟨sc.val.mh, true⟩) ∧
    (ops.foldl (fun w o => (Obj.step w (.mh o)).1) (Obj.step w (.sMinhash r s)).1).sigs = w.sigs := by
  obtain ⟨sc, h1, h2, h3, h4⟩ := Sm.Obj.sig_minhash_fresh' w r s hok
  refine ⟨⟨sc, h1, h2, h3⟩, ?_⟩
  rw [(Sm.Obj.mh_ops_foldl_others ops _).1, h4]

/-- conversely no operation of the signature / view layers writes an existing sketch cell: at most one fresh
    sketch cell appears (`sig.minhash`, `CounterGather.orig_query_mh`) -/
theorem object_ops_never_write_sketches (w : World) (op : Obj.Op) (hn : ∀ o, op ≠ .mh o)
    (c : Nat) (cell : Cell) (hc : w.heap.cells[c]? = some cell) :
    (Obj.step w op).1.heap.cells[c]? = some cell :=
  Sm.Obj.obj_op_heap_cells src! w op hn c cell hc

/-- `to_mutable()` of a signature (mutable or frozen) is a new, unfrozen cell with the same content … -/
theorem sig_to_mutable_fresh (w : World) (r s : Nat) (hok : (Obj.step w (.sToMutable r s)).2 = .ok) :
    ∃ sc, w.sigs.cell s = some sc ∧
      (Obj.step w (.sToMutable r s)).1.sigs = w.sigs.alloc r ⟨sc.val, false⟩ :=
  Sm.Obj.sig_to_mutable_fresh' src! w r s hok

/-- … so whatever is then done through the copy leaves every pre-existing signature (the original included) alone -/
theorem sig_copy_disjoint (w : World) (r s : Nat) (hok : (Obj.step w (.sToMutable r s)).2 = .ok)
    (op : Obj.Op) (hrec : ∀ s', sigReceiver op = some s' → s' = r)
    (c : Nat) (cell : SigCell) (hcell : w.sigs.cells[c]? = some cell) :
    (Obj.step (Obj.step w (.sToMutable r s)).1 op).1.sigs.cells[c]? = some cell :=
  Sm.Obj.sig_copy_disjoint' src! w r s hok op hrec c cell hcell

/-- `with sig.update() as q: q.minhash = q.minhash.flatten()` (`Index.counter_gather`, the search commands) and
    `q.name = …`: the result is a new frozen cell; sketches and views untouched -/
theorem sig_update_fresh (w : World) (r s : Nat) (x : String) :
    ((Obj.step w (.sUpdateFlat r s)).2 = .ok →
      ∃ v, (Obj.step w (.sUpdateFlat r s)).1.sigs = w.sigs.alloc r ⟨v, true⟩ ∧
        (Obj.step w (.sUpdateFlat r s)).1.heap = w.heap ∧ (Obj.step w (.sUpdateFlat r s)).1.views = w.views) ∧
    ((Obj.step w (.sUpdateName r s x)).2 = .ok →
      ∃ v, (Obj.step w (.sUpdateName r s x)).1.sigs = w.sigs.alloc r ⟨v, true⟩ ∧
        (Obj.step w (.sUpdateName r s x)).1.heap = w.heap ∧ (Obj.step w (.sUpdateName r s x)).1.views = w.views) :=
  ⟨fun h => Sm.Obj.sig_update_fresh' src! w r s _ h, fun h => Sm.Obj.sig_update_fresh' src! w r s _ h⟩

/-- the consumer pattern of `GatherDatabases.__init__` (`query = query.to_mutable(); query.minhash = orig_query_mh`)
    never writes a caller-owned cell: the whole effect is ONE fresh mutable signature -/
theorem gather_init_writes_only_its_copy (w : World) (r s : Nat)
    (hok : (Obj.step w (.sGatherInit r s)).2 = .ok) :
    ∃ v, (Obj.step w (.sGatherInit r s)).1 = w.sigFresh r v false :=
  Sm.Obj.gather_init_fresh' src! w r s hok

/-- … and that rests on `to_mutable()` being a copy: over a `to_mutable()` that returns a MUTABLE signature
    itself (the seeded change C15a) the same constructor overwrites the caller's query with the flattened one -/
theorem gather_init_unsafe_if_to_mutable_aliases (w : World) (r s c : Nat) (sc : SigCell) (q : MH)
    (hcid : w.sigs.cid s = some c) (hcell : w.sigs.cells[c]? = some sc) (hmut : sc.frozen = false)
    (hnum : sc.val.mh.num = 0) (hq : gatherQueryMh sc.val.mh = .ok q) :
    (gatherInitWith toMutableSigAliasing w r s).1.sigs.cells[c]? = some ⟨{ sc.val with mh := q }, false⟩ :=
  Sm.Obj.gather_init_aliasing_overwrites' w r s c sc q hcid hcell hmut hnum hq

/-- likewise `update()` rests on its copy: the variant "made more efficient by not copying" that its docstring warns
    against (thaw, run the body, freeze) rewrites the frozen signature it was called on -/
theorem update_unsafe_if_not_copying (w : World) (r s c : Nat) (sc : SigCell) (v : SigVal)
    (body : SigVal → Except MH.Err SigVal)
    (hcid : w.sigs.cid s = some c) (hcell : w.sigs.cells[c]? = some sc) (hf : sc.frozen = true)
    (hb : body sc.val = .ok v) :
    (updateInPlace w r s body).1.sigs.cells[c]? = some ⟨v, true⟩ :=
  Sm.Obj.update_in_place_overwrites' w r s c sc v body hcid hcell hf hb

/-- `Index.counter_gather` / `CounterGather.__init__` (`query_mh.copy().flatten()`): signatures and views untouched,
    existing sketches untouched -/
theorem counter_gather_writes_nothing (w : World) (r s : Nat) (ds : List Nat) :
    (Obj.step w (.sCounterGather r s ds)).1.sigs = w.sigs ∧ (Obj.step w (.sCounterGather r s ds)).1.views = w.views ∧
    ∀ (c : Nat) (cell : Cell), w.heap.cells[c]? = some cell →
      (Obj.step w (.sCounterGather r s ds)).1.heap.cells[c]? = some cell :=
  ⟨(Sm.Obj.counter_gather_others w r s ds).1, (Sm.Obj.counter_gather_others w r s ds).2,
   fun c cell hc => Sm.Obj.obj_op_heap_cells src! w _ (by intro o h; cases h) c cell hc⟩

/-- the only ways to a second handle on an EXISTING signature: `to_frozen()` / `copy()` of a frozen signature,
    or a collection handing out the object it holds (`signatures()` of LinearIndex / MultiIndex / a lazy view) -/
theorem sig_alias_only_frozen_or_held (w : World) (op : Obj.Op) (r c : Nat)
    (hnew : (Obj.step w op).1.sigs.cid r = some c) (hold : w.sigs.cid r ≠ some c)
    (hlt : c < w.sigs.cells.length) :
    (∃ cell, w.sigs.cells[c]? = some cell ∧ cell.frozen = true) ∨ (∃ v i, op = .vGet r v i) :=
  Sm.Obj.sig_alias_only' src! w op r c hnew hold hlt

/-! # layer 3: collection views -/

/-- frame rule: an existing view's own state (member list, selection dict, row list, picklists) can change only
    through a handle bound to that very object, by `insert` or by `select` -/
theorem view_frame (w : World) (op : Obj.Op) (c : Nat) (vc : ViewCell)
    (hc : w.views.cells[c]? = some vc)
    (hne : ∀ v, viewReceiver op = some v → w.views.cid v ≠ some c) :
    (Obj.step w op).1.views.cells[c]? = some vc :=
  Sm.Obj.view_frame' src! w op c vc hc hne

/-- **select_frame**: `select(...)` on a view of a copying kind (LinearIndex, LazyLinearIndex, ZipFileLinearIndex
    with or without manifest, MultiIndex, StandaloneManifestIndex) changes NO existing view cell — not even the
    view it was called on (this is what the seeded change C15b broke) -/
theorem select_frame (w : World) (op : Obj.Op) (v : Nat) (rc : ViewCell)
    (hop : (∃ r kw, op = .vSelect r v kw) ∨ (∃ r names, op = .vSelectPick r v names))
    (hv : w.views.cell v = some rc) (hk : rc.kind.inPlace = false)
    (c : Nat) (vc : ViewCell) (hc : w.views.cells[c]? = some vc) :
    (Obj.step w op).1.views.cells[c]? = some vc :=
  Sm.Obj.select_frame' src! w op v rc hop hv hk c vc hc

/-- … and returns a NEW cell -/
theorem copying_select_fresh (w : World) (r v : Nat) (kw : Sel) (rc : ViewCell)
    (hv : w.views.cell v = some rc) (hk : rc.kind.inPlace = false)
    (hok : (Obj.step w (.vSelect r v kw)).2 = .ok) :
    ∃ vc', selectOutcome w rc kw = .fresh vc' ∧ (Obj.step w (.vSelect r v kw)).1 = w.viewFresh r vc' :=
  Sm.Obj.copying_select_fresh' w r v kw rc hv hk hok

/-- **select_result_independent**: whatever is later done THROUGH the result (insert, a further select) leaves
    every pre-existing view cell, the parent's included, as it was -/
theorem select_result_independent (w : World) (r v : Nat) (kw : Sel) (rc : ViewCell)
    (hv : w.views.cell v = some rc) (hk : rc.kind.inPlace = false)
    (hok : (Obj.step w (.vSelect r v kw)).2 = .ok)
    (op : Obj.Op) (hrec : ∀ v', viewReceiver op = some v' → v' = r)
    (c : Nat) (vc : ViewCell) (hc : w.views.cells[c]? = some vc) :
    (Obj.step (Obj.step w (.vSelect r v kw)).1 op).1.views.cells[c]? = some vc :=
  Sm.Obj.select_result_independent' src! w r v kw rc hv hk hok op hrec c vc hc

/-- what the new view SHARES with its parent, and nothing else: member signature objects (by reference — a
    LinearIndex holds the caller's objects), manifest row dicts, the index a lazy view wraps, the store on disk.
    The member list, the row list and the selection dict themselves are new values -/
theorem select_shares_only (w : World) (vc vc' : ViewCell) (kw : Sel)
    (h : selectOutcome w vc kw = .fresh vc') :
    vc'.kind = vc.kind ∧ (∀ x, x ∈ vc'.sigs → x ∈ vc.sigs) ∧ (∀ x, x ∈ vc'.rows → x ∈ vc.rows) ∧
    (vc.kind = .lazy → vc'.db = vc.db) ∧ (vc.kind.onDisk = true → vc'.store = vc.store) ∧
    vc'.picks = [] ∧ (∀ x, x ∈ vc'.vals → x ∈ vc.vals) :=
  Sm.Obj.select_shares' w vc vc' kw h

/-- of the shared data, manifest rows and stores are immutable: no operation of any layer (manifest export,
    select, insert, search …) ever writes an existing row or store — through every history -/
theorem rows_never_written (w : World) (ops : List Obj.Op) (i : Nat) (row : Row) (h : w.rows[i]? = some row) :
    (ops.foldl (fun w op => (Obj.step w op).1) w).rows[i]? = some row :=
  Sm.Obj.rows_stable_foldl src! ops w i row h

theorem stores_never_written (w : World) (op : Obj.Op) (i : Nat) (st : List SigVal)
    (h : w.stores[i]? = some st) : (Obj.step w op).1.stores[i]? = some st :=
  Sm.Obj.stores_stable src! w op i st h

/-- the IN-PLACE kinds (SBT, LCA_Database): `select` is a documented mutator of its receiver and hands the
    receiver back; without a picklist its criteria are mere checks and no view cell changes at all.
    About these kinds C15 can only say which object is written (the receiver, `view_frame`), not that it is not -/
theorem inplace_select_returns_self (w : World) (r v c : Nat) (kw : Sel) (rc : ViewCell)
    (hcid : w.views.cid v = some c) (hv : w.views.cell v = some rc) (hk : rc.kind.inPlace = true)
    (hok : (Obj.step w (.vSelect r v kw)).2 = .ok) :
    (Obj.step w (.vSelect r v kw)).1.views.cid r = some c ∧
    (Obj.step w (.vSelect r v kw)).1.views.cells = w.views.cells :=
  Sm.Obj.inplace_select_returns_self' w r v c kw rc hcid hv hk hok

/-! # saves, loaded collections, and the observational theorem -/

/-- every read-only call on a collection view — search, containment search, prefetch, best_containment, gather in both
    modes, signatures(), manifest export, AND every save (SBT.save to zip / directory storage, LinearIndex.save,
    SaveSignaturesToLocation to zip / .sig / directory / SQLite, LCA_Database.save as JSON / SQLite,
    manifest.write_to_filename as CSV / SQLite) — leaves the whole world exactly as it was.  (That is the model's claim;
    the `vro` ops of the stream run each call twice on the real objects, compare what the collection answers before and
    after, and the dump after the op must be the unchanged table.  Reverting cd1cfe8 — SBT.save re-homing the nodes —
    breaks it with `C15:view-changed:sbt-save`.) -/
theorem view_reads_and_saves_change_nothing (w : World) (name : String) (v : Nat) (qs : List Nat) :
    (Obj.step w (.vRead name v qs)).1 = w := by
  simp only [Obj.step]; split <;> rfl

theorem sig_reads_change_nothing (w : World) (name : String) (ss : List Nat) :
    (Obj.step w (.sRead name ss)).1 = w := by
  simp only [Obj.step]; split <;> rfl

/-- the well-formedness invariant (every reference held by a handle, a view or a manifest row points to an existing
    cell) holds in EVERY reachable world … -/
theorem reachable_wf (ops : List Obj.Op) : (ops.foldl (fun w op => (Obj.step w op).1) World.empty).WF :=
  Sm.Obj.wf_foldl src! ops World.empty Sm.Obj.wf_empty

theorem wf_preserved (w : World) (hwf : w.WF) (op : Obj.Op) : (Obj.step w op).1.WF :=
  Sm.Obj.wf_step src! w hwf op

/-- … and in a well-formed world **what a view yields is stable** (the ONE observational theorem): for every view of
    every kind — in memory, lazy, zip with / without manifest, MultiIndex, standalone manifest, SBT in memory or LOADED
    from .sbt.zip / .sbt.json (whatever its node cache size), LCA_Database in memory or loaded from JSON, SqliteIndex,
    LCA_SqliteDatabase — `list(view.signatures())` (contents, frozen flags, order, or the exception raised) is the same
    before and after EVERY operation of any layer, provided the operation is not invoked on that view (insert, in-place
    select), nor on the index a lazy view wraps, nor on a signature object the view refers to (`deps`) -/
theorem view_obs_stable (w : World) (hwf : w.WF) (op : Obj.Op) (c : Nat) (vc : ViewCell)
    (hc : w.views.cells[c]? = some vc)
    (hv : ∀ v cv, viewReceiver op = some v → w.views.cid v = some cv → cv ≠ c ∧ (vc.kind = .lazy → cv ≠ vc.db))
    (hs : ∀ s cs, sigReceiver op = some s → w.sigs.cid s = some cs → cs ∉ deps w vc) :
    (Obj.step w op).1.views.cells[c]? = some vc ∧ viewSigs (Obj.step w op).1 vc = viewSigs w vc :=
  Sm.Obj.view_obs_stable' src! w hwf op c vc hc hv hs

/-- … and so are the view's OTHER answers, which is where hidden indices and caches (a manifest's `_md5_set`, the tables of
    an LCA_Database, the nodes of an SBT, the row count cached by a SQLite manifest) would show: `len(view)`,
    `ss in view.manifest` for EVERY sketch, and the containment search with the dump's probe query -/
theorem view_answers_stable (w : World) (hwf : w.WF) (op : Obj.Op) (c : Nat) (vc : ViewCell)
    (hc : w.views.cells[c]? = some vc)
    (hv : ∀ v cv, viewReceiver op = some v → w.views.cid v = some cv → cv ≠ c ∧ (vc.kind = .lazy → cv ≠ vc.db))
    (hs : ∀ s cs, sigReceiver op = some s → w.sigs.cid s = some cs → cs ∉ deps w vc) :
    viewLen (Obj.step w op).1 vc = viewLen w vc ∧ (∀ m, viewMember (Obj.step w op).1 vc m = viewMember w vc m) ∧
    (probeOf (Obj.step w op).1 = probeOf w → viewFind (Obj.step w op).1 vc = viewFind w vc) :=
  Sm.Obj.view_answers_stable' src! w hwf op c vc hc hv hs

/-- … and the LOCATIONS a view reports for what it yields (`signatures_with_location()`, hence the `location` of every
    search / prefetch / gather result; for a MultiIndex the `internal_location` column joined with `parent`) -/
theorem view_locs_stable (w : World) (hwf : w.WF) (op : Obj.Op) (c : Nat) (vc : ViewCell)
    (hc : w.views.cells[c]? = some vc)
    (hv : ∀ v cv, viewReceiver op = some v → w.views.cid v = some cv → cv ≠ c ∧ (vc.kind = .lazy → cv ≠ vc.db))
    (hs : ∀ s cs, sigReceiver op = some s → w.sigs.cid s = some cs → cs ∉ deps w vc) :
    viewLocs (Obj.step w op).1 vc = viewLocs w vc :=
  Sm.Obj.view_locs_stable' src! w hwf op c vc hc hv hs

/-- constructing a collection FROM existing views only reads them: `MultiIndex.load([views…], [labels…])`,
    `LinearIndex(list(view.signatures()))`, an SBT / an LCA_Database filled from `view.signatures()`, a
    StandaloneManifestIndex over a manifest exported from a view, `MultiIndex.load_from_path / _directory / _pathlist` over
    what a view was saved as: no existing view cell changes (in particular not the inputs'), and — `rows_never_written` — no
    existing manifest row (what the seeded `MultiIndex.load` that relabelled the rows of a MultiIndex input broke) -/
theorem construct_from_views_frame (w : World) (op : Obj.Op)
    (hop : (∃ r p ins, op = .vMultiOf r p ins) ∨ (∃ r k v, op = .vFrom r k v) ∨ (∃ r v, op = .vStandOf r v) ∨
           (∃ r m v, op = .vMPath r m v))
    (c : Nat) (vc : ViewCell) (hc : w.views.cells[c]? = some vc) (i : Nat) (row : Row) (hr : w.rows[i]? = some row) :
    (Obj.step w op).1.views.cells[c]? = some vc ∧ (Obj.step w op).1.rows[i]? = some row := by
  refine ⟨Sm.Obj.view_frame' src! w op c vc hc ?_, Sm.Obj.rows_stable src! w op i row hr⟩
  intro v hrecv
  rcases hop with ⟨_, _, _, e⟩ | ⟨_, _, _, e⟩ | ⟨_, _, e⟩ | ⟨_, _, _, e⟩ <;> (subst e; cases hrecv)

/-- every read-only call on the MANIFESTS of two views (`a + b`, `b + a`, `a + a`, `==`, `in`, `select_to_manifest`, `_select`,
    `filter_rows`, `filter_on_columns`, `to_picklist`, `locations`, `len`, iteration, `write_to_csv`) leaves the whole
    world as it was — in particular the membership answers of both operands (what the seeded `__add__` that aliased the
    receiver's `_md5_set` broke) -/
theorem manifest_reads_change_nothing (w : World) (name : String) (v u : Nat) (ss : List Nat) :
    (Obj.step w (.vManifest name v u ss)).1 = w := by
  simp only [Obj.step]; split <;> rfl

/-- corollary for everything read back from disk (and for an LCA_Database, which copies values in): no signature object
    is referred to, so NOTHING done to any signature or sketch object, and nothing done through any other view, changes
    its answers -/
theorem disk_view_obs_stable (w : World) (hwf : w.WF) (op : Obj.Op) (c : Nat) (vc : ViewCell)
    (hc : w.views.cells[c]? = some vc)
    (hk : vc.kind.usesStore = true ∨ vc.kind = .lca)
    (hv : ∀ v, viewReceiver op = some v → w.views.cid v ≠ some c) :
    viewSigs (Obj.step w op).1 vc = viewSigs w vc := by
  refine (Sm.Obj.view_obs_stable' src! w hwf op c vc hc ?_ ?_).2
  · intro v cv hr e
    refine ⟨fun h => hv v hr (h ▸ e), fun hl => ?_⟩
    rcases hk with hk | hk <;> simp [hl, VKind.usesStore] at hk
  · intro s cs _ _ hmem
    have : deps w vc = [] := by
      rcases hk with hk | hk <;> cases hkk : vc.kind <;> simp_all [deps, VKind.usesStore]
    rw [this] at hmem
    cases hmem

/-- what the loaders hand out.  Zip collections (with / without manifest) and standalone manifests: a NEW, FROZEN
    signature on every call -/
theorem loaders_hand_out_frozen_partial (w : World) (r v i : Nat) (vc : ViewCell) (hv : w.views.cell v = some vc)
    (hk : vc.kind = .zipnm ∨ vc.kind = .zipm ∨ vc.kind = .standalone)
    (hok : (Obj.step w (.vGet r v i)).2 = .ok) :
    ∃ val, (Obj.step w (.vGet r v i)).1.sigs = w.sigs.alloc r ⟨val, true⟩ := by
  obtain ⟨l, o, hl, ho, hs⟩ := Sm.Obj.vGet_disk w r v i vc hv
    (by rcases hk with h | h | h <;> simp [h, VKind.holdsObjects])
    (by rcases hk with h | h | h <;> simp [h, VKind.readsInOrder]) hok
  have := Sm.Obj.viewSigs_frozen w vc l hk hl o ho
  exact ⟨o.2, by rw [hs, this]⟩

/- FULL STATEMENT (not proved / false of the code as found): the same for EVERY loader.
   `SqliteIndex._load_sketch` / `_load_sketches` return a plain `SourmashSignature`: what a SqliteIndex (and an
   LCA_SqliteDatabase) hands out is a new object on every call, but MUTABLE (finding C15.3, candidate patch
   patches/C15.3-…).  The model follows the source (`Gen.ownSqliteHandsOutMutable`, re-read every run): -/
theorem sqlite_loader_hands_out_what_the_source_says (w : World) (r v i : Nat) (vc : ViewCell)
    (hv : w.views.cell v = some vc) (hk : vc.kind = .sqlite)
    (hok : (Obj.step w (.vGet r v i)).2 = .ok) :
    ∃ val, (Obj.step w (.vGet r v i)).1.sigs = w.sigs.alloc r ⟨val, !Gen.ownSqliteHandsOutMutable⟩ := by
  obtain ⟨l, o, hl, ho, hs⟩ := Sm.Obj.vGet_disk w r v i vc hv
    (by simp [hk, VKind.holdsObjects]) (by simp [hk, VKind.readsInOrder]) hok
  have := Sm.Obj.viewSigs_sqlite w vc l (.inl hk) hl o ho
  exact ⟨o.2, by rw [hs, this]⟩

/-! ### exhibits and non-vacuity (kernel-checked) -/

/-- the names a view yields -/
def namesOf (w : World) (v : Nat) : Option (List String) :=
  (w.views.cell v).bind (fun vc =>
    match viewSigs w vc with
    | .ok l => some (l.map (·.2.name))
    | .error _ => none)

def runOps (ops : List Obj.Op) : World := ops.foldl (fun w op => (Obj.step w op).1) World.empty

/-- two signatures `a`, `b` in an SBT narrowed to the picklist {a, b} -/
def sbtWorld : World :=
  runOps [.mh (.new 0 0 1 false), .mh (.addMany 0 [5]), .sNew 0 0 "a" "", .sNew 1 0 "b" "",
          .vSbt 0 [0, 1], .vSelectPick 1 0 ["a", "b"]]

/-- what C15 CANNOT say about the in-place kinds, stated as it is in the code: a second picklist is REFUSED
    (ValueError "we do not (yet) support multiple picklists") and nevertheless narrows the tree — `SBT.select` and
    `LCA_Database.select` append the picklist before they raise (observation C15.2; candidate patch in patches/) -/
theorem inplace_select_refused_still_narrows :
    namesOf sbtWorld 0 = some ["a", "b"] ∧
    (Obj.step sbtWorld (.vSelectPick 2 0 ["b"])).2 = .err "ValueError" ∧
    namesOf (Obj.step sbtWorld (.vSelectPick 2 0 ["b"])).1 0 = some ["b"] := by
  decide +kernel

/-- the same history on a LinearIndex: select returns a new object, the receiver still yields both -/
example :
    let w := runOps [.mh (.new 0 0 1 false), .mh (.addMany 0 [5]), .sNew 0 0 "a" "", .sNew 1 0 "b" "",
                     .vLinear 0 [0, 1], .vSelect 1 0 [(4, some 1)]]
    namesOf w 0 = some ["a", "b"] ∧ namesOf w 1 = some [] ∧ w.views.cid 1 = some 1 := by
  decide +kernel

/-- a mutable query with abundances, `to_mutable()` returning `self`: after `GatherDatabases.__init__` the
    caller's signature has lost its abundances (concrete instance of `gather_init_unsafe_if_to_mutable_aliases`);
    with the real `to_mutable()` it keeps them -/
example :
    let w := runOps [.mh (.new 0 0 1 true), .mh (.addAb 0 5 3), .sNew 0 0 "q" ""]
    ((w.sigs.cell 0).map (·.val.mh.abunds)) = some (some [3]) ∧
    (((gatherInitWith toMutableSigAliasing w 1 0).1.sigs.cell 0).map (·.val.mh.abunds)) = some none ∧
    (((Obj.step w (.sGatherInit 1 0)).1.sigs.cell 0).map (·.val.mh.abunds)) = some (some [3]) ∧
    (((Obj.step w (.sGatherInit 1 0)).1.sigs.cell 1).map (·.val.mh.abunds)) = some none := by
  decide +kernel

/-- a frozen signature refuses its setters; its `minhash` is a new frozen sketch that refuses `add_hash` -/
example :
    let w := runOps [.mh (.new 0 0 1 false), .mh (.addMany 0 [5]), .sNew 0 0 "a" "", .sIntoFrozen 0, .sMinhash 1 0]
    (Obj.step w (.sSetName 0 "x")).2 = .err "ValueError" ∧
    (Obj.step w (.sSetMh 0 0)).2 = .err "ValueError" ∧
    (Obj.step w (.mh (.add 1 7))).2 = .err "TypeError" ∧
    (Obj.step w (.mh (.add 0 7))).2 = .ok ∧
    (((Obj.step w (.mh (.add 0 7))).1.sigs.cell 0).map (·.val.mh.mins)) = some [5] := by
  decide +kernel

/-- an SBT loaded from disk, narrowed in place, next to a SqliteIndex whose select copies: saves and searches in
    between change neither; the world stays well-formed -/
example :
    let w := runOps [.mh (.new 0 0 1 false), .mh (.addMany 0 [5]), .mh (.new 1 0 1 false), .mh (.addMany 1 [7]),
                     .sNew 0 0 "a" "", .sNew 1 1 "b" "",
                     .vSbtLoad 0 0 1 [0, 1], .vSqlite 1 [0, 1], .vRead "save" 0 [0], .vSelectPick 2 0 ["a"],
                     .vSelect 3 1 [(0, some 31)], .vRead "gather" 1 [0], .sSetName 0 "z"]
    namesOf w 0 = some ["a"] ∧ w.views.cid 2 = w.views.cid 0 ∧
    namesOf w 1 = some ["a", "b"] ∧ namesOf w 3 = some [] ∧ w.views.cid 3 ≠ w.views.cid 1 := by
  decide +kernel

end Sm.C15
