/-
C15 — queries, comparisons and saves never modify their inputs; frozen objects
are immutable; a mutable copy shares no state with its original.

The theorems are about the ownership model (`Model/Ownership.lean`): a heap of
cells, handles bound to cells, and for each API entry point whether it writes its
receiver's cell and whether its result is a fresh cell or an alias.  They show
that, GIVEN that table (which the `own` correspondence stream checks against
the real objects after every operation, including object identity), no history
of operations can change a frozen object or reach a caller-owned cell through a
read-only call or through a copy.

This property is PARTIAL by nature: a pure model cannot exhibit aliasing it was
not told about; CPython/cffi object lifetime and aliasing inside native code are
observed by the stream's monitor, not proved.
-/
import SmVerif.Lemmas.Ownership

namespace Sm.C15

open Sm Sm.Own

/-- only a mutator (or `into_frozen`) can change an existing cell, and only its
receiver's: every other pre-existing cell keeps its content (frame rule) -/
theorem step_frame (hp : Heap) (op : Op) (c : Nat) (cell : Cell)
    (hc : hp.cells[c]? = some cell)
    (hne : ∀ h, receiver op = some h → hp.cid h ≠ some c) :
    (step hp op).1.cells[c]? = some cell :=
  Sm.Own.step_frame' hp op c cell hc hne

/-- operations that are not mutators never change the content of any existing cell -/
theorem nonmutator_preserves (hp : Heap) (op : Op) (hm : isMutator op = false) (c : Nat) (cell : Cell)
    (hc : hp.cells[c]? = some cell) :
    ∃ cell', (step hp op).1.cells[c]? = some cell' ∧ cell'.val = cell.val :=
  Sm.Own.nonmutator_preserves' hp op hm c cell hc

/-- read-only queries (search, prefetch, gather, compare, similarity, containment,
    md5, save, manifest export …) leave the heap exactly as it was -/
theorem readonly_frame (hp : Heap) (name : String) (hs : List Nat) :
    (step hp (.readOnly name hs)).1 = hp := by
  simp [step]; split <;> rfl

/-- every mutator applied to a frozen object leaves the whole heap unchanged … -/
theorem frozen_immutable (hp : Heap) (op : Op) (h : Nat) (cell : Cell)
    (hm : isMutator op = true) (hr : receiver op = some h)
    (hc : hp.cell h = some cell) (hf : cell.frozen = true) :
    (step hp op).1 = hp :=
  Sm.Own.frozen_immutable' hp op h cell hm hr hc hf

/-- … and is refused with a TypeError (for `track_abundance = b` only when it would change anything;
    `merge` needs an existing operand) -/
theorem frozen_refused (hp : Heap) (op : Op) (h : Nat) (cell : Cell)
    (hm : isMutator op = true) (hr : receiver op = some h)
    (hc : hp.cell h = some cell) (hf : cell.frozen = true)
    (hst : ∀ b, op = .setTrack h b → cell.val.trackAbundance ≠ b)
    (hmg : ∀ g, op = .merge h g → (hp.cell g).isSome) :
    (step hp op).2 = .err "TypeError" :=
  Sm.Own.frozen_refused' hp op h cell hm hr hc hf hst hmg

/-- nothing ever unfreezes a cell -/
theorem frozen_stays_frozen (hp : Heap) (op : Op) (c : Nat) (cell : Cell)
    (hc : hp.cells[c]? = some cell) (hf : cell.frozen = true) :
    ∃ cell', (step hp op).1.cells[c]? = some cell' ∧ cell'.frozen = true :=
  Sm.Own.frozen_stays_frozen' hp op c cell hc hf

/-- **for every history**: once a cell is frozen its content never changes again -/
theorem frozen_forever (hp : Heap) (ops : List Op) (c : Nat) (cell : Cell)
    (hwf : hp.WF) (hc : hp.cells[c]? = some cell) (hf : cell.frozen = true) :
    ∃ cell', (ops.foldl (fun hp op => (step hp op).1) hp).cells[c]? = some cell' ∧
      content cell' = content cell :=
  Sm.Own.frozen_forever' hp ops c cell hwf hc hf

/-- `to_mutable` always returns a fresh, unfrozen cell … -/
theorem to_mutable_fresh (hp : Heap) (r h : Nat) (hwf : hp.WF)
    (hok : (step hp (.toMutable r h)).2 = .ok) :
    (step hp (.toMutable r h)).1.cid r = some hp.cells.length ∧
    ∃ cell, (step hp (.toMutable r h)).1.cells[hp.cells.length]? = some cell ∧ cell.frozen = false :=
  Sm.Own.to_mutable_fresh' hp r h hwf hok

/-- … so a mutable copy shares no state with its original: whatever is then done
    through the copy's handle leaves the original's cell untouched -/
theorem copy_disjoint (hp : Heap) (r h : Nat) (hwf : hp.WF) (hrh : r ≠ h)
    (hok : (step hp (.toMutable r h)).2 = .ok) (op : Op) (hrec : receiver op = some r)
    (c : Nat) (cell : Cell) (hc : hp.cid h = some c) (hcell : hp.cells[c]? = some cell) :
    (step (step hp (.toMutable r h)).1 op).1.cells[c]? = some cell :=
  Sm.Own.copy_disjoint' hp r h hwf hrh hok op hrec c cell hc hcell

/-- the only ways to obtain a second handle on an EXISTING cell: the cell is frozen
    (`to_frozen`/`copy`/`downsample` of a frozen object), or `flatten` of a flat sketch
    (which returns the object itself — for a mutable flat sketch this is a genuine alias) -/
theorem alias_only_frozen_or_flatten (hp : Heap) (op : Op) (r c : Nat) (hwf : hp.WF)
    (hnew : (step hp op).1.cid r = some c) (hold : hp.cid r ≠ some c) (hlt : c < hp.cells.length) :
    (∃ cell, hp.cells[c]? = some cell ∧ cell.frozen = true) ∨ (∃ h, op = .flatten r h) :=
  Sm.Own.alias_only_frozen_or_flatten' hp op r c hwf hnew hold hlt

/-! non-vacuity -/
example :
    let hp0 := (step Heap.empty (.new 0 0 1 true)).1
    let hp1 := (step hp0 (.addAb 0 5 3)).1
    let hp2 := (step hp1 (.toFrozen 1 0)).1
    (step hp2 (.add 1 7)).2 = .err "TypeError" ∧ (step hp2 (.add 1 7)).1.cells.length = 2 := by
  decide

end Sm.C15
