/-
C05 — similarity and containment values equal their definitions on the retained hashes.

Statements only (helper lemmas: `SmVerif/Lemmas/CompareLemmas.lean`; the model:
`SmVerif/Model/Compare.lean`).  Everything is stated on sketches satisfying the
representation invariant `Inv` (C01 proves it for every reachable sketch).

Textbook quantities on the retained hashes (`a.mins`, strictly ascending):
  `common a b = |A ∩ B|`  as  `(a.mins.filter (· ∈ b.mins)).length`
  `union  a b = |A ∪ B|`  as  `|A| + |B| - |A ∩ B|`
(`common_eq_card`, `union_eq_card` restate both as `Finset.card`).

* tie: `translator_tie` (the compared fields of `check_compatible` and the floor of the Jaccard
  denominator are re-read from the source on every run)
* integers: `isize_eq`, `isize_eq_intersection_length`, `count_common_eq`,
  `count_common_swap_independent`, `count_common_symm`, `count_common_downsample`, `iu_eq`
* Jaccard (exact ratio in ℚ and the double the code returns): `jaccard_def`, `jaccard_float`,
  `jaccard_range` (every sketch kind), `jaccard_self`, `jaccard_self_empty` (the code answers 0 for
  two empty sketches), `jaccard_disjoint`, `jaccard_symm`, `num_isize_def`, `num_jaccard_def`
* abundance-weighted: `dot_eq`, `dot_eq_no_overflow`, `dot_comm`, `angular_parts_symm`,
  `angular_self_parts`, `angular_disjoint_parts`, `similarity_dispatch_jaccard`, `similarity_dispatch_angular`
* containment (`contained_by` / `max_containment` / `avg_containment` as of /repo 0bf3075):
  `containment_raw_def`, `containment_raw_range`, `containment_self`, `containment_disjoint`,
  `containment_empty`, `containment_def`, `avg_containment_def`, `containment_num_refused`,
  `max_containment_raw_def`; over ℚ: `bias_in_unit`,
  `debias_ge_raw`, `clamped_le_one`, `value_ge_raw`; `max_containment_symm`, `avg_containment_symm`,
  `avgF_comm`; with the downsample flag: `containment_downsample` (numerator, denominator and bias
  scaled all from the pair downsampled to the common scaled; symmetric max containment),
  `containment_downsample_example`
* refusal: `compatible_iff`, `incompatible_refused`, `incompatible_refused_downsample`,
  `num_vs_scaled_refused`, `incompatible_refused_containment` (also with an empty operand;
  `avg_containment` raises in its first `contained_by` call), `incompatible_refused_containment_downsample`,
  `empty_containment_refused_example`
* comparison dataclasses: `frac_comparison_sound`, `num_comparison_sound`,
  `comparison_incompatible_refused`, `comparison_num_vs_scaled_refused`
* the doubles themselves (exact binary64 model; sketch sizes < 2^53): `common_eq_union_iff`, `jaccard_f64`
  (range, `= 1.0` iff equal non-empty hash sets, `= 0.0` iff disjoint), `ratio_f64_mono`,
  `containment_f64_unbiased` (`= 1.0` iff `A ⊆ B`), `containment_f64_value` (the clamp logic around the
  libm-dependent bias factor, a PARAMETER with `BiasLaws`: range, never below `fl(c/d)`, `1.0` for full
  containment, `0.0` iff disjoint, monotone, `bias = 1.0` ⇒ plain quotient), `avg_containment_f64_range`
* angular similarity as a double, everything but `acos` (a PARAMETER with `AcosLaws`): `angular_cos_arg_le_one`
  (the clamp: `acos` never sees an argument above 1, no NaN), `angular_f64_range`, `angular_f64_disjoint`,
  `angular_f64_self`, `angular_self_not_one_example` (finding `C05:angular-self-not-1` at model level),
  `cos_unclamped_exceeds_one_example`
* downsample flag = explicit downsampling: `similarity_downsample_explicit` (every scaled pair ≤ 2^31, both
  orders, `count_common` too), `downsample_flag_noop`, `num_comparison_explicit`, `containment_downsample`
* `u64` overflow (finding `C05:angular-u64-overflow`): `overflow_example`, `overflow_orthogonal_example`
* recorded behaviour outside the statement: `num_mismatch_answered_example`

History: two findings of this property were repaired in /repo 0bf3075 and their former
counterexamples are now regression examples proved from the model of the repaired code
(`empty_containment_refused_example`, `containment_downsample_example`).

Where the code still violates the statement (two known findings):
* `C05:angular-self-not-1`: `angular_self_parts` proves that the integers fed to the float tail are
  `(Σa², Σa², Σa²)`, i.e. the cosine is exactly 1; `angular_self_not_one_example` proves, with every IEEE
  operation of the tail modelled exactly, that for abundances (1, 1) the argument handed to `acos` is
  `1 - 2^-52` (`fl(√2)·fl(√2) > 2`), which `acos` turns into a similarity of `1 - 1.3e-8`
  (the candidate patch was rejected: it changes the last ulp of other similarities).
* `C05:angular-u64-overflow`: the `u64` accumulators of `angular_similarity` wrap (`overflow_example`:
  similarity 0.0 of a sketch with itself at abundance 2^32; `overflow_orthogonal_example`: 1.0 for two
  almost orthogonal sketches).  Candidate patch: `patches/C05-angular-u64-overflow.diff`.

NOT proved: the two libm calls `acos` and `**` (`pow`).  They are parameters of the model
(`Cmp.angularValue`, `PyCmp.Cont.value`) with the stated laws `AcosLaws` / `BiasLaws`
(Lemmas/CompareFloat.lean); the check compares the values that depend on them with relative tolerance 1e-12.
-/
import SmVerif.Lemmas.CompareLemmas
import SmVerif.Lemmas.CompareFloat
import SmVerif.Lemmas.CompareDownsample
import Mathlib.Tactic.Linarith
import Mathlib.Tactic.Positivity
import Mathlib.Data.Finset.Card

namespace Sm.C05

open Sm MH Cmp PyCmp

/-! ### tie to the source: what the translator re-read on this run -/

/-- `check_compatible` still compares exactly k-mer size, hash function, max_hash and seed, in this
    order (`MH.checkCompatible` transcribes that), and `jaccard` still floors the union size at 1
    (`Cmp.jaccardParts` uses the regenerated constant) -/
theorem translator_tie :
    Gen.cmpCompatFields = [("ksize", "MismatchKSizes"), ("hash_function", "MismatchDNAProt"),
                           ("max_hash", "MismatchScaled"), ("seed", "MismatchSeed")] ∧
    Gen.cmpJaccardFloor = 1 := by decide

/-! ### the textbook quantities -/

/-- `|A ∩ B|` on the retained hashes -/
def common (a b : MH) : Nat := (a.mins.filter (fun h => decide (h ∈ b.mins))).length

/-- `|A ∪ B|` on the retained hashes -/
def union (a b : MH) : Nat := a.mins.length + b.mins.length - common a b

theorem common_eq_interL {a b : MH} (ha : Inv a) (hb : Inv b) :
    common a b = (interL a.mins b.mins).length := by
  unfold common; rw [interL_eq_filter _ _ ha.sorted hb.sorted]

theorem common_eq_card {a b : MH} (ha : Inv a) :
    common a b = (a.mins.toFinset ∩ b.mins.toFinset).card := by
  have hl : a.mins.Nodup := ha.sorted.imp (fun h => Nat.ne_of_lt h)
  unfold common
  rw [← List.toFinset_card_of_nodup (hl.filter _)]
  congr 1
  ext x
  simp

theorem common_le_left (a b : MH) : common a b ≤ a.mins.length := List.length_filter_le _ _

theorem common_symm {a b : MH} (ha : Inv a) (hb : Inv b) : common a b = common b a := by
  rw [common_eq_interL ha hb, common_eq_interL hb ha, interL_comm ha.sorted hb.sorted]

theorem common_le_right {a b : MH} (ha : Inv a) (hb : Inv b) : common a b ≤ b.mins.length := by
  rw [common_symm ha hb]; exact common_le_left b a

theorem union_symm {a b : MH} (ha : Inv a) (hb : Inv b) : union a b = union b a := by
  unfold union; rw [common_symm ha hb]; omega

theorem union_eq_card {a b : MH} (ha : Inv a) (hb : Inv b) :
    union a b = (a.mins.toFinset ∪ b.mins.toFinset).card := by
  have hl : a.mins.Nodup := ha.sorted.imp (fun h => Nat.ne_of_lt h)
  have hm : b.mins.Nodup := hb.sorted.imp (fun h => Nat.ne_of_lt h)
  have h := Finset.card_union_add_card_inter a.mins.toFinset b.mins.toFinset
  rw [List.toFinset_card_of_nodup hl, List.toFinset_card_of_nodup hm, ← common_eq_card ha] at h
  unfold union
  omega

theorem common_le_union {a b : MH} (ha : Inv a) (hb : Inv b) : common a b ≤ union a b := by
  have h1 := common_le_left a b
  have h2 := common_le_right ha hb
  unfold union; omega

theorem common_self (a : MH) : common a a = a.mins.length := by
  unfold common
  rw [List.filter_eq_self.2]
  intro x hx; simpa using hx

theorem union_self (a : MH) : union a a = a.mins.length := by
  unfold union; rw [common_self]; omega

theorem common_disjoint {a b : MH} (h : ∀ x ∈ a.mins, x ∉ b.mins) : common a b = 0 := by
  unfold common
  rw [List.filter_eq_nil_iff.2]
  · rfl
  · intro x hx; simpa using h x hx

/-! ### intersection and union sizes, number of common hashes -/

/-- `intersection_size` of two compatible scaled sketches is `(|A ∩ B|, |A ∪ B|)` -/
theorem isize_eq {a b : MH} (ha : Inv a) (hb : Inv b) (hc : Compatible a b) (hn : a.num = 0) :
    Cmp.intersectionSize a b = .ok (common a b, union a b) := by
  unfold Cmp.intersectionSize
  rw [hc]
  simp only [bind, Except.bind, pure, Except.pure, hn, ne_eq, not_true_eq_false, if_false]
  rw [isizeL_eq, Nat.zero_add, Nat.zero_add]
  unfold union
  rw [common_eq_interL ha hb]

/-- the counting loop and the vector-building `intersection` agree (both num and scaled) -/
theorem isize_eq_intersection_length (a b : MH) :
    Cmp.intersectionSize a b = MH.intersectionSize a b := intersectionSize_eq_model a b

/-- `count_common` without the downsample flag is `|A ∩ B|` -/
theorem count_common_eq {a b : MH} (ha : Inv a) (hb : Inv b) (hc : Compatible a b) :
    Cmp.countCommon a b false = .ok (common a b) := by
  unfold Cmp.countCommon
  simp only [Bool.false_eq_true, false_and, if_false]
  exact countCommonNoDs_ok ha.sorted hb.sorted hc

/-- which vector `count_common` puts on the left (the shorter one) does not matter:
    the code equals the swap-free model, with and without the downsample flag -/
theorem count_common_swap_independent {a b : MH} (ha : Inv a) (hb : Inv b)
    (hxa : Excl a) (hxb : Excl b) (ds : Bool) :
    Cmp.countCommon a b ds = MH.countCommon a b ds :=
  countCommon_eq_model ha hb hxa hxb ds

theorem count_common_symm {a b : MH} (ha : Inv a) (hb : Inv b) (hc : Compatible a b) :
    Cmp.countCommon a b false = Cmp.countCommon b a false := by
  rw [count_common_eq ha hb hc, count_common_eq hb ha hc.symm, common_symm ha hb]

/-- with the downsample flag and different scaled values the count is taken between the
    coarser sketch and the downsampled copy of the finer one (what that copy holds is C03's subject) -/
theorem count_common_downsample {a b d : MH} (ha : Inv a) (hb : Inv b) (hxb : Excl b)
    (hne : a.scaled ≠ b.scaled) (hgt : a.scaled > b.scaled)
    (hd : (b.clone.2).downsampleScaled a.scaled = .ok d) (hc : Compatible a d) :
    Cmp.countCommon a b true = .ok (common a d) ∧ Cmp.countCommon b a true = .ok (common a d) := by
  have hdi := inv_clone_downsample hb hxb hd
  have hlt : ¬ b.scaled > a.scaled := by omega
  constructor
  · unfold Cmp.countCommon
    simp only [true_and, ne_eq, hne, not_false_eq_true, if_true, hgt, hd, bind, Except.bind]
    exact countCommonNoDs_ok ha.sorted hdi.sorted hc
  · unfold Cmp.countCommon
    simp only [true_and, ne_eq, hne.symm, not_false_eq_true, if_true, hlt, if_false, hd, bind, Except.bind]
    exact countCommonNoDs_ok ha.sorted hdi.sorted hc

/-- Python `intersection_and_union_size` -/
theorem iu_eq {a b : MH} (ha : Inv a) (hb : Inv b) (hc : Compatible a b) (hn : a.num = 0) :
    intersectionAndUnionSize a b = .ok (common a b, union a b) := by
  unfold intersectionAndUnionSize ffiIntersectionUnionSize
  rw [(isCompatible_iff a b).2 hc, isize_eq ha hb hc hn]
  rfl


/-! ### Jaccard similarity -/

/-- the exact value of the ratio the code returns -/
def ratioQ (p : Nat × Nat) : ℚ := (p.1 : ℚ) / (p.2 : ℚ)

/-- `jaccard` of two compatible scaled sketches is `|A ∩ B| / max(1, |A ∪ B|)` -/
theorem jaccard_def {a b : MH} (ha : Inv a) (hb : Inv b) (hc : Compatible a b) (hn : a.num = 0) :
    jaccardParts a b = .ok (common a b, max 1 (union a b)) := by
  unfold jaccardParts
  rw [hc, isize_eq ha hb hc hn]
  rfl

/-- … and the double returned is the correctly rounded quotient of the two counts
    (`common as f64 / max(1, size) as f64` in the exact binary64 model) -/
theorem jaccard_float {a b : MH} (ha : Inv a) (hb : Inv b) (hc : Compatible a b) (hn : a.num = 0) :
    Cmp.jaccard a b = .ok (F64.div (F64.ofNat (common a b)) (F64.ofNat (max 1 (union a b)))) := by
  unfold Cmp.jaccard
  rw [jaccard_def ha hb hc hn]
  rfl

/-- every answer of `intersection_size` (num or scaled) has `common ≤ size` -/
theorem isize_common_le_size {a b : MH} {c u : Nat} (h : Cmp.intersectionSize a b = .ok (c, u)) :
    c ≤ u := by
  unfold Cmp.intersectionSize at h
  rcases checkCompatible_cases a b with ⟨e, he⟩ | ⟨hok, _⟩
  · rw [he] at h; cases h
  · rw [hok] at h
    simp only [bind, Except.bind, pure, Except.pure] at h
    split at h
    · cases h1 : (MH.new a.scaled a.ksize a.hf a.seed a.abunds.isSome a.num).merge a with
      | error e => rw [h1] at h; cases h
      | ok c1 =>
        rw [h1] at h
        simp only [] at h
        cases h2 : c1.merge b with
        | error e => rw [h2] at h; cases h
        | ok c2 =>
          rw [h2] at h
          simp only [Except.ok.injEq, Prod.mk.injEq] at h
          rw [← h.1, ← h.2]
          exact interL_length_le_right _ _
    · rw [isizeL_eq] at h
      simp only [Except.ok.injEq, Prod.mk.injEq, Nat.zero_add] at h
      have h1 := interL_length_le_left a.mins b.mins
      have h2 := interL_length_le_right a.mins b.mins
      omega

/-- Jaccard lies in [0, 1] — every sketch kind, every answer -/
theorem jaccard_range {a b : MH} {p : Nat × Nat} (h : jaccardParts a b = .ok p) :
    0 ≤ ratioQ p ∧ ratioQ p ≤ 1 := by
  have hp : p.1 ≤ p.2 ∧ 1 ≤ p.2 := by
    unfold jaccardParts at h
    rcases checkCompatible_cases a b with ⟨e, he⟩ | ⟨hok, _⟩
    · rw [he] at h; cases h
    · rw [hok] at h
      simp only [bind, Except.bind, pure, Except.pure] at h
      cases hi : Cmp.intersectionSize a b with
      | error e => rw [hi] at h; cases h; simp
      | ok cu =>
        obtain ⟨c, u⟩ := cu
        rw [hi] at h
        cases h
        have := isize_common_le_size hi
        have hf : Gen.cmpJaccardFloor = 1 := rfl
        simp only [hf]
        omega
  unfold ratioQ
  have hu' : (0 : ℚ) < (p.2 : ℚ) := by exact_mod_cast hp.2
  constructor
  · positivity
  · rw [div_le_one hu']; exact_mod_cast hp.1

/-- a non-empty sketch against itself: 1 -/
theorem jaccard_self {a : MH} (ha : Inv a) (hn : a.num = 0) (hne : a.mins ≠ []) :
    ∃ p, jaccardParts a a = .ok p ∧ ratioQ p = 1 := by
  refine ⟨_, jaccard_def ha ha (Compatible.refl a) hn, ?_⟩
  have hl : 1 ≤ a.mins.length := by
    cases h : a.mins with
    | nil => exact absurd h hne
    | cons x xs => simp
  unfold ratioQ
  simp only [common_self, union_self, Nat.max_eq_right hl]
  have : (0 : ℚ) < (a.mins.length : ℚ) := by exact_mod_cast hl
  exact div_self (ne_of_gt this)

/-- what the code gives for an empty sketch against itself: 0/1 = 0 (the textbook value is 0/0) -/
theorem jaccard_self_empty {a : MH} (ha : Inv a) (hn : a.num = 0) (he : a.mins = []) :
    jaccardParts a a = .ok (0, 1) ∧ Cmp.jaccard a a = .ok F64.zero := by
  have h := jaccard_def ha ha (Compatible.refl a) hn
  have h0 : common a a = 0 := by rw [common_self, he]; rfl
  have h1 : union a a = 0 := by rw [union_self, he]; rfl
  rw [h0, h1] at h
  refine ⟨h, ?_⟩
  unfold Cmp.jaccard
  rw [h]
  decide

/-- disjoint sketches: 0 -/
theorem jaccard_disjoint {a b : MH} (ha : Inv a) (hb : Inv b) (hc : Compatible a b) (hn : a.num = 0)
    (hd : ∀ x ∈ a.mins, x ∉ b.mins) :
    ∃ p, jaccardParts a b = .ok p ∧ ratioQ p = 0 ∧ Cmp.jaccard a b = .ok F64.zero := by
  have h := jaccard_def ha hb hc hn
  rw [common_disjoint hd] at h
  refine ⟨_, h, ?_, ?_⟩
  · simp [ratioQ]
  · unfold Cmp.jaccard
    rw [h]
    simp only [bind, Except.bind, pure, Except.pure, ratioF, Except.ok.injEq]
    have : F64.ofNat 0 = ⟨0, 0⟩ := by decide
    rw [this]
    simp [F64.div, F64.divNat, F64.zero]

/-- symmetric -/
theorem jaccard_symm {a b : MH} (ha : Inv a) (hb : Inv b) (hc : Compatible a b)
    (hna : a.num = 0) (hnb : b.num = 0) :
    jaccardParts a b = jaccardParts b a ∧ Cmp.jaccard a b = Cmp.jaccard b a := by
  have h : jaccardParts a b = jaccardParts b a := by
    rw [jaccard_def ha hb hc hna, jaccard_def hb ha hc.symm hnb, common_symm ha hb, union_symm ha hb]
  exact ⟨h, by unfold Cmp.jaccard; rw [h]⟩


/-! ### num sketches: the documented restriction to the bottom-n of the union -/

/-- for two compatible num sketches (`num = n`), `intersection_size` is
    `(|A ∩ B ∩ U|, |U|)` where `U` is the `n` smallest hashes of `A ∪ B` -/
theorem num_isize_def {a b : MH} (ha : Inv a) (hb : Inv b) (hc : Compatible a b)
    (hn : a.num ≠ 0) (hM : a.maxHash = 0) :
    ∃ u : List Nat, Sorted u ∧ (∀ h, h ∈ u ↔ h ∈ a.mins ∨ h ∈ b.mins) ∧
      Cmp.intersectionSize a b =
        .ok (((a.mins.filter (fun h => decide (h ∈ b.mins))).filter
                (fun h => decide (h ∈ u.take a.num))).length,
             (u.take a.num).length) := by
  obtain ⟨hk, hh, hs, hm⟩ := (compatible_iff a b).1 hc
  have hsc : a.scaled = 0 := by unfold MH.scaled; rw [hM]; exact scR_zero
  -- both merges succeed
  have hc0 : (MH.new a.scaled a.ksize a.hf a.seed a.abunds.isSome a.num).maxHash = a.maxHash := by
    show mhR a.scaled = a.maxHash
    rw [hsc, hM]; exact mhR_zero
  obtain ⟨c1, h1⟩ := merge_eq_ok_of (s := MH.new a.scaled a.ksize a.hf a.seed a.abunds.isSome a.num)
    (o := a) rfl rfl hc0 rfl
  have f1 := merge_frame h1
  obtain ⟨c2, h2⟩ := merge_eq_ok_of (s := c1) (o := b) (f1.2.2.1.trans hk) (f1.2.2.2.2.1.trans hh)
    ((f1.2.1.trans hc0).trans hm) (f1.2.2.2.1.trans hs)
  obtain ⟨u, hu, hmem, hc2⟩ := num_combined ha hb hn h1 h2
  refine ⟨u, hu, hmem, ?_⟩
  unfold Cmp.intersectionSize
  rw [hc]
  simp only [bind, Except.bind, pure, Except.pure, ne_eq, hn, not_false_eq_true, if_true, h1, h2]
  have hi : Sorted (interL a.mins b.mins) := ha.sorted.sublist (interL_sublist a.mins b.mins)
  have hu' : Sorted (u.take a.num) := hu.take _
  rw [hc2, interL_eq_filter _ _ hi hu', interL_eq_filter _ _ ha.sorted hb.sorted]

/-- Jaccard of two compatible num sketches: `|A ∩ B ∩ U| / max(1, |U|)` -/
theorem num_jaccard_def {a b : MH} (ha : Inv a) (hb : Inv b) (hc : Compatible a b)
    (hn : a.num ≠ 0) (hM : a.maxHash = 0) :
    ∃ u : List Nat, Sorted u ∧ (∀ h, h ∈ u ↔ h ∈ a.mins ∨ h ∈ b.mins) ∧
      jaccardParts a b =
        .ok (((a.mins.filter (fun h => decide (h ∈ b.mins))).filter
                (fun h => decide (h ∈ u.take a.num))).length,
             max 1 (u.take a.num).length) := by
  obtain ⟨u, hu, hmem, hi⟩ := num_isize_def ha hb hc hn hM
  refine ⟨u, hu, hmem, ?_⟩
  unfold jaccardParts
  rw [hc, hi]
  rfl


/-! ### abundance-weighted (angular) similarity: the integers under the `sqrt`/`acos` tail -/

/-- textbook dot product `Σ_{h ∈ A} a_h · b_h` (`b_h = 0` outside `B`, so this is the sum over `A ∩ B`) -/
def dot (a b : MH) : Nat := (a.mins.map (fun h => count a h * count b h)).sum

/-- `Σ_{h ∈ A} a_h²` -/
def normSq (a : MH) : Nat := (a.mins.map (fun h => count a h * count a h)).sum

theorem dot_comm {a b : MH} (ha : Inv a) (hb : Inv b) : dot a b = dot b a := by
  have hka : Sorted (a.pairs.map Prod.fst) := by rw [pairs_keys ha.toW]; exact ha.sorted
  have hkb : Sorted (b.pairs.map Prod.fst) := by rw [pairs_keys hb.toW]; exact hb.sorted
  have h1 := dotSpec_eq_sum_keys (ys := b.pairs) hka
  have h2 := dotSpec_eq_sum_keys (ys := a.pairs) hkb
  rw [pairs_keys ha.toW] at h1
  rw [pairs_keys hb.toW] at h2
  unfold dot
  simp only [count_eq_cnt]
  rw [← h1, ← h2]
  exact dotSpec_comm _ _ hka hkb

/-- the merge loop of `angular_similarity` computes `Σ_{h ∈ A ∩ B} a_h b_h`, and the two
    norms are `Σ a_h²`, `Σ b_h²` (all three as the wrapped `u64` values of the release build) -/
theorem dot_eq {a b : MH} (ha : Inv a) (hb : Inv b) (hc : Compatible a b)
    (hta : a.trackAbundance = true) (htb : b.trackAbundance = true) :
    angularParts a b = .ok (dot a b % W64, normSq a % W64, normSq b % W64) := by
  unfold MH.trackAbundance at hta htb
  obtain ⟨ab, hab⟩ := Option.isSome_iff_exists.1 hta
  obtain ⟨ob, hob⟩ := Option.isSome_iff_exists.1 htb
  have hpa := pairs_some hab
  have hpb := pairs_some hob
  have hka : Sorted (a.pairs.map Prod.fst) := by rw [pairs_keys ha.toW]; exact ha.sorted
  have hkb : Sorted (b.pairs.map Prod.fst) := by rw [pairs_keys hb.toW]; exact hb.sorted
  unfold angularParts
  rw [hc]
  simp only [bind, Except.bind, pure, Except.pure, hab, hob]
  rw [← hpa, ← hpb, dotL_eq _ _ hka hkb, Nat.zero_add]
  have e1 : dotSpec a.pairs b.pairs = dot a b := by
    rw [dotSpec_eq_sum_keys hka, pairs_keys ha.toW]; rfl
  have sq : ∀ {s : MH} {l : List Nat}, Inv s → s.abunds = some l → sumSq l = normSq s := by
    intro s l hs hl
    have hk : Sorted (s.pairs.map Prod.fst) := by rw [pairs_keys hs.toW]; exact hs.sorted
    rw [sumSq_eq_pairs (hs.aligned l hl), ← pairs_some hl]
    unfold normSq
    rw [← pairs_keys hs.toW, List.map_map]
    congr 1
    apply List.map_congr_left
    intro q hq
    simp only [Function.comp, count_eq_cnt]
    rw [cnt_of_mem hk q hq]
  rw [e1, sq ha hab, sq hb hob]

/-- without overflow the three integers are the textbook sums themselves -/
theorem dot_eq_no_overflow {a b : MH} (ha : Inv a) (hb : Inv b) (hc : Compatible a b)
    (hta : a.trackAbundance = true) (htb : b.trackAbundance = true)
    (h1 : dot a b < W64) (h2 : normSq a < W64) (h3 : normSq b < W64) :
    angularParts a b = .ok (dot a b, normSq a, normSq b) := by
  rw [dot_eq ha hb hc hta htb, Nat.mod_eq_of_lt h1, Nat.mod_eq_of_lt h2, Nat.mod_eq_of_lt h3]

/-- the integers are symmetric in the operands (so the value is, `norm_a * norm_b` being commutative) -/
theorem angular_parts_symm {a b : MH} (ha : Inv a) (hb : Inv b) (hc : Compatible a b)
    (hta : a.trackAbundance = true) (htb : b.trackAbundance = true) :
    ∃ p x y, angularParts a b = .ok (p, x, y) ∧ angularParts b a = .ok (p, y, x) := by
  refine ⟨_, _, _, dot_eq ha hb hc hta htb, ?_⟩
  rw [dot_eq hb ha hc.symm htb hta, dot_comm hb ha]

/-- a sketch against itself: dot product and both norms are the same integer, i.e. the cosine the
    float tail is applied to is exactly 1.  (The tail `prod / (sqrt(a_sq) * sqrt(b_sq))`, `acos`
    is tier 2; its rounding makes the reported value 1 - 1.3e-8 for e.g. abundances (1, 1):
    finding `C05:angular-self-not-1`, see the check's oracle.) -/
theorem angular_self_parts {a : MH} (ha : Inv a) (hta : a.trackAbundance = true) :
    angularParts a a = .ok (normSq a % W64, normSq a % W64, normSq a % W64) := by
  rw [dot_eq ha ha (Compatible.refl a) hta hta]
  rfl

/-- no common hash: the dot product is 0 (and the code's tail maps 0 to `1 - 2·acos(0)/π = 0`) -/
theorem angular_disjoint_parts {a b : MH} (hb : Inv b) (hd : ∀ x ∈ a.mins, x ∉ b.mins) :
    dot a b = 0 := by
  unfold dot
  apply List.sum_eq_zero
  intro n hn
  obtain ⟨h, hh, rfl⟩ := List.mem_map.1 hn
  have : count b h = 0 := by
    have := (mem_iff_count_pos' hb h).not.1 (hd h hh)
    omega
  rw [this, Nat.mul_zero]

/-! ### `similarity`: which measure is reported -/

theorem similarity_dispatch_jaccard {a b : MH} {ia : Bool}
    (h : ia = true ∨ a.trackAbundance = false ∨ b.trackAbundance = false) :
    Cmp.similarity a b ia false = (jaccardParts a b).map (fun p => SimVal.jac p.1 p.2) := by
  have hcond : ia = true ∨ a.abunds.isNone = true ∨ b.abunds.isNone = true := by
    unfold MH.trackAbundance at h
    rcases h with h | h | h
    · exact Or.inl h
    · right; left; cases hh : a.abunds <;> simp_all
    · right; right; cases hh : b.abunds <;> simp_all
  unfold Cmp.similarity similarityNoDs
  simp only [Bool.false_eq_true, false_and, if_false, hcond, if_true]
  cases jaccardParts a b <;> rfl

theorem similarity_dispatch_angular {a b : MH}
    (hta : a.trackAbundance = true) (htb : b.trackAbundance = true) :
    Cmp.similarity a b false false = (angularParts a b).map (fun t => SimVal.ang t.1 t.2.1 t.2.2) := by
  have hcond : ¬ (False ∨ a.abunds.isNone = true ∨ b.abunds.isNone = true) := by
    unfold MH.trackAbundance at hta htb
    intro h
    rcases h with h | h | h
    · exact h
    · cases hh : a.abunds <;> simp_all
    · cases hh : b.abunds <;> simp_all
  unfold Cmp.similarity similarityNoDs
  simp only [Bool.false_eq_true, false_and, if_false]
  rw [if_neg hcond]
  cases angularParts a b <;> rfl


/-! ### containment -/

/-- the raw ratio `common / |A|` (0 for the early `return 0.0`) -/
def rawQ : Cont → ℚ
  | .zero => 0
  | .ratio cc d _ => (cc : ℚ) / (d : ℚ)

theorem scaledProp_eq_of_compatible {a b : MH} (hc : Compatible a b) : Py.scaledProp a = Py.scaledProp b := by
  unfold Py.scaledProp
  rw [((compatible_iff a b).1 hc).2.2.2]

/-- `contained_by` of compatible scaled sketches: raw ratio `|A ∩ B| / |A|`, to which the bias factor
    for `(scaled, |A|)` and the clamp are applied -/
theorem containment_raw_def {a b : MH} (ha : Inv a) (hb : Inv b) (hc : Compatible a b)
    (hs : Py.scaledProp a ≠ 0) (hne : a.mins ≠ []) :
    containedBy a b false = .ok (.ratio (common a b) a.mins.length (Py.scaledProp a)) := by
  have hg : scaledGuard a b = true := by
    unfold scaledGuard
    rw [← scaledProp_eq_of_compatible hc]
    simp [hs]
  have hl : a.mins.length ≠ 0 := by
    intro h; exact hne (List.length_eq_zero_iff.1 h)
  unfold containedBy
  simp only [hg, not_true_eq_false, if_false, prepare_noDs]
  unfold containedByCore
  rw [count_common_eq ha hb hc]
  simp only [hl, if_false]

/-- an empty sketch is contained `0.0` in any COMPATIBLE sketch that passes the scaled-only guard
    (incompatible ones are refused first: `incompatible_refused_containment`) -/
theorem containment_empty {a b : MH} (ha : Inv a) (hb : Inv b) (hc : Compatible a b)
    (hg : scaledGuard a b = true) (he : a.mins = []) :
    containedBy a b false = .ok .zero := by
  unfold containedBy
  simp only [hg, not_true_eq_false, if_false, prepare_noDs]
  unfold containedByCore
  rw [count_common_eq ha hb hc]
  simp [he]

/-- both cases at once -/
theorem containment_def {a b : MH} (ha : Inv a) (hb : Inv b) (hc : Compatible a b)
    (hg : scaledGuard a b = true) :
    containedBy a b false =
      .ok (if a.mins.length = 0 then .zero else .ratio (common a b) a.mins.length (Py.scaledProp a)) := by
  unfold containedBy
  simp only [hg, not_true_eq_false, if_false, prepare_noDs]
  unfold containedByCore
  rw [count_common_eq ha hb hc]
  simp only
  split <;> rfl

/-- `avg_containment` of compatible scaled sketches: the two containments whose mean `(c1 + c2) / 2`
    is returned (an empty side contributes 0.0; two empty sketches give 0.0) -/
theorem avg_containment_def {a b : MH} (ha : Inv a) (hb : Inv b) (hc : Compatible a b)
    (hg : scaledGuard a b = true) :
    avgContainment a b false =
      .ok (if a.mins.length = 0 then .zero else .ratio (common a b) a.mins.length (Py.scaledProp a),
           if b.mins.length = 0 then .zero else .ratio (common a b) b.mins.length (Py.scaledProp b)) := by
  have hg' : scaledGuard b a = true := by
    unfold scaledGuard at hg ⊢
    simpa [and_comm] using hg
  unfold avgContainment
  simp only [hg, not_true_eq_false, if_false]
  rw [containment_def ha hb hc hg, containment_def hb ha hc.symm hg', common_symm hb ha]
  rfl

/-- num sketches are refused by the scaled-only guard -/
theorem containment_num_refused {a b : MH} (h : a.maxHash = 0 ∨ b.maxHash = 0) (ds : Bool) :
    containedBy a b ds = .error .pyType ∧ maxContainment a b ds = .error .pyType ∧
    avgContainment a b ds = .error .pyType := by
  have hg : scaledGuard a b = false := by
    unfold scaledGuard Py.scaledProp
    rcases h with h | h <;> simp [h]
  unfold containedBy maxContainment avgContainment
  simp [hg]

theorem containment_raw_range {a b : MH} (ha : Inv a) (hb : Inv b) (hc : Compatible a b)
    (hs : Py.scaledProp a ≠ 0) (hne : a.mins ≠ []) :
    ∃ c, containedBy a b false = .ok c ∧ 0 ≤ rawQ c ∧ rawQ c ≤ 1 := by
  refine ⟨_, containment_raw_def ha hb hc hs hne, ?_⟩
  have hl : 1 ≤ a.mins.length := by
    cases h : a.mins with
    | nil => exact absurd h hne
    | cons x xs => simp
  have hd : (0 : ℚ) < (a.mins.length : ℚ) := by exact_mod_cast hl
  unfold rawQ
  constructor
  · positivity
  · rw [div_le_one hd]; exact_mod_cast common_le_left a b

/-- a non-empty sketch is fully contained in itself (raw ratio 1, hence 1 after correction and clamp) -/
theorem containment_self {a : MH} (ha : Inv a) (hs : Py.scaledProp a ≠ 0) (hne : a.mins ≠ []) :
    ∃ c, containedBy a a false = .ok c ∧ rawQ c = 1 := by
  refine ⟨_, containment_raw_def ha ha (Compatible.refl a) hs hne, ?_⟩
  have hl : 1 ≤ a.mins.length := by
    cases h : a.mins with
    | nil => exact absurd h hne
    | cons x xs => simp
  have hd : (0 : ℚ) < (a.mins.length : ℚ) := by exact_mod_cast hl
  unfold rawQ
  rw [common_self]
  exact div_self (ne_of_gt hd)

theorem containment_disjoint {a b : MH} (ha : Inv a) (hb : Inv b) (hc : Compatible a b)
    (hs : Py.scaledProp a ≠ 0) (hne : a.mins ≠ []) (hd : ∀ x ∈ a.mins, x ∉ b.mins) :
    ∃ c, containedBy a b false = .ok c ∧ rawQ c = 0 := by
  refine ⟨_, containment_raw_def ha hb hc hs hne, ?_⟩
  unfold rawQ
  rw [common_disjoint hd]
  simp

/-- the documented small-sample correction `1 - (1 - 1/scaled)^(n·scaled)`; the exponent is an integer -/
def biasQ (s n : Nat) : ℚ := 1 - (1 - 1 / (s : ℚ)) ^ (n * s)

theorem bias_in_unit {s n : Nat} (hs : 1 ≤ s) (hn : 1 ≤ n) : 0 < biasQ s n ∧ biasQ s n ≤ 1 := by
  unfold biasQ
  have hs' : (1 : ℚ) ≤ s := by exact_mod_cast hs
  have h0 : 0 ≤ 1 - 1 / (s : ℚ) := by
    have : 1 / (s : ℚ) ≤ 1 := by rw [div_le_one (by linarith)]; exact hs'
    linarith
  have h1 : 1 - 1 / (s : ℚ) < 1 := by
    have : 0 < 1 / (s : ℚ) := by positivity
    linarith
  have hpos : 0 < n * s := Nat.mul_pos hn hs
  constructor
  · have := pow_lt_one₀ h0 h1 (Nat.pos_iff_ne_zero.1 hpos)
    linarith
  · have := pow_nonneg h0 (n * s)
    linarith

/-- the clamp at the end of `contained_by` / `max_containment` -/
def clampQ (x : ℚ) : ℚ := if 1 ≤ x then 1 else if x ≤ 0 then 0 else x

/-- the mathematical value `contained_by` / `max_containment` stands for -/
def valueQ : Cont → ℚ
  | .zero => 0
  | .ratio cc d s => clampQ ((cc : ℚ) / ((d : ℚ) * biasQ s d))

/-- the correction never lowers the raw ratio … -/
theorem debias_ge_raw {cc d s : Nat} (hd : 1 ≤ d) (hs : 1 ≤ s) :
    (cc : ℚ) / (d : ℚ) ≤ (cc : ℚ) / ((d : ℚ) * biasQ s d) := by
  obtain ⟨hb0, hb1⟩ := bias_in_unit hs hd
  have hd' : (0 : ℚ) < d := by exact_mod_cast hd
  apply div_le_div_of_nonneg_left (by positivity) (by positivity)
  calc (d : ℚ) * biasQ s d ≤ (d : ℚ) * 1 := by
        apply mul_le_mul_of_nonneg_left hb1 (le_of_lt hd')
    _ = d := mul_one _

/-- … and the reported value never leaves [0, 1] -/
theorem clamped_le_one (c : Cont) : 0 ≤ valueQ c ∧ valueQ c ≤ 1 := by
  cases c with
  | zero => simp [valueQ]
  | ratio cc d s =>
    simp only [valueQ, clampQ]
    by_cases h1 : 1 ≤ (cc : ℚ) / ((d : ℚ) * biasQ s d)
    · simp [h1]
    · by_cases h2 : (cc : ℚ) / ((d : ℚ) * biasQ s d) ≤ 0
      · simp [h1, h2]
      · simp only [h1, h2, if_false]
        constructor <;> linarith

/-- reported value ≥ raw ratio whenever the raw ratio is a proportion (`cc ≤ d`) -/
theorem value_ge_raw {cc d s : Nat} (hd : 1 ≤ d) (hs : 1 ≤ s) (hle : cc ≤ d) :
    rawQ (.ratio cc d s) ≤ valueQ (.ratio cc d s) := by
  have h := debias_ge_raw (cc := cc) hd hs
  have hd' : (0 : ℚ) < d := by exact_mod_cast hd
  have hr1 : (cc : ℚ) / (d : ℚ) ≤ 1 := by rw [div_le_one hd']; exact_mod_cast hle
  have hr0 : (0 : ℚ) ≤ (cc : ℚ) / (d : ℚ) := by positivity
  simp only [rawQ, valueQ, clampQ]
  by_cases h1 : 1 ≤ (cc : ℚ) / ((d : ℚ) * biasQ s d)
  · simp only [h1, if_true]; exact hr1
  · by_cases h2 : (cc : ℚ) / ((d : ℚ) * biasQ s d) ≤ 0
    · simp only [h1, h2, if_false, if_true]; linarith
    · simp only [h1, h2, if_false]; exact h

/-- `max_containment` of compatible scaled sketches: `|A ∩ B| / min(|A|, |B|)` -/
theorem max_containment_raw_def {a b : MH} (ha : Inv a) (hb : Inv b) (hc : Compatible a b)
    (hg : scaledGuard a b = true) :
    maxContainment a b false =
      .ok (if min a.mins.length b.mins.length = 0 then .zero
           else .ratio (common a b) (min a.mins.length b.mins.length) (Py.scaledProp a)) := by
  unfold maxContainment
  simp only [hg, not_true_eq_false, if_false, prepare_noDs]
  unfold maxContainmentCore
  rw [count_common_eq ha hb hc]
  simp only
  split <;> rfl

/-- max containment is symmetric -/
theorem max_containment_symm {a b : MH} (ha : Inv a) (hb : Inv b) (hc : Compatible a b) :
    maxContainment a b false = maxContainment b a false := by
  have hsp := scaledProp_eq_of_compatible hc
  have hg : scaledGuard a b = scaledGuard b a := by
    unfold scaledGuard; rw [hsp]
  unfold maxContainment
  rw [hg]
  simp only [prepare_noDs]
  unfold maxContainmentCore
  rw [Nat.min_comm a.mins.length b.mins.length, count_common_symm ha hb hc, hsp]

/-- average containment is symmetric: the two containments are swapped and the sum commutes -/
theorem avg_containment_symm {a b : MH} (ds : Bool) :
    avgContainment a b ds = (avgContainment b a ds).map Prod.swap ∨
    (∃ e e', avgContainment a b ds = .error e ∧ avgContainment b a ds = .error e') := by
  have hg : scaledGuard a b = scaledGuard b a := by
    unfold scaledGuard; simp [and_comm]
  unfold avgContainment
  rw [hg]
  cases scaledGuard b a
  · left; rfl
  · simp only [not_true_eq_false, if_false]
    cases h1 : containedBy a b ds with
    | error e =>
      cases h2 : containedBy b a ds with
      | error e' => right; exact ⟨e, e', rfl, rfl⟩
      | ok c2 => right; exact ⟨e, e, rfl, rfl⟩
    | ok c1 =>
      cases h2 : containedBy b a ds with
      | error e' => right; exact ⟨e', e', rfl, rfl⟩
      | ok c2 => left; rfl

theorem avgF_comm (x y : F64.F) : avgF x y = avgF y x := by
  have h1 : min x.e y.e = min y.e x.e := Int.min_comm _ _
  have h2 : ∀ e : Int, x.m * 2 ^ (x.e - e).toNat + y.m * 2 ^ (y.e - e).toNat =
      y.m * 2 ^ (y.e - e).toNat + x.m * 2 ^ (x.e - e).toNat := fun e => Nat.add_comm _ _
  simp only [avgF, F64.add, h1, h2]


/-! ### incompatible sketches are refused -/

/-- `check_compatible` / Python `is_compatible`: same k-mer size, molecule (hash function), seed
    and threshold (`max_hash`, i.e. the same scaled, or both num sketches) -/
theorem compatible_iff (a b : MH) :
    (isCompatible a b = true ↔ Compatible a b) ∧
    (Compatible a b ↔ a.ksize = b.ksize ∧ a.hf = b.hf ∧ a.seed = b.seed ∧ a.maxHash = b.maxHash) :=
  ⟨isCompatible_iff a b, Sm.compatible_iff a b⟩

/-- every comparison of incompatible sketches that does not go through the containment
    functions is an error (no downsample flag) -/
theorem incompatible_refused {a b : MH} (h : ¬ Compatible a b) :
    (∃ e, Cmp.countCommon a b false = .error e) ∧
    (∃ e, Cmp.intersectionSize a b = .error e) ∧
    (∃ e, Cmp.jaccard a b = .error e) ∧
    (∃ e, angularParts a b = .error e) ∧
    (∀ ia, ∃ e, Cmp.similarity a b ia false = .error e) ∧
    intersectionAndUnionSize a b = .error .pyType ∧
    (∃ e, PyCmp.jaccard a b false = .error e) ∧
    (∃ e, angularSimilarity a b = .error e) ∧
    (∃ e, sigJaccard a b = .error e) := by
  have hsim : ∀ ia, ∃ e, Cmp.similarity a b ia false = .error e := by
    intro ia
    unfold Cmp.similarity
    simp only [Bool.false_eq_true, false_and, if_false]
    exact similarityNoDs_error h ia
  refine ⟨?_, intersectionSize_error h, jaccard_error h, angularParts_error h, hsim, ?_, ?_, ?_, hsim true⟩
  · unfold Cmp.countCommon
    simp only [Bool.false_eq_true, false_and, if_false]
    exact countCommonNoDs_error h
  · unfold intersectionAndUnionSize
    have : isCompatible a b = false := by
      cases hh : isCompatible a b
      · rfl
      · exact absurd ((isCompatible_iff a b).1 hh) h
    simp [this]
  · unfold PyCmp.jaccard
    split
    · exact ⟨_, rfl⟩
    · exact hsim true
  · unfold angularSimilarity
    split
    · exact ⟨_, rfl⟩
    · obtain ⟨e, he⟩ := angularParts_error h
      exact ⟨e, by rw [he]; rfl⟩

/-- a different k-mer size, molecule or seed is refused with the downsample flag as well -/
theorem incompatible_refused_downsample {a b : MH} (h : CoreMismatch a b) (ia ds : Bool) :
    (∃ e, Cmp.countCommon a b ds = .error e) ∧
    (∃ e, Cmp.similarity a b ia ds = .error e) ∧
    (∃ e, PyCmp.jaccard a b ds = .error e) := by
  refine ⟨countCommon_coreMismatch_error h ds, similarity_coreMismatch_error h ia ds, ?_⟩
  unfold PyCmp.jaccard
  split
  · exact ⟨_, rfl⟩
  · exact similarity_coreMismatch_error h true ds

/-- a num sketch against a scaled sketch is refused, with or without the downsample flag -/
theorem num_vs_scaled_refused {a b : MH} (ha : a.maxHash = 0) (hb : b.maxHash ≠ 0) (ia ds : Bool) :
    (∃ e, Cmp.countCommon a b ds = .error e) ∧ (∃ e, Cmp.countCommon b a ds = .error e) ∧
    (∃ e, Cmp.similarity a b ia ds = .error e) ∧ (∃ e, Cmp.similarity b a ia ds = .error e) ∧
    intersectionAndUnionSize a b = .error .pyType := by
  have hnc : ¬ Compatible a b := fun hc => hb (by rw [← ((Sm.compatible_iff a b).1 hc).2.2.2]; exact ha)
  have hnc' : ¬ Compatible b a := fun hc => hnc hc.symm
  have hsa : a.scaled = 0 := by unfold MH.scaled; rw [ha]; exact scR_zero
  -- the clone of the num sketch is returned unchanged by `downsample_scaled`, threshold still 0
  have hd : ∀ sc, (a.clone.2).downsampleScaled sc = .ok a.clone.2 := by
    intro sc
    unfold MH.downsampleScaled
    have : (a.clone.2).scaled = 0 := by
      unfold MH.scaled; rw [(clone_fields a).2.2.2.1, ha]; exact scR_zero
    simp [this]
  have hncd : ¬ Compatible b a.clone.2 := by
    intro hc
    have := ((Sm.compatible_iff _ _).1 hc).2.2.2
    rw [(clone_fields a).2.2.2.1, ha] at this
    exact hb this
  have gen : ∀ {α} (f : MH → MH → Except Err α), (∀ x y, ¬ Compatible x y → ∃ e, f x y = .error e) →
      (∃ e, (if ds = true ∧ a.scaled ≠ b.scaled then
            (match (if a.scaled > b.scaled then (a, b) else (b, a)) with
             | (first, second) => do
                let d ← (second.clone.2).downsampleScaled first.scaled
                f first d)
          else f a b) = .error e) ∧
      (∃ e, (if ds = true ∧ b.scaled ≠ a.scaled then
            (match (if b.scaled > a.scaled then (b, a) else (a, b)) with
             | (first, second) => do
                let d ← (second.clone.2).downsampleScaled first.scaled
                f first d)
          else f b a) = .error e) := by
    intro α f hf
    constructor
    · split
      · have : ¬ a.scaled > b.scaled := by omega
        simp only [this, if_false, hd, bind, Except.bind]
        exact hf _ _ hncd
      · exact hf _ _ hnc
    · split
      · rename_i hcnd
        have : b.scaled > a.scaled := by omega
        simp only [this, if_true, hd, bind, Except.bind]
        exact hf _ _ hncd
      · exact hf _ _ hnc'
  obtain ⟨c1, c2⟩ := gen Cmp.countCommonNoDs (fun _ _ => countCommonNoDs_error)
  obtain ⟨s1, s2⟩ := gen (fun x y => Cmp.similarityNoDs x y ia) (fun _ _ hxy => similarityNoDs_error hxy ia)
  exact ⟨c1, c2, s1, s2, (incompatible_refused hnc).2.2.2.2.2.1⟩

/-- the containment functions refuse incompatible sketches too — also when an operand is empty
    (`count_common` is evaluated before the empty-sketch early return; this was finding
    `C05:incompatible-answered:empty-containment`, repaired in /repo 0bf3075).
    `avg_containment` calls `contained_by` in both directions; the first call already raises. -/
theorem incompatible_refused_containment {a b : MH} (h : ¬ Compatible a b) :
    (∃ e, containedBy a b false = .error e) ∧ (∃ e, maxContainment a b false = .error e) ∧
    (∃ e, avgContainment a b false = .error e) := by
  have cb : ∃ e, containedBy a b false = .error e := by
    unfold containedBy
    split
    · exact ⟨_, rfl⟩
    · simp only [prepare_noDs]; exact containedByCore_error h
  refine ⟨cb, ?_, ?_⟩
  · unfold maxContainment
    split
    · exact ⟨_, rfl⟩
    · simp only [prepare_noDs]; exact maxContainmentCore_error h
  · unfold avgContainment
    split
    · exact ⟨_, rfl⟩
    · obtain ⟨e, he⟩ := cb
      rw [he]; exact ⟨e, rfl⟩

/-- … and a different k-mer size, molecule or seed is refused with the downsample flag as well
    (the Python `downsample` keeps all three) -/
theorem incompatible_refused_containment_downsample {a b : MH} (h : CoreMismatch a b) (ds : Bool) :
    (∃ e, containedBy a b ds = .error e) ∧ (∃ e, maxContainment a b ds = .error e) ∧
    (∃ e, avgContainment a b ds = .error e) := by
  have cb : ∃ e, containedBy a b ds = .error e := by
    unfold containedBy
    split
    · exact ⟨_, rfl⟩
    · cases hp : prepare a b ds with
      | error e => exact ⟨e, rfl⟩
      | ok xy => obtain ⟨x, y⟩ := xy; exact containedByCore_error (h.prepared hp).not_compatible
  refine ⟨cb, ?_, ?_⟩
  · unfold maxContainment
    split
    · exact ⟨_, rfl⟩
    · cases hp : prepare a b ds with
      | error e => exact ⟨e, rfl⟩
      | ok xy => obtain ⟨x, y⟩ := xy; exact maxContainmentCore_error (h.prepared hp).not_compatible
  · unfold avgContainment
    split
    · exact ⟨_, rfl⟩
    · obtain ⟨e, he⟩ := cb
      rw [he]; exact ⟨e, rfl⟩

/-- regression example (the former counterexample): an empty k=21 sketch against a k=31 sketch,
    and two empty sketches that differ in k, are refused by all three functions in both orders -/
theorem empty_containment_refused_example :
    let e : MH := MH.new 1 21 1 42 false 0                       -- empty, k = 21
    let k : MH := (MH.new 1 31 1 42 false 0).addMany [5]         -- {5}, k = 31
    ¬ Compatible e k ∧ containedBy e k false = .error .mismatchK ∧ containedBy k e false = .error .mismatchK ∧
    maxContainment e k false = .error .mismatchK ∧ maxContainment k e false = .error .mismatchK ∧
    avgContainment e k false = .error .mismatchK ∧ avgContainment e k.clear false = .error .mismatchK ∧
    -- compatible and empty: 0.0
    avgContainment e e.clear false = .ok (.zero, .zero) := by
  unfold Compatible
  decide +kernel

/-! ### containment with the downsample flag -/

/-- with the downsample flag and different scaled values, containment is the containment of the two
    sketches brought to the common (coarser) scaled by Python `downsample`: numerator, denominator
    and the scaled of the bias factor all come from the downsampled pair `(x, y)`; the pair satisfies
    the invariant and is compatible as soon as the operands agree in k-mer size, molecule and seed;
    max containment is symmetric under the flag too.  (This was finding
    `C05:containment-downsample-flag-keeps-undownsampled-size`, repaired in /repo 0bf3075.) -/
theorem containment_downsample {a b x y : MH} (hg : scaledGuard a b = true)
    (hne : Py.scaledProp a ≠ Py.scaledProp b) (hm : ¬ CoreMismatch a b)
    (hp : prepare a b true = .ok (x, y)) :
    Inv x ∧ Inv y ∧ Compatible x y ∧
    prepare b a true = .ok (y, x) ∧
    containedBy a b true =
      .ok (if x.mins.length = 0 then .zero else .ratio (common x y) x.mins.length (Py.scaledProp x)) ∧
    containedBy b a true =
      .ok (if y.mins.length = 0 then .zero else .ratio (common x y) y.mins.length (Py.scaledProp y)) ∧
    maxContainment a b true =
      .ok (if min x.mins.length y.mins.length = 0 then .zero
           else .ratio (common x y) (min x.mins.length y.mins.length) (Py.scaledProp x)) ∧
    maxContainment b a true = maxContainment a b true := by
  obtain ⟨hx, hy, ix, iy, hmh, fx, fy⟩ := prepare_ds_ok hne hp
  have hc : Compatible x y := by
    rw [Sm.compatible_iff]
    refine ⟨?_, ?_, ?_, hmh⟩
    · rw [fx.1, fy.1]; exact Classical.not_not.1 (fun hk => hm (Or.inl hk))
    · rw [fx.2.1, fy.2.1]; exact Classical.not_not.1 (fun hk => hm (Or.inr (Or.inl hk)))
    · rw [fx.2.2, fy.2.2]; exact Classical.not_not.1 (fun hk => hm (Or.inr (Or.inr hk)))
  have hp' : prepare b a true = .ok (y, x) := by
    unfold prepare
    simp only [true_and, ne_eq, hne.symm, not_false_eq_true, if_true]
    rw [Nat.max_comm (Py.scaledProp b) (Py.scaledProp a), hy, hx]
  have hg' : scaledGuard b a = true := by
    unfold scaledGuard at hg ⊢
    simpa [and_comm] using hg
  have hsp := scaledProp_eq_of_compatible hc
  have e1 : containedBy a b true =
      .ok (if x.mins.length = 0 then .zero else .ratio (common x y) x.mins.length (Py.scaledProp x)) := by
    unfold containedBy
    simp only [hg, not_true_eq_false, if_false, hp]
    unfold containedByCore
    rw [count_common_eq ix iy hc]
    simp only
    split <;> rfl
  have e2 : containedBy b a true =
      .ok (if y.mins.length = 0 then .zero else .ratio (common x y) y.mins.length (Py.scaledProp y)) := by
    unfold containedBy
    simp only [hg', not_true_eq_false, if_false, hp']
    unfold containedByCore
    rw [count_common_eq iy ix hc.symm, common_symm iy ix]
    simp only
    split <;> rfl
  have e3 : maxContainment a b true =
      .ok (if min x.mins.length y.mins.length = 0 then .zero
           else .ratio (common x y) (min x.mins.length y.mins.length) (Py.scaledProp x)) := by
    unfold maxContainment
    simp only [hg, not_true_eq_false, if_false, hp]
    unfold maxContainmentCore
    rw [count_common_eq ix iy hc]
    simp only
    split <;> rfl
  refine ⟨ix, iy, hc, hp', e1, e2, e3, ?_⟩
  rw [e3]
  unfold maxContainment
  simp only [hg', not_true_eq_false, if_false, hp']
  unfold maxContainmentCore
  rw [count_common_eq iy ix hc.symm, common_symm iy ix, Nat.min_comm y.mins.length x.mins.length, hsp]
  simp only
  split <;> rfl

/-- regression example (the former counterexample): A = {1, 2^63+5} at scaled 1, B = {1} at scaled 2.
    At scaled 2 both hold {1}: containment 1/1 in both directions, max containment 1/1, bias for scaled 2 -/
theorem containment_downsample_example :
    let a : MH := (MH.new 1 21 1 42 false 0).addMany [1, 2 ^ 63 + 5]     -- scaled 1
    let b : MH := (MH.new 2 21 1 42 false 0).addMany [1]                 -- scaled 2, max_hash 2^63
    containedBy a b true = .ok (.ratio 1 1 2) ∧ containedBy b a true = .ok (.ratio 1 1 2) ∧
    maxContainment a b true = .ok (.ratio 1 1 2) ∧ maxContainment b a true = .ok (.ratio 1 1 2) ∧
    avgContainment a b true = .ok (.ratio 1 1 2, .ratio 1 1 2) ∧
    -- without the flag the different scaled values are refused
    containedBy a b false = .error .mismatchScaled ∧
    -- the hypotheses of `containment_downsample` hold for this pair
    scaledGuard a b = true ∧ Py.scaledProp a ≠ Py.scaledProp b ∧ ¬ CoreMismatch a b ∧
    (∃ x y, prepare a b true = .ok (x, y) ∧ x.mins = [1] ∧ y.mins = [1]) := by
  refine ⟨by decide +kernel, by decide +kernel, by decide +kernel, by decide +kernel, by decide +kernel,
    by decide +kernel, by decide +kernel, by decide +kernel, by unfold CoreMismatch; decide +kernel, _, _, rfl, ?_⟩
  decide +kernel

/-! ### the downsample flag against explicit downsampling -/

/-- **`similarity(downsample=True)` (and `count_common(downsample=True)`) of two scaled sketches with different
    scaled values `Sb < Sa ≤ 2^31` is `similarity` of the two sketches downsampled explicitly with Python
    `downsample(scaled=Sa)`**, in both argument orders, flat or with abundances, with or without
    `ignore_abundance`.  (The Rust-internal `downsample_scaled` of a clone and the Python `downsample` keep
    exactly the hashes `≤ max_hash(Sa)` with their counts — C03 — and the comparison code reads nothing else.)
    For `contained_by` / `max_containment` the same relation is `containment_downsample`. -/
theorem similarity_downsample_explicit {a b x y : MH} {Sa Sb : Nat}
    (ha : Inv a) (hb : Inv b) (hna : a.num = 0) (hnb : b.num = 0)
    (hMa : a.maxHash = mhR Sa) (hMb : b.maxHash = mhR Sb)
    (hb1 : 1 ≤ Sb) (hlt : Sb < Sa) (ha2 : Sa ≤ 2 ^ 31)
    (hx : Py.downsample a none (some Sa) = .ok x) (hy : Py.downsample b none (some Sa) = .ok y) (ia : Bool) :
    Cmp.similarity a b ia true = Cmp.similarity x y ia false ∧
    Cmp.similarity b a ia true = Cmp.similarity x y ia false ∧
    Cmp.countCommon a b true = Cmp.countCommon x y false ∧
    Cmp.countCommon b a true = Cmp.countCommon x y false :=
  Sm.similarity_downsample_explicit ha hb hna hnb hMa hMb hb1 hlt ha2 hx hy ia

/-- equal scaled values (in particular two num sketches, whose Rust `scaled()` is 0): the flag changes nothing -/
theorem downsample_flag_noop {a b : MH} (h : a.scaled = b.scaled) (ia : Bool) :
    Cmp.similarity a b ia true = Cmp.similarity a b ia false ∧
    Cmp.countCommon a b true = Cmp.countCommon a b false := by
  unfold Cmp.similarity Cmp.countCommon
  simp [h]

/-- num sketches are brought to a common size by `NumMinHashComparison` only, and that IS explicit
    downsampling: the pair it compares is `(mh1.downsample(num=n), mh2.downsample(num=n))` with
    `n = cmp_num` or `min(mh1.num, mh2.num)` (after `flatten()` when `ignore_abundance`) -/
theorem num_comparison_explicit {a b x y : MH} {cn : Option Nat} {c : Nat}
    (h : numNew a b cn false = .ok (c, x, y)) :
    c = cn.getD (min a.num b.num) ∧
    Py.downsample a (some c) none = .ok x ∧ Py.downsample b (some c) none = .ok y := by
  unfold numNew at h
  obtain ⟨xy, hxy, h⟩ := bind_ok h
  obtain ⟨x', y'⟩ := xy
  simp only [pure, Except.pure, Except.ok.injEq, Prod.mk.injEq] at h
  obtain ⟨hc, rfl, rfl⟩ := h
  unfold checkCompatibilityAndDownsample at hxy
  split at hxy
  · cases hxy
  · obtain ⟨pq, hd, hxy⟩ := bind_ok hxy
    obtain ⟨p, q⟩ := pq
    simp only at hxy
    split at hxy
    · cases hxy
    · simp only [pure, Except.pure, Except.ok.injEq, Prod.mk.injEq] at hxy
      obtain ⟨rfl, rfl⟩ := hxy
      unfold downsampleAndHandleIgnoreAbundance at hd
      simp only [Bool.false_eq_true, if_false] at hd
      obtain ⟨a1, ha1, hd⟩ := bind_ok hd
      obtain ⟨b1, hb1, hd⟩ := bind_ok hd
      simp only [pure, Except.pure, Except.ok.injEq] at ha1 hb1
      subst ha1 hb1
      obtain ⟨a2, ha2, hd⟩ := bind_ok hd
      obtain ⟨b2, hb2, hd⟩ := bind_ok hd
      simp only [pure, Except.pure, Except.ok.injEq, Prod.mk.injEq] at hd
      obtain ⟨rfl, rfl⟩ := hd
      rw [← hc]
      refine ⟨?_, ha2, hb2⟩
      cases cn <;> rfl

/-! ### comparison dataclasses (`FracMinHashComparison`, `NumMinHashComparison`) -/

/-- whatever the constructor accepts, the two sketches every derived quantity is computed from
    satisfy the invariant and are compatible — so `jaccard_def`, `containment_raw_def`, `dot_eq`, …
    apply to them — and the operands agreed in k-mer size, molecule and seed -/
theorem frac_comparison_sound {a b x y : MH} {cs : Option Nat} {ia : Bool} {c : Nat}
    (h : fracNew a b cs ia = .ok (c, x, y)) : Inv x ∧ Inv y ∧ Compatible x y ∧ ¬ CoreMismatch a b := by
  unfold fracNew at h
  obtain ⟨xy, hxy, h⟩ := bind_ok h
  obtain ⟨x', y'⟩ := xy
  simp only [pure, Except.pure, Except.ok.injEq, Prod.mk.injEq] at h
  obtain ⟨_, rfl, rfl⟩ := h
  exact checkCompatibilityAndDownsample_ok hxy

theorem num_comparison_sound {a b x y : MH} {cn : Option Nat} {ia : Bool} {c : Nat}
    (h : numNew a b cn ia = .ok (c, x, y)) : Inv x ∧ Inv y ∧ Compatible x y ∧ ¬ CoreMismatch a b := by
  unfold numNew at h
  obtain ⟨xy, hxy, h⟩ := bind_ok h
  obtain ⟨x', y'⟩ := xy
  simp only [pure, Except.pure, Except.ok.injEq, Prod.mk.injEq] at h
  obtain ⟨_, rfl, rfl⟩ := h
  exact checkCompatibilityAndDownsample_ok hxy

/-- the dataclasses refuse sketches that differ in k-mer size, molecule or seed -/
theorem comparison_incompatible_refused {a b : MH} (h : CoreMismatch a b) (p : Option Nat) (ia : Bool) :
    (∃ e, fracNew a b p ia = .error e) ∧ (∃ e, numNew a b p ia = .error e) := by
  constructor
  · cases hf : fracNew a b p ia with
    | error e => exact ⟨e, rfl⟩
    | ok r => obtain ⟨c, x, y⟩ := r; exact absurd h (frac_comparison_sound hf).2.2.2
  · cases hf : numNew a b p ia with
    | error e => exact ⟨e, rfl⟩
    | ok r => obtain ⟨c, x, y⟩ := r; exact absurd h (num_comparison_sound hf).2.2.2

/-- a num sketch and a scaled sketch cannot be put into either dataclass -/
theorem comparison_num_vs_scaled_refused {a b : MH} (ha : a.maxHash = 0) (hb : b.num = 0)
    (p : Option Nat) (ia : Bool) :
    fracNew a b p ia = .error .pyType ∧ numNew a b p ia = .error .pyType := by
  have hsa : Py.scaledProp a = 0 := by unfold Py.scaledProp; simp [ha]
  have hg : ¬ ((a.num ≠ 0 ∧ b.num ≠ 0) ∨ (Py.scaledProp a ≠ 0 ∧ Py.scaledProp b ≠ 0)) := by
    simp [hb, hsa]
  unfold fracNew numNew checkCompatibilityAndDownsample
  simp only [hg, not_false_eq_true, if_true]
  exact ⟨rfl, rfl⟩

/-! ### the doubles themselves (IEEE-754 binary64, exact model) -/

open F64 in
/-- equal hash sets ⇔ the intersection is as large as the union -/
theorem common_eq_union_iff {a b : MH} (ha : Inv a) (hb : Inv b) :
    common a b = union a b ↔ a.mins = b.mins := by
  constructor
  · intro h
    have h1 := common_le_left a b
    have h2 := common_le_right ha hb
    unfold union at h
    have hA : common a b = a.mins.length := by omega
    have hB : common b a = b.mins.length := by rw [← common_symm ha hb]; omega
    have sub : ∀ {x y : MH}, common x y = x.mins.length → ∀ h ∈ x.mins, h ∈ y.mins := by
      intro x y hxy
      unfold common at hxy
      have := List.length_filter_eq_length_iff.1 hxy
      intro h hh
      simpa using this h hh
    apply Sorted.ext ha.sorted hb.sorted
    intro x
    exact ⟨sub hA x, sub hB x⟩
  · intro h
    have : common a b = a.mins.length := by
      unfold common; rw [← h]
      rw [List.filter_eq_self.2]
      intro x hx; simpa using hx
    unfold union
    rw [this, h]; omega

open F64 in
/-- **Jaccard as a double**: in `[0, 1]`; exactly `1.0` iff the two sketches hold the same non-empty
    hash set; exactly `0.0` iff they share no hash — for sketches below 2^53 hashes -/
theorem jaccard_f64 {a b : MH} (ha : Inv a) (hb : Inv b) (hc : Compatible a b) (hn : a.num = 0)
    (hsz : a.mins.length + b.mins.length < 2 ^ 53) :
    ∃ v, Cmp.jaccard a b = .ok v ∧ 0 ≤ v.val ∧ v.val ≤ 1 ∧
      (v.val = 1 ↔ a.mins = b.mins ∧ a.mins ≠ []) ∧
      (v.val = 0 ↔ ∀ x ∈ a.mins, x ∉ b.mins) := by
  refine ⟨_, jaccard_float ha hb hc hn, ratio_nonneg _ _, ?_, ?_, ?_⟩
  all_goals
    have hcu := common_le_union ha hb
    have hul : union a b ≤ a.mins.length + b.mins.length := by unfold union; omega
    have hm53 : max 1 (union a b) < 2 ^ 53 := by
      have : (1 : Nat) < 2 ^ 53 := by decide
      omega
    have hmpos : 0 < max 1 (union a b) := by omega
    have hcm : common a b ≤ max 1 (union a b) := by omega
  · exact ratio_le_one hcm hmpos hm53
  · rw [ratio_eq_one_iff hcm hmpos hm53]
    constructor
    · intro h
      have h1 : 1 ≤ union a b := by
        by_contra hlt
        have hu0 : union a b = 0 := by omega
        have : common a b = 0 := by omega
        omega
      have heq : common a b = union a b := by omega
      have hmins := (common_eq_union_iff ha hb).1 heq
      refine ⟨hmins, ?_⟩
      intro hnil
      have : union a b = 0 := by unfold union common; rw [← hmins, hnil]; rfl
      omega
    · rintro ⟨hmins, hne⟩
      have heq := (common_eq_union_iff ha hb).2 hmins
      have h1 : 1 ≤ a.mins.length := by
        cases h : a.mins with
        | nil => exact absurd h hne
        | cons x xs => simp
      have hca : common a b = a.mins.length := by
        unfold common; rw [← hmins]
        rw [List.filter_eq_self.2]
        intro x hx; simpa using hx
      omega
  · rw [ratio_eq_zero_iff hmpos (by omega) hm53]
    constructor
    · intro h x hx hxb
      have : x ∈ a.mins.filter (fun h => decide (h ∈ b.mins)) := by simp [hx, hxb]
      unfold common at h
      rw [List.length_eq_zero_iff.1 h] at this
      cases this
    · exact common_disjoint

open F64 in
/-- the double is monotone in the intersection size and antitone in the union size (counts below 2^53) -/
theorem ratio_f64_mono {c c' u u' : Nat} (hcc : c ≤ c') (huu : u' ≤ u) (hu' : 0 < u')
    (hc53 : c' < 2 ^ 53) (hu53 : u < 2 ^ 53) : (ratioF (c, u)).val ≤ (ratioF (c', u')).val :=
  ratio_mono hcc huu hu' hc53 hu53

open F64 in
/-- **raw containment as a double** (`bias_factor == 1.0`, i.e. `|A| ≥ 40` or `scaled == 1`): in `[0, 1]`,
    `1.0` iff `A ⊆ B`, `0.0` iff disjoint -/
theorem containment_f64_unbiased {a b : MH} (hb : Inv b) (s : Nat)
    (hne : a.mins ≠ []) (hsz : a.mins.length < 2 ^ 53) :
    let v := (Cont.ratio (common a b) a.mins.length s).unbiased
    0 ≤ v.val ∧ v.val ≤ 1 ∧ (v.val = 1 ↔ ∀ x ∈ a.mins, x ∈ b.mins) ∧
    (v.val = 0 ↔ ∀ x ∈ a.mins, x ∉ b.mins) := by
  intro v
  have _hb := hb
  have hl : 0 < a.mins.length := by
    cases h : a.mins with
    | nil => exact absurd h hne
    | cons x xs => simp
  have hcl := common_le_left a b
  refine ⟨(clamp01_range _).1, (clamp01_range _).2, ?_, ?_⟩
  · show (clamp01 _).val = 1 ↔ _
    rw [clamp01_eq_one_iff]
    constructor
    · intro h
      have hle := ratio_le_one hcl hl hsz
      have heq := (ratio_eq_one_iff hcl hl hsz).1 (le_antisymm hle h)
      unfold common at heq
      have := List.length_filter_eq_length_iff.1 heq
      intro x hx; simpa using this x hx
    · intro h
      have : common a b = a.mins.length := by
        unfold common
        rw [List.filter_eq_self.2]
        intro x hx; simpa using h x hx
      rw [this, ratio_self hl hsz]
  · show (clamp01 _).val = 0 ↔ _
    rw [clamp01_eq_zero_iff, ← val_eq_zero_iff, ratio_eq_zero_iff hl (by omega) hsz]
    constructor
    · intro h x hx hxb
      have : x ∈ a.mins.filter (fun h => decide (h ∈ b.mins)) := by simp [hx, hxb]
      unfold common at h
      rw [List.length_eq_zero_iff.1 h] at this
      cases this
    · exact common_disjoint

/-- **the clamp logic around the bias factor** (`bias` = the libm-dependent double
    `1.0 - (1.0 - 1.0/scaled) ** float(denom*scaled)`, assumed in `(0, 1]`: `BiasLaws`).  For every containment
    result `c`: the reported double is in `[0, 1]` (no assumption needed); under `BiasLaws`, for `cc ≤ d < 2^53`
    it is never below the plain quotient `fl(cc/d)`, is exactly `1.0` when `cc = d`, is `0.0` iff `cc = 0`,
    is monotone in `cc`, and equals the clamped plain quotient when the bias factor is `1.0` -/
theorem containment_f64_value (bias : Nat → Nat → F64.F) :
    (∀ c : Cont, 0 ≤ (c.value bias).val ∧ (c.value bias).val ≤ 1) ∧
    (BiasLaws bias → ∀ cc d s : Nat, 1 ≤ s → 1 ≤ d → d < 2 ^ 53 → cc ≤ d →
      (F64.divNat cc d).val ≤ ((Cont.ratio cc d s).value bias).val ∧
      ((Cont.ratio d d s).value bias = F64.one) ∧
      (((Cont.ratio cc d s).value bias).val = 0 ↔ cc = 0) ∧
      (∀ cc', cc ≤ cc' → cc' < 2 ^ 53 →
        ((Cont.ratio cc d s).value bias).val ≤ ((Cont.ratio cc' d s).value bias).val)) ∧
    (∀ cc d s : Nat, 1 ≤ d → d < 2 ^ 53 → cc < 2 ^ 53 → bias s d = F64.one →
      ((Cont.ratio cc d s).value bias).val = ((Cont.ratio cc d s).unbiased).val) :=
  ⟨contValue_range bias,
   fun L cc d s hs hd hd53 hle =>
     ⟨contValue_ge_plain L hs hd hd53 hle, contValue_self L hs hd hd53, contValue_eq_zero_iff L hs hd hd53,
      fun cc' h1 h2 => contValue_mono L hs hd hd53 h1 h2⟩,
   fun cc d s hd hd53 hcc hb => contValue_bias_one hd hd53 hcc hb⟩

/-- `avg_containment`: the mean `(c1 + c2) / 2` of two reported containments is a double in `[0, 1]` -/
theorem avg_containment_f64_range (bias : Nat → Nat → F64.F) (c1 c2 : Cont) :
    0 ≤ (avgF (c1.value bias) (c2.value bias)).val ∧ (avgF (c1.value bias) (c2.value bias)).val ≤ 1 :=
  avgF_range (contValue_range bias c1).2 (contValue_range bias c2).2

/-! ### the angular similarity as a double: everything but `acos` -/

/-- the argument handed to `acos` never exceeds 1: the code clamps with `f64::min(·, 1.)`, so `acos`
    cannot return NaN, whatever the (possibly wrapped) integers are -/
theorem angular_cos_arg_le_one (p a b : Nat) : (cosArg p a b).val ≤ 1 ∧ 0 ≤ (cosArg p a b).val :=
  ⟨cosArg_le_one p a b, F64.F.val_nonneg _⟩

/-- under `AcosLaws` the reported angular similarity is a non-negative double at most 1, for all inputs -/
theorem angular_f64_range {acos : F64.F → F64.F} (L : AcosLaws acos) (p a b : Nat) :
    (angularValue acos p a b).neg = false ∧ (angularValue acos p a b).a.val ≤ 1 := by
  unfold angularValue
  split
  · exact ⟨rfl, by simp [F64.SF.zero, F64.F.val]⟩
  · exact angTail_range L (cosArg_le_one p a b)

/-- no common hash (dot product 0): exactly `0.0` -/
theorem angular_f64_disjoint {acos : F64.F → F64.F} (L : AcosLaws acos) {a b : Nat} :
    (angularValue acos 0 a b).neg = false ∧ (angularValue acos 0 a b).a.m = 0 := by
  unfold angularValue
  split
  · exact ⟨rfl, rfl⟩
  · apply angTail_at_zero L
    unfold cosArg
    simp only
    have h0 : (F64.div (F64.ofNat 0) (F64.fmul (F64.sqrt (F64.ofNat a)) (F64.sqrt (F64.ofNat b)))).m = 0 :=
      F64.div_zero_num (by decide)
    split
    · rename_i hge
      exfalso
      have := (F64.ge_iff_val _ _).1 hge
      rw [F64.one_val, F64.val_zero_mant h0] at this
      linarith
    · exact h0

/-- a sketch against itself: the similarity is exactly `1.0` **iff the clamp delivers 1**, for which it
    suffices that the rounded square of the rounded norm does not exceed `Σa²` -/
theorem angular_f64_self {acos : F64.F → F64.F} (L : AcosLaws acos) {S : Nat} (hS : 0 < S)
    (h : (F64.fmul (F64.sqrt (F64.ofNat S)) (F64.sqrt (F64.ofNat S))).val ≤ (F64.ofNat S).val)
    (hn : 0 < (F64.fmul (F64.sqrt (F64.ofNat S)) (F64.sqrt (F64.ofNat S))).m) :
    angularValue acos S S S = F64.SF.one := by
  unfold angularValue
  rw [if_neg (by omega), cosArg_eq_one_of_le hS hn h]
  exact angTail_at_one L F64.one_val

/-- **finding `C05:angular-self-not-1` at model level**: for abundances (1, 1) — `Σa² = 2` — the argument
    handed to `acos` is `1 - 2^-52`, not 1: `fl(√2)·fl(√2)` rounds to `2 + 2^-51 > 2`.  Every exact IEEE
    operation involved is modelled; only `acos` is outside -/
theorem angular_self_not_one_example :
    cosArg 2 2 2 = ⟨2 ^ 53 - 2, -53⟩ ∧ (cosArg 2 2 2).val < 1 ∧
    (F64.canon (F64.fmul (F64.sqrt (F64.ofNat 2)) (F64.sqrt (F64.ofNat 2)))) = ⟨2 ^ 52 + 1, -51⟩ := by
  refine ⟨by decide +kernel, ?_, by decide +kernel⟩
  have : cosArg 2 2 2 = ⟨2 ^ 53 - 2, -53⟩ := by decide +kernel
  rw [this]
  simp only [F64.F.val]
  norm_num

/-- when the unclamped quotient EXCEEDS 1: `Σa² = 3` (abundances (1, 1, 1)): `fl(√3)·fl(√3) < 3`, the
    quotient is `1 + 2^-52`, and the clamp returns `1.0` -/
theorem cos_unclamped_exceeds_one_example :
    F64.canon (F64.div (F64.ofNat 3) (F64.fmul (F64.sqrt (F64.ofNat 3)) (F64.sqrt (F64.ofNat 3)))) =
      ⟨2 ^ 52 + 1, -52⟩ ∧ cosArg 3 3 3 = F64.one := by
  decide +kernel

/-! ### behaviour the statement does not cover, recorded -/

/-- two num sketches with DIFFERENT `num` pass `check_compatible`; `similarity` answers (asymmetrically:
    the bottom-`self.num` of the union), Python `jaccard` refuses with TypeError -/
theorem num_mismatch_answered_example :
    let n5 : MH := (MH.new 0 21 1 42 false 5).addMany [1, 2, 3, 4, 5, 6, 7]
    let n3 : MH := (MH.new 0 21 1 42 false 3).addMany [2, 3, 9]
    Compatible n5 n3 ∧ Cmp.similarity n5 n3 false false = .ok (.jac 2 5) ∧
    Cmp.similarity n3 n5 false false = .ok (.jac 2 3) ∧ PyCmp.jaccard n5 n3 false = .error .pyType := by
  unfold Compatible
  decide +kernel

/-! ### `u64` overflow of the sums of squared abundances (finding `C05:angular-u64-overflow`)

Abundances are `u64` and `set_abundances` / `add_hash_with_abundance` accept any of them; the release
build accumulates `a*a` and the dot product in `u64` WITH WRAP-AROUND.  `dot_eq` is true of the wrapped
values; the textbook quantity is only reported when nothing wraps (`dot_eq_no_overflow`).  The range
`[0, 1]` survives (the clamp and `angular_f64_range` do not care what the integers are), the VALUE does not: -/

/-- one hash with abundance 2^32: `a*a = 2^64` wraps to 0, the norm is 0, and the sketch has similarity
    `0.0` WITH ITSELF (textbook: 1) -/
theorem overflow_example :
    let a : MH := (MH.new 1 21 1 42 true 0).addHashAb 7 (2 ^ 32)
    angularParts a a = .ok (0, 0, 0) ∧ normSq a = 2 ^ 64 ∧
    ∀ acos, angularValue acos 0 0 0 = F64.SF.zero := by
  refine ⟨by decide +kernel, by decide +kernel, fun _ => rfl⟩

/-- two almost orthogonal sketches (cosine `2^33 / (2^64 + 1) ≈ 4.7e-10`): both sums of squares wrap to 1,
    the quotient `2^33 / 1` is clamped, and the similarity reported is exactly `1.0` under every `acos`
    satisfying `AcosLaws` -/
theorem overflow_orthogonal_example :
    let e : MH := (MH.new 1 21 1 42 true 0).addManyAb [(1, 2 ^ 32), (2, 1)]
    let f : MH := (MH.new 1 21 1 42 true 0).addManyAb [(1, 1), (2, 2 ^ 32)]
    angularParts e f = .ok (2 ^ 33, 1, 1) ∧ dot e f = 2 ^ 33 ∧ normSq e = 2 ^ 64 + 1 ∧ normSq f = 2 ^ 64 + 1 ∧
    cosArg (2 ^ 33) 1 1 = F64.one ∧
    (∀ acos, AcosLaws acos → angularValue acos (2 ^ 33) 1 1 = F64.SF.one) := by
  refine ⟨by decide +kernel, by decide +kernel, by decide +kernel, by decide +kernel, by decide +kernel, ?_⟩
  intro acos L
  unfold angularValue
  rw [if_neg (by decide)]
  have : cosArg (2 ^ 33) 1 1 = F64.one := by decide +kernel
  rw [this]
  exact angTail_at_one L F64.one_val

/-! ### non-vacuity: concrete sketches satisfying the hypotheses, with the values the theorems give -/

section Examples

private def exA : MH := (MH.new 1 21 1 42 false 0).addMany [3, 1, 2, 2]
private def exB : MH := (MH.new 1 21 1 42 false 0).addMany [5, 4, 3, 2]
private def exX : MH := (MH.new 1 21 1 42 true 0).addManyAb [(1, 2), (2, 3)]
private def exY : MH := (MH.new 1 21 1 42 true 0).addManyAb [(2, 5), (7, 1)]

example : Inv exA ∧ Inv exB ∧ Compatible exA exB ∧ exA.num = 0 ∧ Py.scaledProp exA ≠ 0 ∧ exA.mins ≠ [] :=
  ⟨inv_addMany (inv_new ..) (Excl.new (Or.inr rfl)) _, inv_addMany (inv_new ..) (Excl.new (Or.inr rfl)) _,
   by unfold Compatible; decide +kernel, rfl, by decide +kernel, by decide +kernel⟩

example : common exA exB = 2 ∧ union exA exB = 5 ∧ Cmp.intersectionSize exA exB = .ok (2, 5) ∧
    Cmp.countCommon exA exB false = .ok 2 ∧ jaccardParts exA exB = .ok (2, 5) ∧
    containedBy exA exB false = .ok (.ratio 2 3 1) ∧ maxContainment exA exB false = .ok (.ratio 2 3 1) := by
  decide +kernel

example : Inv exX ∧ Inv exY ∧ Compatible exX exY ∧ exX.trackAbundance = true ∧ exY.trackAbundance = true :=
  ⟨inv_addManyAb (inv_new ..) (Excl.new (Or.inr rfl)) _, inv_addManyAb (inv_new ..) (Excl.new (Or.inr rfl)) _,
   by unfold Compatible; decide +kernel, by decide +kernel, by decide +kernel⟩

example : dot exX exY = 15 ∧ normSq exX = 13 ∧ normSq exY = 26 ∧ angularParts exX exY = .ok (15, 13, 26) ∧
    Cmp.similarity exX exY false false = .ok (.ang 15 13 26) ∧
    Cmp.similarity exX exY true false = .ok (.jac 1 3) := by
  decide +kernel

-- num sketches: A = {1..5} (of 1..7), B = {2,3,9}, n = 5: U = {1,2,3,4,5}, A ∩ B ∩ U = {2,3}
example :
    let n5 : MH := (MH.new 0 21 1 42 false 5).addMany [1, 2, 3, 4, 5, 6, 7]
    let m5 : MH := (MH.new 0 21 1 42 false 5).addMany [2, 3, 9]
    n5.num ≠ 0 ∧ n5.maxHash = 0 ∧ Compatible n5 m5 ∧ Cmp.intersectionSize n5 m5 = .ok (2, 5) := by
  unfold Compatible
  decide +kernel

-- incompatible in each single field
example :
    let a : MH := MH.new 1 21 1 42 false 0
    ¬ Compatible a (MH.new 1 31 1 42 false 0) ∧ ¬ Compatible a (MH.new 1 21 2 42 false 0) ∧
    ¬ Compatible a (MH.new 1 21 1 43 false 0) ∧ ¬ Compatible a (MH.new 2 21 1 42 false 0) ∧
    ¬ Compatible a (MH.new 0 21 1 42 false 5) ∧ CoreMismatch a (MH.new 1 31 1 42 false 0) := by
  unfold Compatible CoreMismatch
  decide +kernel

-- the exact double: 2/5 = 0x1.999999999999ap-2
example : (Cmp.jaccard exA exB).map F64.canon = .ok ⟨3602879701896397, -53⟩ := by decide +kernel

end Examples

end Sm.C05
